/-
  C09 helper (round 4): what one call of `MDSDRV_Track_Writer::event_hook` (`Mds.hook`) appends to the
  writer's event list, in the terms of the reader fragment `MdsRead.Frag`: every appended event has
  a defined encoding (`okEv`), `LP` is appended exactly for a visible `LOOP_START`, `LPF` exactly for
  a visible `LOOP_END`, the only terminator a hook call appends is the `DMFINISH` of a drum routine
  (then the writer is disabled and the player's stack top is not a loop, D25), `rest_time` stays
  16 bits wide.  Platform commands: the side condition `platformFrag`.
-/
import Ctrmml.Proofs.MdsInv
import Ctrmml.Spec.MdsFrag
namespace Ctrmml.MdsFragP
open Ctrmml Ctrmml.Mds Ctrmml.Player Ctrmml.MdsRead Tables

/-- the opcode part of `okEv` without the `SEGNO` clause -/
def okTy (ty : Nat) : Bool :=
  (decide (mds_REST ≤ ty) && decide (ty < mds_SLR)) ||
   ty == mds_SLR || ty == mds_FINISH || byteArgOps.contains ty || wordArgOps.contains ty ||
   ty == mds_MTAB || ty == mds_INS || ty == mds_PCM || ty == mds_PEG || ty == mds_JUMP ||
   ty == mds_PAT || ty == mds_LP || ty == mds_LPB || ty == mds_LPF

theorem okEv_of_okTy {ty a : Nat} (ha : a ≤ 65535) (ht : okTy ty = true) : okEv ⟨ty, a⟩ = true := by
  unfold okEv
  unfold okTy at ht
  simp only [decide_eq_true ha, Bool.true_and]
  simp only [Bool.or_eq_true] at ht ⊢
  grind

def neutralTy (ty : Nat) : Bool := okTy ty && !isTermOp ty && !(ty == mds_LP) && !(ty == mds_LPF)

theorem neutral_of_ty {ty a : Nat} (ha : a ≤ 65535) (ht : neutralTy ty = true) : neutralEv ⟨ty, a⟩ = true := by
  unfold neutralTy at ht
  unfold neutralEv
  simp only [Bool.and_eq_true] at ht ⊢
  exact ⟨⟨⟨okEv_of_okTy ha ht.1.1.1, ht.1.1.2⟩, ht.1.2⟩, ht.2⟩

theorem u16_le (x : Int) : u16 x ≤ 65535 := by unfold u16; omega

theorem neutralTy_note (k : Nat) (hk : k < 94) : neutralTy ((mds_NOTE + k) % 256) = true := by
  have e : (mds_NOTE + k) % 256 = 130 + k := by show (130 + k) % 256 = 130 + k; omega
  rw [e]
  unfold neutralTy okTy isTermOp
  have h1 : decide (mds_REST ≤ 130 + k) = true := decide_eq_true (by show 128 ≤ 130 + k; omega)
  have h2 : decide (130 + k < mds_SLR) = true := decide_eq_true (by show 130 + k < 224; omega)
  have h3 : (130 + k == mds_FINISH) = false := by rw [beq_eq_false_iff_ne]; show 130 + k ≠ 255; omega
  have h4 : (130 + k == mds_JUMP) = false := by rw [beq_eq_false_iff_ne]; show 130 + k ≠ 245; omega
  have h5 : (130 + k == mds_DMFINISH) = false := by rw [beq_eq_false_iff_ne]; show 130 + k ≠ 247; omega
  have h6 : (130 + k == mds_LP) = false := by rw [beq_eq_false_iff_ne]; show 130 + k ≠ 250; omega
  have h7 : (130 + k == mds_LPF) = false := by rw [beq_eq_false_iff_ne]; show 130 + k ≠ 251; omega
  simp [h1, h2, h3, h4, h5, h6, h7]

theorem neutral_all_append {a b : List MEv} (ha : ∀ x ∈ a, neutralEv x = true) (hb : ∀ x ∈ b, neutralEv x = true) :
    ∀ x ∈ a ++ b, neutralEv x = true := by
  intro x hx
  rcases List.mem_append.mp hx with h | h
  · exact ha x h
  · exact hb x h

theorem flushRest_frag (w : WState) (hr : w.restTime < 65536) :
    ∃ pre, (flushRest w).out = w.out ++ pre ∧ (∀ x ∈ pre, neutralEv x = true) ∧ (flushRest w).restTime < 65536 ∧
      (flushRest w).inDrum = w.inDrum ∧ (flushRest w).disabled = w.disabled := by
  unfold flushRest
  split
  · refine ⟨[⟨mds_REST, w.restTime⟩], rfl, ?_, by show 0 < 65536; omega, rfl, rfl⟩
    intro x hx
    rw [List.mem_singleton] at hx; subst hx
    exact neutral_of_ty (by omega) (by decide)
  · exact ⟨[], by simp, by simp, hr, rfl, rfl⟩

theorem prep_frag (w : WState) (it : TraceItem) (hr : w.restTime < 65536) :
    ∃ pre, (prep w it).out = w.out ++ pre ∧ (∀ x ∈ pre, neutralEv x = true) ∧ (prep w it).restTime < 65536 ∧
      (prep w it).inDrum = w.inDrum ∧ (prep w it).disabled = w.disabled := by
  obtain ⟨w1, hw1⟩ : ∃ w1, w1 = (if it.ev.type ≠ ev_REST then flushRest w else w) := ⟨_, rfl⟩
  have h1 : ∃ pre, w1.out = w.out ++ pre ∧ (∀ x ∈ pre, neutralEv x = true) ∧ w1.restTime < 65536 ∧ w1.inDrum = w.inDrum
      ∧ w1.disabled = w.disabled := by
    rw [hw1]; split
    · exact flushRest_frag w hr
    · exact ⟨[], by simp, by simp, hr, rfl, rfl⟩
  obtain ⟨w2, hw2⟩ : ∃ w2, w2 = (if w1.restTime + it.off > 0xffff then flushRest w1 else w1) := ⟨_, rfl⟩
  have h2 : ∃ pre, w2.out = w.out ++ pre ∧ (∀ x ∈ pre, neutralEv x = true) ∧ w2.inDrum = w.inDrum
      ∧ w2.disabled = w.disabled := by
    obtain ⟨p1, e1, r1, b1, i1, t1⟩ := h1
    rw [hw2]; split
    · obtain ⟨p2, e2, r2, _, i2, t2⟩ := flushRest_frag w1 b1
      exact ⟨p1 ++ p2, by rw [e2, e1, List.append_assoc], neutral_all_append r1 r2, by rw [i2, i1], by rw [t2, t1]⟩
    · exact ⟨p1, e1, r1, i1, t1⟩
  have : prep w it = { w2 with restTime := (w2.restTime + it.off) % 65536 } := by
    unfold prep; simp only [hw2, hw1]
  rw [this]
  obtain ⟨p, e, r, i, t⟩ := h2
  exact ⟨p, e, r, Nat.mod_lt _ (by decide), i, t⟩

/-- what a successful hook call does to the writer's list -/
inductive HookFrag (w : WState) (it : TraceItem) (w' : WState) : Prop
  | silent : (it.insideLoop = true ∨ it.insideJump = true) → w' = w → HookFrag w it w'
  | neutral (evs : List MEv) : it.insideLoop = false → it.insideJump = false →
      it.ev.type ≠ ev_LOOP_START → it.ev.type ≠ ev_LOOP_END →
      w'.out = w.out ++ evs → (∀ x ∈ evs, neutralEv x = true) →
      w'.disabled = false → w'.restTime < 65536 → w'.inDrum = w.inDrum → HookFrag w it w'
  | lp (pre : List MEv) (a : Nat) : it.insideLoop = false → it.insideJump = false → it.ev.type = ev_LOOP_START →
      w'.out = w.out ++ pre ++ [⟨mds_LP, a⟩] → a ≤ 65535 → (∀ x ∈ pre, neutralEv x = true) →
      w'.disabled = false → w'.restTime < 65536 → w'.inDrum = w.inDrum → HookFrag w it w'
  | lpf (pre : List MEv) (a : Nat) : it.insideLoop = false → it.insideJump = false → it.ev.type = ev_LOOP_END →
      w'.out = w.out ++ pre ++ [⟨mds_LPF, a⟩] → a ≤ 65535 → (∀ x ∈ pre, neutralEv x = true) →
      w'.disabled = false → w'.restTime < 65536 → w'.inDrum = w.inDrum → HookFrag w it w'
  | dmfinish (pre : List MEv) (a : Nat) : it.insideLoop = false → it.insideJump = false →
      it.ev.type ≠ ev_LOOP_START → it.ev.type ≠ ev_LOOP_END → it.topLoop = false →
      w'.out = w.out ++ pre ++ [⟨mds_DMFINISH, a⟩] → a ≤ 65535 → (∀ x ∈ pre, neutralEv x = true) →
      w'.disabled = true → HookFrag w it w'

section
variable {w w1 : WState} {it : TraceItem} {pre : List MEv}

theorem hf_push (q1 : it.insideLoop = false) (q2 : it.insideJump = false) (hpre : w1.out = w.out ++ pre)
    (hn : ∀ x ∈ pre, neutralEv x = true) (hr1 : w1.restTime < 65536) (hd1 : w1.disabled = false) (hi1 : w1.inDrum = w.inDrum)
    (s1 : it.ev.type ≠ ev_LOOP_START) (s2 : it.ev.type ≠ ev_LOOP_END)
    (w' : WState) (ty : Nat) (arg : Int) (hty : neutralTy (ty % 256) = true)
    (ho : w'.out = w1.out ++ [⟨ty % 256, u16 arg⟩]) (hd : w'.disabled = w1.disabled) (hr : w'.restTime = w1.restTime)
    (hi : w'.inDrum = w1.inDrum) : HookFrag w it w' := by
  refine HookFrag.neutral (pre ++ [⟨ty % 256, u16 arg⟩]) q1 q2 s1 s2 (by rw [ho, hpre, List.append_assoc]) ?_
    (by rw [hd, hd1]) (by rw [hr]; exact hr1) (by rw [hi, hi1])
  apply neutral_all_append hn
  intro x hx
  rw [List.mem_singleton] at hx; subst hx
  exact neutral_of_ty (u16_le _) hty

theorem hf_list (q1 : it.insideLoop = false) (q2 : it.insideJump = false) (hpre : w1.out = w.out ++ pre)
    (hn : ∀ x ∈ pre, neutralEv x = true) (hr1 : w1.restTime < 65536) (hd1 : w1.disabled = false) (hi1 : w1.inDrum = w.inDrum)
    (s1 : it.ev.type ≠ ev_LOOP_START) (s2 : it.ev.type ≠ ev_LOOP_END)
    (w' : WState) (evs : List MEv) (hev : ∀ x ∈ evs, neutralEv x = true)
    (ho : w'.out = w1.out ++ evs) (hd : w'.disabled = w1.disabled) (hr : w'.restTime = w1.restTime)
    (hi : w'.inDrum = w1.inDrum) : HookFrag w it w' :=
  HookFrag.neutral (pre ++ evs) q1 q2 s1 s2 (by rw [ho, hpre, List.append_assoc]) (neutral_all_append hn hev)
    (by rw [hd, hd1]) (by rw [hr]; exact hr1) (by rw [hi, hi1])
end

theorem platform_mem {d : DataInfo} (hpf : MdsFile.platformFrag d = true) {k : Int} {evs : List MEv}
    (hl : d.platform.lookup k = some (some evs)) : ∀ x ∈ evs, neutralEv x = true := by
  unfold MdsFile.platformFrag at hpf
  have hm := lookup_some_mem _ _ _ hl
  have := (List.all_eq_true.mp hpf) _ hm
  simp only [] at this
  exact fun x hx => (List.all_eq_true.mp this) x hx

set_option hygiene false in
macro "ncase" : tactic => `(tactic| (
  simp only [Except.ok.injEq, Prod.mk.injEq] at h
  obtain ⟨rfl, rfl⟩ := h
  exact hf_push q1 q2 hpre hn hr1 hd1 hi1 hS1 hS2 _ _ _ (by decide) rfl rfl rfl rfl))

theorem hook_frag {song : Song} {d : DataInfo} (hpf : MdsFile.platformFrag d = true) {n : Nat} {c c' : Conv} {w w' : WState}
    {it : TraceItem} (hr : w.restTime < 65536) (hd : w.disabled = false)
    (h : hook song d n c w it = .ok (c', w')) : HookFrag w it w' := by
  cases n with
  | zero => simp only [hook] at h; cases h
  | succ n =>
  rw [hook_succ_eq] at h
  split at h
  · rename_i hq
    have hcw : c' = c ∧ w' = w := by
      split at h
      · split at h
        · simp at h
        · simp at h; exact ⟨h.1.symm, h.2.symm⟩
      · simp at h; exact ⟨h.1.symm, h.2.symm⟩
    exact HookFrag.silent hq hcw.2
  · rename_i hq
    have q1 : it.insideLoop = false := by cases hx : it.insideLoop <;> simp_all
    have q2 : it.insideJump = false := by cases hx : it.insideJump <;> simp_all
    obtain ⟨pre, hpre, hn, hr1, hi1, hd1'⟩ := prep_frag w it hr
    have hd1 : (prep w it).disabled = false := by rw [hd1', hd]
    clear hd1'
    generalize prep w it = w1 at *
    unfold hookVis at h
    by_cases t1 : it.ev.type = ev_TIE
    · rw [if_pos t1] at h
      have hS1 : it.ev.type ≠ ev_LOOP_START := by rw [t1]; decide
      have hS2 : it.ev.type ≠ ev_LOOP_END := by rw [t1]; decide
      ncase
    rw [if_neg t1] at h
    by_cases t2 : it.ev.type = ev_NOTE
    · rw [if_pos t2] at h
      have hS1 : it.ev.type ≠ ev_LOOP_START := by rw [t2]; decide
      have hS2 : it.ev.type ≠ ev_LOOP_END := by rw [t2]; decide
      -- the note number (a routine index in drum mode), whatever it is
      generalize (if w1.drumEnabled = true then
          match getSubroutine song d n c it.ev.param true false with
          | .error x => (Except.error x : Except WErr (Conv × Int))
          | .ok (c', id) => .ok (c', wrap16 id)
        else .ok (c, it.ev.param)) = r at h
      cases r with
      | error x => simp at h
      | ok p =>
        obtain ⟨c2, prm⟩ := p
        simp only [] at h
        obtain ⟨q, hq'⟩ : ∃ q, q = (if prm < 0 then 0 else prm) := ⟨_, rfl⟩
        have hq0 : 0 ≤ q := by rw [hq']; split <;> omega
        rw [← hq'] at h
        by_cases hin : w1.inDrum = true
        · rw [if_pos hin] at h
          by_cases htl : it.topLoop = true
          · rw [if_pos htl] at h; simp at h
          rw [if_neg htl] at h
          by_cases hgt : q > 255
          · rw [if_pos hgt] at h; simp at h
          · rw [if_neg hgt] at h
            simp only [Except.ok.injEq, Prod.mk.injEq] at h
            obtain ⟨rfl, rfl⟩ := h
            refine HookFrag.dmfinish pre (u16 q) q1 q2 hS1 hS2 (by simpa using htl) ?_ (u16_le _) hn rfl
            show (w1.out ++ [⟨mds_DMFINISH % 256, u16 q⟩]) = _
            rw [hpre]; rfl
        · rw [if_neg hin] at h
          by_cases hgt : q ≥ ((mds_SLR - mds_NOTE : Nat) : Int)
          · rw [if_pos hgt] at h; simp at h
          · rw [if_neg hgt] at h
            simp only [Except.ok.injEq, Prod.mk.injEq] at h
            obtain ⟨rfl, rfl⟩ := h
            have h94 : q.toNat < 94 := by
              have : ((mds_SLR - mds_NOTE : Nat) : Int) = 94 := by decide
              rw [this] at hgt; omega
            exact hf_push q1 q2 hpre hn hr1 hd1 hi1 hS1 hS2 _ _ _ (neutralTy_note _ h94) rfl rfl rfl rfl
    rw [if_neg t2] at h
    by_cases t3 : it.ev.type = ev_LOOP_START
    · rw [if_pos t3] at h
      simp only [Except.ok.injEq, Prod.mk.injEq] at h
      obtain ⟨rfl, rfl⟩ := h
      refine HookFrag.lp pre (u16 0) q1 q2 t3 ?_ (u16_le _) hn hd1 hr1 hi1
      show (w1.out ++ [⟨mds_LP % 256, u16 0⟩]) = _
      rw [hpre]; rfl
    rw [if_neg t3] at h
    by_cases t4 : it.ev.type = ev_LOOP_BREAK
    · rw [if_pos t4] at h
      have hS1 := t3
      have hS2 : it.ev.type ≠ ev_LOOP_END := by rw [t4]; decide
      ncase
    rw [if_neg t4] at h
    by_cases t5 : it.ev.type = ev_LOOP_END
    · rw [if_pos t5] at h
      simp only [Except.ok.injEq, Prod.mk.injEq] at h
      obtain ⟨rfl, rfl⟩ := h
      refine HookFrag.lpf pre (u16 it.ev.param) q1 q2 t5 ?_ (u16_le _) hn hd1 hr1 hi1
      show (w1.out ++ [⟨mds_LPF % 256, u16 it.ev.param⟩]) = _
      rw [hpre]; rfl
    rw [if_neg t5] at h
    have hS1 := t3
    have hS2 := t5
    by_cases t6 : it.ev.type = ev_SEGNO
    · rw [if_pos t6] at h
      simp only [Except.ok.injEq, Prod.mk.injEq] at h
      obtain ⟨rfl, rfl⟩ := h
      refine hf_list q1 q2 hpre hn hr1 hd1 hi1 hS1 hS2 _ [⟨mds_SEGNO % 256, u16 0⟩] ?_ rfl rfl rfl rfl
      intro x hx
      rw [List.mem_singleton] at hx; subst hx
      decide
    rw [if_neg t6] at h
    by_cases t7 : it.ev.type = ev_JUMP
    · rw [if_pos t7] at h
      cases hg : getSubroutine song d n c it.ev.param false w1.drumEnabled with
      | error x => rw [hg] at h; simp at h
      | ok p =>
        obtain ⟨c2, id⟩ := p
        rw [hg] at h
        ncase
    rw [if_neg t7] at h
    by_cases t8 : it.ev.type = ev_SLUR
    · rw [if_pos t8] at h; ncase
    rw [if_neg t8] at h
    by_cases t9 : it.ev.type = ev_PLATFORM
    · rw [if_pos t9] at h
      cases hl : d.platform.lookup it.ev.param with
      | none => rw [hl] at h; simp at h
      | some o =>
        cases o with
        | none => rw [hl] at h; simp at h
        | some evs =>
          rw [hl] at h
          simp only [Except.ok.injEq, Prod.mk.injEq] at h
          obtain ⟨rfl, rfl⟩ := h
          exact hf_list q1 q2 hpre hn hr1 hd1 hi1 hS1 hS2 _ evs (platform_mem hpf hl) rfl rfl rfl rfl
    rw [if_neg t9] at h
    by_cases t10 : it.ev.type = ev_TRANSPOSE_REL
    · rw [if_pos t10] at h; ncase
    rw [if_neg t10] at h
    by_cases t11 : it.ev.type = ev_VOL
    · rw [if_pos t11] at h; ncase
    rw [if_neg t11] at h
    by_cases t12 : it.ev.type = ev_VOL_REL ∨ it.ev.type = ev_VOL_FINE_REL
    · rw [if_pos t12] at h; ncase
    rw [if_neg t12] at h
    by_cases t13 : it.ev.type = ev_TEMPO_BPM
    · rw [if_pos t13] at h; ncase
    rw [if_neg t13] at h
    by_cases t14 : it.ev.type = ev_INS
    · rw [if_pos t14] at h
      cases hc : checkInstrument d w1.trackId it.ev.param with
      | error x => rw [hc] at h; simp at h
      | ok u =>
        rw [hc] at h
        cases h1 : d.insType.lookup it.ev.param with
        | none => rw [h1] at h; simp at h
        | some ty =>
          cases h2 : d.envelopeMap.lookup it.ev.param with
          | none => rw [h1, h2] at h; simp at h
          | some idx =>
            rw [h1, h2] at h
            by_cases hp : ty ≠ mdsIns_INS_PCM
            · simp only [if_pos hp] at h
              ncase
            · simp only [if_neg hp] at h
              ncase
    rw [if_neg t14] at h
    by_cases t15 : it.ev.type = ev_TRANSPOSE
    · rw [if_pos t15] at h; ncase
    rw [if_neg t15] at h
    by_cases t16 : it.ev.type = ev_DETUNE
    · rw [if_pos t16] at h; ncase
    rw [if_neg t16] at h
    by_cases t17 : it.ev.type = ev_VOL_FINE
    · rw [if_pos t17] at h; ncase
    rw [if_neg t17] at h
    by_cases t18 : it.ev.type = ev_PAN
    · rw [if_pos t18] at h; ncase
    rw [if_neg t18] at h
    by_cases t19 : it.ev.type = ev_PAN_ENVELOPE
    · rw [if_pos t19] at h
      by_cases hp : it.ev.param ≠ 0
      · rw [if_pos hp] at h
        cases hg : getMacroTrack song d n c it.ev.param with
        | error x => rw [hg] at h; simp at h
        | ok p =>
          obtain ⟨c2, id⟩ := p
          rw [hg] at h
          ncase
      · rw [if_neg hp] at h
        ncase
    rw [if_neg t19] at h
    by_cases t20 : it.ev.type = ev_PITCH_ENVELOPE
    · rw [if_pos t20] at h
      by_cases hp : it.ev.param ≠ 0
      · rw [if_pos hp] at h
        cases hl : d.pitchMap.lookup it.ev.param with
        | none => rw [hl] at h; simp at h
        | some idx =>
          rw [hl] at h
          ncase
      · rw [if_neg hp] at h
        ncase
    rw [if_neg t20] at h
    by_cases t21 : it.ev.type = ev_PORTAMENTO
    · rw [if_pos t21] at h; ncase
    rw [if_neg t21] at h
    by_cases t22 : it.ev.type = ev_DRUM_MODE
    · rw [if_pos t22] at h; ncase
    rw [if_neg t22] at h
    by_cases t23 : it.ev.type = ev_TEMPO
    · rw [if_pos t23] at h; ncase
    rw [if_neg t23] at h
    simp only [Except.ok.injEq, Prod.mk.injEq] at h
    obtain ⟨rfl, rfl⟩ := h
    exact hf_list q1 q2 hpre hn hr1 hd1 hi1 hS1 hS2 _ [] (by simp) (by simp) rfl rfl rfl

end Ctrmml.MdsFragP
