/-
  Helper lemmas for Properties/C15: which of the converter model's undefined-behaviour
  constructors `MdsFile.exportMds` can return.

    * `FErr.riff`: never — `get_mds` only adds chunks to list chunks (`RIFF` / `LIST`);
    * `FErr.codec .atEmpty`: never — no path of `Model/MdsCodec` / `convertMacroTrack` produces it;
    * `FErr.codec .stackEmpty` and `FErr.headerWrap` are `InputError`s of the C++ since repository
      fixes 3e0ed67 / 5952bf5 (both were reachable: `A 'cmd 251 2' c`; notes/c15_header_wrap.py).
-/
import Ctrmml.Model.Pipeline
namespace Ctrmml.Pipeline
open Ctrmml Ctrmml.Mds Ctrmml.MdsFile Tables

/-! ### `get_mds` never fails in the RIFF writer -/

theorem addChunk_list {r : Riff.Riff} (h : Riff.isList r.type = true) (c : Riff.Riff) :
    ∃ r', Riff.addChunk r c = .ok r' ∧ r'.type = r.type := by
  unfold Riff.addChunk
  simp only [h, if_true]
  exact ⟨_, rfl, rfl⟩

theorem isList_riff : Riff.isList Riff.TYPE_RIFF = true := by decide
theorem isList_list : Riff.isList Riff.TYPE_LIST = true := by decide

theorem addEntries_no_riff (nS nM : Nat) (bank : List (List Nat)) :
    ∀ (l : List (Nat × Nat)) (dblk : Riff.Riff), Riff.isList dblk.type = true →
      (∀ e, addEntries nS nM bank dblk l ≠ .error (.riff e)) ∧
      ∀ d', addEntries nS nM bank dblk l = .ok d' → d'.type = dblk.type := by
  intro l
  induction l with
  | nil =>
    intro dblk _
    refine ⟨fun e h => by simp [addEntries] at h, fun d' h => ?_⟩
    simp only [addEntries, Except.ok.injEq] at h
    rw [← h]
  | cons p rest ih =>
    intro dblk hl
    obtain ⟨mapped, envId⟩ := p
    unfold addEntries
    split
    · exact ⟨fun e h => (by cases h), fun d' h => (by cases h)⟩
    · rename_i dat _
      obtain ⟨r', hr, ht⟩ := addChunk_list hl
        (Riff.mk2 (if mapped < mdsFile_pcmTag then mdsFile_glob else mdsFile_pcmh) (le32 (entryId nS nM mapped envId) ++ toU8 dat))
      simp only [hr]
      obtain ⟨g1, g2⟩ := ih r' (by rw [ht]; exact hl)
      exact ⟨g1, fun d' h => by rw [g2 d' h, ht]⟩

theorem getMds_no_riff (b : Built) (bank : List (List Nat)) (group pcm : Bytes) (e : Riff.Err) :
    getMds b bank group pcm ≠ .error (.riff e) := by
  unfold getMds
  obtain ⟨r1, h1, t1⟩ := addChunk_list (r := Riff.mk3 Riff.TYPE_RIFF mdsFile_MDS0) isList_riff
    (Riff.mk2 mdsFile_ver (toU8 [MDSDRV_SEQ_VERSION_MAJOR, MDSDRV_SEQ_VERSION_MINOR]))
  have l1 : Riff.isList r1.type = true := by rw [t1]; exact isList_riff
  obtain ⟨r2, h2, t2⟩ := addChunk_list l1 (Riff.mk2 mdsFile_grp group)
  have l2 : Riff.isList r2.type = true := by rw [t2]; exact l1
  obtain ⟨r3, h3, t3⟩ := addChunk_list l2 (Riff.mk2 mdsFile_seq (toU8 b.seq))
  have l3 : Riff.isList r3.type = true := by rw [t3]; exact l2
  simp only [h1, h2, h3, liftRiff, bind, Except.bind]
  obtain ⟨g1, g2⟩ := addEntries_no_riff b.conv.subList.length b.conv.macroList.length bank (usedSorted b.conv)
    (Riff.mk3 Riff.TYPE_LIST mdsFile_dblk) isList_list
  cases hd : addEntries b.conv.subList.length b.conv.macroList.length bank (Riff.mk3 Riff.TYPE_LIST mdsFile_dblk)
      (usedSorted b.conv) with
  | error x =>
    simp only
    intro h
    injection h with h
    exact g1 e (by rw [hd, h])
  | ok dblk =>
    simp only
    obtain ⟨r4, h4, t4⟩ := addChunk_list l3 dblk
    have l4 : Riff.isList r4.type = true := by rw [t4]; exact l3
    obtain ⟨r5, h5, _⟩ := addChunk_list l4 (Riff.mk2 mdsFile_pcmd pcm)
    simp only [h4, h5, pure, Except.pure]
    intro h
    cases h

/-! ### the codec never reports `at()` on an empty stream -/

/-- not `at()` on an empty stream -/
def NA {α : Type} (x : Except CErr α) : Prop := x ≠ .error .atEmpty

theorem NA_ok {α : Type} (a : α) : NA (.ok a : Except CErr α) := fun h => by cases h
theorem NA_se {α : Type} : NA (.error .stackEmpty : Except CErr α) := fun h => by cases h
theorem NA_ite {α : Type} {c : Prop} [Decidable c] {a b : Except CErr α} (ha : NA a) (hb : NA b) :
    NA (if c then a else b) := by
  split
  · exact ha
  · exact hb

theorem needLen_ok (e : Enc) : ∃ b, needLen e = .ok b := by
  unfold needLen
  split
  · split <;> exact ⟨_, rfl⟩
  · exact ⟨_, rfl⟩

theorem disamb_ne (e : Enc) : disamb e ≠ .error .atEmpty := by
  unfold disamb
  obtain ⟨b, hb⟩ := needLen_ok e
  rw [hb]
  cases b <;> (intro h; cases h)

theorem restLoop_ne : ∀ (fuel : Nat) (e : Enc) (arg : Nat), restLoop fuel e arg ≠ .error .atEmpty := by
  intro fuel
  induction fuel with
  | zero => intro e arg h; simp [restLoop] at h
  | succ fuel ih =>
    intro e arg
    unfold restLoop
    split
    · have hd := disamb_ne e
      cases h : disamb e with
      | error x =>
        simp only
        intro h'
        injection h' with h'
        subst h'
        exact hd h
      | ok e1 => exact ih _ _
    · intro h; cases h

theorem encRest_ne (e : Enc) (arg : Nat) : encRest e arg ≠ .error .atEmpty := by
  unfold encRest
  have h1 := restLoop_ne 512 e (arg - 1)
  cases h : restLoop 512 e (arg - 1) with
  | error x =>
    simp only
    intro h'
    injection h' with h'
    subst h'
    exact h1 h
  | ok p =>
    obtain ⟨e1, a⟩ := p
    simp only
    split
    · intro h'; cases h'
    · have h2 := disamb_ne e1
      cases hd : disamb e1 with
      | error x =>
        simp only
        intro h'
        injection h' with h'
        subst h'
        exact h2 hd
      | ok e2 => intro h'; cases h'

theorem encOther_ne (nS nM : Nat) (e : Enc) (ty arg : Nat) : encOther nS nM e ty arg ≠ .error .atEmpty := by
  show NA _
  unfold encOther
  repeat' (first | exact NA_ok _ | exact NA_se | apply NA_ite | split)

theorem encEv_ne (nS nM : Nat) (e : Enc) (ev : MEv) : encEv nS nM e ev ≠ .error .atEmpty := by
  unfold encEv
  split
  · intro h; cases h
  · simp only
    have h1 := encRest_ne e ev.arg
    have h2 := encOther_ne nS nM e ev.type ev.arg
    split
    · rename_i x hx
      intro h
      injection h with h
      subst h
      split at hx
      · exact h1 hx
      · split at hx
        · cases hx
        · exact h2 hx
    · split <;> (intro h; cases h)

theorem encAll_ne (nS nM : Nat) : ∀ (es : List MEv) (e : Enc), encAll nS nM e es ≠ .error .atEmpty := by
  intro es
  induction es with
  | nil => intro e h; cases h
  | cons ev rest ih =>
    intro e
    unfold encAll
    have h1 := encEv_ne nS nM e ev
    cases h : encEv nS nM e ev with
    | error x =>
      simp only
      intro h'
      injection h' with h'
      subst h'
      exact h1 h
    | ok e' => exact ih e'

theorem convertTrackChk_ne (nS nM : Nat) (es : List MEv) : convertTrackChk nS nM es ≠ .error (.codec .atEmpty) := by
  unfold convertTrackChk convertTrack
  split
  · have := encAll_ne nS nM es {}
    cases h : encAll nS nM {} es with
    | error x =>
      simp only [Except.map]
      intro h'
      injection h' with h'
      injection h' with h'
      subst h'
      exact this h
    | ok e => simp [Except.map]
  · have := encAll_ne nS nM (es.takeWhile (idxFits nS nM)) {}
    cases h : encAll nS nM {} (es.takeWhile (idxFits nS nM)) with
    | error x =>
      simp only
      intro h'
      injection h' with h'
      injection h' with h'
      subst h'
      exact this h
    | ok e => simp

theorem macroEv_ne (e : MEnc) (ev : MEv) : macroEv e ev ≠ .error .atEmpty := by
  show NA _
  unfold macroEv
  simp only
  repeat' (first | exact NA_ok _ | exact NA_se | apply NA_ite | split)

theorem macroAll_ne : ∀ (es : List MEv) (e : MEnc), macroAll e es ≠ .error .atEmpty := by
  intro es
  induction es with
  | nil => intro e h; cases h
  | cons ev rest ih =>
    intro e
    unfold macroAll
    have h1 := macroEv_ne e ev
    cases h : macroEv e ev with
    | error x =>
      simp only
      intro h'
      injection h' with h'
      subst h'
      exact h1 h
    | ok e' => exact ih e'

theorem convertMacroTrack_ne (es : List MEv) : convertMacroTrack es ≠ .error (.codec .atEmpty) := by
  unfold convertMacroTrack
  have := macroAll_ne es {}
  cases h : macroAll {} es with
  | error x =>
    simp only
    intro h'
    injection h' with h'
    injection h' with h'
    subst h'
    exact this h
  | ok e => simp

/-- the errors the assembly of the sequence can end in -/
def asmErr : FErr → Prop
  | .headerWrap | .seqTooLarge | .indexRange | .codec .stackEmpty => True
  | _ => False

theorem encodeStreams_err (enc : List MEv → Except FErr (List Nat)) (henc : ∀ es x, enc es = .error x → asmErr x)
    (base : Nat) : ∀ (l : List (List MEv)) (pos : Nat) (x : FErr), encodeStreams enc base pos l = .error x → asmErr x := by
  intro l
  induction l with
  | nil => intro pos x h; cases h
  | cons e es ih =>
    intro pos x h
    unfold encodeStreams at h
    split at h
    · cases h; trivial
    · split at h
      · rename_i y hy
        cases h
        exact henc _ _ hy
      · rename_i b hb
        split at h
        · rename_i y hy
          cases h
          exact ih _ _ hy
        · cases h

theorem convertTrackChk_err (nS nM : Nat) (es : List MEv) (x : FErr) (h : convertTrackChk nS nM es = .error x) :
    asmErr x := by
  have hne := convertTrackChk_ne nS nM es
  rw [h] at hne
  unfold convertTrackChk at h
  by_cases hall : es.all (idxFits nS nM) = true
  · rw [if_pos hall] at h
    split at h
    · rename_i e he
      cases h
      cases e with
      | atEmpty => exact absurd rfl hne
      | stackEmpty => trivial
    · cases h
  · rw [if_neg hall] at h
    split at h
    · rename_i e he
      cases h
      cases e with
      | atEmpty => exact absurd rfl hne
      | stackEmpty => trivial
    · cases h; trivial

theorem convertMacroTrack_err (es : List MEv) (x : FErr) (h : convertMacroTrack es = .error x) : asmErr x := by
  have hne := convertMacroTrack_ne es
  unfold convertMacroTrack at h
  split at h
  · rename_i e he
    cases h
    cases e with
    | atEmpty =>
      exfalso; apply hne
      unfold convertMacroTrack
      rw [he]
    | stackEmpty => trivial
  · cases h

theorem assemble_err (c : Conv) (tl : List (Nat × List MEv)) (vol : Option String) (x : FErr)
    (h : assemble c tl vol = .error x) : asmErr x := by
  unfold assemble at h
  simp only at h
  split at h
  · cases h; trivial
  · split at h
    · rename_i y hy
      cases h
      exact encodeStreams_err _ (convertTrackChk_err _ _) _ _ _ _ hy
    · split at h
      · rename_i y hy
        cases h
        exact encodeStreams_err _ (convertTrackChk_err _ _) _ _ _ _ hy
      · split at h
        · rename_i y hy
          cases h
          exact encodeStreams_err _ convertMacroTrack_err _ _ _ _ hy
        · cases h

end Ctrmml.Pipeline
