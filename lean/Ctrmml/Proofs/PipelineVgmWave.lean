/-
  Helper lemmas for Properties/C15: `WaveMapOK` holds for the data of a successful `read_song`.
  The fold of `waveMapOf` and the `pcm` branch of `MdsFile.readTags` make the same `addSampleTag`
  calls on equal banks (joint induction over the tag list); sample lists only grow; the type of an id
  becomes PCM only in a successful `add_ins_pcm` of that id.
-/
import Ctrmml.Proofs.PipelineVgm
import Ctrmml.Proofs.LinkHist
import Ctrmml.Proofs.MdsBase
namespace Ctrmml.Pipeline
open Ctrmml Ctrmml.MdsFile Tables

/-- one step of `waveMapOf`'s fold -/
def wmStep (files : List (String × Bytes)) (acc : Wave.Bank × List (Nat × Nat)) (kv : String × List String) :
    Wave.Bank × List (Nat × Nat) :=
  match pcmIdOf kv with
  | none => acc
  | some id =>
    let args := kv.2.drop 1
    match Wave.addSampleTag acc.1 (match args with | n :: _ => files.lookup n | [] => none) args with
    | .error _ => acc
    | .ok (b, idx) => (b, (id, idx) :: acc.2.filter (·.1 ≠ id))

theorem waveMapOf_eq (files : List (String × Bytes)) (tags : List (String × List String)) :
    waveMapOf files tags = tags.foldl (wmStep files) (Wave.Bank.new Tables.mds_dataWaveRom 0, []) := rfl

theorem wmStep_none {files : List (String × Bytes)} {acc : Wave.Bank × List (Nat × Nat)} {kv : String × List String}
    (h : pcmIdOf kv = none) : wmStep files acc kv = acc := by
  unfold wmStep; simp only [h]

/-! ### what the adders do to `ins_type` -/

/-- the type map is unchanged, or `id` got a type that is not PCM -/
def TyStep (st st' : MdsData.State) (id : Nat) : Prop :=
  st'.tyMap = st.tyMap ∨ ∃ T : Int, T.toNat ≠ mdsdrv_INS_PCM ∧ st'.tyMap = MdsData.mset st.tyMap id T

theorem TyStep.pcm {st st' : MdsData.State} {id : Nat} (h : TyStep st st' id) (id' : Nat) (ty : Int)
    (hm : MdsData.mget st'.tyMap id' = some ty) (ht : ty.toNat = mdsdrv_INS_PCM) :
    MdsData.mget st.tyMap id' = some ty := by
  rcases h with h | ⟨T, hT, h⟩
  · rw [h] at hm; exact hm
  · rw [h, MdsData.mget_mset] at hm
    split at hm
    · simp only [Option.some.injEq] at hm
      subst hm
      exact absurd ht hT
    · exact hm

theorem addPitch_tyMap {st st' : MdsData.State} {id : Nat} {tag : List String}
    (hr : MdsData.addPitch MdsData.Arith.float st id tag = .ok st') : st'.tyMap = st.tyMap := by
  unfold MdsData.addPitch at hr
  split at hr
  · cases hr
    split <;> rfl
  · simp only at hr
    repeat' split at hr
    all_goals first
      | (cases hr; done)
      | (have hu := ‹MdsData.addUnique st _ = Except.ok (_, _)›
         have ht := (MdsData.addUnique_spec _ _ _ _ hu).2.2.2
         cases hr
         exact ht)

theorem addInsFm4op_ty {st st' : MdsData.State} {id : Nat} {tag : List String}
    (hr : MdsData.addInsFm4op st id tag = .ok st') : TyStep st st' id := by
  unfold MdsData.addInsFm4op at hr
  split at hr
  · cases hr
  · simp only at hr
    split at hr
    · cases hr
    · rename_i st1 idx hu
      cases hr
      exact .inr ⟨(mdsdrv_INS_FM : Int), by decide, by simp only; rw [(MdsData.addUnique_spec _ _ _ _ hu).2.2.2]⟩

theorem addInsFm2op_ty {st st' : MdsData.State} {id : Nat} {tag : List String}
    (hr : MdsData.addInsFm2op st id tag = .ok st') : TyStep st st' id := by
  unfold MdsData.addInsFm2op at hr
  split at hr
  · cases hr
  · simp only at hr
    split at hr
    · cases hr
    · split at hr
      · cases hr
      · split at hr
        · cases hr
        · split at hr
          · cases hr
          · rename_i st1 idx hu
            cases hr
            exact .inr ⟨(mdsdrv_INS_FM : Int), by decide, by simp only; rw [(MdsData.addUnique_spec _ _ _ _ hu).2.2.2]⟩

theorem addInsPsg_ty {st st' : MdsData.State} {id : Nat} {tag : List String}
    (hr : MdsData.addInsPsg MdsData.Arith.float st id tag = .ok st') : TyStep st st' id := by
  unfold MdsData.addInsPsg at hr
  split at hr
  · cases hr; exact .inl rfl
  · split at hr
    · cases hr
    · split at hr
      · cases hr
      · rename_i st1 idx hu
        cases hr
        exact .inr ⟨(mdsdrv_INS_PSG : Int), by decide, by simp only; rw [(MdsData.addUnique_spec _ _ _ _ hu).2.2.2]⟩

theorem addInstrument_ty {st st' : MdsData.State} {id : Nat} {tag : List String}
    (hr : MdsData.addInstrument MdsData.Arith.float st id tag = .ok st') : TyStep st st' id := by
  unfold MdsData.addInstrument at hr
  split at hr
  · cases hr
  · simp only at hr
    split at hr
    · exact addInsFm4op_ty hr
    · split at hr
      · exact addInsFm2op_ty hr
      · split at hr
        · cases hp : MdsData.addInsPsg MdsData.Arith.float st id _ with
          | error e => rw [hp] at hr; simp [Except.map] at hr
          | ok s1 =>
            rw [hp] at hr
            simp only [Except.map, Except.ok.injEq] at hr
            have h1 := addInsPsg_ty hp
            rw [← hr]
            split
            · exact h1
            · exact h1
        · split at hr <;> cases hr

/-! ### sample lists only grow -/

theorem addSampleTag_count {b b' : Wave.Bank} {file : Option Bytes} {tag : List String} {idx : Nat}
    (hok : Wave.addSampleTag b file tag = .ok (b', idx)) : b.samples.length ≤ b'.samples.length := by
  unfold Wave.addSampleTag at hok
  match tag, file with
  | [], _ => simp at hok
  | _ :: args, none => simp at hok
  | _ :: args, some f =>
    simp only at hok
    match hr : Wave.readWav f with
    | .error e => rw [hr] at hok; cases hok
    | .ok none => rw [hr] at hok; cases hok
    | .ok (some wf) =>
      rw [hr] at hok
      simp only at hok
      match happ : Wave.applyArgs args ⟨0, 0, wf.slength, wf.lstart, wf.lend, wf.srate, wf.transpose, 0⟩ with
      | .error e => rw [happ] at hok; cases hok
      | .ok h =>
        rw [happ] at hok
        exact (Linker.addSample_count _ _ _ _ _ hok).1

/-! ### the joint invariant -/

structure WJ (d : DState) (acc : Wave.Bank × List (Nat × Nat)) : Prop where
  bank : waveBankOf d = acc.1
  typed : ∀ id ty, MdsData.mget d.st.tyMap id = some ty → ty.toNat = mdsdrv_INS_PCM → ∃ idx, acc.2.lookup id = some idx
  inside : ∀ id idx, acc.2.lookup id = some idx → idx < acc.1.samples.length

theorem WJ.of_ty {d d1 : DState} {acc : Wave.Bank × List (Nat × Nat)} (h : WJ d acc) (hb : d1.bank = d.bank)
    (ht : ∀ id' ty, MdsData.mget d1.st.tyMap id' = some ty → ty.toNat = mdsdrv_INS_PCM → MdsData.mget d.st.tyMap id' = some ty) :
    WJ d1 acc :=
  ⟨by unfold waveBankOf; rw [hb]; exact h.bank, fun id ty hm hty => h.typed id ty (ht id ty hm hty) hty, h.inside⟩

theorem lookup_filter_ne (l : List (Nat × Nat)) (id id' : Nat) (hne : id' ≠ id) :
    (l.filter (·.1 ≠ id)).lookup id' = l.lookup id' := by
  induction l with
  | nil => rfl
  | cons kv l ih =>
    obtain ⟨k, v⟩ := kv
    by_cases hk : k = id
    · subst hk
      have h1 : (id' == k) = false := by simp [hne]
      simp only [List.filter, ne_eq, not_true_eq_false, decide_false, List.lookup, h1]
      exact ih
    · have : decide ((k, v).1 ≠ id) = true := by simp [hk]
      simp only [List.filter, this, List.lookup]
      rw [ih]

theorem file_match_eq (files : List (String × Bytes)) (args : List String) :
    (match args with | n :: _ => files.lookup n | [] => none) =
      (match args with | [] => none | name :: _ => files.lookup name) := by
  cases args <;> rfl

theorem addInsPcm_step {files : List (String × Bytes)} {d d1 : DState} {id : Nat} {args : List String}
    (h : addInsPcm files d id args = .ok d1) :
    ∃ b idx, Wave.addSampleTag (waveBankOf d) (match args with | [] => none | name :: _ => files.lookup name) args = .ok (b, idx) ∧
      idx < b.samples.length ∧ d1.bank = some b ∧ d1.st.tyMap = MdsData.mset d.st.tyMap id mdsdrv_INS_PCM := by
  unfold addInsPcm at h
  simp only at h
  repeat' split at h
  all_goals first
    | (cases h; done)
    | (cases h
       have hs := ‹Wave.addSampleTag _ _ _ = Except.ok (_, _)›
       have hg := ‹_[_]? = some _›
       have hu := ‹MdsData.addUnique d.st _ = Except.ok (_, _)›
       exact ⟨_, _, hs, (List.getElem?_eq_some_iff.mp hg).1, rfl,
         by simp only; rw [(MdsData.addUnique_spec _ _ _ _ hu).2.2.2]⟩)

theorem wm_joint (files : List (String × Bytes)) :
    ∀ (tags : List (String × List String)) (d : DState) (acc : Wave.Bank × List (Nat × Nat)) (d' : DState), WJ d acc →
      readTags MdsData.Arith.float files d tags = .ok d' → WJ d' (tags.foldl (wmStep files) acc) := by
  intro tags
  induction tags with
  | nil => intro d acc d' h hr; cases hr; exact h
  | cons kv rest ih =>
    intro d acc d' h hr
    obtain ⟨key, tag⟩ := kv
    unfold readTags at hr
    simp only [List.foldl_cons]
    split at hr
    · rename_i hsk
      rw [wmStep_none (by unfold pcmIdOf; simp only [hsk])]
      exact ih d acc d' h hr
    · rename_i isPitch id hsk
      simp only at hr
      split at hr
      · cases hr
      · rename_i d1 hd1
        refine ih d1 _ d' ?_ hr
        have hmap : ∀ (r : Except MdsData.Err MdsData.State),
            (liftData r).map (fun st => ({ d with st := st } : DState)) = .ok d1 → ∃ s, r = .ok s ∧ d1.st = s ∧ d1.bank = d.bank := by
          intro r hm
          cases hl : liftData r with
          | error e => rw [hl] at hm; simp [Except.map] at hm
          | ok s =>
            rw [hl] at hm
            simp only [Except.map, Except.ok.injEq] at hm
            exact ⟨s, Pipeline.liftData_ok hl, by rw [← hm], by rw [← hm]⟩
        split at hd1
        · rename_i hp
          subst hp
          obtain ⟨s, hs, he, hb⟩ := hmap _ hd1
          rw [wmStep_none (by unfold pcmIdOf; simp only [hsk])]
          exact h.of_ty hb (fun id' ty hm _ => by rw [he, addPitch_tyMap hs] at hm; exact hm)
        · rename_i hp
          have hp' : isPitch = false := by simpa using hp
          subst hp'
          split at hd1
          · rename_i ty args
            split at hd1
            · rename_i hpcm
              -- the pcm branch: the same call on the same bank
              obtain ⟨b, idx, hs, hlt, hb, hty⟩ := addInsPcm_step hd1
              have hid : pcmIdOf (key, ty :: args) = some id := by
                unfold pcmIdOf; simp only [hsk, hpcm, if_true]
              have hfile := file_match_eq files args
              have hstep : wmStep files acc (key, ty :: args) = (b, (id, idx) :: acc.2.filter (·.1 ≠ id)) := by
                rw [← hfile, h.bank] at hs
                unfold wmStep
                simp only [hid, List.drop_succ_cons, List.drop_zero, hs]
              rw [hstep]
              have hgrow := addSampleTag_count hs
              rw [h.bank] at hgrow
              refine ⟨by unfold waveBankOf; rw [hb]; rfl, fun id' ty' hm hty' => ?_, fun id' idx' hl => ?_⟩
              · by_cases hi : id' = id
                · subst hi; exact ⟨idx, by simp [List.lookup]⟩
                · rw [hty, MdsData.mget_mset, if_neg hi] at hm
                  obtain ⟨i2, hi2⟩ := h.typed id' ty' hm hty'
                  have h1 : (id' == id) = false := by simp [hi]
                  exact ⟨i2, by simp only [List.lookup, h1]; rw [lookup_filter_ne _ _ _ hi]; exact hi2⟩
              · by_cases hi : id' = id
                · subst hi
                  simp only [List.lookup, beq_self_eq_true, Option.some.injEq] at hl
                  subst hl; exact hlt
                · have h1 : (id' == id) = false := by simp [hi]
                  simp only [List.lookup, h1] at hl
                  rw [lookup_filter_ne _ _ _ hi] at hl
                  have := h.inside id' idx' hl
                  show idx' < b.samples.length
                  omega
            · rename_i hpcm
              obtain ⟨s, hs, he, hb⟩ := hmap _ hd1
              rw [wmStep_none (by unfold pcmIdOf; simp only [hsk, hpcm]; rfl)]
              exact h.of_ty hb (fun id' ty' hm ht => by rw [he] at hm; exact (addInstrument_ty hs).pcm id' ty' hm ht)
          · obtain ⟨s, hs, he, hb⟩ := hmap _ hd1
            rw [wmStep_none (by unfold pcmIdOf; simp only [hsk])]
            exact h.of_ty hb (fun id' ty' hm ht => by rw [he] at hm; exact (addInstrument_ty hs).pcm id' ty' hm ht)

/-- **`WaveMapOK` holds after a successful `read_song`** -/
theorem waveMapOK_of_readSong (files : List (String × Bytes)) (tags : List (String × List String)) (d : DState)
    (hd : readSong MdsData.Arith.float files tags = .ok d) : WaveMapOK d files tags := by
  have h0 : WJ { st := MdsData.initState (noextOf tags) } (Wave.Bank.new Tables.mds_dataWaveRom 0, []) := by
    refine ⟨rfl, fun id ty hm ht => ?_, fun id idx hl => by simp [List.lookup] at hl⟩
    simp only [MdsData.initState, MdsData.mget, List.find?] at hm
    split at hm
    · simp only [Option.map_some, Option.some.injEq] at hm; subst hm; cases ht
    · cases hm
  have hj := wm_joint files tags _ _ d h0 hd
  rw [← waveMapOf_eq] at hj
  intro id ty hm ht
  obtain ⟨idx, hi⟩ := hj.typed id ty hm ht
  rw [hi]
  exact hj.inside id idx hi

end Ctrmml.Pipeline
