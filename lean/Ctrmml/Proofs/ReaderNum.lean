/-
  Reader layer, part 1 (helper lemmas; no property statements): numerals.
  `natDigits`/`renderNat` of Spec/MmlMeaning, `strtol` and `Line_Buffer::get_num` of Model/Lexer.

  The central lemma is `getNum_eq_numSpan`: for EVERY buffer of bytes with the cursor inside the
  line, the `do`-block `LineBuffer.getNum` equals the state-free function `numSpan` of the rest of
  the line (value, number of bytes consumed).  Everything about rendered numerals is then list
  reasoning about `numSpan`.
-/
import Ctrmml.Proofs.Mml
import Ctrmml.Proofs.Reader
import Ctrmml.Spec.MmlMeaning
namespace Ctrmml.Lexer
open Ctrmml.MmlMeaning (natDigits digitChar renderNat)

/-! ### digits -/

theorem digitsValue_append (base : Nat) (l : List Nat) (d : Nat) :
    digitsValue base (l ++ [d]) = digitsValue base l * base + d := by
  simp [digitsValue, List.foldl_append]

theorem natDigits_spec (base : Nat) (hb : 2 ≤ base) : ∀ fuel n, n < fuel →
    digitsValue base (natDigits base fuel n) = n ∧ (∀ d ∈ natDigits base fuel n, d < base) ∧
    natDigits base fuel n ≠ [] := by
  intro fuel
  induction fuel with
  | zero => intro n h; omega
  | succ f ih =>
    intro n hn
    unfold natDigits
    by_cases hlt : n < base
    · simp only [hlt, if_true]
      refine ⟨by simp [digitsValue], by simpa using hlt, by simp⟩
    · simp only [hlt, if_false]
      have hpos : 0 < base := by omega
      have hdiv : n / base < n := Nat.div_lt_self (by omega) (by omega)
      have := ih (n / base) (by omega)
      refine ⟨?_, ?_, by simp⟩
      · rw [digitsValue_append, this.1]
        exact Nat.div_add_mod' n base
      · intro d hd
        simp at hd
        rcases hd with hd | hd
        · exact this.2.1 d hd
        · rw [hd]; exact Nat.mod_lt _ hpos

theorem digitVal_digitChar (base d : Nat) (hb : base ≤ 16) (hd : d < base) : digitVal base (digitChar d) = some d := by
  unfold digitVal digitChar
  by_cases h : d < 10
  · simp only [h, if_true]
    have h1 : 48 ≤ 48 + d ∧ 48 + d ≤ 57 := by omega
    simp only [h1, and_self, if_true, Nat.add_sub_cancel_left, hd]
  · simp only [h, if_false]
    have h1 : ¬ (48 ≤ 87 + d ∧ 87 + d ≤ 57) := by omega
    have h2 : 97 ≤ 87 + d ∧ 87 + d ≤ 122 := by omega
    simp only [h1, if_false, h2, and_self, if_true, Nat.add_sub_cancel_left, hd]

/-- a byte that is not a digit of the base (used for "the rest does not start with a digit") -/
def NotDigitHead (base : Nat) (rest : List Nat) : Prop := ∀ c, rest.head? = some c → digitVal base c = none

theorem takeDigits_chars (base : Nat) (hb : base ≤ 16) (ds rest : List Nat) (hds : ∀ d ∈ ds, d < base)
    (hrest : NotDigitHead base rest) : takeDigits base (ds.map digitChar ++ rest) = ds := by
  induction ds with
  | nil =>
    cases rest with
    | nil => rfl
    | cons c cs => simp [takeDigits, hrest c rfl]
  | cons d ds ih =>
    have := ih (fun x hx => hds x (by simp [hx]))
    simp only [List.map_cons, List.cons_append, takeDigits, digitVal_digitChar base d hb (hds d (by simp))]
    exact congrArg _ this

theorem digitChar_range (d : Nat) (hd : d < 16) : (48 ≤ digitChar d ∧ digitChar d ≤ 57) ∨ (97 ≤ digitChar d ∧ digitChar d ≤ 102) := by
  unfold digitChar; split <;> omega

theorem schar_small (c : Nat) (h : c < 128) : schar c = (c : Int) := by
  unfold schar
  have : c % 256 = c := by omega
  simp [this, h]

theorem not_space_of_range (c : Nat) (h : 33 ≤ c ∧ c < 128) : isSpace (schar c) = false := by
  rw [schar_small c h.2]; unfold isSpace
  simp only [Bool.or_eq_false_iff, beq_eq_false_iff_ne, ne_eq, Bool.and_eq_false_iff, decide_eq_false_iff_not]
  constructor <;> omega

theorem not_blank_of_range (c : Nat) (h : 33 ≤ c ∧ c < 128) : isBlank (schar c) = false := by
  rw [schar_small c h.2]; unfold isBlank
  simp only [Bool.or_eq_false_iff, beq_eq_false_iff_ne, ne_eq]
  constructor <;> omega

end Ctrmml.Lexer

namespace Ctrmml.Lexer

/-! ### `strtol` -/

/-- `long` clamp of a non-negative / negated magnitude -/
def clampPos (m : Nat) : Int := if (m : Int) > longMax then longMax else m
def clampNeg (m : Nat) : Int := if -(m : Int) < longMin then longMin else -(m : Int)

/-- no `0x` prefix is recognised at the head of `s` -/
def NoHexPrefix (s : List Nat) : Prop := ∀ x h t, s = 48 :: x :: h :: t → ¬ (x = 120 ∨ x = 88)

theorem signSplit_plain (c : Nat) (rest : List Nat) (h45 : c ≠ 45) (h43 : c ≠ 43) : signSplit (c :: rest) = (false, 0) := by
  unfold signSplit
  split
  · rename_i heq; simp at heq; exact absurd heq.1 h45
  · rename_i heq; simp at heq; exact absurd heq.1 h43
  · rfl

theorem hexPrefix_none (base : Nat) (s : List Nat) (h : base = 16 → NoHexPrefix s) : hexPrefix base s = 0 := by
  unfold hexPrefix
  split
  · rename_i hb
    have hb' : base = 16 := by simpa using hb
    split
    · rename_i x hh t
      have := h hb' x hh t rfl
      have hx : (x == 120 || x == 88) = false := by
        simp only [Bool.or_eq_false_iff, beq_eq_false_iff_ne, ne_eq]
        exact ⟨fun e => this (Or.inl e), fun e => this (Or.inr e)⟩
      simp [hx]
    · rfl
  · rfl

theorem strtol_pos (base : Nat) (c : Nat) (rest : List Nat) (hc : isSpace (schar c) = false) (h45 : c ≠ 45) (h43 : c ≠ 43)
    (hpx : base = 16 → NoHexPrefix (c :: rest)) :
    strtol (c :: rest) base =
      if (takeDigits base (c :: rest)).isEmpty then none
      else some (clampPos (digitsValue base (takeDigits base (c :: rest))), (takeDigits base (c :: rest)).length) := by
  unfold strtol
  have hcs : countSpaces (c :: rest) = 0 := by simp [countSpaces, hc]
  simp only [hcs, List.drop_zero, signSplit_plain c rest h45 h43, hexPrefix_none base _ hpx, clampPos]
  split <;> simp

theorem strtol_neg (base : Nat) (rest : List Nat) (hpx : base = 16 → NoHexPrefix rest) :
    strtol (45 :: rest) base =
      if (takeDigits base rest).isEmpty then none
      else some (clampNeg (digitsValue base (takeDigits base rest)), 1 + (takeDigits base rest).length) := by
  unfold strtol
  have hcs : countSpaces (45 :: rest) = 0 := by simp [countSpaces, not_space_of_range 45 (by omega)]
  have hsg : signSplit (45 :: rest) = (true, 1) := rfl
  simp only [hcs, List.drop_zero, hsg, List.drop_succ_cons, hexPrefix_none base _ hpx, clampNeg]
  split <;> simp

end Ctrmml.Lexer

namespace Ctrmml.Lexer

/-! ### `get_num` as a function of the rest of the line -/

def numOut (k : Nat) : Option (Int × Nat) → Option Int × Nat
  | none => (none, k)
  | some (v, n) => (some (wrapS32 v), k + n)

/-- value read and number of bytes consumed by `get_num` when the rest of the line is `l`
(`none` = `std::invalid_argument`; the blanks — and a `$`/`x` — stay consumed) -/
def numSpan (l : List Nat) : Option Int × Nat :=
  let k := LineBuffer.countBlanks l
  match l.drop k with
  | [] => (none, k)
  | c :: rest =>
    if c = 36 ∨ c = 120 then
      if rest.isEmpty then (none, k + 1) else numOut (k + 1) (strtol rest 16)
    else numOut k (strtol (c :: rest) 10)

def Bytes (l : List Nat) : Prop := ∀ x ∈ l, x < 256

theorem countBlanks_le (l : List Nat) : LineBuffer.countBlanks l ≤ l.length := by
  induction l with
  | nil => simp [LineBuffer.countBlanks]
  | cons c cs ih => unfold LineBuffer.countBlanks; split <;> simp only [List.length_cons] <;> omega

theorem schar_inj_byte (c : Nat) (hc : c < 256) (v : Nat) (hv : v < 128) : (schar c == (v : Int)) = (c == v) := by
  rw [Bool.eq_iff_iff]
  simp only [beq_iff_eq]
  unfold schar
  have : c % 256 = c := by omega
  rw [this]
  split <;> constructor <;> intro h <;> omega

theorem getNum_eq_numSpan (b : LineBuffer) (hb : Bytes b.buf) (hc : b.column ≤ b.buf.length) :
    b.getNum = .ok ((numSpan (b.buf.drop b.column)).1, { b with column := b.column + (numSpan (b.buf.drop b.column)).2 }) := by
  obtain ⟨k, hk⟩ : ∃ k, k = LineBuffer.countBlanks (b.buf.drop b.column) := ⟨_, rfl⟩
  have hkle : k ≤ b.buf.length - b.column := by
    have := countBlanks_le (b.buf.drop b.column); simp at this; omega
  have hdd : (b.buf.drop b.column).drop k = b.buf.drop (b.column + k) := by simp [List.drop_drop]
  unfold numSpan LineBuffer.getNum LineBuffer.getToken LineBuffer.get
  simp only [← hk, hdd]
  cases hs : b.buf.drop (b.column + k) with
  | nil =>
    have hlen : b.buf.length ≤ b.column + k := by simpa using hs
    have hnone : b.buf[b.column + k]? = none := by simp; omega
    have hj : b.column + k = b.buf.length := by omega
    simp [hnone, LineBuffer.unget, bind, Except.bind, pure, Except.pure, hj]
  | cons c rest =>
    have hlt : b.column + k < b.buf.length := by
      have : (b.buf.drop (b.column + k)).length ≠ 0 := by rw [hs]; simp
      simp at this; omega
    have hsome : b.buf[b.column + k]? = some c := by
      have := List.getElem?_drop (xs := b.buf) (i := b.column + k) (j := 0)
      rw [hs] at this; simpa using this.symm
    have hcb : c < 256 := hb c (List.mem_of_getElem? hsome)
    simp only [hsome]
    have h36 : (schar c == 36) = (c == 36) := by simpa using schar_inj_byte c hcb 36 (by omega)
    have h120 : (schar c == 120) = (c == 120) := by simpa using schar_inj_byte c hcb 120 (by omega)
    have hrest : b.buf.drop (b.column + k + 1) = rest := by
      have : b.buf.drop (b.column + k + 1) = (b.buf.drop (b.column + k)).drop 1 := by simp [List.drop_drop]
      rw [this, hs]; rfl
    have hrl : rest.length = b.buf.length - (b.column + k + 1) := by rw [← hrest]; simp
    rw [h36, h120]
    by_cases hd : c = 36 ∨ c = 120
    · have hd' : (c == 36 || c == 120) = true := by simpa using hd
      simp only [hd', hd, if_true, bind, Except.bind, pure, Except.pure]
      by_cases he : rest.isEmpty = true
      · have : b.column + k + 1 = b.buf.length := by
          have : rest.length = 0 := by simpa using he
          omega
        simp [he, this]; omega
      · have hne : ¬ b.column + k + 1 = b.buf.length := by
          intro h; apply he
          have : rest.length = 0 := by omega
          simpa using this
        have hngt : ¬ b.column + k + 1 > b.buf.length := by omega
        simp only [he, hne, hngt, if_false, hrest]
        cases strtol rest 16 with
        | none => simp [numOut]; omega
        | some p => obtain ⟨v, n⟩ := p; simp [numOut]; omega
    · have hd' : (c == 36 || c == 120) = false := by
        simp only [Bool.or_eq_false_iff, beq_eq_false_iff_ne, ne_eq]
        exact ⟨fun e => hd (Or.inl e), fun e => hd (Or.inr e)⟩
      have hun : ({ buf := b.buf, column := b.column + k + 1 } : LineBuffer).unget (schar c) = .ok { buf := b.buf, column := b.column + k } := by
        unfold LineBuffer.unget
        simp only [Nat.add_one_ne_zero, if_false, Nat.add_sub_cancel]
        split
        · rfl
        · simp only [hlt, if_true, Reader.ucharOf_schar c hcb]
          congr 2
          have hget : b.buf[b.column + k]'hlt = c := by
            have := List.getElem?_eq_getElem hlt
            rw [hsome] at this; exact (Option.some.inj this).symm
          rw [← hget]; exact List.set_getElem_self hlt
      have hne : ¬ b.column + k = b.buf.length := by omega
      have hngt : ¬ b.column + k > b.buf.length := by omega
      simp only [hd', hd, Bool.false_eq_true, if_false, hun, bind, Except.bind, pure, Except.pure, hne, hngt, hs]
      cases strtol (c :: rest) 10 with
      | none => simp [numOut]
      | some p => obtain ⟨v, n⟩ := p; simp [numOut]; omega

end Ctrmml.Lexer

namespace Ctrmml.Lexer
open Ctrmml.MmlMeaning (Num natDigits digitChar renderNat)

/-! ### rendered numerals -/

theorem renderNat_eq (base n : Nat) : renderNat base n = (natDigits base (n + 1) n).map digitChar := rfl

theorem noHexPrefix_digits (ds rest : List Nat) (hne : ds ≠ []) (hds : ∀ d ∈ ds, d < 16)
    (hx : ∀ c, rest.head? = some c → c ≠ 120 ∧ c ≠ 88) : NoHexPrefix (ds.map digitChar ++ rest) := by
  intro x h t heq hxx
  cases ds with
  | nil => exact hne rfl
  | cons d ds' =>
    cases ds' with
    | nil =>
      simp at heq
      have := hx x (by rw [heq.2]; rfl)
      rcases hxx with e | e
      · exact this.1 e
      · exact this.2 e
    | cons d2 ds'' =>
      simp at heq
      have hr := digitChar_range d2 (hds d2 (by simp))
      rcases hxx with e | e <;> omega

/-- what may follow a numeral of the base: not one of its digits, and after a hexadecimal
numeral not `x`/`X` either (`0x…` would be taken as a prefix) -/
def NumEnd (base : Nat) (rest : List Nat) : Prop :=
  NotDigitHead base rest ∧ (base = 16 → ∀ c, rest.head? = some c → c ≠ 120 ∧ c ≠ 88)

theorem digits_head (ds rest : List Nat) (hne : ds ≠ []) :
    ∃ d tl, d ∈ ds ∧ ds.map digitChar ++ rest = digitChar d :: tl := by
  cases ds with
  | nil => exact absurd rfl hne
  | cons d tl => exact ⟨d, tl.map digitChar ++ rest, by simp, rfl⟩

theorem strtol_digits_pos (base : Nat) (hb2 : 2 ≤ base) (hb : base = 10 ∨ base = 16) (ds rest : List Nat) (hne : ds ≠ [])
    (hds : ∀ d ∈ ds, d < base) (hend : NumEnd base rest) :
    strtol (ds.map digitChar ++ rest) base = some (clampPos (digitsValue base ds), ds.length) := by
  have hb16 : base ≤ 16 := by omega
  obtain ⟨d, tl, hd, heq⟩ := digits_head ds rest hne
  have hr := digitChar_range d (by have := hds d hd; omega)
  have htd := takeDigits_chars base hb16 ds rest hds hend.1
  have hpx : base = 16 → NoHexPrefix (digitChar d :: tl) := by
    intro h16; rw [← heq]
    exact noHexPrefix_digits ds rest hne (fun x hx => by have := hds x hx; omega) (hend.2 h16)
  rw [heq, strtol_pos base (digitChar d) tl (not_space_of_range _ (by omega)) (by omega) (by omega) hpx, ← heq, htd]
  have : ds.isEmpty = false := by cases ds <;> simp_all
  simp [this]

theorem strtol_digits_neg (base : Nat) (hb2 : 2 ≤ base) (hb : base = 10 ∨ base = 16) (ds rest : List Nat) (hne : ds ≠ [])
    (hds : ∀ d ∈ ds, d < base) (hend : NumEnd base rest) :
    strtol (45 :: (ds.map digitChar ++ rest)) base = some (clampNeg (digitsValue base ds), 1 + ds.length) := by
  have hb16 : base ≤ 16 := by omega
  have htd := takeDigits_chars base hb16 ds rest hds hend.1
  have hpx : base = 16 → NoHexPrefix (ds.map digitChar ++ rest) := fun h16 =>
    noHexPrefix_digits ds rest hne (fun x hx => by have := hds x hx; omega) (hend.2 h16)
  rw [strtol_neg base _ hpx, htd]
  have : ds.isEmpty = false := by cases ds <;> simp_all
  simp [this]

theorem wrapS32_id (v : Int) (h1 : -2147483648 ≤ v) (h2 : v ≤ 2147483647) : wrapS32 v = v := by
  unfold wrapS32; omega

/-- `get_num` on a rendered number: its value, all of its bytes consumed, nothing else -/
theorem numSpan_render (n : Num) (rest : List Nat) (h1 : -2147483648 ≤ n.v) (h2 : n.v ≤ 2147483647)
    (hend : NumEnd (if n.hex then 16 else 10) rest) :
    numSpan (n.bytes ++ rest) = (some n.v, n.bytes.length) := by
  obtain ⟨base, hbase⟩ : ∃ base, base = (if n.hex then 16 else 10) := ⟨_, rfl⟩
  have hb : base = 10 ∨ base = 16 := by rw [hbase]; split <;> simp
  have hb2 : 2 ≤ base := by omega
  have hsp := natDigits_spec base hb2 (n.v.natAbs + 1) n.v.natAbs (by omega)
  obtain ⟨ds, hds⟩ : ∃ ds, ds = natDigits base (n.v.natAbs + 1) n.v.natAbs := ⟨_, rfl⟩
  rw [← hds] at hsp
  have hrn : renderNat base n.v.natAbs = ds.map digitChar := by rw [hds]; rfl
  rw [← hbase] at hend
  have hpos := strtol_digits_pos base hb2 hb ds rest hsp.2.2 hsp.2.1 hend
  have hneg := strtol_digits_neg base hb2 hb ds rest hsp.2.2 hsp.2.1 hend
  rw [hsp.1] at hpos hneg
  obtain ⟨d, tl, hd, heq⟩ := digits_head ds rest hsp.2.2
  have hr := digitChar_range d (by have := hsp.2.1 d hd; rcases hb with h | h <;> omega)
  have hcp : 0 ≤ n.v → wrapS32 (clampPos n.v.natAbs) = (n.v.natAbs : Int) := by
    intro h0
    unfold clampPos longMax
    have : ¬ ((n.v.natAbs : Int) > 9223372036854775807) := by omega
    simp only [this, if_false]; exact wrapS32_id _ (by omega) (by omega)
  have hcn : wrapS32 (clampNeg n.v.natAbs) = -(n.v.natAbs : Int) := by
    unfold clampNeg longMin
    have : ¬ (-(n.v.natAbs : Int) < -9223372036854775808) := by omega
    simp only [this, if_false]; exact wrapS32_id _ (by omega) (by omega)
  unfold Num.bytes
  rw [← hbase, hrn]
  by_cases hhex : n.hex = true
  · have hbv : base = 16 := by simp [hbase, hhex]
    rw [hbv] at hpos hneg
    by_cases hn : n.v < 0
    · simp only [hhex, hn, if_true, List.cons_append, List.nil_append, List.append_assoc]
      unfold numSpan
      have hk : LineBuffer.countBlanks (36 :: 45 :: (ds.map digitChar ++ rest)) = 0 := by
        simp [LineBuffer.countBlanks, not_blank_of_range 36 (by omega)]
      simp only [hk, List.drop_zero, true_or, if_true, List.isEmpty_cons, Bool.false_eq_true, if_false, hneg, numOut, hcn]
      simp; omega
    · simp only [hhex, hn, if_true, if_false, List.cons_append, List.nil_append, List.append_nil]
      unfold numSpan
      have hk : LineBuffer.countBlanks (36 :: (ds.map digitChar ++ rest)) = 0 := by
        simp [LineBuffer.countBlanks, not_blank_of_range 36 (by omega)]
      have hne : (ds.map digitChar ++ rest).isEmpty = false := by rw [heq]; rfl
      simp only [hk, List.drop_zero, true_or, if_true, hne, Bool.false_eq_true, if_false, hpos, numOut, hcp (by omega)]
      simp; omega
  · have hhex' : n.hex = false := by simpa using hhex
    have hbv : base = 10 := by simp [hbase, hhex']
    rw [hbv] at hpos hneg
    by_cases hn : n.v < 0
    · simp only [hhex', hn, if_true, Bool.false_eq_true, if_false, List.cons_append, List.nil_append]
      unfold numSpan
      have hk : LineBuffer.countBlanks (45 :: (ds.map digitChar ++ rest)) = 0 := by
        simp [LineBuffer.countBlanks, not_blank_of_range 45 (by omega)]
      have h45 : ¬ ((45 : Nat) = 36 ∨ (45 : Nat) = 120) := by omega
      simp only [hk, List.drop_zero, h45, if_false, hneg, numOut, hcn]
      simp; omega
    · simp only [hhex', hn, Bool.false_eq_true, if_false, List.nil_append]
      unfold numSpan
      rw [heq]
      have hk : LineBuffer.countBlanks (digitChar d :: tl) = 0 := by
        simp [LineBuffer.countBlanks, not_blank_of_range (digitChar d) (by omega)]
      have hnd : ¬ (digitChar d = 36 ∨ digitChar d = 120) := by omega
      simp only [hk, List.drop_zero, hnd, if_false]
      rw [← heq, hpos]
      simp only [numOut, hcp (by omega)]
      simp; omega

end Ctrmml.Lexer
