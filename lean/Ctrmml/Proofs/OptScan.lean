/-
  C01, layer 2 — part B: the depth scan that `find_match_length` / `find_match` perform on flat
  event lists, and what it says about the forest: a segment scanned from depth 0 back to depth 0
  without a depth-0 `LOOP_END`/`LOOP_BREAK` (and without an explicit `END` event) is the
  flattening of a closed forest without top-level break.  Periodic lists.
-/
import Ctrmml.Proofs.OptNorm
namespace Ctrmml.OptSteps
open Ctrmml Ctrmml.Tree Ctrmml.Expand Ctrmml.Rewrite Tables

/-- loop depth after the event types `l`, starting at depth `d`; `none` if a `LOOP_END` or a
`LOOP_BREAK` is met at depth 0 -/
def scanT : List Nat → Nat → Option Nat
  | [], d => some d
  | t :: r, d =>
    if t = ev_LOOP_START then scanT r (d + 1)
    else if t = ev_LOOP_END then (if d = 0 then none else scanT r (d - 1))
    else if t = ev_LOOP_BREAK then (if d = 0 then none else scanT r d)
    else scanT r d

def scan (l : List Event) (d : Nat) : Option Nat := scanT (l.map (·.type)) d

theorem scanT_append (a b : List Nat) (d : Nat) : scanT (a ++ b) d = (scanT a d).bind (scanT b) := by
  induction a generalizing d with
  | nil => simp [scanT]
  | cons t r ih =>
    simp only [List.cons_append, scanT]
    split
    · exact ih _
    · split
      · split
        · rfl
        · exact ih _
      · split
        · split
          · rfl
          · exact ih _
        · exact ih _

theorem scan_append (a b : List Event) (d : Nat) : scan (a ++ b) d = (scan a d).bind (scan b) := by
  simp only [scan, List.map_append, scanT_append]
  rfl

theorem scan_nil (d : Nat) : scan [] d = some d := rfl

theorem scan_congr {a b : List Event} (h : a.map (·.type) = b.map (·.type)) (d : Nat) : scan a d = scan b d := by
  simp [scan, h]

theorem normL_types (l : List Event) : (normL l).map (·.type) = l.map (·.type) := by
  simp [normL, normE_type]

theorem scan_norm {a b : List Event} (h : normL a = normL b) (d : Nat) : scan a d = scan b d := by
  apply scan_congr
  rw [← normL_types a, h, normL_types]

theorem scan_replicate {A : List Event} (h : scan A 0 = some 0) (k : Nat) :
    scan (List.replicate k A).flatten 0 = some 0 := by
  induction k with
  | zero => rfl
  | succ k ih => simp [List.replicate_succ, scan_append, h, ih]

theorem scan_cons (e : Event) (r : List Event) (d : Nat) :
    scan (e :: r) d =
      if e.type = ev_LOOP_START then scan r (d + 1)
      else if e.type = ev_LOOP_END then (if d = 0 then none else scan r (d - 1))
      else if e.type = ev_LOOP_BREAK then (if d = 0 then none else scan r d)
      else scan r d := by
  simp [scan, scanT]

/-! ## from a scan to a closed forest -/

theorem hasTopBreak_reverse (l : List Node) : hasTopBreak l.reverse = hasTopBreak l := by
  induction l with
  | nil => rfl
  | cons n ns ih =>
    simp only [List.reverse_cons, hasTopBreak_append, ih]
    cases n <;> simp [hasTopBreak]

/-- invariant of the matcher's context while it reads a segment that is scanned from depth
`st.length`: every level holds closed nodes, the bottom level has no break -/
def ctxInv : PStack → List Node → Prop
  | [], cur => closedL cur ∧ hasTopBreak cur = false
  | (ls, outer) :: st, cur => ls.kind = .loopStart ∧ closedL cur ∧ ctxInv st outer

theorem ctxInv_push {st : PStack} {cur : List Node} (h : ctxInv st cur) {n : Node} (hn : Node.closed n)
    (hb : (∀ e, n ≠ .brk e) ∨ st ≠ []) : ctxInv st (n :: cur) := by
  cases st with
  | nil =>
    rcases hb with hb | hb
    · refine ⟨⟨hn, h.1⟩, ?_⟩
      cases n with
      | brk e => exact absurd rfl (hb e)
      | _ => simpa [hasTopBreak] using h.2
    · exact absurd rfl hb
  | cons p st' =>
    obtain ⟨ls, outer⟩ := p
    exact ⟨h.1, ⟨hn, h.2.1⟩, h.2.2⟩

theorem parseAux_of_scan (l : List Event) (hl : NoEnd l) : ∀ (st : PStack) (cur : List Node),
    ctxInv st cur → scan l st.length = some 0 →
    closedL (parseAux st cur l) ∧ hasTopBreak (parseAux st cur l) = false := by
  induction l with
  | nil =>
    intro st cur h hs
    cases st with
    | nil =>
      simp only [parseAux, closeAll]
      exact ⟨(closedL_reverse cur).2 h.1, by rw [hasTopBreak_reverse]; exact h.2⟩
    | cons p st' => simp [scan, scanT] at hs
  | cons e rest ih =>
    intro st cur h hs
    have hrest : NoEnd rest := fun x hx => hl x (List.mem_cons_of_mem _ hx)
    have he : e.kind ≠ .fin := hl e (List.mem_cons_self)
    rw [scan_cons] at hs
    rcases kind_cases e with ⟨hk, ht⟩ | ⟨hk, ht⟩ | ⟨hk, ht⟩ | ⟨hk, ht⟩ | ⟨hk, ht⟩ | ⟨hk, ht⟩ | ⟨hk, ht⟩
    · rw [parseAux_loopStart hk]
      rw [if_pos ht] at hs
      exact ih hrest ((e, cur) :: st) [] ⟨hk, by simp [closedL], h⟩ hs
    · have h1 : e.type ≠ ev_LOOP_START := by rw [ht]; decide
      have h2 : e.type ≠ ev_LOOP_END := by rw [ht]; decide
      rw [if_neg h1, if_neg h2, if_pos ht] at hs
      cases st with
      | nil => simp at hs
      | cons p st' =>
        rw [parseAux_break hk]
        simp only [List.length_cons, Nat.add_one_ne_zero, if_false] at hs
        exact ih hrest _ _ (ctxInv_push h (n := .brk e) hk (Or.inr (by simp))) hs
    · have h1 : e.type ≠ ev_LOOP_START := by rw [ht]; decide
      rw [if_neg h1, if_pos ht] at hs
      cases st with
      | nil => simp at hs
      | cons p st' =>
        obtain ⟨ls, outer⟩ := p
        rw [parseAux_loopEnd_cons hk]
        simp only [List.length_cons, Nat.add_one_ne_zero, if_false, Nat.add_sub_cancel] at hs
        obtain ⟨g1, g2, g3⟩ := h
        exact ih hrest _ _ (ctxInv_push g3 (n := .loop ls cur.reverse e) ⟨g1, (closedL_reverse cur).2 g2, hk⟩
          (Or.inl (by simp))) hs
    all_goals
      first
      | exact absurd hk he
      | (have h1 : e.type ≠ ev_LOOP_START := by first | (rw [ht]; decide) | exact ht.1
         have h2 : e.type ≠ ev_LOOP_END := by first | (rw [ht]; decide) | exact ht.2.2.1
         have h3 : e.type ≠ ev_LOOP_BREAK := by first | (rw [ht]; decide) | exact ht.2.1
         rw [if_neg h1, if_neg h2, if_neg h3] at hs
         rw [parseAux_other (by simp [hk]) (by simp [hk]) (by simp [hk])]
         exact ih hrest _ _ (ctxInv_push h (n := .ev e) (by simp [Node.closed, hk]) (Or.inl (by simp))) hs)

/-- **A balanced segment is a closed forest without top-level break.** -/
theorem forest_of_scan {l : List Event} (hl : NoEnd l) (hs : scan l 0 = some 0) :
    closedL (parse l) ∧ hasTopBreak (parse l) = false ∧ flattenL (parse l) = l := by
  have := parseAux_of_scan l hl [] [] ⟨by simp [closedL], rfl⟩ hs
  exact ⟨this.1, this.2, flatten_parse l⟩

/-! ## periodic lists -/

theorem periodic_eq {α : Type} (n : Nat) (hn : 0 < n) : ∀ (L : Nat) (l : List α), l.length = n + L →
    (∀ i, i < L → l[i]? = l[i + n]?) →
    l = (List.replicate (L / n + 1) (l.take n)).flatten ++ (l.take n).take (L % n) := by
  intro L
  induction L using Nat.strongRecOn with
  | _ L ih =>
    intro l hlen hper
    by_cases hL : L < n
    · rw [Nat.div_eq_of_lt hL, Nat.mod_eq_of_lt hL]
      simp only [Nat.zero_add, List.replicate_one, List.flatten_cons, List.flatten_nil, List.append_nil]
      have h1 : List.take L (List.take n l) = List.drop n l := by
        apply List.ext_getElem?
        intro i
        simp only [List.getElem?_take, List.getElem?_drop]
        by_cases hi : i < L
        · have : i < n := by omega
          simp only [hi, this, if_true]
          rw [hper i hi, Nat.add_comm]
        · simp only [hi, if_false]
          symm
          apply List.getElem?_eq_none
          omega
      rw [h1, List.take_append_drop]
    · obtain ⟨M, rfl⟩ : ∃ M, L = n + M := ⟨L - n, by omega⟩
      have hlen' : (l.drop n).length = n + M := by simp [hlen]
      have hper' : ∀ i, i < M → (l.drop n)[i]? = (l.drop n)[i + n]? := by
        intro i hi
        simp only [List.getElem?_drop]
        have := hper (n + i) (by omega)
        rw [this]
        congr 1
        omega
      have htk : (l.drop n).take n = l.take n := by
        apply List.ext_getElem?
        intro i
        simp only [List.getElem?_take, List.getElem?_drop]
        by_cases hi : i < n
        · simp only [hi, if_true]
          rw [hper i (by omega), Nat.add_comm]
        · simp [hi]
      have := ih M (by omega) (l.drop n) hlen' hper'
      rw [htk] at this
      rw [Nat.add_div_left _ hn, Nat.add_mod_left]
      conv => lhs; rw [← List.take_append_drop n l, this]
      simp [List.replicate_succ]

/-! ## list algebra of `apply_match`'s loop branch -/

def ins (l : List Event) (p : Nat) (e : Event) : List Event := l.take p ++ [e] ++ l.drop p

theorem take_len_add {α : Type} (a b : List α) (k : Nat) : (a ++ b).take (a.length + k) = a ++ b.take k := by
  simp [List.take_append, List.take_of_length_le]

theorem drop_len_add {α : Type} (a b : List α) (k : Nat) : (a ++ b).drop (a.length + k) = b.drop k := by
  simp [List.drop_append]

/-- a segment `[p, q)`, `L` events after it, and the rest -/
theorem split4 {α : Type} (src : List α) (p q L : Nat) (hpq : p ≤ q) :
    src = src.take p ++ (src.drop p).take (q - p) ++ (src.drop q).take L ++ src.drop (q + L) := by
  have h1 : src.drop p = (src.drop p).take (q - p) ++ src.drop q := by
    conv => lhs; rw [← List.take_append_drop (q - p) (src.drop p)]
    rw [List.drop_drop]
    congr 2
    omega
  have h2 : src.drop q = (src.drop q).take L ++ src.drop (q + L) := by
    conv => lhs; rw [← List.take_append_drop L (src.drop q)]
    rw [List.drop_drop]
  conv => lhs; rw [← List.take_append_drop p src, h1, h2]
  simp [List.append_assoc]

/-- the three insertions of the loop branch on `pre ++ A ++ B ++ post` with a break -/
theorem fold_lists (pre A B post : List Event) (bp : Nat) (hbp : bp ≤ A.length) (ls lb le : Event) :
    let src := pre ++ A ++ B ++ post
    let q := pre.length + A.length
    let evs := src.take q ++ src.drop (q + B.length)
    ins (ins (ins evs (pre.length + A.length) le) (pre.length + bp) lb) pre.length ls
      = pre ++ (ls :: (A.take bp ++ lb :: A.drop bp ++ [le])) ++ post := by
  intro src q evs
  have e0 : evs = pre ++ (A ++ post) := by
    simp only [evs, src, q]
    rw [List.append_assoc (pre ++ A), ← List.length_append, List.take_left' rfl,
      drop_len_add, List.drop_left' rfl]
    simp
  have e1 : ins evs (pre.length + A.length) le = pre ++ (A ++ le :: post) := by
    rw [e0]
    unfold ins
    rw [take_len_add, drop_len_add, List.take_left' rfl, List.drop_left' rfl]
    simp
  have e2 : ins (pre ++ (A ++ le :: post)) (pre.length + bp) lb
      = pre ++ (A.take bp ++ lb :: (A.drop bp ++ le :: post)) := by
    unfold ins
    rw [take_len_add, drop_len_add]
    have h1 : (A ++ le :: post).take bp = A.take bp := by
      rw [List.take_append]; simp [Nat.sub_eq_zero_of_le hbp]
    have h2 : (A ++ le :: post).drop bp = A.drop bp ++ le :: post := by
      rw [List.drop_append]; simp [Nat.sub_eq_zero_of_le hbp]
    rw [h1, h2]
    simp
  rw [e1, e2]
  unfold ins
  have h0 := take_len_add pre (A.take bp ++ lb :: (A.drop bp ++ le :: post)) 0
  have h0' := drop_len_add pre (A.take bp ++ lb :: (A.drop bp ++ le :: post)) 0
  simp only [Nat.add_zero, List.take_zero, List.append_nil, List.drop_zero] at h0 h0'
  rw [h0, h0']
  simp

/-- the two insertions of the loop branch without a break -/
theorem fold0_lists (pre A B post : List Event) (ls le : Event) :
    let src := pre ++ A ++ B ++ post
    let q := pre.length + A.length
    let evs := src.take q ++ src.drop (q + B.length)
    ins (ins evs (pre.length + A.length) le) pre.length ls
      = pre ++ (ls :: (A ++ [le])) ++ post := by
  intro src q evs
  have e0 : evs = pre ++ (A ++ post) := by
    simp only [evs, src, q]
    rw [List.append_assoc (pre ++ A), ← List.length_append, List.take_left' rfl,
      drop_len_add, List.drop_left' rfl]
    simp
  have e1 : ins evs (pre.length + A.length) le = pre ++ (A ++ le :: post) := by
    rw [e0]
    unfold ins
    rw [take_len_add, drop_len_add, List.take_left' rfl, List.drop_left' rfl]
    simp
  rw [e1]
  unfold ins
  have h0 := take_len_add pre (A ++ le :: post) 0
  have h0' := drop_len_add pre (A ++ le :: post) 0
  simp only [Nat.add_zero, List.take_zero, List.append_nil, List.drop_zero] at h0 h0'
  rw [h0, h0']
  simp

end Ctrmml.OptSteps
