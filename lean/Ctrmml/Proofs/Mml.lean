/-
  Helper lemmas about Model/Lexer and Model/Mml (no property statements here).
-/
import Ctrmml.Model.Mml
namespace Ctrmml.Lexer

/-- ASCII spelling of a list of decimal digit values -/
def decChars (ds : List Nat) : List Nat := ds.map (· + 48)

theorem digitVal_dec (d : Nat) (h : d < 10) : digitVal 10 (d + 48) = some d := by
  unfold digitVal
  have h1 : 48 ≤ d + 48 ∧ d + 48 ≤ 57 := by omega
  simp only [h1, and_self, if_true, Nat.add_sub_cancel, h]

theorem takeDigits_dec (ds rest : List Nat) (hds : ∀ d ∈ ds, d < 10)
    (hrest : ∀ c, rest.head? = some c → digitVal 10 c = none) : takeDigits 10 (decChars ds ++ rest) = ds := by
  induction ds with
  | nil =>
    cases rest with
    | nil => rfl
    | cons c cs => simp [decChars, takeDigits, hrest c rfl]
  | cons d ds ih =>
    have := ih (fun x hx => hds x (by simp [hx]))
    simp only [decChars, List.map_cons, List.cons_append, takeDigits, digitVal_dec d (hds d (by simp))]
    exact congrArg _ this

theorem schar_dec (d : Nat) (h : d < 10) : schar (d + 48) = ((d + 48 : Nat) : Int) := by
  unfold schar
  have : (d + 48) % 256 = d + 48 := by omega
  simp only [this]
  have : d + 48 < 128 := by omega
  simp [this]

theorem countSpaces_dec (d : Nat) (h : d < 10) (l : List Nat) : countSpaces ((d + 48) :: l) = 0 := by
  unfold countSpaces
  have : isSpace (schar (d + 48)) = false := by
    rw [schar_dec d h]; unfold isSpace
    simp only [Bool.or_eq_false_iff, beq_eq_false_iff_ne, ne_eq, Bool.and_eq_false_iff, decide_eq_false_iff_not]
    constructor <;> omega
  simp [this]

end Ctrmml.Lexer
