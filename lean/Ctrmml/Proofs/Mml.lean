/-
  Helper lemmas about Model/Lexer and Model/Mml (no property statements here).
-/
import Ctrmml.Model.Mml
namespace Ctrmml.Mml
open Ctrmml.Tables Ctrmml.Lexer Ctrmml.TrackBuilder

end Ctrmml.Mml
