/-
  Helper lemmas for C06 (no property statements here): conditional blocks `{a/b/…}` in a line body.
  `conditional_block_begin` skips `track_offset` alternatives, `parse_mml_track` parses the selected
  one (`parse_seg`), `conditional_block_end` skips the rest — under the hypothesis that no
  alternative spells `/`, `;`, `}` or NUL (`Clean`; what D16 violates) and that the block has an
  alternative for the track.
-/
import Ctrmml.Proofs.LayoutLines
namespace Ctrmml.Mml
open Ctrmml.Tables Ctrmml.Lexer Ctrmml.TrackBuilder
open Ctrmml.MmlMeaning (Num Dur Acc Cmd)
open Ctrmml.Layout (Addr)

/-! ### scans -/

/-- bytes the textual scans of a conditional block pass over -/
def Clean (l : List Nat) : Prop := ∀ x ∈ l, x ≠ 0 ∧ x ≠ 47 ∧ x ≠ 59 ∧ x ≠ 125 ∧ x < 128

theorem scanTokenC_suffix (stop : Int → Bool) (s : MmlState) (xs : List Nat) (c : Nat) (rest : List Nat)
    (hxs : ∀ x ∈ xs, (schar x == 0 || stop (schar x)) = false) (hc : (schar c == 0 || stop (schar c)) = true)
    (hsuf : suffix s = xs ++ c :: rest) : scanTokenC stop s = .ok (schar c) (adv s (xs.length + 1)) := by
  have hsc : scanC stop s = .ok (xs, schar c) (adv s (xs.length + 1)) := by
    unfold scanC
    have : List.drop s.inp.lb.column s.inp.lb.buf = xs ++ c :: rest := hsuf
    simp only [this, scanUntil_stop stop xs c rest hxs hc]
    rfl
  unfold scanTokenC
  rw [bind_ok hsc]
  rfl

theorem clean_slash (a : List Nat) (h : Clean a) : ∀ x ∈ a, (schar x == 0 || (fun c : Int => c == 47 || c == 59) (schar x)) = false := by
  intro x hx
  obtain ⟨h0, h47, h59, _, hlt⟩ := h x hx
  rw [schar_small x hlt]
  simp; omega

theorem clean_brace (a : List Nat) (h : ∀ x ∈ a, x ≠ 0 ∧ x ≠ 59 ∧ x ≠ 125 ∧ x < 128) :
    ∀ x ∈ a, (schar x == 0 || (fun c : Int => c == 125 || c == 59) (schar x)) = false := by
  intro x hx
  obtain ⟨h0, h59, h125, hlt⟩ := h x hx
  rw [schar_small x hlt]
  simp; omega

/-- `conditional_block_begin`'s loop: one scan to the next `/` per skipped alternative -/
theorem cbGo_skip : ∀ (skipped : List (List Nat)) (rest : List Nat) (s : MmlState), (∀ a ∈ skipped, Clean a) →
    suffix s = skipped.flatMap (· ++ [47]) ++ rest →
    conditionalBlockBegin.go skipped.length s = .ok () (adv s (skipped.flatMap (· ++ [47])).length)
  | [], rest, s, _, _ => by
    simp only [List.flatMap_nil, List.length_nil, adv_zero]
    rfl
  | a :: as, rest, s, hcl, hsuf => by
    have hsuf' : suffix s = a ++ 47 :: (as.flatMap (· ++ [47]) ++ rest) := by rw [hsuf]; simp [List.append_assoc]
    have hscan := scanTokenC_suffix (fun c => c == 47 || c == 59) s a 47 _ (clean_slash a (hcl a (by simp))) (by decide) hsuf'
    have ih := cbGo_skip as rest (adv s (a.length + 1)) (fun b hb => hcl b (by simp [hb]))
      (by rw [suffix_adv, hsuf']; simp)
    have h47 : schar 47 = 47 := by decide
    show conditionalBlockBegin.go (as.length + 1) s = _
    unfold conditionalBlockBegin.go
    rw [bind_ok hscan, h47]
    simp only [bne_self_eq_false, Bool.false_eq_true, if_false]
    rw [ih, adv_adv]
    have : ((a :: as).flatMap (· ++ [47])).length = a.length + 1 + (as.flatMap (· ++ [47])).length := by
      simp only [List.flatMap_cons, List.length_append, List.length_cons, List.length_nil]
    rw [this]

theorem conditionalBlockBegin_skip (skipped : List (List Nat)) (rest : List Nat) (s : MmlState) (hcl : ∀ a ∈ skipped, Clean a)
    (hoff : s.trackOffset = skipped.length) (hsuf : suffix s = skipped.flatMap (· ++ [47]) ++ rest) :
    conditionalBlockBegin s =
      .ok () { adv s (skipped.flatMap (· ++ [47])).length with conditionalBlock := true } := by
  unfold conditionalBlockBegin
  simp only [bind_apply, getS, modifyS]
  have h := cbGo_skip skipped rest { s with conditionalBlock := true } hcl hsuf
  rw [← hoff] at h
  exact h

/-! ### bodies with blocks -/

/-- the items of a line body: a run of tokens, or a conditional block (one alternative per track) -/
inductive Item
  | toks (ts : List Tok)
  | block (alts : List (List Tok))

/-- the text of one alternative -/
def altText (a : List Tok) : List Nat := toksText a []

/-- what follows the selected alternative: `}`, or `/`, the remaining alternatives and `}` -/
def afterText : List (List Tok) → List Nat → List Nat
  | [], e => 125 :: e
  | a :: as, e => 47 :: (altText a ++ afterText as e)

/-- the alternatives before the selected one, each with its `/` -/
def skipText (skipped : List (List Tok)) : List Nat := (skipped.map altText).flatMap (· ++ [47])

/-- a block: `{`, alternatives separated by `/`, `}` -/
def blockText : List (List Tok) → List Nat → List Nat
  | [], e => 123 :: 125 :: e
  | a :: as, e => 123 :: (altText a ++ afterText as e)

def Item.text : Item → List Nat → List Nat
  | .toks ts, e => toksText ts e
  | .block alts, e => blockText alts e

def itemsText : List Item → List Nat → List Nat
  | [], e => e
  | it :: its, e => it.text (itemsText its e)

/-- what the track at position `i` of the line's track list receives from an item -/
def Item.sel (i : Nat) : Item → List Tok
  | .toks ts => ts
  | .block alts => alts.getD i []

/-- the commands track position `i` receives from a body -/
def selCmds (i : Nat) (items : List Item) : List Cmd := items.flatMap fun it => cmdsOf (it.sel i)

theorem toksText_append (ts : List Tok) (e : List Nat) : toksText ts e = toksText ts [] ++ e := by
  induction ts with
  | nil => rfl
  | cons t ts ih => simp only [toksText, List.append_assoc]; rw [ih]

/-- the block text seen from alternative `i`: `{`, the skipped alternatives, alternative `i` followed by the rest -/
theorem blockText_split : ∀ (skipped : List (List Tok)) (a : List Tok) (after : List (List Tok)) (e : List Nat),
    blockText (skipped ++ a :: after) e = 123 :: (skipText skipped ++ toksText a (afterText after e))
  | [], a, after, e => by
    simp only [List.nil_append, blockText, skipText, List.map_nil, List.flatMap_nil, altText]
    rw [toksText_append a (afterText after e)]
  | b :: bs, a, after, e => by
    have ih := blockText_split bs a after e
    cases hbs : bs ++ a :: after with
    | nil => simp at hbs
    | cons c cs =>
      have h1 : blockText (b :: bs ++ a :: after) e = 123 :: (altText b ++ 47 :: (altText c ++ afterText cs e)) := by
        simp only [List.cons_append, hbs, blockText, afterText]
      rw [hbs] at ih
      simp only [blockText, List.cons.injEq, true_and] at ih
      rw [h1, ih]
      simp [skipText, List.append_assoc]

/-! ### one block -/

theorem close_block (s s2 : MmlState) (k0 k3 : Nat) (hc : s.conditionalBlock = false)
    (h : Moved { adv s k0 with conditionalBlock := true } s2) : Moved s { adv s2 k3 with conditionalBlock := false } := by
  obtain ⟨k, h⟩ := h
  cases s with
  | mk inp song tagKey trackId trackOffset trackList lastCmd conditionalBlock warnings =>
    simp only at hc
    subst hc
    rcases h with rfl | ⟨t, rfl⟩
    · exact ⟨k0 + k + k3, Or.inl (by simp [adv, setLb, Nat.add_assoc])⟩
    · exact ⟨k0 + k + k3, Or.inr ⟨t, by simp [adv, setLb, setTrack, Nat.add_assoc]⟩⟩

/-- bytes of the alternatives behind the selected one, as `conditional_block_end` scans them -/
theorem afterText_scan : ∀ (after : List (List Tok)) (e : List Nat), (∀ a ∈ after, Clean (altText a)) →
    ∃ xs, afterText after e = xs ++ 125 :: e ∧ (∀ x ∈ xs, x ≠ 0 ∧ x ≠ 59 ∧ x ≠ 125 ∧ x < 128)
  | [], e, _ => ⟨[], rfl, fun x hx => by simp at hx⟩
  | a :: as, e, h => by
    obtain ⟨xs, h1, h2⟩ := afterText_scan as e (fun b hb => h b (by simp [hb]))
    refine ⟨47 :: (altText a ++ xs), by simp [afterText, h1], ?_⟩
    intro x hx
    simp at hx
    rcases hx with rfl | hx | hx
    · omega
    · have := h a (by simp) x hx; omega
    · exact h2 x hx

theorem afterText_length : ∀ (after : List (List Tok)) (e : List Nat), e.length + 1 ≤ (afterText after e).length
  | [], e => by simp [afterText]
  | a :: as, e => by
    have := afterText_length as e
    simp [afterText]; omega

/-- the end of the selected alternative: `}` or `/` with the block flag set -/
theorem parseF_block_end (f : Nat) (s : MmlState) (after : List (List Tok)) (e : List Nat)
    (hcl : ∀ a ∈ after, Clean (altText a)) (hsuf : suffix s = afterText after e) (hflag : s.conditionalBlock = true) :
    parseMmlTrackF (f + 1) s = parseMmlTrackF f { adv s ((afterText after e).length - e.length) with conditionalBlock := false } := by
  have hfl : (adv s 1).conditionalBlock = true := hflag
  cases after with
  | nil =>
    have hsuf' : suffix s = 125 :: e := hsuf
    conv => lhs; unfold parseMmlTrackF
    rw [bind_ok (getTokenC_cons s 125 e hsuf' (by omega)), bind_ok (getS_run _)]
    have e1 : ((125 : Nat) : Int) = 125 := rfl
    rw [e1]
    simp (config := { decide := true }) only [hfl, if_false, if_true, Bool.and_true, Bool.or_true, Bool.true_and]
    have hlen : (afterText [] e).length - e.length = 1 := by simp [afterText]
    rw [hlen]
    rfl
  | cons a as =>
    obtain ⟨ys, hy1, hy2⟩ := afterText_scan as e (fun b hb => hcl b (by simp [hb]))
    obtain ⟨xs, hxs⟩ : ∃ xs, xs = altText a ++ ys := ⟨_, rfl⟩
    have hx2 : ∀ x ∈ xs, x ≠ 0 ∧ x ≠ 59 ∧ x ≠ 125 ∧ x < 128 := by
      intro x hx
      rw [hxs] at hx
      simp at hx
      rcases hx with hx | hx
      · have := hcl a (by simp) x hx; omega
      · exact hy2 x hx
    have hat : afterText (a :: as) e = 47 :: (xs ++ 125 :: e) := by
      simp [afterText, hy1, hxs, List.append_assoc]
    have hsuf' : suffix s = 47 :: (xs ++ 125 :: e) := by rw [hsuf, hat]
    have hsuf1 : suffix (adv s 1) = xs ++ 125 :: e := by rw [suffix_adv, hsuf']; rfl
    have hscan := scanTokenC_suffix (fun c => c == 125 || c == 59) (adv s 1) xs 125 e (clean_brace xs hx2) (by decide) hsuf1
    have h125 : schar 125 = 125 := by decide
    rw [h125, adv_adv] at hscan
    conv => lhs; unfold parseMmlTrackF
    rw [bind_ok (getTokenC_cons s 47 _ hsuf' (by omega)), bind_ok (getS_run _)]
    have e1 : ((47 : Nat) : Int) = 47 := rfl
    rw [e1]
    simp (config := { decide := true }) only [hfl, if_false, if_true, Bool.and_true, Bool.or_true, Bool.true_and, Bool.true_or]
    have hlen : (afterText (a :: as) e).length - e.length = 1 + (xs.length + 1) := by
      rw [hat]; simp; omega
    rw [hlen]
    unfold conditionalBlockEnd
    simp (config := { decide := true }) only [if_true, Bool.and_true]
    rw [bind_apply, bind_apply, hscan]
    rfl

/-- a whole block as track position `i` sees it: `{`, skip `i` alternatives, parse alternative
`i`, skip the rest — the run equals the run from behind the `}` with the track, up to source
references, as after the builder calls of alternative `i` -/
theorem parse_block (skipped : List (List Tok)) (a : List Tok) (after : List (List Tok)) (e : List Nat) (f : Nat) (s : MmlState)
    (hs : Sane s) (hflag : s.conditionalBlock = false) (hoff : s.trackOffset = skipped.length)
    (hcl : ∀ b ∈ skipped ++ after, Clean (altText b))
    (hsuf : suffix s = blockText (skipped ++ a :: after) e) (hok : ToksOk a (afterText after e))
    (hcmds : CmdsOk (getTrack s).strip (cmdsOf a)) (hf : (blockText (skipped ++ a :: after) e).length + 1 ≤ f) :
    ∃ s' f', parseMmlTrackF f s = parseMmlTrackF f' s' ∧ e.length + 1 ≤ f' ∧ suffix s' = e ∧ Sane s' ∧ Moved s s' ∧
      (getTrack s').strip = runCmds (getTrack s).strip (cmdsOf a) := by
  obtain ⟨f0, rfl⟩ : ∃ f0, f = f0 + 1 := ⟨f - 1, by omega⟩
  rw [blockText_split] at hsuf hf
  obtain ⟨E, hE⟩ : ∃ E, E = afterText after e := ⟨_, rfl⟩
  rw [← hE] at hsuf hf hok
  have hElen : e.length + 1 ≤ E.length := by
    rw [hE]; exact afterText_length after e
  have hstopE : StopEnd E := by
    rw [hE]
    cases after with
    | nil => exact Or.inr ⟨125, e, rfl, by simp [Stop]⟩
    | cons b bs => exact Or.inr ⟨47, _, rfl, by simp [Stop]⟩
  -- `{` and conditional_block_begin
  have hs1 : Sane (adv s 1) := sane_adv s hs 1 (by rw [hsuf]; simp)
  have hsuf1 : suffix (adv s 1) = skipText skipped ++ toksText a E := by rw [suffix_adv, hsuf]; rfl
  have hbegin := conditionalBlockBegin_skip (skipped.map altText) (toksText a E) (adv s 1)
    (fun b hb => by
      obtain ⟨x, hx, rfl⟩ := List.mem_map.mp hb
      exact hcl x (by simp [hx]))
    (by show s.trackOffset = (skipped.map altText).length; simpa using hoff) hsuf1
  obtain ⟨k0, hk0⟩ : ∃ k0, k0 = 1 + (skipText skipped).length := ⟨_, rfl⟩
  obtain ⟨s1, hs1def⟩ : ∃ s1 : MmlState, s1 = { adv s k0 with conditionalBlock := true } := ⟨_, rfl⟩
  have hbegin' : conditionalBlockBegin (adv s 1) = .ok () s1 := by
    rw [hbegin, hs1def, hk0, adv_adv]; rfl
  have hfl1 : (adv s 1).conditionalBlock = false := hflag
  have hstep1 : parseMmlTrackF (f0 + 1) s = parseMmlTrackF f0 s1 := by
    conv => lhs; unfold parseMmlTrackF
    rw [bind_ok (getTokenC_cons s 123 _ hsuf (by omega)), bind_ok (getS_run _)]
    have e1 : ((123 : Nat) : Int) = 123 := rfl
    rw [e1]
    simp (config := { decide := true }) only [hfl1, if_false, if_true, Bool.and_false, Bool.and_true, Bool.not_false]
    rw [bind_ok hbegin']
  have hsane1 : Sane s1 := by
    rw [hs1def]
    have := sane_adv s hs k0 (by rw [hsuf, hk0]; simp; omega)
    exact ⟨this.bytes, this.inl⟩
  have hsufs1 : suffix s1 = toksText a E := by
    rw [hs1def]
    show suffix (adv s k0) = _
    rw [hk0, ← adv_adv]
    exact suffix_adv_append _ _ _ hsuf1
  have hgt1 : getTrack s1 = getTrack s := by rw [hs1def]; rfl
  -- the selected alternative
  obtain ⟨s2, f2, hp2, hf2, hsuf2, hsane2, hmv2, hres2⟩ := parse_seg a.length a (Nat.le_refl _) E f0 s1 hsane1 hstopE hsufs1 hok
    (by rw [hgt1]; exact hcmds)
    (by simp only [List.length_cons, List.length_append] at hf; omega)
  obtain ⟨f3, rfl⟩ : ∃ f3, f2 = f3 + 1 := ⟨f2 - 1, by omega⟩
  have hflag2 : s2.conditionalBlock = true := hmv2.ctl.cond.trans (by subst hs1def; rfl)
  have hend := parseF_block_end f3 s2 after e (fun b hb => hcl b (by simp [hb])) (by rw [hsuf2, hE]) hflag2
  obtain ⟨k3, hk3⟩ : ∃ k3, k3 = (afterText after e).length - e.length := ⟨_, rfl⟩
  rw [← hk3] at hend
  obtain ⟨s3, hs3⟩ : ∃ s3 : MmlState, s3 = { adv s2 k3 with conditionalBlock := false } := ⟨_, rfl⟩
  rw [← hs3] at hend
  have hk3le : k3 ≤ (suffix s2).length := by rw [hsuf2, hE, hk3]; omega
  have hsane3 : Sane s3 := by
    rw [hs3]
    have := sane_adv s2 hsane2 k3 hk3le
    exact ⟨this.bytes, this.inl⟩
  have hsuf3 : suffix s3 = e := by
    rw [hs3]
    show suffix (adv s2 k3) = _
    rw [suffix_adv, hsuf2, hE]
    obtain ⟨xs, hx1, _⟩ := afterText_scan after e (fun b hb => hcl b (by simp [hb]))
    rw [hk3, hx1]
    have h1 : (xs ++ 125 :: e).length - e.length = (xs ++ [125]).length := by simp; omega
    have h2 : xs ++ 125 :: e = (xs ++ [125]) ++ e := by simp
    rw [h1, h2, List.drop_left]
  refine ⟨s3, f3, by rw [hstep1, hp2, hend], by omega, hsuf3, hsane3, ?_, ?_⟩
  · rw [hs3]; rw [hs1def] at hmv2; exact close_block s s2 k0 k3 hflag hmv2
  · have : getTrack s3 = getTrack s2 := by rw [hs3]; rfl
    rw [this, hres2, hgt1]

/-! ### bodies -/

/-- a body is well formed for track position `i` (followed by `e`): token runs satisfy `ToksOk`
and are followed by a byte at which no number starts; a block has an alternative for position `i`,
no alternative spells `/`, `;`, `}` or NUL, and the selected alternative satisfies `ToksOk` -/
def ItemsOk (i : Nat) : List Item → List Nat → Prop
  | [], _ => True
  | .toks ts :: rest, e => ToksOk ts (itemsText rest e) ∧ StopEnd (itemsText rest e) ∧ ItemsOk i rest e
  | .block alts :: rest, e => i < alts.length ∧ (∀ a ∈ alts, Clean (altText a)) ∧
      ToksOk (alts.getD i []) (afterText (alts.drop (i + 1)) (itemsText rest e)) ∧ ItemsOk i rest e

theorem selCmds_cons (i : Nat) (it : Item) (rest : List Item) : selCmds i (it :: rest) = cmdsOf (it.sel i) ++ selCmds i rest := by
  simp [selCmds]

theorem alts_split (alts : List (List Tok)) (i : Nat) (h : i < alts.length) :
    alts = alts.take i ++ alts.getD i [] :: alts.drop (i + 1) ∧ (alts.take i).length = i := by
  have hg : alts.getD i [] = alts[i] := by simp [List.getD, List.getElem?_eq_getElem h]
  refine ⟨?_, by simp; omega⟩
  rw [hg]
  simp

/-- `parse_mml_track` over a body with blocks, for track position `i` -/
theorem parse_items (i : Nat) : ∀ (items : List Item) (e : List Nat) (f : Nat) (s : MmlState), Sane s →
    s.conditionalBlock = false → s.trackOffset = i → suffix s = itemsText items e → ItemsOk i items e →
    CmdsOk (getTrack s).strip (selCmds i items) → (itemsText items e).length + 1 ≤ f →
    ∃ s' f', parseMmlTrackF f s = parseMmlTrackF f' s' ∧ e.length + 1 ≤ f' ∧ suffix s' = e ∧ Sane s' ∧ Moved s s' ∧
      (getTrack s').strip = runCmds (getTrack s).strip (selCmds i items) := by
  intro items
  induction items with
  | nil => intro e f s hs _ _ hsuf _ _ hf; exact ⟨s, f, rfl, hf, hsuf, hs, Moved.refl s, rfl⟩
  | cons it rest ih =>
    intro e f s hs hflag hoff hsuf hok hcmds hf
    rw [selCmds_cons] at hcmds
    obtain ⟨hc1, hc2⟩ := (cmdsOk_append _ _ _).mp hcmds
    -- the first item, as a segment up to `E`
    have hfirst : ∃ s1 f1, parseMmlTrackF f s = parseMmlTrackF f1 s1 ∧ (itemsText rest e).length + 1 ≤ f1 ∧ suffix s1 = itemsText rest e ∧
        Sane s1 ∧ Moved s s1 ∧ (getTrack s1).strip = runCmds (getTrack s).strip (cmdsOf (it.sel i)) ∧ ItemsOk i rest e := by
      cases it with
      | toks ts =>
        obtain ⟨h1, h2, h3⟩ := hok
        obtain ⟨s1, f1, a1, a2, a3, a4, a5, a6⟩ := parse_seg ts.length ts (Nat.le_refl _) (itemsText rest e) f s hs h2 hsuf h1 hc1 hf
        exact ⟨s1, f1, a1, a2, a3, a4, a5, a6, h3⟩
      | block alts =>
        obtain ⟨h1, h2, h3, h4⟩ := hok
        obtain ⟨hsplit, hlen⟩ := alts_split alts i h1
        have hsuf' : suffix s = blockText (alts.take i ++ alts.getD i [] :: alts.drop (i + 1)) (itemsText rest e) := by
          rw [← hsplit]; exact hsuf
        obtain ⟨s1, f1, a1, a2, a3, a4, a5, a6⟩ := parse_block (alts.take i) (alts.getD i []) (alts.drop (i + 1)) (itemsText rest e) f s hs hflag
          (by rw [hlen]; exact hoff)
          (fun b hb => h2 b (by
            simp at hb
            rcases hb with hb | hb
            · exact List.mem_of_mem_take hb
            · exact List.mem_of_mem_drop hb))
          hsuf' h3 hc1 (by rw [← hsplit]; exact hf)
        exact ⟨s1, f1, a1, a2, a3, a4, a5, a6, h4⟩
    obtain ⟨s1, f1, a1, a2, a3, a4, a5, a6, hokr⟩ := hfirst
    have hctl := a5.ctl
    obtain ⟨s', f', b1, b2, b3, b4, b5, b6⟩ := ih e f1 s1 a4 (hctl.cond.trans hflag) (hctl.trackOffset.trans hoff) a3 hokr
      (by rw [a6]; exact hc2) a2
    exact ⟨s', f', a1.trans b1, b2, b3, b4, a5.trans b5, by rw [b6, a6, selCmds_cons, runCmds_append]⟩

/-- result of a line for the tracks `ids`: position `j` receives `cmds j` -/
structure LineResI (ids : List Nat) (cmds : Nat → List Cmd) (s s' : MmlState) : Prop where
  tracks : ∀ j id, ids[j]? = some id → (trackOf id s').strip = runCmds (trackOf id s).strip (cmds j)
  others : ∀ b, b ∉ ids → s'.song.tracks.lookup b = s.song.tracks.lookup b
  ppqn : s'.song.ppqn = s.song.ppqn

theorem LineResI.trans {ids : List Nat} {c1 c2 : Nat → List Cmd} {s1 s2 s3 : MmlState}
    (h1 : LineResI ids c1 s1 s2) (h2 : LineResI ids c2 s2 s3) : LineResI ids (fun j => c1 j ++ c2 j) s1 s3 :=
  ⟨fun j id hid => by rw [h2.tracks j id hid, h1.tracks j id hid, runCmds_append],
   fun b hb => (h2.others b hb).trans (h1.others b hb), h2.ppqn.trans h1.ppqn⟩

/-- the `for` loop of `parse_mml` over distinct tracks on a body with blocks: the track at
position `i + j` receives the builder calls of its own selection -/
theorem parseMmlLoop_items (items : List Item) (e : List Nat) (col : Nat) (he : EndOk e) :
    ∀ (ids : List Nat) (i : Nat) (s : MmlState), Bytes s.inp.lb.buf → col ≤ s.inp.lb.buf.length →
    s.inp.lb.buf.drop col = itemsText items e → ids.Nodup → i + ids.length ≤ 65536 →
    (∀ j id, ids[j]? = some id → ItemsOk (i + j) items e ∧ CmdsOk (trackOf id s).strip (selCmds (i + j) items)) →
    ∃ s', parseMmlLoop col i ids s = .ok () s' ∧ LoopKeeps s s' ∧
      (∀ j id, ids[j]? = some id → (trackOf id s').strip = runCmds (trackOf id s).strip (selCmds (i + j) items)) ∧
      (∀ b, b ∉ ids → s'.song.tracks.lookup b = s.song.tracks.lookup b) := by
  intro ids
  induction ids with
  | nil => intro i s _ _ _ _ _ _; exact ⟨s, rfl, LoopKeeps.refl s, fun j id h => by simp at h, fun _ _ => rfl⟩
  | cons id rest ih =>
    intro i s hbytes hcol hdrop hnd hlen hcmds
    obtain ⟨s1, hs1⟩ : ∃ s1 : MmlState, s1 = { setLb s (s.inp.lb.seek col) with trackId := id, trackOffset := i % 65536, song := (setLb s (s.inp.lb.seek col)).song.makeTrack id, conditionalBlock := false } := ⟨_, rfl⟩
    have hsane1 : Sane s1 := by rw [hs1]; exact ⟨hbytes, hcol⟩
    have hsuf1 : suffix s1 = itemsText items e := by rw [hs1]; exact hdrop
    have hmk := makeTrack_lookup s.song id
    have hgt1 : getTrack s1 = trackOf id s := by
      rw [hs1]; unfold getTrack trackOf
      show (List.lookup id (s.song.makeTrack id).tracks).getD (Track.new (s.song.makeTrack id).ppqn) = _
      rw [hmk.1, hmk.2]; rfl
    have hoff1 : s1.trackOffset = i := by
      rw [hs1]; show i % 65536 = i
      simp at hlen; omega
    have hfuel : (itemsText items e).length + 1 ≤ trackFuel s1 := by
      have h1 := suffix_length s1
      rw [hsuf1] at h1
      unfold trackFuel
      have := hsane1.inl
      omega
    have h0 := hcmds 0 id (by simp)
    simp only [Nat.add_zero] at h0
    obtain ⟨sa, fa, a1, a2, a3, a4, a5, a6⟩ := parse_items i items e (trackFuel s1) s1 hsane1 (by rw [hs1]) hoff1 hsuf1 h0.1
      (by rw [hgt1]; exact h0.2) hfuel
    obtain ⟨s2, hp2, hm2, ht2⟩ := parse_toks_nil e fa sa he a3 (by omega)
    have hmv : Moved s1 s2 := a5.trans hm2
    have hres : (getTrack s2).strip = runCmds (trackOf id s).strip (selCmds i items) := by rw [ht2, a6, hgt1]
    have hctl := hmv.ctl
    have hpt : parseMmlTrack s1 = .ok () s2 := by
      unfold parseMmlTrack; rw [bind_ok (getS_run s1), a1]; exact hp2
    have hcond : s2.conditionalBlock = false := hctl.cond.trans (by subst hs1; rfl)
    have hid1 : s1.trackId = id := by rw [hs1]
    have hlk12 : ∀ b, b ≠ id → s2.song.tracks.lookup b = s.song.tracks.lookup b := by
      intro b hb
      rw [hctl.others b (by rw [hid1]; exact hb), hs1]
      exact lookup_makeTrack_ne b id s.song hb
    have hppqn2 : s2.song.ppqn = s.song.ppqn := by rw [hctl.ppqn, hs1]; exact hmk.2
    have hkeep2 : LoopKeeps s s2 := ⟨hctl.trackList.trans (by subst hs1; rfl), hctl.lastCmd.trans (by subst hs1; rfl), hppqn2,
      hctl.line.trans (by subst hs1; rfl), hctl.buf.trans (by subst hs1; rfl)⟩
    have hnd' := List.nodup_cons.mp hnd
    obtain ⟨s', hloop, hkeep, hall, hfr⟩ := ih (i + 1) s2 (by rw [hkeep2.buf]; exact hbytes) (by rw [hkeep2.buf]; exact hcol)
      (by rw [hkeep2.buf]; exact hdrop) hnd'.2 (by simp at hlen ⊢; omega)
      (fun j id' hid' => by
        have hmem : id' ∈ rest := List.mem_of_getElem? hid'
        have hne : id' ≠ id := fun e => hnd'.1 (e ▸ hmem)
        rw [trackOf_congr id' s s2 (hlk12 id' hne) hppqn2]
        have := hcmds (j + 1) id' (by simpa using hid')
        have e2 : i + (j + 1) = i + 1 + j := by omega
        rw [e2] at this
        exact this)
    refine ⟨s', ?_, hkeep2.trans hkeep, ?_, ?_⟩
    · rw [parseMmlLoop_cons, ← hs1, hpt]
      simp only [hcond, Bool.false_eq_true, if_false]
      exact hloop
    · intro j x hx
      cases j with
      | zero =>
        have hx' : x = id := by simpa using hx.symm
        subst hx'
        rw [trackOf_congr x s2 s' (hfr x hnd'.1) hkeep.ppqn]
        have : trackOf x s2 = getTrack s2 := by unfold trackOf getTrack; rw [hctl.trackId, hid1]
        rw [this, hres]; rfl
      | succ j =>
        have hx' : rest[j]? = some x := by simpa using hx
        have hmem : x ∈ rest := List.mem_of_getElem? hx'
        have hne : x ≠ id := fun e => hnd'.1 (e ▸ hmem)
        have e2 : i + (j + 1) = i + 1 + j := by omega
        rw [hall j x hx', trackOf_congr x s s2 (hlk12 x hne) hppqn2, e2]
    · intro b hb
      simp at hb
      rw [hfr b hb.2, hlk12 b hb.1]

/-! ### the spelling of a covered command never contains `/`, `;`, `}` or NUL -/

theorem num_bytes_range (n : Num) : ∀ x ∈ n.bytes, x = 36 ∨ x = 45 ∨ (48 ≤ x ∧ x ≤ 57) ∨ (97 ≤ x ∧ x ≤ 102) := by
  intro x hx
  unfold Num.bytes at hx
  simp only [List.mem_append] at hx
  rcases hx with (hx | hx) | hx
  · split at hx <;> simp at hx
    exact Or.inl hx
  · split at hx <;> simp at hx
    exact Or.inr (Or.inl hx)
  · obtain ⟨base, hbase⟩ : ∃ base, base = (if n.hex then 16 else 10) := ⟨_, rfl⟩
    rw [← hbase] at hx
    have hb : 2 ≤ base ∧ base ≤ 16 := by rw [hbase]; split <;> omega
    have hsp := natDigits_spec base hb.1 (n.v.natAbs + 1) n.v.natAbs (by omega)
    rw [renderNat_eq] at hx
    obtain ⟨d, hd, rfl⟩ := List.mem_map.mp hx
    have := digitChar_range d (by have := hsp.2.1 d hd; omega)
    omega

theorem dur_bytes_range (d : Dur) : ∀ x ∈ d.bytes, x = 36 ∨ x = 45 ∨ x = 46 ∨ x = 58 ∨ (48 ≤ x ∧ x ≤ 57) ∨ (97 ≤ x ∧ x ≤ 102) := by
  intro x hx
  cases d with
  | dflt k =>
    simp [Dur.bytes, MmlMeaning.dotsBytes] at hx
    omega
  | len n k =>
    simp [Dur.bytes, MmlMeaning.dotsBytes] at hx
    rcases hx with hx | hx
    · have := num_bytes_range n x hx; omega
    · omega
  | frames n k =>
    simp [Dur.bytes, MmlMeaning.dotsBytes] at hx
    rcases hx with hx | hx | hx
    · omega
    · have := num_bytes_range n x hx; omega
    · omega

theorem clean_of_range (l : List Nat) (h : ∀ x ∈ l, (33 ≤ x ∧ x < 128) ∧ x ≠ 47 ∧ x ≠ 59 ∧ x ≠ 125) : Clean l := by
  intro x hx
  have := h x hx
  omega

/-- the spelling of a command of C05's subset is clean -/
theorem covered_clean (c : Cmd) (hc : Covered c) : Clean c.bytes := by
  apply clean_of_range
  intro x hx
  have hnum : ∀ n : Num, x ∈ n.bytes → (33 ≤ x ∧ x < 128) ∧ x ≠ 47 ∧ x ≠ 59 ∧ x ≠ 125 := fun n h => by
    have := num_bytes_range n x h; omega
  have hdur : ∀ d : Dur, x ∈ d.bytes → (33 ≤ x ∧ x < 128) ∧ x ≠ 47 ∧ x ≠ 59 ∧ x ≠ 125 := fun d h => by
    have := dur_bytes_range d x h; omega
  cases c with
  | note l a d =>
    have hl : l < 8 := hc
    simp only [Cmd.bytes, List.mem_cons, List.mem_append] at hx
    rcases hx with (rfl | hx) | hx
    · unfold MmlMeaning.letterByte; omega
    · cases a <;> simp [Acc.bytes] at hx <;> omega
    · exact hdur d hx
  | rest d =>
    simp only [Cmd.bytes, List.mem_cons] at hx
    rcases hx with rfl | hx
    · omega
    · exact hdur d hx
  | tie d =>
    simp only [Cmd.bytes, List.mem_cons] at hx
    rcases hx with rfl | hx
    · omega
    · exact hdur d hx
  | length d =>
    simp only [Cmd.bytes, List.mem_cons] at hx
    rcases hx with rfl | hx
    · omega
    · exact hdur d hx
  | octave n =>
    simp only [Cmd.bytes, List.mem_cons] at hx
    rcases hx with rfl | hx
    · omega
    · exact hnum n hx
  | quantize n =>
    simp only [Cmd.bytes, List.mem_cons] at hx
    rcases hx with rfl | hx
    · omega
    · exact hnum n hx
  | early n =>
    simp only [Cmd.bytes, List.mem_cons] at hx
    rcases hx with rfl | hx
    · omega
    · exact hnum n hx
  | measure n =>
    simp only [Cmd.bytes, List.mem_cons] at hx
    rcases hx with rfl | hx
    · omega
    · exact hnum n hx
  | shuffle n =>
    simp only [Cmd.bytes, List.mem_cons] at hx
    rcases hx with rfl | hx
    · omega
    · exact hnum n hx
  | slur => simp [Cmd.bytes] at hx; omega
  | octUp => simp [Cmd.bytes] at hx; omega
  | octDown => simp [Cmd.bytes] at hx; omega
  | _ => exact absurd hc (by simp [Covered])

/-- the spelling of every covered command is clean: inside the covered subset the first face of
D16 (a `/`, `;` or `}` inside an alternative) cannot occur -/
theorem lcovered_clean (c : Cmd) (hc : LCovered c) : Clean c.bytes := by
  rcases lcovered_cases c hc with ⟨sm, n, rfl⟩ | ⟨n, rfl⟩ | ⟨d, rfl⟩ | ⟨l, a, d, rfl⟩ | hcov
  · apply clean_of_range
    intro x hx
    have hnum : ∀ n : Num, x ∈ n.bytes → (33 ≤ x ∧ x < 128) ∧ x ≠ 47 ∧ x ≠ 59 ∧ x ≠ 125 := fun n h => by
      have := num_bytes_range n x h; omega
    cases sm <;> rcases n with _ | n <;> simp only [LCovered, evClass, covSimple] at hc <;> try exact absurd hc id
    all_goals
      simp only [Cmd.bytes, MmlMeaning.Simple.spellingBytes, MmlMeaning.optNumBytes, List.mem_append, List.mem_cons, List.mem_nil_iff, or_false] at hx
      first
      | (subst hx; omega)
      | (rcases hx with rfl | hx
         · omega
         · exact hnum _ hx)
      | (rcases hx with (rfl | rfl) | hx
         · omega
         · omega
         · exact hnum _ hx)
  · apply clean_of_range
    intro x hx
    simp only [Cmd.bytes, List.mem_cons] at hx
    rcases hx with rfl | hx
    · omega
    · have := num_bytes_range n x hx; omega
  · apply clean_of_range
    intro x hx
    simp only [Cmd.bytes, List.mem_cons] at hx
    rcases hx with rfl | hx
    · omega
    · have := dur_bytes_range d x hx; omega
  · apply clean_of_range
    intro x hx
    have hl : l < 8 := hc
    simp only [Cmd.bytes, List.mem_cons, List.mem_append] at hx
    rcases hx with (rfl | rfl | hx) | hx
    · omega
    · unfold MmlMeaning.letterByte; omega
    · cases a <;> simp [Acc.bytes] at hx <;> omega
    · have := dur_bytes_range d x hx; omega
  · exact covered_clean c hcov

/-- an alternative made of blanks, bars and covered commands is clean -/
theorem clean_alt (a : List Tok) (hb : ∀ b, Tok.blank b ∈ a → b = 32 ∨ b = 9) (hcov : ∀ c ∈ cmdsOf a, LCovered c) : Clean (altText a) := by
  induction a with
  | nil => intro x hx; simp [altText, toksText] at hx
  | cons t ts ih =>
    have ih' := ih (fun b hb' => hb b (by simp [hb']))
    intro x hx
    simp only [altText, toksText, List.mem_append] at hx
    cases t with
    | blank b =>
      rcases hx with hx | hx
      · simp [Tok.bytes] at hx
        have := hb b (by simp)
        omega
      · exact ih' hcov x hx
    | bar =>
      rcases hx with hx | hx
      · simp [Tok.bytes] at hx; omega
      · exact ih' hcov x hx
    | cmd c =>
      rcases hx with hx | hx
      · exact lcovered_clean c (hcov c (by simp [cmdsOf])) x hx
      · exact ih' (fun c' hc' => hcov c' (by simp [cmdsOf, hc'])) x hx

end Ctrmml.Mml
