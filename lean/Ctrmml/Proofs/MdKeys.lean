/-
  Helper lemmas for C07 `keyon_frame` / `keyoff_frame` / `pitch_value`: what an FM channel of
  the model writes to the key register 0x28 and to its frequency registers, event by event and
  update by update.
-/
import Ctrmml.Proofs.MdDriver
import Ctrmml.Proofs.TickStream
namespace Ctrmml.MdDriver
open Ctrmml Player PlayerCh Tables TickStream

/-- data bytes of the writes to register 0x28 -/
def keys (o : List Wr) : List Nat := (o.filter (fun w => w.reg = 0x28)).map (·.data)

@[simp] theorem keys_nil : keys [] = [] := rfl
@[simp] theorem keys_append (a b : List Wr) : keys (a ++ b) = keys a ++ keys b := by simp [keys]

/-- key-off / key-on words of FM channel (bank, id) -/
def koff (bank id : Nat) : Nat := (0 * 16 + (id ||| (bank * 4))) % 65536
def kon (bank id : Nat) : Nat := (15 * 16 + (id ||| (bank * 4))) % 65536

theorem keys_ymW_key (bank id x : Nat) : keys (ymW bank 0x28 id 0 x) = [(x * 16 + (id ||| (bank * 4))) % 65536] := by
  simp [ymW, keys]

/-- writes to the operator / frequency / algorithm / panning registers never touch 0x28 -/
theorem keys_ymW_other (bank r id op x : Nat) (hr : 0x30 ≤ r) (hr2 : r ≤ 0xb4) (hid : id < 3) (hop : op < 4) :
    keys (ymW bank r id op x) = [] := by
  unfold ymW
  have h28 : ¬ r = 0x28 := by omega
  simp only [h28, if_false]
  split
  · simp [keys]; omega
  · split
    · simp [keys]; omega
    · split
      · simp [keys]; omega
      · omega

theorem keys_vSetVol_fm (c : Ch) (bank id : Nat) (hk : c.kind = .fm bank id) (hid : id < 3) : keys (vSetVol c) = [] := by
  simp only [vSetVol, hk]
  simp [keys_ymW_other _ 0x40 id _ _ (by omega) (by omega) hid]

theorem keys_vSetPitch_fm (c : Ch) (bank id : Nat) (hk : c.kind = .fm bank id) (hid : id < 3) : keys (vSetPitch c) = [] := by
  simp only [vSetPitch, hk]
  exact keys_ymW_other _ 0xa0 id 0 _ (by omega) (by omega) hid (by omega)

theorem keys_vSetIns_fm (d : Data) (c : Ch) (bank id : Nat) (hk : c.kind = .fm bank id) (hid : id < 3) :
    keys (vSetIns d c).2 = (if (d.get (u16 (c.var ev_INS))).type = mdsdrv_INS_FM then [koff bank id] else []) ∧
    (vSetIns d c).1.kind = c.kind ∧ (vSetIns d c).1.slur = c.slur ∧ (vSetIns d c).1.keyOn = c.keyOn ∧
    (vSetIns d c).1.ps = c.ps := by
  unfold vSetIns
  simp only [hk]
  split
  · rename_i h; simp [h, hk]
  · rename_i h
    have h' : (d.get (u16 (c.var ev_INS))).type = mdsdrv_INS_FM := by
      rcases Nat.lt_or_ge 0 0 with x | _
      · omega
      · exact Classical.byContradiction fun hh => h hh
    simp only [h', if_true, keys_append]
    have o : ∀ r op x, 0x30 ≤ r → r ≤ 0xb4 → op < 4 → keys (ymW bank r id op x) = [] :=
      fun r op x a b c' => keys_ymW_other bank r id op x a b hid c'
    simp [o, keys_ymW_key, koff, hk]

/-- the DAC enable / disable writes of `key_on_pcm` / `key_off_pcm` go to register 0x2b -/
theorem keys_keyOffPcm (g : G) (c : Ch) : keys (keyOffPcm g c).2 = [] := by
  unfold keyOffPcm; split <;> simp [keys]

theorem keys_keyOnPcm (d : Data) (g : G) (c : Ch) : keys (keyOnPcm d g c).2 = [] := by
  unfold keyOnPcm
  split
  · split <;> simp [keys]
  · rfl

theorem keys_chKeyOnPcm (d : Data) (g : G) (c : Ch) : keys (chKeyOnPcm d g c).2 = [] := by
  unfold chKeyOnPcm; split
  · exact keys_keyOnPcm d g c
  · rfl

/-- what `write_event` never changes: the kind, the track and the control/time part of the player -/
structure SameCtl (c c' : Ch) : Prop where
  kind : c'.kind = c.kind
  root : c'.root = c.root
  core : c'.ps.core = c.ps.core
  acc : c'.ps.acc = c.ps.acc
  err : c'.ps.err = c.ps.err
  ts : c'.ps.ch.trackState = c.ps.ch.trackState

theorem SameCtl.refl (c : Ch) : SameCtl c c := ⟨rfl, rfl, rfl, rfl, rfl, rfl⟩
theorem SameCtl.trans {a b c : Ch} (h1 : SameCtl a b) (h2 : SameCtl b c) : SameCtl a c :=
  ⟨h2.kind.trans h1.kind, h2.root.trans h1.root, h2.core.trans h1.core, h2.acc.trans h1.acc,
   h2.err.trans h1.err, h2.ts.trans h1.ts⟩
theorem SameCtl.clearFlag (c : Ch) (t : Nat) : SameCtl c (c.clearFlag t) := ⟨rfl, rfl, rfl, rfl, rfl, rfl⟩

section
variable (d : Data) (bank id : Nat) (hid : id < 3)

theorem keyOff_fm (c : Ch) (hk : c.kind = .fm bank id) : keyOff c = (c, ymW bank 0x28 id 0 0) := by
  simp [keyOff, hk]

theorem keys_koff : keys (ymW bank 0x28 id 0 0) = [koff bank id] := by
  rw [keys_ymW_key]; rfl

include hid in
theorem setVol_fm (c : Ch) (hk : c.kind = .fm bank id) :
    (setVol c).1 = c.clearFlag ev_VOL_FINE ∧ keys (setVol c).2 = [] :=
  ⟨rfl, keys_vSetVol_fm c bank id hk hid⟩

include hid in
theorem setIns_fm (g : G) (c : Ch) (hk : c.kind = .fm bank id) :
    SameCtl c (setIns d g c).2.1 ∧ (setIns d g c).2.1.slur = c.slur ∧ (setIns d g c).2.1.keyOn = c.keyOn ∧
      (∀ x ∈ keys (setIns d g c).2.2, x = koff bank id) := by
  unfold setIns
  obtain ⟨k1, k2, k3, k4, k5⟩ := keys_vSetIns_fm d c bank id hk hid
  have hk' : (vSetIns d c).1.kind = .fm bank id := by rw [k2]; exact hk
  have sv := setVol_fm bank id hid (vSetIns d c).1 hk'
  refine ⟨⟨?_, ?_, ?_, ?_, ?_, ?_⟩, ?_, ?_, ?_⟩
  · simp only [sv.1]; exact k2
  · simp only [sv.1]
    show (vSetIns d c).1.root = c.root
    unfold vSetIns; simp only [hk]; split <;> rfl
  · simp only [sv.1]; show (vSetIns d c).1.ps.core = c.ps.core; rw [k5]
  · simp only [sv.1]; show (vSetIns d c).1.ps.acc = c.ps.acc; rw [k5]
  · simp only [sv.1]; show (vSetIns d c).1.ps.err = c.ps.err; rw [k5]
  · simp only [sv.1]; show (vSetIns d c).1.ps.ch.trackState = c.ps.ch.trackState; rw [k5]
  · simp only [sv.1]; exact k3
  · simp only [sv.1]; exact k4
  · intro x hx
    simp only [keys_append, sv.2, List.append_nil, k1] at hx
    split at hx <;> simp at hx
    exact hx

include hid in
theorem noteStart_fm (g : G) (c : Ch) (e : Event) (hk : c.kind = .fm bank id) (hs : c.slur = false) :
    SameCtl c (noteStart g c e).2.1 ∧ (noteStart g c e).2.1.slur = false ∧ (noteStart g c e).2.1.keyOn = true ∧
      keys (noteStart g c e).2.2 = [koff bank id] ∧
      (noteStart g c e).2.1.ps.ch.mask = c.ps.ch.mask := by
  unfold noteStart
  simp only [hs, Bool.not_false, if_true]
  rw [keyOff_fm bank id _ (by exact hk)]
  exact ⟨⟨hk ▸ rfl, rfl, rfl, rfl, rfl, rfl⟩, rfl, rfl, by rw [keys_append, keys_keyOffPcm, List.nil_append]; exact keys_koff bank id, rfl⟩

include hid in
theorem insOrVol_fm (g : G) (c : Ch) (hk : c.kind = .fm bank id) :
    SameCtl c (insOrVol d g c).2.1 ∧ (insOrVol d g c).2.1.slur = c.slur ∧
      (c.keyOn = true → (insOrVol d g c).2.1.keyOn = true) ∧
      (∀ x ∈ keys (insOrVol d g c).2.2, x = koff bank id) := by
  unfold insOrVol
  split
  · obtain ⟨a, b, c', dd⟩ := setIns_fm d bank id hid g c hk
    exact ⟨⟨a.kind, a.root, a.core, a.acc, a.err, a.ts⟩, b, fun _ => rfl, dd⟩
  · split
    · have sv := setVol_fm bank id hid c hk
      refine ⟨?_, ?_, ?_, ?_⟩
      · simp only [sv.1]; exact SameCtl.clearFlag c _
      · simp only [sv.1]; rfl
      · intro h; simp only [sv.1]; exact h
      · intro x hx; simp only [sv.2] at hx; simp at hx
    · exact ⟨SameCtl.refl c, rfl, fun h => h, by simp⟩

end

/-! ### key writes of an FM channel without slurs, summarised over a run of events -/
structure Summ (bank id : Nat) (c : Ch) (evs : List Event) (c' : Ch) (ops : List Wr) : Prop where
  kind : c'.kind = c.kind
  root : c'.root = c.root
  slur : c'.slur = false
  allOff : ∀ x ∈ keys ops, x = koff bank id
  hasOff : (∃ e ∈ evs, e.type = ev_NOTE ∨ e.type = ev_REST ∨ e.type = ev_END) → koff bank id ∈ keys ops
  offOnly : keys ops ≠ [] → ∃ e ∈ evs, e.type = ev_NOTE ∨ e.type = ev_TIE ∨ e.type = ev_REST ∨ e.type = ev_END
  onSet : (∃ e ∈ evs, e.type = ev_NOTE) → c'.keyOn = true
  onKeep : c.keyOn = true → c'.keyOn = true
  onOnly : c'.keyOn = true → c.keyOn = true ∨ ∃ e ∈ evs, e.type = ev_NOTE ∨ e.type = ev_TIE

theorem Summ.nil {bank id : Nat} {c c' : Ch} (hk : c'.kind = c.kind) (hr : c'.root = c.root) (hs : c'.slur = false)
    (hon : c'.keyOn = c.keyOn) : Summ bank id c [] c' [] :=
  ⟨hk, hr, hs, by simp, by simp, by simp, by simp, fun h => hon ▸ h, fun h => Or.inl (hon ▸ h)⟩

theorem Summ.trans {bank id : Nat} {a b c : Ch} {e1 e2 : List Event} {o1 o2 : List Wr}
    (h1 : Summ bank id a e1 b o1) (h2 : Summ bank id b e2 c o2) : Summ bank id a (e1 ++ e2) c (o1 ++ o2) := by
  refine ⟨h2.kind.trans h1.kind, h2.root.trans h1.root, h2.slur, ?_, ?_, ?_, ?_, ?_, ?_⟩
  · intro x hx
    rw [keys_append] at hx
    rcases List.mem_append.mp hx with h | h
    · exact h1.allOff x h
    · exact h2.allOff x h
  · rintro ⟨e, he, ht⟩
    rw [keys_append]
    rcases List.mem_append.mp he with h | h
    · exact List.mem_append.mpr (Or.inl (h1.hasOff ⟨e, h, ht⟩))
    · exact List.mem_append.mpr (Or.inr (h2.hasOff ⟨e, h, ht⟩))
  · intro hne
    rw [keys_append] at hne
    by_cases h : keys o1 = []
    · rw [h] at hne
      obtain ⟨e, he, ht⟩ := h2.offOnly (by simpa using hne)
      exact ⟨e, List.mem_append.mpr (Or.inr he), ht⟩
    · obtain ⟨e, he, ht⟩ := h1.offOnly h
      exact ⟨e, List.mem_append.mpr (Or.inl he), ht⟩
  · rintro ⟨e, he, ht⟩
    rcases List.mem_append.mp he with h | h
    · exact h2.onKeep (h1.onSet ⟨e, h, ht⟩)
    · exact h2.onSet ⟨e, h, ht⟩
  · intro h; exact h2.onKeep (h1.onKeep h)
  · intro h
    rcases h2.onOnly h with h' | ⟨e, he, ht⟩
    · rcases h1.onOnly h' with h'' | ⟨e, he, ht⟩
      · exact Or.inl h''
      · exact Or.inr ⟨e, List.mem_append.mpr (Or.inl he), ht⟩
    · exact Or.inr ⟨e, List.mem_append.mpr (Or.inr he), ht⟩

section
variable (d : Data) (bank id : Nat) (hid : id < 3)

include hid in
/-- `write_event` of an FM channel whose slur flag is clear, for an event that is not a slur -/
theorem writeEvent_summ (g : G) (c : Ch) (e : Event) (hk : c.kind = .fm bank id) (hs : c.slur = false)
    (ht : c.evType = e.type) (hns : e.type ≠ ev_SLUR) :
    Summ bank id c [e] (writeEvent d g c e).2.1 (writeEvent d g c e).2.2 ∧ SameCtl c (writeEvent d g c e).2.1 := by
  unfold writeEvent
  simp only [ht]
  by_cases h1 : e.type = ev_SEGNO
  · rw [if_pos h1]
    have : e.type ≠ ev_NOTE ∧ e.type ≠ ev_TIE ∧ e.type ≠ ev_REST ∧ e.type ≠ ev_END := by rw [h1]; decide
    exact ⟨⟨rfl, rfl, hs, by simp, by simp [this], by simp, by simp [this], fun h => h, fun h => Or.inl h⟩, SameCtl.refl c⟩
  rw [if_neg h1]
  by_cases h2 : e.type = ev_NOTE
  · rw [if_pos h2]
    obtain ⟨n1, n2, n3, n4, _⟩ := noteStart_fm bank id hid g c e hk hs
    have hk1 : (noteStart g c e).2.1.kind = .fm bank id := by rw [n1.kind]; exact hk
    obtain ⟨i1, i2, i3, i4⟩ := insOrVol_fm d bank id hid (noteStart g c e).1 (noteStart g c e).2.1 hk1
    refine ⟨⟨i1.kind.trans n1.kind, i1.root.trans n1.root, by rw [i2]; exact n2, ?_, ?_, ?_, ?_, ?_, ?_⟩, SameCtl.trans n1 i1⟩
    · intro x hx
      simp only [keys_append, n4] at hx
      rcases List.mem_append.mp hx with h | h
      · simpa using h
      · exact i4 x h
    · intro _; simp [keys_append, n4]
    · intro _; exact ⟨e, by simp, Or.inl h2⟩
    · intro _; exact i3 n3
    · intro _; exact i3 n3
    · intro _; exact Or.inr ⟨e, by simp, Or.inl h2⟩
  rw [if_neg h2]
  by_cases h3 : e.type = ev_TIE
  · rw [if_pos h3]
    obtain ⟨i1, i2, i3, i4⟩ := insOrVol_fm d bank id hid g c hk
    have : e.type ≠ ev_REST ∧ e.type ≠ ev_END := by rw [h3]; decide
    refine ⟨⟨i1.kind, i1.root, by rw [i2]; exact hs, i4, ?_, ?_, ?_, i3, ?_⟩, i1⟩
    · rintro ⟨e', he', ht'⟩
      simp only [List.mem_singleton] at he'
      subst he'
      simp [h2, this] at ht'
    · intro _; exact ⟨e, by simp, Or.inr (Or.inl h3)⟩
    · rintro ⟨e', he', ht'⟩
      simp only [List.mem_singleton] at he'
      subst he'
      exact absurd ht' h2
    · intro _; exact Or.inr ⟨e, by simp, Or.inr h3⟩
  rw [if_neg h3]
  by_cases h4 : e.type = ev_END
  · rw [if_pos h4, keyOff_fm bank id c hk]
    exact ⟨⟨rfl, rfl, hs, by simp [keys_koff, keys_keyOffPcm], by simp [keys_koff, keys_keyOffPcm], fun _ => ⟨e, by simp, Or.inr (Or.inr (Or.inr h4))⟩,
      by simp [h2], fun h => h, fun h => Or.inl h⟩, SameCtl.refl c⟩
  rw [if_neg h4]
  by_cases h5 : e.type = ev_REST
  · rw [if_pos h5, keyOff_fm bank id c hk]
    exact ⟨⟨rfl, rfl, hs, by simp [keys_koff, keys_keyOffPcm], by simp [keys_koff, keys_keyOffPcm], fun _ => ⟨e, by simp, Or.inr (Or.inr (Or.inl h5))⟩,
      by simp [h2], fun h => h, fun h => Or.inl h⟩, SameCtl.refl c⟩
  rw [if_neg h5, if_neg hns]
  have hnone : ∀ (c' : Ch) (o : List Wr), c'.kind = c.kind → c'.root = c.root → c'.slur = c.slur → c'.keyOn = c.keyOn →
      keys o = [] → Summ bank id c [e] c' o := by
    intro c' o a b cc dd ee
    exact ⟨a, b, by rw [cc]; exact hs, by simp [ee], by simp [h2, h4, h5], by simp [ee], by simp [h2],
      fun h => dd ▸ h, fun h => Or.inl (dd ▸ h)⟩
  by_cases h6 : e.type = ev_TEMPO ∨ e.type = ev_TEMPO_BPM
  · rw [if_pos h6]
    exact ⟨hnone _ _ rfl rfl rfl rfl rfl, by unfold updateTempo; exact SameCtl.clearFlag c _⟩
  rw [if_neg h6]
  by_cases h7 : e.type = ev_PLATFORM
  · rw [if_pos h7]; exact ⟨hnone _ _ rfl rfl rfl rfl rfl, SameCtl.refl c⟩
  rw [if_neg h7]
  by_cases h8 : e.type = ev_PAN
  · rw [if_pos h8]
    refine ⟨hnone _ _ rfl rfl rfl rfl ?_, SameCtl.refl c⟩
    unfold vSetPan
    simp only [hk]
    split
    · exact keys_ymW_other _ 0xb4 id 0 _ (by omega) (by omega) hid (by omega)
    · rfl
  rw [if_neg h8]
  by_cases h9 : e.type = ev_PAN_ENVELOPE
  · rw [if_pos h9]
    split <;> exact ⟨hnone _ _ rfl rfl rfl rfl rfl, SameCtl.refl c⟩
  rw [if_neg h9]
  exact ⟨hnone _ _ rfl rfl rfl rfl rfl, SameCtl.refl c⟩

end

/-! ### the channel's `play_tick` follows `ctTick` and its key writes are summarised by `Summ` -/
section
variable (d : Data) (song : Song) (root : List Event) (bank id : Nat) (hid : id < 3)

/-- no hook of the track ever sees a slur -/
def NoSlurHooks : Prop := ∀ c c' v f, coreStep song root c = .ok (c', .hook v f) → v.type ≠ ev_SLUR

/-- an FM channel in good standing -/
structure ChOK (c : Ch) : Prop where
  root : c.root = root
  kind : c.kind = .fm bank id
  err : c.ps.err = none
  drum : drumOff c.ps.ch
  slur : c.slur = false

theorem fail_isSome (g : G) (e : DErr) : (g.fail e).err.isSome = true := by
  unfold G.fail; split
  · assumption
  · rfl

theorem drumOff_of_ts {a b : Chan} (h : b.trackState = a.trackState) (ha : drumOff a) : drumOff b := by
  unfold drumOff getCh at *; rw [h]; exact ha

/-- the result of a channel function: an error arose, or the channel followed the control/time
state `p` and its key writes are summarised over the events `w` -/
def Follows (c : Ch) (p : PState) (w : List Event) (r : G × Ch × List Wr) : Prop :=
  r.1.err.isSome = true ∨
    (r.2.1.ps.core = p.core ∧ r.2.1.ps.acc = p.acc ∧ ChOK root bank id r.2.1 ∧ Summ bank id c w r.2.1 r.2.2)

include hid in
theorem chStep_follows (hpl : PlainHooks song root) (hns : NoSlurHooks song root) (g : G) (c : Ch)
    (hc : ChOK root bank id c) (bs : PState) (em : Emit)
    (hs : step song root true ⟨c.ps.core, c.ps.acc⟩ = .ok (bs, em)) :
    Follows root bank id c bs (emitEvents em) (chStep d song g c) := by
  have hroot := hc.root
  subst hroot
  have hp := pstep_ct song c.root (fun _ => false) hpl c.ps hc.err hc.drum
  rw [hs] at hp
  simp only at hp
  obtain ⟨e1, e2, e3, e4, e5⟩ := hp
  unfold chStep
  simp only [e4, Option.isSome_none, Bool.false_eq_true, if_false]
  rw [e1]
  have single : ∀ (e : Event), e.type ≠ ev_SLUR → emitEvents em = [e] →
      Follows c.root bank id c bs [e]
        (writeEvent d g { c with ps := (pstep song c.root (fun _ => false) false c.ps).1, evType := e.type } e) := by
    intro e hne _
    obtain ⟨sm, sc⟩ := writeEvent_summ d bank id hid g
      { c with ps := (pstep song c.root (fun _ => false) false c.ps).1, evType := e.type } e hc.kind hc.slur rfl hne
    refine Or.inr ⟨by rw [sc.core]; exact e2, by rw [sc.acc]; exact e3,
      ⟨sc.root, by rw [sc.kind]; exact hc.kind, by rw [sc.err]; exact e4,
       drumOff_of_ts sc.ts e5, sm.slur⟩,
      ⟨sm.kind, sm.root, sm.slur, sm.allOff, sm.hasOff, sm.offOnly, sm.onSet, sm.onKeep, sm.onOnly⟩⟩
  cases em with
  | nothing =>
    simp only [emitEvents]
    exact Or.inr ⟨e2, e3, ⟨hc.root, hc.kind, e4, e5, hc.slur⟩, Summ.nil rfl rfl hc.slur rfl⟩
  | finish =>
    simp only [emitEvents]
    exact single endEvent (by decide) rfl
  | event v =>
    simp only [emitEvents]
    obtain ⟨c', f, hcs⟩ := step_event_hook song c.root _ _ _ hs
    exact single v (hns _ _ _ _ hcs) rfl

include hid in
theorem chSettle_follows (hpl : PlainHooks song root) (hns : NoSlurHooks song root) :
    ∀ (f : Nat) (g : G) (c : Ch), ChOK root bank id c → g.err = none →
    ∀ p w, ctSettle song root f ⟨c.ps.core, c.ps.acc⟩ = some (p, w) →
      Follows root bank id c p w (chSettle d song f g c)
  | 0, g, c, hc, hg, p, w, h => by
    simp only [ctSettle] at h
    split at h
    · simp at h
    · rename_i hu
      simp only [Option.some.injEq, Prod.mk.injEq] at h
      obtain ⟨rfl, rfl⟩ := h
      have : isSettled c.ps = true := by rw [isSettled_ct c.ps hc.err]; simpa using hu
      simp only [chSettle, this, Bool.true_or, if_true]
      exact Or.inr ⟨rfl, rfl, hc, Summ.nil rfl rfl hc.slur rfl⟩
  | f + 1, g, c, hc, hg, p, w, h => by
    simp only [ctSettle] at h
    split at h
    · rename_i hu
      have hns' : isSettled c.ps = false := by rw [isSettled_ct c.ps hc.err]; simp [hu]
      cases hs : step song root true ⟨c.ps.core, c.ps.acc⟩ with
      | error e => rw [hs] at h; simp at h
      | ok q =>
        obtain ⟨bs, em⟩ := q
        rw [hs] at h
        simp only at h
        cases hcs : ctSettle song root f bs with
        | none => rw [hcs] at h; simp at h
        | some r =>
          rw [hcs] at h
          simp only [Option.map_some, Option.some.injEq, Prod.mk.injEq] at h
          obtain ⟨rfl, rfl⟩ := h
          have h1 := chStep_follows d song root bank id hid hpl hns g c hc bs em hs
          simp only [chSettle, hns', hg, Option.isSome_none, Bool.or_self, Bool.false_eq_true, if_false]
          cases hch : chStep d song g c with
          | mk g1 r1 =>
            obtain ⟨c1, o1⟩ := r1
            rw [hch] at h1
            simp only
            rcases h1 with herr | ⟨a1, a2, a3, a4⟩
            · -- an error arose: the loop stops at once
              simp only at herr
              have : chSettle d song f g1 c1 = (g1, c1, []) := by
                cases f <;> simp [chSettle, herr]
              rw [this]
              exact Or.inl herr
            · simp only at a1 a2 a3 a4
              cases hg1 : g1.err with
              | some x =>
                have herr : g1.err.isSome = true := by rw [hg1]; rfl
                have : chSettle d song f g1 c1 = (g1, c1, []) := by
                  cases f <;> simp [chSettle, herr]
                rw [this]
                exact Or.inl herr
              | none =>
                have hbs : (⟨c1.ps.core, c1.ps.acc⟩ : PState) = bs := by
                  cases bs; simp only [PState.mk.injEq]; exact ⟨a1, a2⟩
                have ih := chSettle_follows hpl hns f g1 c1 a3 hg1 r.1 r.2 (by rw [hbs]; exact hcs)
                cases hr : chSettle d song f g1 c1 with
                | mk g2 r2 =>
                  obtain ⟨c2, o2⟩ := r2
                  rw [hr] at ih
                  simp only
                  rcases ih with herr | ⟨b1, b2, b3, b4⟩
                  · exact Or.inl herr
                  · exact Or.inr ⟨b1, b2, b3, Summ.trans a4 b4⟩
    · rename_i hu
      simp only [Option.some.injEq, Prod.mk.injEq] at h
      obtain ⟨rfl, rfl⟩ := h
      have : isSettled c.ps = true := by rw [isSettled_ct c.ps hc.err]; simpa using hu
      simp only [chSettle, this, Bool.true_or, if_true]
      exact Or.inr ⟨rfl, rfl, hc, Summ.nil rfl rfl hc.slur rfl⟩

end

section
variable (d : Data) (song : Song) (root : List Event) (bank id : Nat) (hid : id < 3)

theorem follows_err {c : Ch} {p : PState} {w : List Event} {r : G × Ch × List Wr} (h : r.1.err.isSome = true) :
    Follows root bank id c p w r := Or.inl h

theorem ctDec_ch (c : Ch) :
    ctDec ⟨c.ps.core, c.ps.acc⟩ =
      if c.ps.acc.onTime > 0 then
        (⟨c.ps.core, c.decOn.ps.acc⟩, if c.ps.acc.onTime - 1 = 0 ∧ c.ps.acc.offTime > 0 then [restEvent] else [])
      else if c.ps.acc.offTime > 0 then (⟨c.ps.core, c.decOff.ps.acc⟩, [])
      else (⟨c.ps.core, c.ps.acc⟩, []) := by
  unfold ctDec
  by_cases h1 : c.ps.acc.onTime > 0
  · simp only [h1, if_true]; rfl
  · by_cases h2 : c.ps.acc.offTime > 0
    · simp only [h1, h2, if_true, if_false]; rfl
    · simp only [h1, h2, if_false]

include hid in
theorem chDec_follows (g : G) (c : Ch) (hc : ChOK root bank id c) :
    Follows root bank id c (ctDec ⟨c.ps.core, c.ps.acc⟩).1 (ctDec ⟨c.ps.core, c.ps.acc⟩).2 (chDec d g c) := by
  rw [ctDec_ch]
  unfold chDec
  have okOn : ChOK root bank id c.decOn := ⟨hc.root, hc.kind, hc.err, hc.drum, hc.slur⟩
  have okOff : ChOK root bank id c.decOff := ⟨hc.root, hc.kind, hc.err, hc.drum, hc.slur⟩
  by_cases h1 : c.ps.acc.onTime > 0
  · rw [if_pos h1, if_pos h1]
    by_cases h2 : c.ps.acc.onTime - 1 = 0 ∧ c.ps.acc.offTime > 0
    · rw [if_pos h2, if_pos h2]
      obtain ⟨sm, sc⟩ := writeEvent_summ d bank id hid g { c.decOn with evType := ev_REST } restEvent
        hc.kind hc.slur rfl (by decide)
      exact Or.inr ⟨sc.core, sc.acc,
        ⟨sc.root.trans hc.root, sc.kind.trans hc.kind, sc.err.trans hc.err, drumOff_of_ts sc.ts hc.drum, sm.slur⟩,
        ⟨sm.kind, sm.root, sm.slur, sm.allOff, sm.hasOff, sm.offOnly, sm.onSet, sm.onKeep, sm.onOnly⟩⟩
    · rw [if_neg h2, if_neg h2]
      exact Or.inr ⟨rfl, rfl, okOn, Summ.nil rfl rfl hc.slur rfl⟩
  · rw [if_neg h1, if_neg h1]
    by_cases h2 : c.ps.acc.offTime > 0
    · rw [if_pos h2, if_pos h2]
      exact Or.inr ⟨rfl, rfl, okOff, Summ.nil rfl rfl hc.slur rfl⟩
    · rw [if_neg h2, if_neg h2]
      exact Or.inr ⟨rfl, rfl, hc, Summ.nil rfl rfl hc.slur rfl⟩

include hid in
theorem chTick_follows (hpl : PlainHooks song root) (hns : NoSlurHooks song root) (g : G) (c : Ch)
    (hc : ChOK root bank id c) (hg : g.err = none) (p : PState) (w : List Event)
    (h : ctTick song root ⟨c.ps.core, c.ps.acc⟩ = some (p, w)) :
    Follows root bank id c p w (chTick d song g c) := by
  unfold ctTick at h
  cases hcs : ctSettle song root settleFuel (ctDec ⟨c.ps.core, c.ps.acc⟩).1 with
  | none => rw [hcs] at h; simp at h
  | some r =>
    rw [hcs] at h
    simp only [Option.map_some, Option.some.injEq, Prod.mk.injEq] at h
    obtain ⟨rfl, rfl⟩ := h
    unfold chTick
    simp only [hg, Option.isSome_none, Bool.false_eq_true, if_false]
    have h1 := chDec_follows d root bank id hid g c hc
    cases hd : chDec d g c with
    | mk g1 r1 =>
      obtain ⟨c1, o1⟩ := r1
      rw [hd] at h1
      simp only
      have stop : g1.err.isSome = true → chSettle d song settleFuel g1 c1 = (g1, c1, []) := by
        intro herr
        generalize settleFuel = f
        cases f <;> simp [chSettle, herr]
      rcases h1 with herr | ⟨a1, a2, a3, a4⟩
      · simp only at herr
        rw [stop herr]; exact Or.inl herr
      · simp only at a1 a2 a3 a4
        cases hg1 : g1.err with
        | some x =>
          have herr : g1.err.isSome = true := by rw [hg1]; rfl
          rw [stop herr]; exact Or.inl herr
        | none =>
          have hst : (⟨c1.ps.core, c1.ps.acc⟩ : PState) = (ctDec ⟨c.ps.core, c.ps.acc⟩).1 := by
            cases hx : (ctDec ⟨c.ps.core, c.ps.acc⟩).1 with
            | mk cc aa => rw [hx] at a1 a2; simp only at a1 a2 ⊢; rw [a1, a2]
          have ih := chSettle_follows d song root bank id hid hpl hns settleFuel g1 c1 a3 hg1 r.1 r.2 (by rw [hst]; exact hcs)
          cases hr : chSettle d song settleFuel g1 c1 with
          | mk g2 r2 =>
            obtain ⟨c2, o2⟩ := r2
            rw [hr] at ih
            simp only
            rcases ih with herr | ⟨b1, b2, b3, b4⟩
            · exact Or.inl herr
            · exact Or.inr ⟨b1, b2, b3, Summ.trans a4 b4⟩

theorem chTicks_err : ∀ (m : Nat) (g : G) (c : Ch), g.err.isSome = true → (chTicks d song m g c).1.err.isSome = true
  | 0, g, c, h => by simpa [chTicks] using h
  | m + 1, g, c, h => by
    simp only [chTicks]
    have : chTick d song g c = (g, c, []) := by simp [chTick, h]
    rw [this]
    simp only
    have ih := chTicks_err m g c h
    cases hx : chTicks d song m g c with
    | mk g3 r3 => rw [hx] at ih; exact ih

include hid in
theorem chTicks_follows (hpl : PlainHooks song root) (hns : NoSlurHooks song root) :
    ∀ (n : Nat) (g : G) (c : Ch), ChOK root bank id c → g.err = none →
    ∀ p ws, ctRun song root n ⟨c.ps.core, c.ps.acc⟩ = some (p, ws) →
      Follows root bank id c p ws.flatten (chTicks d song n g c)
  | 0, g, c, hc, hg, p, ws, h => by
    simp only [ctRun, Option.some.injEq, Prod.mk.injEq] at h
    obtain ⟨rfl, rfl⟩ := h
    exact Or.inr ⟨rfl, rfl, hc, Summ.nil rfl rfl hc.slur rfl⟩
  | n + 1, g, c, hc, hg, p, ws, h => by
    simp only [ctRun] at h
    cases ht : ctTick song root ⟨c.ps.core, c.ps.acc⟩ with
    | none => rw [ht] at h; simp at h
    | some r =>
      obtain ⟨s1, w⟩ := r
      rw [ht] at h
      simp only at h
      cases hr : ctRun song root n s1 with
      | none => rw [hr] at h; simp at h
      | some r2 =>
        rw [hr] at h
        simp only [Option.map_some, Option.some.injEq, Prod.mk.injEq] at h
        obtain ⟨rfl, rfl⟩ := h
        have h1 := chTick_follows d song root bank id hid hpl hns g c hc hg s1 w ht
        simp only [chTicks]
        cases hd : chTick d song g c with
        | mk g1 r1 =>
          obtain ⟨c1, o1⟩ := r1
          rw [hd] at h1
          simp only
          have stop : ∀ m, g1.err.isSome = true → (chTicks d song m g1 c1).1.err.isSome = true :=
            fun m herr => chTicks_err d song m g1 c1 herr
          rcases h1 with herr | ⟨a1, a2, a3, a4⟩
          · simp only at herr
            cases hx : chTicks d song n g1 c1 with
            | mk g3 r3 => have := stop n herr; rw [hx] at this; exact Or.inl this
          · simp only at a1 a2 a3 a4
            cases hg1 : g1.err with
            | some x =>
              have herr : g1.err.isSome = true := by rw [hg1]; rfl
              cases hx : chTicks d song n g1 c1 with
              | mk g3 r3 => have := stop n herr; rw [hx] at this; exact Or.inl this
            | none =>
              have hst : (⟨c1.ps.core, c1.ps.acc⟩ : PState) = s1 := by
                cases s1; simp only [PState.mk.injEq]; exact ⟨a1, a2⟩
              have ih := chTicks_follows hpl hns n g1 c1 a3 hg1 r2.1 r2.2 (by rw [hst]; exact hr)
              cases hx : chTicks d song n g1 c1 with
              | mk g3 r3 =>
                obtain ⟨c3, o3⟩ := r3
                rw [hx] at ih
                simp only
                rcases ih with herr | ⟨b1, b2, b3, b4⟩
                · exact Or.inl herr
                · exact Or.inr ⟨b1, b2, b3, by simpa using Summ.trans a4 b4⟩

end

/-! ### one sequence update of an FM channel -/
section
variable (d : Data) (song : Song) (root : List Event) (bank id : Nat) (hid : id < 3) (hbank : bank < 2)

include hid hbank in
theorem koff_ne_kon : koff bank id ≠ kon bank id := by
  have h1 : id = 0 ∨ id = 1 ∨ id = 2 := by omega
  have h2 : bank = 0 ∨ bank = 1 := by omega
  rcases h1 with rfl | rfl | rfl <;> rcases h2 with rfl | rfl <;> decide

include hid in
/-- after the ticks: frequency write if the pitch changed (never register 0x28), then the
deferred key-on -/
theorem chAfter_fm (g : G) (c : Ch) (hk : c.kind = .fm bank id) (hg : g.err = none) (hs : c.slur = false) :
    keys (chAfter d g c).2.2 = (if c.keyOn then [kon bank id] else []) ∧
      (chAfter d g c).2.1.keyOn = false ∧ (chAfter d g c).2.1.slur = false ∧
      (chAfter d g c).2.1.kind = c.kind ∧ (chAfter d g c).2.1.root = c.root ∧ (chAfter d g c).2.1.ps = c.ps ∧
      (chAfter d g c).2.1.pitch = u16 ((c.notePitch : Int) + c.insTranspose * 256) := by
  unfold chAfter
  simp only [hg, Option.isSome_none, Bool.false_eq_true, if_false]
  have he : chEnv g c = (g, c, []) := by simp [chEnv, hk, isPsg]
  rw [he]
  simp only [List.nil_append, keys_append]
  have hp : keys (chPitch c).2 = [] := by
    unfold chPitch
    simp only
    split
    · exact keys_vSetPitch_fm _ bank id hk hid
    · rfl
  have hk2 : (chPitch c).1.kind = .fm bank id := hk
  rw [hp, keys_chKeyOnPcm]
  unfold chKeyOn
  have hs2 : (chPitch c).1.slur = false := hs
  have hko : (chPitch c).1.keyOn = c.keyOn := rfl
  simp only [hs2, hko, Bool.not_false, and_true, List.nil_append]
  by_cases hon : c.keyOn = true
  · simp only [hon, if_true]
    refine ⟨?_, by first | rfl | trivial, by first | rfl | trivial, by first | exact hk2.trans hk.symm | trivial,
      by first | rfl | trivial, by first | rfl | trivial, by first | rfl | trivial⟩
    simp only [vKeyOn, hk2]
    rw [keys_ymW_key]; rfl
  · have hoff : c.keyOn = false := by cases h : c.keyOn <;> simp_all
    simp only [hoff, Bool.false_eq_true, if_false]
    exact ⟨rfl, hoff, hs, hk2.trans hk.symm, rfl, rfl, rfl⟩

include hid hbank in
/-- **One update of an FM channel without slurs** that is related to the list machine `m`
(loaded with the rest of `perf`): unless an error arises, after `n` ticks the channel is related
to the list machine `n` ticks later, and its writes to the key register are key-offs followed by
at most one key-on: a key-off is written iff a note / rest / end (or a tie with a pending
instrument change) is delivered in these ticks, and the key-on is the last key write iff a note
(or such a tie) is delivered. -/
theorem chUpdate_keys (hpl : PlainHooks song root) (hns : NoSlurHooks song root) (cEnd : Core)
    (n : Nat) (g : G) (c : Ch) (m : LM) (hc : ChOK root bank id c) (hg : g.err = none) (hkon : c.keyOn = false)
    (hrel : Rel song root cEnd ⟨c.ps.core, c.ps.acc⟩ m) (hl : ∀ j, j < n → (lmAfter (j + 1) m).live) :
    (chUpdate d song n g c).1.err.isSome = true ∨
      (Rel song root cEnd ⟨(chUpdate d song n g c).2.1.ps.core, (chUpdate d song n g c).2.1.ps.acc⟩ (lmAfter n m) ∧ ChOK root bank id (chUpdate d song n g c).2.1 ∧ (chUpdate d song n g c).2.1.keyOn = false ∧
       (∀ x ∈ keys (chUpdate d song n g c).2.2, x = koff bank id ∨ x = kon bank id) ∧
       ((∃ e ∈ (lmRun n m).flatten, e.type = ev_NOTE ∨ e.type = ev_REST ∨ e.type = ev_END) → koff bank id ∈ keys (chUpdate d song n g c).2.2) ∧
       (koff bank id ∈ keys (chUpdate d song n g c).2.2 → ∃ e ∈ (lmRun n m).flatten, e.type = ev_NOTE ∨ e.type = ev_TIE ∨ e.type = ev_REST ∨ e.type = ev_END) ∧
       ((∃ e ∈ (lmRun n m).flatten, e.type = ev_NOTE) → (keys (chUpdate d song n g c).2.2).getLast? = some (kon bank id)) ∧
       (kon bank id ∈ keys (chUpdate d song n g c).2.2 → ∃ e ∈ (lmRun n m).flatten, e.type = ev_NOTE ∨ e.type = ev_TIE)) := by
  obtain ⟨s', hrun, hrel'⟩ := ct_sim_run song root cEnd n _ m hrel hl
  have hf := chTicks_follows d song root bank id hid hpl hns n g c hc hg s' _ hrun
  have hne := koff_ne_kon bank id hid hbank
  unfold chUpdate
  cases ht : chTicks d song n g c with
  | mk g1 r1 =>
    obtain ⟨c1, o1⟩ := r1
    rw [ht] at hf
    simp only
    rcases hf with herr | ⟨a1, a2, a3, a4⟩
    · simp only at herr
      left
      simp [chAfter, herr]
    · simp only at a1 a2 a3 a4
      cases hg1 : g1.err with
      | some x => left; simp [chAfter, hg1]
      | none =>
        obtain ⟨k1, k2, k3, k4, k5, k6, _⟩ := chAfter_fm d bank id hid g1 c1 a3.kind hg1 a3.slur
        by_cases herr : (chAfter d g1 c1).1.err.isSome = true
        · exact Or.inl herr
        right
        have hs' : (⟨(chAfter d g1 c1).2.1.ps.core, (chAfter d g1 c1).2.1.ps.acc⟩ : PState) = s' := by
          rw [k6]; cases s'; simp only [PState.mk.injEq]; exact ⟨a1, a2⟩
        refine ⟨by rw [hs']; exact hrel', ⟨k5.trans a3.root, k4.trans a3.kind, by rw [k6]; exact a3.err,
          by rw [k6]; exact a3.drum, k3⟩, k2, ?_, ?_, ?_, ?_, ?_⟩
        · intro x hx
          rw [keys_append, k1] at hx
          rcases List.mem_append.mp hx with h | h
          · exact Or.inl (a4.allOff x h)
          · split at h <;> simp at h
            exact Or.inr h
        · intro h
          rw [keys_append]
          exact List.mem_append.mpr (Or.inl (a4.hasOff h))
        · intro h
          rw [keys_append, k1] at h
          rcases List.mem_append.mp h with h | h
          · exact a4.offOnly (List.ne_nil_of_mem h)
          · split at h <;> simp at h
            exact absurd h hne
        · intro h
          have hon : c1.keyOn = true := a4.onSet h
          rw [keys_append, k1, hon]
          simp
        · intro h
          rw [keys_append, k1] at h
          rcases List.mem_append.mp h with h | h
          · exact absurd (a4.allOff _ h).symm hne
          · by_cases hon : c1.keyOn = true
            · rcases a4.onOnly hon with h' | h'
              · rw [hkon] at h'; exact absurd h' (by simp)
              · exact h'
            · have : c1.keyOn = false := by cases hh : c1.keyOn <;> simp_all
              rw [this] at h; simp at h

end

end Ctrmml.MdDriver
