/- Helper lemmas for C17: the reference wrappers of Model/Refs against the merged player model. -/
import Ctrmml.Model.Refs
namespace Ctrmml.Refs
open Ctrmml Ctrmml.Lexer Ctrmml.TrackBuilder Ctrmml.Player Ctrmml.Tables

theorem lookup_map_snd {α β : Type} (f : α → β) (n : Nat) :
    ∀ l : List (Nat × α), (l.map fun p => (p.1, f p.2)).lookup n = (l.lookup n).map f
  | [] => rfl
  | (k, v) :: rest => by
    simp only [List.map, List.lookup]
    cases h : (n == k) <;> simp [lookup_map_snd f n rest]

/-- the code the merged player runs is the erased code of the reference-carrying song -/
theorem codeOf_erase (rs : RSong) (root : List BEvent) (t : TRef) :
    codeOf rs.erase (eraseTrack root) t = eraseTrack (codeR rs root t) := by
  cases t with
  | root => rfl
  | id n =>
    simp only [codeOf, codeR, Song.track?, RSong.track?, RSong.erase]
    rw [lookup_map_snd eraseTrack n rs.tracks]
    cases rs.tracks.lookup n <;> simp [eraseTrack]

theorem kind_endEvent : endEvent.kind = .fin := by
  simp [endEvent, Event.kind, kindOfType]
  decide

/-- the tracks a player is "in": the current one and those of its stack frames (callers and,
for loop frames, the track the loop is on) -/
def chainTracks (c : Core) : List TRef := c.track :: c.stack.map (·.track)

/-- `r` is no position at all, or the position of a command of a track of the chain -/
def OnChain (rs : RSong) (root : List BEvent) (c : Core) (r : Option Ref) : Prop :=
  r = none ∨ ∃ t ∈ chainTracks c, ∃ e ∈ codeR rs root t, e.ref = r

theorem stackTop_ok {st : List Frame} {ty : FType} {f : Frame} (h : stackTop st ty = .ok f) :
    ∃ rest, st = f :: rest := by
  cases st with
  | nil => simp [stackTop] at h
  | cons g rest =>
    simp only [stackTop] at h
    split at h
    · cases h; exact ⟨rest, rfl⟩
    · cases h

/-- what a successful control step that is not a return does to the chain: the old current track
stays on it, and when the fetch ran past the end (root `END`) track and stack are unchanged -/
theorem coreStep_chain (song : Song) (root : List Event) (c c' : Core) (o : Out)
    (h : coreStep song root c = .ok (c', o))
    (hnr : c.stack = [] ∨ (fetch (codeOf song root c.track) c.position).kind ≠ .fin) :
    c.track ∈ chainTracks c' ∧
      ((fetch (codeOf song root c.track) c.position).kind = .fin → c'.track = c.track ∧ c'.stack = c.stack) := by
  unfold coreStep at h
  simp only at h
  split at h
  · -- loopStart
    rename_i hk
    split at h
    · cases h
    · rename_i st hp
      cases h
      simp [chainTracks, hk]
  · rename_i hk
    split at h
    · cases h
    · rename_i f hf
      split at h
      · split at h
        · cases h
        · cases h; simp [chainTracks, hk]
      · cases h; simp [chainTracks, hk]
  · rename_i hk
    split at h
    · cases h
    · rename_i f hf
      repeat' split at h
      all_goals first
        | (cases h; done)
        | (cases h; simp [chainTracks, hk])
  · rename_i hk
    cases h; simp [chainTracks, hk]
  · -- jump
    rename_i hk
    split at h
    · cases h
    · split at h
      · cases h
      · rename_i st hp
        cases h
        simp only [push] at hp
        split at hp
        · cases hp
        · cases hp
          simp [chainTracks, hk]
  · -- fin
    rename_i hk
    split at h
    · cases h; simp [chainTracks]
    · rename_i f rest hst
      rcases hnr with hnr | hnr
      · rw [hnr] at hst; cases hst
      · exact absurd hk hnr
  · rename_i hk
    cases h; simp [chainTracks, hk]

/-- `step` keeps the track and the stack `coreStep` produced (only the position may be redirected) -/
theorem step_core (song : Song) (root : List Event) (lh : Bool) (s s' : PState) (em : Emit)
    (h : step song root lh s = .ok (s', em)) :
    ∃ c' o, coreStep song root s.core = .ok (c', o) ∧ s'.core.track = c'.track ∧ s'.core.stack = c'.stack := by
  unfold step at h
  split at h
  · cases h
  · rename_i c' o hc
    refine ⟨c', o, hc, ?_⟩
    simp only at h
    unfold accStep at h
    simp only at h
    split at h
    · split at h <;> (cases h; exact ⟨rfl, rfl⟩)
    · cases h; exact ⟨rfl, rfl⟩
    · split at h <;> (cases h; exact ⟨rfl, rfl⟩)

theorem getElem?_eraseTrack (l : List BEvent) (i : Nat) :
    (eraseTrack l)[i]? = (l[i]?).map BEvent.toEvent := by
  simp [eraseTrack]


theorem stackTop_ne_jumpMissing (st : List Frame) (ty : FType) : stackTop st ty ≠ .error .jumpMissing := by
  unfold stackTop
  split
  · cases ty <;> simp [underflowErr]
  · rename_i f _
    split
    · simp
    · cases f.type <;> simp [underflowErr]

theorem kind_jump_type (e : Event) (h : e.kind = .jump) : e.type = ev_JUMP := by
  unfold Event.kind kindOfType at h
  split at h; · cases h
  split at h; · cases h
  split at h; · cases h
  split at h; · cases h
  split at h; · assumption
  split at h <;> cases h

theorem jump_type (e : BEvent) (h : (BEvent.toEvent e).kind = .jump) : e.type = ev_JUMP :=
  kind_jump_type _ h

/-- "jump destination doesn't exist" is only ever raised while handling a `JUMP` event -/
theorem coreStep_jumpMissing_kind (song : Song) (root : List Event) (c : Core)
    (h : coreStep song root c = .error .jumpMissing) :
    (fetch (codeOf song root c.track) c.position).kind = .jump := by
  unfold coreStep at h
  simp only at h
  split at h
  · split at h
    · rename_i err hp
      simp only [push] at hp
      split at hp
      · cases hp; cases h
      · cases hp
    · cases h
  · split at h
    · rename_i err hs
      cases h
      exact absurd hs (stackTop_ne_jumpMissing _ _)
    · repeat' split at h
      all_goals cases h
  · split at h
    · rename_i err hs
      cases h
      exact absurd hs (stackTop_ne_jumpMissing _ _)
    · repeat' split at h
      all_goals cases h
  · cases h
  · assumption
  · split at h
    · cases h
    · split at h
      · rename_i err hs
        cases h
        exact absurd hs (stackTop_ne_jumpMissing _ _)
      · cases h
  · cases h

theorem stepR_jumpMissing_kind (rs : RSong) (root : List BEvent) (lh : Bool) (s : RState) (r : Option Ref)
    (h : stepR rs root lh s = .error (.jumpMissing, r)) :
    (fetch (codeOf rs.erase (eraseTrack root) s.st.core.track) s.st.core.position).kind = .jump := by
  unfold stepR at h
  split at h
  · rename_i e he
    cases h
    unfold step at he
    split at he
    · rename_i e' hc
      cases he
      exact coreStep_jumpMissing_kind _ _ _ hc
    · cases he
  · cases h

theorem onChain_current (rs : RSong) (root : List BEvent) (c : Core) (t : TRef) (e : BEvent)
    (ht : t ∈ chainTracks c) (he : e ∈ codeR rs root t) : OnChain rs root c e.ref :=
  Or.inr ⟨t, ht, e, he, rfl⟩

/-- one successful `step_event` keeps `reference` on the chain -/
theorem stepR_onChain (rs : RSong) (root : List BEvent) (lh : Bool) (s s' : RState) (em : Emit)
    (hinv : OnChain rs root s.st.core s.ref) (h : stepR rs root lh s = .ok (s', em)) :
    OnChain rs root s'.st.core s'.ref := by
  unfold stepR at h
  split at h
  · cases h
  · rename_i st' em' hst
    cases h
    simp only
    obtain ⟨c', o, hc, htr, hstk⟩ := step_core _ _ _ _ _ _ hst
    split
    · -- a return: the calling JUMP event, on the (new) current track
      unfold returnRef
      split
      · rename_i e he
        exact onChain_current rs root _ _ e (by simp [chainTracks]) (List.mem_of_getElem? he)
      · exact Or.inl rfl
    · rename_i hnr
      have hnr' : s.st.core.stack = [] ∨
          (fetch (codeOf rs.erase (eraseTrack root) s.st.core.track) s.st.core.position).kind ≠ .fin := by
        simp only [isReturn, Bool.and_eq_true, Bool.not_eq_true', beq_iff_eq, not_and] at hnr
        cases hs : s.st.core.stack with
        | nil => exact Or.inl rfl
        | cons f rest =>
          right
          have := hnr (by simp [hs])
          rw [codeOf_erase]
          intro hk
          simp [hk] at this
      obtain ⟨hmem, hend⟩ := coreStep_chain _ _ _ _ _ hc hnr'
      have hchain : chainTracks st'.core = chainTracks c' := by simp [chainTracks, htr, hstk]
      unfold fetchRef
      split
      · rename_i e he
        exact onChain_current rs root _ _ e (hchain ▸ hmem) (List.mem_of_getElem? he)
      · rename_i hnone
        -- past the end: a root END; track and stack are unchanged
        have hfin : (fetch (codeOf rs.erase (eraseTrack root) s.st.core.track) s.st.core.position).kind = .fin := by
          rw [codeOf_erase]
          simp only [fetch, getElem?_eraseTrack, hnone, Option.map, Option.getD]
          exact kind_endEvent
        obtain ⟨h1, h2⟩ := hend hfin
        have : chainTracks st'.core = chainTracks s.st.core := by simp [chainTracks, htr, hstk, h1, h2]
        rcases hinv with hinv | ⟨t, ht, e, he, hr⟩
        · exact Or.inl hinv
        · exact Or.inr ⟨t, this ▸ ht, e, he, hr⟩

/-- the reference of a failing `step_event` is on the chain of the failing state -/
theorem stepR_error_onChain (rs : RSong) (root : List BEvent) (lh : Bool) (s : RState) (e : PErr) (r : Option Ref)
    (hinv : OnChain rs root s.st.core s.ref) (h : stepR rs root lh s = .error (e, r)) :
    OnChain rs root s.st.core r := by
  unfold stepR at h
  split at h
  · cases h
    unfold fetchRef
    split
    · rename_i ev he
      exact onChain_current rs root _ _ ev (by simp [chainTracks]) (List.mem_of_getElem? he)
    · exact hinv
  · cases h

/-- states reachable by successful `step_event`s -/
inductive ReachR (rs : RSong) (root : List BEvent) (lh : Bool) : RState → RState → Prop
  | refl (s : RState) : ReachR rs root lh s s
  | step (s s₁ s₂ : RState) (em : Emit) : stepR rs root lh s = .ok (s₁, em) → ReachR rs root lh s₁ s₂ → ReachR rs root lh s s₂

theorem runValidatorR_error (rs : RSong) (root : List BEvent) : ∀ (fuel : Nat) (s : RState) (e : PErr) (r : Option Ref),
    OnChain rs root s.st.core s.ref → runValidatorR rs root fuel s = .error (e, r) →
    e = .fuel ∨ ∃ s₁, ReachR rs root false s s₁ ∧ stepR rs root false s₁ = .error (e, r) ∧ OnChain rs root s₁.st.core r
  | 0, s, e, r, _, h => by
    simp only [runValidatorR] at h
    cases h; exact Or.inl rfl
  | fuel + 1, s, e, r, hinv, h => by
    simp only [runValidatorR] at h
    split at h
    · cases h
    · split at h
      · rename_i err herr
        cases h
        exact Or.inr ⟨s, .refl s, herr, stepR_error_onChain rs root false s e r hinv herr⟩
      · rename_i s' em hok
        have hinv' := stepR_onChain rs root false s s' em hinv hok
        rcases runValidatorR_error rs root fuel s' e r hinv' h with hf | ⟨s₁, hr, hs, hc⟩
        · exact Or.inl hf
        · exact Or.inr ⟨s₁, .step s s' s₁ em hok hr, hs, hc⟩

end Ctrmml.Refs
