/-
  Helper lemmas for Properties/C15 (link stage): the strict spec reader of the linker,
  `LinkSpec.parseMds`, accepts the files the MDSDRV converter model serialises.
-/
import Ctrmml.Proofs.PipelineLinkChunks
import Ctrmml.Proofs.MdsFile
import Ctrmml.Proofs.MdsTop
import Ctrmml.Proofs.MdsReadFile
import Ctrmml.Properties.C13
import Ctrmml.Properties.C09
namespace Ctrmml.Pipeline
open Ctrmml Ctrmml.Mds Ctrmml.MdsFile Ctrmml.LinkSpec Tables

/-! ### `parseMds` from its ingredients -/

theorem parseMds_build (f : Bytes) (size : Nat) (cs es : List (Bytes × Bytes)) (ver grp seq lst pcmd : Bytes)
    (sdata : Nat) (slots : List Slot)
    (h1 : f.take 4 = cc "RIFF") (h2 : readAt f 8 4 = cc "MDS0") (hsize : nat32le f 4 = some size)
    (hlen : size + size % 2 + 8 = f.length) (h4 : 4 ≤ size)
    (hcs : chunks f.length (readAt f 12 (size - 4)) = some cs) (h5 : cs.length = 5)
    (hver : only cs (cc "ver ") = some ver) (hgrp : only cs (cc "grp ") = some grp) (hseq : only cs (cc "seq ") = some seq)
    (hlst : only cs (cc "LIST") = some lst) (hpcmd : only cs (cc "pcmd") = some pcmd)
    (hvl : ver.length = 2) (hd : lst.take 4 = cc "dblk")
    (hvok : ¬ ((ver.getD 0 0).toNat ≠ Tables.MDSDRV_SEQ_VERSION_MAJOR ∨ (ver.getD 1 0).toNat < Tables.MDSDRV_MIN_SEQ_VERSION_MINOR ∨
           (ver.getD 1 0).toNat > Tables.MDSDRV_SEQ_VERSION_MINOR))
    (h16 : nat16 seq 0 = some sdata) (hes : chunks f.length (lst.drop 4) = some es)
    (hsl : allSome (es.map (slotOf sdata pcmd)) = some slots)
    (hchk : (slots.all (fun s => 2 ≤ s.addr && s.addr + 2 ≤ seq.length) && disjointSlots slots && decide (seq.length ≤ 65536)) = true) :
    parseMds f = some { group := grp, seq := seq, slots := slots } := by
  unfold parseMds
  have hc1 : ¬ (f.take 4 ≠ cc "RIFF" ∨ readAt f 8 4 ≠ cc "MDS0") := by simp [h1, h2]
  have hc2 : ¬ (size + size % 2 + 8 ≠ f.length ∨ size < 4) := by omega
  have hc3 : ¬ (cs.length ≠ 5) := by omega
  have hc4 : ¬ (ver.length ≠ 2 ∨ lst.take 4 ≠ cc "dblk") := by simp [hvl, hd]
  rw [if_neg hc1]
  simp only [hsize, if_neg hc2, hcs, if_neg hc3, hver, hgrp, hseq, hlst, hpcmd, if_neg hc4, if_neg hvok, h16, hes, hsl, hchk, if_true]

/-! ### the bytes of a RIFF file with a list body -/

theorem riff_file_facts (a b L pad : Bytes) (ha : a.length = 4) (hb : b.length = 4) (hsz : 4 + L.length < 4294967296)
    (f : Bytes) (hf : f = a ++ le32 (4 + L.length) ++ (b ++ L) ++ pad) :
    f.take 4 = a ∧ readAt f 8 4 = b ∧ nat32le f 4 = some (4 + L.length) ∧ f.length = 12 + L.length + pad.length ∧
      readAt f 12 (4 + L.length - 4) = L := by
  generalize hn : 4 + L.length = n at *
  subst hf
  refine ⟨?_, ?_, ?_, ?_, ?_⟩
  · show (a ++ le32 n ++ (b ++ L) ++ pad).take 4 = a
    rw [List.append_assoc, List.append_assoc, ← ha, List.take_left]
  · have := readAt_mid (a ++ le32 n) b (L ++ pad)
    simp only [List.length_append, ha, le32_length, hb] at this
    have e : a ++ le32 n ++ (b ++ L) ++ pad = a ++ le32 n ++ b ++ (L ++ pad) := by simp [List.append_assoc]
    show readAt (a ++ le32 n ++ (b ++ L) ++ pad) 8 4 = b
    rw [e]; exact this
  · show nat32le (a ++ le32 n ++ (b ++ L) ++ pad) 4 = some n
    rw [Linker.nat32le_eq, List.append_assoc, ← ha]
    exact rdLe32_le32 _ hsz a _
  · show (a ++ le32 n ++ (b ++ L) ++ pad).length = _
    simp [ha, hb]; omega
  · have := readAt_mid (a ++ le32 n ++ b) L pad
    simp only [List.length_append, ha, le32_length, hb] at this
    have e : a ++ le32 n ++ (b ++ L) ++ pad = a ++ le32 n ++ b ++ L ++ pad := by simp [List.append_assoc]
    show readAt (a ++ le32 n ++ (b ++ L) ++ pad) 12 (n - 4) = L
    rw [e, show n - 4 = L.length by omega]; exact this

theorem only5 (a b c d e : Bytes) :
    only [(cc "ver ", a), (cc "grp ", b), (cc "seq ", c), (cc "LIST", d), (cc "pcmd", e)] (cc "ver ") = some a ∧
    only [(cc "ver ", a), (cc "grp ", b), (cc "seq ", c), (cc "LIST", d), (cc "pcmd", e)] (cc "grp ") = some b ∧
    only [(cc "ver ", a), (cc "grp ", b), (cc "seq ", c), (cc "LIST", d), (cc "pcmd", e)] (cc "seq ") = some c ∧
    only [(cc "ver ", a), (cc "grp ", b), (cc "seq ", c), (cc "LIST", d), (cc "pcmd", e)] (cc "LIST") = some d ∧
    only [(cc "ver ", a), (cc "grp ", b), (cc "seq ", c), (cc "LIST", d), (cc "pcmd", e)] (cc "pcmd") = some e := by
  simp only [only, List.filter, (show (cc "ver " == cc "ver ") = true by decide), (show (cc "ver " == cc "grp ") = false by decide), (show (cc "ver " == cc "seq ") = false by decide), (show (cc "ver " == cc "LIST") = false by decide), (show (cc "ver " == cc "pcmd") = false by decide), (show (cc "grp " == cc "ver ") = false by decide), (show (cc "grp " == cc "grp ") = true by decide), (show (cc "grp " == cc "seq ") = false by decide), (show (cc "grp " == cc "LIST") = false by decide), (show (cc "grp " == cc "pcmd") = false by decide), (show (cc "seq " == cc "ver ") = false by decide), (show (cc "seq " == cc "grp ") = false by decide), (show (cc "seq " == cc "seq ") = true by decide), (show (cc "seq " == cc "LIST") = false by decide), (show (cc "seq " == cc "pcmd") = false by decide), (show (cc "LIST" == cc "ver ") = false by decide), (show (cc "LIST" == cc "grp ") = false by decide), (show (cc "LIST" == cc "seq ") = false by decide), (show (cc "LIST" == cc "LIST") = true by decide), (show (cc "LIST" == cc "pcmd") = false by decide), (show (cc "pcmd" == cc "ver ") = false by decide), (show (cc "pcmd" == cc "grp ") = false by decide), (show (cc "pcmd" == cc "seq ") = false by decide), (show (cc "pcmd" == cc "LIST") = false by decide), (show (cc "pcmd" == cc "pcmd") = true by decide), and_self]

theorem names_eq : be32 Riff.TYPE_RIFF = cc "RIFF" ∧ be32 mdsFile_MDS0 = cc "MDS0" ∧ be32 mdsFile_ver = cc "ver " ∧
    be32 mdsFile_grp = cc "grp " ∧ be32 mdsFile_seq = cc "seq " ∧ be32 Riff.TYPE_LIST = cc "LIST" ∧
    be32 mdsFile_dblk = cc "dblk" ∧ be32 mdsFile_pcmd = cc "pcmd" ∧ be32 mdsFile_glob = cc "glob" ∧ be32 mdsFile_pcmh = cc "pcmh" := by
  decide

/-- the five children of the exported file as the spec reader splits them -/
def topPairs (seq group pcm : Bytes) (ts : List Riff.Tree) : List (Bytes × Bytes) :=
  [(cc "ver ", toU8 [MDSDRV_SEQ_VERSION_MAJOR, MDSDRV_SEQ_VERSION_MINOR]), (cc "grp ", group), (cc "seq ", seq),
   (cc "LIST", cc "dblk" ++ frames (ts.map pairOf)), (cc "pcmd", pcm)]

theorem mdsTree_file (seq group pcm : Bytes) (ts : List Riff.Tree) :
    (mdsTree seq group pcm ts).body = cc "MDS0" ++ frames (topPairs seq group pcm ts) ∧
    (mdsTree seq group pcm ts).file = cc "RIFF" ++ le32 (4 + (frames (topPairs seq group pcm ts)).length)
      ++ (cc "MDS0" ++ frames (topPairs seq group pcm ts))
      ++ (if (4 + (frames (topPairs seq group pcm ts)).length) % 2 == 1 then [0] else []) := by
  obtain ⟨n1, n2, n3, n4, n5, n6, n7, n8, _, _⟩ := names_eq
  have hb : (mdsTree seq group pcm ts).body = cc "MDS0" ++ frames (topPairs seq group pcm ts) := by
    simp only [mdsTree, Riff.Tree.body, layout4, List.map_cons, List.map_nil, pairOf, Riff.Tree.typeOf, topPairs,
      n2, n3, n4, n5, n6, n7, n8]
  refine ⟨hb, ?_⟩
  unfold Riff.Tree.file
  rw [hb]
  have : (mdsTree seq group pcm ts).typeOf = Riff.TYPE_RIFF := rfl
  rw [this, n1]
  simp only [List.length_append, show (cc "MDS0").length = 4 from rfl]

theorem parseMds_tree (seq group pcm : Bytes) (ts : List Riff.Tree)
    (hs : (mdsTree seq group pcm ts).small)
    (_hk : ∀ t ∈ ts, ∃ p, t = .chunk mdsFile_glob p ∨ t = .chunk mdsFile_pcmh p)
    (sdata : Nat) (slots : List Slot) (h16 : nat16 seq 0 = some sdata)
    (hsl : allSome ((ts.map pairOf).map (slotOf sdata pcm)) = some slots)
    (hchk : (slots.all (fun s => 2 ≤ s.addr && s.addr + 2 ≤ seq.length) && disjointSlots slots && decide (seq.length ≤ 65536)) = true) :
    parseMds (mdsTree seq group pcm ts).file = some { group := group, seq := seq, slots := slots } := by
  obtain ⟨hbody, hfile⟩ := mdsTree_file seq group pcm ts
  have hsz : 4 + (frames (topPairs seq group pcm ts)).length < 4294967296 := by
    have := Riff.Tree.small_body _ hs
    rw [hbody] at this
    simpa [show (cc "MDS0").length = 4 from rfl] using this
  obtain ⟨f1, f2, f3, f4, f5⟩ := riff_file_facts (cc "RIFF") (cc "MDS0") (frames (topPairs seq group pcm ts)) _ rfl rfl hsz _ hfile
  obtain ⟨o1, o2, o3, o4, o5⟩ := only5 (toU8 [MDSDRV_SEQ_VERSION_MAJOR, MDSDRV_SEQ_VERSION_MINOR]) group seq
    (cc "dblk" ++ frames (ts.map pairOf)) pcm
  have hble := frames_body_le (topPairs seq group pcm ts)
  have hts4 : ∀ c ∈ ts.map pairOf, c.1.length = 4 := by
    intro c hc
    obtain ⟨t, _, rfl⟩ := List.mem_map.mp hc
    rfl
  have hlst : 4 + (frames (ts.map pairOf)).length ≤ (frames (topPairs seq group pcm ts)).length := by
    have := hble (cc "LIST", cc "dblk" ++ frames (ts.map pairOf)) (by simp [topPairs])
    simpa [show (cc "dblk").length = 4 from rfl] using this
  have hcs : chunks (mdsTree seq group pcm ts).file.length
      (readAt (mdsTree seq group pcm ts).file 12 (4 + (frames (topPairs seq group pcm ts)).length - 4)) = some (topPairs seq group pcm ts) := by
    rw [f5]
    apply chunks_frames
    · rw [f4]; simp [topPairs]; omega
    · intro c hc
      refine ⟨?_, by have := hble c hc; omega⟩
      simp only [topPairs, List.mem_cons, List.not_mem_nil, or_false] at hc
      rcases hc with rfl | rfl | rfl | rfl | rfl <;> rfl
  have hes : chunks (mdsTree seq group pcm ts).file.length ((cc "dblk" ++ frames (ts.map pairOf)).drop 4) = some (ts.map pairOf) := by
    rw [show 4 = (cc "dblk").length from rfl, List.drop_left]
    apply chunks_frames
    · rw [f4]
      have := frames_length_ge (ts.map pairOf) hts4
      omega
    · intro c hc
      refine ⟨hts4 c hc, ?_⟩
      have := frames_body_le (ts.map pairOf) c hc
      omega
  refine parseMds_build _ _ _ _ _ _ _ _ _ sdata slots f1 f2 f3 ?_ (by omega) hcs rfl o1 o2 o3 o4 o5 rfl ?_ (by decide) h16 hes hsl hchk
  · rw [f4]
    generalize (frames (topPairs seq group pcm ts)).length = n
    by_cases h : (4 + n) % 2 = 1
    · simp [h]; omega
    · have : (4 + n) % 2 = 0 := by omega
      simp [this]; omega
  · rw [show 4 = (cc "dblk").length from rfl, List.take_left]

/-! ### the `dblk` entries -/

/-- what the spec reader demands of the stored header of a PCM entry -/
def WindowOK (pcm : Bytes) (dat : List Nat) : Prop :=
  dat.length = 32 ∧ ∀ position start size, nat32le (toU8 dat) 0 = some position → nat32le (toU8 dat) 4 = some start →
    nat32le (toU8 dat) 8 = some size → position + start + size ≤ pcm.length

theorem entryId_lt' (nS nM m e : Nat) : entryId nS nM m e < 4294967296 := by unfold entryId; omega

theorem readAt_length_le (b : Bytes) (p n : Nat) : (readAt b p n).length ≤ b.length := by
  unfold readAt; simp; omega

theorem slotOf_entry (sdata : Nat) (pcm : Bytes) (nS nM m e : Nat) (dat : List Nat)
    (hp : ¬ m < mdsFile_pcmTag → WindowOK pcm dat) :
    ∃ sl, slotOf sdata pcm (pairOf (entryTree nS nM m e dat)) = some sl ∧
      sl.addr = sdata + 2 * (entryId nS nM m e % 2147483648) ∧
      ∀ rate bytes, sl.want = .pcm rate bytes → bytes.length ≤ pcm.length := by
  obtain ⟨_, _, _, _, _, _, _, _, ng, np⟩ := names_eq
  have hid : nat32le (le32 (entryId nS nM m e) ++ toU8 dat) 0 = some (entryId nS nM m e) := by
    rw [Linker.nat32le_eq]
    have := rdLe32_le32 (entryId nS nM m e) (entryId_lt' nS nM m e) [] (toU8 dat)
    simpa using this
  by_cases hc : m < mdsFile_pcmTag
  · refine ⟨{ addr := sdata + 2 * (entryId nS nM m e % 2147483648), flag := decide (entryId nS nM m e ≥ 2147483648),
              want := .data ((le32 (entryId nS nM m e) ++ toU8 dat).drop 4) }, ?_, rfl, ?_⟩
    · simp only [slotOf, pairOf, entryTree, hc, if_true, Riff.Tree.typeOf, Riff.Tree.body, hid, ng,
        show (cc "glob" == cc "glob") = true by decide]
    · intro rate bytes h; cases h
  · obtain ⟨hlen, hwin⟩ := hp hc
    have hrd : ∀ k, k + 4 ≤ 32 → ∃ v, nat32le (toU8 dat) k = some v ∧ nat32le (le32 (entryId nS nM m e) ++ toU8 dat) (4 + k) = some v := by
      intro k hk
      have hl : (toU8 dat).length = 32 := by simp [toU8, hlen]
      obtain ⟨v, hv⟩ := Option.isSome_iff_exists.mp (rdLe32_isSome_of_long (toU8 dat) k (by omega))
      refine ⟨v, by rw [Linker.nat32le_eq]; exact hv, ?_⟩
      rw [Linker.nat32le_eq]
      have := Linker.rdLe32_append (le32 (entryId nS nM m e)) (toU8 dat) k
      rw [le32_length] at this
      rw [this]; exact hv
    obtain ⟨position, p1, p2⟩ := hrd 0 (by omega)
    obtain ⟨start, s1, s2⟩ := hrd 4 (by omega)
    obtain ⟨size, z1, z2⟩ := hrd 8 (by omega)
    obtain ⟨rate, _, r2⟩ := hrd 20 (by omega)
    have hw := hwin position start size p1 s1 z1
    have h36 : ¬ ((le32 (entryId nS nM m e) ++ toU8 dat).length ≠ 36) := by simp [toU8, hlen]
    have hgt : ¬ (position + start + size > pcm.length) := by omega
    refine ⟨{ addr := sdata + 2 * (entryId nS nM m e % 2147483648), flag := false,
              want := .pcm rate (readAt pcm (position + start) size), start := start }, ?_, rfl, ?_⟩
    · simp only [slotOf, pairOf, entryTree, hc, if_false, Riff.Tree.typeOf, Riff.Tree.body, hid, np,
        show (cc "pcmh" == cc "glob") = false by decide, show (cc "pcmh" == cc "pcmh") = true by decide,
        if_true, if_neg h36, p2, s2, z2, r2, if_neg hgt, Bool.false_eq_true]
    · intro rate' bytes h
      injection h with _ hb
      rw [← hb]; exact readAt_length_le _ _ _

theorem slots_of_entries (sdata : Nat) (pcm : Bytes) (nS nM : Nat) (bank : List (List Nat)) :
    ∀ (l : List (Nat × Nat)) (ts : List Riff.Tree), entryTrees nS nM bank l = some ts →
      (∀ p ∈ l, ¬ p.1 < mdsFile_pcmTag → ∀ dat, bank[p.1 % (mdsFile_bankMask + 1)]? = some dat → WindowOK pcm dat) →
      ∃ slots, allSome ((ts.map pairOf).map (slotOf sdata pcm)) = some slots ∧
        slots.map (·.addr) = l.map (fun p => sdata + 2 * (entryId nS nM p.1 p.2 % 2147483648)) ∧
        ∀ sl ∈ slots, ∀ rate bytes, sl.want = .pcm rate bytes → bytes.length ≤ pcm.length
  | [], ts, h, _ => by
    simp only [entryTrees, Option.some.injEq] at h; subst h
    exact ⟨[], rfl, rfl, by simp⟩
  | (m, e) :: rest, ts, h, hw => by
    simp only [entryTrees] at h
    rcases hb : bank[m % (mdsFile_bankMask + 1)]? with _ | dat
    · simp [hb] at h
    · simp only [hb] at h
      rcases hr : entryTrees nS nM bank rest with _ | ts'
      · simp [hr] at h
      · simp only [hr, Option.map_some, Option.some.injEq] at h
        subst h
        obtain ⟨slots, i1, i2, i3⟩ := slots_of_entries sdata pcm nS nM bank rest ts' hr (fun p hp => hw p (by simp [hp]))
        obtain ⟨sl, s1, s2, s3⟩ := slotOf_entry sdata pcm nS nM m e dat (fun hc => hw (m, e) (by simp) hc dat hb)
        refine ⟨sl :: slots, ?_, ?_, ?_⟩
        · simp only [List.map_cons, allSome, s1, i1, Option.map_some]
        · simp only [List.map_cons, s2, i2]
        · intro x hx
          rcases List.mem_cons.mp hx with rfl | hx'
          · exact s3
          · exact i3 x hx'

theorem disjointSlots_of_pairwise : ∀ (slots : List Slot),
    (slots.map (·.addr)).Pairwise (fun a b => a + 2 ≤ b ∨ b + 2 ≤ a) → disjointSlots slots = true
  | [], _ => rfl
  | s :: r, h => by
    simp only [List.map_cons, List.pairwise_cons] at h
    simp only [disjointSlots, Bool.and_eq_true, List.all_eq_true, Bool.or_eq_true, decide_eq_true_eq]
    refine ⟨fun t ht => h.1 t.addr (List.mem_map.mpr ⟨t, ht, rfl⟩), disjointSlots_of_pairwise r h.2⟩

theorem nat16_seq {c : Conv} {tl : List (Nat × List MEv)} {vol : Option String} {b : Built}
    (h : assemble c tl vol = .ok b) : nat16 (toU8 b.seq) 0 = some (4 + 4 * tl.length) := by
  obtain ⟨ts, ss, ms, _, _, _, hsz, _, _, _, _, _, hseq⟩ := assemble_ok h
  have hb : 4 + 4 * tl.length < 65536 := by unfold hdrSize at hsz; omega
  have : ∃ rest, b.seq = ((4 + 4 * tl.length) / 256 % 256) :: ((4 + 4 * tl.length) % 256) :: rest := by
    rw [hseq]
    simp only [headerOf, MdsFile.be16b, List.cons_append, List.nil_append, List.append_assoc]
    exact ⟨_, rfl⟩
  obtain ⟨rest, hr⟩ := this
  rw [hr]
  simp [toU8, nat16, readAt]
  omega

/-- **`PcmWindowsOK`** (extra hypothesis of `getMds_parses` / `exported_parses_partial`): for every key of
`used_data_map` that carries the PCM tag (`key ≥ 0x20000`), the data-bank item it selects is a 32-byte
sample header whose `position + start + size` lies inside the exported `pcmd` (the used part of the wave
rom).  NOT discharged: it needs (a) `Wave.Inv` (`housed`) threaded through `MdsFile.readTags` /
`addInsPcm`, and (b) the fact that the writer tags a key with 0x20000 only when the data-bank item was
stored by `add_ins_pcm` (a joint invariant of `read_song`'s `tyMap`/`envMap` and the writer's `INS`/`PCM`
hook); neither invariant exists yet. -/
def PcmWindowsOK (c : Conv) (bank : List (List Nat)) (pcm : Bytes) : Prop :=
  ∀ p ∈ c.usedData, ¬ p.1 < mdsFile_pcmTag → ∀ dat, bank[p.1 % (mdsFile_bankMask + 1)]? = some dat → WindowOK pcm dat

/-- **`TreeSmall`** (extra hypothesis: a format limit of RIFF): every data vector of the container `get_mds`
builds for THIS export — the tree over the entry chunks `entryTrees` returns — is shorter than 4 GiB (the
RIFF size fields are 32 bits wide; `#group`, a PSG envelope and the sequence have no other bound).
(C09's `hsmall` quantifies over ALL entry lists `ts`, which no export satisfies; here only the export's own.) -/
def TreeSmall (b : Built) (bank : List (List Nat)) (group pcm : Bytes) : Prop :=
  ∀ ts, entryTrees b.conv.subList.length b.conv.macroList.length bank (usedSorted b.conv) = some ts →
    (mdsTree (toU8 b.seq) group pcm ts).small

/-- the spec reader accepts the container `get_mds` writes for an assembled song -/
theorem getMds_parses {vol : Option String} {b : Built} (hasm : assemble b.conv b.trackList vol = .ok b)
    (hu : UsedOk b.conv.usedData) {bank : List (List Nat)} {group pcm f : Bytes} (hg : getMds b bank group pcm = .ok f)
    (hsmall : TreeSmall b bank group pcm)
    (hlen : b.seq.length ≤ 65536) (hwin : PcmWindowsOK b.conv bank pcm) :
    ∃ s, parseMds f = some s ∧ s.group = group ∧ s.seq = toU8 b.seq ∧
      ∀ sl ∈ s.slots, ∀ rate bytes, sl.want = .pcm rate bytes → bytes.length ≤ pcm.length := by
  obtain ⟨ts, hts, _, hk, hser⟩ := getMds_serialize hg
  have hwf : (mdsTree (toU8 b.seq) group pcm ts).wf := by
    have hts' : Riff.Tree.wfL ts := by
      apply wfL_of_forall
      intro t ht
      obtain ⟨p, hp | hp⟩ := hk t ht <;> subst hp <;> exact ⟨by decide, by decide⟩
    exact ⟨by decide, by decide, ⟨by decide, by decide⟩, ⟨by decide, by decide⟩, ⟨by decide, by decide⟩,
      ⟨by decide, by decide, hts'⟩, ⟨by decide, by decide⟩, trivial⟩
  rw [Riff.C13_serialize_layout _ hwf] at hser
  injection hser with hser
  subst hser
  obtain ⟨hsz, hseqlen, _⟩ := MdsRead.layout hasm
  unfold hdrSize at hsz hseqlen
  have hperm : (usedSorted b.conv).Perm b.conv.usedData := List.mergeSort_perm _ _
  obtain ⟨slots, a1, a2, a3⟩ := slots_of_entries (4 + 4 * b.trackList.length) pcm _ _ bank _ ts hts
    (fun p hp => hwin p (hperm.mem_iff.mp hp))
  have hbound : ∀ p ∈ usedSorted b.conv, p.2 < b.conv.usedData.length := fun p hp =>
    val_lt_of_mem hu (hperm.mem_iff.mp hp)
  have hnd := C09_ids_injective_partial b.conv hu (by omega)
  refine ⟨_, parseMds_tree (toU8 b.seq) group pcm ts (hsmall ts hts) hk _ slots (nat16_seq hasm) a1 ?_, rfl, rfl, a3⟩
  have hl : (toU8 b.seq).length = b.seq.length := by simp [toU8]
  simp only [Bool.and_eq_true, List.all_eq_true, decide_eq_true_eq, hl]
  refine ⟨⟨?_, ?_⟩, hlen⟩
  · intro sl hsl
    have : sl.addr ∈ slots.map (·.addr) := List.mem_map.mpr ⟨sl, hsl, rfl⟩
    rw [a2] at this
    obtain ⟨p, hp, he⟩ := List.mem_map.mp this
    have hb := hbound p hp
    rw [entryId_mod (by omega)] at he
    omega
  · apply disjointSlots_of_pairwise
    rw [a2]
    have : (usedSorted b.conv).map (fun p => 4 + 4 * b.trackList.length + 2 * (entryId b.conv.subList.length b.conv.macroList.length p.1 p.2 % 2147483648))
        = ((usedSorted b.conv).map fun p => entryId b.conv.subList.length b.conv.macroList.length p.1 p.2 % 2147483648).map
            (fun i => 4 + 4 * b.trackList.length + 2 * i) := by
      rw [List.map_map]; rfl
    rw [this, List.pairwise_map]
    exact hnd.imp (fun {a b} hab => by omega)

/-! ### the whole export -/

/-- **`SeqFits`** (extra hypothesis of `exported_parses_partial`): the exported `seq ` chunk is at most
64 KiB.  NOT dischargeable: it is FALSE for some accepted exports.  The converter checks only that every
stream STARTS within 16 bits of the pointer table (`stream_offset()`, `FErr.seqTooLarge`); the LAST
stream (e.g. the only channel track of a song with more than 64 KiB of events) may end beyond, and
`parseMds` rejects a `seq ` longer than 65536 bytes (`seq.length ≤ 65536`). -/
def SeqFits (o : Output) : Prop := o.built.seq.length ≤ 65536

/-- **`PcmSmall`** (extra hypothesis): the exported `pcmd` is below 1 GiB.  True of every export (it is a
prefix of the 2 MiB wave rom, `Tables.mds_dataWaveRom`), but NOT discharged: it needs `maxSize =
mds_dataWaveRom` (or `Wave.Inv.small`) threaded through `MdsFile.readTags` / `addInsPcm`. -/
def PcmSmall (o : Output) : Prop := (pcmOf o.data).length < 1073741824

/-- the full statement (no extra hypotheses) — NOT proved, and false as it stands because of `SeqFits` -/
def exported_parses_full_statement : Prop :=
  ∀ (inp : Input) (o : Output), exportMds MdsData.Arith.float inp = .ok o →
    TreeSmall o.built o.data.st.bank inp.group.toUTF8.toList (pcmOf o.data) →
    ∃ s, parseMds o.file = some s ∧
      (∀ sl ∈ s.slots, ∀ rate bytes, sl.want = .pcm rate bytes → bytes.length < 1073741824)

/-- **The strict spec reader of the linker accepts the exported file** (partial).  Extra hypotheses:
`hpc` (`PlatformClean`: the platform-command expansions hold only plain events — needed by
`construct_inv` for the numbering of `used_data_map`), `SeqFits`, `PcmWindowsOK`, `PcmSmall`. -/
theorem exported_parses_partial {inp : Input} {o : Output}
    (h : exportMds MdsData.Arith.float inp = .ok o)
    (hsmall : TreeSmall o.built o.data.st.bank inp.group.toUTF8.toList (pcmOf o.data))
    (hpc : PlatformClean (dataInfoOf o.data.st inp.platform))
    (hfit : SeqFits o) (hwin : PcmWindowsOK o.built.conv o.data.st.bank (pcmOf o.data)) (hpcm : PcmSmall o) :
    ∃ s, parseMds o.file = some s ∧ s.group = inp.group.toUTF8.toList ∧ s.seq = toU8 o.built.seq ∧
      (∀ sl ∈ s.slots, ∀ rate bytes, sl.want = .pcm rate bytes → bytes.length < 1073741824) := by
  unfold exportMds at h
  split at h
  · cases h
  · rename_i d hd
    split at h
    · cases h
    · rename_i b hb
      split at h
      · cases h
      · rename_i f hf
        injection h with h
        subst h
        obtain ⟨hinv, _, hasm⟩ := construct_inv hpc hb
        obtain ⟨s, p1, p2, p3, p4⟩ := getMds_parses hasm hinv.maps.used hf hsmall hfit hwin
        exact ⟨s, p1, p2, p3, fun sl hsl rate bytes hw => Nat.lt_of_le_of_lt (p4 sl hsl rate bytes hw) hpcm⟩

/-! ### the rejected exports: a `seq ` longer than 64 KiB -/

theorem parseMds_seq {f : Bytes} {s : SongIn} (h : parseMds f = some s) :
    ∃ size cs, nat32le f 4 = some size ∧ chunks f.length (readAt f 12 (size - 4)) = some cs ∧
      only cs (cc "seq ") = some s.seq ∧ s.seq.length ≤ 65536 := by
  unfold parseMds at h
  split at h
  · cases h
  split at h
  · cases h
  rename_i size hsize
  split at h
  · cases h
  split at h
  · cases h
  rename_i cs hcs
  split at h
  · cases h
  split at h
  · rename_i ver grp seq lst pcmd hver hgrp hseq hlst hpcmd
    split at h
    · cases h
    simp only at h
    split at h
    · cases h
    split at h
    · split at h
      · cases h
      · split at h
        · rename_i hfinal
          simp only [Option.some.injEq] at h
          subst h
          simp only [Bool.and_eq_true, decide_eq_true_eq] at hfinal
          exact ⟨size, cs, hsize, hcs, hseq, hfinal.2⟩
        · cases h
    · cases h
  · cases h

theorem tree_top_chunks (seq group pcm : Bytes) (ts : List Riff.Tree) (hs : (mdsTree seq group pcm ts).small) :
    nat32le (mdsTree seq group pcm ts).file 4 = some (4 + (frames (topPairs seq group pcm ts)).length) ∧
    chunks (mdsTree seq group pcm ts).file.length
      (readAt (mdsTree seq group pcm ts).file 12 (4 + (frames (topPairs seq group pcm ts)).length - 4)) = some (topPairs seq group pcm ts) := by
  obtain ⟨hbody, hfile⟩ := mdsTree_file seq group pcm ts
  have hsz : 4 + (frames (topPairs seq group pcm ts)).length < 4294967296 := by
    have := Riff.Tree.small_body _ hs
    rw [hbody] at this
    simpa [show (cc "MDS0").length = 4 from rfl] using this
  obtain ⟨f1, f2, f3, f4, f5⟩ := riff_file_facts (cc "RIFF") (cc "MDS0") (frames (topPairs seq group pcm ts)) _ rfl rfl hsz _ hfile
  have hble := frames_body_le (topPairs seq group pcm ts)
  refine ⟨f3, ?_⟩
  rw [f5]
  apply chunks_frames
  · rw [f4]; simp [topPairs]; omega
  · intro c hc
    refine ⟨?_, by have := hble c hc; omega⟩
    simp only [topPairs, List.mem_cons, List.not_mem_nil, or_false] at hc
    rcases hc with rfl | rfl | rfl | rfl | rfl <;> rfl

/-- **What `parseMds` REJECTS among the converter's outputs**: every export (file below 4 GiB) whose
`seq ` chunk is longer than 65536 bytes — so `SeqFits` cannot be dropped from
`exported_parses_partial`.  (Such exports exist in the model: `assemble` bounds only the START of each
stream, `encodeStreams`: `pos - dataBase > 65535`; a single channel track whose stream is longer than
64 KiB is accepted by `exportMds`.) -/
theorem exported_rejected_of_long_seq {inp : Input} {o : Output}
    (h : exportMds MdsData.Arith.float inp = .ok o)
    (hsmall : TreeSmall o.built o.data.st.bank inp.group.toUTF8.toList (pcmOf o.data))
    (hlong : 65536 < o.built.seq.length) : parseMds o.file = none := by
  unfold exportMds at h
  split at h
  · cases h
  · rename_i d hd
    split at h
    · cases h
    · rename_i b hb
      split at h
      · cases h
      · rename_i f hf
        injection h with h
        subst h
        obtain ⟨ts, hts, _, hk, hser⟩ := getMds_serialize hf
        have hwf : (mdsTree (toU8 b.seq) inp.group.toUTF8.toList (pcmOf d) ts).wf := by
          have hts' : Riff.Tree.wfL ts := by
            apply wfL_of_forall
            intro t ht
            obtain ⟨p, hp | hp⟩ := hk t ht <;> subst hp <;> exact ⟨by decide, by decide⟩
          exact ⟨by decide, by decide, ⟨by decide, by decide⟩, ⟨by decide, by decide⟩, ⟨by decide, by decide⟩,
            ⟨by decide, by decide, hts'⟩, ⟨by decide, by decide⟩, trivial⟩
        rw [Riff.C13_serialize_layout _ hwf] at hser
        injection hser with hser
        subst hser
        rcases hp : parseMds (mdsTree (toU8 b.seq) inp.group.toUTF8.toList (pcmOf d) ts).file with _ | s
        · rfl
        · exfalso
          obtain ⟨size, cs, q1, q2, q3, q4⟩ := parseMds_seq hp
          obtain ⟨t1, t2⟩ := tree_top_chunks _ _ _ ts (hsmall ts hts)
          rw [t1] at q1
          injection q1 with q1
          subst q1
          rw [t2] at q2
          injection q2 with q2
          subst q2
          obtain ⟨_, _, o3, _, _⟩ := only5 (toU8 [MDSDRV_SEQ_VERSION_MAJOR, MDSDRV_SEQ_VERSION_MINOR]) inp.group.toUTF8.toList
            (toU8 b.seq) (cc "dblk" ++ frames (ts.map pairOf)) (pcmOf d)
          unfold topPairs at q3
          rw [o3] at q3
          injection q3 with q3
          rw [← q3] at q4
          simp [toU8] at q4
          simp only at hlong
          omega

/-- a concrete serialised container (one `glob` entry with id 0, a 6-byte `seq `, group "A", 2 bytes of
`pcmd`) is accepted, the entry's slot is at offset 4 -/
example : (parseMds (mdsTree (toU8 [0, 4, 0, 0, 0, 0]) [65] [1, 2] [entryTree 0 0 1 0 [7, 8]]).file).map
    (·.slots.map (·.addr)) = some [4] := by decide +kernel

/-- `WindowOK` is met by a 32-byte header addressing bytes 1..3 of a 4-byte `pcmd` -/
example : WindowOK [9, 9, 9, 9] ([1, 0, 0, 0, 0, 0, 0, 0, 2, 0, 0, 0] ++ List.replicate 20 0) := by
  refine ⟨by decide, ?_⟩
  intro position start size h1 h2 h3
  have e1 : nat32le (toU8 ([1, 0, 0, 0, 0, 0, 0, 0, 2, 0, 0, 0] ++ List.replicate 20 0)) 0 = some 1 := by decide
  have e2 : nat32le (toU8 ([1, 0, 0, 0, 0, 0, 0, 0, 2, 0, 0, 0] ++ List.replicate 20 0)) 4 = some 0 := by decide
  have e3 : nat32le (toU8 ([1, 0, 0, 0, 0, 0, 0, 0, 2, 0, 0, 0] ++ List.replicate 20 0)) 8 = some 2 := by decide
  rw [e1] at h1; rw [e2] at h2; rw [e3] at h3
  cases h1; cases h2; cases h3
  decide

end Ctrmml.Pipeline
