/-
  Helper theorems for Properties/C15: the vgm export stage with `WaveMapOK` discharged
  (Proofs/PipelineVgmWave).  Still extra: `PsgEnvsOK d` (oob, PSG site) and `FilesSmall` (vgm).
-/
import Ctrmml.Proofs.PipelineVgmWave
import Ctrmml.Proofs.PipelineVgmWriter
namespace Ctrmml.Pipeline
open Ctrmml Ctrmml.MdDriver Tables

/-- `oob` on the data `read_song` builds: the PCM site is closed; the only extra hypothesis is `PsgEnvsOK d` -/
theorem vgm_never_oob_partial2 (inp : MdsFile.Input) (d : MdsFile.DState)
    (hd : MdsFile.readSong MdsData.Arith.float inp.files inp.tags = .ok d) (hp : PsgEnvsOK d)
    (tm : TagMap) (st : Stamps) :
    exportSong (driverDataOf d inp.files inp.tags) inp.song tm st ≠ .error .oob :=
  vgm_never_oob_partial inp d hd hp (waveMapOK_of_readSong inp.files inp.tags d hd) tm st

/-- the target statement with `WaveMapOK` discharged -/
theorem vgm_export_no_ub_partial2 (inp : MdsFile.Input) (d : MdsFile.DState)
    (hd : MdsFile.readSong MdsData.Arith.float inp.files inp.tags = .ok d)
    (hp : PsgEnvsOK d) (hf : FilesSmall inp.files) (tm : TagMap) (st : Stamps) :
    match exportSong (driverDataOf d inp.files inp.tags) inp.song tm st with
    | .error .oob | .error .nonInteger | .error (.vgm _) => False
    | _ => True :=
  vgm_export_no_ub_partial inp d hd hp (waveMapOK_of_readSong inp.files inp.tags d hd) hf tm st

end Ctrmml.Pipeline
