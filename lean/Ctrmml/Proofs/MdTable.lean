/-
  Helper lemmas for C07: the table of ticks per update of a song with one channel track, as a
  function of the tick stream alone (tempo commands take effect from the next update on).
-/
import Ctrmml.Proofs.MdSched
import Ctrmml.Proofs.MdTempo
namespace Ctrmml.MdDriver
open Ctrmml Player PlayerCh Tables TickStream

section
variable (d : Data) (song : Song) (root : List Event)

theorem mkCh_base (id : Nat) : Base root (mkCh d id root).1 ∧ VarsOK (mkCh d id root).1 ∧
    (mkCh d id root).1.ps.core = ⟨.root, 0, []⟩ ∧ (mkCh d id root).1.ps.acc = {} := by
  have hd : drumOff
      ({ trackState := ((List.replicate ev_CHANNEL_CMD_COUNT (0 : Int)).set (chIdx ev_VOL_FINE) md_initial_vol).set
          (chIdx ev_PAN) md_initial_pan, mask := [VOL_BIT] } : Chan) := by
    unfold drumOff; decide
  have hl : VarsLen
      ({ trackState := ((List.replicate ev_CHANNEL_CMD_COUNT (0 : Int)).set (chIdx ev_VOL_FINE) md_initial_vol).set
          (chIdx ev_PAN) md_initial_pan, mask := [VOL_BIT] } : Chan) := by
    unfold VarsLen; decide
  unfold mkCh
  split
  · exact ⟨⟨rfl, rfl, hd⟩, ⟨hl, hd⟩, rfl, rfl⟩
  · split
    · exact ⟨⟨rfl, rfl, hd⟩, ⟨hl, hd⟩, rfl, rfl⟩
    · split
      · exact ⟨⟨rfl, rfl, hd⟩, ⟨hl, hd⟩, rfl, rfl⟩
      · exact ⟨⟨rfl, rfl, hd⟩, ⟨hl, hd⟩, rfl, rfl⟩

/-- **The tempo from one update to the next** (one channel track of any kind, slurs allowed):
the tempo in force in update `k+1` is the last tempo command among the events the list machine
delivers in the ticks of update `k`, else the tempo of update `k`. -/
theorem single_tempo (id : Nat) (hsingle : SingleTrack song id root)
    (cEnd : Core) (B : Nat) (hend : EndOK song root cEnd) (hB : 2 * B + 2 ≤ settleFuel)
    (hpl : PlainHooks song root) (m0 : LX)
    (hrel0 : RelX song root cEnd B ⟨⟨.root, 0, []⟩, {}⟩ m0)
    (k : Nat) (herr : ∀ j, j ≤ k + 1 → (updRun d song j (playSong d song).1).g.err = none) :
    (updRun d song (k + 1) (playSong d song).1).g.tempoDelta =
      tempoAfter (updRun d song k (playSong d song).1).g.tempoDelta
        (lxRun (updTicks d song (playSong d song).1 k) (lxAfter (updRun d song k (playSong d song).1).ticks m0)).flatten := by
  obtain ⟨b0, v0, c0, a0⟩ := mkCh_base d root id
  have hu := single_update d song root id hsingle cEnd B hend hB
    (fun c => Base root c ∧ VarsOK c)
    (fun c hc => by
      obtain ⟨r1, r2, r3, r4, r5, r6, r7, _⟩ := resetLoopCh_same c
      exact ⟨⟨r2.trans hc.1.root, r4.trans hc.1.err, by rw [r5]; exact hc.1.drum⟩, ⟨by rw [r5]; exact hc.2.1, by rw [r5]; exact hc.2.2⟩⟩)
    (fun g ws g' _ => g'.tempoDelta = tempoAfter g.tempoDelta ws.flatten)
    (fun n g c s' ws hc hg hrun => by
      rcases chUpdate_tempo d song root hpl n g c hc.1 hc.2 hg s' ws hrun with h | ⟨a1, a2, a3, a4, a5⟩
      · exact Or.inl h
      · exact Or.inr ⟨a1, a2, ⟨a3, a4⟩, a5⟩)
    ⟨b0, v0⟩ m0 (by rw [c0, a0]; exact hrel0) k herr
  have hstep : (updRun d song (k + 1) (playSong d song).1).g.tempoDelta =
      (seqUpdate d song (updRun d song k (playSong d song).1)).1.g.tempoDelta := by
    simp only [updRun, updStep]
    exact (stepLoop_g _).2.1
  rw [hstep]
  cases hen : (lxAfter (updRun d song k (playSong d song).1).ticks m0).enabled with
  | true => exact hu.1 hen
  | false =>
    rw [(hu.2 hen).2, lxRun_disabled _ _ hen]
    rfl

end

/-- **The table of ticks per update**, from the tick stream alone: `(N_k, c_k, δ_k)` = ticks
played before update `k`, the 7-bit tempo accumulator, the tempo in force.  Update `k` plays
`(c_k + δ_k + 1) div 128` ticks; a tempo command delivered in one of them is in force from update
`k+1` on (the last one wins). -/
def tickTable (m0 : LX) : Nat → Nat × Nat × Nat
  | 0 => (0, 0, md_initial_tempo_delta)
  | k + 1 =>
    ((tickTable m0 k).1 + ((tickTable m0 k).2.1 + (tickTable m0 k).2.2 + 1) / 128,
     ((tickTable m0 k).2.1 + (tickTable m0 k).2.2 + 1) % 128,
     tempoAfter (tickTable m0 k).2.2
       (lxRun (((tickTable m0 k).2.1 + (tickTable m0 k).2.2 + 1) / 128) (lxAfter (tickTable m0 k).1 m0)).flatten)

section
variable (d : Data) (song : Song) (root : List Event)

/-- along a run without error the driver's tick counter, tempo accumulator and tempo are the
table's -/
theorem single_table (id : Nat) (hsingle : SingleTrack song id root)
    (cEnd : Core) (B : Nat) (hend : EndOK song root cEnd) (hB : 2 * B + 2 ≤ settleFuel)
    (hpl : PlainHooks song root) (m0 : LX)
    (hrel0 : RelX song root cEnd B ⟨⟨.root, 0, []⟩, {}⟩ m0) :
    ∀ k, (∀ j, j ≤ k → (updRun d song j (playSong d song).1).g.err = none) →
      ((updRun d song k (playSong d song).1).ticks, (updRun d song k (playSong d song).1).tempoCounter,
        (updRun d song k (playSong d song).1).g.tempoDelta) = tickTable m0 k
  | 0, _ => by
    obtain ⟨_, _, _, p4, p5, p6, _, _⟩ := playSong_single d song id root hsingle
    simp only [updRun, tickTable, p4, p5, p6]
  | k + 1, herr => by
    have ih := single_table id hsingle cEnd B hend hB hpl m0 hrel0 k (fun j hj => herr j (by omega))
    have ht := updRun_ticks d song (playSong d song).1 k
    have hd := single_tempo d song root id hsingle cEnd B hend hB hpl m0 hrel0 k herr
    have i1 : (tickTable m0 k).1 = (updRun d song k (playSong d song).1).ticks := by rw [← ih]
    have i2 : (tickTable m0 k).2.1 = (updRun d song k (playSong d song).1).tempoCounter := by rw [← ih]
    have i3 : (tickTable m0 k).2.2 = (updRun d song k (playSong d song).1).g.tempoDelta := by rw [← ih]
    simp only [tickTable, i1, i2, i3]
    rw [ht.1, ht.2, hd]
    simp only [updTicks, tempoStep, pow_shift]

end

end Ctrmml.MdDriver
