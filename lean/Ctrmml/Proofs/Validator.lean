/-
  From the control machine to `Track_Validator`: accumulators along a run, the final root
  `END`, and fuel sufficiency.  Helper lemmas only.
-/
import Ctrmml.Proofs.PlayerRefines
namespace Ctrmml.Refine
open Ctrmml Player Tree Expand

section
variable (song : Song) (root : List Event)

theorem stackTop_ne_fuel (st : List Frame) (ty : FType) : stackTop st ty ≠ .error .fuel := by
  unfold stackTop
  split
  · cases ty <;> simp [underflowErr]
  · rename_i f _
    split
    · simp
    · cases f.type <;> simp [underflowErr]

theorem push_ne_fuel (st : List Frame) (f : Frame) : push st f ≠ .error .fuel := by
  unfold push; split <;> simp

theorem coreStep_ne_fuel (c : Core) : coreStep song root c ≠ .error .fuel := by
  intro h
  unfold coreStep at h
  simp only [] at h
  repeat' split at h
  all_goals first
    | (simp at h; done)
    | (injection h with h; subst h
       first
         | exact absurd (by assumption) (push_ne_fuel _ _)
         | exact absurd (by assumption) (stackTop_ne_fuel _ _))

/-- all tracks the machine can be in are free of explicit `END` events -/
def CodesNoEnd : Prop := ∀ tr, NoEnd (codeOf song root tr)

theorem codesNoEnd_of (hs : SongNoEnd song) (hr : NoEnd root) : CodesNoEnd song root := by
  intro tr
  cases tr with
  | root => exact hr
  | id n =>
    simp only [codeOf]
    cases h : song.track? n with
    | none => intro e he; simp at he
    | some evs => simpa using hs n evs h

theorem fetch_fin (hne : CodesNoEnd song root) (tr : TRef) (pos : Nat)
    (h : (fetch (codeOf song root tr) pos).kind = .fin) : fetch (codeOf song root tr) pos = endEvent := by
  unfold fetch at *
  cases hg : (codeOf song root tr)[pos]? with
  | none => simp
  | some e =>
    rw [hg] at h
    simp only [Option.getD_some] at h
    have hm : e ∈ codeOf song root tr := List.mem_of_getElem? hg
    exact absurd h (hne tr e hm)

/-- `END` steps fetch the synthesised end event (zero duration) -/
def OutOK : Out → Prop
  | .hook _ _ => True
  | .ret f => f = endEvent
  | .rootEnd f => f = endEvent

theorem coreStep_outOK (hne : CodesNoEnd song root) (c c' : Core) (o : Out)
    (h : coreStep song root c = .ok (c', o)) : OutOK o := by
  have hfin := fetch_fin song root hne c.track c.position
  unfold coreStep at h
  simp only [] at h
  repeat' split at h
  all_goals first
    | (simp at h; done)
    | (simp only [Except.ok.injEq, Prod.mk.injEq] at h; obtain ⟨_, rfl⟩ := h
       first
         | trivial
         | exact hfin (by assumption))

/-- time after the current event has elapsed -/
def T (a : Acc) : Nat := a.playTime + a.onTime + a.offTime

def isSegnoHook : Out → Bool
  | .hook _ f => decide (f.kind = .segno)
  | _ => false

/-- the time fields of the accumulators along a list of reports: (time, loop play time) -/
def timeFold : Nat → Int → List Out → Nat × Int
  | t, lp, [] => (t, lp)
  | t, lp, o :: os => timeFold (t + o.fetched.on + o.fetched.off) (if isSegnoHook o then (t : Int) else lp) os

theorem accStep_nonroot (lh : Bool) (a : Acc) (pos : Nat) (c' : Core) (o : Out) (ho : isRoot o = false) :
    ∃ a' em, accStep lh a pos c' o = (a', c', em) ∧ a'.enabled = a.enabled ∧
      a'.playTime = T a ∧ a'.onTime = o.fetched.on ∧ a'.offTime = o.fetched.off ∧
      a'.loopPlayTime = (if isSegnoHook o then (T a : Int) else a.loopPlayTime) := by
  cases o with
  | rootEnd f => simp [isRoot] at ho
  | ret f => exact ⟨_, _, rfl, rfl, rfl, rfl, rfl, by simp [isSegnoHook]⟩
  | hook v f =>
    unfold accStep
    by_cases hk : f.kind = .segno
    · simp only [hk, if_true]
      exact ⟨_, _, rfl, rfl, rfl, rfl, rfl, by simp [isSegnoHook, hk, T, Out.fetched]⟩
    · simp only [hk, if_false]
      exact ⟨_, _, rfl, rfl, rfl, rfl, rfl, by simp [isSegnoHook, hk]⟩

/-- the validator follows the control machine as long as no root `END` is met -/
theorem run_follows : ∀ (k : Nat) (c c' : Core) (outs : List Out) (a : Acc),
    stepsCore song root k c = .ok (c', outs) → (∀ o ∈ outs, isRoot o = false) → a.enabled = true →
    ∃ a', (∀ m, runValidator song root (k + m) ⟨c, a⟩ = runValidator song root m ⟨c', a'⟩) ∧
      a'.enabled = true ∧ (T a', a'.loopPlayTime) = timeFold (T a) a.loopPlayTime outs
  | 0, c, c', outs, a, h, _, hen => by
    simp only [stepsCore, Except.ok.injEq, Prod.mk.injEq] at h
    obtain ⟨rfl, rfl⟩ := h
    exact ⟨a, by intro m; simp, hen, by simp [timeFold]⟩
  | k + 1, c, c', outs, a, h, hno, hen => by
    simp only [stepsCore] at h
    cases hs : coreStep song root c with
    | error e => rw [hs] at h; simp at h
    | ok p =>
      obtain ⟨c1, o⟩ := p
      rw [hs] at h
      simp only [] at h
      cases hs2 : stepsCore song root k c1 with
      | error e => rw [hs2] at h; simp at h
      | ok p2 =>
        obtain ⟨c2, os⟩ := p2
        rw [hs2] at h
        simp only [Except.ok.injEq, Prod.mk.injEq] at h
        obtain ⟨rfl, rfl⟩ := h
        have ho : isRoot o = false := hno o (by simp)
        obtain ⟨a1, em, hacc, he1, hp1, hon1, hoff1, hlp1⟩ := accStep_nonroot true a c.position c1 o ho
        -- the validator's loop hook is `false`; accStep ignores it for non-root reports
        obtain ⟨a1', em', hacc', he1', hp1', hon1', hoff1', hlp1'⟩ := accStep_nonroot false a c.position c1 o ho
        obtain ⟨a2, hrun, he2, ht2⟩ := run_follows k c1 c2 os a1' hs2 (fun o' h' => hno o' (by simp [h'])) (by rw [he1', hen])
        refine ⟨a2, ?_, he2, ?_⟩
        · intro m
          have : k + 1 + m = (k + m) + 1 := by omega
          rw [this, runValidator]
          simp only [hen, Bool.not_true, Bool.false_eq_true, if_false, step, hs, hacc']
          exact hrun m
        · rw [ht2]
          have hT : T a1' = T a + o.fetched.on + o.fetched.off := by simp [T, hp1', hon1', hoff1']
          simp [timeFold, hT, hlp1']

theorem runValidator_error (k : Nat) (c c' : Core) (outs : List Out) (a : Acc) (e : PErr)
    (h : stepsCore song root k c = .ok (c', outs)) (hno : ∀ o ∈ outs, isRoot o = false)
    (hen : a.enabled = true) (herr : coreStep song root c' = .error e) :
    ∀ m, runValidator song root (k + (m + 1)) ⟨c, a⟩ = .error e := by
  intro m
  obtain ⟨a', hrun, he', _⟩ := run_follows song root k c c' outs a h hno hen
  rw [hrun (m + 1), runValidator]
  simp [he', step, herr]

/-- spec-side view of the time fields -/
def toInt : Option Nat → Int
  | none => -1
  | some n => n

theorem timeFold_items (outs : List Out) (hok : ∀ o ∈ outs, OutOK o) (hno : ∀ o ∈ outs, isRoot o = false) :
    ∀ (t : Nat) (acc : Option Nat),
    timeFold t (toInt acc) outs
      = (t + totalDur (itemsOf outs), toInt (loopTimeAux t acc (itemsOf outs))) := by
  induction outs with
  | nil => intro t acc; simp [timeFold, itemsOf, totalDur, loopTimeAux]
  | cons o os ih =>
    intro t acc
    have hok' : ∀ o ∈ os, OutOK o := fun x hx => hok x (by simp [hx])
    have hno' : ∀ o ∈ os, isRoot o = false := fun x hx => hno x (by simp [hx])
    cases o with
    | rootEnd f => have := hno (.rootEnd f) (by simp); simp [isRoot] at this
    | ret f =>
      have hf : f = endEvent := hok (.ret f) (by simp)
      subst hf
      have := ih hok' hno' t acc
      have e1 : itemsOf (Out.ret endEvent :: os) = itemsOf os := by
        simp only [itemsOf, List.filterMap_cons, itemOfOut]
      rw [e1]
      simpa [timeFold, isSegnoHook, Out.fetched, endEvent] using this
    | hook v f =>
      by_cases hk : f.kind = .segno
      · have := ih hok' hno' (t + f.on + f.off) (some t)
        simp only [timeFold, isSegnoHook, hk, decide_true, if_true, Out.fetched]
        rw [show ((t : Int)) = toInt (some t) from rfl, this]
        have e1 : itemsOf (Out.hook v f :: os) = { ev := v, src := f } :: itemsOf os := by simp [itemsOf, itemOfOut]
        rw [e1]
        simp only [totalDur, List.map_cons, List.sum_cons, loopTimeAux, hk, if_true, Item.dur, Nat.add_assoc]
      · have := ih hok' hno' (t + f.on + f.off) acc
        simp only [timeFold, isSegnoHook, hk, decide_false, Bool.false_eq_true, if_false, Out.fetched]
        rw [this]
        have e1 : itemsOf (Out.hook v f :: os) = { ev := v, src := f } :: itemsOf os := by simp [itemsOf, itemOfOut]
        rw [e1]
        simp only [totalDur, List.map_cons, List.sum_cons, loopTimeAux, hk, if_false, Item.dur, Nat.add_assoc]

theorem stepsCore_outOK (hne : CodesNoEnd song root) : ∀ (k : Nat) (c c' : Core) (outs : List Out),
    stepsCore song root k c = .ok (c', outs) → ∀ o ∈ outs, OutOK o
  | 0, c, c', outs, h => by
    simp only [stepsCore, Except.ok.injEq, Prod.mk.injEq] at h
    obtain ⟨_, rfl⟩ := h; simp
  | k + 1, c, c', outs, h => by
    simp only [stepsCore] at h
    cases hs : coreStep song root c with
    | error e => rw [hs] at h; simp at h
    | ok p =>
      obtain ⟨c1, o⟩ := p
      rw [hs] at h
      simp only [] at h
      cases hs2 : stepsCore song root k c1 with
      | error e => rw [hs2] at h; simp at h
      | ok p2 =>
        obtain ⟨c2, os⟩ := p2
        rw [hs2] at h
        simp only [Except.ok.injEq, Prod.mk.injEq] at h
        obtain ⟨_, rfl⟩ := h
        intro x hx
        rcases List.mem_cons.mp hx with rfl | hx
        · exact coreStep_outOK song root hne c c1 _ hs
        · exact stepsCore_outOK hne k c1 c2 os hs2 x hx

end
end Ctrmml.Refine
