/-
  Helper lemmas for C07, slurred notes and PSG channels: the key-on / slur flags of any channel
  and what an FM or PSG melody channel writes for them, as an instance of the generic chain of
  Proofs/MdChain (summary `FlagS`), and the part of `MD_Channel::update` after the tick loop.
-/
import Ctrmml.Proofs.MdChain
import Ctrmml.Proofs.MdTempo
namespace Ctrmml.MdDriver
open Ctrmml Player PlayerCh Tables TickStream

/-! ### attenuation writes of a PSG melody channel -/
/-- the attenuation nibble of a write to the SN76489 that latches the volume register of channel `i` -/
def attOf (i : Nat) (w : Wr) : Option Nat :=
  if w.cmd = 0x50 ∧ w.data / 16 = 9 + 2 * i then some (w.data % 16) else none

/-- the attenuation values written to PSG channel `i`, in order -/
def atts (i : Nat) (o : List Wr) : List Nat := o.filterMap (attOf i)

@[simp] theorem atts_nil (i : Nat) : atts i [] = [] := rfl
@[simp] theorem atts_append (i : Nat) (a b : List Wr) : atts i (a ++ b) = atts i a ++ atts i b := by
  simp [atts, List.filterMap_append]

theorem atts_snW1 (i x : Nat) (hi : i < 3) : atts i (snW 1 i x) = [x % 16] := by
  have key : ∀ y, y < 16 → ∀ j, j < 3 → ((y ||| (j * 32) ||| 0x90) % 256) / 16 = 9 + 2 * j ∧ ((y ||| (j * 32) ||| 0x90) % 256) % 16 = y := by
    decide
  obtain ⟨k1, k2⟩ := key (x % 16) (Nat.mod_lt _ (by decide)) i hi
  simp [snW, atts, attOf, k1, k2]

theorem atts_of_cmd (i : Nat) (o : List Wr) (h : ∀ w ∈ o, w.cmd = 0x52) : atts i o = [] := by
  induction o with
  | nil => rfl
  | cons w r ih =>
    have hw := h w (by simp)
    simp only [atts, List.filterMap_cons, attOf, hw]
    simp only [show ¬ ((0x52 : Nat) = 0x50 ∧ w.data / 16 = 9 + 2 * i) by omega, if_false]
    exact ih (fun x hx => h x (by simp [hx]))

theorem ymW_cmd (port reg ch op data : Nat) : ∀ w ∈ ymW port reg ch op data, w.cmd = 0x52 := by
  intro w hw
  unfold ymW at hw
  split at hw
  · simp at hw; subst hw; rfl
  · split at hw
    · simp at hw; subst hw; rfl
    · split at hw
      · simp at hw; rcases hw with rfl | rfl <;> rfl
      · split at hw <;> (simp at hw; subst hw; rfl)

theorem atts_ymW (i port reg ch op data : Nat) : atts i (ymW port reg ch op data) = [] :=
  atts_of_cmd i _ (ymW_cmd port reg ch op data)

theorem atts_keyOffPcm (i : Nat) (g : G) (c : Ch) : atts i (keyOffPcm g c).2 = [] := by
  unfold keyOffPcm; split <;> simp [atts, attOf]

theorem atts_keyOnPcm (i : Nat) (d : Data) (g : G) (c : Ch) : atts i (keyOnPcm d g c).2 = [] := by
  unfold keyOnPcm
  split
  · split <;> simp [atts, attOf]
  · rfl

/-- tone writes never latch a volume register -/
theorem atts_snW0 (i j x : Nat) (hj : j < 4) : atts i (snW 0 j x) = [] := by
  have key : ∀ y, y < 16 → ∀ k, k < 4 → ((y ||| (k * 32) ||| 0x80) % 256) / 16 = 8 + 2 * k := by decide
  have k1 := key (x % 1024 % 16) (Nat.mod_lt _ (by decide)) j hj
  have k2 : (x % 1024 / 16) % 256 / 16 < 4 := by omega
  unfold snW
  simp only [if_true]
  split
  · simp only [atts, List.filterMap_cons, List.filterMap_nil, List.cons_append, List.nil_append, attOf, k1]
    have e1 : ¬ (True ∧ 8 + 2 * j = 9 + 2 * i) := by omega
    have e2 : ¬ (True ∧ x % 1024 / 16 % 256 / 16 = 9 + 2 * i) := by omega
    simp [e1, e2]
  · simp only [atts, List.filterMap_cons, List.filterMap_nil, List.append_nil, attOf, k1]
    have e1 : ¬ (True ∧ 8 + 2 * j = 9 + 2 * i) := by omega
    simp [e1]

/-! ### the summary of the key-on / slur flags and of the key writes -/
structure FlagS (g : G) (c : Ch) (evs : List Event) (g' : G) (c' : Ch) (ops : List Wr) : Prop where
  kind : c'.kind = c.kind
  /-- inside the tick loop the slur flag is only ever set -/
  slur : c'.slur = (c.slur || evs.any (fun e => e.type == ev_SLUR))
  onSet : (∃ e ∈ evs, e.type = ev_NOTE) → c'.keyOn = true
  onKeep : c.keyOn = true → c'.keyOn = true
  onOnly : c'.keyOn = true → c.keyOn = true ∨ ∃ e ∈ evs, e.type = ev_NOTE ∨ e.type = ev_TIE
  nilOps : evs = [] → ops = []
  /-- the "instrument change pending" flag is only ever set by an `INS` command -/
  insFlag : c'.flag ev_INS = true → c.flag ev_INS = true ∨ ∃ e ∈ evs, e.type = ev_INS
  /-- FM: only key-offs; one for every rest / end and for every note that is not slurred; a slurred
  note writes none (unless an instrument is loaded at it) -/
  fm : ∀ b i, c.kind = .fm b i → i < 3 →
    (∀ x ∈ keys ops, x = koff b i) ∧
    ((∃ e ∈ evs, e.type = ev_REST ∨ e.type = ev_END) → koff b i ∈ keys ops) ∧
    ((∃ e ∈ evs, e.type = ev_NOTE) → c'.slur = false → koff b i ∈ keys ops) ∧
    (keys ops ≠ [] → ∃ e ∈ evs, e.type = ev_TIE ∨ e.type = ev_REST ∨ e.type = ev_END ∨
      (e.type = ev_NOTE ∧ (c.slur = false ∨ c.flag ev_INS = true ∨ ∃ e' ∈ evs, e'.type = ev_INS)))
  /-- PSG melody: the end of the track silences the channel at once -/
  psg : ∀ i, c.kind = .psg i → i < 3 → ∀ e, evs.getLast? = some e → e.type = ev_END → (atts i ops).getLast? = some 15

theorem FlagS.nil {g : G} {c c' : Ch} (hk : c'.kind = c.kind) (hs : c'.slur = c.slur) (hon : c'.keyOn = c.keyOn)
    (hf : c'.flag ev_INS = c.flag ev_INS) : FlagS g c [] g c' [] :=
  ⟨hk, by simp [hs], by simp, fun h => hon ▸ h, fun h => Or.inl (hon ▸ h), fun _ => rfl, fun h => Or.inl (hf ▸ h),
    fun b i _ _ => ⟨by simp, by simp, by simp, by simp⟩, fun i _ _ e h => by simp at h⟩

theorem FlagS.trans {g1 g2 g3 : G} {a b c : Ch} {e1 e2 : List Event} {o1 o2 : List Wr}
    (h1 : FlagS g1 a e1 g2 b o1) (h2 : FlagS g2 b e2 g3 c o2) : FlagS g1 a (e1 ++ e2) g3 c (o1 ++ o2) := by
  refine ⟨h2.kind.trans h1.kind, ?_, ?_, ?_, ?_, ?_, ?_, ?_, ?_⟩
  · rw [h2.slur, h1.slur, List.any_append, Bool.or_assoc]
  · rintro ⟨e, he, ht⟩
    rcases List.mem_append.mp he with h | h
    · exact h2.onKeep (h1.onSet ⟨e, h, ht⟩)
    · exact h2.onSet ⟨e, h, ht⟩
  · intro h; exact h2.onKeep (h1.onKeep h)
  · intro h
    rcases h2.onOnly h with h' | ⟨e, he, ht⟩
    · rcases h1.onOnly h' with h'' | ⟨e, he, ht⟩
      · exact Or.inl h''
      · exact Or.inr ⟨e, List.mem_append.mpr (Or.inl he), ht⟩
    · exact Or.inr ⟨e, List.mem_append.mpr (Or.inr he), ht⟩
  · intro h
    have ha : e1 = [] ∧ e2 = [] := by simpa using h
    rw [h1.nilOps ha.1, h2.nilOps ha.2]; rfl
  · intro h
    rcases h2.insFlag h with h' | ⟨e, he, ht⟩
    · rcases h1.insFlag h' with h'' | ⟨e, he, ht⟩
      · exact Or.inl h''
      · exact Or.inr ⟨e, List.mem_append.mpr (Or.inl he), ht⟩
    · exact Or.inr ⟨e, List.mem_append.mpr (Or.inr he), ht⟩
  · intro bk i hk hi
    obtain ⟨p1, p2, p3, p4⟩ := h1.fm bk i hk hi
    obtain ⟨q1, q2, q3, q4⟩ := h2.fm bk i (h1.kind.trans hk) hi
    refine ⟨?_, ?_, ?_, ?_⟩
    · intro x hx
      rw [keys_append] at hx
      rcases List.mem_append.mp hx with h | h
      · exact p1 x h
      · exact q1 x h
    · rintro ⟨e, he, ht⟩
      rw [keys_append]
      rcases List.mem_append.mp he with h | h
      · exact List.mem_append.mpr (Or.inl (p2 ⟨e, h, ht⟩))
      · exact List.mem_append.mpr (Or.inr (q2 ⟨e, h, ht⟩))
    · rintro ⟨e, he, ht⟩ hc
      have hb : b.slur = false := by
        have := h2.slur; rw [hc] at this
        cases hbs : b.slur with
        | false => rfl
        | true => rw [hbs] at this; simp at this
      rw [keys_append]
      rcases List.mem_append.mp he with h | h
      · exact List.mem_append.mpr (Or.inl (p3 ⟨e, h, ht⟩ hb))
      · exact List.mem_append.mpr (Or.inr (q3 ⟨e, h, ht⟩ hc))
    · intro hne
      rw [keys_append] at hne
      by_cases h : keys o1 = []
      · rw [h] at hne
        obtain ⟨e, he, ht⟩ := q4 (by simpa using hne)
        refine ⟨e, List.mem_append.mpr (Or.inr he), ?_⟩
        rcases ht with t | t | t | ⟨t, hbs⟩
        · exact Or.inl t
        · exact Or.inr (Or.inl t)
        · exact Or.inr (Or.inr (Or.inl t))
        · refine Or.inr (Or.inr (Or.inr ⟨t, ?_⟩))
          rcases hbs with hbs | hbs | ⟨e', he', ht'⟩
          · left
            have := h1.slur; rw [hbs] at this
            cases has : a.slur with
            | false => rfl
            | true => rw [has] at this; simp at this
          · rcases h1.insFlag hbs with h' | ⟨e', he', ht'⟩
            · exact Or.inr (Or.inl h')
            · exact Or.inr (Or.inr ⟨e', List.mem_append.mpr (Or.inl he'), ht'⟩)
          · exact Or.inr (Or.inr ⟨e', List.mem_append.mpr (Or.inr he'), ht'⟩)
      · obtain ⟨e, he, ht⟩ := p4 h
        refine ⟨e, List.mem_append.mpr (Or.inl he), ?_⟩
        rcases ht with t | t | t | ⟨t, hh⟩
        · exact Or.inl t
        · exact Or.inr (Or.inl t)
        · exact Or.inr (Or.inr (Or.inl t))
        · refine Or.inr (Or.inr (Or.inr ⟨t, ?_⟩))
          rcases hh with hh | hh | ⟨e', he', ht'⟩
          · exact Or.inl hh
          · exact Or.inr (Or.inl hh)
          · exact Or.inr (Or.inr ⟨e', List.mem_append.mpr (Or.inl he'), ht'⟩)
  · intro i hk hi e hl hend
    rw [atts_append]
    by_cases h2e : e2 = []
    · rw [h2e, List.append_nil] at hl
      rw [h2.nilOps h2e]
      simpa using h1.psg i hk hi e hl hend
    · have hl2 : e2.getLast? = some e := by
        rw [List.getLast?_append] at hl
        cases h : e2.getLast? with
        | none => simp [List.getLast?_eq_none_iff] at h; exact absurd h h2e
        | some x => rw [h] at hl; simpa using hl
      have := h2.psg i (h1.kind.trans hk) hi e hl2 hend
      rw [List.getLast?_append, this]; rfl

/-! ### what the pieces of `write_event` do to the flags (any channel kind) -/
theorem clrBit_contains (m : List Nat) (b x : Nat) (h : (clrBit m b).contains x = true) : m.contains x = true := by
  simp only [clrBit, List.contains_iff_mem, List.mem_filter] at h ⊢
  exact h.1

theorem clearFlag_flag (c : Ch) (t : Nat) (h : (c.clearFlag t).flag ev_INS = true) : c.flag ev_INS = true :=
  clrBit_contains _ _ _ h

theorem keyOff_flags (c : Ch) :
    (keyOff c).1.kind = c.kind ∧ (keyOff c).1.slur = c.slur ∧ (keyOff c).1.keyOn = c.keyOn ∧ (keyOff c).1.ps = c.ps := by
  unfold keyOff; split <;> exact ⟨rfl, rfl, rfl, rfl⟩

theorem keyOff_psg (c : Ch) (i : Nat) (hk : c.kind = .psg i) :
    (keyOff c).2 = if c.evType = ev_END then snW 1 i 15 else [] := by
  simp [keyOff, hk]

theorem vSetIns_flags (d : Data) (c : Ch) :
    (vSetIns d c).1.kind = c.kind ∧ (vSetIns d c).1.slur = c.slur ∧ (vSetIns d c).1.keyOn = c.keyOn ∧ (vSetIns d c).1.ps = c.ps := by
  unfold vSetIns
  split
  · simp only []; split <;> exact ⟨rfl, rfl, rfl, rfl⟩
  · simp only []; split <;> exact ⟨rfl, rfl, rfl, rfl⟩
  · simp only []; split <;> exact ⟨rfl, rfl, rfl, rfl⟩
  · exact ⟨rfl, rfl, rfl, rfl⟩

theorem insOrVol_flags (d : Data) (g : G) (c : Ch) :
    (insOrVol d g c).2.1.kind = c.kind ∧ (insOrVol d g c).2.1.slur = c.slur ∧
      (c.keyOn = true → (insOrVol d g c).2.1.keyOn = true) ∧
      ((insOrVol d g c).2.1.keyOn = true → c.keyOn = true ∨ c.flag ev_INS = true) ∧
      ((insOrVol d g c).2.1.flag ev_INS = true → c.flag ev_INS = true) := by
  obtain ⟨v1, v2, v3, v4⟩ := vSetIns_flags d c
  unfold insOrVol
  split
  · rename_i hf
    unfold setIns setVol
    refine ⟨v1, v2, fun _ => rfl, fun _ => Or.inr hf, fun h => ?_⟩
    have h1 := clearFlag_flag _ _ h
    have h2 := clearFlag_flag _ _ h1
    simp only [Ch.flag] at h2 ⊢
    rw [v4] at h2; exact h2
  · split
    · unfold setVol
      exact ⟨rfl, rfl, fun h => h, fun h => Or.inl h, fun h => clearFlag_flag _ _ h⟩
    · exact ⟨rfl, rfl, fun h => h, fun h => Or.inl h, fun h => h⟩

/-- without a pending instrument change the shared part of `NOTE` / `TIE` writes no key word -/
theorem insOrVol_keys_noins (d : Data) (g : G) (c : Ch) (b i : Nat) (hk : c.kind = .fm b i) (hi : i < 3)
    (hf : c.flag ev_INS = false) : keys (insOrVol d g c).2.2 = [] := by
  unfold insOrVol
  rw [if_neg (by rw [hf]; simp)]
  split
  · exact (setVol_fm b i hi c hk).2
  · rfl

theorem noteStart_flags (g : G) (c : Ch) (e : Event) :
    (noteStart g c e).2.1.kind = c.kind ∧ (noteStart g c e).2.1.slur = c.slur ∧ (noteStart g c e).2.1.keyOn = true ∧
      (noteStart g c e).2.1.ps = c.ps := by
  unfold noteStart
  simp only []
  split
  · obtain ⟨k1, k2, k3, k4⟩ := keyOff_flags { c with notePitch := u16 ((e.param + c.var ev_TRANSPOSE) * 256 + c.var ev_DETUNE), keyOn := true }
    exact ⟨k1, k2, k3, k4⟩
  · exact ⟨rfl, rfl, rfl, rfl⟩

theorem noteStart_keys_fm (g : G) (c : Ch) (e : Event) (b i : Nat) (hk : c.kind = .fm b i) :
    keys (noteStart g c e).2.2 = if c.slur then [] else [koff b i] := by
  unfold noteStart
  simp only []
  split
  · rename_i h
    have hs : c.slur = false := by simpa using h
    rw [keyOff_fm b i _ (by exact hk), keys_append, keys_keyOffPcm, List.nil_append, hs]
    exact keys_koff b i
  · rename_i h
    have hs : c.slur = true := by simpa using h
    rw [hs]; rfl

/-- a single event -/
theorem FlagS.single {g g' : G} {c c' : Ch} {e : Event} {ops : List Wr}
    (hk : c'.kind = c.kind) (hs : c'.slur = (c.slur || (e.type == ev_SLUR)))
    (h1 : e.type = ev_NOTE → c'.keyOn = true) (h2 : c.keyOn = true → c'.keyOn = true)
    (h3 : c'.keyOn = true → c.keyOn = true ∨ e.type = ev_NOTE ∨ e.type = ev_TIE)
    (h4 : c'.flag ev_INS = true → c.flag ev_INS = true ∨ e.type = ev_INS)
    (hfm : ∀ b i, c.kind = .fm b i → i < 3 →
      (∀ x ∈ keys ops, x = koff b i) ∧ (e.type = ev_REST ∨ e.type = ev_END → koff b i ∈ keys ops) ∧
      (e.type = ev_NOTE → c'.slur = false → koff b i ∈ keys ops) ∧
      (keys ops ≠ [] → e.type = ev_TIE ∨ e.type = ev_REST ∨ e.type = ev_END ∨
        (e.type = ev_NOTE ∧ (c.slur = false ∨ c.flag ev_INS = true ∨ e.type = ev_INS))))
    (hpsg : ∀ i, c.kind = .psg i → i < 3 → e.type = ev_END → (atts i ops).getLast? = some 15) :
    FlagS g c [e] g' c' ops := by
  refine ⟨hk, by simp [hs], ?_, h2, ?_, by simp, ?_, ?_, ?_⟩
  · rintro ⟨x, hx, ht⟩; simp at hx; subst hx; exact h1 ht
  · intro h
    rcases h3 h with a | a | a
    · exact Or.inl a
    · exact Or.inr ⟨e, by simp, Or.inl a⟩
    · exact Or.inr ⟨e, by simp, Or.inr a⟩
  · intro h
    rcases h4 h with a | a
    · exact Or.inl a
    · exact Or.inr ⟨e, by simp, a⟩
  · intro b i hkk hi
    obtain ⟨f1, f2, f3, f4⟩ := hfm b i hkk hi
    refine ⟨f1, ?_, ?_, ?_⟩
    · rintro ⟨x, hx, ht⟩; simp at hx; subst hx; exact f2 ht
    · rintro ⟨x, hx, ht⟩ hh; simp at hx; subst hx; exact f3 ht hh
    · intro hne
      refine ⟨e, by simp, ?_⟩
      rcases f4 hne with a | a | a | ⟨a, bb⟩
      · exact Or.inl a
      · exact Or.inr (Or.inl a)
      · exact Or.inr (Or.inr (Or.inl a))
      · refine Or.inr (Or.inr (Or.inr ⟨a, ?_⟩))
        rcases bb with x | x | x
        · exact Or.inl x
        · exact Or.inr (Or.inl x)
        · exact Or.inr (Or.inr ⟨e, by simp, x⟩)
  · intro i hkk hi x hl hend
    simp at hl; subst hl
    exact hpsg i hkk hi hend

/-! ### the "instrument change pending" flag through `handle_event` -/
theorem setBit_contains (m : List Nat) (b x : Nat) (hx : x ≠ b) : (setBit m b).contains x = m.contains x := by
  unfold setBit
  split
  · rfl
  · simp [List.contains_cons, hx]

theorem setCh_mask_ins (c : Chan) (t : Nat) (v : Int) (ht : chIdx t ≠ chIdx ev_INS) :
    (setCh c t v).mask.contains (chIdx ev_INS) = c.mask.contains (chIdx ev_INS) := by
  simp only [setCh]
  exact setBit_contains _ _ _ (fun h => ht h.symm)

theorem handleEvent_insflag (song : Song) (s : PS) (e : Event) (hd : drumOff s.ch)
    (h : (handleEvent song (fun _ => false) s e).1.ch.mask.contains (chIdx ev_INS) = true) :
    s.ch.mask.contains (chIdx ev_INS) = true ∨ e.type = ev_INS := by
  unfold handleEvent at h
  by_cases hN : e.type = ev_NOTE
  · rw [if_pos hN] at h
    have : ¬ (getCh s.ch ev_DRUM_MODE ≠ 0) := by unfold drumOff at hd; simp [hd]
    rw [if_neg this] at h
    exact Or.inl h
  rw [if_neg hN] at h
  by_cases hP : e.type = ev_PLATFORM
  · rw [if_pos hP] at h
    split at h <;> exact Or.inl h
  rw [if_neg hP] at h
  by_cases h1 : e.type = ev_TRANSPOSE_REL
  · rw [if_pos h1] at h
    simp only at h
    rw [setCh_mask_ins _ _ _ (by decide)] at h; exact Or.inl h
  rw [if_neg h1] at h
  by_cases h2 : e.type = ev_VOL
  · rw [if_pos h2] at h
    simp only at h
    rw [setBit_contains _ _ _ (by decide), setCh_mask_ins _ _ _ (by decide)] at h; exact Or.inl h
  rw [if_neg h2] at h
  by_cases h3 : e.type = ev_VOL_REL ∨ e.type = ev_VOL_FINE_REL
  · rw [if_pos h3] at h
    simp only at h
    rw [setCh_mask_ins _ _ _ (by decide)] at h; exact Or.inl h
  rw [if_neg h3] at h
  by_cases h4 : e.type = ev_TEMPO_BPM
  · rw [if_pos h4] at h
    simp only at h
    rw [setBit_contains _ _ _ (by decide), setCh_mask_ins _ _ _ (by decide)] at h; exact Or.inl h
  rw [if_neg h4] at h
  by_cases h5 : e.type ≥ ev_CHANNEL_CMD ∧ e.type < ev_CMD_COUNT
  · rw [if_pos h5] at h
    by_cases hI : e.type = ev_INS
    · exact Or.inr hI
    · left
      have hidx : chIdx e.type ≠ chIdx ev_INS := by
        have a := h5.1
        simp only [chIdx, ev_CHANNEL_CMD, ev_INS] at *
        omega
      simp only at h
      have step1 : ∀ (c : Chan) (b : Prop) [Decidable b] (bit : Nat),
          (if b then ({ c with mask := clrBit c.mask bit } : Chan) else c).mask.contains (chIdx ev_INS) = true →
          c.mask.contains (chIdx ev_INS) = true := by
        intro c b _ bit hh
        split at hh
        · exact clrBit_contains _ _ _ hh
        · exact hh
      have h' := step1 _ _ _ (step1 _ _ _ h)
      rw [setCh_mask_ins _ _ _ hidx] at h'
      exact h'
  · rw [if_neg h5] at h
    exact Or.inl h

/-! ### one `write_event` call -/
theorem FlagS.rebase {g g' : G} {c c0 c' : Ch} {e : Event} {ops : List Wr}
    (h : FlagS g c0 [e] g' c' ops) (hk : c0.kind = c.kind) (hs : c0.slur = c.slur) (ho : c0.keyOn = c.keyOn)
    (hf : c0.flag ev_INS = true → c.flag ev_INS = true ∨ e.type = ev_INS) : FlagS g c [e] g' c' ops := by
  refine ⟨h.kind.trans hk, by rw [h.slur, hs], h.onSet, fun x => h.onKeep (ho ▸ x), ?_, h.nilOps, ?_, ?_, ?_⟩
  · intro x
    rcases h.onOnly x with a | a
    · exact Or.inl (ho ▸ a)
    · exact Or.inr a
  · intro x
    rcases h.insFlag x with a | a
    · rcases hf a with b | b
      · exact Or.inl b
      · exact Or.inr ⟨e, by simp, b⟩
    · exact Or.inr a
  · intro b i hkk hi
    obtain ⟨f1, f2, f3, f4⟩ := h.fm b i (hk.trans hkk) hi
    refine ⟨f1, f2, f3, fun hne => ?_⟩
    obtain ⟨x, hx, ht⟩ := f4 hne
    refine ⟨x, hx, ?_⟩
    rcases ht with t | t | t | ⟨t, hh⟩
    · exact Or.inl t
    · exact Or.inr (Or.inl t)
    · exact Or.inr (Or.inr (Or.inl t))
    · refine Or.inr (Or.inr (Or.inr ⟨t, ?_⟩))
      rcases hh with a | a | a
      · exact Or.inl (hs ▸ a)
      · rcases hf a with b | b
        · exact Or.inr (Or.inl b)
        · exact Or.inr (Or.inr ⟨e, by simp, b⟩)
      · exact Or.inr (Or.inr a)
  · intro i hkk hi
    exact h.psg i (hk.trans hkk) hi

section
variable (d : Data)

theorem slur_or_ne (b : Bool) (t : Nat) (h : t ≠ ev_SLUR) : b = (b || (t == ev_SLUR)) := by simp [h]

/-- an event that changes neither the flags nor the key register -/
theorem FlagS.quiet {g g' : G} {c c' : Ch} {e : Event} {ops : List Wr}
    (hk : c'.kind = c.kind) (hs : c'.slur = c.slur) (ho : c'.keyOn = c.keyOn)
    (hf : c'.flag ev_INS = true → c.flag ev_INS = true)
    (hkeys : ∀ b i, c.kind = .fm b i → i < 3 → keys ops = []) (hne : e.type ≠ ev_NOTE) (hns : e.type ≠ ev_SLUR)
    (hnr : e.type ≠ ev_REST) (hnd : e.type ≠ ev_END) : FlagS g c [e] g' c' ops := by
  refine FlagS.single hk (by rw [hs]; simp [hns]) (fun h => absurd h hne) (fun h => ho ▸ h) (fun h => Or.inl (ho ▸ h))
    (fun h => Or.inl (hf h)) ?_ (fun i _ _ h => absurd h hnd)
  intro b i hkk hi
  rw [hkeys b i hkk hi]
  exact ⟨by simp, fun h => h.elim (fun x => absurd x hnr) (fun x => absurd x hnd), fun h => absurd h hne, fun h => absurd rfl h⟩

theorem writeEvent_flagS (g g0 : G) (c0 : Ch) (e : Event) (ht : c0.evType = e.type) :
    (writeEvent d g c0 e).1.err.isSome = true ∨
      FlagS g0 c0 [e] (writeEvent d g c0 e).1 (writeEvent d g c0 e).2.1 (writeEvent d g c0 e).2.2 := by
  unfold writeEvent
  simp only [ht]
  by_cases c1 : e.type = ev_SEGNO
  · rw [if_pos c1]
    exact Or.inr (FlagS.quiet rfl rfl rfl (fun h => h) (fun _ _ _ _ => rfl) (by rw [c1]; decide) (by rw [c1]; decide)
      (by rw [c1]; decide) (by rw [c1]; decide))
  rw [if_neg c1]
  by_cases c2 : e.type = ev_NOTE
  · rw [if_pos c2]
    right
    obtain ⟨n1, n2, n3, n4⟩ := noteStart_flags g c0 e
    obtain ⟨i1, i2, i3, i4, i5⟩ := insOrVol_flags d (noteStart g c0 e).1 (noteStart g c0 e).2.1
    have hfl : (noteStart g c0 e).2.1.flag ev_INS = c0.flag ev_INS := by simp only [Ch.flag]; rw [n4]
    refine FlagS.single (i1.trans n1) (by rw [i2, n2]; exact slur_or_ne _ _ (by rw [c2]; decide)) (fun _ => i3 n3) (fun _ => i3 n3)
      (fun _ => Or.inr (Or.inl c2)) (fun h => Or.inl (hfl ▸ i5 h)) ?_ (fun i _ _ h => by rw [c2] at h; exact absurd h (by decide))
    intro b i hk hi
    have hk1 : (noteStart g c0 e).2.1.kind = .fm b i := n1.trans hk
    have hk0 := noteStart_keys_fm g c0 e b i hk
    obtain ⟨_, _, _, iv4⟩ := insOrVol_fm d b i hi (noteStart g c0 e).1 (noteStart g c0 e).2.1 hk1
    refine ⟨?_, fun h => ?_, fun _ hs => ?_, fun hne => ?_⟩
    · intro x hx
      rw [keys_append, hk0] at hx
      rcases List.mem_append.mp hx with h | h
      · split at h <;> simp at h; exact h
      · exact iv4 x h
    · rw [c2] at h; exact absurd h (by decide)
    · rw [i2, n2] at hs
      rw [keys_append, hk0, hs]; simp
    · by_cases hsl : c0.slur = false
      · exact Or.inr (Or.inr (Or.inr ⟨c2, Or.inl hsl⟩))
      · have hsl' : c0.slur = true := by simpa using hsl
        by_cases hfi : c0.flag ev_INS = true
        · exact Or.inr (Or.inr (Or.inr ⟨c2, Or.inr (Or.inl hfi)⟩))
        · exfalso
          have hfi' : (noteStart g c0 e).2.1.flag ev_INS = false := by rw [hfl]; simpa using hfi
          rw [keys_append, hk0, hsl', insOrVol_keys_noins d _ _ b i hk1 hi hfi'] at hne
          exact hne rfl
  rw [if_neg c2]
  by_cases c3 : e.type = ev_TIE
  · rw [if_pos c3]
    right
    obtain ⟨i1, i2, i3, i4, i5⟩ := insOrVol_flags d g c0
    refine FlagS.single i1 (by rw [i2]; exact slur_or_ne _ _ (by rw [c3]; decide)) (fun h => absurd h c2) i3
      (fun _ => Or.inr (Or.inr c3)) (fun h => Or.inl (i5 h)) ?_ (fun i _ _ h => by rw [c3] at h; exact absurd h (by decide))
    intro b i hk hi
    obtain ⟨_, _, _, iv4⟩ := insOrVol_fm d b i hi g c0 hk
    exact ⟨iv4, fun h => by rw [c3] at h; exact absurd h (by decide), fun h => absurd h c2, fun _ => Or.inl c3⟩
  rw [if_neg c3]
  by_cases c4 : e.type = ev_END
  · rw [if_pos c4]
    right
    obtain ⟨k1, k2, k3, k4⟩ := keyOff_flags c0
    refine FlagS.single k1 (by rw [k2]; exact slur_or_ne _ _ (by rw [c4]; decide)) (fun h => absurd h c2) (fun h => k3 ▸ h) (fun h => Or.inl (k3 ▸ h))
      (fun h => Or.inl (by simp only [Ch.flag] at h ⊢; rw [k4] at h; exact h)) ?_ ?_
    · intro b i hk hi
      rw [keyOff_fm b i c0 hk, keys_append, keys_keyOffPcm, List.nil_append, keys_koff]
      exact ⟨by simp, fun _ => by simp, fun _ _ => by simp, fun _ => Or.inr (Or.inr (Or.inl c4))⟩
    · intro i hk hi _
      rw [keyOff_psg c0 i hk, if_pos (ht.trans c4), atts_append, atts_keyOffPcm, atts_snW1 i 15 hi]
      rfl
  rw [if_neg c4]
  by_cases c5 : e.type = ev_REST
  · rw [if_pos c5]
    right
    obtain ⟨k1, k2, k3, k4⟩ := keyOff_flags c0
    refine FlagS.single k1 (by rw [k2]; exact slur_or_ne _ _ (by rw [c5]; decide)) (fun h => absurd h c2) (fun h => k3 ▸ h) (fun h => Or.inl (k3 ▸ h))
      (fun h => Or.inl (by simp only [Ch.flag] at h ⊢; rw [k4] at h; exact h)) ?_ (fun i _ _ h => absurd h c4)
    intro b i hk hi
    rw [keyOff_fm b i c0 hk, keys_append, keys_keyOffPcm, List.nil_append, keys_koff]
    exact ⟨by simp, fun _ => by simp, fun _ _ => by simp, fun _ => Or.inr (Or.inl c5)⟩
  rw [if_neg c5]
  by_cases c6 : e.type = ev_SLUR
  · rw [if_pos c6]
    right
    refine FlagS.single rfl (by simp [c6]) (fun h => absurd h c2) (fun h => h) (fun h => Or.inl h) (fun h => Or.inl h) ?_
      (fun i _ _ h => absurd h c4)
    intro b i _ _
    exact ⟨by simp, fun h => h.elim (fun x => absurd x c5) (fun x => absurd x c4), fun h => absurd h c2, fun h => absurd rfl h⟩
  rw [if_neg c6]
  by_cases c7 : e.type = ev_TEMPO ∨ e.type = ev_TEMPO_BPM
  · rw [if_pos c7]
    exact Or.inr (FlagS.quiet rfl rfl rfl (fun h => clearFlag_flag _ _ h) (fun _ _ _ _ => rfl) c2 c6 c5 c4)
  rw [if_neg c7]
  by_cases c8 : e.type = ev_PLATFORM
  · rw [if_pos c8]
    exact Or.inl (fail_isSome _ _)
  rw [if_neg c8]
  by_cases c9 : e.type = ev_PAN
  · rw [if_pos c9]
    by_cases herr : (vSetPan g c0).1.err.isSome = true
    · exact Or.inl herr
    · refine Or.inr (FlagS.quiet rfl rfl rfl (fun h => h) ?_ c2 c6 c5 c4)
      intro b i hk hi
      unfold vSetPan
      simp only [hk]
      split
      · exact keys_ymW_other _ 0xb4 i 0 _ (by omega) (by omega) hi (by omega)
      · rfl
  rw [if_neg c9]
  by_cases c10 : e.type = ev_PAN_ENVELOPE
  · rw [if_pos c10]
    split
    · exact Or.inl (fail_isSome _ _)
    · exact Or.inr (FlagS.quiet rfl rfl rfl (fun h => h) (fun _ _ _ _ => rfl) c2 c6 c5 c4)
  rw [if_neg c10]
  exact Or.inr (FlagS.quiet rfl rfl rfl (fun h => h) (fun _ _ _ _ => rfl) c2 c6 c5 c4)

end

/-! ### the chain instance -/
section
variable (d : Data) (song : Song)

theorem flagChain : Chain d song (fun _ => True) (fun c => drumOff c.ps.ch) FlagS := by
  refine ⟨?_, ?_, fun h1 h2 => FlagS.trans h1 h2⟩
  · intro g c ps' t hj hch _
    refine ⟨by show drumOff ps'.ch; rw [hch]; exact hj, FlagS.nil rfl rfl rfl ?_⟩
    show ps'.ch.mask.contains _ = c.ps.ch.mask.contains _
    rw [hch]
  · intro g c ps' e hj hg hr
    have sc := writeEvent_ctl d g { c with ps := ps', evType := e.type } e
    have hflag : ({ c with ps := ps', evType := e.type } : Ch).flag ev_INS = true → c.flag ev_INS = true ∨ e.type = ev_INS := by
      intro h
      have h' : ps'.ch.mask.contains (chIdx ev_INS) = true := h
      cases hr with
      | rest hch => left; show c.ps.ch.mask.contains _ = true; rw [← hch]; exact h'
      | fin hch => left; show c.ps.ch.mask.contains _ = true; rw [← hch]; exact h'
      | hook v s1 hs1 hp hdm _ hch =>
        rw [hch] at h'
        rcases handleEvent_insflag song s1 e (by rw [hs1]; exact hj) h' with a | a
        · left; show c.ps.ch.mask.contains _ = true; rw [← hs1]; exact a
        · exact Or.inr a
    have hdrum : drumOff ps'.ch := by
      cases hr with
      | rest hch => rw [hch]; exact hj
      | fin hch => rw [hch]; exact hj
      | hook v s1 hs1 hp hdm _ hch =>
        have := (handleEvent_plain song (fun _ => false) s1 e (by rw [hs1]; exact hj) hp hdm).2.2.2.2
        unfold drumOff at this ⊢; rw [hch]; exact this
    rcases writeEvent_flagS d g g { c with ps := ps', evType := e.type } e rfl with h | h
    · exact Or.inl h
    · exact Or.inr ⟨drumOff_of_ts sc.ts hdrum, FlagS.rebase h rfl rfl rfl hflag⟩

end

/-! ### after the tick loop -/
section
variable (d : Data)

theorem atts_chKeyOn (c : Ch) (i : Nat) (hk : c.kind = .psg i) : atts i (chKeyOn c).2 = [] := by
  have : vKeyOn c = [] := by simp [vKeyOn, hk]
  unfold chKeyOn
  simp only [this]
  split <;> rfl

theorem keys_chPitch_fm (c : Ch) (b i : Nat) (hk : c.kind = .fm b i) (hi : i < 3) : keys (chPitch c).2 = [] := by
  unfold chPitch
  simp only
  split
  · exact keys_vSetPitch_fm _ b i hk hi
  · rfl

/-- FM channel, any slur state: after the ticks the frequency is written if it changed, then
the deferred key-on — unless the slur flag is set; a pending key-on clears the slur flag -/
theorem chAfter_fm_gen (g : G) (c : Ch) (b i : Nat) (hk : c.kind = .fm b i) (hi : i < 3) (hg : g.err = none) :
    keys (chAfter d g c).2.2 = (if c.keyOn = true ∧ c.slur = false then [kon b i] else []) ∧
      (chAfter d g c).2.1.keyOn = false ∧ (chAfter d g c).2.1.slur = (if c.keyOn = true then false else c.slur) ∧
      (chAfter d g c).2.1.pitch = u16 ((c.notePitch : Int) + c.insTranspose * 256) ∧
      (chAfter d g c).2.1.lastPitch = (chAfter d g c).2.1.pitch ∧
      (∃ rest, (chAfter d g c).2.2 = (chPitch c).2 ++ rest ∧ keys rest = keys (chAfter d g c).2.2) := by
  unfold chAfter
  simp only [hg, Option.isSome_none, Bool.false_eq_true, if_false]
  have he : chEnv g c = (g, c, []) := by simp [chEnv, hk, isPsg]
  rw [he]
  simp only [List.nil_append, keys_append, keys_chPitch_fm c b i hk hi, keys_chKeyOnPcm]
  have hk2 : (chPitch c).1.kind = .fm b i := hk
  have h1 : (chPitch c).1.keyOn = c.keyOn := rfl
  have h2 : (chPitch c).1.slur = c.slur := rfl
  refine ⟨?_, ?_, ?_, ?_, ?_, ⟨_, by rw [List.append_assoc], by simp [keys_append, keys_chKeyOnPcm]⟩⟩
  · unfold chKeyOn
    simp only [h1, h2]
    by_cases hon : c.keyOn = true
    · cases hs : c.slur with
      | false => simp [hon, vKeyOn, hk2, keys_ymW_key, kon]
      | true => simp [hon]
    · have : c.keyOn = false := by simpa using hon
      simp [this]
  · unfold chKeyOn; simp only [h1]; split <;> simp_all
  · unfold chKeyOn; simp only [h1, h2]; split <;> simp_all
  · unfold chKeyOn; simp only [h1]; split <;> rfl
  · unfold chKeyOn; simp only [h1]; split <;> rfl

/-- PSG melody channel: a key-on that is not slurred restarts the envelope; if the envelope
starts with a level byte `d0` (`> 0x0f`), the attenuation `psgAtt coarse vol d0` is the one
attenuation write after the ticks -/
theorem chAfter_psg_on (g : G) (c : Ch) (i : Nat) (hk : c.kind = .psg i) (hi : i < 3) (hg : g.err = none)
    (hon : c.keyOn = true) (hs : c.slur = false) (hen : c.enabled = true) (d0 : Nat) (h0 : c.envData[0]? = some d0)
    (hd0 : d0 > 0x0f) :
    atts i (chAfter d g c).2.2 = [psgAtt c.coarse (c.var ev_VOL_FINE) d0 % 16] ∧
      (chAfter d g c).2.1.envPos = 1 ∧ (chAfter d g c).2.1.envDelay = d0 ∧ (chAfter d g c).2.1.keyOn = false ∧
      (chAfter d g c).2.1.slur = false ∧ (chAfter d g c).2.1.envData = c.envData := by
  have hne1 : ¬ d0 = 1 := by omega
  have hne2 : ¬ d0 = 2 := by omega
  have hen' : c.ps.acc.enabled = true := hen
  have hbody : chEnv g c = (g, { c with envPos := 1, envDelay := d0, envKeyoff := false },
      snW 1 i (psgAtt c.coarse (c.var ev_VOL_FINE) d0)) := by
    simp [chEnv, hk, isPsg, psgEnvelope, Ch.enabled, hen', psgEnvRestart, hon, hs, psgEnvBody, h0, psgEnvCmd, hne1, hne2,
      psgEnvValue, hd0, vSetVol, Ch.coarse, Ch.var]
  unfold chAfter
  simp only [hg, Option.isSome_none, Bool.false_eq_true, if_false]
  rw [hbody]
  simp only
  refine ⟨?_, ?_, ?_, ?_, ?_, ?_⟩
  · rw [atts_append, atts_append, atts_append, atts_snW1 i _ hi]
    have hp : atts i (chPitch { c with envPos := 1, envDelay := d0, envKeyoff := false }).2 = [] := by
      unfold chPitch
      simp only
      split
      · simp only [vSetPitch, hk]; exact atts_snW0 i i _ (by omega)
      · rfl
    have hpcm : ∀ g' c', atts i (chKeyOnPcm d g' c').2 = [] := by
      intro g' c'; unfold chKeyOnPcm; split
      · exact atts_keyOnPcm i d g' c'
      · rfl
    have hko : atts i (chKeyOn (chPitch { c with envPos := 1, envDelay := d0, envKeyoff := false }).1).2 = [] :=
      atts_chKeyOn _ i hk
    rw [hp, hpcm, hko]; rfl
  · unfold chKeyOn chPitch; simp only; split <;> rfl
  · unfold chKeyOn chPitch; simp only; split <;> rfl
  · unfold chKeyOn chPitch; simp only [hon]; rfl
  · unfold chKeyOn chPitch; simp only [hon]; rfl
  · unfold chKeyOn chPitch; simp only; split <;> rfl

/-- PSG melody channel that has ended: nothing but (possibly) the tone registers is written after
the ticks -/
theorem chAfter_psg_off (g : G) (c : Ch) (i : Nat) (hk : c.kind = .psg i) (hi : i < 3) (hen : c.enabled = false) :
    atts i (chAfter d g c).2.2 = [] := by
  unfold chAfter
  split
  · rfl
  · have hen' : c.ps.acc.enabled = false := hen
    have hbody : chEnv g c = (g, c, []) := by simp [chEnv, hk, isPsg, psgEnvelope, Ch.enabled, hen']
    rw [hbody]
    simp only [List.nil_append, atts_append]
    have hp : atts i (chPitch c).2 = [] := by
      unfold chPitch
      simp only
      split
      · simp only [vSetPitch, hk]; exact atts_snW0 i i _ (by omega)
      · rfl
    have hpcm : ∀ g' c', atts i (chKeyOnPcm d g' c').2 = [] := by
      intro g' c'; unfold chKeyOnPcm; split
      · exact atts_keyOnPcm i d g' c'
      · rfl
    have hko : atts i (chKeyOn (chPitch c).1).2 = [] := atts_chKeyOn _ i hk
    rw [hp, hpcm, hko]; rfl

end

/-! ### one sequence update: FM with slurs, PSG melody -/
section
variable (d : Data) (song : Song) (root : List Event)

/-- the slur state an update works with: pending from before, or set by a `SLUR` of this update -/
def slurIn (c : Ch) (evs : List Event) : Bool := c.slur || evs.any (fun e => e.type == ev_SLUR)

/-- **One update of an FM channel, slurs allowed.** -/
theorem chUpdate_slur_keys (hpl : PlainHooks song root) (b i : Nat) (hi : i < 3) (hb : b < 2)
    (n : Nat) (g : G) (c : Ch) (hbase : Base root c) (hk : c.kind = .fm b i) (hg : g.err = none) (hkon : c.keyOn = false)
    (s' : PState) (ws : List (List Event)) (hrun : ctRun song root n ⟨c.ps.core, c.ps.acc⟩ = some (s', ws)) :
    (chUpdate d song n g c).1.err.isSome = true ∨
      ((chUpdate d song n g c).2.1.ps.core = s'.core ∧ (chUpdate d song n g c).2.1.ps.acc = s'.acc ∧
       Base root (chUpdate d song n g c).2.1 ∧ (chUpdate d song n g c).2.1.kind = .fm b i ∧
       (chUpdate d song n g c).2.1.keyOn = false ∧
       (∀ x ∈ keys (chUpdate d song n g c).2.2, x = koff b i ∨ x = kon b i) ∧
       (kon b i ∈ keys (chUpdate d song n g c).2.2 →
          slurIn c ws.flatten = false ∧ ∃ e ∈ ws.flatten, e.type = ev_NOTE ∨ e.type = ev_TIE) ∧
       ((∃ e ∈ ws.flatten, e.type = ev_NOTE) → slurIn c ws.flatten = false →
          (keys (chUpdate d song n g c).2.2).getLast? = some (kon b i) ∧ koff b i ∈ keys (chUpdate d song n g c).2.2) ∧
       ((∃ e ∈ ws.flatten, e.type = ev_REST ∨ e.type = ev_END) → koff b i ∈ keys (chUpdate d song n g c).2.2) ∧
       (koff b i ∈ keys (chUpdate d song n g c).2.2 →
          ∃ e ∈ ws.flatten, e.type = ev_TIE ∨ e.type = ev_REST ∨ e.type = ev_END ∨
            (e.type = ev_NOTE ∧ (c.slur = false ∨ c.flag ev_INS = true ∨ ∃ e' ∈ ws.flatten, e'.type = ev_INS))) ∧
       ((∃ e ∈ ws.flatten, e.type = ev_NOTE) → (chUpdate d song n g c).2.1.slur = false) ∧
       ((¬ ∃ e ∈ ws.flatten, e.type = ev_NOTE ∨ e.type = ev_TIE) → (chUpdate d song n g c).2.1.slur = slurIn c ws.flatten)) := by
  have hf := chTicks_g d song root hpl (fun _ _ _ _ _ => trivial) (flagChain d song) n g c hbase hbase.drum hg s' ws hrun
  have hne := koff_ne_kon b i hi hb
  unfold chUpdate
  cases ht : chTicks d song n g c with
  | mk g1 r1 =>
    obtain ⟨c1, o1⟩ := r1
    rw [ht] at hf
    simp only
    rcases hf with herr | ⟨a1, a2, a3, _, a5⟩
    · simp only at herr
      left
      simp [chAfter, herr]
    · simp only at a1 a2 a3 a5
      cases hg1 : g1.err with
      | some x => left; simp [chAfter, hg1]
      | none =>
        have hk1 : c1.kind = .fm b i := a5.kind.trans hk
        obtain ⟨k1, k2, k3, _, _, _⟩ := chAfter_fm_gen d g1 c1 b i hk1 hi hg1
        have hs := chAfter_same d g1 c1
        obtain ⟨f1, f2, f3, f4⟩ := a5.fm b i hk hi
        have hsl : c1.slur = slurIn c ws.flatten := a5.slur
        right
        refine ⟨by rw [hs.ps]; exact a1, by rw [hs.ps]; exact a2, ⟨hs.root.trans a3.root, by rw [hs.ps]; exact a3.err,
          by rw [hs.ps]; exact a3.drum⟩, hs.kind.trans hk1, k2, ?_, ?_, ?_, ?_, ?_, ?_, ?_⟩
        · intro x hx
          rw [keys_append, k1] at hx
          rcases List.mem_append.mp hx with h | h
          · exact Or.inl (f1 x h)
          · split at h <;> simp at h
            exact Or.inr h
        · intro h
          rw [keys_append, k1] at h
          rcases List.mem_append.mp h with h | h
          · exact absurd (f1 _ h).symm hne
          · split at h
            · rename_i hc
              refine ⟨hsl ▸ hc.2, ?_⟩
              rcases a5.onOnly hc.1 with h' | h'
              · rw [hkon] at h'; cases h'
              · exact h'
            · simp at h
        · intro hN hS
          have hon : c1.keyOn = true := a5.onSet hN
          have hs1 : c1.slur = false := hsl.trans hS
          refine ⟨?_, ?_⟩
          · rw [keys_append, k1, if_pos ⟨hon, hs1⟩]; simp
          · rw [keys_append]; exact List.mem_append.mpr (Or.inl (f3 hN hs1))
        · intro h
          rw [keys_append]; exact List.mem_append.mpr (Or.inl (f2 h))
        · intro h
          rw [keys_append, k1] at h
          rcases List.mem_append.mp h with h | h
          · exact f4 (List.ne_nil_of_mem h)
          · split at h <;> simp at h
            exact absurd h hne
        · intro hN
          rw [k3, if_pos (a5.onSet hN)]
        · intro hno
          have hoff : c1.keyOn = false := by
            cases hh : c1.keyOn with
            | false => rfl
            | true =>
              rcases a5.onOnly hh with h' | h'
              · rw [hkon] at h'; cases h'
              · exact absurd h' hno
          rw [k3, hoff]; simpa using hsl

/-- after an update that did not fail no key-on is pending (any channel kind) -/
theorem chUpdate_keyOn_false (n : Nat) (g : G) (c : Ch) :
    (chUpdate d song n g c).1.err.isSome = true ∨ (chUpdate d song n g c).2.1.keyOn = false := by
  unfold chUpdate chAfter
  simp only
  split
  · rename_i h; exact Or.inl h
  · right
    unfold chKeyOn
    simp only
    split
    · rfl
    · rename_i h; simpa using h

/-- **One update of a PSG melody channel.** -/
theorem chUpdate_psg (hpl : PlainHooks song root) (i : Nat) (hi : i < 3)
    (n : Nat) (g : G) (c : Ch) (hbase : Base root c) (hk : c.kind = .psg i) (hg : g.err = none) (hkon : c.keyOn = false)
    (s' : PState) (ws : List (List Event)) (hrun : ctRun song root n ⟨c.ps.core, c.ps.acc⟩ = some (s', ws)) :
    (chUpdate d song n g c).1.err.isSome = true ∨
      ((chUpdate d song n g c).2.1.ps.core = s'.core ∧ (chUpdate d song n g c).2.1.ps.acc = s'.acc ∧
       Base root (chUpdate d song n g c).2.1 ∧ (chUpdate d song n g c).2.1.kind = .psg i ∧
       ((∃ e ∈ ws.flatten, e.type = ev_NOTE) → slurIn c ws.flatten = false → s'.acc.enabled = true →
          ∀ d0, (chUpdate d song n g c).2.1.envData[0]? = some d0 → d0 > 0x0f →
            (atts i (chUpdate d song n g c).2.2).getLast? =
              some (psgAtt (chUpdate d song n g c).2.1.coarse ((chUpdate d song n g c).2.1.var ev_VOL_FINE) d0 % 16) ∧
            (chUpdate d song n g c).2.1.envPos = 1 ∧ (chUpdate d song n g c).2.1.envDelay = d0 ∧
            (chUpdate d song n g c).2.1.keyOn = false ∧ (chUpdate d song n g c).2.1.slur = false) ∧
       (∀ e, ws.flatten.getLast? = some e → e.type = ev_END → s'.acc.enabled = false →
          (atts i (chUpdate d song n g c).2.2).getLast? = some 15)) := by
  have hf := chTicks_g d song root hpl (fun _ _ _ _ _ => trivial) (flagChain d song) n g c hbase hbase.drum hg s' ws hrun
  unfold chUpdate
  cases ht : chTicks d song n g c with
  | mk g1 r1 =>
    obtain ⟨c1, o1⟩ := r1
    rw [ht] at hf
    simp only
    rcases hf with herr | ⟨a1, a2, a3, _, a5⟩
    · simp only at herr
      left
      simp [chAfter, herr]
    · simp only at a1 a2 a3 a5
      cases hg1 : g1.err with
      | some x => left; simp [chAfter, hg1]
      | none =>
        have hk1 : c1.kind = .psg i := a5.kind.trans hk
        have hs := chAfter_same d g1 c1
        have hsl : c1.slur = slurIn c ws.flatten := a5.slur
        right
        refine ⟨by rw [hs.ps]; exact a1, by rw [hs.ps]; exact a2, ⟨hs.root.trans a3.root, by rw [hs.ps]; exact a3.err,
          by rw [hs.ps]; exact a3.drum⟩, hs.kind.trans hk1, ?_, ?_⟩
        · intro hN hS hen d0 h0 hd0
          have hon : c1.keyOn = true := a5.onSet hN
          have hs1 : c1.slur = false := hsl.trans hS
          have hen1 : c1.enabled = true := by show c1.ps.acc.enabled = true; rw [a2]; exact hen
          -- the envelope data is not touched after the ticks
          have hdata : (chAfter d g1 c1).2.1.envData = c1.envData := by
            by_cases h00 : ∃ x, c1.envData[0]? = some x ∧ x > 0x0f
            · obtain ⟨x, hx1, hx2⟩ := h00
              exact (chAfter_psg_on d g1 c1 i hk1 hi hg1 hon hs1 hen1 x hx1 hx2).2.2.2.2.2
            · -- not needed in this branch: derive it from the general shape of `chAfter`
              exfalso
              apply h00
              have hh : (chAfter d g1 c1).2.1.envData = c1.envData := by
                unfold chAfter
                simp only [hg1, Option.isSome_none, Bool.false_eq_true, if_false]
                have : ∀ (gg : G) (cc : Ch) (j : Nat), (psgEnvBody gg cc j).2.1.envData = cc.envData := by
                  intro gg cc j
                  unfold psgEnvBody
                  split
                  · split
                    · rfl
                    · split
                      · rfl
                      · split
                        · rfl
                        · rename_i c' hc'
                          have hc'' : c'.envData = cc.envData := by
                            unfold psgEnvCmd at hc'
                            split at hc'
                            · cases hc'; rfl
                            · split at hc'
                              · split at hc'
                                · cases hc'
                                · cases hc'; rfl
                              · cases hc'; rfl
                          rw [← hc'']
                          unfold psgEnvValue
                          split
                          · rfl
                          · split
                            · rfl
                            · split <;> rfl
                  · rfl
                have henv : (chEnv g1 c1).2.1.envData = c1.envData := by
                  simp only [chEnv, hk1, isPsg, psgEnvelope]
                  split
                  · rfl
                  · rw [this]; unfold psgEnvRestart; split <;> rfl
                unfold chKeyOn chPitch
                simp only
                split <;> exact henv
              rw [hh] at h0
              exact ⟨d0, h0, hd0⟩
          rw [hdata] at h0
          obtain ⟨p1, p2, p3, p4, p5, _⟩ := chAfter_psg_on d g1 c1 i hk1 hi hg1 hon hs1 hen1 d0 h0 hd0
          have hco : (chAfter d g1 c1).2.1.coarse = c1.coarse := by simp only [Ch.coarse]; rw [hs.ps]
          have hva : (chAfter d g1 c1).2.1.var ev_VOL_FINE = c1.var ev_VOL_FINE := by simp only [Ch.var]; rw [hs.ps]
          refine ⟨?_, p2, p3, p4, p5⟩
          rw [atts_append, p1, hco, hva]; simp
        · intro e hl hend hdis
          have hen1 : c1.enabled = false := by show c1.ps.acc.enabled = false; rw [a2]; exact hdis
          rw [atts_append, chAfter_psg_off d g1 c1 i hk1 hi hen1, List.append_nil]
          exact a5.psg i hk hi e hl hend

end

end Ctrmml.MdDriver
