/-
  Helper lemmas for C10: "identical data is stored once, different data is never merged" in the
  linked bank — offsets of the data-bank layout are strictly increasing over non-empty entries,
  and two PCM headers are the same eight bytes exactly when address, pitch code and size agree.
  No property statements here.
-/
import Ctrmml.Proofs.LinkHist
namespace Ctrmml.Linker
open Ctrmml

/-- offset (relative to file position 8) of data-bank entry `i` in the linked sequence bank -/
def entryOffset (l : Linker) (i : Nat) : Option Nat := (layGen l.dataBank (4 + 4 * l.songs.length)).2.1[i]?

theorem layGen_head_le (es : List Bytes) (off j o : Nat) (h : (layGen es off).2.1[j]? = some o) : off ≤ o := by
  induction es generalizing off j with
  | nil => simp [layGen] at h
  | cons a es ih =>
    cases j with
    | zero => simp only [layGen, List.getElem?_cons_zero, Option.some.injEq] at h; omega
    | succ j =>
      simp only [layGen, List.getElem?_cons_succ] at h
      have := ih _ _ h
      have : off + a.length ≤ nextOff off a := by unfold nextOff; split <;> omega
      omega

/-- a later entry starts behind an earlier one -/
theorem layGen_mono (es : List Bytes) (off i j : Nat) (ei : Bytes) (oi oj : Nat) (hij : i < j)
    (hi : es[i]? = some ei) (h1 : (layGen es off).2.1[i]? = some oi) (h2 : (layGen es off).2.1[j]? = some oj) :
    oi + ei.length ≤ oj := by
  induction es generalizing off i j with
  | nil => simp at hi
  | cons a es ih =>
    cases j with
    | zero => omega
    | succ j =>
      simp only [layGen, List.getElem?_cons_succ] at h2
      cases i with
      | zero =>
        simp only [List.getElem?_cons_zero, Option.some.injEq] at hi
        simp only [layGen, List.getElem?_cons_zero, Option.some.injEq] at h1
        subst hi; subst h1
        have := layGen_head_le _ _ _ _ h2
        have : off + a.length ≤ nextOff off a := by unfold nextOff; split <;> omega
        omega
      | succ i =>
        simp only [List.getElem?_cons_succ] at hi
        simp only [layGen, List.getElem?_cons_succ] at h1
        exact ih _ i j (by omega) hi h1 h2

/-- in a duplicate-free data bank two non-empty entries have the same offset exactly when they are the same bytes -/
theorem entryOffset_inj (l : Linker) (hnd : l.dataBank.Nodup) (i j : Nat) (ei ej : Bytes) (ti tj : Nat)
    (hi : l.dataBank[i]? = some ei) (hj : l.dataBank[j]? = some ej) (hni : ei ≠ []) (hnj : ej ≠ [])
    (h1 : entryOffset l i = some ti) (h2 : entryOffset l j = some tj) : (ti = tj ↔ ei = ej) ∧ (ei = ej ↔ i = j) := by
  have hli : 0 < ei.length := List.length_pos_iff.mpr hni
  have hlj : 0 < ej.length := List.length_pos_iff.mpr hnj
  have hil : i < l.dataBank.length := by
    rcases Nat.lt_or_ge i l.dataBank.length with h | h
    · exact h
    · rw [List.getElem?_eq_none h] at hi; cases hi
  have hjl : j < l.dataBank.length := by
    rcases Nat.lt_or_ge j l.dataBank.length with h | h
    · exact h
    · rw [List.getElem?_eq_none h] at hj; cases hj
  have hsame : ei = ej ↔ i = j := by
    constructor
    · intro e
      rw [List.getElem?_eq_getElem hil] at hi
      rw [List.getElem?_eq_getElem hjl] at hj
      simp only [Option.some.injEq] at hi hj
      exact (List.getElem_inj hnd).mp (by rw [hi, hj, e])
    · intro e; subst e; rw [hi] at hj; exact Option.some.inj hj
  refine ⟨?_, hsame⟩
  unfold entryOffset at h1 h2
  constructor
  · intro e
    rcases Nat.lt_trichotomy i j with hlt | heq | hgt
    · have := layGen_mono _ _ i j ei ti tj hlt hi h1 h2; omega
    · exact hsame.mpr heq
    · have := layGen_mono _ _ j i ej tj ti hgt hj h2 h1; omega
  · intro e
    have := hsame.mp e
    subst this
    rw [h1] at h2; exact Option.some.inj h2

theorem be32_inj (a b : Nat) (ha : a < 4294967296) (hb : b < 4294967296) (h : be32 a = be32 b) : a = b := by
  have h1 := nat32be_be32 a ha [] []
  have h2 := nat32be_be32 b hb [] []
  simp only [List.nil_append, List.append_nil, List.length_nil] at h1 h2
  rw [h] at h1
  rw [h1] at h2
  exact Option.some.inj h2

/-- two PCM headers are the same eight bytes exactly when they address the same start, carry the
same pitch code and the same size -/
theorem pcmHeader_inj (s t : Wave.Sample) (hs : s.position + s.start < 16777216) (ht : t.position + t.start < 16777216)
    (hss : s.size < 4294967296) (hts : t.size < 4294967296) :
    pcmHeader s = pcmHeader t ↔
      (s.position + s.start = t.position + t.start ∧ pitchCode s.rate = pitchCode t.rate ∧ s.size = t.size) := by
  obtain ⟨a1, a2, _⟩ := pcmHeader_fields s hs hss
  obtain ⟨b1, b2, _⟩ := pcmHeader_fields t ht hts
  have hp1 := pitchCode_range s.rate
  have hp2 := pitchCode_range t.rate
  constructor
  · intro e
    rw [e] at a1 a2
    rw [a1] at b1; rw [a2] at b2
    simp only [Option.some.injEq] at b1 b2
    refine ⟨by omega, by omega, b2⟩
  · intro ⟨e1, e2, e3⟩
    unfold pcmHeader
    rw [Wave.u32_small (by omega : s.position + s.start < 4294967296), Wave.u32_small (by omega : t.position + t.start < 4294967296), e1, e2, e3]

/-- the linker's pitch code (integer form of the float computation) is the spec's: units of 17500/8 Hz, rounded, within 1..8 -/
theorem pitchCode_eq_pitchOf (rate : Nat) : pitchCode rate = LinkSpec.pitchOf rate := by
  unfold pitchCode LinkSpec.pitchOf
  simp only [Tables.link_pitchDiv, Tables.MDSDRV_PCM_RATE, Tables.link_pitchMax, Tables.link_pitchMin]
  by_cases h : rate * 8 < 17500 * 8
  · simp only [h, if_true]
    have h1 : (2 * 8 * rate + 17500) / (2 * 17500) % 256 = (16 * rate + 17500) / 35000 := by
      have : (2 * 8 * rate + 17500) / (2 * 17500) = (16 * rate + 17500) / 35000 := by congr 1
      rw [this]
      apply Nat.mod_eq_of_lt
      omega
    rw [h1]
  · simp only [h, if_false]
    have : (16 * rate + 17500) / 35000 ≥ 8 := by omega
    split
    · omega
    · split
      · omega
      · split
        · omega
        · split <;> omega

/-! ### what a patch entry serves (used in the statements of the history theorems) -/

/-- The 8-byte data-bank entry `e` is a PCM header that serves `bytes` at `rate`: its first word is
a 24-bit address `p` with the pitch code of `rate` (the spec's `pitchOf`: units of 17500/8 Hz, rounded,
within 1..8) in the top byte, its second word the number of
bytes; the PCM bank `pcm` (what `get_pcm_data` returns) contains `[p, p + size)`, shows exactly
`bytes` there, and the window does not cross a boundary of the `bankSize`-byte banks unless the
sample is larger than a bank. -/
def PcmHeaderServes (e pcm : Bytes) (bankSize rate : Nat) (bytes : Bytes) : Prop :=
  ∃ p, e.length = 8 ∧ LinkSpec.nat32be e 0 = some (p + LinkSpec.pitchOf rate * 16777216) ∧ p < 16777216 ∧
    LinkSpec.nat32be e 4 = some bytes.length ∧
    p + bytes.length ≤ pcm.length ∧ LinkSpec.readAt pcm p bytes.length = bytes ∧ Alloc.bankRule bankSize ⟨p, bytes.length⟩

/-- Patch-table entry `q = (slot address, value)` of a linked song serves what the song's file carried
for that slot: the value is (the low 16 bits of) the index of a data-bank entry which is the carried
data itself (`glob`; bit 15 = the flag of the id) or a PCM header serving the carried sample bytes at
the carried rate in the linker's current PCM bank (`pcmh`). -/
def Serves (l : Linker) (q : Nat × Nat) : Carried → Prop
  | .data addr flag bytes => q.1 = addr ∧
      ∃ idx, q.2 = (if flag then idx % 65536 ||| 0x8000 else idx % 65536) ∧ l.dataBank[idx]? = some bytes
  | .pcm addr hdr bytes => q.1 = addr ∧ bytes.length = hdr.size ∧
      ∃ idx e, q.2 = idx % 65536 ∧ l.dataBank[idx]? = some e ∧ PcmHeaderServes e (getPcmData l) l.wave.bankSize hdr.rate bytes

theorem serves_of_resolves (l : Linker) (rs : List Alloc.Win) (inv : Wave.Inv l.wave rs) (h24 : l.wave.maxSize < 16777216)
    (q : Nat × Nat) (c : Carried) (h : Resolves l.dataBank l.wave q c) : Serves l q c := by
  cases c with
  | data addr flag bytes => exact h
  | pcm addr hdr bytes =>
    obtain ⟨h1, idx, h2, e1, e2, e3, e4, e5, e6, e7⟩ := h
    obtain ⟨w1, w2, w3, w4⟩ := window_facts l rs inv h2 e3 e4
    have hcur := inv.curLe
    have hrl := inv.romLen
    have hlen : bytes.length = h2.size := by
      rw [← e7]; simp only [Alloc.Win.reads, List.length_take, List.length_drop]; omega
    obtain ⟨f1, f2, f3⟩ := pcmHeader_fields h2 (by rw [e4]; omega) (by omega)
    refine ⟨h1, by rw [hlen, e5], idx, _, e1, e2, h2.position, f3, ?_, by omega, ?_, ?_, ?_, ?_⟩
    · rw [f1, e4, e6, Nat.add_zero, pitchCode_eq_pitchOf]
    · rw [f2, hlen]
    · rw [hlen]; exact w2
    · rw [hlen, w3, e7]
    · rw [hlen]; exact w4

end Ctrmml.Linker
