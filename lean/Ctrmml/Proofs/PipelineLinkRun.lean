/-
  Helper lemmas for Properties/C15: the link stage never ends in a foreign outcome on a file the
  strict spec reader `LinkSpec.parseMds` accepts (whose PCM windows are below 1 GiB).
-/
import Ctrmml.Proofs.PipelineLink
namespace Ctrmml.Linker
open Ctrmml Ctrmml.Alloc LinkSpec

/-! ### what the strict reader guarantees about every child of `dblk` -/

/-- a `dblk` child the strict reader accepted: it begins with a 32-bit id, and a `pcmh` child is 36 bytes -/
def ChunkOK (c : Riff.Riff) : Prop :=
  (∃ id, rdLe32 c.data 0 = some id) ∧ (c.type = Tables.link_cc_pcmh → c.data.length = 36)

theorem chunkOK_of_slot (sdata : Nat) (pcmd : Bytes) (e : Bytes × Bytes) (h4 : e.1.length = 4) (sl : Slot)
    (h : slotOf sdata pcmd e = some sl) : ChunkOK (toRiff e) := by
  have tpcmh := type_iff e h4 (cc "pcmh") (by decide) Tables.link_cc_pcmh (by decide)
  unfold slotOf at h
  split at h
  · cases h
  · rename_i id hid
    rw [nat32le_eq] at hid
    refine ⟨⟨id, hid⟩, ?_⟩
    intro hty
    have hp : e.1 = cc "pcmh" := tpcmh.mp hty
    simp only at h
    split at h
    · rename_i hg
      have hg' : e.1 = cc "glob" := by simpa using hg
      rw [hp] at hg'
      exact absurd hg' (by decide)
    · split at h
      · split at h
        · cases h
        · rename_i hlen
          have hlen' : e.2.length = 36 := by simpa using hlen
          exact hlen'
      · cases h

theorem allSome_mem {α β : Type} (f : α → Option β) (es : List α) (r : List β)
    (h : allSome (es.map f) = some r) : ∀ e ∈ es, ∃ b, f e = some b := by
  induction es generalizing r with
  | nil => intro e he; cases he
  | cons e es ih =>
    simp only [List.map_cons] at h
    cases hs : f e with
    | none => rw [hs] at h; simp [allSome] at h
    | some sl =>
      rw [hs] at h
      simp only [allSome] at h
      cases hr : allSome (es.map f) with
      | none => rw [hr] at h; cases h
      | some rest =>
        intro x hx
        rcases List.mem_cons.mp hx with rfl | hx
        · exact ⟨sl, hs⟩
        · exact ih rest hr x hx

/-- `readSong_of_parseMds` once more, exporting what the strict reader checked for every child of `dblk` -/
theorem readSong_chunks_of_parseMds (f : Bytes) (s : SongIn) (h : parseMds f = some s) :
    ∃ rd, readSong f = some rd ∧ ∀ c ∈ rd.chunks, ChunkOK c := by
  unfold parseMds at h
  split at h
  · cases h
  rename_i hhead
  split at h
  · cases h
  rename_i size hsize
  split at h
  · cases h
  rename_i hsz
  split at h
  · cases h
  rename_i cs hcs
  split at h
  · cases h
  rename_i hlen5
  split at h
  · rename_i ver grp seq lst pcmd hver hgrp hseq hlst hpcmd
    split at h
    · cases h
    rename_i hvl
    simp only at h
    split at h
    · cases h
    rename_i hversion
    split at h
    · rename_i sdata es hsdata hes
      split at h
      · cases h
      · rename_i slots hslots
        split at h
        · rename_i hfinal
          rw [nat32le_eq] at hsize
          have hh1 : f.take 4 = cc "RIFF" := by
            rcases Decidable.em (f.take 4 = cc "RIFF") with e | e
            · exact e
            · exact absurd (Or.inl e) hhead
          have hh2 : readAt f 8 4 = cc "MDS0" := by
            rcases Decidable.em (readAt f 8 4 = cc "MDS0") with e | e
            · exact e
            · exact absurd (Or.inr e) hhead
          have hvl1 : ver.length = 2 := by
            rcases Decidable.em (ver.length = 2) with e | e
            · exact e
            · exact absurd (Or.inl e) hvl
          have hdb : lst.take 4 = cc "dblk" := by
            rcases Decidable.em (lst.take 4 = cc "dblk") with e | e
            · exact e
            · exact absurd (Or.inr e) hvl
          obtain ⟨hsd, hseq2, hsdlt⟩ := nat16_getD seq sdata hsdata
          have hrd := readSong_build f size cs es ver grp seq lst pcmd _ _ hh1 hh2 hsize (by omega) (by omega) hcs
            hver hgrp hseq hlst hpcmd hvl1 hdb hversion hseq2 hes
          obtain ⟨_, k2⟩ := chunks_len _ _ _ hes
          refine ⟨_, hrd, ?_⟩
          intro c hc
          simp only [List.mem_map] at hc
          obtain ⟨e, he, rfl⟩ := hc
          obtain ⟨sl, hsl⟩ := allSome_mem _ es slots hslots e he
          exact chunkOK_of_slot sdata pcmd e (k2 e he).1 sl hsl
        · cases h
    · cases h
  · cases h

end Ctrmml.Linker

namespace Ctrmml.Linker
open Ctrmml Ctrmml.Alloc LinkSpec

/-! ### one chunk never fails with a foreign error -/

/-- every sample header of the wave bank has its PCM header in the data bank -/
def HdrIn (a : Acc) : Prop := ∀ s ∈ a.wave.samples, pcmHeader s ∈ a.bank

theorem addUnique_mem (bank : List Bytes) (d : Bytes) :
    d ∈ (addUnique bank d).2 ∧ ∀ e ∈ bank, e ∈ (addUnique bank d).2 := by
  unfold addUnique
  cases h : findUnique bank d with
  | some i => exact ⟨List.mem_of_getElem? (findUnique_some h).1, fun _ h => h⟩
  | none => exact ⟨by simp, fun e he => List.mem_append_left _ he⟩

theorem addGlob_total (sdata seqLen : Nat) (data : Bytes) (a : Acc) (id : Nat) (hid : rdLe32 data 0 = some id) :
    (∃ a', addGlob sdata seqLen data a = .ok a' ∧ a'.wave = a.wave ∧ ∀ e ∈ a.bank, e ∈ a'.bank) ∨
    addGlob sdata seqLen data a = .error .malformed := by
  unfold addGlob
  rw [hid]
  simp only
  split
  · exact Or.inr rfl
  · exact Or.inl ⟨_, rfl, rfl, (addUnique_mem a.bank (data.drop 4)).2⟩

/-- the playback window of a `pcmh` child is below 1 GiB -/
def WinSmall (pcmd : Bytes) (c : Riff.Riff) : Prop :=
  c.type = Tables.link_cc_pcmh → ∀ hdr, Wave.Sample.fromBytes (c.data.drop 4) = some hdr →
    (readAt pcmd (hdr.position + hdr.start) hdr.size).length < 1073741824

theorem addPcmh_total (sdata seqLen : Nat) (pcmd data : Bytes) (a : Acc) (rs : List Win)
    (inv : Wave.Inv a.wave rs) (hH : HdrIn a) (id : Nat) (hid : rdLe32 data 0 = some id) (hlen : data.length = 36)
    (hsm : ∀ hdr, Wave.Sample.fromBytes (data.drop 4) = some hdr →
      (readAt pcmd (hdr.position + hdr.start) hdr.size).length < 1073741824) :
    (∃ a', addPcmh sdata seqLen pcmd data a = .ok a' ∧ HdrIn a') ∨
    addPcmh sdata seqLen pcmd data a = .error .malformed ∨ addPcmh sdata seqLen pcmd data a = .error .noFit := by
  obtain ⟨header, hh, _⟩ := fromBytes_of_len (data.drop 4) (by simp only [List.length_drop]; omega)
  have hsmall := hsm header hh
  unfold addPcmh
  rw [hid]
  simp only
  split
  · exact Or.inr (Or.inl rfl)
  rw [hh]
  simp only
  split
  · exact Or.inr (Or.inl rfl)
  rename_i hfit
  have hdl : ((pcmd.drop (header.position + header.start)).take header.size).length = header.size := by
    simp only [List.length_take, List.length_drop]; omega
  have hsmall' : ((pcmd.drop (header.position + header.start)).take header.size).length < 1073741824 := hsmall
  rcases Wave.addSample_total a.wave rs inv { header with position := 0, start := 0 } _ hsmall' with ⟨⟨w, sidx⟩, hr⟩ | hr | hr
  · rw [hr]
    simp only
    have so := Wave.addSample_step a.wave rs _ _ w sidx inv ⟨hsmall'⟩ hr
    have hcnt := addSample_count _ _ _ _ _ hr
    cases hget : w.samples[sidx]? with
    | none =>
      rw [List.getElem?_eq_none_iff] at hget
      omega
    | some h2 =>
      simp only
      refine Or.inl ⟨_, rfl, ?_⟩
      obtain ⟨u1, u2⟩ := addUnique_mem a.bank (pcmHeader h2)
      intro s hs
      simp only at hs ⊢
      rcases so.grows with ⟨_, g⟩ | ⟨gi, s1, g⟩
      · rw [g] at hs; exact u2 _ (hH s hs)
      · rw [g] at hs
        rcases List.mem_append.mp hs with hs | hs
        · exact u2 _ (hH s hs)
        · simp only [List.mem_singleton] at hs
          subst hs
          rw [g, gi, List.getElem?_append_right (Nat.le_refl _)] at hget
          simp only [Nat.sub_self, List.getElem?_cons_zero, Option.some.injEq] at hget
          subst hget
          exact u1
  · rw [hr]; exact Or.inr (Or.inr rfl)
  · rw [hr]; exact Or.inr (Or.inl rfl)

theorem stepDblk_total (sdata seqLen : Nat) (pcmd : Bytes) (c : Riff.Riff) (a : Acc) (rs : List Win)
    (inv : Wave.Inv a.wave rs) (hH : HdrIn a) (hc : ChunkOK c) (hw : WinSmall pcmd c) :
    (∃ a', stepDblk sdata seqLen pcmd c a = .ok a' ∧ HdrIn a') ∨
    stepDblk sdata seqLen pcmd c a = .error .malformed ∨ stepDblk sdata seqLen pcmd c a = .error .noFit := by
  obtain ⟨⟨id, hid⟩, hlen⟩ := hc
  unfold stepDblk
  split
  · rcases addGlob_total sdata seqLen c.data a id hid with ⟨a', h1, h2, h3⟩ | h
    · refine Or.inl ⟨a', h1, ?_⟩
      intro s hs
      rw [h2] at hs
      exact h3 _ (hH s hs)
    · exact Or.inr (Or.inl h)
  · split
    · rename_i hty
      exact addPcmh_total sdata seqLen pcmd c.data a rs inv hH id hid (hlen hty) (hw hty)
    · exact Or.inl ⟨a, rfl, hH⟩

theorem foldDblk_total (sdata seqLen : Nat) (pcmd : Bytes) (cs : List Riff.Riff) (a : Acc) (rs : List Win)
    (inv : Wave.Inv a.wave rs) (hnd : a.bank.Nodup) (hH : HdrIn a)
    (hc : ∀ c ∈ cs, ChunkOK c) (hw : ∀ c ∈ cs, WinSmall pcmd c) :
    (∃ a', foldDblk sdata seqLen pcmd cs none a = .ok a' ∧ HdrIn a') ∨
    foldDblk sdata seqLen pcmd cs none a = .error .malformed ∨ foldDblk sdata seqLen pcmd cs none a = .error .noFit := by
  induction cs generalizing a rs with
  | nil => exact Or.inl ⟨a, rfl, hH⟩
  | cons c cs ih =>
    unfold foldDblk
    rcases stepDblk_total sdata seqLen pcmd c a rs inv hH (hc c (List.mem_cons_self ..)) (hw c (List.mem_cons_self ..)) with
      ⟨a1, h1, hH1⟩ | h1 | h1
    · rw [h1]
      simp only
      obtain ⟨rs1, inv1, hnd1, _, _⟩ := stepDblk_step sdata seqLen pcmd c a a1 rs inv hnd h1
      exact ih a1 rs1 inv1 hnd1 hH1 (fun x hx => hc x (List.mem_cons_of_mem _ hx)) (fun x hx => hw x (List.mem_cons_of_mem _ hx))
    · rw [h1]; exact Or.inr (Or.inl rfl)
    · rw [h1]; exact Or.inr (Or.inr rfl)

end Ctrmml.Linker

namespace Ctrmml.Linker
open Ctrmml Ctrmml.Alloc LinkSpec

/-! ### get_seq_data never fails with a foreign error on a linker whose patch tables and sample headers point into the data bank -/

theorem layoutData_err (es : List Bytes) (off : Nat) (e : Err) (h : layoutData es off = .error e) : e = .tooBig := by
  induction es generalizing off with
  | nil => simp [layoutData] at h
  | cons x es ih =>
    unfold layoutData at h
    split at h
    · cases h; rfl
    · split at h
      · rename_i x' hx
        cases h
        exact ih _ hx
      · cases h

theorem patchSong_some (offs : List Nat) (p : List (Nat × Nat)) (d : Bytes)
    (h : ∀ q ∈ p, q.2 % 32768 < offs.length) : ∃ d', patchSong offs p d = some d' := by
  induction p generalizing d with
  | nil => exact ⟨d, rfl⟩
  | cons q p ih =>
    obtain ⟨addr, v⟩ := q
    unfold patchSong
    have hv : v % 32768 < offs.length := h (addr, v) (List.mem_cons_self ..)
    rw [List.getElem?_eq_getElem hv]
    simp only
    exact ih _ (fun q hq => h q (List.mem_cons_of_mem _ hq))

theorem layoutSongs_ok (offs : List Nat) (ss : List SeqData) (off : Nat)
    (h : ∀ s ∈ ss, ∀ q ∈ s.patch, q.2 % 32768 < offs.length) : ∃ r, layoutSongs offs ss off = .ok r := by
  induction ss generalizing off with
  | nil => exact ⟨_, rfl⟩
  | cons s ss ih =>
    unfold layoutSongs
    obtain ⟨d, hd⟩ := patchSong_some offs s.patch s.data (h s (List.mem_cons_self ..))
    rw [hd]
    simp only
    obtain ⟨⟨b, os, fin⟩, hr⟩ := ih (nextOff off d) (fun s hs => h s (List.mem_cons_of_mem _ hs))
    rw [hr]
    exact ⟨_, rfl⟩

theorem waveTable_ok (bank : List Bytes) (offs : List Nat) (hl : offs.length = bank.length) (ss : List Wave.Sample)
    (h : ∀ s ∈ ss, pcmHeader s ∈ bank) : ∃ b, waveTable bank offs ss = .ok b := by
  induction ss with
  | nil => exact ⟨_, rfl⟩
  | cons s ss ih =>
    unfold waveTable
    obtain ⟨i, hi⟩ := findUnique_of_mem (h s (List.mem_cons_self ..))
    rw [hi]
    simp only
    have hlt : i < offs.length := by
      have := (findUnique_some hi).1
      rcases Nat.lt_or_ge i bank.length with h | h
      · omega
      · rw [List.getElem?_eq_none h] at this; cases this
    rw [List.getElem?_eq_getElem hlt]
    simp only
    obtain ⟨b, hb⟩ := ih (fun s hs => h s (List.mem_cons_of_mem _ hs))
    rw [hb]
    exact ⟨_, rfl⟩

theorem getSeqData_no_foreign (l : Linker)
    (hp : ∀ sd ∈ l.songs, ∀ q ∈ sd.patch, q.2 % 32768 < l.dataBank.length)
    (hh : ∀ s ∈ l.wave.samples, pcmHeader s ∈ l.dataBank) :
    (∃ b, getSeqData l = .ok b) ∨ getSeqData l = .error .tooBig := by
  unfold getSeqData
  simp only
  cases hd : layoutData l.dataBank (headerSize l.seqCount - Tables.link_ptrBase) with
  | error e =>
    simp only
    rw [layoutData_err _ _ _ hd]
    exact Or.inr rfl
  | ok r =>
    obtain ⟨dbytes, offs, off1⟩ := r
    simp only
    have hlen : offs.length = l.dataBank.length := by
      have := (layoutData_eq _ _ _ hd).1
      have h2 := (layGen_len l.dataBank (headerSize l.seqCount - Tables.link_ptrBase)).2
      rw [← this] at h2
      exact h2
    obtain ⟨⟨sbytes, soffs, off2⟩, hs⟩ := layoutSongs_ok offs l.songs off1 (by rw [hlen]; exact hp)
    rw [hs]
    simp only
    obtain ⟨wt, hw⟩ := waveTable_ok l.dataBank offs hlen l.wave.samples hh
    rw [hw]
    exact Or.inl ⟨_, rfl⟩

/-- a patch entry that resolves points into the data bank -/
theorem resolves_lt (bank : List Bytes) (w : Wave.Bank) (q : Nat × Nat) (c : Carried) (h : Resolves bank w q c) :
    q.2 % 32768 < bank.length := by
  have key : ∀ idx : Nat, ∀ e : Bytes, bank[idx]? = some e → idx < bank.length := by
    intro idx e he
    rcases Nat.lt_or_ge idx bank.length with h | h
    · exact h
    · rw [List.getElem?_eq_none h] at he; cases he
  have hor : ∀ x : Nat, (x % 65536 ||| 32768) % 32768 = x % 32768 := by
    intro x
    apply Nat.eq_of_testBit_eq
    intro i
    have e1 : (32768 : Nat) = 2 ^ 15 := by decide
    have e2 : (65536 : Nat) = 2 ^ 16 := by decide
    rw [e1, e2]
    simp only [Nat.testBit_mod_two_pow, Nat.testBit_or, Nat.testBit_two_pow]
    by_cases hi : i < 15
    · have : i < 16 := by omega
      have h15 : ¬ (15 = i) := by omega
      simp [hi, this, h15]
    · simp [hi]
  cases c with
  | data addr flag bytes =>
    obtain ⟨_, idx, h2, h3⟩ := h
    have := key idx _ h3
    rw [h2]
    split
    · rw [hor]; omega
    · omega
  | pcm addr hdr bytes =>
    obtain ⟨_, idx, h2, e1, e2, _⟩ := h
    have := key idx _ e2
    rw [e1]; omega

theorem all2_resolves_lt (bank : List Bytes) (w : Wave.Bank) (qs : List (Nat × Nat)) (cs : List Carried)
    (h : All2 (Resolves bank w) qs cs) : ∀ q ∈ qs, q.2 % 32768 < bank.length := by
  induction h with
  | nil => intro q hq; cases hq
  | cons h _ ih =>
    intro q hq
    rcases List.mem_cons.mp hq with rfl | hq
    · exact resolves_lt _ _ _ _ h
    · exact ih q hq

end Ctrmml.Linker

namespace Ctrmml.Linker
open Ctrmml Ctrmml.Alloc LinkSpec

/-! ### `add_song` of an accepted file on the fresh linker -/

/-- `add_song` of a file the strict reader accepts, on the linker `MDSDRV_Linker()`: it succeeds with a
linker whose patch tables and sample headers point into the data bank, or raises one of the InputErrors
"malformed" (pointer slot outside the sequence …) / "sample does not fit" -/
theorem runAdd_total (name f : Bytes) (s : SongIn) (h : parseMds f = some s)
    (hpcm : ∀ sl ∈ s.slots, ∀ rate bytes, sl.want = .pcm rate bytes → bytes.length < 1073741824) :
    (∃ l, runOps [.add name f] Linker.new = .ok l ∧
      (∀ sd ∈ l.songs, ∀ q ∈ sd.patch, q.2 % 32768 < l.dataBank.length) ∧
      (∀ s ∈ l.wave.samples, pcmHeader s ∈ l.dataBank)) ∨
    runOps [.add name f] Linker.new = .error .malformed ∨ runOps [.add name f] Linker.new = .error .noFit := by
  obtain ⟨rd, mds, hrd, hof, _, _, hslots, hadd⟩ := C10_reader_agreement f s h
  obtain ⟨rd', hrd', hck⟩ := readSong_chunks_of_parseMds f s h
  rw [hrd] at hrd'
  simp only [Option.some.injEq] at hrd'
  subst hrd'
  have hws : ∀ c ∈ rd.chunks, WinSmall rd.pcmd c := by
    intro c hc hty hdr hhdr
    obtain ⟨⟨id, hid⟩, _⟩ := hck c hc
    have hcar : carriedOf rd.sdata rd.pcmd c =
        some (.pcm (slotAddr rd.sdata id) hdr (readAt rd.pcmd (hdr.position + hdr.start) hdr.size)) := by
      unfold carriedOf
      rw [if_neg (by rw [hty]; decide), if_pos hty, hid, hhdr]
    have hmem : Carried.pcm (slotAddr rd.sdata id) hdr (readAt rd.pcmd (hdr.position + hdr.start) hdr.size) ∈ rd.carried := by
      unfold SongRead.carried
      exact List.mem_filterMap.mpr ⟨c, hc, hcar⟩
    have hsl : toSlot rd.pcmd (.pcm (slotAddr rd.sdata id) hdr (readAt rd.pcmd (hdr.position + hdr.start) hdr.size)) ∈ s.slots := by
      rw [← hslots]
      exact List.mem_map.mpr ⟨_, hmem, rfl⟩
    exact hpcm _ hsl hdr.rate _ rfl
  have hrun : runOps [.add name f] Linker.new =
      match foldDblk rd.sdata rd.seq.length rd.pcmd rd.chunks none
        { bank := Linker.new.dataBank, wave := Linker.new.wave, patch := [] } with
      | .error e => .error e
      | .ok a => .ok { dataBank := a.bank, wave := a.wave,
                       seqBank := seqInsert Linker.new.seqBank (groupKey rd.group) { filename := name, data := rd.seq, patch := a.patch } } := by
    simp only [runOps, hof, hadd]
    cases foldDblk rd.sdata rd.seq.length rd.pcmd rd.chunks none
        { bank := Linker.new.dataBank, wave := Linker.new.wave, patch := [] } <;> rfl
  have I0 := linv_new
  have hH0 : HdrIn { bank := Linker.new.dataBank, wave := Linker.new.wave, patch := [] } := by
    intro s hs
    simp [Linker.new, Wave.Bank.new] at hs
  rcases foldDblk_total rd.sdata rd.seq.length rd.pcmd rd.chunks
      { bank := Linker.new.dataBank, wave := Linker.new.wave, patch := [] } [] I0.wave I0.nodup hH0 hck hws with
    ⟨a', hf, hH'⟩ | hf | hf
  · rw [hf] at hrun
    simp only at hrun
    refine Or.inl ⟨_, hrun, ?_, hH'⟩
    obtain ⟨rs', I', _, _⟩ := runOps_inv _ _ _ [] [] I0 hrun
    intro sd hsd
    obtain ⟨_, _, rd2, _, _, _, _, hall⟩ := I'.songs sd hsd
    exact all2_resolves_lt _ _ _ _ hall
  · rw [hf] at hrun; exact Or.inr (Or.inl hrun)
  · rw [hf] at hrun; exact Or.inr (Or.inr hrun)

end Ctrmml.Linker

namespace Ctrmml.Pipeline
open Ctrmml

/-- **The link stage never ends in a foreign outcome on a file the strict spec reader accepts** (whose PCM
windows are below 1 GiB — the range in which the 32-bit arithmetic of `Wave_Bank::fit_sample` is exact,
`Wave.addSample_total`): `add_song` succeeds or raises "malformed" / "sample does not fit"; `get_seq_data`
succeeds or raises "data too large"; the headers always return. -/
theorem linkStage_routed_of_parse (f : Bytes) (s : LinkSpec.SongIn) (h : LinkSpec.parseMds f = some s)
    (hpcm : ∀ sl ∈ s.slots, ∀ rate bytes, sl.want = .pcm rate bytes → bytes.length < 1073741824) :
    (linkStage f).routed := by
  rw [linkStage_eq_core]
  unfold linkCore
  rcases Linker.runAdd_total (Linker.ascii "in") f s h hpcm with ⟨l, hl, hp, hh⟩ | hl | hl
  · rw [hl]
    simp only
    rcases Linker.getSeqData_no_foreign l hp hh with ⟨b, hb⟩ | hb
    · rw [hb]; trivial
    · rw [hb]; simp [linkErrOut, Out.routed]
  · rw [hl]; simp [linkErrOut, Out.routed]
  · rw [hl]; simp [linkErrOut, Out.routed]

end Ctrmml.Pipeline

namespace Ctrmml.Linker
open Ctrmml Ctrmml.Alloc LinkSpec

/-! ### the PCM windows of a file are no longer than the file -/

theorem chunks_body_le (fuel : Nat) (b : Bytes) (cs : List (Bytes × Bytes)) (h : chunks fuel b = some cs) :
    ∀ c ∈ cs, c.2.length ≤ b.length := by
  induction fuel generalizing b cs with
  | zero => simp [chunks] at h
  | succ fuel ih =>
    cases b with
    | nil => simp only [chunks, Option.some.injEq] at h; subst h; simp
    | cons x xs =>
      obtain ⟨b, hb⟩ : ∃ b, b = x :: xs := ⟨_, rfl⟩
      simp only [chunks] at h
      rw [← hb] at h ⊢
      have hc : (readAt b 8 (0 + 0)).length ≤ b.length ∧ ∀ n, (readAt b 8 n).length ≤ b.length := by
        refine ⟨?_, ?_⟩ <;> (try intro n) <;> simp only [readAt, List.length_take, List.length_drop] <;> omega
      split at h
      · cases h
      · rename_i size hsz
        split at h
        · cases h
        · split at h
          · simp only [Option.some.injEq] at h
            subst h
            intro c hcm
            simp only [List.mem_singleton] at hcm
            subst hcm; exact hc.2 size
          · split at h
            · cases h
            · split at h
              · cases h
              · rename_i rest hrest
                simp only [Option.some.injEq] at h
                subst h
                have i1 := ih _ _ hrest
                intro c hcm
                rcases List.mem_cons.mp hcm with rfl | hcm
                · exact hc.2 size
                · have := i1 c hcm
                  simp only [List.length_drop] at this
                  omega

theorem only_mem (cs : List (Bytes × Bytes)) (n x : Bytes) (h : only cs n = some x) : ∃ c ∈ cs, c.2 = x := by
  unfold only at h
  split at h
  · rename_i c hc
    have hm : c ∈ cs.filter (·.1 == n) := by rw [hc]; simp
    exact ⟨c, (List.mem_filter.mp hm).1, by simpa using h⟩
  · cases h

theorem allSome_mem_rev {α β : Type} (f : α → Option β) (es : List α) (r : List β)
    (h : allSome (es.map f) = some r) : ∀ b ∈ r, ∃ e ∈ es, f e = some b := by
  induction es generalizing r with
  | nil =>
    simp only [List.map_nil, allSome, Option.some.injEq] at h
    subst h; intro b hb; cases hb
  | cons e es ih =>
    simp only [List.map_cons] at h
    cases hs : f e with
    | none => rw [hs] at h; simp [allSome] at h
    | some sl =>
      rw [hs] at h
      simp only [allSome] at h
      cases hr : allSome (es.map f) with
      | none => rw [hr] at h; cases h
      | some rest =>
        rw [hr] at h
        simp only [Option.map_some, Option.some.injEq] at h
        subst h
        intro b hb
        rcases List.mem_cons.mp hb with rfl | hb
        · exact ⟨e, List.mem_cons_self .., hs⟩
        · obtain ⟨e', he', hf'⟩ := ih rest hr b hb
          exact ⟨e', List.mem_cons_of_mem _ he', hf'⟩

theorem slotOf_pcm_len (sdata : Nat) (pcmd : Bytes) (e : Bytes × Bytes) (sl : Slot) (h : slotOf sdata pcmd e = some sl)
    (rate : Nat) (bytes : Bytes) (hw : sl.want = .pcm rate bytes) : bytes.length ≤ pcmd.length := by
  unfold slotOf at h
  split at h
  · cases h
  · simp only at h
    split at h
    · simp only [Option.some.injEq] at h
      subst h
      cases hw
    · split at h
      · split at h
        · cases h
        · split at h
          · split at h
            · cases h
            · simp only [Option.some.injEq] at h
              subst h
              simp only [Want.pcm.injEq] at hw
              rw [← hw.2]
              simp only [readAt, List.length_take, List.length_drop]
              omega
          · cases h
      · cases h

/-- every PCM window the strict reader records is a part of the file's `pcmd` chunk, hence no longer than the file -/
theorem parseMds_pcm_le (f : Bytes) (s : SongIn) (h : parseMds f = some s) :
    ∀ sl ∈ s.slots, ∀ rate bytes, sl.want = .pcm rate bytes → bytes.length ≤ f.length := by
  unfold parseMds at h
  split at h
  · cases h
  split at h
  · cases h
  rename_i size hsize
  split at h
  · cases h
  split at h
  · cases h
  rename_i cs hcs
  split at h
  · cases h
  split at h
  · rename_i ver grp seq lst pcmd hver hgrp hseq hlst hpcmd
    split at h
    · cases h
    simp only at h
    split at h
    · cases h
    split at h
    · rename_i sdata es hsdata hes
      split at h
      · cases h
      · rename_i slots hslots
        split at h
        · simp only [Option.some.injEq] at h
          subst h
          simp only
          obtain ⟨c, hc, hc2⟩ := only_mem cs _ _ hpcmd
          have h1 := chunks_body_le _ _ _ hcs c hc
          rw [hc2] at h1
          have h2 : (readAt f 12 (size - 4)).length ≤ f.length := by
            simp only [readAt, List.length_take, List.length_drop]; omega
          intro sl hsl rate bytes hw
          obtain ⟨e, _, he⟩ := allSome_mem_rev _ es slots hslots sl hsl
          have := slotOf_pcm_len sdata pcmd e sl he rate bytes hw
          omega
        · cases h
    · cases h
  · cases h

end Ctrmml.Linker

namespace Ctrmml.Pipeline
open Ctrmml

/-- the same for every accepted file below 1 GiB: no hypothesis on the slots -/
theorem linkStage_routed_of_parse_small (f : Bytes) (s : LinkSpec.SongIn) (h : LinkSpec.parseMds f = some s)
    (hf : f.length < 1073741824) : (linkStage f).routed :=
  linkStage_routed_of_parse f s h (fun sl hsl rate bytes hw =>
    Nat.lt_of_le_of_lt (Linker.parseMds_pcm_le f s h sl hsl rate bytes hw) hf)

/-- the hypotheses of both theorems are met by the example file of C10 with two PCM entries and one data
entry (the conclusion is not instantiated here: elaborating an application whose result type is
`(linkStage <literal>).routed` makes the elaborator unfold `Out.routed` and evaluate the linker) -/
example : ∃ s, LinkSpec.parseMds Linker.exFileB = some s ∧ Linker.exFileB.length < 1073741824 ∧ s.slots.length = 3 ∧
    (∀ sl ∈ s.slots, ∀ rate bytes, sl.want = .pcm rate bytes → bytes.length < 1073741824) := by
  have hB : (LinkSpec.parseMds Linker.exFileB).isSome = true := by decide +kernel
  have hs := Linker.some_getD (LinkSpec.parseMds Linker.exFileB) ⟨[], [], []⟩ hB
  have hl : Linker.exFileB.length < 1073741824 := by
    have : Linker.exFileB.length = 202 := by decide +kernel
    omega
  refine ⟨_, hs, hl, by decide +kernel, ?_⟩
  intro sl hsl rate bytes hw
  exact Nat.lt_of_le_of_lt (Linker.parseMds_pcm_le _ _ hs sl hsl rate bytes hw) hl

end Ctrmml.Pipeline

namespace Ctrmml.Linker
open Ctrmml Ctrmml.Alloc LinkSpec

/-! ### why the bound on the PCM windows is there -/

/-- why the bound on the PCM windows cannot simply be dropped (in the model, and by reading in wave.cpp):
`Wave_Bank::fit_sample` tests `start + header.size > end` in `uint32_t`.  In a bank of the linker's
geometry that already holds 256 bytes, a sample of 2^32 − 256 bytes gives `256 + size = 0 (mod 2^32)`,
the test passes, and `add_sample` copies 2^32 − 256 bytes into the 4161536-byte rom: `oob`.
(Through `mdslink` this needs an MDS file of about 4 GiB.) -/
theorem addSample_wrap_oob (b : Wave.Bank) (hm : b.maxSize = 4161536) (hr : b.rom.length = 4161536)
    (hb : b.bankSize = 32768) (hc : b.currentSize = 256) (hg : b.gaps = [])
    (h : Wave.Sample) (data : Bytes) (hs : h.start = 0) (hz : h.size = 4294967040) (hd : data.length = 4294967040) :
    Wave.addSample b h data = .error .oob := by
  have hdup : Wave.findDuplicate b h data = none := by
    unfold Wave.findDuplicate
    rw [List.findIdx?_eq_none_iff]
    intro x _
    simp only [Wave.dupTest, hr, hd]
    have : ¬ (x.position + 4294967040 ≤ 4161536) := by omega
    simp [this]
  have hgap : Wave.findGap b h.size = none := by
    simp [Wave.findGap, hg, Wave.findGapGo]
  have hfs : Wave.fitStart 32768 4294967040 256 = 256 := by decide
  have hfit : Wave.fitSample 32768 4294967040 256 4161536 = 256 := by
    unfold Wave.fitSample
    rw [hfs]
    decide
  have hp : Wave.placeFresh b h.size = (256, 256, []) := by
    unfold Wave.placeFresh
    rw [hgap]
    simp only [hc, hb, hm, hz, hg]
    rw [show Wave.u32 256 = 256 by decide, show Wave.u32 4161536 = 4161536 by decide, hfit]
  unfold Wave.addSample
  rw [if_neg (by omega), if_neg (by omega), hdup]
  simp only
  unfold Wave.addFresh
  simp only [hp]
  rw [if_neg (by decide), if_pos (Or.inr (by omega))]

/-- a `pcmh` entry: id 0, position 0, start 0, size 0xffffff00, every other field 0 -/
def wrapPcmh : Bytes := [0, 0, 0, 0, 0, 0, 0, 0, 0, 0, 0, 0, 0, 255, 255, 255] ++ List.replicate 20 0

/-- … and the same one level up: the `pcmh` entry `wrapPcmh` of a song whose `pcmd` chunk has 2^32 − 256
bytes, added to a linker whose wave bank already holds 256 bytes, ends `add_song` with the foreign outcome
`oob` (`linkErrOut .oob = .foreign "ub:out-of-bounds"`) -/
theorem addPcmh_wrap_oob (a : Acc) (hm : a.wave.maxSize = 4161536) (hr : a.wave.rom.length = 4161536)
    (hb : a.wave.bankSize = 32768) (hc : a.wave.currentSize = 256) (hg : a.wave.gaps = [])
    (sdata seqLen : Nat) (hin : sdata + 2 ≤ seqLen) (pcmd : Bytes) (hp : pcmd.length = 4294967040) :
    addPcmh sdata seqLen pcmd wrapPcmh a = .error .oob := by
  have h1 : rdLe32 wrapPcmh 0 = some 0 := by decide +kernel
  have h2 : Wave.Sample.fromBytes (wrapPcmh.drop 4) = some ⟨0, 0, 4294967040, 0, 0, 0, 0, 0⟩ := by decide +kernel
  have h3 : slotInside sdata 0 seqLen = true := by
    unfold slotInside
    simp only [decide_eq_true_eq]
    omega
  unfold addPcmh
  rw [h1]
  simp only [h3, h2, Bool.not_true, Bool.false_eq_true, if_false]
  rw [if_neg (by omega)]
  have hlen : ((pcmd.drop (0 + 0)).take 4294967040).length = 4294967040 := by
    simp only [List.length_take, List.length_drop]; omega
  rw [addSample_wrap_oob a.wave hm hr hb hc hg _ _ rfl rfl hlen]
  rfl
/-- the bank state of `addSample_wrap_oob` satisfies the allocator invariant (it is the linker's bank
after one 256-byte sample) -/
example : ∃ (b : Wave.Bank) (rs : List Win), Wave.Inv b rs ∧ b.maxSize = 4161536 ∧ b.rom.length = 4161536 ∧
    b.bankSize = 32768 ∧ b.currentSize = 256 ∧ b.gaps = [] := by
  refine ⟨{ maxSize := 4161536, currentSize := 256, bankSize := 32768, rom := List.replicate 4161536 0, gaps := [],
            samples := [⟨0, 0, 256, 0, 0, 8000, 0, 0⟩] }, [⟨0, 256⟩], ?_, rfl, List.length_replicate .., rfl, rfl, rfl⟩
  refine ⟨List.length_replicate .., by simp, by simp, by simp, by simp, by simp, ?_, by simp [total], ?_, ?_⟩
  · intro x
    simp only [List.map_nil, List.append_nil, cover, List.map_cons, List.sum_cons, List.sum_nil]
    by_cases hx : x < 256
    · simp [hx]
    · simp [hx]
  · intro s hs
    simp only [List.mem_singleton] at hs
    subst hs
    exact ⟨⟨0, 256⟩, by simp, by simp, by simp⟩
  · intro s hs
    simp only [List.mem_singleton] at hs
    subst hs
    decide
end Ctrmml.Linker
