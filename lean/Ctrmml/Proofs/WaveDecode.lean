/-
  Helper lemmas for `C14_wav_decode` (no property statements): reading inside a segment of
  the file, one step of the chunk loop per chunk, the frame decoder on the data bytes of a
  recording, and the walk over a list of skipped chunks.
-/
import Ctrmml.Proofs.WaveReader
namespace Ctrmml.Wave
open Ctrmml Ctrmml.Alloc

/-! ### reads inside a segment -/

theorem drop_mid (A X B : Bytes) (k : Nat) (hk : k ≤ X.length) :
    (A ++ X ++ B).drop (A.length + k) = X.drop k ++ B := by
  rw [List.append_assoc, List.drop_append, List.drop_eq_nil_of_le (by omega), List.nil_append]
  have : A.length + k - A.length = k := by omega
  rw [this, List.drop_append_of_le_length hk]

theorem rd32_mid (A X B : Bytes) (k : Nat) (hk : k + 4 ≤ X.length) :
    rd32 (A ++ X ++ B) (A.length + k) = rd32 X k := by
  unfold rd32 rdLe32
  rw [drop_mid A X B k (by omega)]
  have hl : 4 ≤ (X.drop k).length := by simp; omega
  match hd : X.drop k, hl with
  | b0 :: b1 :: b2 :: b3 :: t, _ => rfl

theorem rd16_mid (A X B : Bytes) (k : Nat) (hk : k + 2 ≤ X.length) :
    rd16 (A ++ X ++ B) (A.length + k) = rd16 X k := by
  unfold rd16 rdLe16
  rw [drop_mid A X B k (by omega)]
  have hl : 2 ≤ (X.drop k).length := by simp; omega
  match hd : X.drop k, hl with
  | b0 :: b1 :: t, _ => rfl

theorem chunk_length (id : Nat) (body : Bytes) : (chunk id body).length = 8 + body.length + body.length % 2 := by
  unfold chunk
  rcases Nat.mod_two_eq_zero_or_one body.length with h | h <;> simp [h] <;> omega

theorem rd32_le32_at0 (n : Nat) (h : n < 4294967296) (t : Bytes) : rd32 (le32 n ++ t) 0 = .ok n := by
  have := rdLe32_le32 n h [] t
  simp only [List.nil_append, List.length_nil] at this
  simp [rd32, this]

theorem chunk_id (id : Nat) (body : Bytes) (h : id < 4294967296) : rd32 (chunk id body) 0 = .ok id := by
  unfold chunk
  rw [List.append_assoc, List.append_assoc]
  exact rd32_le32_at0 id h _

theorem chunk_size (id : Nat) (body : Bytes) (h : body.length < 4294967296) : rd32 (chunk id body) 4 = .ok body.length := by
  unfold chunk
  have := rdLe32_le32 body.length h (le32 id) (body ++ (if body.length % 2 = 1 then [0] else []))
  simp only [le32_length] at this
  simp only [rd32]
  rw [show le32 id ++ le32 body.length ++ body ++ (if body.length % 2 = 1 then [0] else []) =
        le32 id ++ le32 body.length ++ (body ++ (if body.length % 2 = 1 then [0] else [])) by simp]
  rw [this]

/-! ### one step of the chunk loop -/

/-- if the chunk at an even position `A.length` is parsed to `w'`, the loop continues behind
the chunk (and its pad byte) with `w'` -/
theorem readChunks_step (A B : Bytes) (id : Nat) (body : Bytes) (w w' : WaveFile) (n : Nat)
    (hid : id < 4294967296) (heven : A.length % 2 = 0)
    (hsmall : (A ++ chunk id body ++ B).length < 4294967295)
    (hparse : parseChunk (A ++ chunk id body ++ B) A.length w = .ok (some w')) :
    readChunks (A ++ chunk id body ++ B) (A ++ chunk id body ++ B).length (n + 1) A.length w =
    readChunks (A ++ chunk id body ++ B) (A ++ chunk id body ++ B).length n (A.length + (chunk id body).length) w' := by
  have hcl := chunk_length id body
  have hlen : (A ++ chunk id body ++ B).length = A.length + (chunk id body).length + B.length := by
    simp only [List.length_append]
  have hsz : rd32 (A ++ chunk id body ++ B) (A.length + 4) = .ok body.length := by
    rw [rd32_mid A (chunk id body) B 4 (by omega)]
    exact chunk_size id body (by omega)
  generalize hf : A ++ chunk id body ++ B = f at *
  conv => lhs; unfold readChunks
  have hc : A.length < f.length ∧ A.length < f.length ∧ f.length - A.length ≥ 8 := by omega
  simp only [hc, and_self, if_true, hsz]
  have hnb : ¬ body.length > f.length - A.length - 8 := by omega
  simp only [hnb, if_false, hparse]
  have e1 : u32 (A.length + (body.length + 8)) = A.length + (body.length + 8) := u32_small (by omega)
  rw [e1]
  congr 1
  rcases Nat.mod_two_eq_zero_or_one body.length with h | h
  · have : ¬ (A.length + (body.length + 8)) % 2 = 1 := by omega
    simp only [this, if_false]; omega
  · have : (A.length + (body.length + 8)) % 2 = 1 := by omega
    simp only [this, if_true]
    rw [u32_small (by omega)]; omega

/-- header reads of the chunk at `A.length` -/
theorem parseChunk_hdr (A B : Bytes) (id : Nat) (body : Bytes) (w : WaveFile)
    (hid : id < 4294967296) (hb : body.length < 4294967296) :
    parseChunk (A ++ chunk id body ++ B) A.length w =
      (if id = Tables.wave_id_fmt then parseFmt (A ++ chunk id body ++ B) A.length body.length w
       else if id = Tables.wave_id_data then parseData (A ++ chunk id body ++ B) A.length body.length w
       else if id = Tables.wave_id_smpl then parseSmpl (A ++ chunk id body ++ B) A.length body.length w
       else .ok (some w)) := by
  have hcl := chunk_length id body
  have h0 : rd32 (A ++ chunk id body ++ B) A.length = .ok id := by
    have := rd32_mid A (chunk id body) B 0 (by omega)
    rw [Nat.add_zero] at this; rw [this]; exact chunk_id id body hid
  have h4 : rd32 (A ++ chunk id body ++ B) (A.length + 4) = .ok body.length := by
    rw [rd32_mid A (chunk id body) B 4 (by omega)]; exact chunk_size id body hb
  unfold parseChunk
  simp only [h0, h4]

theorem others_length_even (os : List Other) : (others os).length % 2 = 0 := by
  induction os with
  | nil => rfl
  | cons o os ih =>
    simp only [others, List.flatMap_cons, List.length_append] at ih ⊢
    have := chunk_length o.id o.body
    omega

/-- walking over skipped chunks: one unit of fuel each, state unchanged -/
theorem readChunks_others (os : List Other) (hos : ∀ o ∈ os, o.Wf) (A B : Bytes) (w : WaveFile) (n : Nat)
    (heven : A.length % 2 = 0) (hsmall : (A ++ others os ++ B).length < 4294967295) :
    readChunks (A ++ others os ++ B) (A ++ others os ++ B).length (n + os.length) A.length w =
    readChunks (A ++ others os ++ B) (A ++ others os ++ B).length n (A.length + (others os).length) w := by
  induction os generalizing A n with
  | nil => simp [others]
  | cons o os ih =>
    obtain ⟨h1, h2, h3, h4⟩ := hos o (List.mem_cons_self)
    have hsplit : A ++ others (o :: os) ++ B = A ++ chunk o.id o.body ++ (others os ++ B) := by
      simp [others, List.append_assoc]
    have hsplit2 : A ++ others (o :: os) ++ B = (A ++ chunk o.id o.body) ++ others os ++ B := by
      simp [others, List.append_assoc]
    have hcl := chunk_length o.id o.body
    have hlenb : o.body.length < 4294967296 := by
      rw [hsplit] at hsmall; simp only [List.length_append] at hsmall; omega
    have hparse : parseChunk (A ++ chunk o.id o.body ++ (others os ++ B)) A.length w = .ok (some w) := by
      rw [parseChunk_hdr A _ o.id o.body w h1 hlenb]
      simp only [idFmt, idData, idSmpl] at h2 h3 h4
      simp [Tables.wave_id_fmt, Tables.wave_id_data, Tables.wave_id_smpl, h2, h3, h4]
    have hstep := readChunks_step A (others os ++ B) o.id o.body w w (n + os.length) h1 heven (by rw [← hsplit]; exact hsmall) hparse
    have e : n + (o :: os).length = n + os.length + 1 := by simp; omega
    rw [e, hsplit, hstep, ← hsplit, hsplit2]
    have hA' : (A ++ chunk o.id o.body).length = A.length + (chunk o.id o.body).length := by simp
    have := ih (fun o' ho' => hos o' (List.mem_cons_of_mem _ ho')) (A ++ chunk o.id o.body) n
      (by rw [hA']; omega) (by rw [← hsplit2]; exact hsmall)
    rw [hA'] at this
    rw [this]
    congr 1
    simp only [others, List.flatMap_cons, List.length_append]
    omega

/-! ### the fmt chunk -/

theorem fmt_reads (p : Pcm) (hp : p.Wf) :
    rd16 (chunk idFmt p.fmtBody) 8 = .ok 1 ∧ rd16 (chunk idFmt p.fmtBody) 10 = .ok p.channels ∧
    rd16 (chunk idFmt p.fmtBody) 22 = .ok p.bits ∧ rd32 (chunk idFmt p.fmtBody) 12 = .ok p.rate ∧
    p.fmtBody.length = 16 := by
  have hc : p.channels < 65536 := by rcases hp.channels with h | h <;> omega
  have hb : p.bits < 65536 := by rcases hp.bits with h | h <;> omega
  have hr := hp.rate
  refine ⟨?_, ?_, ?_, ?_, by simp [Pcm.fmtBody, le16]⟩
  · simp [chunk, Pcm.fmtBody, le32, le16, rd16, rdLe16, byteOf_toNat]
  · simp [chunk, Pcm.fmtBody, le32, le16, rd16, rdLe16, byteOf_toNat]; omega
  · simp [chunk, Pcm.fmtBody, le32, le16, rd16, rdLe16, byteOf_toNat]; omega
  · simp [chunk, Pcm.fmtBody, le32, le16, rd32, rdLe32, byteOf_toNat]; omega

theorem parseFmt_canon (A B : Bytes) (p : Pcm) (hp : p.Wf) (w : WaveFile) :
    parseFmt (A ++ chunk idFmt p.fmtBody ++ B) A.length p.fmtBody.length w =
      .ok (some { w with stype := 1, channels := p.channels, sbits := p.bits, step := p.channels * (p.bits / 8),
                         srate := p.rate, slength := 0, ndata := p.channels }) := by
  obtain ⟨r1, r2, r3, r4, hl⟩ := fmt_reads p hp
  have hcl := chunk_length idFmt p.fmtBody
  unfold parseFmt
  rw [rd16_mid A _ B 8 (by omega), rd16_mid A _ B 10 (by omega), rd16_mid A _ B 22 (by omega), rd32_mid A _ B 12 (by omega),
    r1, r2, r3, r4, hl]
  simp only [Tables.wave_fmtMin, show ¬ (16 < 16) by omega, if_false]
  have hstep : p.bits * p.channels / 8 % 65536 = p.channels * (p.bits / 8) := by
    rcases hp.bits with h | h <;> rcases hp.channels with h' | h' <;> simp [h, h']
  rw [hstep]
  have hok : ¬ ((1 : Nat) ≠ 1 ∨ p.channels > 2 ∨ p.channels * (p.bits / 8) = 0 ∨ (p.bits ≠ 8 ∧ p.bits ≠ 16)) := by
    rcases hp.bits with h | h <;> rcases hp.channels with h' | h' <;> simp [h, h']
  simp only [hok, if_false]

/-! ### the data chunk -/

/-- what the reader stores for one frame: the first sample, as 16 raw bits -/
def frameRaw (bits : Nat) (fr : List Nat) : Nat :=
  if bits = 8 then ((fr.headD 0 ^^^ 0x80) * 256) % 65536 else fr.headD 0

def framesBytes (p : Pcm) (frs : List (List Nat)) : Bytes := frs.flatMap fun f => f.flatMap p.sampleBytes

theorem decodeFrames_canon (p : Pcm) (hb : p.bits = 8 ∨ p.bits = 16) (hc : p.channels = 1 ∨ p.channels = 2)
    (frs : List (List Nat)) (hfr : ∀ f ∈ frs, f.length = p.channels ∧ ∀ v ∈ f, v < 2 ^ p.bits)
    (tail : Bytes) (acc : List Nat) (fuel : Nat) (hfuel : frs.length < fuel) :
    decodeFrames p.bits (p.channels * (p.bits / 8)) fuel (framesBytes p frs ++ tail) (framesBytes p frs).length acc =
      .ok (acc.reverse ++ frs.map (frameRaw p.bits)) := by
  induction frs generalizing acc fuel with
  | nil =>
    cases fuel with
    | zero => simp at hfuel
    | succ fuel =>
      unfold decodeFrames
      have : 0 < p.channels * (p.bits / 8) := by rcases hb with h | h <;> rcases hc with h' | h' <;> simp [h, h']
      simp [framesBytes, this]
  | cons fr frs ih =>
    cases fuel with
    | zero => simp at hfuel
    | succ fuel =>
      obtain ⟨hlen, hv⟩ := hfr fr (List.mem_cons_self)
      have ih' := fun acc' => ih (fun f hf => hfr f (List.mem_cons_of_mem _ hf)) acc' fuel (by simpa using hfuel)
      have hsplit : framesBytes p (fr :: frs) = fr.flatMap p.sampleBytes ++ framesBytes p frs := by simp [framesBytes]
      rw [hsplit]
      unfold decodeFrames
      rcases hb with h8 | h16 <;> rcases hc with h1 | h2
      · -- 8 bit mono
        match fr, hlen, hv with
        | [a], _, hv =>
          have ha : a < 256 := by have := hv a (by simp); rw [h8] at this; simpa using this
          have hat : (byteOf a).toNat = a := by rw [byteOf_toNat]; omega
          simp only [h8, h1, Pcm.sampleBytes, List.flatMap_cons, List.flatMap_nil, List.append_nil, if_true]
          simp only [List.cons_append, List.nil_append, List.length_cons, List.length_append]
          have hnl : ¬ (framesBytes p frs).length + 1 < 1 * (8 / 8) := by omega
          simp only [hnl, if_false]
          have := ih' (((a ^^^ 0x80) * 256) % 65536 :: acc)
          simp only [h8, h1] at this
          simp only [show 1 * (8 / 8) - 1 = 0 by decide, List.drop_zero, hat]
          rw [show (framesBytes p frs).length + 1 - 1 * (8 / 8) = (framesBytes p frs).length by omega, this]
          simp [frameRaw]
        | [], hlen, _ => simp [h1] at hlen
        | _ :: _ :: _, hlen, _ => simp [h1] at hlen
      · -- 8 bit stereo
        match fr, hlen, hv with
        | [a, b], _, hv =>
          have ha : a < 256 := by have := hv a (by simp); rw [h8] at this; simpa using this
          have hat : (byteOf a).toNat = a := by rw [byteOf_toNat]; omega
          simp only [h8, h2, Pcm.sampleBytes, List.flatMap_cons, List.flatMap_nil, List.append_nil, if_true]
          simp only [List.cons_append, List.nil_append, List.length_cons, List.length_append]
          have hnl : ¬ (framesBytes p frs).length + 1 + 1 < 2 * (8 / 8) := by omega
          simp only [hnl, if_false]
          have := ih' (((a ^^^ 0x80) * 256) % 65536 :: acc)
          simp only [h8, h2] at this
          simp only [show 2 * (8 / 8) - 1 = 1 by decide, List.drop_succ_cons, List.drop_zero, hat]
          rw [show (framesBytes p frs).length + 1 + 1 - 2 * (8 / 8) = (framesBytes p frs).length by omega, this]
          simp [frameRaw]
        | [], hlen, _ => simp [h2] at hlen
        | [_], hlen, _ => simp [h2] at hlen
        | _ :: _ :: _ :: _, hlen, _ => simp [h2] at hlen
      · -- 16 bit mono
        match fr, hlen, hv with
        | [a], _, hv =>
          have ha : a < 65536 := by have := hv a (by simp); rw [h16] at this; simpa using this
          have hat : (byteOf a).toNat + 256 * (byteOf (a / 256)).toNat = a := by rw [byteOf_toNat, byteOf_toNat]; omega
          simp only [h16, h1, Pcm.sampleBytes, List.flatMap_cons, List.flatMap_nil, List.append_nil, le16,
            show ¬ (16 = 8) by decide, if_false, if_true]
          simp only [List.cons_append, List.nil_append, List.length_cons, List.length_append]
          have hnl : ¬ (framesBytes p frs).length + 1 + 1 < 1 * (16 / 8) := by omega
          simp only [hnl, if_false]
          have := ih' (a :: acc)
          simp only [h16, h1] at this
          simp only [show 1 * (16 / 8) - 1 = 1 by decide, List.drop_succ_cons, List.drop_zero, hat]
          rw [show (framesBytes p frs).length + 1 + 1 - 1 * (16 / 8) = (framesBytes p frs).length by omega, this]
          simp [frameRaw]
        | [], hlen, _ => simp [h1] at hlen
        | _ :: _ :: _, hlen, _ => simp [h1] at hlen
      · -- 16 bit stereo
        match fr, hlen, hv with
        | [a, b], _, hv =>
          have ha : a < 65536 := by have := hv a (by simp); rw [h16] at this; simpa using this
          have hat : (byteOf a).toNat + 256 * (byteOf (a / 256)).toNat = a := by rw [byteOf_toNat, byteOf_toNat]; omega
          simp only [h16, h2, Pcm.sampleBytes, List.flatMap_cons, List.flatMap_nil, List.append_nil, le16,
            show ¬ (16 = 8) by decide, if_false, if_true]
          simp only [List.cons_append, List.nil_append, List.length_cons, List.length_append]
          have hnl : ¬ (framesBytes p frs).length + 1 + 1 + 1 + 1 < 2 * (16 / 8) := by omega
          simp only [hnl, if_false]
          have := ih' (a :: acc)
          simp only [h16, h2] at this
          simp only [show 2 * (16 / 8) - 1 = 3 by decide, List.drop_succ_cons, List.drop_zero, hat]
          rw [show (framesBytes p frs).length + 1 + 1 + 1 + 1 - 2 * (16 / 8) = (framesBytes p frs).length by omega, this]
          simp [frameRaw]
        | [], hlen, _ => simp [h2] at hlen
        | [_], hlen, _ => simp [h2] at hlen
        | _ :: _ :: _ :: _, hlen, _ => simp [h2] at hlen

theorem framesBytes_length (p : Pcm) (hb : p.bits = 8 ∨ p.bits = 16)
    (frs : List (List Nat)) (hfr : ∀ f ∈ frs, f.length = p.channels) :
    (framesBytes p frs).length = frs.length * (p.channels * (p.bits / 8)) := by
  induction frs with
  | nil => simp [framesBytes]
  | cons fr frs ih =>
    have ih' := ih (fun f hf => hfr f (List.mem_cons_of_mem _ hf))
    have hl := hfr fr (List.mem_cons_self)
    have hfrl : (fr.flatMap p.sampleBytes).length = p.channels * (p.bits / 8) := by
      rw [← hl]
      clear hl ih ih' hfr
      induction fr with
      | nil => simp
      | cons a fr ih2 =>
        simp only [List.flatMap_cons, List.length_append, List.length_cons, ih2]
        rcases hb with h | h <;> simp [Pcm.sampleBytes, h, le16, Nat.succ_mul] <;> omega
    simp only [framesBytes, List.flatMap_cons, List.length_append, List.length_cons] at ih' ⊢
    rw [ih', hfrl, Nat.succ_mul]; omega

theorem dataBytes_eq (p : Pcm) : p.dataBytes = framesBytes p p.frames := rfl

theorem parseData_canon (A B : Bytes) (p : Pcm) (hp : p.Wf) (w : WaveFile)
    (hs : w.sbits = p.bits) (hst : w.step = p.channels * (p.bits / 8)) :
    parseData (A ++ chunk idData p.dataBytes ++ B) A.length p.dataBytes.length w =
      .ok (some { w with data0 := w.data0 ++ p.frames.map (frameRaw p.bits),
                         slength := u32 (w.data0 ++ p.frames.map (frameRaw p.bits)).length, lstart := 0, lend := 0 }) := by
  have hpos : 0 < p.channels * (p.bits / 8) := by
    rcases hp.bits with h | h <;> rcases hp.channels with h' | h' <;> simp [h, h']
  have hlen := framesBytes_length p hp.bits p.frames (fun f hf => (hp.frames f hf).1)
  have hcl := chunk_length idData p.dataBytes
  unfold parseData
  have : ¬ w.step = 0 := by omega
  simp only [this, if_false]
  have hdrop : (A ++ chunk idData p.dataBytes ++ B).drop (A.length + 8) =
      framesBytes p p.frames ++ ((if p.dataBytes.length % 2 = 1 then [0] else []) ++ B) := by
    rw [drop_mid A _ B 8 (by omega)]
    simp [chunk, dataBytes_eq, List.append_assoc, le32]
  rw [hdrop, hs, hst]
  have hfuel : p.frames.length < p.dataBytes.length / (p.channels * (p.bits / 8)) + 1 := by
    rw [dataBytes_eq, hlen, Nat.mul_div_cancel _ hpos]; omega
  rw [dataBytes_eq]
  rw [decodeFrames_canon p hp.bits hp.channels p.frames hp.frames _ [] _ (by rw [← dataBytes_eq]; exact hfuel)]
  simp

theorem smpl_reads (note : Nat) (hn : note < 4294967296) :
    rd32 (chunk idSmpl (smplBody note)) 0x14 = .ok note ∧ (smplBody note).length = 36 := by
  refine ⟨?_, by simp [smplBody]⟩
  simp [chunk, smplBody, le32, rd32, rdLe32, byteOf_toNat]; omega

theorem parseSmpl_canon (A B : Bytes) (note : Nat) (hn : note < 4294967296) (w : WaveFile) :
    parseSmpl (A ++ chunk idSmpl (smplBody note) ++ B) A.length (smplBody note).length w =
      .ok (some { w with useSmpl := true, transpose := if note = 0 then u32 (note + 4294967296 - 60) else note }) := by
  obtain ⟨r1, hl⟩ := smpl_reads note hn
  have hcl := chunk_length idSmpl (smplBody note)
  unfold parseSmpl
  rw [rd32_mid A _ B 0x14 (by omega), r1, hl]
  simp [Except.map]

set_option maxRecDepth 8192 in
/-- the encoder applied to what the reader stored is the spec's 8-bit conversion of channel 0 -/
theorem encode_frames (p : Pcm) (hp : p.Wf) :
    encodeSample (p.frames.map (frameRaw p.bits)) = p.wanted 0 := by
  have hx : ∀ x, x < 256 → x ^^^ 128 = (x + 128) % 256 := by decide
  simp only [encodeSample, Pcm.wanted, List.drop_zero, List.map_map]
  apply List.map_congr_left
  intro fr hfr
  obtain ⟨hl, hv⟩ := hp.frames fr hfr
  have e28 : (2 : Nat) ^ 8 = 256 := by decide
  simp only [Function.comp, Tables.wave_encShift, Tables.wave_encXor, e28]
  match fr, hl, hv with
  | [], hl, _ => rcases hp.channels with h | h <;> simp [h] at hl
  | a :: t, _, hv =>
    have ha := hv a (by simp)
    rcases hp.bits with h8 | h16
    · rw [h8] at ha
      have ha' : a < 256 := by simpa using ha
      simp only [frameRaw, to8, h8, if_true, List.headD_cons]
      have h1 := hx a ha'
      have h3 := hx ((a + 128) % 256) (Nat.mod_lt _ (by omega))
      rw [h1]
      have : (a + 128) % 256 * 256 % 65536 / 256 = (a + 128) % 256 := by omega
      rw [this, h3]
      congr 1; omega
    · rw [h16] at ha
      have ha' : a < 65536 := by simpa using ha
      simp only [frameRaw, to8, h16, show ¬ (16 = 8) by decide, if_false, List.headD_cons]
      rw [hx (a / 256) (by omega)]
      congr 1; omega

/-! ### assembling the walk over a whole file -/

theorem others_length_ge (os : List Other) : 8 * os.length ≤ (others os).length := by
  induction os with
  | nil => simp [others]
  | cons o os ih =>
    simp only [others, List.flatMap_cons, List.length_append, List.length_cons] at ih ⊢
    have := chunk_length o.id o.body
    omega

theorem run_others (f A B : Bytes) (os : List Other) (hf : f = A ++ others os ++ B) (hos : ∀ o ∈ os, o.Wf)
    (heven : A.length % 2 = 0) (hsmall : f.length < 4294967295) (w : WaveFile) (n : Nat) :
    readChunks f f.length (n + os.length) A.length w = readChunks f f.length n (A.length + (others os).length) w := by
  subst hf; exact readChunks_others os hos A B w n heven hsmall

theorem run_chunk (f A B : Bytes) (id : Nat) (body : Bytes) (hf : f = A ++ chunk id body ++ B) (hid : id < 4294967296)
    (heven : A.length % 2 = 0) (hsmall : f.length < 4294967295) (w w' : WaveFile) (n : Nat)
    (hparse : parseChunk f A.length w = .ok (some w')) :
    readChunks f f.length (n + 1) A.length w = readChunks f f.length n (A.length + (chunk id body).length) w' := by
  subst hf; exact readChunks_step A B id body w w' n hid heven hsmall hparse

theorem readChunks_end (f : Bytes) (w : WaveFile) (n : Nat) : readChunks f f.length (n + 1) f.length w = .ok (some w) := by
  unfold readChunks; simp

/-- reader state after the `fmt ` chunk of a recording -/
def stFmt (p : Pcm) : WaveFile :=
  { ({} : WaveFile) with stype := 1, channels := p.channels, sbits := p.bits, step := p.channels * (p.bits / 8),
                         srate := p.rate, slength := 0, ndata := p.channels }

/-- … after its `data` chunk -/
def stData (p : Pcm) : WaveFile :=
  { stFmt p with data0 := [] ++ p.frames.map (frameRaw p.bits),
                 slength := u32 ([] ++ p.frames.map (frameRaw p.bits)).length, lstart := 0, lend := 0 }

/-- … after the optional `smpl` chunk -/
def stEnd (w : WavFile) : WaveFile :=
  match w.note with
  | some n => { stData w.pcm with useSmpl := true, transpose := if n = 0 then u32 (n + 4294967296 - 60) else n }
  | none => stData w.pcm

theorem readChunks_canon (w : WavFile) (hw : w.Wf) :
    readChunks w.bytes w.bytes.length (w.bytes.length / 8 + 1) 12 {} = .ok (some (stEnd w)) := by
  have hsmall : w.bytes.length < 4294967295 := by have := hw.small; omega
  generalize hH : ([0x52, 0x49, 0x46, 0x46] ++ le32 (4 + w.body.length) ++ [0x57, 0x41, 0x56, 0x45] : Bytes) = H
  have hHl : H.length = 12 := by rw [← hH]; simp
  have hf : w.bytes = H ++ w.body := by rw [← hH]; rfl
  generalize hfb : w.bytes = f at *
  have hfmtl := (fmt_reads w.pcm hw.pcm).2.2.2.2
  have hc1 := chunk_length idFmt w.pcm.fmtBody
  have hc2 := chunk_length idData w.pcm.dataBytes
  have he1 := others_length_even w.pre
  have he2 := others_length_even w.mid
  have he3 := others_length_even w.post
  have hg1 := others_length_ge w.pre
  have hg2 := others_length_ge w.mid
  have hg3 := others_length_ge w.post
  have hdl : w.pcm.dataBytes.length < 4294967296 := by
    have : f.length = H.length + w.body.length := by rw [hf]; simp
    simp only [WavFile.body, List.length_append] at this; omega
  -- the five shapes of the file
  have S1 : f = H ++ others w.pre ++ (chunk idFmt w.pcm.fmtBody ++ others w.mid ++ chunk idData w.pcm.dataBytes ++ w.smpl ++ others w.post) := by
    rw [hf]; simp [WavFile.body, List.append_assoc]
  have S2 : f = (H ++ others w.pre) ++ chunk idFmt w.pcm.fmtBody ++ (others w.mid ++ chunk idData w.pcm.dataBytes ++ w.smpl ++ others w.post) := by
    rw [hf]; simp [WavFile.body, List.append_assoc]
  have S3 : f = (H ++ others w.pre ++ chunk idFmt w.pcm.fmtBody) ++ others w.mid ++ (chunk idData w.pcm.dataBytes ++ w.smpl ++ others w.post) := by
    rw [hf]; simp [WavFile.body, List.append_assoc]
  have S4 : f = (H ++ others w.pre ++ chunk idFmt w.pcm.fmtBody ++ others w.mid) ++ chunk idData w.pcm.dataBytes ++ (w.smpl ++ others w.post) := by
    rw [hf]; simp [WavFile.body, List.append_assoc]
  have hflen : f.length = 12 + (others w.pre).length + (chunk idFmt w.pcm.fmtBody).length + (others w.mid).length +
      (chunk idData w.pcm.dataBytes).length + w.smpl.length + (others w.post).length := by
    rw [S1]; simp only [List.length_append, hHl]; omega
  -- parsing the two mandatory chunks
  have P2 : parseChunk f (H ++ others w.pre).length {} = .ok (some (stFmt w.pcm)) := by
    rw [S2, parseChunk_hdr _ _ idFmt _ _ (by decide) (by omega)]
    simp only [idFmt, Tables.wave_id_fmt, if_true]
    exact parseFmt_canon _ _ w.pcm hw.pcm {}
  have P4 : parseChunk f (H ++ others w.pre ++ chunk idFmt w.pcm.fmtBody ++ others w.mid).length (stFmt w.pcm) =
      .ok (some (stData w.pcm)) := by
    rw [S4, parseChunk_hdr _ _ idData _ _ (by decide) hdl]
    simp only [idData, Tables.wave_id_fmt, Tables.wave_id_data, show ¬ (1635017060 = 544501094) by decide, if_false, if_true]
    exact parseData_canon _ _ w.pcm hw.pcm (stFmt w.pcm) rfl rfl
  match hnote : w.note with
  | none =>
    have hsm : w.smpl = [] := by simp [WavFile.smpl, hnote]
    have hend : stEnd w = stData w.pcm := by simp [stEnd, hnote]
    have S6 : f = (H ++ others w.pre ++ chunk idFmt w.pcm.fmtBody ++ others w.mid ++ chunk idData w.pcm.dataBytes) ++ others w.post ++ [] := by
      rw [hf]; simp [WavFile.body, List.append_assoc, hsm]
    rw [hsm] at hflen
    obtain ⟨m, hm⟩ : ∃ m, f.length / 8 + 1 = m + 1 + w.post.length + 1 + w.mid.length + 1 + w.pre.length :=
      ⟨f.length / 8 + 1 - (1 + w.post.length + 1 + w.mid.length + 1 + w.pre.length), by simp only [List.length_nil] at hflen; omega⟩
    have s1 := run_others f H _ w.pre S1 hw.pre (by omega) hsmall {} (m + 1 + w.post.length + 1 + w.mid.length + 1)
    have s2 := run_chunk f (H ++ others w.pre) _ idFmt _ S2 (by decide) (by simp only [List.length_append]; omega) hsmall {} _
      (m + 1 + w.post.length + 1 + w.mid.length) P2
    have s3 := run_others f (H ++ others w.pre ++ chunk idFmt w.pcm.fmtBody) _ w.mid S3 hw.mid
      (by simp only [List.length_append]; omega) hsmall (stFmt w.pcm) (m + 1 + w.post.length + 1)
    have s4 := run_chunk f (H ++ others w.pre ++ chunk idFmt w.pcm.fmtBody ++ others w.mid) _ idData _ S4 (by decide)
      (by simp only [List.length_append]; omega) hsmall (stFmt w.pcm) _ (m + 1 + w.post.length) P4
    have s6 := run_others f (H ++ others w.pre ++ chunk idFmt w.pcm.fmtBody ++ others w.mid ++ chunk idData w.pcm.dataBytes) []
      w.post S6 hw.post (by simp only [List.length_append]; omega) hsmall (stData w.pcm) (m + 1)
    simp only [List.length_append, hHl] at s1 s2 s3 s4 s6
    rw [hm, s1, s2, s3, s4, s6, hend]
    have : 12 + (others w.pre).length + (chunk idFmt w.pcm.fmtBody).length + (others w.mid).length +
        (chunk idData w.pcm.dataBytes).length + (others w.post).length = f.length := by
      simp only [List.length_nil] at hflen; omega
    rw [this]
    exact readChunks_end f _ m
  | some n =>
    have hn := hw.note n hnote
    have hsm : w.smpl = chunk idSmpl (smplBody n) := by simp [WavFile.smpl, hnote]
    have hsl := (smpl_reads n hn).2
    have hc5 := chunk_length idSmpl (smplBody n)
    have hend : stEnd w = { stData w.pcm with useSmpl := true, transpose := if n = 0 then u32 (n + 4294967296 - 60) else n } := by
      simp [stEnd, hnote]
    have S5 : f = (H ++ others w.pre ++ chunk idFmt w.pcm.fmtBody ++ others w.mid ++ chunk idData w.pcm.dataBytes) ++
        chunk idSmpl (smplBody n) ++ others w.post := by
      rw [hf]; simp [WavFile.body, List.append_assoc, hsm]
    have S6 : f = (H ++ others w.pre ++ chunk idFmt w.pcm.fmtBody ++ others w.mid ++ chunk idData w.pcm.dataBytes ++
        chunk idSmpl (smplBody n)) ++ others w.post ++ [] := by
      rw [hf]; simp [WavFile.body, List.append_assoc, hsm]
    rw [hsm] at hflen
    have P5 : parseChunk f (H ++ others w.pre ++ chunk idFmt w.pcm.fmtBody ++ others w.mid ++ chunk idData w.pcm.dataBytes).length
        (stData w.pcm) = .ok (some (stEnd w)) := by
      rw [S5, parseChunk_hdr _ _ idSmpl _ _ (by decide) (by omega), hend]
      simp only [idSmpl, Tables.wave_id_fmt, Tables.wave_id_data, Tables.wave_id_smpl,
        show ¬ (1819307379 = 544501094) by decide, show ¬ (1819307379 = 1635017060) by decide, if_false, if_true]
      exact parseSmpl_canon _ _ n hn (stData w.pcm)
    obtain ⟨m, hm⟩ : ∃ m, f.length / 8 + 1 = m + 1 + w.post.length + 1 + 1 + w.mid.length + 1 + w.pre.length :=
      ⟨f.length / 8 + 1 - (1 + w.post.length + 1 + 1 + w.mid.length + 1 + w.pre.length), by omega⟩
    have s1 := run_others f H _ w.pre S1 hw.pre (by omega) hsmall {} (m + 1 + w.post.length + 1 + 1 + w.mid.length + 1)
    have s2 := run_chunk f (H ++ others w.pre) _ idFmt _ S2 (by decide) (by simp only [List.length_append]; omega) hsmall {} _
      (m + 1 + w.post.length + 1 + 1 + w.mid.length) P2
    have s3 := run_others f (H ++ others w.pre ++ chunk idFmt w.pcm.fmtBody) _ w.mid S3 hw.mid
      (by simp only [List.length_append]; omega) hsmall (stFmt w.pcm) (m + 1 + w.post.length + 1 + 1)
    have s4 := run_chunk f (H ++ others w.pre ++ chunk idFmt w.pcm.fmtBody ++ others w.mid) _ idData _ S4 (by decide)
      (by simp only [List.length_append]; omega) hsmall (stFmt w.pcm) _ (m + 1 + w.post.length + 1) P4
    have s5 := run_chunk f (H ++ others w.pre ++ chunk idFmt w.pcm.fmtBody ++ others w.mid ++ chunk idData w.pcm.dataBytes) _
      idSmpl _ S5 (by decide) (by simp only [List.length_append]; omega) hsmall (stData w.pcm) _ (m + 1 + w.post.length) P5
    have s6 := run_others f (H ++ others w.pre ++ chunk idFmt w.pcm.fmtBody ++ others w.mid ++ chunk idData w.pcm.dataBytes ++
      chunk idSmpl (smplBody n)) [] w.post S6 hw.post (by simp only [List.length_append]; omega) hsmall (stEnd w) (m + 1)
    simp only [List.length_append, hHl] at s1 s2 s3 s4 s5 s6
    rw [hm, s1, s2, s3, s4, s5, s6]
    have : 12 + (others w.pre).length + (chunk idFmt w.pcm.fmtBody).length + (others w.mid).length +
        (chunk idData w.pcm.dataBytes).length + (chunk idSmpl (smplBody n)).length + (others w.post).length = f.length := by
      omega
    rw [this]
    exact readChunks_end f _ m

theorem readWav_canon (w : WavFile) (hw : w.Wf) : readWav w.bytes = .ok (some (stEnd w)) := by
  have hsmall := hw.small
  have hc1 := chunk_length idFmt w.pcm.fmtBody
  have hfmtl := (fmt_reads w.pcm hw.pcm).2.2.2.2
  have hlen : w.bytes.length = 12 + w.body.length := by simp [WavFile.bytes]; omega
  have hbl : 24 ≤ w.body.length := by simp only [WavFile.body, List.length_append]; omega
  have hrc := readChunks_canon w hw
  unfold readWav
  have h0 : ¬ w.bytes.length > Tables.wave_maxFileSize := by simp only [Tables.wave_maxFileSize]; omega
  have h1 : ¬ w.bytes.length < Tables.wave_minFileSize := by simp only [Tables.wave_minFileSize]; omega
  have h2 : w.bytes.take 4 = [0x52, 0x49, 0x46, 0x46] := by simp [WavFile.bytes]
  have h3 : rd32 w.bytes 4 = .ok (4 + w.body.length) := by
    have := rdLe32_le32 (4 + w.body.length) (by omega) [0x52, 0x49, 0x46, 0x46] ([0x57, 0x41, 0x56, 0x45] ++ w.body)
    simp only [List.length_cons, List.length_nil] at this
    simp only [rd32, WavFile.bytes]
    rw [show ([0x52, 0x49, 0x46, 0x46] : Bytes) ++ le32 (4 + w.body.length) ++ [0x57, 0x41, 0x56, 0x45] ++ w.body =
      [0x52, 0x49, 0x46, 0x46] ++ le32 (4 + w.body.length) ++ ([0x57, 0x41, 0x56, 0x45] ++ w.body) by simp]
    rw [this]
  have h4 : (w.bytes.drop 8).take 4 = [0x57, 0x41, 0x56, 0x45] := by simp [WavFile.bytes, le32]
  have h5 : u32 (4 + w.body.length + 8) = w.bytes.length := by rw [u32_small (by omega)]; omega
  simp only [h0, h1, if_false, h2, ne_eq, not_true_eq_false, h3, h4, h5, hrc]
  have : ¬ (stEnd w).ndata = 0 := by
    have : (stEnd w).ndata = w.pcm.channels := by
      unfold stEnd; split <;> rfl
    rw [this]; rcases hw.pcm.channels with h | h <;> omega
  simp [this]

theorem wav_frames_lt (w : WavFile) (hw : w.Wf) : w.pcm.frames.length < 4294967296 := by
  have hlen := framesBytes_length w.pcm hw.pcm.bits w.pcm.frames (fun f hf => (hw.pcm.frames f hf).1)
  have hpos : 1 ≤ w.pcm.channels * (w.pcm.bits / 8) := by
    rcases hw.pcm.bits with h | h <;> rcases hw.pcm.channels with h' | h' <;> simp [h, h']
  have hsmall := hw.small
  have hc2 := chunk_length idData w.pcm.dataBytes
  have hb : w.bytes.length = 12 + w.body.length := by simp [WavFile.bytes]; omega
  have hbody : (chunk idData w.pcm.dataBytes).length ≤ w.body.length := by
    simp only [WavFile.body, List.length_append]; omega
  have : w.pcm.frames.length ≤ w.pcm.frames.length * (w.pcm.channels * (w.pcm.bits / 8)) := Nat.le_mul_of_pos_right _ hpos
  rw [← dataBytes_eq] at hlen
  omega

end Ctrmml.Wave
