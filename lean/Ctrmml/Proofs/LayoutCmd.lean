/-
  Helper lemmas for C06 (no property statements here): the command subset of the layout theorems.
  It is C05's covered subset (`Covered`, `cmd_span`: notes, `r ^ l o < > Q q C s &`) widened by
  the event commands of `mml_control` / `mml_envelope` that are one character and an optional /
  mandatory / absent number: `[ L`, `] ( )`, `* @ v p K E M P G t T`, the transposes `_n __n kn`, `%n`,
  `D` (drum mode), and by the reverse rest `R` and the grace note `~` of `mml_basic`.
  For these, `mml_basic` declines (puts the character back), and `mml_control` or `mml_envelope`
  consumes exactly the spelling.  Interface: `LCovered`, `lcmdTrack`, `LCmdNums`, `LCmdTail`,
  `lcmdSkip`, `lcmd_step` (one iteration of `parse_mml_track`).
-/
import Ctrmml.Proofs.TrackStrip
import Ctrmml.Proofs.Layout
namespace Ctrmml.Mml
open Ctrmml.Tables Ctrmml.Lexer Ctrmml.TrackBuilder
open Ctrmml.MmlMeaning (Num Dur Acc Cmd Simple)

theorem insertTrack_insertTrack (id : Nat) (t1 t2 : Track) (l : List (Nat × Track)) :
    insertTrack id t2 (insertTrack id t1 l) = insertTrack id t2 l := by
  induction l with
  | nil => simp [insertTrack]
  | cons kv rest ih =>
    obtain ⟨k, v⟩ := kv
    by_cases h1 : id < k
    · simp [insertTrack, h1]
    · by_cases h2 : id = k
      · subst h2; simp [insertTrack]
      · simp [insertTrack, h1, h2, ih]

theorem setTrack_setTrack (s : MmlState) (t1 t2 : Track) : setTrack (setTrack s t1) t2 = setTrack s t2 := by
  simp [setTrack, insertTrack_insertTrack]

/-! ### the three command tables in one iteration of `parse_mml_track` -/

theorem step_control (f : Nat) (s : MmlState) (hs : Sane s) (c : Nat) (r : List Nat)
    (hsuf : suffix s = c :: r) (hc : 33 ≤ c ∧ c < 128) (hn : NotLoopChar c) (s0 s2 : MmlState)
    (hs0 : s0 = setTrack s ((getTrack s).setReference (some { line := s.inp.line, column := s.inp.lb.column })))
    (hbasic : mmlBasic s0 = .ok true s0) (hcontrol : mmlControl s0 = .ok false s2) :
    parseMmlTrackF (f + 1) s = parseMmlTrackF f s2 := by
  obtain ⟨h1, h2, h3, h4, h5, h6⟩ := hn
  have e0 : ((c : Int) == 0) = false := by
    have : ¬ ((c : Int) = 0) := by omega
    simpa using this
  have e124 : ((c : Int) == 124) = false := by
    have : ¬ ((c : Int) = 124) := by omega
    simpa using this
  have e59 : ((c : Int) == 59) = false := by
    have : ¬ ((c : Int) = 59) := by omega
    simpa using this
  have e47 : ((c : Int) == 47) = false := by
    have : ¬ ((c : Int) = 47) := by omega
    simpa using this
  have e125 : ((c : Int) == 125) = false := by
    have : ¬ ((c : Int) = 125) := by omega
    simpa using this
  have e123 : ((c : Int) == 123) = false := by
    have : ¬ ((c : Int) = 123) := by omega
    simpa using this
  have e37 : ((c : Int) == 37) = false := by
    have : ¬ ((c : Int) = 37) := by omega
    simpa using this
  unfold parseMmlTrackF
  rw [bind_ok (getTokenC_cons s c r hsuf hc), bind_ok (getS_run _)]
  simp only [e124, e59, e47, e125, e123, e37, e0, Bool.false_eq_true, if_false, Bool.or_self, Bool.false_and]
  rw [← schar_small c hc.2, bind_ok (ungetC_same s hs.bytes c r hsuf), bind_ok (getS_run _)]
  rw [bind_ok (trackOp_ok _ _ _ "" rfl)]
  have hst : setTrack s (Track.setReference (getTrack s) (some s.inp.getReference)) = s0 := by rw [hs0]; rfl
  rw [hst, bind_ok hbasic]
  simp only [show (true == false) = false by decide, Bool.false_eq_true, if_false]
  rw [bind_ok hcontrol]
  simp only [beq_self_eq_true, if_true]
  cases f <;> rfl

theorem step_envelope (f : Nat) (s : MmlState) (hs : Sane s) (c : Nat) (r : List Nat)
    (hsuf : suffix s = c :: r) (hc : 33 ≤ c ∧ c < 128) (hn : NotLoopChar c) (s0 s2 : MmlState)
    (hs0 : s0 = setTrack s ((getTrack s).setReference (some { line := s.inp.line, column := s.inp.lb.column })))
    (hbasic : mmlBasic s0 = .ok true s0) (hcontrol : mmlControl s0 = .ok true s0) (henv : mmlEnvelope s0 = .ok false s2) :
    parseMmlTrackF (f + 1) s = parseMmlTrackF f s2 := by
  obtain ⟨h1, h2, h3, h4, h5, h6⟩ := hn
  have e0 : ((c : Int) == 0) = false := by
    have : ¬ ((c : Int) = 0) := by omega
    simpa using this
  have e124 : ((c : Int) == 124) = false := by
    have : ¬ ((c : Int) = 124) := by omega
    simpa using this
  have e59 : ((c : Int) == 59) = false := by
    have : ¬ ((c : Int) = 59) := by omega
    simpa using this
  have e47 : ((c : Int) == 47) = false := by
    have : ¬ ((c : Int) = 47) := by omega
    simpa using this
  have e125 : ((c : Int) == 125) = false := by
    have : ¬ ((c : Int) = 125) := by omega
    simpa using this
  have e123 : ((c : Int) == 123) = false := by
    have : ¬ ((c : Int) = 123) := by omega
    simpa using this
  have e37 : ((c : Int) == 37) = false := by
    have : ¬ ((c : Int) = 37) := by omega
    simpa using this
  unfold parseMmlTrackF
  rw [bind_ok (getTokenC_cons s c r hsuf hc), bind_ok (getS_run _)]
  simp only [e124, e59, e47, e125, e123, e37, e0, Bool.false_eq_true, if_false, Bool.or_self, Bool.false_and]
  rw [← schar_small c hc.2, bind_ok (ungetC_same s hs.bytes c r hsuf), bind_ok (getS_run _)]
  rw [bind_ok (trackOp_ok _ _ _ "" rfl)]
  have hst : setTrack s (Track.setReference (getTrack s) (some s.inp.getReference)) = s0 := by rw [hs0]; rfl
  rw [hst, bind_ok hbasic]
  simp only [show (true == false) = false by decide, Bool.false_eq_true, if_false]
  rw [bind_ok hcontrol]
  simp only [show (true == false) = false by decide, Bool.false_eq_true, if_false]
  rw [bind_ok henv]
  simp only [beq_self_eq_true, if_true]
  cases f <;> rfl

/-- bytes that start no command of `mml_basic` -/
def NotBasic (c : Nat) : Prop :=
  ¬ (97 ≤ c ∧ c ≤ 104) ∧ c ≠ 114 ∧ c ≠ 94 ∧ c ≠ 38 ∧ c ≠ 111 ∧ c ≠ 60 ∧ c ≠ 62 ∧ c ≠ 108 ∧ c ≠ 81 ∧ c ≠ 113 ∧ c ≠ 82 ∧
  c ≠ 126 ∧ c ≠ 67 ∧ c ≠ 115 ∧ c ≠ 92

theorem ne_lit (c : Nat) (v : Nat) (h : c ≠ v) (w : Int) (hw : w = (v : Int)) : ((c : Int) == w) = false := by
  have : ¬ ((c : Int) = w) := by omega
  simpa using this

theorem mmlBasic_declines (s : MmlState) (hs : Sane s) (c : Nat) (r : List Nat) (hsuf : suffix s = c :: r)
    (hc : 33 ≤ c ∧ c < 128) (hnb : NotBasic c) : mmlBasic s = .ok true s := by
  obtain ⟨h0, h1, h2, h3, h4, h5, h6, h7, h8, h9, h10, h11, h12, h13, h14⟩ := hnb
  have e0 : (decide ((97 : Int) ≤ (c : Int)) && decide ((c : Int) ≤ 104)) = false := by simp; omega
  have e1 := ne_lit c 114 h1 114 rfl
  have e2 := ne_lit c 94 h2 94 rfl
  have e3 := ne_lit c 38 h3 38 rfl
  have e4 := ne_lit c 111 h4 111 rfl
  have e5 := ne_lit c 60 h5 60 rfl
  have e6 := ne_lit c 62 h6 62 rfl
  have e7 := ne_lit c 108 h7 108 rfl
  have e8 := ne_lit c 81 h8 81 rfl
  have e9 := ne_lit c 113 h9 113 rfl
  have e10 := ne_lit c 82 h10 82 rfl
  have e11 := ne_lit c 126 h11 126 rfl
  have e12 := ne_lit c 67 h12 67 rfl
  have e13 := ne_lit c 115 h13 115 rfl
  have e14 := ne_lit c 92 h14 92 rfl
  unfold mmlBasic
  rw [bind_ok (getTokenC_cons s c r hsuf hc)]
  simp only [e0, e1, e2, e3, e4, e5, e6, e7, e8, e9, e10, e11, e12, e13, e14, Bool.false_eq_true, if_false]
  rw [← schar_small c hc.2, bind_ok (ungetC_same s hs.bytes c r hsuf)]
  rfl

theorem mmlControl_declines (s : MmlState) (hs : Sane s) (c : Nat) (r : List Nat) (hsuf : suffix s = c :: r)
    (hc : 33 ≤ c ∧ c < 128) (hnc : c ≠ 91 ∧ c ≠ 47 ∧ c ≠ 93 ∧ c ≠ 76 ∧ c ≠ 42 ∧ c ≠ 39) : mmlControl s = .ok true s := by
  obtain ⟨h1, h2, h3, h4, h5, h6⟩ := hnc
  have e1 := ne_lit c 91 h1 91 rfl
  have e2 := ne_lit c 47 h2 47 rfl
  have e3 := ne_lit c 93 h3 93 rfl
  have e4 := ne_lit c 76 h4 76 rfl
  have e5 := ne_lit c 42 h5 42 rfl
  have e6 := ne_lit c 39 h6 39 rfl
  unfold mmlControl
  rw [bind_ok (getTokenC_cons s c r hsuf hc)]
  simp only [e1, e2, e3, e4, e5, e6, Bool.false_eq_true, if_false]
  rw [← schar_small c hc.2, bind_ok (ungetC_same s hs.bytes c r hsuf)]
  rfl

/-! ### the parsers of the event commands on their spelling -/

/-- `mml_control`: `[`, `L` -/
theorem control_noarg_span (s : MmlState) (C ty : Nat) (hC : (C = 91 ∧ ty = ev_LOOP_START) ∨ (C = 76 ∧ ty = ev_SEGNO))
    (tail : List Nat) (hsuf : suffix s = C :: tail) :
    mmlControl s = .ok false (adv (setTrack s ((getTrack s).addEvent ty 0 0 0)) 1) := by
  rcases hC with ⟨rfl, rfl⟩ | ⟨rfl, rfl⟩
  · unfold mmlControl
    rw [bind_ok (getTokenC_cons s 91 _ hsuf (by omega))]
    dispatch 91
    rw [bind_ok (trackOp_ok (adv s 1) _ ((getTrack s).addEvent ev_LOOP_START 0 0 0) "" rfl), run_pure]
    finish
  · unfold mmlControl
    rw [bind_ok (getTokenC_cons s 76 _ hsuf (by omega))]
    dispatch 76
    rw [bind_ok (trackOp_ok (adv s 1) _ ((getTrack s).addEvent ev_SEGNO 0 0 0) "" rfl), run_pure]
    finish

/-- `mml_control`: `*n` -/
theorem call_span (s : MmlState) (hs : Sane s) (n : Num) (tail : List Nat)
    (hsuf : suffix s = 42 :: (n.bytes ++ tail)) (hr : NumRange n) (hend : NumEnd (numBase n) tail) :
    mmlControl s = .ok false (adv (setTrack s ((getTrack s).addEvent ev_JUMP n.v 0 0)) (1 + n.bytes.length)) := by
  have hs1 : Sane (adv s 1) := sane_adv s hs 1 (by rw [hsuf]; simp)
  have hsuf1 : suffix (adv s 1) = n.bytes ++ tail := by rw [suffix_adv, hsuf]; rfl
  unfold mmlControl
  rw [bind_ok (getTokenC_cons s 42 _ hsuf (by omega))]
  dispatch 42
  rw [bind_ok (expectParameter_render (adv s 1) hs1 n tail hsuf1 hr hend)]
  rw [bind_ok (trackOp_ok _ _ _ "" rfl), run_pure]
  finish

/-- `mml_control`: `]` with its count -/
theorem loopEnd_span_some (s : MmlState) (hs : Sane s) (n : Num) (tail : List Nat)
    (hsuf : suffix s = 93 :: (n.bytes ++ tail)) (hr : NumRange n) (hend : NumEnd (numBase n) tail) :
    mmlControl s = .ok false (adv (setTrack s ((getTrack s).addEvent ev_LOOP_END n.v 0 0)) (1 + n.bytes.length)) := by
  have hs1 : Sane (adv s 1) := sane_adv s hs 1 (by rw [hsuf]; simp)
  have hsuf1 : suffix (adv s 1) = n.bytes ++ tail := by rw [suffix_adv, hsuf]; rfl
  unfold mmlControl
  rw [bind_ok (getTokenC_cons s 93 _ hsuf (by omega))]
  dispatch 93
  rw [bind_ok (readParameter_render (adv s 1) hs1 _ n tail hsuf1 hr hend)]
  rw [bind_ok (trackOp_ok _ _ _ "" rfl), run_pure]
  finish

/-- `mml_control`: `]` without a count (the blanks `get_num` skips stay consumed) -/
theorem loopEnd_span_none (s : MmlState) (hs : Sane s) (tail : List Nat)
    (hsuf : suffix s = 93 :: tail) (hnone : (numSpan tail).1 = none) :
    mmlControl s = .ok false (adv (setTrack s ((getTrack s).addEvent ev_LOOP_END mmlDefaultLoopCount 0 0)) (1 + (numSpan tail).2)) := by
  have hs1 : Sane (adv s 1) := sane_adv s hs 1 (by rw [hsuf]; simp)
  have hsuf1 : suffix (adv s 1) = tail := by rw [suffix_adv, hsuf]; rfl
  unfold mmlControl
  rw [bind_ok (getTokenC_cons s 93 _ hsuf (by omega))]
  dispatch 93
  rw [bind_ok (readParameter_absent (adv s 1) hs1 _ (by rw [hsuf1]; exact hnone)), hsuf1]
  rw [bind_ok (trackOp_ok _ _ _ "" rfl), run_pure]
  finish

/-- `mml_envelope`: one character and a mandatory number -/
theorem envelope_num_span (s : MmlState) (hs : Sane s) (C ty : Nat)
    (hC : (C = 64 ∧ ty = ev_INS) ∨ (C = 118 ∧ ty = ev_VOL) ∨ (C = 112 ∧ ty = ev_PAN) ∨ (C = 75 ∧ ty = ev_DETUNE) ∨
      (C = 69 ∧ ty = ev_VOL_ENVELOPE) ∨ (C = 77 ∧ ty = ev_PITCH_ENVELOPE) ∨ (C = 80 ∧ ty = ev_PAN_ENVELOPE) ∨
      (C = 71 ∧ ty = ev_PORTAMENTO) ∨ (C = 116 ∧ ty = ev_TEMPO_BPM) ∨ (C = 84 ∧ ty = ev_TEMPO))
    (n : Num) (tail : List Nat) (hsuf : suffix s = C :: (n.bytes ++ tail)) (hr : NumRange n) (hend : NumEnd (numBase n) tail) :
    mmlEnvelope s = .ok false (adv (setTrack s ((getTrack s).addEvent ty n.v 0 0)) (1 + n.bytes.length)) := by
  have hs1 : Sane (adv s 1) := sane_adv s hs 1 (by rw [hsuf]; simp)
  have hsuf1 : suffix (adv s 1) = n.bytes ++ tail := by rw [suffix_adv, hsuf]; rfl
  have hexp := expectParameter_render (adv s 1) hs1 n tail hsuf1 hr hend
  have hexps : expectSigned (adv s 1) = .ok n.v (adv (adv s 1) n.bytes.length) := hexp
  rcases hC with ⟨rfl, rfl⟩ | ⟨rfl, rfl⟩ | ⟨rfl, rfl⟩ | ⟨rfl, rfl⟩ | ⟨rfl, rfl⟩ | ⟨rfl, rfl⟩ | ⟨rfl, rfl⟩ | ⟨rfl, rfl⟩ | ⟨rfl, rfl⟩ | ⟨rfl, rfl⟩
  · unfold mmlEnvelope
    rw [bind_ok (getTokenC_cons s 64 _ hsuf (by omega))]
    dispatch 64
    rw [bind_ok hexp, bind_ok (trackOp_ok _ _ _ "" rfl), run_pure]
    finish
  · unfold mmlEnvelope
    rw [bind_ok (getTokenC_cons s 118 _ hsuf (by omega))]
    dispatch 118
    rw [bind_ok hexp, bind_ok (trackOp_ok _ _ _ "" rfl), run_pure]
    finish
  · unfold mmlEnvelope
    rw [bind_ok (getTokenC_cons s 112 _ hsuf (by omega))]
    dispatch 112
    rw [bind_ok hexps, bind_ok (trackOp_ok _ _ _ "" rfl), run_pure]
    finish
  · unfold mmlEnvelope
    rw [bind_ok (getTokenC_cons s 75 _ hsuf (by omega))]
    dispatch 75
    rw [bind_ok hexps, bind_ok (trackOp_ok _ _ _ "" rfl), run_pure]
    finish
  · unfold mmlEnvelope
    rw [bind_ok (getTokenC_cons s 69 _ hsuf (by omega))]
    dispatch 69
    rw [bind_ok hexp, bind_ok (trackOp_ok _ _ _ "" rfl), run_pure]
    finish
  · unfold mmlEnvelope
    rw [bind_ok (getTokenC_cons s 77 _ hsuf (by omega))]
    dispatch 77
    rw [bind_ok hexp, bind_ok (trackOp_ok _ _ _ "" rfl), run_pure]
    finish
  · unfold mmlEnvelope
    rw [bind_ok (getTokenC_cons s 80 _ hsuf (by omega))]
    dispatch 80
    rw [bind_ok hexp, bind_ok (trackOp_ok _ _ _ "" rfl), run_pure]
    finish
  · unfold mmlEnvelope
    rw [bind_ok (getTokenC_cons s 71 _ hsuf (by omega))]
    dispatch 71
    rw [bind_ok hexp, bind_ok (trackOp_ok _ _ _ "" rfl), run_pure]
    finish
  · unfold mmlEnvelope
    rw [bind_ok (getTokenC_cons s 116 _ hsuf (by omega))]
    dispatch 116
    rw [bind_ok hexp, bind_ok (trackOp_ok _ _ _ "" rfl), run_pure]
    finish
  · unfold mmlEnvelope
    rw [bind_ok (getTokenC_cons s 84 _ hsuf (by omega))]
    dispatch 84
    rw [bind_ok hexp, bind_ok (trackOp_ok _ _ _ "" rfl), run_pure]
    finish

/-- `mml_envelope`: `D n` -/
theorem drum_span (s : MmlState) (hs : Sane s) (n : Num) (tail : List Nat)
    (hsuf : suffix s = 68 :: (n.bytes ++ tail)) (hr : NumRange n) (hend : NumEnd (numBase n) tail) :
    mmlEnvelope s = .ok false (adv (setTrack s ((getTrack s).setDrumMode (u16 n.v))) (1 + n.bytes.length)) := by
  have hs1 : Sane (adv s 1) := sane_adv s hs 1 (by rw [hsuf]; simp)
  have hsuf1 : suffix (adv s 1) = n.bytes ++ tail := by rw [suffix_adv, hsuf]; rfl
  unfold mmlEnvelope
  rw [bind_ok (getTokenC_cons s 68 _ hsuf (by omega))]
  dispatch 68
  rw [bind_ok (expectParameter_render (adv s 1) hs1 n tail hsuf1 hr hend)]
  rw [bind_ok (trackOp_ok _ _ _ "" rfl), run_pure]
  finish

/-- `mml_envelope`: `(` / `)` with the step -/
theorem volrel_span_some (s : MmlState) (hs : Sane s) (C : Nat) (sg : Int) (hC : (C = 40 ∧ sg = -1) ∨ (C = 41 ∧ sg = 1))
    (n : Num) (tail : List Nat) (hsuf : suffix s = C :: (n.bytes ++ tail)) (hr : NumRange n) (hend : NumEnd (numBase n) tail) :
    mmlEnvelope s = .ok false (adv (setTrack s ((getTrack s).addEvent ev_VOL_REL (sg * n.v) 0 0)) (1 + n.bytes.length)) := by
  have hs1 : Sane (adv s 1) := sane_adv s hs 1 (by rw [hsuf]; simp)
  have hsuf1 : suffix (adv s 1) = n.bytes ++ tail := by rw [suffix_adv, hsuf]; rfl
  rcases hC with ⟨rfl, rfl⟩ | ⟨rfl, rfl⟩
  · unfold mmlEnvelope
    rw [bind_ok (getTokenC_cons s 40 _ hsuf (by omega))]
    dispatch 40
    rw [bind_ok (readParameter_render (adv s 1) hs1 _ n tail hsuf1 hr hend)]
    rw [bind_ok (trackOp_ok _ _ _ "" rfl), run_pure]
    have : (-1 : Int) * n.v = -n.v := by omega
    rw [this]
    finish
  · unfold mmlEnvelope
    rw [bind_ok (getTokenC_cons s 41 _ hsuf (by omega))]
    dispatch 41
    rw [bind_ok (readParameter_render (adv s 1) hs1 _ n tail hsuf1 hr hend)]
    rw [bind_ok (trackOp_ok _ _ _ "" rfl), run_pure]
    have : (1 : Int) * n.v = n.v := by omega
    rw [this]
    finish

/-- `mml_envelope`: `(` / `)` without a step -/
theorem volrel_span_none (s : MmlState) (hs : Sane s) (C : Nat) (sg : Int) (hC : (C = 40 ∧ sg = -1) ∨ (C = 41 ∧ sg = 1))
    (tail : List Nat) (hsuf : suffix s = C :: tail) (hnone : (numSpan tail).1 = none) :
    mmlEnvelope s = .ok false (adv (setTrack s ((getTrack s).addEvent ev_VOL_REL (sg * mmlDefaultVolStep) 0 0)) (1 + (numSpan tail).2)) := by
  have hs1 : Sane (adv s 1) := sane_adv s hs 1 (by rw [hsuf]; simp)
  have hsuf1 : suffix (adv s 1) = tail := by rw [suffix_adv, hsuf]; rfl
  rcases hC with ⟨rfl, rfl⟩ | ⟨rfl, rfl⟩
  · unfold mmlEnvelope
    rw [bind_ok (getTokenC_cons s 40 _ hsuf (by omega))]
    dispatch 40
    rw [bind_ok (readParameter_absent (adv s 1) hs1 _ (by rw [hsuf1]; exact hnone)), hsuf1]
    rw [bind_ok (trackOp_ok _ _ _ "" rfl), run_pure]
    have : (-1 : Int) * mmlDefaultVolStep = -mmlDefaultVolStep := by omega
    rw [this]
    finish
  · unfold mmlEnvelope
    rw [bind_ok (getTokenC_cons s 41 _ hsuf (by omega))]
    dispatch 41
    rw [bind_ok (readParameter_absent (adv s 1) hs1 _ (by rw [hsuf1]; exact hnone)), hsuf1]
    rw [bind_ok (trackOp_ok _ _ _ "" rfl), run_pure]
    have : (1 : Int) * mmlDefaultVolStep = mmlDefaultVolStep := by omega
    rw [this]
    finish

/-- `mml_transpose` behind `_` or `k`, on a number: `get_token`, put back, `expect_signed` -/
theorem mmlTranspose_num (s : MmlState) (hs : Sane s) (n : Num) (tail : List Nat)
    (hsuf : suffix s = n.bytes ++ tail) (hr : NumRange n) (hend : NumEnd (numBase n) tail) :
    mmlTranspose s = .ok () (adv (setTrack s ((getTrack s).addEvent ev_TRANSPOSE n.v 0 0)) n.bytes.length) := by
  obtain ⟨c0, r0, hcr, hc0⟩ := num_bytes_head n
  have hsuf' : suffix s = c0 :: (r0 ++ tail) := by rw [hsuf, hcr]; rfl
  have hrg : 33 ≤ c0 ∧ c0 < 128 := by omega
  have e95 := ne_lit c0 95 (by omega) 95 rfl
  have e123 := ne_lit c0 123 (by omega) 123 rfl
  unfold mmlTranspose
  rw [bind_ok (getTokenC_cons s c0 _ hsuf' hrg)]
  simp only [e95, e123, Bool.false_eq_true, if_false]
  rw [bind_ok (ungetC_zero s)]
  unfold expectSigned
  rw [bind_ok (expectParameter_render s hs n tail hsuf hr hend)]
  rw [trackOp_ok _ _ _ "" rfl]
  finish

/-- `mml_envelope`: `_n` and `kn` -/
theorem transpose_span (s : MmlState) (hs : Sane s) (C : Nat) (hC : C = 95 ∨ C = 107) (n : Num) (tail : List Nat)
    (hsuf : suffix s = C :: (n.bytes ++ tail)) (hr : NumRange n) (hend : NumEnd (numBase n) tail) :
    mmlEnvelope s = .ok false (adv (setTrack s ((getTrack s).addEvent ev_TRANSPOSE n.v 0 0)) (1 + n.bytes.length)) := by
  have hs1 : Sane (adv s 1) := sane_adv s hs 1 (by rw [hsuf]; simp)
  have hsuf1 : suffix (adv s 1) = n.bytes ++ tail := by rw [suffix_adv, hsuf]; rfl
  have ht := mmlTranspose_num (adv s 1) hs1 n tail hsuf1 hr hend
  rcases hC with rfl | rfl
  · unfold mmlEnvelope
    rw [bind_ok (getTokenC_cons s 95 _ hsuf (by omega))]
    dispatch 95
    rw [bind_ok ht, run_pure]
    finish
  · unfold mmlEnvelope
    rw [bind_ok (getTokenC_cons s 107 _ hsuf (by omega))]
    dispatch 107
    rw [bind_ok ht, run_pure]
    finish

/-- `mml_transpose` behind `_`, on `_n` -/
theorem mmlTranspose_rel (s : MmlState) (hs : Sane s) (n : Num) (tail : List Nat)
    (hsuf : suffix s = 95 :: (n.bytes ++ tail)) (hr : NumRange n) (hend : NumEnd (numBase n) tail) :
    mmlTranspose s = .ok () (adv (setTrack s ((getTrack s).addEvent ev_TRANSPOSE_REL n.v 0 0)) (1 + n.bytes.length)) := by
  have hs1 : Sane (adv s 1) := sane_adv s hs 1 (by rw [hsuf]; simp)
  have hsuf1 : suffix (adv s 1) = n.bytes ++ tail := by rw [suffix_adv, hsuf]; rfl
  unfold mmlTranspose
  rw [bind_ok (getTokenC_cons s 95 _ hsuf (by omega))]
  dispatch 95
  unfold expectSigned
  rw [bind_ok (expectParameter_render _ hs1 n tail hsuf1 hr hend)]
  rw [trackOp_ok _ _ _ "" rfl]
  finish

/-- `mml_envelope`: `__n` -/
theorem transposeRel_span (s : MmlState) (hs : Sane s) (n : Num) (tail : List Nat)
    (hsuf : suffix s = 95 :: 95 :: (n.bytes ++ tail)) (hr : NumRange n) (hend : NumEnd (numBase n) tail) :
    mmlEnvelope s = .ok false (adv (setTrack s ((getTrack s).addEvent ev_TRANSPOSE_REL n.v 0 0)) (2 + n.bytes.length)) := by
  have hs1 : Sane (adv s 1) := sane_adv s hs 1 (by rw [hsuf]; simp)
  have hsuf1 : suffix (adv s 1) = 95 :: (n.bytes ++ tail) := by rw [suffix_adv, hsuf]; rfl
  have ht := mmlTranspose_rel (adv s 1) hs1 n tail hsuf1 hr hend
  unfold mmlEnvelope
  rw [bind_ok (getTokenC_cons s 95 _ hsuf (by omega))]
  dispatch 95
  rw [bind_ok ht, run_pure]
  simp only [getTrack_adv, setTrack_adv, adv_adv]
  have : 1 + (1 + n.bytes.length) = 2 + n.bytes.length := by omega
  rw [this]

/-! ### reverse rest and grace note (`mml_basic`) -/

theorem mmlReverseRest_ok (s : MmlState) (dur : Nat) (hdone : ((getTrack s).reverseRest (UInt16.ofNat dur)).2 = .done) :
    mmlReverseRest dur s = .ok () (setTrack s ((getTrack s).reverseRest (UInt16.ofNat dur)).1) := by
  unfold mmlReverseRest
  rw [bind_ok (track_run s)]
  cases h : (getTrack s).reverseRest (UInt16.ofNat dur) with
  | mk t r =>
    have hr : r = .done := by rw [h] at hdone; exact hdone
    subst hr
    simp only [modifyTrack, run_bind, run_pure]

theorem revRest_span (s : MmlState) (hs : Sane s) (d : Dur) (tail : List Nat)
    (hsuf : suffix s = 82 :: (d.bytes ++ tail)) (hn : DurNums d) (ht : DurTail d tail)
    (hdone : ((getTrack s).reverseRest (UInt16.ofNat (durVal (getTrack s) d).toNat)).2 = .done) :
    mmlBasic s = .ok false
      (adv (setTrack s ((getTrack s).reverseRest (UInt16.ofNat (durVal (getTrack s) d).toNat)).1) (1 + d.bytes.length + durSkip d tail)) := by
  have hs1 : Sane (adv s 1) := sane_adv s hs 1 (by rw [hsuf]; simp)
  have hsuf1 : suffix (adv s 1) = d.bytes ++ tail := by rw [suffix_adv, hsuf]; rfl
  unfold mmlBasic
  rw [bind_ok (getTokenC_cons s 82 _ hsuf (by omega))]
  dispatch 82
  rw [bind_ok (readDuration_render (adv s 1) hs1 d tail hsuf1 hn ht)]
  rw [bind_ok (mmlReverseRest_ok _ _ (by simpa using hdone)), run_pure]
  finish

theorem grace_span (s : MmlState) (hs : Sane s) (l : Nat) (hl : l < 8) (a : Acc) (d : Dur) (tail : List Nat)
    (hsuf : suffix s = 126 :: (97 + l) :: (a.bytes ++ (d.bytes ++ tail)))
    (hn : DurNums d) (ht : DurTail d tail)
    (hacc : a = .none → (d.bytes ++ tail).head? ≠ some 43 ∧ (d.bytes ++ tail).head? ≠ some 45 ∧ (d.bytes ++ tail).head? ≠ some 61)
    (hdone : ((getTrack s).reverseRest (UInt16.ofNat (durVal (getTrack s) d).toNat)).2 = .done) :
    mmlBasic s = .ok false
      (adv (setTrack s (((getTrack s).reverseRest (UInt16.ofNat (durVal (getTrack s) d).toNat)).1.addNote (noteVal (getTrack s) l a)
          (UInt16.ofNat (durVal (getTrack s) d).toNat)))
        (2 + a.bytes.length + d.bytes.length + durSkip d tail)) := by
  have hs1 : Sane (adv s 1) := sane_adv s hs 1 (by rw [hsuf]; simp)
  have hsuf1 : suffix (adv s 1) = (97 + l) :: (a.bytes ++ (d.bytes ++ tail)) := by rw [suffix_adv, hsuf]; rfl
  have hs2 : Sane (adv (adv s 1) 1) := sane_adv _ hs1 1 (by rw [hsuf1]; simp)
  have hsuf2 : suffix (adv (adv s 1) 1) = a.bytes ++ (d.bytes ++ tail) := by rw [suffix_adv, hsuf1]; rfl
  have hs3 : Sane (adv (adv (adv s 1) 1) a.bytes.length) := sane_adv _ hs2 _ (by rw [hsuf2]; simp)
  have hsuf3 : suffix (adv (adv (adv s 1) 1) a.bytes.length) = d.bytes ++ tail := suffix_adv_append _ _ _ hsuf2
  obtain ⟨dur, hdur⟩ : ∃ dur, dur = (durVal (getTrack s) d).toNat := ⟨_, rfl⟩
  rw [← hdur] at hdone ⊢
  have hgrace : mmlGrace (adv s 1) = .ok () (adv (setTrack s (((getTrack s).reverseRest (UInt16.ofNat dur)).1.addNote (noteVal (getTrack s) l a) (UInt16.ofNat dur)))
      (2 + a.bytes.length + d.bytes.length + durSkip d tail)) := by
    unfold mmlGrace
    rw [bind_ok (getTokenC_cons (adv s 1) (97 + l) _ hsuf1 (by omega))]
    have e : ((97 + l : Nat) : Int) = 97 + (l : Int) := by omega
    rw [e]
    have hrange : (decide (97 + (l : Int) < 97) || decide (97 + (l : Int) > 104)) = false := by
      simp only [Bool.or_eq_false_iff, decide_eq_false_iff_not]; omega
    simp only [hrange, Bool.false_eq_true, if_false]
    rw [bind_ok (readNote_spec _ hs2 l hl a _ hsuf2 hacc)]
    rw [bind_ok (readDuration_render _ hs3 d tail hsuf3 hn ht)]
    simp only [getTrack_adv]
    rw [← hdur]
    rw [bind_ok (mmlReverseRest_ok _ dur (by simpa using hdone))]
    have hub : Track.opUB (getTrack (setTrack (adv (adv (adv (adv s 1) 1) a.bytes.length) (d.bytes.length + durSkip d tail))
        ((getTrack s).reverseRest (UInt16.ofNat dur)).1)) (.addNote (noteVal (getTrack s) l a) (UInt16.ofNat dur)) = false := by
      rw [getTrack_setTrack]
      have : noteVal ((getTrack s).reverseRest (UInt16.ofNat dur)).1 l a = noteVal (getTrack s) l a := by cases a <;> rfl
      rw [← this]
      exact opUB_noteVal _ l hl a _
    rw [trackOp_ok _ (.addNote (noteVal (getTrack s) l a) (UInt16.ofNat dur))
      ((((getTrack s).reverseRest (UInt16.ofNat dur)).1).addNote (noteVal (getTrack s) l a) (UInt16.ofNat dur)) "" (by
        simp only [getTrack_adv, getTrack_setTrack] at hub ⊢
        simp [Track.applyOp, hub])]
    simp only [getTrack_adv, setTrack_adv, setTrack_setTrack, adv_adv]
    have e2 : 1 + 1 + a.bytes.length + (d.bytes.length + durSkip d tail) = 2 + a.bytes.length + d.bytes.length + durSkip d tail := by omega
    rw [e2]
  unfold mmlBasic
  rw [bind_ok (getTokenC_cons s 126 _ hsuf (by omega))]
  dispatch 126
  rw [bind_ok hgrace, run_pure]

/-! ### one iteration for an event command -/

theorem lstep_control (f : Nat) (s : MmlState) (hs : Sane s) (C : Nat) (r : List Nat) (hsuf : suffix s = C :: r)
    (hC : C = 91 ∨ C = 76 ∨ C = 42 ∨ C = 93) (F : Track → Track) (k : Nat)
    (hspan : ∀ s0, Sane s0 → suffix s0 = C :: r → mmlControl s0 = .ok false (adv (setTrack s0 (F (getTrack s0))) k)) :
    parseMmlTrackF (f + 1) s =
      parseMmlTrackF f (adv (setTrack s (F ((getTrack s).setReference (some { line := s.inp.line, column := s.inp.lb.column })))) k) := by
  obtain ⟨t1, ht1⟩ : ∃ t1, t1 = (getTrack s).setReference (some { line := s.inp.line, column := s.inp.lb.column }) := ⟨_, rfl⟩
  have hs0 : Sane (setTrack s t1) := sane_setTrack _ _ hs
  have hsuf0 : suffix (setTrack s t1) = C :: r := by rw [suffix_setTrack]; exact hsuf
  have hrg : 33 ≤ C ∧ C < 128 := by omega
  have hb := mmlBasic_declines (setTrack s t1) hs0 C r hsuf0 hrg (by unfold NotBasic; omega)
  have hc := hspan (setTrack s t1) hs0 hsuf0
  rw [getTrack_setTrack, setTrack_setTrack] at hc
  have := step_control f s hs C r hsuf hrg (by unfold NotLoopChar; omega) (setTrack s t1) _ (by rw [ht1]) hb hc
  rw [this, ht1]

theorem lstep_envelope (f : Nat) (s : MmlState) (hs : Sane s) (C : Nat) (r : List Nat) (hsuf : suffix s = C :: r)
    (hC : C = 40 ∨ C = 41 ∨ C = 64 ∨ C = 68 ∨ C = 69 ∨ C = 71 ∨ C = 75 ∨ C = 77 ∨ C = 80 ∨ C = 84 ∨ C = 112 ∨ C = 116 ∨ C = 118 ∨ C = 95 ∨ C = 107)
    (F : Track → Track) (k : Nat)
    (hspan : ∀ s0, Sane s0 → suffix s0 = C :: r → mmlEnvelope s0 = .ok false (adv (setTrack s0 (F (getTrack s0))) k)) :
    parseMmlTrackF (f + 1) s =
      parseMmlTrackF f (adv (setTrack s (F ((getTrack s).setReference (some { line := s.inp.line, column := s.inp.lb.column })))) k) := by
  obtain ⟨t1, ht1⟩ : ∃ t1, t1 = (getTrack s).setReference (some { line := s.inp.line, column := s.inp.lb.column }) := ⟨_, rfl⟩
  have hs0 : Sane (setTrack s t1) := sane_setTrack _ _ hs
  have hsuf0 : suffix (setTrack s t1) = C :: r := by rw [suffix_setTrack]; exact hsuf
  have hrg : 33 ≤ C ∧ C < 128 := by omega
  have hb := mmlBasic_declines (setTrack s t1) hs0 C r hsuf0 hrg (by unfold NotBasic; omega)
  have hcd := mmlControl_declines (setTrack s t1) hs0 C r hsuf0 hrg (by omega)
  have hc := hspan (setTrack s t1) hs0 hsuf0
  rw [getTrack_setTrack, setTrack_setTrack] at hc
  have := step_envelope f s hs C r hsuf hrg (by unfold NotLoopChar; omega) (setTrack s t1) _ (by rw [ht1]) hb hcd hc
  rw [this, ht1]

/-! ### the interface -/

/-- how a covered event command is read: first byte, event type, and how it takes its number -/
inductive EvClass
  | noarg (byte ty : Nat)
  | opt (byte ty : Nat) (sg dflt : Int)
  | num (byte ty : Nat)

def evClass : Simple → Option EvClass
  | .loopStart => some (.noarg 91 ev_LOOP_START)
  | .segno => some (.noarg 76 ev_SEGNO)
  | .loopEnd => some (.opt 93 ev_LOOP_END 1 mmlDefaultLoopCount)
  | .volDown => some (.opt 40 ev_VOL_REL (-1) mmlDefaultVolStep)
  | .volUp => some (.opt 41 ev_VOL_REL 1 mmlDefaultVolStep)
  | .call => some (.num 42 ev_JUMP)
  | .ins => some (.num 64 ev_INS)
  | .vol => some (.num 118 ev_VOL)
  | .pan => some (.num 112 ev_PAN)
  | .detune => some (.num 75 ev_DETUNE)
  | .env => some (.num 69 ev_VOL_ENVELOPE)
  | .pitchEnv => some (.num 77 ev_PITCH_ENVELOPE)
  | .panEnv => some (.num 80 ev_PAN_ENVELOPE)
  | .porta => some (.num 71 ev_PORTAMENTO)
  | .tempoBpm => some (.num 116 ev_TEMPO_BPM)
  | .tempo => some (.num 84 ev_TEMPO)
  | .transpose => some (.num 95 ev_TRANSPOSE)
  | .transposeRel => some (.num 95 ev_TRANSPOSE_REL)
  | .kTranspose => some (.num 107 ev_TRANSPOSE)
  | .platform => some (.num 37 ev_PLATFORM)
  | _ => none

/-- an event command is covered when its number is present / absent as its class demands -/
def covSimple : Option EvClass → Option Num → Prop
  | some (.noarg _ _), none => True
  | some (.opt _ _ _ _), _ => True
  | some (.num _ _), some _ => True
  | _, _ => False

/-- the commands the layout theorems cover: C05's subset, `D n`, `R`, `~`, and the event commands
`[ L` (no number), `] ( )` (optional number), `* @ v p K E M P G t T _ __ k %` (mandatory number) -/
def LCovered : Cmd → Prop
  | .simple s n => covSimple (evClass s) n
  | .drum _ => True
  | .revRest _ => True
  | .grace l _ _ => l < 8
  | c => Covered c

/-- the builder call of a covered command -/
def lcmdTrack (t : Track) : Cmd → Track
  | .simple s n =>
    match evClass s, n with
    | some (.noarg _ ty), _ => t.addEvent ty 0 0 0
    | some (.opt _ ty sg _), some n => t.addEvent ty (sg * n.v) 0 0
    | some (.opt _ ty sg d), none => t.addEvent ty (sg * d) 0 0
    | some (.num _ ty), some n => t.addEvent ty n.v 0 0
    | _, _ => t
  | .drum n => t.setDrumMode (u16 n.v)
  | .revRest d => (t.reverseRest (UInt16.ofNat (durVal t d).toNat)).1
  | .grace l a d => (t.reverseRest (UInt16.ofNat (durVal t d).toNat)).1.addNote (noteVal t l a) (UInt16.ofNat (durVal t d).toNat)
  | c => cmdTrack t c

def LCmdNums (t : Track) : Cmd → Prop
  | .simple _ (some n) => NumRange n
  | .simple _ none => True
  | .drum n => NumRange n
  | .revRest d => DurNums d ∧ (t.reverseRest (UInt16.ofNat (durVal t d).toNat)).2 = .done
  | .grace _ _ d => DurNums d ∧ (t.reverseRest (UInt16.ofNat (durVal t d).toNat)).2 = .done
  | c => CmdNums t c

/-- the look-ahead of an event command written without a number: an optional number must not be found -/
def optTail : Option EvClass → List Nat → Prop
  | some (.opt _ _ _ _), tail => (numSpan tail).1 = none
  | _, _ => True

/-- the look-ahead of a covered command -/
def LCmdTail : Cmd → List Nat → Prop
  | .simple _ (some n), tail => NumEnd (numBase n) tail
  | .simple s none, tail => optTail (evClass s) tail
  | .drum n, tail => NumEnd (numBase n) tail
  | .revRest d, tail => DurTail d tail
  | .grace _ a d, tail => DurTail d tail ∧
      (a = .none → (d.bytes ++ tail).head? ≠ some 43 ∧ (d.bytes ++ tail).head? ≠ some 45 ∧ (d.bytes ++ tail).head? ≠ some 61)
  | c, tail => CmdTail c tail

/-- bytes consumed beyond the spelling -/
def lcmdSkip : Cmd → List Nat → Nat
  | .simple s none, tail =>
    match evClass s with
    | some (.opt _ _ _ _) => (numSpan tail).2
    | _ => 0
  | .simple _ (some _), _ => 0
  | .drum _, _ => 0
  | .revRest d, tail => durSkip d tail
  | .grace _ _ d, tail => durSkip d tail
  | c, tail => cmdSkip c tail

/-- first bytes of the covered commands -/
def LCmdStart (c : Nat) : Prop :=
  CmdStart c ∨ c = 91 ∨ c = 76 ∨ c = 93 ∨ c = 40 ∨ c = 41 ∨ c = 42 ∨ c = 64 ∨ c = 118 ∨ c = 112 ∨ c = 75 ∨ c = 69 ∨ c = 77 ∨ c = 80 ∨
  c = 71 ∨ c = 116 ∨ c = 84 ∨ c = 68 ∨ c = 95 ∨ c = 107 ∨ c = 37 ∨ c = 82 ∨ c = 126

theorem lcovered_of_covered (c : Cmd) (h : Covered c) : LCovered c := by
  cases c <;> first | exact h | exact absurd h (by simp [Covered])

theorem lcovered_cases (cmd : Cmd) (hc : LCovered cmd) :
    (∃ s n, cmd = .simple s n) ∨ (∃ n, cmd = .drum n) ∨ (∃ d, cmd = .revRest d) ∨ (∃ l a d, cmd = .grace l a d) ∨ Covered cmd := by
  cases cmd with
  | simple s n => exact Or.inl ⟨s, n, rfl⟩
  | drum n => exact Or.inr (Or.inl ⟨n, rfl⟩)
  | revRest d => exact Or.inr (Or.inr (Or.inl ⟨d, rfl⟩))
  | grace l a d => exact Or.inr (Or.inr (Or.inr (Or.inl ⟨l, a, d, rfl⟩)))
  | _ => exact Or.inr (Or.inr (Or.inr (Or.inr hc)))

theorem lcmdTrack_covered (t : Track) (c : Cmd) (h : Covered c) : lcmdTrack t c = cmdTrack t c := by
  cases c <;> first | rfl | exact absurd h (by simp [Covered])

theorem lcmdNums_covered (t : Track) (c : Cmd) (h : Covered c) : LCmdNums t c = CmdNums t c := by
  cases c <;> first | rfl | exact absurd h (by simp [Covered])

theorem lcmdTail_covered (c : Cmd) (tail : List Nat) (h : Covered c) : LCmdTail c tail = CmdTail c tail := by
  cases c <;> first | rfl | exact absurd h (by simp [Covered])

theorem lcmdSkip_covered (c : Cmd) (tail : List Nat) (h : Covered c) : lcmdSkip c tail = cmdSkip c tail := by
  cases c <;> first | rfl | exact absurd h (by simp [Covered])

theorem lcovered_head (cmd : Cmd) (hc : LCovered cmd) : ∃ c r, cmd.bytes = c :: r ∧ LCmdStart c := by
  rcases lcovered_cases cmd hc with ⟨s, n, rfl⟩ | ⟨n, rfl⟩ | ⟨d, rfl⟩ | ⟨l, a, d, rfl⟩ | h
  · cases s <;> cases n <;> simp only [LCovered, evClass, covSimple] at hc <;>
      first
      | exact absurd hc id
      | exact ⟨_, _, rfl, by simp [LCmdStart]⟩
  · exact ⟨68, _, rfl, by simp [LCmdStart]⟩
  · exact ⟨82, _, rfl, by simp [LCmdStart]⟩
  · exact ⟨126, _, rfl, by simp [LCmdStart]⟩
  · obtain ⟨c, r, h1, h2⟩ := covered_head cmd h
    exact ⟨c, r, h1, Or.inl h2⟩

theorem strip_lcmdTrack (t : Track) (cmd : Cmd) : (lcmdTrack t cmd).strip = lcmdTrack t.strip cmd := by
  cases cmd with
  | simple s n => cases s <;> cases n <;> rfl
  | drum n => rfl
  | revRest d =>
    simp only [lcmdTrack, durVal_strip]
    exact (Track.strip_reverseRest t _).1
  | grace l a d =>
    simp only [lcmdTrack, durVal_strip, noteVal_strip]
    rw [Track.strip_addNote, (Track.strip_reverseRest t _).1]
  | note l a d => exact strip_cmdTrack t (.note l a d)
  | rest d => exact strip_cmdTrack t (.rest d)
  | tie d => exact strip_cmdTrack t (.tie d)
  | slur => exact strip_cmdTrack t .slur
  | octave n => exact strip_cmdTrack t (.octave n)
  | octUp => exact strip_cmdTrack t .octUp
  | octDown => exact strip_cmdTrack t .octDown
  | length d => exact strip_cmdTrack t (.length d)
  | quantize n => exact strip_cmdTrack t (.quantize n)
  | early n => exact strip_cmdTrack t (.early n)
  | measure n => exact strip_cmdTrack t (.measure n)
  | shuffle n => exact strip_cmdTrack t (.shuffle n)
  | _ => rfl

theorem lcmdNums_strip (t : Track) (cmd : Cmd) : LCmdNums t.strip cmd ↔ LCmdNums t cmd := by
  cases cmd with
  | simple s n => cases n <;> exact Iff.rfl
  | drum n => exact Iff.rfl
  | revRest d => simp only [LCmdNums, durVal_strip, (Track.strip_reverseRest t _).2]
  | grace l a d => simp only [LCmdNums, durVal_strip, (Track.strip_reverseRest t _).2]
  | slur => exact cmdNums_strip t .slur
  | _ => exact Iff.rfl

theorem lcmdSkip_cases (cmd : Cmd) (tail : List Nat) : lcmdSkip cmd tail = 0 ∨ lcmdSkip cmd tail = (numSpan tail).2 := by
  cases cmd with
  | simple s n =>
    cases n with
    | some n => exact Or.inl rfl
    | none => cases s <;> first | exact Or.inl rfl | exact Or.inr rfl
  | drum n => exact Or.inl rfl
  | revRest d => exact cmdSkip_cases (.rest d) tail
  | grace l a d => exact cmdSkip_cases (.rest d) tail
  | note l a d => exact cmdSkip_cases (.note l a d) tail
  | rest d => exact cmdSkip_cases (.rest d) tail
  | tie d => exact cmdSkip_cases (.tie d) tail
  | length d => exact cmdSkip_cases (.length d) tail
  | _ => exact Or.inl rfl

/-! ### one iteration of `parse_mml_track` for any covered command -/

/-- one command of C05's subset at the cursor -/
theorem parseF_cmd_step (f : Nat) (s : MmlState) (hs : Sane s) (cmd : Cmd) (tail : List Nat) (hc : Covered cmd)
    (hsuf : suffix s = cmd.bytes ++ tail) (hn : CmdNums (getTrack s).strip cmd) (ht : CmdTail cmd tail) :
    parseMmlTrackF (f + 1) s =
      parseMmlTrackF f (adv (setTrack s (cmdTrack ((getTrack s).setReference (some { line := s.inp.line, column := s.inp.lb.column })) cmd))
        (cmd.bytes.length + cmdSkip cmd tail)) := by
  obtain ⟨t1, ht1⟩ : ∃ t1, t1 = (getTrack s).setReference (some { line := s.inp.line, column := s.inp.lb.column }) := ⟨_, rfl⟩
  have hn1 : CmdNums t1 cmd := by
    rw [← cmdNums_strip, ht1, Track.strip_setReference]; exact hn
  obtain ⟨c, r, hcr, hcs⟩ := covered_head cmd hc
  have hrg := cmdStart_range c hcs
  have hs0 : Sane (setTrack s t1) := sane_setTrack _ _ hs
  have hspan := cmd_span (setTrack s t1) hs0 cmd tail hc (by rw [suffix_setTrack]; exact hsuf)
    (by rw [getTrack_setTrack]; exact hn1) ht
  rw [getTrack_setTrack, setTrack_setTrack] at hspan
  have hsuf' : suffix s = List.replicate 0 32 ++ c :: (r ++ tail) := by rw [hsuf, hcr]; rfl
  have := step_basic f s hs 0 c (r ++ tail) hsuf' hrg.1 hrg.2 _ (by
    rw [adv_zero, Nat.add_zero, ← ht1]; exact hspan)
  rw [this, ht1]

theorem simple_num_step (f : Nat) (s : MmlState) (hs : Sane s) (C ty : Nat)
    (hC : (C = 42 ∧ ty = ev_JUMP) ∨ (C = 64 ∧ ty = ev_INS) ∨ (C = 118 ∧ ty = ev_VOL) ∨ (C = 112 ∧ ty = ev_PAN) ∨ (C = 75 ∧ ty = ev_DETUNE) ∨
      (C = 69 ∧ ty = ev_VOL_ENVELOPE) ∨ (C = 77 ∧ ty = ev_PITCH_ENVELOPE) ∨ (C = 80 ∧ ty = ev_PAN_ENVELOPE) ∨
      (C = 71 ∧ ty = ev_PORTAMENTO) ∨ (C = 116 ∧ ty = ev_TEMPO_BPM) ∨ (C = 84 ∧ ty = ev_TEMPO))
    (n : Num) (tail : List Nat) (hsuf : suffix s = C :: (n.bytes ++ tail)) (hr : NumRange n) (hend : NumEnd (numBase n) tail) :
    parseMmlTrackF (f + 1) s =
      parseMmlTrackF f (adv (setTrack s (((getTrack s).setReference (some { line := s.inp.line, column := s.inp.lb.column })).addEvent ty n.v 0 0))
        (1 + n.bytes.length)) := by
  rcases hC with ⟨rfl, rfl⟩ | hC
  · exact lstep_control f s hs 42 _ hsuf (by omega) (fun t => t.addEvent ev_JUMP n.v 0 0) _
      (fun s0 hs0 hsuf0 => call_span s0 hs0 n tail hsuf0 hr hend)
  · have hCs : C = 40 ∨ C = 41 ∨ C = 64 ∨ C = 68 ∨ C = 69 ∨ C = 71 ∨ C = 75 ∨ C = 77 ∨ C = 80 ∨ C = 84 ∨ C = 112 ∨ C = 116 ∨ C = 118 ∨ C = 95 ∨ C = 107 := by omega
    exact lstep_envelope f s hs C _ hsuf hCs (fun t => t.addEvent ty n.v 0 0) _
      (fun s0 hs0 hsuf0 => envelope_num_span s0 hs0 C ty hC n tail hsuf0 hr hend)

theorem simple_noarg_step (f : Nat) (s : MmlState) (hs : Sane s) (C ty : Nat) (hC : (C = 91 ∧ ty = ev_LOOP_START) ∨ (C = 76 ∧ ty = ev_SEGNO))
    (tail : List Nat) (hsuf : suffix s = C :: tail) :
    parseMmlTrackF (f + 1) s =
      parseMmlTrackF f (adv (setTrack s (((getTrack s).setReference (some { line := s.inp.line, column := s.inp.lb.column })).addEvent ty 0 0 0)) 1) :=
  lstep_control f s hs C _ hsuf (by omega) (fun t => t.addEvent ty 0 0 0) _ (fun s0 _ hsuf0 => control_noarg_span s0 C ty hC tail hsuf0)

theorem simple_opt_some_step (f : Nat) (s : MmlState) (hs : Sane s) (C ty : Nat) (sg : Int)
    (hC : (C = 93 ∧ ty = ev_LOOP_END ∧ sg = 1) ∨ (C = 40 ∧ ty = ev_VOL_REL ∧ sg = -1) ∨ (C = 41 ∧ ty = ev_VOL_REL ∧ sg = 1))
    (n : Num) (tail : List Nat) (hsuf : suffix s = C :: (n.bytes ++ tail)) (hr : NumRange n) (hend : NumEnd (numBase n) tail) :
    parseMmlTrackF (f + 1) s =
      parseMmlTrackF f (adv (setTrack s (((getTrack s).setReference (some { line := s.inp.line, column := s.inp.lb.column })).addEvent ty (sg * n.v) 0 0))
        (1 + n.bytes.length)) := by
  rcases hC with ⟨rfl, rfl, rfl⟩ | ⟨rfl, rfl, rfl⟩ | ⟨rfl, rfl, rfl⟩
  · have : (1 : Int) * n.v = n.v := by omega
    rw [this]
    exact lstep_control f s hs 93 _ hsuf (by omega) (fun t => t.addEvent ev_LOOP_END n.v 0 0) _
      (fun s0 hs0 hsuf0 => loopEnd_span_some s0 hs0 n tail hsuf0 hr hend)
  · exact lstep_envelope f s hs 40 _ hsuf (by omega) (fun t => t.addEvent ev_VOL_REL (-1 * n.v) 0 0) _
      (fun s0 hs0 hsuf0 => volrel_span_some s0 hs0 40 (-1) (Or.inl ⟨rfl, rfl⟩) n tail hsuf0 hr hend)
  · exact lstep_envelope f s hs 41 _ hsuf (by omega) (fun t => t.addEvent ev_VOL_REL (1 * n.v) 0 0) _
      (fun s0 hs0 hsuf0 => volrel_span_some s0 hs0 41 1 (Or.inr ⟨rfl, rfl⟩) n tail hsuf0 hr hend)

theorem simple_opt_none_step (f : Nat) (s : MmlState) (hs : Sane s) (C ty : Nat) (sg d : Int)
    (hC : (C = 93 ∧ ty = ev_LOOP_END ∧ sg = 1 ∧ d = mmlDefaultLoopCount) ∨ (C = 40 ∧ ty = ev_VOL_REL ∧ sg = -1 ∧ d = mmlDefaultVolStep) ∨
      (C = 41 ∧ ty = ev_VOL_REL ∧ sg = 1 ∧ d = mmlDefaultVolStep))
    (tail : List Nat) (hsuf : suffix s = C :: tail) (hnone : (numSpan tail).1 = none) :
    parseMmlTrackF (f + 1) s =
      parseMmlTrackF f (adv (setTrack s (((getTrack s).setReference (some { line := s.inp.line, column := s.inp.lb.column })).addEvent ty (sg * d) 0 0))
        (1 + (numSpan tail).2)) := by
  rcases hC with ⟨rfl, rfl, rfl, rfl⟩ | ⟨rfl, rfl, rfl, rfl⟩ | ⟨rfl, rfl, rfl, rfl⟩
  · have : (1 : Int) * mmlDefaultLoopCount = mmlDefaultLoopCount := by omega
    rw [this]
    exact lstep_control f s hs 93 _ hsuf (by omega) (fun t => t.addEvent ev_LOOP_END mmlDefaultLoopCount 0 0) _
      (fun s0 hs0 hsuf0 => loopEnd_span_none s0 hs0 tail hsuf0 hnone)
  · exact lstep_envelope f s hs 40 _ hsuf (by omega) (fun t => t.addEvent ev_VOL_REL (-1 * mmlDefaultVolStep) 0 0) _
      (fun s0 hs0 hsuf0 => volrel_span_none s0 hs0 40 (-1) (Or.inl ⟨rfl, rfl⟩) tail hsuf0 hnone)
  · exact lstep_envelope f s hs 41 _ hsuf (by omega) (fun t => t.addEvent ev_VOL_REL (1 * mmlDefaultVolStep) 0 0) _
      (fun s0 hs0 hsuf0 => volrel_span_none s0 hs0 41 1 (Or.inr ⟨rfl, rfl⟩) tail hsuf0 hnone)

/-- `%n` is handled by `parse_mml_track` itself: reference, `get`, `expect_parameter`, PLATFORM event -/
theorem platform_step (f : Nat) (s : MmlState) (hs : Sane s) (n : Num) (tail : List Nat)
    (hsuf : suffix s = 37 :: (n.bytes ++ tail)) (hr : NumRange n) (hend : NumEnd (numBase n) tail) :
    parseMmlTrackF (f + 1) s =
      parseMmlTrackF f (adv (setTrack s (((getTrack s).setReference (some { line := s.inp.line, column := s.inp.lb.column })).addEvent ev_PLATFORM n.v 0 0))
        (1 + n.bytes.length)) := by
  obtain ⟨t1, ht1⟩ : ∃ t1, t1 = (getTrack s).setReference (some { line := s.inp.line, column := s.inp.lb.column }) := ⟨_, rfl⟩
  have hs0 : Sane (setTrack s t1) := sane_setTrack _ _ hs
  have hsuf0 : suffix (setTrack s t1) = 37 :: (n.bytes ++ tail) := by rw [suffix_setTrack]; exact hsuf
  have hs1 : Sane (adv (setTrack s t1) 1) := sane_adv _ hs0 1 (by rw [hsuf0]; simp)
  have hsuf1 : suffix (adv (setTrack s t1) 1) = n.bytes ++ tail := by rw [suffix_adv, hsuf0]; rfl
  have h37 : schar 37 = 37 := by decide
  have hun : ungetC 37 (adv s 1) = .ok () s := by
    have := ungetC_same s hs.bytes 37 _ hsuf
    rw [h37] at this; exact this
  have hst : setTrack s (Track.setReference (getTrack s) (some s.inp.getReference)) = setTrack s t1 := by rw [ht1]; rfl
  conv => lhs; unfold parseMmlTrackF
  rw [bind_ok (getTokenC_cons s 37 _ hsuf (by omega)), bind_ok (getS_run _)]
  have e1 : ((37 : Nat) : Int) = 37 := rfl
  rw [e1]
  simp only [show (((37 : Int) == 124)) = false by decide, show (((37 : Int) == 59)) = false by decide,
    show ((37 : Int) == 47 || (37 : Int) == 125) = false by decide, show (((37 : Int) == 123)) = false by decide,
    show (((37 : Int) == 37)) = true by decide, Bool.false_and, Bool.false_eq_true, if_false, if_true]
  rw [bind_ok hun, bind_ok (getS_run _), bind_ok (trackOp_ok _ _ _ "" rfl), hst]
  rw [bind_ok (getC_cons _ 37 _ hsuf0), bind_ok (expectParameter_render _ hs1 n tail hsuf1 hr hend)]
  rw [bind_ok (trackOp_ok _ _ _ "" rfl)]
  simp only [getTrack_adv, getTrack_setTrack, setTrack_adv, setTrack_setTrack, adv_adv, ht1]

set_option hygiene false in
/-- mandatory-number event command -/
macro "ev_num " C:num ty:term : tactic =>
  `(tactic| (have h := simple_num_step f s hs $C $ty (by simp) n tail (by simpa [Cmd.bytes, Simple.spellingBytes, MmlMeaning.optNumBytes] using hsuf) hn ht
             rw [h]
             simp only [Cmd.bytes, Simple.spellingBytes, MmlMeaning.optNumBytes, lcmdSkip, List.length_append, List.length_cons, List.length_nil, Nat.add_zero, Nat.zero_add]
             rfl))

/-- ONE COVERED COMMAND AT THE CURSOR: one iteration of `parse_mml_track` = its builder call on
the track stamped with the cursor position; the cursor ends behind the spelling (and the blanks an
absent optional number made `get_num` skip) -/
theorem lcmd_step (f : Nat) (s : MmlState) (hs : Sane s) (cmd : Cmd) (tail : List Nat) (hc : LCovered cmd)
    (hsuf : suffix s = cmd.bytes ++ tail) (hn : LCmdNums (getTrack s).strip cmd) (ht : LCmdTail cmd tail) :
    parseMmlTrackF (f + 1) s =
      parseMmlTrackF f (adv (setTrack s (lcmdTrack ((getTrack s).setReference (some { line := s.inp.line, column := s.inp.lb.column })) cmd))
        (cmd.bytes.length + lcmdSkip cmd tail)) := by
  rcases lcovered_cases cmd hc with ⟨sm, n, rfl⟩ | ⟨n, rfl⟩ | ⟨d, rfl⟩ | ⟨l, a, d, rfl⟩ | hcov
  · cases sm <;> rcases n with _ | n <;> simp only [LCovered, evClass, covSimple] at hc <;> try exact absurd hc id
    case loopStart.none =>
      have h := simple_noarg_step f s hs 91 ev_LOOP_START (by simp) tail (by simpa [Cmd.bytes, Simple.spellingBytes, MmlMeaning.optNumBytes] using hsuf)
      rw [h]; rfl
    case segno.none =>
      have h := simple_noarg_step f s hs 76 ev_SEGNO (by simp) tail (by simpa [Cmd.bytes, Simple.spellingBytes, MmlMeaning.optNumBytes] using hsuf)
      rw [h]; rfl
    case loopEnd.none =>
      have h := simple_opt_none_step f s hs 93 ev_LOOP_END 1 mmlDefaultLoopCount (by simp) tail
        (by simpa [Cmd.bytes, Simple.spellingBytes, MmlMeaning.optNumBytes] using hsuf) ht
      rw [h]; rfl
    case volDown.none =>
      have h := simple_opt_none_step f s hs 40 ev_VOL_REL (-1) mmlDefaultVolStep (by simp) tail
        (by simpa [Cmd.bytes, Simple.spellingBytes, MmlMeaning.optNumBytes] using hsuf) ht
      rw [h]; rfl
    case volUp.none =>
      have h := simple_opt_none_step f s hs 41 ev_VOL_REL 1 mmlDefaultVolStep (by simp) tail
        (by simpa [Cmd.bytes, Simple.spellingBytes, MmlMeaning.optNumBytes] using hsuf) ht
      rw [h]; rfl
    case loopEnd.some =>
      have h := simple_opt_some_step f s hs 93 ev_LOOP_END 1 (by simp) n tail
        (by simpa [Cmd.bytes, Simple.spellingBytes, MmlMeaning.optNumBytes] using hsuf) hn ht
      rw [h]
      simp only [Cmd.bytes, Simple.spellingBytes, MmlMeaning.optNumBytes, lcmdSkip, List.length_append, List.length_cons, List.length_nil, Nat.add_zero, Nat.zero_add]
      rfl
    case volDown.some =>
      have h := simple_opt_some_step f s hs 40 ev_VOL_REL (-1) (by simp) n tail
        (by simpa [Cmd.bytes, Simple.spellingBytes, MmlMeaning.optNumBytes] using hsuf) hn ht
      rw [h]
      simp only [Cmd.bytes, Simple.spellingBytes, MmlMeaning.optNumBytes, lcmdSkip, List.length_append, List.length_cons, List.length_nil, Nat.add_zero, Nat.zero_add]
      rfl
    case volUp.some =>
      have h := simple_opt_some_step f s hs 41 ev_VOL_REL 1 (by simp) n tail
        (by simpa [Cmd.bytes, Simple.spellingBytes, MmlMeaning.optNumBytes] using hsuf) hn ht
      rw [h]
      simp only [Cmd.bytes, Simple.spellingBytes, MmlMeaning.optNumBytes, lcmdSkip, List.length_append, List.length_cons, List.length_nil, Nat.add_zero, Nat.zero_add]
      rfl
    case call.some => ev_num 42 ev_JUMP
    case ins.some => ev_num 64 ev_INS
    case vol.some => ev_num 118 ev_VOL
    case pan.some => ev_num 112 ev_PAN
    case detune.some => ev_num 75 ev_DETUNE
    case env.some => ev_num 69 ev_VOL_ENVELOPE
    case pitchEnv.some => ev_num 77 ev_PITCH_ENVELOPE
    case panEnv.some => ev_num 80 ev_PAN_ENVELOPE
    case porta.some => ev_num 71 ev_PORTAMENTO
    case tempoBpm.some => ev_num 116 ev_TEMPO_BPM
    case tempo.some => ev_num 84 ev_TEMPO
    case transpose.some =>
      have h := lstep_envelope f s hs 95 _ (by simpa [Cmd.bytes, Simple.spellingBytes, MmlMeaning.optNumBytes] using hsuf) (by omega)
        (fun t => t.addEvent ev_TRANSPOSE n.v 0 0) (1 + n.bytes.length) (fun s0 hs0 hsuf0 => transpose_span s0 hs0 95 (Or.inl rfl) n tail hsuf0 hn ht)
      rw [h]
      simp only [Cmd.bytes, Simple.spellingBytes, MmlMeaning.optNumBytes, lcmdSkip, List.length_append, List.length_cons, List.length_nil, Nat.add_zero, Nat.zero_add]
      rfl
    case kTranspose.some =>
      have h := lstep_envelope f s hs 107 _ (by simpa [Cmd.bytes, Simple.spellingBytes, MmlMeaning.optNumBytes] using hsuf) (by omega)
        (fun t => t.addEvent ev_TRANSPOSE n.v 0 0) (1 + n.bytes.length) (fun s0 hs0 hsuf0 => transpose_span s0 hs0 107 (Or.inr rfl) n tail hsuf0 hn ht)
      rw [h]
      simp only [Cmd.bytes, Simple.spellingBytes, MmlMeaning.optNumBytes, lcmdSkip, List.length_append, List.length_cons, List.length_nil, Nat.add_zero, Nat.zero_add]
      rfl
    case transposeRel.some =>
      have h := lstep_envelope f s hs 95 _ (by simpa [Cmd.bytes, Simple.spellingBytes, MmlMeaning.optNumBytes] using hsuf) (by omega)
        (fun t => t.addEvent ev_TRANSPOSE_REL n.v 0 0) (2 + n.bytes.length) (fun s0 hs0 hsuf0 => transposeRel_span s0 hs0 n tail hsuf0 hn ht)
      rw [h]
      simp only [Cmd.bytes, Simple.spellingBytes, MmlMeaning.optNumBytes, lcmdSkip, List.length_append, List.length_cons, List.length_nil, Nat.add_zero, Nat.zero_add]
      rfl
    case platform.some =>
      have h := platform_step f s hs n tail (by simpa [Cmd.bytes, Simple.spellingBytes, MmlMeaning.optNumBytes] using hsuf) hn ht
      rw [h]
      simp only [Cmd.bytes, Simple.spellingBytes, MmlMeaning.optNumBytes, lcmdSkip, List.length_append, List.length_cons, List.length_nil, Nat.add_zero, Nat.zero_add]
      rfl
  · have h := lstep_envelope f s hs 68 _ (by simpa [Cmd.bytes] using hsuf) (by omega) (fun t => t.setDrumMode (u16 n.v)) (1 + n.bytes.length)
      (fun s0 hs0 hsuf0 => drum_span s0 hs0 n tail hsuf0 hn ht)
    rw [h]
    simp only [Cmd.bytes, lcmdSkip, List.length_cons, Nat.add_zero]
    rw [Nat.add_comm]
    rfl
  · -- reverse rest
    obtain ⟨t1, ht1⟩ : ∃ t1, t1 = (getTrack s).setReference (some { line := s.inp.line, column := s.inp.lb.column }) := ⟨_, rfl⟩
    have hn1 : LCmdNums t1 (.revRest d) := by
      rw [← lcmdNums_strip, ht1, Track.strip_setReference]; exact hn
    have hs0 : Sane (setTrack s t1) := sane_setTrack _ _ hs
    have hsuf0 : suffix (setTrack s t1) = 82 :: (d.bytes ++ tail) := by rw [suffix_setTrack]; simpa [Cmd.bytes] using hsuf
    have hspan := revRest_span (setTrack s t1) hs0 d tail hsuf0 hn1.1 ht (by rw [getTrack_setTrack]; exact hn1.2)
    rw [getTrack_setTrack, setTrack_setTrack] at hspan
    have hsuf' : suffix s = List.replicate 0 32 ++ 82 :: (d.bytes ++ tail) := by simpa [Cmd.bytes] using hsuf
    have := step_basic f s hs 0 82 _ hsuf' (by omega) (by unfold NotLoopChar; omega) _ (by
      rw [adv_zero, Nat.add_zero, ← ht1]; exact hspan)
    rw [this, ht1]
    simp only [Cmd.bytes, lcmdSkip, List.length_cons]
    have e : 1 + d.bytes.length + durSkip d tail = d.bytes.length + 1 + durSkip d tail := by omega
    rw [e]; rfl
  · -- grace note
    have hl : l < 8 := hc
    obtain ⟨t1, ht1⟩ : ∃ t1, t1 = (getTrack s).setReference (some { line := s.inp.line, column := s.inp.lb.column }) := ⟨_, rfl⟩
    have hn1 : LCmdNums t1 (.grace l a d) := by
      rw [← lcmdNums_strip, ht1, Track.strip_setReference]; exact hn
    have hlb : MmlMeaning.letterByte l = 97 + l := by unfold MmlMeaning.letterByte; rw [Nat.mod_eq_of_lt hl]
    have hs0 : Sane (setTrack s t1) := sane_setTrack _ _ hs
    have hsuf0 : suffix (setTrack s t1) = 126 :: (97 + l) :: (a.bytes ++ (d.bytes ++ tail)) := by
      rw [suffix_setTrack]; simpa [Cmd.bytes, hlb] using hsuf
    have hspan := grace_span (setTrack s t1) hs0 l hl a d tail hsuf0 hn1.1 ht.1 ht.2 (by rw [getTrack_setTrack]; exact hn1.2)
    rw [getTrack_setTrack, setTrack_setTrack] at hspan
    have hsuf' : suffix s = List.replicate 0 32 ++ 126 :: ((97 + l) :: (a.bytes ++ (d.bytes ++ tail))) := by simpa [Cmd.bytes, hlb] using hsuf
    have := step_basic f s hs 0 126 _ hsuf' (by omega) (by unfold NotLoopChar; omega) _ (by
      rw [adv_zero, Nat.add_zero, ← ht1]; exact hspan)
    rw [this, ht1]
    simp only [Cmd.bytes, lcmdSkip, List.length_cons, List.length_append]
    have e : 2 + a.bytes.length + d.bytes.length + durSkip d tail = a.bytes.length + 1 + 1 + d.bytes.length + durSkip d tail := by omega
    rw [e]; rfl
  · rw [lcmdTrack_covered _ _ hcov, lcmdSkip_covered _ _ hcov]
    rw [lcmdNums_covered _ _ hcov] at hn
    rw [lcmdTail_covered _ _ hcov] at ht
    exact parseF_cmd_step f s hs cmd tail hcov hsuf hn ht

end Ctrmml.Mml
