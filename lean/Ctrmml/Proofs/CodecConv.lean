/-
  The converse of `convert_structured_eq`: when `convert_track` itself succeeds on the flat form of
  a bracket structure with a result shorter than 64 KiB, that result IS the structured two-pass
  encoding.  (`convert_structured_eq` needs the bound on the structured encoding; for a stream that
  is known only as part of a compiled chunk the bound is known for the real output.)
  Ingredient: the output of `convert_track` never shrinks along the events of a bracket structure.
-/
import Ctrmml.Proofs.CodecStruct
namespace Ctrmml.Codec
open Ctrmml.Mds Ctrmml.Seq Tables

theorem encAll_cons_ok {nS nM : Nat} {e e' : Enc} {ev : MEv} {es : List MEv} (h : encAll nS nM e (ev :: es) = .ok e') :
    ∃ e1, encEv nS nM e ev = .ok e1 ∧ encAll nS nM e1 es = .ok e' := by
  simp only [encAll] at h
  cases h1 : encEv nS nM e ev with
  | error x => rw [h1] at h; cases h
  | ok e1 => rw [h1] at h; exact ⟨e1, rfl, h⟩

theorem encAll_append_ok {nS nM : Nat} {e e' : Enc} {a b : List MEv} (h : encAll nS nM e (a ++ b) = .ok e') :
    ∃ e1, encAll nS nM e a = .ok e1 ∧ encAll nS nM e1 b = .ok e' := by
  rw [encAll_append] at h
  cases h1 : encAll nS nM e a with
  | error x => rw [h1] at h; cases h
  | ok e1 => rw [h1] at h; exact ⟨e1, rfl, h⟩

theorem encAll_single_ok {nS nM : Nat} {e e' : Enc} {ev : MEv} (h : encAll nS nM e [ev] = .ok e') :
    encEv nS nM e ev = .ok e' := by
  obtain ⟨e1, h1, h2⟩ := encAll_cons_ok h
  simp only [encAll, Except.ok.injEq] at h2
  subst h2; exact h1

/-- the break marker never emits anything -/
theorem encEv_lpb_out {nS nM : Nat} {e e' : Enc} {arg : Nat} (h : encEv nS nM e ⟨mds_LPB, arg⟩ = .ok e') : e'.out = e.out := by
  by_cases hs : e.breaks.head?.getD 0 ≠ 0
  · rw [encEv_xbrk nS nM e arg hs] at h
    simp only [Except.ok.injEq] at h; subst h; rfl
  · cases hb : e.breaks with
    | nil =>
      have : encEv nS nM e ⟨mds_LPB, arg⟩ = .error .stackEmpty := by
        simp [encEv, hb, encOther, mds_LPB, mds_SEGNO, mds_SLR, mds_FINISH, byteArgOps, wordArgOps, mds_REST, mds_MTAB,
          mds_INS, mds_PCM, mds_PEG, mds_JUMP, mds_PAT, mds_LP, mds_VOL, mds_VOLM, mds_TRS, mds_TRSM, mds_DTN, mds_PTA,
          mds_PAN, mds_LFO, mds_FLG, mds_DMFINISH, mds_COMM, mds_TEMPO, mds_PCMRATE, mds_PCMMODE, mds_FMREG, mds_FMCREG,
          mds_FMTL, mds_FMTLM]
      rw [this] at h; cases h
    | cons b r =>
      have hb0 : b = 0 := by
        rw [hb] at hs; simpa using hs
      subst hb0
      rw [encEv_lpb nS nM e arg r hb] at h
      simp only [Except.ok.injEq] at h; subst h; rfl

/-- the loop end adds at least its two bytes -/
theorem encEv_lpf_len {nS nM : Nat} {e e' : Enc} {arg : Nat} (h : encEv nS nM e ⟨mds_LPF, arg⟩ = .ok e') :
    e.out.length + 2 ≤ e'.out.length := by
  cases hb : e.breaks with
  | nil =>
    have h1 : encOther nS nM e mds_LPF arg = .error .stackEmpty := by rw [encOther_lpf, hb]
    have : encEv nS nM e ⟨mds_LPF, arg⟩ = .error .stackEmpty := by
      have a1 : ¬ (mds_LPF = mds_LPB ∧ e.breaks.head?.getD 0 ≠ 0) := by intro hh; exact absurd hh.1 (by decide)
      have a2 : ¬ (mds_LPF = mds_REST ∧ arg ≠ 0) := by intro hh; exact absurd hh.1 (by decide)
      have a3 : ¬ (mds_LPF < mds_SLR ∧ arg ≠ 0) := by intro hh; exact absurd hh.1 (by decide)
      simp only [encEv, a1, a2, a3, if_false, h1]
    rw [this] at h; cases h
  | cons b r =>
    have h1 := encOther_lpf nS nM e arg
    rw [hb] at h1
    simp only at h1
    by_cases hb0 : b ≠ 0
    · rw [if_pos hb0] at h1
      rw [encEv_other (by decide) h1] at h
      simp only [Except.ok.injEq] at h
      subst h
      simp only [List.length_append, List.length_take, List.length_drop, List.length_cons, List.length_nil]
      split <;> simp <;> omega
    · rw [if_neg hb0] at h1
      rw [encEv_other (by decide) h1] at h
      simp only [Except.ok.injEq] at h
      subst h
      simp

mutual
theorem encAll_flat_len (nS nM : Nat) : ∀ (t : Node), t.lin = true → ∀ (e e' : Enc), encAll nS nM e t.flat = .ok e' →
    e.out.length ≤ e'.out.length
  | .ev ev, hl, e, e', h => by
    simp only [Node.flat] at h
    obtain ⟨e'', h1, p, _, _⟩ := encEv_lin_total nS nM e ev (by simpa [Node.lin] using hl)
    rw [encAll_single_ok h] at h1
    simp only [Except.ok.injEq] at h1; subst h1
    exact p.length_le
  | .xbrk, _, e, e', h => by
    simp only [Node.flat] at h
    rw [encEv_lpb_out (encAll_single_ok h)]; exact Nat.le_refl _
  | .call arg _, _, e, e', h => by
    simp only [Node.flat] at h
    have := encAll_single_ok h
    rw [encEv_pat] at this
    simp only [Except.ok.injEq] at this; subst this
    simp [afterPAT]
  | .loop body n, hl, e, e', h => by
    have hl' : linL body = true := by simpa [Node.lin] using hl
    simp only [Node.flat] at h
    obtain ⟨e1, h1, h2⟩ := encAll_cons_ok h
    rw [encEv_lp] at h1
    simp only [Except.ok.injEq] at h1
    have h1' : afterLP e = e1 := h1
    subst h1'; clear h1
    obtain ⟨e2, h3, h4⟩ := encAll_append_ok h2
    have l1 := encAll_flatL_len nS nM body hl' _ _ h3
    have l2 := encEv_lpf_len (encAll_single_ok h4)
    have l0 : e.out.length ≤ (afterLP e).out.length := by simp [afterLP]
    omega
  | .loopB body tail n, hl, e, e', h => by
    simp only [Node.lin, Bool.and_eq_true] at hl
    simp only [Node.flat] at h
    obtain ⟨e1, h1, h2⟩ := encAll_cons_ok h
    rw [encEv_lp] at h1
    simp only [Except.ok.injEq] at h1
    have h1' : afterLP e = e1 := h1
    subst h1'; clear h1
    obtain ⟨e2, h3, h4⟩ := encAll_append_ok h2
    obtain ⟨e3, h5, h6⟩ := encAll_cons_ok h4
    obtain ⟨e4, h7, h8⟩ := encAll_append_ok h6
    have l1 := encAll_flatL_len nS nM body hl.1 _ _ h3
    have l2 : e3.out.length = e2.out.length := by rw [encEv_lpb_out h5]
    have l3 := encAll_flatL_len nS nM tail hl.2 _ _ h7
    have l4 := encEv_lpf_len (encAll_single_ok h8)
    have l0 : e.out.length ≤ (afterLP e).out.length := by simp [afterLP]
    omega
theorem encAll_flatL_len (nS nM : Nat) : ∀ (ts : List Node), linL ts = true → ∀ (e e' : Enc),
    encAll nS nM e (flatL ts) = .ok e' → e.out.length ≤ e'.out.length
  | [], _, e, e', h => by simp only [flatL, encAll, Except.ok.injEq] at h; subst h; exact Nat.le_refl _
  | t :: ts, hl, e, e', h => by
    simp only [linL, Bool.and_eq_true] at hl
    simp only [flatL] at h
    obtain ⟨e1, h1, h2⟩ := encAll_append_ok h
    exact Nat.le_trans (encAll_flat_len nS nM t hl.1 _ _ h1) (encAll_flatL_len nS nM ts hl.2 _ _ h2)
end

mutual
/-- **the converse** (nodes): a successful run of `convert_track`'s event loop over the flat form of a
bracket structure, ending below 64 KiB, computed the structured two-pass encoding -/
theorem encN_conv (nS nM : Nat) : ∀ (t : Node) (top : Bool), t.lin = true → t.brkOk top = true → ∀ (e e' : Enc),
    (top = true → e.breaks.head?.getD 0 ≠ 0) → encAll nS nM e t.flat = .ok e' → e'.out.length < 65536 →
    encN nS nM t e = .ok e'
  | .ev ev, _, _, _, e, e', _, h, _ => by
    simp only [Node.flat] at h
    simpa [encN] using encAll_single_ok h
  | .xbrk, top, _, hk, e, e', hbr, h, _ => by
    simp only [Node.flat] at h
    have ht : top = true := by simpa [Node.brkOk] using hk
    have := encAll_single_ok h
    rw [encEv_xbrk nS nM e 0 (hbr ht)] at this
    simpa [encN] using this
  | .call arg _, _, _, _, e, e', _, h, _ => by
    simp only [Node.flat] at h
    have := encAll_single_ok h
    rw [encEv_pat] at this
    simpa [encN] using this
  | .loop body n, _, hl, hk, e, e', _, h, hb => by
    have hl' : linL body = true := by simpa [Node.lin] using hl
    have hk' : brkOkL false body = true := by simpa [Node.brkOk] using hk
    simp only [Node.flat] at h
    obtain ⟨e1, h1, h2⟩ := encAll_cons_ok h
    rw [encEv_lp] at h1
    simp only [Except.ok.injEq] at h1
    have h1' : afterLP e = e1 := h1
    subst h1'; clear h1
    obtain ⟨e2, h3, h4⟩ := encAll_append_ok h2
    have h5 := encAll_single_ok h4
    have l2 := encEv_lpf_len h5
    have ih := encL_conv nS nM body false hl' hk' _ _ (fun h => by cases h) h3 (by omega)
    obtain ⟨_, h2', _, b2, _⟩ := encL_total nS nM body hl' (afterLP e)
    rw [ih] at h2'; injection h2' with h2'; subst h2'
    rw [encEv_lpf_nobreak nS nM e2 n e.breaks (by rw [b2]; rfl)] at h5
    simp only [Except.ok.injEq] at h5
    simp only [encN, ih, Except.ok.injEq]
    exact h5
  | .loopB body tail n, _, hl, hk, e, e', _, h, hb => by
    simp only [Node.lin, Bool.and_eq_true] at hl
    simp only [Node.brkOk, Bool.and_eq_true] at hk
    -- the structured encoding exists; it remains to bound it
    obtain ⟨es, hes, _, _, _⟩ := encN_total nS nM (.loopB body tail n) (by simp [Node.lin, hl.1, hl.2]) e
    -- the real run, stage by stage
    have h0 := h
    simp only [Node.flat] at h
    obtain ⟨e1, h1, h2⟩ := encAll_cons_ok h
    rw [encEv_lp] at h1
    simp only [Except.ok.injEq] at h1
    have h1' : afterLP e = e1 := h1
    subst h1'; clear h1
    obtain ⟨e2, h3, h4⟩ := encAll_append_ok h2
    obtain ⟨e3, h5, h6⟩ := encAll_cons_ok h4
    obtain ⟨e4, h7, h8⟩ := encAll_append_ok h6
    have h9 := encAll_single_ok h8
    have l3 := encAll_flatL_len nS nM tail hl.2 _ _ h7
    have l4 := encEv_lpf_len h9
    have l2 : e3.out.length = e2.out.length := by rw [encEv_lpb_out h5]
    have hlen2 : e2.out.length < 65536 := by omega
    have ih2 := encL_conv nS nM body false hl.1 hk.1 _ _ (fun h => by cases h) h3 hlen2
    obtain ⟨_, h2', p2, b2, _⟩ := encL_total nS nM body hl.1 (afterLP e)
    rw [ih2] at h2'; injection h2' with h2'; subst h2'
    rw [encEv_lpb nS nM e2 0 e.breaks (by rw [b2]; rfl)] at h5
    simp only [Except.ok.injEq] at h5; subst h5
    have hpos : e2.out.length ≠ 0 := by
      have := p2.length_le; simp [afterLP] at this; omega
    have hbr3 : (atLPB e2 e.breaks).breaks.head?.getD 0 ≠ 0 := by
      show e2.out.length % 65536 ≠ 0; omega
    have ih4 := encL_conv nS nM tail true hl.2 hk.2 _ _ (fun _ => hbr3) h7 (by omega)
    -- pass 1 of the structured encoder appends the same bytes as the real run after the marker
    obtain ⟨e4s, h4s, _, _, _⟩ := encL_total nS nM tail hl.2 (afterLPB e2 [])
    have sim2 : SimE (afterLPB e2 []) (atLPB e2 e.breaks) :=
      ⟨rfl, rfl, rfl, fun hn => by simp [afterLPB, noteish, mds_LPB, mds_SLR] at hn⟩
    obtain ⟨x, hx, q2⟩ := encL_par nS nM tail hl.2 _ _ _ sim2 h4s
    rw [ih4] at hx; injection hx with hx; subst hx
    obtain ⟨B, a2, b2'⟩ := q2.app
    have ho4s : e4s.out = e2.out ++ B := by simpa [afterLPB] using a2
    have ho4 : e4.out = e2.out ++ B := by rw [b2']; rfl
    obtain ⟨e4', h4', _, _, _⟩ := encL_total nS nM tail hl.2 (afterLPB e2 (brkCmd (e4s.out.length - e2.out.length + 2)))
    have sim1 : SimE (afterLPB e2 []) (afterLPB e2 (brkCmd (e4s.out.length - e2.out.length + 2))) :=
      sim_afterLPB ⟨rfl, rfl, rfl, fun _ => rfl⟩ _ _
    obtain ⟨y, hy, q1⟩ := encL_par nS nM tail hl.2 _ _ _ sim1 h4s
    rw [h4'] at hy; injection hy with hy; subst hy
    obtain ⟨B', a1, b1⟩ := q1.app
    have hBB : B' = B := by
      rw [a2] at a1; exact (List.append_cancel_left a1).symm
    subst hBB
    have ho4' : e4'.out = e2.out ++ brkCmd (e4s.out.length - e2.out.length + 2) ++ B' := by simpa [afterLPB] using b1
    have hes' : es = afterLPFB e4' n e.breaks := by
      simp only [encN, ih2, h4s, h4', Except.ok.injEq] at hes
      exact hes.symm
    -- the bound: the real output is as long
    have hoff : e4s.out.length - e2.out.length + 2 = B'.length + 2 := by rw [ho4s]; simp
    have hbrk : e4.breaks = e2.out.length :: e.breaks := by
      obtain ⟨_, h4r', _, b4r, _⟩ := encL_total nS nM tail hl.2 (atLPB e2 e.breaks)
      rw [ih4] at h4r'; injection h4r' with h4r'; subst h4r'
      rw [b4r]; show e2.out.length % 65536 :: e.breaks = _; congr 1; omega
    have h5' := encEv_lpf_break nS nM e4 n e2.out B' e.breaks ho4 hbrk hpos (by omega)
    rw [h9] at h5'
    simp only [Except.ok.injEq] at h5'
    have hl' : e'.out.length = e2.out.length + (brkCmd (B'.length + 2)).length + B'.length + 2 := by
      rw [h5']; simp [patched, Nat.add_assoc]
    have hbound : es.out.length < 65536 := by
      rw [hes']
      have : (afterLPFB e4' n e.breaks).out.length = e2.out.length + (brkCmd (B'.length + 2)).length + B'.length + 2 := by
        simp [afterLPFB, ho4', hoff, Nat.add_assoc]
      omega
    have := encN_eq nS nM (.loopB body tail n) false (by simp [Node.lin, hl.1, hl.2]) (by simp [Node.brkOk, hk.1, hk.2]) e es
      (fun h => by cases h) hes hbound
    rw [h0] at this
    injection this with this
    rw [this]; exact hes
theorem encL_conv (nS nM : Nat) : ∀ (ts : List Node) (top : Bool), linL ts = true → brkOkL top ts = true → ∀ (e e' : Enc),
    (top = true → e.breaks.head?.getD 0 ≠ 0) → encAll nS nM e (flatL ts) = .ok e' → e'.out.length < 65536 →
    encL nS nM ts e = .ok e'
  | [], _, _, _, e, e', _, h, _ => by simpa [flatL, encAll, encL] using h
  | t :: ts, top, hl, hk, e, e', hbr, h, hb => by
    simp only [linL, Bool.and_eq_true] at hl
    simp only [brkOkL, Bool.and_eq_true] at hk
    simp only [flatL] at h
    obtain ⟨e1, h1, h2⟩ := encAll_append_ok h
    have l2 := encAll_flatL_len nS nM ts hl.2 _ _ h2
    have ih1 := encN_conv nS nM t top hl.1 hk.1 _ _ hbr h1 (by omega)
    obtain ⟨_, h1', _, b1, _⟩ := encN_total nS nM t hl.1 e
    rw [ih1] at h1'; injection h1' with h1'; subst h1'
    have ih2 := encL_conv nS nM ts top hl.2 hk.2 _ _ (fun ht => by rw [b1]; exact hbr ht) h2 hb
    simp [encL, ih1, ih2]
end

theorem convertTrack_ok {nS nM : Nat} {es : List MEv} {bytes : List Nat} (h : convertTrack nS nM es = .ok bytes) :
    ∃ e', encAll nS nM {} es = .ok e' ∧ e'.out = bytes := by
  unfold convertTrack at h
  cases h1 : encAll nS nM {} es with
  | error x => rw [h1] at h; simp [Except.map] at h
  | ok e' => rw [h1] at h; simp [Except.map] at h; exact ⟨e', rfl, h⟩

/-- **shape (F) from the real side**: a stream `convert_track` made of `ta, FINISH`, shorter than 64 KiB -/
theorem shape_f_conv (nS nM : Nat) (ta : List Node) (ha : linL ta = true) (ka : brkOkL false ta = true) (farg : Nat)
    (bytes : List Nat) (h : convertTrack nS nM (flatL ta ++ [⟨mds_FINISH, farg⟩]) = .ok bytes) (hb : bytes.length < 65536) :
    ∃ eA, encL nS nM ta {} = .ok eA ∧ bytes = eA.out ++ [mds_FINISH] := by
  obtain ⟨e', h1, rfl⟩ := convertTrack_ok h
  obtain ⟨e1, h2, h3⟩ := encAll_append_ok h1
  have h4 := encAll_single_ok h3
  rw [encEv_finish] at h4
  simp only [Except.ok.injEq] at h4
  subst h4
  simp only [List.length_append, List.length_cons, List.length_nil] at hb
  exact ⟨e1, encL_conv nS nM ta false ha ka {} e1 (fun h => by cases h) h2 (by omega), rfl⟩

theorem encEv_dmfinish (nS nM : Nat) (e : Enc) (arg : Nat) :
    encEv nS nM e ⟨mds_DMFINISH, arg⟩ =
      .ok { e with out := e.out ++ [mds_DMFINISH, arg % 256], lastType := mds_DMFINISH } :=
  encEv_other (by decide) (encOther_byte nS nM e arg (by decide))

/-- **a drum routine from the real side**: a stream `convert_track` made of `ta, DMFINISH k`, shorter
than 64 KiB -/
theorem shape_d_conv (nS nM : Nat) (ta : List Node) (ha : linL ta = true) (ka : brkOkL false ta = true) (darg : Nat)
    (bytes : List Nat) (h : convertTrack nS nM (flatL ta ++ [⟨mds_DMFINISH, darg⟩]) = .ok bytes)
    (hb : bytes.length < 65536) :
    ∃ eA, encL nS nM ta {} = .ok eA ∧ bytes = eA.out ++ [mds_DMFINISH, darg % 256] := by
  obtain ⟨e', h1, rfl⟩ := convertTrack_ok h
  obtain ⟨e1, h2, h3⟩ := encAll_append_ok h1
  have h4 := encAll_single_ok h3
  rw [encEv_dmfinish] at h4
  simp only [Except.ok.injEq] at h4
  subst h4
  simp only [List.length_append, List.length_cons, List.length_nil] at hb
  exact ⟨e1, encL_conv nS nM ta false ha ka {} e1 (fun h => by cases h) h2 (by omega), rfl⟩

end Ctrmml.Codec
