/-
  The length-compression codec of `convert_track` round-trips (C02), linear fragment:
  rests, notes, ties, slur, one- and two-argument commands.  Port of
  notes/proto_codec_roundtrip.lean to the real model (`Mds.encEv`) and the real interpreter
  (`Seq.step`).

  Invariant `Good M e s O`: the encoder's `lastNote`/`lastRest`, when not `0xffff`, equal the
  interpreter's registers; either the interpreter stands at the end of the bytes emitted so far
  ("idle"), or the last emitted byte is a bare note/tie byte that the interpreter has not
  executed yet ("pending": its length is the remembered one unless the next byte is a length).
  `O` is the interpreter's (reversed) output once the pending note has been played.
  All lemmas are stated for an arbitrary byte string `seq` that extends the encoder output and
  for an arbitrary interpreter state related to the encoder state, so that they can be re-used
  for the second pass after the loop-back jump and for every pass of a counted loop.
-/
import Ctrmml.Proofs.CodecBase
namespace Ctrmml.Codec
open Ctrmml.Mds Ctrmml.Seq Tables

variable {seq : List Nat} {base mj : Nat} {M : Mode}

/-! ### the encoder's predicates in closed form -/

def lastGt80 (l : List Nat) : Bool :=
  match l.getLast? with
  | some b => decide (b > 0x80)
  | none => false

def needLenB (e : Enc) : Bool := noteish e.lastType && lastGt80 e.out

theorem needLen_eq (e : Enc) : needLen e = .ok (needLenB e) := by
  unfold needLen needLenB lastGt80
  cases noteish e.lastType <;> cases e.out.getLast? <;> simp

def disambP (e : Enc) : Enc :=
  if needLenB e then { e with lastType := mds_REST, out := e.out ++ [e.lastNote % 256] } else e

theorem disamb_eq (e : Enc) : disamb e = .ok (disambP e) := by
  unfold disamb disambP
  rw [needLen_eq]
  cases needLenB e <;> simp

theorem lastGt80_concat (l : List Nat) (b : Nat) : lastGt80 (l ++ [b]) = decide (b > 0x80) := by
  simp [lastGt80]

theorem restLoop_succ (fuel : Nat) (e : Enc) (arg : Nat) :
    restLoop (fuel + 1) e arg =
      if arg ≥ 128 then
        restLoop fuel { disambP e with out := (disambP e).out ++ [0x7f], lastRest := 0x7f } (arg - 128)
      else .ok (e, arg) := by
  simp [restLoop, disamb_eq]

/-! ### reading inside a prefix -/

theorem rd_prefix {l : List Nat} (h : l <+: seq) {i : Nat} (hi : i < l.length) : seq[i]? = l[i]? := by
  obtain ⟨t, rfl⟩ := h
  exact List.getElem?_append_left hi

theorem rd_at {l r : List Nat} {b : Nat} (h : l ++ b :: r <+: seq) : seq[l.length]? = some b := by
  rw [rd_prefix h (by simp)]
  simp

theorem rd_at1 {l r : List Nat} {a b : Nat} (h : l ++ a :: b :: r <+: seq) : seq[l.length + 1]? = some b := by
  rw [rd_prefix h (by simp)]
  simp

theorem rd_at2 {l r : List Nat} {a b c : Nat} (h : l ++ a :: b :: c :: r <+: seq) :
    seq[l.length + 1 + 1]? = some c := by
  rw [rd_prefix h (by simp; omega)]
  have : l.length + 1 + 1 = l.length + 2 := rfl
  rw [this, List.getElem?_append_right (by omega)]
  simp

theorem rd_last {l r : List Nat} {t : Nat} (h : l ++ r <+: seq) (hl : l.getLast? = some t) {pc : Nat}
    (hpc : pc + 1 = l.length) : seq[pc]? = some t := by
  have : pc = l.length - 1 := by omega
  rw [rd_prefix h (by simp; omega), List.getElem?_append_left (by omega), this, ← List.getLast?_eq_getElem?, hl]

/-! ### the invariant -/

def RegOk (r : Nat) (o : Option Nat) : Prop := r ≠ U16 → r < 128 ∧ o = some r

theorem RegOk.set (b : Nat) (hb : b < 128) : RegOk b (some b) := fun _ => ⟨hb, rfl⟩

structure Good (M : Mode) (e : Enc) (s : St) (O : List Tk) : Prop where
  note : RegOk e.lastNote s.lastNote
  rest : RegOk e.lastRest s.lastRest
  drum : s.drum = M.dm
  mode : (needLenB e = false ∧ s.pc = e.out.length ∧ s.out = O) ∨
         (needLenB e = true ∧ e.lastNote ≠ U16 ∧ ∃ ty, e.out.getLast? = some ty ∧ 0x81 ≤ ty ∧ ty < 0xe0 ∧
            s.pc + 1 = e.out.length ∧ O = (M.nt ty (e.lastNote + 1)).reverse ++ s.out ∧ M.okTy ty = true)

/-- between instructions -/
structure Idle (M : Mode) (e : Enc) (s : St) (O : List Tk) : Prop where
  note : RegOk e.lastNote s.lastNote
  rest : RegOk e.lastRest s.lastRest
  drum : s.drum = M.dm
  pc : s.pc = e.out.length
  out : s.out = O

theorem Idle.good {e : Enc} {s : St} {O : List Tk} (i : Idle M e s O) (h : needLenB e = false) : Good M e s O :=
  ⟨i.note, i.rest, i.drum, .inl ⟨h, i.pc, i.out⟩⟩

/-- a byte `≥ 0x80` follows: the pending note (if any) is played with the remembered length -/
theorem resolve (hS : M.Sound seq base mj) {e : Enc} {s : St} {O : List Tk} (g : Good M e s O) {b : Nat}
    {r : List Nat} (hb : b ≥ 0x80) (hp : e.out ++ b :: r <+: seq) :
    ∃ s1, Reach seq base mj s s1 ∧ Frame s s1 ∧ Idle M e s1 O := by
  rcases g.mode with ⟨_, hpc, ho⟩ | ⟨_, hk, ty, hl, h1, h2, hpc, ho, hok⟩
  · exact ⟨s, .refl _, Frame.rfl' _, ⟨g.note, g.rest, g.drum, hpc, ho⟩⟩
  · obtain ⟨hlt, hn⟩ := g.note hk
    have r0 : seq[s.pc]? = some ty := rd_last hp hl hpc
    have r1 : seq[s.pc + 1]? = some b := by rw [hpc]; exact rd_at hp
    obtain ⟨s1, rr, fr, hpc1, hn1, hr1, ho1⟩ := note_bare hS r0 h1 h2 r1 (by omega) hn g.drum hok
    refine ⟨s1, rr, fr, ⟨?_, ?_, ?_, ?_, ?_⟩⟩
    · rw [hn1]; exact g.note
    · rw [hr1]; exact g.rest
    · rw [fr.drum]; exact g.drum
    · rw [hpc1]; omega
    · rw [ho1, ho]

theorem disambP_prefix (e : Enc) : e.out <+: (disambP e).out := by
  unfold disambP; split
  · exact List.prefix_append _ _
  · exact List.prefix_refl _

/-- the disambiguation step: a pending note gets its explicit length byte -/
theorem disamb_good (hS : M.Sound seq base mj) {e : Enc} {s : St} {O : List Tk} (g : Good M e s O)
    (hp : (disambP e).out <+: seq) :
    ∃ s1, Reach seq base mj s s1 ∧ Frame s s1 ∧ Idle M (disambP e) s1 O ∧ needLenB (disambP e) = false ∧
      (disambP e).lastNote = e.lastNote ∧ (disambP e).lastRest = e.lastRest := by
  rcases g.mode with ⟨hn, hpc, ho⟩ | ⟨hn, hk, ty, hl, h1, h2, hpc, ho, hok⟩
  · have : disambP e = e := by simp [disambP, hn]
    rw [this]
    exact ⟨s, .refl _, Frame.rfl' _, ⟨g.note, g.rest, g.drum, hpc, ho⟩, hn, rfl, rfl⟩
  · obtain ⟨hlt, hreg⟩ := g.note hk
    have hm : e.lastNote % 256 = e.lastNote := by omega
    have hd : disambP e = { e with lastType := mds_REST, out := e.out ++ [e.lastNote] } := by
      simp [disambP, hn, hm]
    rw [hd] at hp ⊢
    have r0 : seq[s.pc]? = some ty := rd_last hp hl hpc
    have r1 : seq[s.pc + 1]? = some e.lastNote := by rw [hpc]; exact rd_at hp
    obtain ⟨s1, rr, fr, hpc1, hn1, hr1, ho1⟩ := note_len hS r0 h1 h2 r1 hlt g.drum hok
    refine ⟨s1, rr, fr, ⟨?_, ?_, ?_, ?_, ?_⟩, ?_, rfl, rfl⟩
    · intro _; exact ⟨hlt, hn1⟩
    · rw [hr1]; exact g.rest
    · rw [fr.drum]; exact g.drum
    · rw [hpc1]; simp; omega
    · rw [ho1, ho]
    · simp [needLenB, noteish, mds_REST, mds_TIE]

theorem Idle.congr {e e' : Enc} {s : St} {O : List Tk} (i : Idle M e s O) (ho : e'.out = e.out)
    (hn : e'.lastNote = e.lastNote) (hr : e'.lastRest = e.lastRest) : Idle M e' s O :=
  ⟨hn ▸ i.note, hr ▸ i.rest, i.drum, ho ▸ i.pc, i.out⟩

/-- a literal rest byte from an idle state -/
theorem pushRest_good {e e' : Enc} {s : St} {O : List Tk} (i : Idle M e s O) {b : Nat} (hb : b < 0x80)
    (ho : e'.out = e.out ++ [b]) (hr : e'.lastRest = b) (hn : e'.lastNote = e.lastNote) (hp : e'.out <+: seq) :
    ∃ s1, Reach seq base mj s s1 ∧ Frame s s1 ∧ Idle M e' s1 (List.replicate (b + 1) Tk.off ++ O) := by
  rw [ho] at hp
  have r0 : seq[s.pc]? = some b := by rw [i.pc]; exact rd_at hp
  have hs := step_restLit (base := base) (mj := mj) r0 hb
  refine ⟨_, .one hs (by simp), ⟨rfl, rfl, rfl, rfl⟩, ⟨?_, ?_, i.drum, ?_, ?_⟩⟩
  · rw [hn]; exact i.note
  · rw [hr]; exact RegOk.set b hb
  · simp [ho, i.pc]
  · simp [i.out]

theorem restLoop_frame : ∀ (fuel : Nat) (e : Enc) (arg : Nat) (e' : Enc) (a : Nat),
    restLoop fuel e arg = .ok (e', a) →
    e.out <+: e'.out ∧ e'.breaks = e.breaks ∧ e'.segnoPos = e.segnoPos ∧ e'.lastNote = e.lastNote := by
  intro fuel
  induction fuel with
  | zero => intro e arg e' a h; simp [restLoop] at h; obtain ⟨rfl, rfl⟩ := h; exact ⟨List.prefix_refl _, rfl, rfl, rfl⟩
  | succ f ih =>
    intro e arg e' a h
    rw [restLoop_succ] at h
    by_cases hc : arg ≥ 128
    · simp only [hc, if_true] at h
      obtain ⟨h1, h2, h3, h4⟩ := ih _ _ _ _ h
      have hd : e.out <+: (disambP e).out := disambP_prefix e
      have hd2 : (disambP e).breaks = e.breaks ∧ (disambP e).segnoPos = e.segnoPos ∧
          (disambP e).lastNote = e.lastNote := by
        unfold disambP; split <;> simp
      refine ⟨?_, ?_, ?_, ?_⟩
      · exact hd.trans ((List.prefix_append _ _).trans h1)
      · rw [h2]; exact hd2.1
      · rw [h3]; exact hd2.2.1
      · rw [h4]; exact hd2.2.2
    · simp only [hc, if_false, Except.ok.injEq, Prod.mk.injEq] at h
      obtain ⟨rfl, rfl⟩ := h
      exact ⟨List.prefix_refl _, rfl, rfl, rfl⟩

theorem restLoop_ok : ∀ (fuel : Nat) (e : Enc) (arg : Nat), ∃ e' a, restLoop fuel e arg = .ok (e', a) := by
  intro fuel
  induction fuel with
  | zero => intro e arg; exact ⟨e, arg, rfl⟩
  | succ f ih =>
    intro e arg
    rw [restLoop_succ]
    by_cases hc : arg ≥ 128
    · simp only [hc, if_true]; exact ih _ _
    · simp only [hc, if_false]; exact ⟨e, arg, rfl⟩

/-- the 128-tick splitting of a rest; fuel `f` suffices for `arg < 128 (f + 1)` -/
theorem restLoop_good (hS : M.Sound seq base mj) : ∀ (fuel : Nat) (e : Enc) (arg : Nat) (s : St) (O : List Tk) (e' : Enc) (a : Nat),
    Good M e s O → restLoop fuel e arg = .ok (e', a) → arg < 128 * (fuel + 1) → e'.out <+: seq →
    ∃ s1, Reach seq base mj s s1 ∧ Frame s s1 ∧ Good M e' s1 (List.replicate (arg - a) Tk.off ++ O) ∧
      a < 128 ∧ a ≤ arg := by
  intro fuel
  induction fuel with
  | zero =>
    intro e arg s O e' a g h hlt _
    simp [restLoop] at h; obtain ⟨rfl, rfl⟩ := h
    exact ⟨s, .refl _, Frame.rfl' _, by simpa using g, by omega, Nat.le_refl _⟩
  | succ f ih =>
    intro e arg s O e' a g h hlt hp
    have hfr := restLoop_frame _ _ _ _ _ h
    rw [restLoop_succ] at h
    by_cases hc : arg ≥ 128
    · simp only [hc, if_true] at h
      have hfr2 := restLoop_frame _ _ _ _ _ h
      have hp2 : ((disambP e).out ++ [0x7f]) <+: seq := hfr2.1.trans hp
      obtain ⟨s1, r1, f1, i1, _, hn1, hr1⟩ := disamb_good (base := base) (mj := mj) hS g ((List.prefix_append _ _).trans hp2)
      obtain ⟨s2, r2, f2, i2⟩ := pushRest_good (base := base) (mj := mj)
        (e' := { disambP e with out := (disambP e).out ++ [0x7f], lastRest := 0x7f }) i1 (by omega) rfl rfl rfl hp2
      have g2 := i2.good (by simp [needLenB, lastGt80_concat])
      obtain ⟨s3, r3, f3, g3, ha, hle⟩ := ih _ _ _ _ _ _ g2 h (by omega) hp
      refine ⟨s3, r1.trans (r2.trans r3), f1.trans (f2.trans f3), ?_, ha, by omega⟩
      have : List.replicate (arg - 128 - a) Tk.off ++ (List.replicate (0x7f + 1) Tk.off ++ O)
          = List.replicate (arg - a) Tk.off ++ O := by
        rw [← List.append_assoc, List.replicate_append_replicate]; congr 2; omega
      rw [← this]; exact g3
    · simp only [hc, if_false, Except.ok.injEq, Prod.mk.injEq] at h
      obtain ⟨rfl, rfl⟩ := h
      exact ⟨s, .refl _, Frame.rfl' _, by simpa using g, by omega, Nat.le_refl _⟩

/-- a rest of `n` ticks, `1 ≤ n ≤ 65535` -/
theorem encRest_good (hS : M.Sound seq base mj) {e : Enc} {s : St} {O : List Tk} (g : Good M e s O) {n : Nat} (h1 : 1 ≤ n) (h2 : n ≤ 65535)
    {e' : Enc} (h : encRest e n = .ok e') (hp : e'.out <+: seq) :
    ∃ s1, Reach seq base mj s s1 ∧ Frame s s1 ∧ Idle M e' s1 (List.replicate n Tk.off ++ O) := by
  obtain ⟨e1, a, hrl⟩ := restLoop_ok 512 e (n - 1)
  have hfr := restLoop_frame _ _ _ _ _ hrl
  unfold encRest at h
  rw [hrl] at h
  simp only at h
  have hT : ∀ X : List Tk, a ≤ n - 1 → List.replicate (a + 1) Tk.off ++ (List.replicate (n - 1 - a) Tk.off ++ O) = X →
      X = List.replicate n Tk.off ++ O := by
    intro X _ hX; rw [← hX, ← List.append_assoc, List.replicate_append_replicate]; congr 2; omega
  by_cases hc : a = e1.lastRest
  · simp only [hc, if_true, Except.ok.injEq] at h
    subst h
    have hp1 : e1.out ++ [mds_REST] <+: seq := hp
    obtain ⟨s1, r1, f1, g1, ha, hle⟩ := restLoop_good (base := base) (mj := mj) hS 512 e (n - 1) s O e1 a g hrl (by omega)
      ((List.prefix_append _ _).trans hp1)
    obtain ⟨s2, r2, f2, i2⟩ := resolve (base := base) (mj := mj) hS g1 (b := mds_REST) (by decide) hp1
    have hU : e1.lastRest ≠ U16 := by rw [← hc]; simp [U16]; omega
    obtain ⟨_, hrr⟩ := i2.rest hU
    have r0 : seq[s2.pc]? = some mds_REST := by rw [i2.pc]; exact rd_at hp1
    have hs := step_restRep (base := base) (mj := mj) r0 hrr
    refine ⟨_, r1.trans (r2.trans (.one hs (by simp))), f1.trans (f2.trans ⟨rfl, rfl, rfl, rfl⟩),
      ⟨i2.note, i2.rest, i2.drum, ?_, ?_⟩⟩
    · simp [i2.pc]
    · apply hT _ hle; simp [i2.out, ← hc]
  · simp only [hc, if_false, disamb_eq, Except.ok.injEq] at h
    subst h
    have hp1 : (disambP e1).out ++ [a % 256] <+: seq := hp
    have hpd : (disambP e1).out <+: seq := (List.prefix_append _ _).trans hp1
    obtain ⟨s1, r1, f1, g1, ha, hle⟩ := restLoop_good (base := base) (mj := mj) hS 512 e (n - 1) s O e1 a g hrl (by omega)
      ((disambP_prefix e1).trans hpd)
    obtain ⟨s2, r2, f2, i2, _, _, _⟩ := disamb_good (base := base) (mj := mj) hS g1 hpd
    have hm : a % 256 = a := by omega
    obtain ⟨s3, r3, f3, i3⟩ := pushRest_good (base := base) (mj := mj)
      (e' := { disambP e1 with out := (disambP e1).out ++ [a % 256], lastRest := a }) i2 (b := a) (by omega)
      (by simp [hm]) rfl rfl hp
    refine ⟨s3, r1.trans (r2.trans r3), f1.trans (f2.trans f3), ?_⟩
    rw [← hT _ hle rfl]; exact i3

theorem encRest_frame {e e' : Enc} {n : Nat} (h : encRest e n = .ok e') :
    e.out <+: e'.out ∧ e'.breaks = e.breaks ∧ e'.segnoPos = e.segnoPos := by
  obtain ⟨e1, a, hrl⟩ := restLoop_ok 512 e (n - 1)
  obtain ⟨h1, h2, h3, _⟩ := restLoop_frame _ _ _ _ _ hrl
  unfold encRest at h
  rw [hrl] at h
  simp only at h
  by_cases hc : a = e1.lastRest
  · simp only [hc, if_true, Except.ok.injEq] at h
    subst h
    exact ⟨h1.trans (List.prefix_append _ _), h2, h3⟩
  · simp only [hc, if_false, disamb_eq, Except.ok.injEq] at h
    subst h
    have hd2 : (disambP e1).breaks = e1.breaks ∧ (disambP e1).segnoPos = e1.segnoPos := by
      unfold disambP; split <;> simp
    exact ⟨h1.trans ((disambP_prefix e1).trans (List.prefix_append _ _)), hd2.1.trans h2, hd2.2.trans h3⟩

theorem encRest_ok (e : Enc) (n : Nat) : ∃ e', encRest e n = .ok e' := by
  obtain ⟨e1, a, hrl⟩ := restLoop_ok 512 e (n - 1)
  unfold encRest
  rw [hrl]
  simp only [disamb_eq]
  split <;> exact ⟨_, rfl⟩

end Ctrmml.Codec
