/-
  Helper lemmas for C07: a generic form of the chain `chStep → chSettle → chDec → chTick →
  chTicks` of Proofs/MdKeys.  A *summary* `S g c evs g' c' ops` relates the driver/channel state
  before and after a stretch of `write_event` calls to the events `evs` and the writes `ops`; a
  `Chain` says that the summary holds for every single way `write_event` is reached and composes.
  `chTicks_g` then gives the summary for the ticks of a whole update against any run of `ctTick`.
  Instances: tempo (Proofs/MdTempo), key/slur flags and PSG attenuation (Proofs/MdSlur).
-/
import Ctrmml.Proofs.MdKeys
namespace Ctrmml.MdDriver
open Ctrmml Player PlayerCh Tables TickStream

/-! ### `write_event` never touches the control/time part of the player (any channel kind) -/
theorem SameCtl.of_eq {c c' : Ch} (h1 : c'.kind = c.kind) (h2 : c'.root = c.root) (h3 : c'.ps = c.ps) : SameCtl c c' :=
  ⟨h1, h2, by rw [h3], by rw [h3], by rw [h3], by rw [h3]⟩

theorem keyOff_ctl (c : Ch) : SameCtl c (keyOff c).1 := by
  unfold keyOff
  split <;> exact ⟨rfl, rfl, rfl, rfl, rfl, rfl⟩

theorem vSetIns_ctl (d : Data) (c : Ch) : SameCtl c (vSetIns d c).1 ∧ (vSetIns d c).1.ps = c.ps := by
  unfold vSetIns
  cases hk : c.kind with
  | fm b i => simp only []; split <;> exact ⟨⟨by simp [hk], rfl, rfl, rfl, rfl, rfl⟩, rfl⟩
  | psg i => simp only []; split <;> exact ⟨⟨by simp [hk], rfl, rfl, rfl, rfl, rfl⟩, rfl⟩
  | noise => simp only []; split <;> exact ⟨⟨by simp [hk], rfl, rfl, rfl, rfl, rfl⟩, rfl⟩
  | dummy => exact ⟨⟨by simp [hk], rfl, rfl, rfl, rfl, rfl⟩, rfl⟩

theorem setIns_ctl (d : Data) (g : G) (c : Ch) : SameCtl c (setIns d g c).2.1 ∧ (setIns d g c).1 = g := by
  unfold setIns setVol
  refine ⟨?_, rfl⟩
  exact SameCtl.trans (vSetIns_ctl d c).1 (SameCtl.trans (SameCtl.clearFlag _ _) (SameCtl.clearFlag _ _))

theorem noteStart_ctl (g : G) (c : Ch) (e : Event) : SameCtl c (noteStart g c e).2.1 := by
  unfold noteStart
  by_cases hs : c.slur = true
  · simp only [hs, Bool.not_true, Bool.false_eq_true, if_false]
    exact ⟨rfl, rfl, rfl, rfl, rfl, rfl⟩
  · have hs' : c.slur = false := by simpa using hs
    simp only [hs', Bool.not_false, if_true]
    refine SameCtl.trans ?_ (keyOff_ctl _)
    exact ⟨rfl, rfl, rfl, rfl, rfl, rfl⟩

theorem insOrVol_ctl (d : Data) (g : G) (c : Ch) : SameCtl c (insOrVol d g c).2.1 := by
  unfold insOrVol
  split
  · obtain ⟨h, _⟩ := setIns_ctl d g c
    exact ⟨h.kind, h.root, h.core, h.acc, h.err, h.ts⟩
  · split
    · exact SameCtl.clearFlag c _
    · exact SameCtl.refl c

/-- `write_event` keeps kind, track, control/time state, player error and channel variables -/
theorem writeEvent_ctl (d : Data) (g : G) (c : Ch) (e : Event) : SameCtl c (writeEvent d g c e).2.1 := by
  unfold writeEvent
  simp only
  split
  · exact SameCtl.refl c
  split
  · exact SameCtl.trans (noteStart_ctl g c e) (insOrVol_ctl d _ _)
  split
  · exact insOrVol_ctl d g c
  split
  · exact keyOff_ctl c
  split
  · exact keyOff_ctl c
  split
  · exact ⟨rfl, rfl, rfl, rfl, rfl, rfl⟩
  split
  · unfold updateTempo; exact SameCtl.clearFlag c _
  split
  · exact SameCtl.refl c
  split
  · exact SameCtl.refl c
  split
  · split <;> exact SameCtl.refl c
  · exact SameCtl.refl c

section
variable (d : Data) (song : Song) (root : List Event)

/-- what the chain keeps about a channel: its track, no player error, drum mode off -/
structure Base (c : Ch) : Prop where
  root : c.root = root
  err : c.ps.err = none
  drum : drumOff c.ps.ch

/-- the ways `write_event` is reached with the player state `ps'`: the synthetic `REST` of the
count-down, the end hook (both leave the channel variables alone), or an event hook after
`handle_event` -/
inductive Reach (H : Event → Prop) (c : Ch) (ps' : PS) : Event → Prop
  | rest : ps'.ch = c.ps.ch → Reach H c ps' restEvent
  | fin : ps'.ch = c.ps.ch → Reach H c ps' endEvent
  | hook (v : Event) (s1 : PS) : s1.ch = c.ps.ch → v.type ≠ ev_PLATFORM → v.type ≠ ev_DRUM_MODE → H v →
      ps'.ch = (handleEvent song (fun _ => false) s1 v).1.ch → Reach H c ps' v

/-- a summary of `write_event` calls that holds call by call and composes -/
structure Chain (H : Event → Prop) (J : Ch → Prop) (S : G → Ch → List Event → G → Ch → List Wr → Prop) : Prop where
  /-- steps without a `write_event` call: only the player state (not its variables) and possibly
  the current event type (`END` after a return or the jump back) change -/
  move : ∀ (g : G) (c : Ch) (ps' : PS) (t : Nat), J c → ps'.ch = c.ps.ch → (t = c.evType ∨ t = ev_END) →
    J { c with ps := ps', evType := t } ∧ S g c [] g { c with ps := ps', evType := t } []
  event : ∀ (g : G) (c : Ch) (ps' : PS) (e : Event), J c → g.err = none → Reach song H c ps' e →
    (writeEvent d g { c with ps := ps', evType := e.type } e).1.err.isSome = true ∨
      (J (writeEvent d g { c with ps := ps', evType := e.type } e).2.1 ∧
       S g c [e] (writeEvent d g { c with ps := ps', evType := e.type } e).1
         (writeEvent d g { c with ps := ps', evType := e.type } e).2.1 (writeEvent d g { c with ps := ps', evType := e.type } e).2.2)
  trans : ∀ {g1 g2 g3 : G} {a b c : Ch} {e1 e2 : List Event} {o1 o2 : List Wr},
    S g1 a e1 g2 b o1 → S g2 b e2 g3 c o2 → S g1 a (e1 ++ e2) g3 c (o1 ++ o2)

/-- the result of a channel function: an error arose, or the channel followed the control/time
state `p` and the summary holds over the events `w` -/
def FollowsG (J : Ch → Prop) (S : G → Ch → List Event → G → Ch → List Wr → Prop)
    (g : G) (c : Ch) (p : PState) (w : List Event) (r : G × Ch × List Wr) : Prop :=
  r.1.err.isSome = true ∨
    (r.2.1.ps.core = p.core ∧ r.2.1.ps.acc = p.acc ∧ Base root r.2.1 ∧ J r.2.1 ∧ S g c w r.1 r.2.1 r.2.2)

variable {H : Event → Prop} {J : Ch → Prop} {S : G → Ch → List Event → G → Ch → List Wr → Prop}

/-- the channel variables after one `step_event` of the `Player` -/
theorem pstep_ch (hpl : PlainHooks song root) (s : PS) (he : s.err = none) :
    match step song root true ⟨s.core, s.acc⟩ with
    | .error _ => True
    | .ok (bs, em) =>
      match em with
      | .event v => (pstep song root (fun _ => false) false s).1.ch =
          (handleEvent song (fun _ => false) { s with core := bs.core, acc := bs.acc } v).1.ch
      | _ => (pstep song root (fun _ => false) false s).1.ch = s.ch := by
  unfold pstep
  simp only [he, Option.isSome_none, Bool.false_eq_true, if_false]
  cases hs : step song root true ⟨s.core, s.acc⟩ with
  | error e => trivial
  | ok p =>
    obtain ⟨bs, em⟩ := p
    simp only
    cases em with
    | nothing => rfl
    | finish => rfl
    | event v =>
      simp only
      split <;> rfl

include root in
theorem chStep_g (hpl : PlainHooks song root)
    (hH : ∀ c c' v f, coreStep song root c = .ok (c', .hook v f) → H v)
    (ch : Chain d song H J S) (g : G) (c : Ch) (hb : Base root c) (hj : J c) (hg : g.err = none)
    (bs : PState) (em : Emit) (hs : step song root true ⟨c.ps.core, c.ps.acc⟩ = .ok (bs, em)) :
    FollowsG root J S g c bs (emitEvents em) (chStep d song g c) := by
  have hroot := hb.root
  subst hroot
  have hp := pstep_ct song c.root (fun _ => false) hpl c.ps hb.err hb.drum
  have hc := pstep_ch song c.root hpl c.ps hb.err
  rw [hs] at hp hc
  simp only at hp hc
  obtain ⟨e1, e2, e3, e4, e5⟩ := hp
  unfold chStep
  simp only [e4, Option.isSome_none, Bool.false_eq_true, if_false]
  rw [e1]
  obtain ⟨ps', hps'⟩ : ∃ ps', ps' = (pstep song c.root (fun _ => false) false c.ps).1 := ⟨_, rfl⟩
  rw [← hps'] at e2 e3 e4 e5 hc ⊢
  have single : ∀ (e : Event), Reach song H c ps' e →
      FollowsG c.root J S g c bs [e] (writeEvent d g { c with ps := ps', evType := e.type } e) := by
    intro e hr
    have sc := writeEvent_ctl d g { c with ps := ps', evType := e.type } e
    rcases ch.event g c ps' e hj hg hr with h | ⟨h1, h2⟩
    · exact Or.inl h
    · exact Or.inr ⟨by rw [sc.core]; exact e2, by rw [sc.acc]; exact e3,
        ⟨sc.root, by rw [sc.err]; exact e4, drumOff_of_ts sc.ts e5⟩, h1, h2⟩
  cases em with
  | nothing =>
    simp only [emitEvents] at hc ⊢
    obtain ⟨m1, m2⟩ := ch.move g c ps' ev_END hj hc (Or.inr rfl)
    exact Or.inr ⟨e2, e3, ⟨rfl, e4, e5⟩, m1, m2⟩
  | finish =>
    simp only [emitEvents] at hc ⊢
    exact single endEvent (Reach.fin hc)
  | event v =>
    simp only [emitEvents] at hc ⊢
    obtain ⟨c', f, hcs⟩ := step_event_hook song c.root _ _ _ hs
    have hv := hpl _ _ _ _ hcs
    exact single v (Reach.hook v { c.ps with core := bs.core, acc := bs.acc } rfl hv.1 hv.2 (hH _ _ _ _ hcs) hc)

include root in
theorem chSettle_g (hpl : PlainHooks song root)
    (hH : ∀ c c' v f, coreStep song root c = .ok (c', .hook v f) → H v) (ch : Chain d song H J S) :
    ∀ (f : Nat) (g : G) (c : Ch), Base root c → J c → g.err = none →
    ∀ p w, ctSettle song root f ⟨c.ps.core, c.ps.acc⟩ = some (p, w) →
      FollowsG root J S g c p w (chSettle d song f g c)
  | 0, g, c, hb, hj, hg, p, w, h => by
    simp only [ctSettle] at h
    split at h
    · simp at h
    · rename_i hu
      simp only [Option.some.injEq, Prod.mk.injEq] at h
      obtain ⟨rfl, rfl⟩ := h
      have : isSettled c.ps = true := by rw [isSettled_ct c.ps hb.err]; simpa using hu
      simp only [chSettle, this, Bool.true_or, if_true]
      exact Or.inr ⟨rfl, rfl, hb, hj, (ch.move g c c.ps c.evType hj rfl (Or.inl rfl)).2⟩
  | f + 1, g, c, hb, hj, hg, p, w, h => by
    simp only [ctSettle] at h
    split at h
    · rename_i hu
      have hns' : isSettled c.ps = false := by rw [isSettled_ct c.ps hb.err]; simp [hu]
      cases hs : step song root true ⟨c.ps.core, c.ps.acc⟩ with
      | error e => rw [hs] at h; simp at h
      | ok q =>
        obtain ⟨bs, em⟩ := q
        rw [hs] at h
        simp only at h
        cases hcs : ctSettle song root f bs with
        | none => rw [hcs] at h; simp at h
        | some r =>
          rw [hcs] at h
          simp only [Option.map_some, Option.some.injEq, Prod.mk.injEq] at h
          obtain ⟨rfl, rfl⟩ := h
          have h1 := chStep_g d song root hpl hH ch g c hb hj hg bs em hs
          simp only [chSettle, hns', hg, Option.isSome_none, Bool.or_self, Bool.false_eq_true, if_false]
          cases hch : chStep d song g c with
          | mk g1 r1 =>
            obtain ⟨c1, o1⟩ := r1
            rw [hch] at h1
            simp only
            rcases h1 with herr | ⟨a1, a2, a3, a4, a5⟩
            · simp only at herr
              have : chSettle d song f g1 c1 = (g1, c1, []) := by
                cases f <;> simp [chSettle, herr]
              rw [this]
              exact Or.inl herr
            · simp only at a1 a2 a3 a4 a5
              cases hg1 : g1.err with
              | some x =>
                have herr : g1.err.isSome = true := by rw [hg1]; rfl
                have : chSettle d song f g1 c1 = (g1, c1, []) := by
                  cases f <;> simp [chSettle, herr]
                rw [this]
                exact Or.inl herr
              | none =>
                have hbs : (⟨c1.ps.core, c1.ps.acc⟩ : PState) = bs := by
                  cases bs; simp only [PState.mk.injEq]; exact ⟨a1, a2⟩
                have ih := chSettle_g hpl hH ch f g1 c1 a3 a4 hg1 r.1 r.2 (by rw [hbs]; exact hcs)
                cases hr : chSettle d song f g1 c1 with
                | mk g2 r2 =>
                  obtain ⟨c2, o2⟩ := r2
                  rw [hr] at ih
                  simp only
                  rcases ih with herr | ⟨b1, b2, b3, b4, b5⟩
                  · exact Or.inl herr
                  · exact Or.inr ⟨b1, b2, b3, b4, ch.trans a5 b5⟩
    · rename_i hu
      simp only [Option.some.injEq, Prod.mk.injEq] at h
      obtain ⟨rfl, rfl⟩ := h
      have : isSettled c.ps = true := by rw [isSettled_ct c.ps hb.err]; simpa using hu
      simp only [chSettle, this, Bool.true_or, if_true]
      exact Or.inr ⟨rfl, rfl, hb, hj, (ch.move g c c.ps c.evType hj rfl (Or.inl rfl)).2⟩

include root in
theorem chDec_g (ch : Chain d song H J S) (g : G) (c : Ch) (hb : Base root c) (hj : J c) (hg : g.err = none) :
    FollowsG root J S g c (ctDec ⟨c.ps.core, c.ps.acc⟩).1 (ctDec ⟨c.ps.core, c.ps.acc⟩).2 (chDec d g c) := by
  rw [ctDec_ch]
  unfold chDec
  have bOn : Base root c.decOn := ⟨hb.root, hb.err, hb.drum⟩
  have bOff : Base root c.decOff := ⟨hb.root, hb.err, hb.drum⟩
  by_cases h1 : c.ps.acc.onTime > 0
  · rw [if_pos h1, if_pos h1]
    by_cases h2 : c.ps.acc.onTime - 1 = 0 ∧ c.ps.acc.offTime > 0
    · rw [if_pos h2, if_pos h2]
      have sc := writeEvent_ctl d g { c.decOn with evType := ev_REST } restEvent
      rcases ch.event g c c.decOn.ps restEvent hj hg (Reach.rest rfl) with h | ⟨h3, h4⟩
      · exact Or.inl h
      · exact Or.inr ⟨sc.core, sc.acc, ⟨sc.root.trans hb.root, sc.err.trans hb.err, drumOff_of_ts sc.ts hb.drum⟩, h3, h4⟩
    · rw [if_neg h2, if_neg h2]
      obtain ⟨m1, m2⟩ := ch.move g c c.decOn.ps c.evType hj rfl (Or.inl rfl)
      exact Or.inr ⟨rfl, rfl, bOn, m1, m2⟩
  · rw [if_neg h1, if_neg h1]
    by_cases h2 : c.ps.acc.offTime > 0
    · rw [if_pos h2, if_pos h2]
      obtain ⟨m1, m2⟩ := ch.move g c c.decOff.ps c.evType hj rfl (Or.inl rfl)
      exact Or.inr ⟨rfl, rfl, bOff, m1, m2⟩
    · rw [if_neg h2, if_neg h2]
      exact Or.inr ⟨rfl, rfl, hb, hj, (ch.move g c c.ps c.evType hj rfl (Or.inl rfl)).2⟩

include root in
theorem chTick_g (hpl : PlainHooks song root)
    (hH : ∀ c c' v f, coreStep song root c = .ok (c', .hook v f) → H v) (ch : Chain d song H J S)
    (g : G) (c : Ch) (hb : Base root c) (hj : J c) (hg : g.err = none) (p : PState) (w : List Event)
    (h : ctTick song root ⟨c.ps.core, c.ps.acc⟩ = some (p, w)) :
    FollowsG root J S g c p w (chTick d song g c) := by
  unfold ctTick at h
  cases hcs : ctSettle song root settleFuel (ctDec ⟨c.ps.core, c.ps.acc⟩).1 with
  | none => rw [hcs] at h; simp at h
  | some r =>
    rw [hcs] at h
    simp only [Option.map_some, Option.some.injEq, Prod.mk.injEq] at h
    obtain ⟨rfl, rfl⟩ := h
    unfold chTick
    simp only [hg, Option.isSome_none, Bool.false_eq_true, if_false]
    have h1 := chDec_g d song root ch g c hb hj hg
    cases hd : chDec d g c with
    | mk g1 r1 =>
      obtain ⟨c1, o1⟩ := r1
      rw [hd] at h1
      simp only
      have stop : g1.err.isSome = true → chSettle d song settleFuel g1 c1 = (g1, c1, []) := by
        intro herr
        generalize settleFuel = f
        cases f <;> simp [chSettle, herr]
      rcases h1 with herr | ⟨a1, a2, a3, a4, a5⟩
      · simp only at herr
        rw [stop herr]; exact Or.inl herr
      · simp only at a1 a2 a3 a4 a5
        cases hg1 : g1.err with
        | some x =>
          have herr : g1.err.isSome = true := by rw [hg1]; rfl
          rw [stop herr]; exact Or.inl herr
        | none =>
          have hst : (⟨c1.ps.core, c1.ps.acc⟩ : PState) = (ctDec ⟨c.ps.core, c.ps.acc⟩).1 := by
            cases hx : (ctDec ⟨c.ps.core, c.ps.acc⟩).1 with
            | mk cc aa => rw [hx] at a1 a2; simp only at a1 a2 ⊢; rw [a1, a2]
          have ih := chSettle_g d song root hpl hH ch settleFuel g1 c1 a3 a4 hg1 r.1 r.2 (by rw [hst]; exact hcs)
          cases hr : chSettle d song settleFuel g1 c1 with
          | mk g2 r2 =>
            obtain ⟨c2, o2⟩ := r2
            rw [hr] at ih
            simp only
            rcases ih with herr | ⟨b1, b2, b3, b4, b5⟩
            · exact Or.inl herr
            · exact Or.inr ⟨b1, b2, b3, b4, ch.trans a5 b5⟩

include root in
/-- **the ticks of one update**: against any run of `ctTick` the summary holds over all events of
the run -/
theorem chTicks_g (hpl : PlainHooks song root)
    (hH : ∀ c c' v f, coreStep song root c = .ok (c', .hook v f) → H v) (ch : Chain d song H J S) :
    ∀ (n : Nat) (g : G) (c : Ch), Base root c → J c → g.err = none →
    ∀ p ws, ctRun song root n ⟨c.ps.core, c.ps.acc⟩ = some (p, ws) →
      FollowsG root J S g c p ws.flatten (chTicks d song n g c)
  | 0, g, c, hb, hj, hg, p, ws, h => by
    simp only [ctRun, Option.some.injEq, Prod.mk.injEq] at h
    obtain ⟨rfl, rfl⟩ := h
    exact Or.inr ⟨rfl, rfl, hb, hj, (ch.move g c c.ps c.evType hj rfl (Or.inl rfl)).2⟩
  | n + 1, g, c, hb, hj, hg, p, ws, h => by
    simp only [ctRun] at h
    cases ht : ctTick song root ⟨c.ps.core, c.ps.acc⟩ with
    | none => rw [ht] at h; simp at h
    | some r =>
      obtain ⟨s1, w⟩ := r
      rw [ht] at h
      simp only at h
      cases hr : ctRun song root n s1 with
      | none => rw [hr] at h; simp at h
      | some r2 =>
        rw [hr] at h
        simp only [Option.map_some, Option.some.injEq, Prod.mk.injEq] at h
        obtain ⟨rfl, rfl⟩ := h
        have h1 := chTick_g d song root hpl hH ch g c hb hj hg s1 w ht
        simp only [chTicks]
        cases hd : chTick d song g c with
        | mk g1 r1 =>
          obtain ⟨c1, o1⟩ := r1
          rw [hd] at h1
          simp only
          have stop : ∀ m, g1.err.isSome = true → (chTicks d song m g1 c1).1.err.isSome = true :=
            fun m herr => chTicks_err d song m g1 c1 herr
          rcases h1 with herr | ⟨a1, a2, a3, a4, a5⟩
          · simp only at herr
            cases hx : chTicks d song n g1 c1 with
            | mk g3 r3 => have := stop n herr; rw [hx] at this; exact Or.inl this
          · simp only at a1 a2 a3 a4 a5
            cases hg1 : g1.err with
            | some x =>
              have herr : g1.err.isSome = true := by rw [hg1]; rfl
              cases hx : chTicks d song n g1 c1 with
              | mk g3 r3 => have := stop n herr; rw [hx] at this; exact Or.inl this
            | none =>
              have hst : (⟨c1.ps.core, c1.ps.acc⟩ : PState) = s1 := by
                cases s1; simp only [PState.mk.injEq]; exact ⟨a1, a2⟩
              have ih := chTicks_g hpl hH ch n g1 c1 a3 a4 hg1 r2.1 r2.2 (by rw [hst]; exact hr)
              cases hx : chTicks d song n g1 c1 with
              | mk g3 r3 =>
                obtain ⟨c3, o3⟩ := r3
                rw [hx] at ih
                simp only
                rcases ih with herr | ⟨b1, b2, b3, b4, b5⟩
                · exact Or.inl herr
                · exact Or.inr ⟨b1, b2, b3, b4, by simpa using ch.trans a5 b5⟩

end

end Ctrmml.MdDriver
