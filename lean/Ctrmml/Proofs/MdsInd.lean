/-
  C09 helper: the invariant `Inv` holds along the mutually recursive writer
  (`hook` / `runWriter` / `getSubroutine` / `getMacroTrack`), by induction on the fuel.
-/
import Ctrmml.Proofs.MdsInv
namespace Ctrmml.Mds
open Ctrmml Ctrmml.Player Tables

/-- the subroutine and macro maps only grow, and so does `used_data_map` (`get_envelope` appends) -/
def SubMono (c c' : Conv) : Prop :=
  (∀ p ∈ c.subMap, p ∈ c'.subMap) ∧ (∀ p ∈ c.macroMap, p ∈ c'.macroMap) ∧ c.usedData.length ≤ c'.usedData.length

theorem SubMono.refl (c : Conv) : SubMono c c := ⟨fun _ h => h, fun _ h => h, Nat.le_refl _⟩
theorem SubMono.trans {a b c : Conv} (h1 : SubMono a b) (h2 : SubMono b c) : SubMono a c :=
  ⟨fun p h => h2.1 p (h1.1 p h), fun p h => h2.2.1 p (h1.2.1 p h), Nat.le_trans h1.2.2 h2.2.2⟩

structure WInv (song : Song) (d : DataInfo) (n : Nat) : Prop where
  hook : ∀ c w it c' w' L P, Inv song d c (w.out :: L) P → Mds.hook song d n c w it = .ok (c', w') →
    Inv song d c' (w'.out :: L) P ∧ SubMono c c'
  run : ∀ steps root c w st c' w' L P, Inv song d c (w.out :: L) P → runWriter song d root n steps c w st = .ok (c', w') →
    Inv song d c' (w'.out :: L) P ∧ SubMono c c'
  sub : ∀ c t a b c' id L P, Inv song d c L P → getSubroutine song d n c t a b = .ok (c', id) →
    ∃ k : Nat, id = (k : Int) ∧ Inv song d c' L { P with xs := k :: P.xs } ∧ (subKey t a b, k) ∈ c'.subMap ∧
      k < c'.subList.length ∧ SubMono c c'
  mac : ∀ c t c' id L P, Inv song d c L P → getMacroTrack song d n c t = .ok (c', id) →
    ∃ k : Nat, id = (k : Int) ∧ Inv song d c' L { P with xm := k :: P.xm } ∧ (t, k) ∈ c'.macroMap ∧ k < c'.macroList.length ∧ SubMono c c'

theorem subKey_mod_drum (t : Int) : 2 ≤ subKey t true false % 4 := by
  show 2 ≤ (t * 4 + 2 + 0) % 4; omega
theorem subKey_mod_jump (t : Int) (b : Bool) : subKey t false b % 4 < 2 := by
  cases b
  · show (t * 4 + 0 + 0) % 4 < 2; omega
  · show (t * 4 + 0 + 1) % 4 < 2; omega

theorem scoped_pat {k a b e : Nat} (hk : k < a) : Scoped a b e ⟨mds_PAT, u16 (k : Int)⟩ := by
  rw [u16_nat]
  refine ⟨fun _ => ?_, fun h => ?_, fun h => ?_, fun h => ?_⟩
  · show k % 65536 < a; omega
  · rcases h with h | h
    · exact absurd (show mds_PAT = mds_INS from h) (by decide)
    · exact absurd (show mds_PAT = mds_PCM from h) (by decide)
  · exact absurd (show mds_PAT = mds_PEG from h) (by decide)
  · exact absurd (show mds_PAT = mds_MTAB from h) (by decide)

theorem scoped_mtab {k a b e : Nat} (hk : k < b) : Scoped a b e ⟨mds_MTAB, u16 (wrap16 ((k : Int) + 1))⟩ := by
  rw [u16_succ]
  refine ⟨fun h => ?_, fun h => ?_, fun h => ?_, fun _ => ?_⟩
  · exact absurd (show mds_MTAB = mds_PAT from h) (by decide)
  · rcases h with h | h
    · exact absurd (show mds_MTAB = mds_INS from h) (by decide)
    · exact absurd (show mds_MTAB = mds_PCM from h) (by decide)
  · exact absurd (show mds_MTAB = mds_PEG from h) (by decide)
  · show (k + 1) % 65536 ≤ b; omega

theorem hook_succ_inv {song : Song} {d : DataInfo} (hpc : PlatformClean d) (n : Nat) (ih : WInv song d n) :
    ∀ c w it c' w' L P, Inv song d c (w.out :: L) P → Mds.hook song d (n + 1) c w it = .ok (c', w') →
      Inv song d c' (w'.out :: L) P ∧ SubMono c c' := by
  intro c w it c' w' L P hinv h
  cases hook_step hpc h with
  | plain w' evs hout hpl =>
    rw [hout]
    exact ⟨inv_add hinv evs (fun ev he => scoped_of_plain (hpl ev he) _ _ _), SubMono.refl c⟩
  | drum c' id w' pre ev _ _ hg hout hpre hdr hplain =>
    obtain ⟨k, rfl, hi, hmem, hlt, hmono⟩ := ih.sub c _ _ _ c' id (w.out :: L) P hinv hg
    rw [hout, List.append_assoc]
    have h2 := inv_add hi (pre ++ [ev]) (by
      intro x hx
      rcases List.mem_append.mp hx with hx | hx
      · exact scoped_of_plain (hpre x hx) _ _ _
      · rw [List.mem_singleton] at hx; subst hx; exact scoped_of_plain hplain _ _ _)
    exact ⟨inv_cover_sub h2 _ hmem ev (List.mem_append_right _ (List.mem_append_right _ List.mem_cons_self)) (Or.inr ⟨subKey_mod_drum _, hdr⟩), hmono⟩
  | jump c' id w' pre _ hg hout hpre =>
    obtain ⟨k, rfl, hi, hmem, hlt, hmono⟩ := ih.sub c _ _ _ c' id (w.out :: L) P hinv hg
    rw [hout, List.append_assoc]
    have h2 := inv_add hi (pre ++ [⟨mds_PAT, u16 (k : Int)⟩]) (by
      intro x hx
      rcases List.mem_append.mp hx with hx | hx
      · exact scoped_of_plain (hpre x hx) _ _ _
      · rw [List.mem_singleton] at hx; subst hx; exact scoped_pat hlt)
    exact ⟨inv_cover_sub h2 _ hmem ⟨mds_PAT, u16 (k : Int)⟩ (List.mem_append_right _ (List.mem_append_right _ List.mem_cons_self)) (Or.inl ⟨subKey_mod_jump _ _, rfl, rfl⟩), hmono⟩
  | data key ty arg w' pre hf hout hpre _ =>
    rw [hout]
    refine ⟨inv_data hinv key ty arg pre hpre hf, ?_, ?_, ?_⟩
    · intro p hp
      rw [(getEnvelope_spec c key hinv.maps).2.2.1]; exact hp
    · intro p hp
      rw [(getEnvelope_spec c key hinv.maps).2.2.2.1]; exact hp
    · exact (getEnvelope_spec c key hinv.maps).2.2.2.2.1
  | mtab c' id w' pre _ _ hg hout hpre =>
    obtain ⟨k, rfl, hi, _, hlt, hmono⟩ := ih.mac c _ c' id (w.out :: L) P hinv hg
    rw [hout, List.append_assoc]
    have h2 := inv_add hi (pre ++ [⟨mds_MTAB, u16 (wrap16 ((k : Int) + 1))⟩]) (by
      intro x hx
      rcases List.mem_append.mp hx with hx | hx
      · exact scoped_of_plain (hpre x hx) _ _ _
      · rw [List.mem_singleton] at hx; subst hx; exact scoped_mtab hlt)
    obtain ⟨ev, hev⟩ : ∃ ev : MEv, ev = ⟨mds_MTAB, u16 (wrap16 ((k : Int) + 1))⟩ := ⟨_, rfl⟩
    rw [← hev] at h2 ⊢
    have ht : ev.type = mds_MTAB := by rw [hev]
    have ha : ev.arg = u16 (wrap16 ((k : Int) + 1)) := by rw [hev]
    exact ⟨inv_cover_mac h2 ev (List.mem_append_right _ (List.mem_append_right _ List.mem_cons_self)) ht ha, hmono⟩


theorem plain_const (ty a : Nat) (h : ty ≠ mds_PAT ∧ ty ≠ mds_INS ∧ ty ≠ mds_PCM ∧ ty ≠ mds_PEG ∧ ty ≠ mds_MTAB) : Plain ⟨ty, a⟩ :=
  ⟨h.1, h.2.1, h.2.2.1, fun x => absurd x h.2.2.2.1, fun x => absurd x h.2.2.2.2⟩

theorem run_succ_inv {song : Song} {d : DataInfo} (n : Nat) (ih : WInv song d n) :
    ∀ steps root c w st c' w' L P, Inv song d c (w.out :: L) P → runWriter song d root (n + 1) steps c w st = .ok (c', w') →
      Inv song d c' (w'.out :: L) P ∧ SubMono c c' := by
  intro steps
  induction steps with
  | zero => intro root c w st c' w' L P _ h; simp only [runWriter] at h; cases h
  | succ k ihk =>
    intro root c w st c' w' L P hinv h
    simp only [runWriter] at h
    split at h
    · simp only [Except.ok.injEq, Prod.mk.injEq] at h
      obtain ⟨rfl, rfl⟩ := h
      exact ⟨hinv, SubMono.refl _⟩
    · cases hst : stepTrace song root false st with
      | error p =>
        rw [hst] at h
        obtain ⟨e, ho⟩ := p
        cases ho with
        | none => simp at h
        | some it =>
          simp only at h
          cases hh : Mds.hook song d n c w it with
          | error x => rw [hh] at h; simp only at h; split at h <;> cases h
          | ok r => rw [hh] at h; cases h
      | ok p =>
        rw [hst] at h
        obtain ⟨st', t⟩ := p
        cases t with
        | none => exact ihk root c w st' c' w' L P hinv h
        | some t1 =>
          cases t1 with
          | none =>
            simp only [Except.ok.injEq, Prod.mk.injEq] at h
            obtain ⟨rfl, rfl⟩ := h
            obtain ⟨pre, hpre, hrest, _, _, _⟩ := flushRest_out w
            refine ⟨?_, SubMono.refl _⟩
            split
            · have : (push (flushRest w) mds_JUMP 0).out = w.out ++ (pre ++ [⟨mds_JUMP % 256, u16 0⟩]) := by
                simp [push, hpre]
              rw [this]
              refine inv_add hinv _ ?_
              intro x hx
              rcases List.mem_append.mp hx with hx | hx
              · exact scoped_of_plain (plain_of_rest (hrest x hx)) _ _ _
              · rw [List.mem_singleton] at hx; subst hx
                exact scoped_of_plain (plain_const _ _ (by decide)) _ _ _
            · have : (push (flushRest w) mds_FINISH 0).out = w.out ++ (pre ++ [⟨mds_FINISH % 256, u16 0⟩]) := by
                simp [push, hpre]
              rw [this]
              refine inv_add hinv _ ?_
              intro x hx
              rcases List.mem_append.mp hx with hx | hx
              · exact scoped_of_plain (plain_of_rest (hrest x hx)) _ _ _
              · rw [List.mem_singleton] at hx; subst hx
                exact scoped_of_plain (plain_const _ _ (by decide)) _ _ _
          | some it =>
            simp only at h
            cases hh : Mds.hook song d n c w it with
            | error x => rw [hh] at h; simp only at h; split at h <;> cases h
            | ok r =>
              rw [hh] at h
              obtain ⟨c1, w1⟩ := r
              obtain ⟨hi1, hm1⟩ := ih.hook c w it c1 w1 L P hinv hh
              obtain ⟨hi2, hm2⟩ := ihk root c1 w1 st' c' w' L P hi1 h
              exact ⟨hi2, hm1.trans hm2⟩


theorem hold_lt {ls : List (List MEv)} {k : Nat} (h : ls[k]? = some []) : k < ls.length := by
  rcases Nat.lt_or_ge k ls.length with h' | h'
  · exact h'
  · rw [List.getElem?_eq_none h'] at h; cases h

theorem sub_succ_inv {song : Song} {d : DataInfo} (n : Nat) (ih : WInv song d n) :
    ∀ c t a b c' id L P, Inv song d c L P → getSubroutine song d (n + 1) c t a b = .ok (c', id) →
      ∃ k : Nat, id = (k : Int) ∧ Inv song d c' L { P with xs := k :: P.xs } ∧ (subKey t a b, k) ∈ c'.subMap ∧
        k < c'.subList.length ∧ SubMono c c' := by
  intro c t a b c' id L P hinv h
  simp only [getSubroutine] at h
  change (match c.subMap.lookup (subKey t a b) with | some id => _ | none => _) = _ at h
  cases hl : c.subMap.lookup (subKey t a b) with
  | some k =>
    rw [hl] at h
    simp only [Except.ok.injEq, Prod.mk.injEq] at h
    obtain ⟨rfl, rfl⟩ := h
    have hmem := lookup_some_mem _ _ _ hl
    refine ⟨k, rfl, { hinv with covSub := fun k' hk' hx => hinv.covSub k' hk' (by simp only [List.mem_cons, not_or] at hx; exact hx.2) },
      hmem, ?_, SubMono.refl _⟩
    rw [← hinv.maps.subLen]; exact val_lt_of_mem hinv.maps.sub hmem
  | none =>
    rw [hl] at h
    simp only at h
    cases htr : song.track? (trackIdOfParam t) with
    | none => rw [htr] at h; cases h
    | some evs =>
      rw [htr] at h
      simp only at h
      have h1 := inv_sub_new hinv (subKey t a b) hl
      have ekey : ((t * 4 + if a = true then 2 else 0) + if b = true then 1 else 0) = subKey t a b := rfl
      rw [ekey] at h
      obtain ⟨c1, hc1⟩ : ∃ c1 : Conv, c1 = { c with subMap := c.subMap ++ [(subKey t a b, c.subList.length)], subList := c.subList ++ [[]] } := ⟨_, rfl⟩
      rw [← hc1] at h h1
      cases hr : runWriter song d evs n 20000000 c1 { drumEnabled := b, inDrum := a, trackId := t } initState with
      | error x => rw [hr] at h; cases h
      | ok r =>
        rw [hr] at h
        obtain ⟨c2, w⟩ := r
        simp only [Except.ok.injEq, Prod.mk.injEq] at h
        obtain ⟨rfl, rfl⟩ := h
        obtain ⟨hi2, hm2⟩ := ih.run 20000000 evs c1 _ initState c2 w L _ h1 hr
        have hmem1 : (subKey t a b, c.subList.length) ∈ c1.subMap := by rw [hc1]; simp
        have hmem2 := hm2.1 _ hmem1
        have hnot : c.subList.length ∉ P.hs := by
          intro hc
          have := hold_lt (hinv.holdS _ hc)
          omega
        have h3 := inv_sub_set hi2 hnot (subKey t a b) hmem2
          ⟨t, a, b, evs, n, 20000000, c1, c2, w, rfl, htr, hr, rfl⟩
        refine ⟨c.subList.length, rfl, h3, hmem2, ?_, ?_⟩
        · show c.subList.length < (c2.subList.set c.subList.length w.out).length
          rw [List.length_set]
          exact hold_lt (hi2.holdS _ (by simp))
        · exact ⟨fun p hp => hm2.1 p (by rw [hc1]; simp [hp]), fun p hp => hm2.2.1 p (by rw [hc1]; exact hp),
            by have := hm2.2.2; rw [hc1] at this; exact this⟩

theorem mac_succ_inv {song : Song} {d : DataInfo} (n : Nat) (ih : WInv song d n) :
    ∀ c t c' id L P, Inv song d c L P → getMacroTrack song d (n + 1) c t = .ok (c', id) →
      ∃ k : Nat, id = (k : Int) ∧ Inv song d c' L { P with xm := k :: P.xm } ∧ (t, k) ∈ c'.macroMap ∧ k < c'.macroList.length ∧ SubMono c c' := by
  intro c t c' id L P hinv h
  simp only [getMacroTrack] at h
  cases hl : c.macroMap.lookup t with
  | some k =>
    rw [hl] at h
    simp only [Except.ok.injEq, Prod.mk.injEq] at h
    obtain ⟨rfl, rfl⟩ := h
    have hmem := lookup_some_mem _ _ _ hl
    refine ⟨k, rfl, { hinv with covMac := fun k' hk' hx => hinv.covMac k' hk' (by simp only [List.mem_cons, not_or] at hx; exact hx.2) },
      hmem, ?_, SubMono.refl _⟩
    rw [← hinv.maps.macLen]; exact val_lt_of_mem hinv.maps.mac hmem
  | none =>
    rw [hl] at h
    simp only at h
    cases htr : song.track? (trackIdOfParam t) with
    | none => rw [htr] at h; cases h
    | some evs =>
      rw [htr] at h
      simp only at h
      have h1 := inv_mac_new hinv t hl
      obtain ⟨c1, hc1⟩ : ∃ c1 : Conv, c1 = { c with macroMap := c.macroMap ++ [(t, c.macroList.length)], macroList := c.macroList ++ [[]] } := ⟨_, rfl⟩
      rw [← hc1] at h h1
      cases hr : runWriter song d evs n 20000000 c1 { drumEnabled := false, inDrum := false, trackId := t } initState with
      | error x => rw [hr] at h; cases h
      | ok r =>
        rw [hr] at h
        obtain ⟨c2, w⟩ := r
        simp only [Except.ok.injEq, Prod.mk.injEq] at h
        obtain ⟨rfl, rfl⟩ := h
        obtain ⟨hi2, hm2⟩ := ih.run 20000000 evs c1 _ initState c2 w L _ h1 hr
        have hmem1 : (t, c.macroList.length) ∈ c1.macroMap := by rw [hc1]; simp
        have hnot : c.macroList.length ∉ P.hm := by
          intro hc
          have := hold_lt (hinv.holdM _ hc)
          omega
        have hmem2 := hm2.2.1 _ hmem1
        have h3 := inv_mac_set hi2 hnot t hmem2 ⟨evs, n, 20000000, c1, c2, w, htr, hr, rfl⟩
        refine ⟨c.macroList.length, rfl, h3, hmem2, ?_, ?_⟩
        · show c.macroList.length < (c2.macroList.set c.macroList.length w.out).length
          rw [List.length_set]
          exact hold_lt (hi2.holdM _ (by simp))
        · exact ⟨fun p hp => hm2.1 p (by rw [hc1]; exact hp), fun p hp => hm2.2.1 p (by rw [hc1]; simp [hp]),
            by have := hm2.2.2; rw [hc1] at this; exact this⟩


/-- the invariant is carried by all four functions, for every fuel -/
theorem writerInv {song : Song} {d : DataInfo} (hpc : PlatformClean d) : ∀ n, WInv song d n := by
  intro n
  induction n with
  | zero =>
    refine ⟨?_, ?_, ?_, ?_⟩
    · intro c w it c' w' L P _ h; simp only [Mds.hook] at h; cases h
    · intro steps root c w st c' w' L P _ h; cases steps <;> (simp only [runWriter] at h; cases h)
    · intro c t a b c' id L P _ h; simp only [getSubroutine] at h; cases h
    · intro c t c' id L P _ h; simp only [getMacroTrack] at h; cases h
  | succ n ih =>
    exact ⟨hook_succ_inv hpc n ih, run_succ_inv n ih, sub_succ_inv n ih, mac_succ_inv n ih⟩

end Ctrmml.Mds
