/-
  Codec round trip, continued: notes / ties (with the 128-tick splitting into ties) and the
  zero-time commands of the linear fragment.
-/
import Ctrmml.Proofs.Codec
namespace Ctrmml.Codec
open Ctrmml.Mds Ctrmml.Seq Tables

variable {seq : List Nat} {base mj : Nat} {M : Mode}

/-- mid-note: the note/tie byte `t` has been emitted as the last byte, its length is still open and
the interpreter has not executed it; `O` is the interpreter's actual output -/
structure Pending (M : Mode) (e : Enc) (s : St) (O : List Tk) (t : Nat) : Prop where
  note : RegOk e.lastNote s.lastNote
  rest : RegOk e.lastRest s.lastRest
  drum : s.drum = M.dm
  last : e.out.getLast? = some t
  ty : 0x81 ≤ t ∧ t < 0xe0
  ok : M.okTy t = true
  pc : s.pc + 1 = e.out.length
  out : s.out = O

theorem noteLoop_succ (fuel : Nat) (e : Enc) (arg : Nat) :
    noteLoop (fuel + 1) e arg =
      if arg ≥ 128 then
        if e.lastNote ≠ 0x7f then noteLoop fuel { e with lastNote := 0x7f, out := e.out ++ [0x7f] ++ [mds_TIE] } (arg - 128)
        else noteLoop fuel { e with lastNote := 0x7f, out := e.out ++ [mds_TIE] } (arg - 128)
      else (e, arg) := by
  by_cases h : e.lastNote = 0x7f <;> simp [noteLoop, h]

theorem noteLoop_frame : ∀ (fuel : Nat) (e : Enc) (arg : Nat) (e' : Enc) (a : Nat), noteLoop fuel e arg = (e', a) →
    e.out <+: e'.out ∧ e'.breaks = e.breaks ∧ e'.segnoPos = e.segnoPos ∧ e'.lastRest = e.lastRest := by
  intro fuel
  induction fuel with
  | zero =>
    intro e arg e' a h
    rw [noteLoop] at h
    simp only [Prod.mk.injEq] at h
    obtain ⟨rfl, rfl⟩ := h
    exact ⟨List.prefix_refl _, rfl, rfl, rfl⟩
  | succ f ih =>
    intro e arg e' a h
    rw [noteLoop_succ] at h
    by_cases hc : arg ≥ 128
    · simp only [hc, if_true] at h
      by_cases hl : e.lastNote ≠ 0x7f
      · rw [if_pos hl] at h
        obtain ⟨h1, h2, h3, h4⟩ := ih _ _ _ _ h
        refine ⟨?_, h2, h3, h4⟩
        refine List.IsPrefix.trans ?_ h1
        simp only [List.append_assoc]; exact List.prefix_append _ _
      · rw [if_neg hl] at h
        obtain ⟨h1, h2, h3, h4⟩ := ih _ _ _ _ h
        exact ⟨(List.prefix_append _ _).trans h1, h2, h3, h4⟩
    · simp only [hc, if_false, Prod.mk.injEq] at h
      obtain ⟨rfl, rfl⟩ := h
      exact ⟨List.prefix_refl _, rfl, rfl, rfl⟩

/-- the 128-tick splitting of a note into ties; fuel `f` suffices for `arg < 128 (f + 1)` -/
theorem noteLoop_good (hS : M.Sound seq base mj) : ∀ (fuel : Nat) (e : Enc) (arg : Nat) (s : St) (O : List Tk) (t : Nat) (e' : Enc) (a : Nat),
    Pending M e s O t → noteLoop fuel e arg = (e', a) → arg < 128 * (fuel + 1) → e'.out <+: seq →
    ∃ s1 t' O', Reach seq base mj s s1 ∧ Frame s s1 ∧ Pending M e' s1 O' t' ∧ a < 128 ∧
      (M.nt t' (a + 1)).reverse ++ O' = (M.nt t (arg + 1)).reverse ++ O := by
  intro fuel
  induction fuel with
  | zero =>
    intro e arg s O t e' a p h hlt _
    rw [noteLoop] at h
    simp only [Prod.mk.injEq] at h
    obtain ⟨rfl, rfl⟩ := h
    exact ⟨s, t, O, .refl _, Frame.rfl' _, p, by omega, rfl⟩
  | succ f ih =>
    intro e arg s O t e' a p h hlt hp
    rw [noteLoop_succ] at h
    by_cases hc : arg ≥ 128
    · simp only [hc, if_true] at h
      have hsplit : M.nt t (arg + 1) = M.nt t 128 ++ M.nt mds_TIE (arg - 128 + 1) := by
        have : arg + 1 = 128 + (arg - 128 + 1) := by omega
        rw [this, M.nt_split t 128 _ (by omega), M.nt_tie]
      by_cases hl : e.lastNote ≠ 0x7f
      · rw [if_pos hl] at h
        have hpre := (noteLoop_frame _ _ _ _ _ h).1
        have hp2 : e.out ++ 0x7f :: [mds_TIE] <+: seq := by
          have := hpre.trans hp
          simpa [List.append_assoc] using this
        have r0 : seq[s.pc]? = some t := rd_last hp2 p.last p.pc
        have r1 : seq[s.pc + 1]? = some 0x7f := by rw [p.pc]; exact rd_at hp2
        obtain ⟨s2, rr, fr, hpc2, hn2, hr2, ho2⟩ := note_len hS r0 p.ty.1 p.ty.2 r1 (by omega) p.drum p.ok
        have p2 : Pending M { e with lastNote := 0x7f, out := e.out ++ [0x7f] ++ [mds_TIE] } s2
            ((M.nt t 128).reverse ++ O) mds_TIE := by
          refine ⟨?_, ?_, ?_, ?_, ?_, M.okTy_tie, ?_, ?_⟩
          · intro _; exact ⟨by simp, hn2⟩
          · rw [hr2]; exact p.rest
          · rw [fr.drum]; exact p.drum
          · simp
          · decide
          · have := p.pc; rw [hpc2]; simp; omega
          · rw [ho2, p.out]
        obtain ⟨s3, t', O', r3, f3, p3, ha, hT⟩ := ih _ _ _ _ _ _ _ p2 h (by omega) hp
        refine ⟨s3, t', O', rr.trans r3, fr.trans f3, p3, ha, ?_⟩
        rw [hT, hsplit, List.reverse_append, List.append_assoc]
      · rw [if_neg hl] at h
        have hl' : e.lastNote = 0x7f := by simpa using hl
        have hpre := (noteLoop_frame _ _ _ _ _ h).1
        have hp2 : e.out ++ [mds_TIE] <+: seq := hpre.trans hp
        have hU : e.lastNote ≠ U16 := by rw [hl']; decide
        obtain ⟨_, hreg⟩ := p.note hU
        rw [hl'] at hreg
        have r0 : seq[s.pc]? = some t := rd_last hp2 p.last p.pc
        have r1 : seq[s.pc + 1]? = some mds_TIE := by rw [p.pc]; exact rd_at hp2
        obtain ⟨s2, rr, fr, hpc2, hn2, hr2, ho2⟩ := note_bare hS r0 p.ty.1 p.ty.2 r1 (by decide) hreg p.drum p.ok
        have p2 : Pending M { e with lastNote := 0x7f, out := e.out ++ [mds_TIE] } s2
            ((M.nt t 128).reverse ++ O) mds_TIE := by
          refine ⟨?_, ?_, ?_, ?_, ?_, M.okTy_tie, ?_, ?_⟩
          · intro _; exact ⟨by simp, by rw [hn2, hreg]⟩
          · rw [hr2]; exact p.rest
          · rw [fr.drum]; exact p.drum
          · simp
          · decide
          · have := p.pc; rw [hpc2]; simp; omega
          · rw [ho2, p.out]
        obtain ⟨s3, t', O', r3, f3, p3, ha, hT⟩ := ih _ _ _ _ _ _ _ p2 h (by omega) hp
        refine ⟨s3, t', O', rr.trans r3, fr.trans f3, p3, ha, ?_⟩
        rw [hT, hsplit, List.reverse_append, List.append_assoc]
    · simp only [hc, if_false, Prod.mk.injEq] at h
      obtain ⟨rfl, rfl⟩ := h
      exact ⟨s, t, O, .refl _, Frame.rfl' _, p, by omega, rfl⟩

theorem encNote_eq (e : Enc) (ty n : Nat) :
    ∃ e1 a, noteLoop 512 { e with out := e.out ++ [ty] } (n - 1) = (e1, a) ∧
      encNote e ty n = if a ≠ e1.lastNote then { e1 with out := e1.out ++ [a % 256], lastNote := a } else e1 := by
  cases h : noteLoop 512 { e with out := e.out ++ [ty] } (n - 1) with
  | mk e1 a => exact ⟨e1, a, rfl, by simp [encNote, h]⟩

theorem encNote_frame (e : Enc) (ty n : Nat) :
    e.out ++ [ty] <+: (encNote e ty n).out ∧ (encNote e ty n).breaks = e.breaks ∧
      (encNote e ty n).segnoPos = e.segnoPos := by
  obtain ⟨e1, a, hnl, henc⟩ := encNote_eq e ty n
  obtain ⟨h1, h2, h3, _⟩ := noteLoop_frame _ _ _ _ _ hnl
  rw [henc]
  split
  · exact ⟨h1.trans (List.prefix_append _ _), h2, h3⟩
  · exact ⟨h1, h2, h3⟩

/-- a note or tie of `n` ticks, `1 ≤ n ≤ 65535` -/
theorem encNote_good (hS : M.Sound seq base mj) {e : Enc} {s : St} {O : List Tk} (g : Good M e s O) {ty n : Nat}
    (h1 : 0x81 ≤ ty) (h2 : ty < 0xe0) (hok : M.okTy ty = true)
    (hn1 : 1 ≤ n) (hn2 : n ≤ 65535) (hp : (encNote e ty n).out <+: seq) :
    ∃ s1, Reach seq base mj s s1 ∧ Frame s s1 ∧
      Good M { encNote e ty n with lastType := ty } s1 ((M.nt ty n).reverse ++ O) := by
  obtain ⟨e1, a, hnl, henc⟩ := encNote_eq e ty n
  have hfr := noteLoop_frame _ _ _ _ _ hnl
  have hpre1 : e1.out <+: (encNote e ty n).out := by
    rw [henc]; split
    · exact List.prefix_append _ _
    · exact List.prefix_refl _
  have hp1 : e1.out <+: seq := hpre1.trans hp
  have hp0 : e.out ++ [ty] <+: seq := hfr.1.trans hp1
  obtain ⟨s1, r1, f1, i1⟩ := resolve (base := base) (mj := mj) hS g (b := ty) (by omega) hp0
  have p0 : Pending M { e with out := e.out ++ [ty] } s1 O ty :=
    ⟨i1.note, i1.rest, i1.drum, by simp, ⟨h1, h2⟩, hok, by simp [i1.pc], i1.out⟩
  obtain ⟨s2, t', O', r2, f2, p2, ha, hT⟩ := noteLoop_good (base := base) (mj := mj) hS 512 _ _ _ _ _ _ _ p0 hnl (by omega) hp1
  have hn : n - 1 + 1 = n := by omega
  rw [hn] at hT
  rw [henc] at hp ⊢
  by_cases hc : a ≠ e1.lastNote
  · rw [if_pos hc] at hp ⊢
    have hm : a % 256 = a := by omega
    rw [hm] at hp ⊢
    have hp' : e1.out ++ [a] <+: seq := hp
    have r0 : seq[s2.pc]? = some t' := rd_last hp' p2.last p2.pc
    have r1' : seq[s2.pc + 1]? = some a := by rw [p2.pc]; exact rd_at hp'
    obtain ⟨s3, rr, fr, hpc3, hn3, hr3, ho3⟩ := note_len hS r0 p2.ty.1 p2.ty.2 r1' ha p2.drum p2.ok
    refine ⟨s3, r1.trans (r2.trans rr), f1.trans (f2.trans fr),
      ⟨?_, ?_, ?_, .inl ⟨?_, ?_, ?_⟩⟩⟩
    · intro _; exact ⟨ha, hn3⟩
    · rw [hr3]; exact p2.rest
    · rw [fr.drum]; exact p2.drum
    · have : ¬ a > 128 := by omega
      simp [needLenB, lastGt80_concat, this]
    · have := p2.pc; rw [hpc3]; simp; omega
    · rw [ho3, p2.out, hT]
  · rw [if_neg hc] at hp ⊢
    have hc' : a = e1.lastNote := by simpa using hc
    have hU : e1.lastNote ≠ U16 := by rw [← hc']; simp [U16]; omega
    refine ⟨s2, r1.trans r2, f1.trans f2,
      ⟨p2.note, p2.rest, p2.drum, .inr ⟨?_, hU, t', p2.last, p2.ty.1, p2.ty.2, p2.pc, ?_, p2.ok⟩⟩⟩
    · have b1 : mds_TIE ≤ ty := h1
      have b2 : ty < mds_SLR := h2
      have b3 : t' > 128 := by have := p2.ty.1; omega
      simp [needLenB, noteish, lastGt80, p2.last, b1, b2, b3]
    · rw [p2.out, ← hc', hT]

/-! ### zero-time commands -/

theorem oneArgOps_ge {op : Nat} (h : oneArgOps.contains op = true) : op ≥ 0xe1 := by
  have all : ∀ x ∈ oneArgOps, x ≥ 0xe1 := by decide
  exact all op (by simpa using h)

theorem twoArgOps_ge {op : Nat} (h : twoArgOps.contains op = true) : op ≥ 0xe1 := by
  have all : ∀ x ∈ twoArgOps, x ≥ 0xe1 := by decide
  exact all op (by simpa using h)

theorem needLenB_cmd {e : Enc} (h : e.lastType ≥ 0xe0) : needLenB e = false := by
  have : ¬ e.lastType < mds_SLR := by simp [mds_SLR]; omega
  simp [needLenB, noteish, this]

theorem cmd1_good (hS : M.Sound seq base mj) {e e' : Enc} {s : St} {O : List Tk} (g : Good M e s O) {op a : Nat}
    (hop : oneArgOps.contains op = true) (hf : op = mds_FLG → drumSafe M.dm a = true)
    (ho : e'.out = e.out ++ [op, a]) (hn : e'.lastNote = e.lastNote) (hr : e'.lastRest = e.lastRest)
    (ht : e'.lastType ≥ 0xe0) (hp : e'.out <+: seq) :
    ∃ s1, Reach seq base mj s s1 ∧ Frame s s1 ∧ Good M e' s1 (Tk.cmd op a :: O) := by
  rw [ho] at hp
  have hge := oneArgOps_ge hop
  obtain ⟨s1, r1, f1, i1⟩ := resolve (base := base) (mj := mj) hS g (b := op) (by omega) hp
  have r0 : seq[s1.pc]? = some op := by rw [i1.pc]; exact rd_at hp
  have r1' : seq[s1.pc + 1]? = some a := by rw [i1.pc]; exact rd_at1 hp
  have hs := step_cmd1 (base := base) (mj := mj) r0 hop r1' (by rw [i1.drum]; exact hf)
  refine ⟨_, r1.trans (.one hs (by simp)), f1.trans ⟨rfl, rfl, rfl, rfl⟩,
    ⟨hn ▸ i1.note, hr ▸ i1.rest, i1.drum, .inl ⟨needLenB_cmd ht, ?_, ?_⟩⟩⟩
  · simp [ho, i1.pc]
  · simp [i1.out]

/-- `FLG` with an argument below `0x80`: the drum flag follows bit 3 -/
theorem flg_good (hS : M.Sound seq base mj) {e e' : Enc} {s : St} {O : List Tk} (g : Good M e s O) {a : Nat}
    (ha : a < 0x80) (ho : e'.out = e.out ++ [mds_FLG, a]) (hn : e'.lastNote = e.lastNote)
    (hr : e'.lastRest = e.lastRest) (ht : e'.lastType ≥ 0xe0) (hp : e'.out <+: seq) :
    ∃ s1, Reach seq base mj s s1 ∧ FrameX s s1 ∧ Good (M.set (decide (a &&& 8 ≠ 0))) e' s1 (Tk.cmd mds_FLG a :: O) := by
  rw [ho] at hp
  obtain ⟨s1, r1, f1, i1⟩ := resolve (base := base) (mj := mj) hS g (b := mds_FLG) (by decide) hp
  have r0 : seq[s1.pc]? = some mds_FLG := by rw [i1.pc]; exact rd_at hp
  have r1' : seq[s1.pc + 1]? = some a := by rw [i1.pc]; exact rd_at1 hp
  have hs := step_flg (base := base) (mj := mj) r0 r1' ha
  refine ⟨_, r1.trans (.one hs (by simp)), f1.x.trans ⟨rfl, rfl, rfl⟩,
    ⟨hn ▸ i1.note, hr ▸ i1.rest, rfl, .inl ⟨needLenB_cmd ht, ?_, ?_⟩⟩⟩
  · simp [ho, i1.pc]
  · simp [i1.out]

theorem cmd2_good (hS : M.Sound seq base mj) {e e' : Enc} {s : St} {O : List Tk} (g : Good M e s O) {op hi lo : Nat}
    (hop : twoArgOps.contains op = true)
    (ho : e'.out = e.out ++ [op, hi, lo]) (hn : e'.lastNote = e.lastNote) (hr : e'.lastRest = e.lastRest)
    (ht : e'.lastType ≥ 0xe0) (hp : e'.out <+: seq) :
    ∃ s1, Reach seq base mj s s1 ∧ Frame s s1 ∧ Good M e' s1 (Tk.cmd op (hi * 256 + lo) :: O) := by
  rw [ho] at hp
  have hge := twoArgOps_ge hop
  obtain ⟨s1, r1, f1, i1⟩ := resolve (base := base) (mj := mj) hS g (b := op) (by omega) hp
  have r0 : seq[s1.pc]? = some op := by rw [i1.pc]; exact rd_at hp
  have r1' : seq[s1.pc + 1]? = some hi := by rw [i1.pc]; exact rd_at1 hp
  have r2' : seq[s1.pc + 1 + 1]? = some lo := by rw [i1.pc]; exact rd_at2 hp
  have hs := step_cmd2 (base := base) (mj := mj) r0 hop r1' r2'
  refine ⟨_, r1.trans (.one hs (by simp)), f1.trans ⟨rfl, rfl, rfl, rfl⟩,
    ⟨hn ▸ i1.note, hr ▸ i1.rest, i1.drum, .inl ⟨needLenB_cmd ht, ?_, ?_⟩⟩⟩
  · simp [ho, i1.pc]
  · simp [i1.out]

theorem slr_good (hS : M.Sound seq base mj) {e e' : Enc} {s : St} {O : List Tk} (g : Good M e s O)
    (ho : e'.out = e.out ++ [mds_SLR]) (hn : e'.lastNote = e.lastNote) (hr : e'.lastRest = e.lastRest)
    (ht : e'.lastType ≥ 0xe0) (hp : e'.out <+: seq) :
    ∃ s1, Reach seq base mj s s1 ∧ Frame s s1 ∧ Good M e' s1 (Tk.cmd mds_SLR 0 :: O) := by
  rw [ho] at hp
  obtain ⟨s1, r1, f1, i1⟩ := resolve (base := base) (mj := mj) hS g (b := mds_SLR) (by decide) hp
  have r0 : seq[s1.pc]? = some mds_SLR := by rw [i1.pc]; exact rd_at hp
  have hs := step_slr (base := base) (mj := mj) r0
  refine ⟨_, r1.trans (.one hs (by simp)), f1.trans ⟨rfl, rfl, rfl, rfl⟩,
    ⟨hn ▸ i1.note, hr ▸ i1.rest, i1.drum, .inl ⟨needLenB_cmd ht, ?_, ?_⟩⟩⟩
  · simp [ho, i1.pc]
  · simp [i1.out]

end Ctrmml.Codec
