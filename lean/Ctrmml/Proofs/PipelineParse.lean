/-
  Helper lemmas for Properties/C15 about the parse stage (no property statements here):
  the MML reader of Model/Mml + Model/MmlFix over Model/Lexer and Model/TrackBuilder never ends
  in `Err.foreign` — no `std::out_of_range` from `unget`, no store or `strtol` beyond the line
  buffer, no `std::invalid_argument` escaping, no negative shift, no exhausted loop budget — and
  every `Err.input` carries a non-empty message.

  Method: a weakest-precondition calculus over the parser monad `P`.  `wp m Q s` says that `m`
  run from `s` ends in a value satisfying `Q` or in an input error with a message.  The only
  state the safety of the reader depends on is the pair (column, length of the line buffer):
    * `unget` needs `column ≥ 1`, and to write a non-zero character back it needs
      `column - 1 < length` (true for the character `get` has just returned);
    * `get_num` and `get_line` need `column ≤ length`;
    * the loops of `parse_mml_track` and of the track list consume at least one column per
      iteration and never move beyond `length + 1`, so their budgets (`length + 2 - column`,
      `length + 2`) are not exhausted.
  Every lemma `X_wp` has the shape "facts about (column, length) before → (∀ result and state
  after with these facts → Q) → wp X Q s", so that a proof is a walk along the `do` block.
-/
import Ctrmml.Model.MmlFix
namespace Ctrmml.Mml
open Ctrmml.Tables Ctrmml.Lexer Ctrmml.TrackBuilder

def col (s : MmlState) : Nat := s.inp.lb.column
def len (s : MmlState) : Nat := s.inp.lb.buf.length

/-- the outcome is a value satisfying `Q`, or an input error carrying a message -/
def Res.sat {α} (Q : α → MmlState → Prop) : Res α → Prop
  | .ok a s => Q a s
  | .err (.input m _) _ => m ≠ ""
  | .err (.foreign _) _ => False

def wp {α} (m : P α) (Q : α → MmlState → Prop) (s : MmlState) : Prop := (m s).sat Q

theorem wp_bind {α β} (m : P α) (f : α → P β) (Q : β → MmlState → Prop) (s : MmlState)
    (h : wp m (fun a s' => wp (f a) Q s') s) : wp (m >>= f) Q s := by
  show Res.sat Q (P.bind m f s)
  unfold P.bind
  unfold wp at h
  cases hm : m s with
  | ok a s' => rw [hm] at h; exact h
  | err e s' =>
    rw [hm] at h
    cases e with
    | input msg r => exact h
    | foreign k => exact h.elim

theorem wp_pure {α} (a : α) (Q : α → MmlState → Prop) (s : MmlState) (h : Q a s) : wp (pure a : P α) Q s := h

theorem wp_mono {α} (m : P α) (Q1 Q2 : α → MmlState → Prop) (s : MmlState)
    (h : wp m Q1 s) (hq : ∀ a s', Q1 a s' → Q2 a s') : wp m Q2 s := by
  unfold wp at *
  cases hm : m s with
  | ok a s' => rw [hm] at h; exact hq a s' h
  | err e s' =>
    rw [hm] at h
    cases e with
    | input msg r => exact h
    | foreign k => exact h.elim

theorem wp_ite {α} (c : Prop) [Decidable c] (a b : P α) (Q : α → MmlState → Prop) (s : MmlState)
    (ha : c → wp a Q s) (hb : ¬ c → wp b Q s) : wp (if c then a else b) Q s := by
  by_cases hc : c
  · rw [if_pos hc]; exact ha hc
  · rw [if_neg hc]; exact hb hc

theorem wp_parseError {α} (msg : String) (Q : α → MmlState → Prop) (s : MmlState) (h : msg ≠ "") :
    wp (parseError msg : P α) Q s := h

theorem wp_getS (Q : MmlState → MmlState → Prop) (s : MmlState) (h : Q s s) : wp getS Q s := h
theorem wp_track (Q : Track → MmlState → Prop) (s : MmlState) (h : Q (getTrack s) s) : wp track Q s := h
theorem wp_tellC (Q : Nat → MmlState → Prop) (s : MmlState) (h : Q (col s) s) : wp tellC Q s := h

theorem wp_modifyS (f : MmlState → MmlState) (Q : Unit → MmlState → Prop) (s : MmlState)
    (h : Q () (f s)) : wp (modifyS f) Q s := h

theorem wp_parseWarning (msg : String) (Q : Unit → MmlState → Prop) (s : MmlState)
    (h : ∀ s', col s' = col s → len s' = len s → Q () s') : wp (parseWarning msg) Q s :=
  h _ rfl rfl

theorem wp_seekC (pos : Nat) (Q : Unit → MmlState → Prop) (s : MmlState)
    (h : ∀ s', col s' = pos → len s' = len s → Q () s') : wp (seekC pos) Q s :=
  h _ rfl rfl

theorem col_setTrack (s : MmlState) (t : Track) : col (setTrack s t) = col s := rfl
theorem len_setTrack (s : MmlState) (t : Track) : len (setTrack s t) = len s := rfl

theorem wp_modifyTrack (f : Track → Track) (Q : Unit → MmlState → Prop) (s : MmlState)
    (h : ∀ s', col s' = col s → len s' = len s → Q () s') : wp (modifyTrack f) Q s :=
  h _ rfl rfl

/-! ### the lexer primitives -/

theorem wp_getC (Q : Int → MmlState → Prop) (s : MmlState)
    (h : ∀ c s', col s' = col s + 1 → len s' = len s → (c ≠ 0 → col s < len s) → Q c s') : wp getC Q s := by
  show Q _ _
  apply h
  · rfl
  · rfl
  · intro hc
    show s.inp.lb.column < s.inp.lb.buf.length
    rcases Nat.lt_or_ge s.inp.lb.column s.inp.lb.buf.length with hlt | hge
    · exact hlt
    · exfalso
      apply hc
      simp [LineBuffer.get, List.getElem?_eq_none hge]

theorem countBlanks_le (l : List Nat) : LineBuffer.countBlanks l ≤ l.length := by
  induction l with
  | nil => simp [LineBuffer.countBlanks]
  | cons c cs ih => simp only [LineBuffer.countBlanks]; split <;> simp <;> omega

theorem wp_getTokenC (Q : Int → MmlState → Prop) (s : MmlState)
    (h : ∀ c s', col s + 1 ≤ col s' → (col s ≤ len s → col s' ≤ len s + 1) → len s' = len s →
      (c ≠ 0 → col s' ≤ len s) → Q c s') : wp getTokenC Q s := by
  show Q _ _
  have hb := countBlanks_le (s.inp.lb.buf.drop s.inp.lb.column)
  simp only [List.length_drop] at hb
  apply h
  · show s.inp.lb.column + 1 ≤ (s.inp.lb.column + LineBuffer.countBlanks (s.inp.lb.buf.drop s.inp.lb.column)) + 1
    omega
  · intro hl
    show (s.inp.lb.column + LineBuffer.countBlanks (s.inp.lb.buf.drop s.inp.lb.column)) + 1 ≤ s.inp.lb.buf.length + 1
    unfold col len at hl
    omega
  · rfl
  · intro hc
    show (s.inp.lb.column + LineBuffer.countBlanks (s.inp.lb.buf.drop s.inp.lb.column)) + 1 ≤ s.inp.lb.buf.length
    rcases Nat.lt_or_ge (s.inp.lb.column + LineBuffer.countBlanks (s.inp.lb.buf.drop s.inp.lb.column)) s.inp.lb.buf.length with hlt | hge
    · omega
    · exfalso
      apply hc
      simp [LineBuffer.getToken, LineBuffer.get, List.getElem?_eq_none hge]

theorem wp_ungetC (c : Int) (Q : Unit → MmlState → Prop) (s : MmlState)
    (h1 : 1 ≤ col s) (h2 : c ≠ 0 → col s ≤ len s)
    (h : ∀ s', col s' = col s - 1 → len s' = len s → Q () s') : wp (ungetC c) Q s := by
  unfold wp ungetC LineBuffer.unget
  simp only [col, len] at h1 h2
  have h0 : ¬ s.inp.lb.column = 0 := by omega
  simp only [h0, if_false]
  by_cases hc : c = 0
  · simp only [hc, if_true]
    exact h _ rfl rfl
  · have := h2 hc
    have hlt : s.inp.lb.column - 1 < s.inp.lb.buf.length := by omega
    simp only [hc, if_false, hlt, if_true]
    apply h
    · rfl
    · show (s.inp.lb.buf.set _ _).length = _
      simp [len]

/-! ### `get_num` -/

theorem countSpaces_le (l : List Nat) : countSpaces l ≤ l.length := by
  induction l with
  | nil => simp [countSpaces]
  | cons c cs ih => simp only [countSpaces]; split <;> simp <;> omega

theorem takeDigits_le (base : Nat) (l : List Nat) : (takeDigits base l).length ≤ l.length := by
  induction l with
  | nil => simp [takeDigits]
  | cons c cs ih =>
    simp only [takeDigits]
    split <;> simp <;> omega

theorem signSplit_le (l : List Nat) : (signSplit l).2 ≤ l.length := by
  unfold signSplit
  split <;> simp

theorem hexPrefix_le (base : Nat) (l : List Nat) : hexPrefix base l ≤ l.length := by
  unfold hexPrefix
  split
  · split
    · split <;> simp
    · simp
  · simp

theorem strtol_le (s : List Nat) (base : Nat) (v : Int) (n : Nat) (h : strtol s base = some (v, n)) : n ≤ s.length := by
  unfold strtol at h
  simp only [] at h
  split at h
  · cases h
  · injection h with h
    injection h with h1 h2
    have a := countSpaces_le s
    have b := signSplit_le (s.drop (countSpaces s))
    have c := hexPrefix_le base ((s.drop (countSpaces s)).drop (signSplit (s.drop (countSpaces s))).2)
    have d := takeDigits_le base (((s.drop (countSpaces s)).drop (signSplit (s.drop (countSpaces s))).2).drop
      (hexPrefix base ((s.drop (countSpaces s)).drop (signSplit (s.drop (countSpaces s))).2)))
    simp only [List.length_drop] at b c d
    omega

theorem getToken_spec (b : LineBuffer) :
    (b.getToken).2.buf = b.buf ∧
    (b.getToken).2.column = b.column + LineBuffer.countBlanks (b.buf.drop b.column) + 1 ∧
    ((b.getToken).1 ≠ 0 → b.column + LineBuffer.countBlanks (b.buf.drop b.column) < b.buf.length) := by
  refine ⟨rfl, rfl, ?_⟩
  intro hne
  rcases Nat.lt_or_ge (b.column + LineBuffer.countBlanks (b.buf.drop b.column)) b.buf.length with h1 | h1
  · exact h1
  · exfalso
    apply hne
    simp [LineBuffer.getToken, LineBuffer.get, List.getElem?_eq_none h1]

theorem getNum_ok (b : LineBuffer) (h : b.column ≤ b.buf.length) :
    ∃ r b', b.getNum = .ok (r, b') ∧ b.column ≤ b'.column ∧ b'.column ≤ b'.buf.length ∧ b'.buf.length = b.buf.length := by
  have hb := countBlanks_le (b.buf.drop b.column)
  simp only [List.length_drop] at hb
  obtain ⟨t1, t2, t3⟩ := getToken_spec b
  unfold LineBuffer.getNum
  rcases hgt : b.getToken with ⟨cv, b1⟩
  rw [hgt] at t1 t2 t3
  simp only [] at t1 t2 t3
  obtain ⟨buf1, col1⟩ := b1
  simp only [] at t1 t2
  subst t1 t2
  generalize hk : b.column + LineBuffer.countBlanks (b.buf.drop b.column) = k at *
  have hkl : k ≤ b.buf.length := by omega
  simp only [bind, Except.bind, pure, Except.pure]
  by_cases hx : (cv == 36 || cv == 120) = true
  · have hne : cv ≠ 0 := by
      intro h0; subst h0; simp at hx
    have hlt := t3 hne
    simp only [hx, if_true]
    by_cases he : k + 1 = b.buf.length
    · simp only [he, if_true]
      exact ⟨none, _, rfl, by simp; omega, by simp, rfl⟩
    · have hgt' : ¬ (k + 1 > b.buf.length) := by omega
      simp only [he, if_false, hgt']
      cases hs : strtol (b.buf.drop (k + 1)) 16 with
      | none => exact ⟨none, _, rfl, by simp; omega, by simp; omega, rfl⟩
      | some p =>
        obtain ⟨v, n⟩ := p
        have hn := strtol_le _ _ _ _ hs
        simp only [List.length_drop] at hn
        exact ⟨some (wrapS32 v), _, rfl, by simp; omega, by simp; omega, rfl⟩
  · have hx' : (cv == 36 || cv == 120) = false := by simpa using hx
    simp only [hx', Bool.false_eq_true, if_false]
    unfold LineBuffer.unget
    have h0 : ¬ (k + 1 = 0) := by omega
    simp only [h0, if_false, Nat.add_sub_cancel]
    by_cases hc : cv = 0
    · simp only [hc, if_true]
      by_cases he : k = b.buf.length
      · simp only [he, if_true]
        exact ⟨none, _, rfl, by simp; omega, by simp, rfl⟩
      · have hgt' : ¬ (k > b.buf.length) := by omega
        simp only [he, if_false, hgt']
        cases hs : strtol (b.buf.drop k) 10 with
        | none => exact ⟨none, _, rfl, by simp; omega, by simp; omega, rfl⟩
        | some p =>
          obtain ⟨v, n⟩ := p
          have hn := strtol_le _ _ _ _ hs
          simp only [List.length_drop] at hn
          exact ⟨some (wrapS32 v), _, rfl, by simp; omega, by simp; omega, rfl⟩
    · have hlt := t3 hc
      simp only [hc, if_false, hlt, if_true]
      have he : ¬ (k = (b.buf.set k (ucharOf cv)).length) := by simp; omega
      have hgt' : ¬ (k > (b.buf.set k (ucharOf cv)).length) := by simp; omega
      simp only [he, if_false, hgt']
      cases hs : strtol ((b.buf.set k (ucharOf cv)).drop k) 10 with
      | none => exact ⟨none, _, rfl, by simp; omega, by simp; omega, by simp⟩
      | some p =>
        obtain ⟨v, n⟩ := p
        have hn := strtol_le _ _ _ _ hs
        simp only [List.length_drop, List.length_set] at hn
        exact ⟨some (wrapS32 v), _, rfl, by simp; omega, by simp; omega, by simp⟩

theorem wp_getNumC (Q : Option Int → MmlState → Prop) (s : MmlState) (h1 : col s ≤ len s)
    (h : ∀ r s', col s ≤ col s' → col s' ≤ len s' → len s' = len s → Q r s') : wp getNumC Q s := by
  obtain ⟨r, b', hg, ha, hb, hc⟩ := getNum_ok s.inp.lb h1
  unfold wp getNumC
  rw [hg]
  exact h r _ ha hb hc

/-! ### scans -/

theorem scanUntil_spec (stop : Int → Bool) : ∀ l : List Nat,
    1 ≤ (scanUntil stop l).2.1 ∧ (scanUntil stop l).2.1 ≤ l.length + 1 ∧
    ((scanUntil stop l).2.2 ≠ 0 → (scanUntil stop l).2.1 ≤ l.length)
  | [] => by simp [scanUntil]
  | c :: cs => by
    have ih := scanUntil_spec stop cs
    unfold scanUntil
    split
    · refine ⟨by simp, by simp, ?_⟩
      intro _
      simp
    · rcases hsc : scanUntil stop cs with ⟨l, n, e⟩
      rw [hsc] at ih
      simp only [] at ih ⊢
      refine ⟨by omega, by simp; omega, ?_⟩
      intro hne
      have := ih.2.2 hne
      simp; omega

theorem wp_scanC (stop : Int → Bool) (Q : List Nat × Int → MmlState → Prop) (s : MmlState)
    (h : ∀ r s', col s + 1 ≤ col s' → (col s ≤ len s → col s' ≤ len s + 1) → len s' = len s →
      (r.2 ≠ 0 → col s ≤ len s → col s' ≤ len s) → Q r s') : wp (scanC stop) Q s := by
  have hs := scanUntil_spec stop (s.inp.lb.buf.drop s.inp.lb.column)
  simp only [List.length_drop] at hs
  show Q _ _
  apply h
  · show s.inp.lb.column + 1 ≤ s.inp.lb.column + (scanUntil stop (s.inp.lb.buf.drop s.inp.lb.column)).2.1
    omega
  · intro hl
    show s.inp.lb.column + (scanUntil stop (s.inp.lb.buf.drop s.inp.lb.column)).2.1 ≤ s.inp.lb.buf.length + 1
    simp only [col, len] at hl
    omega
  · rfl
  · intro hne hl
    show s.inp.lb.column + (scanUntil stop (s.inp.lb.buf.drop s.inp.lb.column)).2.1 ≤ s.inp.lb.buf.length
    have := hs.2.2 hne
    simp only [col, len] at hl
    omega

theorem wp_scanTokenC (stop : Int → Bool) (Q : Int → MmlState → Prop) (s : MmlState)
    (h : ∀ c s', col s + 1 ≤ col s' → (col s ≤ len s → col s' ≤ len s + 1) → len s' = len s →
      (c ≠ 0 → col s ≤ len s → col s' ≤ len s) → Q c s') : wp (scanTokenC stop) Q s := by
  unfold scanTokenC
  apply wp_bind
  apply wp_scanC
  intro r s' h1 h2 h3 h4
  obtain ⟨l, c⟩ := r
  exact h c s' h1 h2 h3 h4

/-! ### `Track` calls -/

/-- the operation cannot hit an undefined-behaviour site of the builder, whatever the track -/
def SafeOp (op : Track.Op) : Prop := ∀ t : Track, ∃ r, t.applyOp op = .ok r

theorem wp_trackOp (op : Track.Op) (hop : SafeOp op) (Q : Unit → MmlState → Prop) (s : MmlState)
    (h : ∀ s', col s' = col s → len s' = len s → Q () s') : wp (trackOp op) Q s := by
  obtain ⟨r, hr⟩ := hop (getTrack s)
  unfold wp trackOp
  rw [hr]
  exact h _ rfl rfl

theorem safe_addEvent (ty : Nat) (p : Int) (a b : UInt16) : SafeOp (.addEvent ty p a b) := by intro t; simp [Track.applyOp, Track.opUB]
theorem safe_addTie (d : UInt16) : SafeOp (.addTie d) := by intro t; simp [Track.applyOp, Track.opUB]
theorem safe_addRest (d : UInt16) : SafeOp (.addRest d) := by intro t; simp [Track.applyOp, Track.opUB]
theorem safe_addEcho (d : UInt16) : SafeOp (.addEcho d) := by intro t; simp [Track.applyOp, Track.opUB]
theorem safe_setReference (r : Option Ref) : SafeOp (.setReference r) := by intro t; simp [Track.applyOp, Track.opUB]
theorem safe_setOctave (p : Int) : SafeOp (.setOctave p) := by intro t; simp [Track.applyOp, Track.opUB]
theorem safe_changeOctave (p : Int) : SafeOp (.changeOctave p) := by intro t; simp [Track.applyOp, Track.opUB]
theorem safe_setDuration (d : UInt16) : SafeOp (.setDuration d) := by intro t; simp [Track.applyOp, Track.opUB]
theorem safe_setQuantize (p q : UInt16) : SafeOp (.setQuantize p q) := by intro t; simp [Track.applyOp, Track.opUB]
theorem safe_setEarlyRelease (p : UInt16) : SafeOp (.setEarlyRelease p) := by intro t; simp [Track.applyOp, Track.opUB]
theorem safe_setDrumMode (p : UInt16) : SafeOp (.setDrumMode p) := by intro t; simp [Track.applyOp, Track.opUB]
theorem safe_setEcho (d : UInt16) (v : Int) : SafeOp (.setEcho d v) := by intro t; simp [Track.applyOp, Track.opUB]
theorem safe_clearEchoBuffer : SafeOp .clearEchoBuffer := by intro t; simp [Track.applyOp, Track.opUB]
theorem safe_setMeasureLen (p : UInt16) : SafeOp (.setMeasureLen p) := by intro t; simp [Track.applyOp, Track.opUB]
theorem safe_setShuffle (p : Int) : SafeOp (.setShuffle p) := by intro t; simp [Track.applyOp, Track.opUB]

/-- `add_note`: `note += drum_mode` is an `int` addition; it cannot overflow for a note number
of the size `read_note` returns -/
theorem safe_addNote (n : Int) (d : UInt16) (h1 : -1000 ≤ n) (h2 : n ≤ 1000) : SafeOp (.addNote n d) := by
  intro t
  have hd : t.drumMode.toNat < 65536 := t.drumMode.toNat_lt
  have hin : inInt32 (n + (t.drumMode.toNat : Int)) = true := by
    unfold inInt32
    simp only [Bool.and_eq_true, decide_eq_true_eq]
    omega
  simp [Track.applyOp, Track.opUB, hin]

/-! ### automation -/

/-- side conditions: linear facts about columns, with the branch conditions on characters -/
macro "sc" : tactic => `(tactic| first
  | omega
  | (simp only [beq_iff_eq, bne_iff_ne, ne_eq, Bool.or_eq_true, Bool.and_eq_true, Bool.not_eq_true, Bool.or_eq_false_iff,
      Bool.and_eq_false_iff, decide_eq_true_eq, decide_eq_false_iff_not, beq_eq_false_iff_ne, Bool.not_eq_false,
      isBlank, isDigit, isSpace, not_or, not_and, Int.not_lt, Int.not_le] at *; omega)
  | decide)

/-! ### read helpers -/

theorem countDots_le (l : List Nat) : countDots l ≤ l.length := by
  induction l with
  | nil => simp [countDots]
  | cons c cs ih => simp only [countDots]; split <;> simp <;> omega

theorem wp_dotsLoop : ∀ (k : Nat) (dur dot : Int) (Q : Int → MmlState → Prop) (s : MmlState),
    (∀ r s', col s' = col s + k → len s' = len s → Q r s') → wp (dotsLoop k dur dot) Q s
  | 0, dur, dot, Q, s, h => by
    unfold dotsLoop
    apply wp_bind; apply wp_getC; intro c s1 a1 a2 a3
    apply wp_bind; refine wp_ungetC _ _ _ (by sc) (by intro hc; exact absurd rfl hc) ?_; intro s2 b1 b2
    apply wp_pure
    exact h _ _ (by sc) (by sc)
  | k + 1, dur, dot, Q, s, h => by
    unfold dotsLoop
    apply wp_bind; apply wp_getC; intro c s1 a1 a2 a3
    apply wp_dotsLoop k
    intro r s2 b1 b2
    exact h _ _ (by sc) (by sc)

/-- the dots counted in the rest of the line lie inside the line -/
theorem wp_dotsLoop_count (dur dot : Int) (Q : Int → MmlState → Prop) (s : MmlState) (h1 : col s ≤ len s)
    (h : ∀ r s', col s ≤ col s' → col s' ≤ len s' → len s' = len s → Q r s') :
    wp (dotsLoop (countDots (s.inp.lb.buf.drop s.inp.lb.column)) dur dot) Q s := by
  have hk := countDots_le (s.inp.lb.buf.drop s.inp.lb.column)
  simp only [List.length_drop] at hk
  apply wp_dotsLoop
  intro r s' a1 a2
  simp only [col, len] at *
  apply h <;> omega

theorem wp_readParameter (d : Int) (Q : Int → MmlState → Prop) (s : MmlState) (h1 : col s ≤ len s)
    (h : ∀ r s', col s ≤ col s' → col s' ≤ len s' → len s' = len s → Q r s') : wp (readParameter d) Q s := by
  unfold readParameter
  apply wp_bind; refine wp_getNumC _ _ h1 ?_; intro r s1 a1 a2 a3
  split
  · apply wp_pure; exact h _ _ a1 a2 a3
  · apply wp_pure; exact h _ _ a1 a2 a3

theorem wp_expectParameter (Q : Int → MmlState → Prop) (s : MmlState) (h1 : col s ≤ len s)
    (h : ∀ r s', col s ≤ col s' → col s' ≤ len s' → len s' = len s → Q r s') : wp expectParameter Q s := by
  unfold expectParameter
  apply wp_bind; refine wp_getNumC _ _ h1 ?_; intro r s1 a1 a2 a3
  split
  · apply wp_pure; exact h _ _ a1 a2 a3
  · apply wp_parseError; decide

theorem wp_expectSigned (Q : Int → MmlState → Prop) (s : MmlState) (h1 : col s ≤ len s)
    (h : ∀ r s', col s ≤ col s' → col s' ≤ len s' → len s' = len s → Q r s') : wp expectSigned Q s :=
  wp_expectParameter Q s h1 h

attribute [local irreducible] wp getC getTokenC ungetC getNumC scanC scanTokenC trackOp modifyTrack modifyS getS track
  tellC seekC parseWarning parseError dotsLoop readParameter expectParameter expectSigned

/-- one step along a `do` block -/
macro "wp_step" : tactic => `(tactic| first
  | apply wp_bind
  | (apply wp_parseError; decide)
  | apply wp_getS
  | apply wp_track
  | apply wp_tellC
  | (apply wp_getC; intro _ _ _ _ _)
  | (apply wp_getTokenC; intro _ _ _ _ _ _)
  | (refine wp_getNumC _ _ (by sc) ?_; intro _ _ _ _ _)
  | (refine wp_readParameter _ _ _ (by sc) ?_; intro _ _ _ _ _)
  | (refine wp_expectParameter _ _ (by sc) ?_; intro _ _ _ _ _)
  | (refine wp_expectSigned _ _ (by sc) ?_; intro _ _ _ _ _)
  | (refine wp_ungetC _ _ _ (by sc) (by sc) ?_; intro _ _ _)
  | (refine wp_dotsLoop_count _ _ _ _ (by sc) ?_; intro _ _ _ _ _)
  | (apply wp_dotsLoop; intro _ _ _ _)
  | (apply wp_parseWarning; intro _ _ _)
  | (apply wp_modifyTrack; intro _ _ _)
  | (apply wp_scanC; intro _ _ _ _ _ _)
  | (apply wp_scanTokenC; intro _ _ _ _ _ _)
  | (show wp (pure _) _ _; apply wp_pure)
  | (apply wp_ite <;> intro _)
  | split
  | dsimp only)

theorem wp_readDuration (Q : Nat → MmlState → Prop) (s : MmlState) (h1 : col s ≤ len s)
    (h : ∀ r s', col s ≤ col s' → col s' ≤ len s' → len s' = len s → Q r s') : wp readDuration Q s := by
  unfold readDuration
  repeat' wp_step
  all_goals (apply h <;> sc)

/-! ### key signatures: no negative shift -/

theorem noteIndex_alpha (c : Int) (h : isAlpha c = true) : 0 ≤ Track.noteIndex c ∧ Track.noteIndex c ≤ 25 := by
  unfold Track.noteIndex wrapS8 toLower
  simp only [isAlpha, isUpper, isLower, Bool.or_eq_true, Bool.and_eq_true, decide_eq_true_eq] at h
  split
  · rename_i hu
    simp only [isUpper, Bool.and_eq_true, decide_eq_true_eq] at hu
    omega
  · rename_i hu
    simp only [isUpper, Bool.and_eq_true, decide_eq_true_eq] at hu
    omega

theorem modifyKeySignature_alpha (t : Track) (c m : Int) (h : isAlpha c = true) : t.modifyKeySignature c m ≠ .ubShift := by
  have hn := noteIndex_alpha c h
  unfold Track.modifyKeySignature
  simp only []
  split
  · intro hh; cases hh
  · have : ¬ (Track.noteIndex c < 0) := by omega
    simp only [this, if_false]
    split
    · intro hh; cases hh
    · split
      · intro hh; cases hh
      · split <;> (intro hh; cases hh)

theorem keySigLoop_ne_ub : ∀ (l : List Nat) (t : Track) (m : Int), Track.keySigLoop t m l ≠ .ubShift
  | [], t, m => by simp [Track.keySigLoop]
  | k :: ks, t, m => by
    unfold Track.keySigLoop
    simp only []
    split
    · exact keySigLoop_ne_ub ks t 1
    · split
      · exact keySigLoop_ne_ub ks t (-1)
      · split
        · exact keySigLoop_ne_ub ks t 0
        · split
          · rename_i ha
            have := modifyKeySignature_alpha t (schar k) m ha
            split
            · exact keySigLoop_ne_ub ks _ m
            · rename_i r hr
              exact this
          · intro hh; cases hh

theorem setKeySignature_ne_ub (t : Track) (key : List Nat) : t.setKeySignature key ≠ .ubShift := by
  unfold Track.setKeySignature
  simp only []
  split <;> split
  · split <;> (intro hh; cases hh)
  · exact keySigLoop_ne_ub _ t 0
  · split <;> (intro hh; cases hh)
  · exact keySigLoop_ne_ub _ t 0

theorem getKeySignature_letter (t : Track) (c : Int) (h1 : 97 ≤ c) (h2 : c ≤ 104) :
    ∃ v, t.getKeySignature (schar (ucharOf c)) = .ok v ∧ -1 ≤ v ∧ v ≤ 1 := by
  have hc : schar (ucharOf c) = c := by
    unfold schar ucharOf
    have : (c % 256).toNat = (c.toNat) := by omega
    rw [this]
    have h3 : c.toNat % 256 = c.toNat := by omega
    simp only [h3]
    split <;> omega
  rw [hc]
  have hn : Track.noteIndex c = c - 97 := by
    unfold Track.noteIndex wrapS8 toLower isUpper
    have : (decide (65 ≤ c) && decide (c ≤ 90)) = false := by simp; omega
    simp only [this, Bool.false_eq_true, if_false]
    omega
  unfold Track.getKeySignature
  simp only [hn]
  have a1 : ¬ (c - 97 > 7) := by omega
  have a2 : ¬ (c - 97 < 0) := by omega
  simp only [a1, a2, if_false]
  split
  · exact ⟨1, rfl, by omega, by omega⟩
  · split
    · exact ⟨-1, rfl, by omega, by omega⟩
    · exact ⟨0, rfl, by omega, by omega⟩

theorem wp_keySigOf (c : Int) (h1 : 97 ≤ c) (h2 : c ≤ 104) (Q : Int → MmlState → Prop) (s : MmlState)
    (h : ∀ v, -1 ≤ v → v ≤ 1 → Q v s) : wp (keySigOf (schar (ucharOf c))) Q s := by
  obtain ⟨v, hv, b1, b2⟩ := getKeySignature_letter (getTrack s) c h1 h2
  unfold keySigOf
  apply wp_bind; apply wp_track
  rw [hv]
  apply wp_pure
  exact h v b1 b2

theorem noteValues_bound (i : Nat) : 0 ≤ (noteValues[i]?).getD 0 ∧ (noteValues[i]?).getD 0 ≤ 11 := by
  have hall : ∀ x ∈ noteValues, 0 ≤ x ∧ x ≤ 11 := by decide
  cases hg : noteValues[i]? with
  | none => simp
  | some x =>
    have := List.mem_of_getElem? hg
    simpa using hall x this

/-! ### notes -/

macro "safeop" : tactic => `(tactic| first
  | exact safe_addEvent _ _ _ _ | exact safe_addTie _ | exact safe_addRest _ | exact safe_addEcho _
  | exact safe_setReference _ | exact safe_setOctave _ | exact safe_changeOctave _ | exact safe_setDuration _
  | exact safe_setQuantize _ _ | exact safe_setEarlyRelease _ | exact safe_setDrumMode _ | exact safe_setEcho _ _
  | exact safe_clearEchoBuffer | exact safe_setMeasureLen _ | exact safe_setShuffle _
  | exact safe_addNote _ _ (by sc) (by sc))

theorem wp_modifyS_keep (f : MmlState → MmlState) (hf : ∀ s, (f s).inp = s.inp) (Q : Unit → MmlState → Prop) (s : MmlState)
    (h : ∀ s', col s' = col s → len s' = len s → Q () s') : wp (modifyS f) Q s := by
  apply wp_modifyS
  apply h
  · show (f s).inp.lb.column = _; rw [hf]; rfl
  · show (f s).inp.lb.buf.length = _; rw [hf]; rfl

attribute [local irreducible] readDuration keySigOf

macro "wp_step2" : tactic => `(tactic| first
  | apply wp_bind
  | (refine wp_readDuration _ _ (by sc) ?_; intro _ _ _ _ _)
  | (refine wp_trackOp _ (by safeop) _ _ ?_; intro _ _ _)
  | (refine wp_modifyS_keep _ (by intro _; rfl) _ _ ?_; intro _ _ _)
  | wp_step)

theorem wrapS8_small (c : Int) (h1 : 97 ≤ c) (h2 : c ≤ 104) : wrapS8 (c - 97) = c - 97 := by
  unfold wrapS8; omega

theorem wp_readNote (c : Int) (hc1 : 97 ≤ c) (hc2 : c ≤ 104) (Q : Int → MmlState → Prop) (s : MmlState) (h1 : col s ≤ len s)
    (h : ∀ r s', -1000 ≤ r → r ≤ 1000 → col s ≤ col s' → col s' ≤ len s' → len s' = len s → Q r s') : wp (readNote c) Q s := by
  unfold readNote
  have hw := wrapS8_small c hc1 hc2
  have hnv := noteValues_bound ((wrapS8 (c - 97) % 8).toNat)
  simp only []
  repeat' (first | (refine wp_keySigOf _ hc1 hc2 _ _ ?_; intro _ _ _) | wp_step2)
  all_goals (apply h <;> sc)

/-! ### commands -/

attribute [local irreducible] readNote

macro "wp_step3" : tactic => `(tactic| first
  | apply wp_bind
  | (refine wp_readNote _ (by sc) (by sc) _ _ (by sc) ?_; intro _ _ _ _ _ _ _)
  | (exact absurd ‹_› (setKeySignature_ne_ub _ _))
  | wp_step2)

theorem wp_mmlSlur (Q : Unit → MmlState → Prop) (s : MmlState)
    (h : ∀ s', col s' = col s → len s' = len s → Q () s') : wp mmlSlur Q s := by
  unfold mmlSlur
  repeat' wp_step3
  all_goals (apply h <;> sc)

theorem wp_mmlReverseRest (d : Nat) (Q : Unit → MmlState → Prop) (s : MmlState)
    (h : ∀ s', col s' = col s → len s' = len s → Q () s') : wp (mmlReverseRest d) Q s := by
  unfold mmlReverseRest
  repeat' wp_step3
  all_goals (apply h <;> sc)

theorem wp_platformExclusive (Q : Unit → MmlState → Prop) (s : MmlState) (h1 : col s ≤ len s)
    (h : ∀ s', col s + 1 ≤ col s' → col s' ≤ len s' → len s' = len s → Q () s') : wp platformExclusive Q s := by
  unfold platformExclusive
  repeat' wp_step3
  all_goals (apply h <;> sc)

attribute [local irreducible] mmlSlur mmlReverseRest platformExclusive

macro "wp_step4" : tactic => `(tactic| first
  | apply wp_bind
  | (apply wp_mmlSlur; intro _ _ _)
  | (apply wp_mmlReverseRest; intro _ _ _)
  | (refine wp_platformExclusive _ _ (by sc) ?_; intro _ _ _ _)
  | wp_step3)

theorem wp_mmlGrace (Q : Unit → MmlState → Prop) (s : MmlState) (h1 : col s ≤ len s)
    (h : ∀ s', col s + 1 ≤ col s' → col s' ≤ len s' → len s' = len s → Q () s') : wp mmlGrace Q s := by
  unfold mmlGrace
  repeat' wp_step4
  all_goals (apply h <;> sc)

theorem wp_mmlTranspose (Q : Unit → MmlState → Prop) (s : MmlState) (h1 : col s ≤ len s)
    (h : ∀ s', col s ≤ col s' → col s' ≤ len s' + 1 → len s' = len s → Q () s') : wp mmlTranspose Q s := by
  unfold mmlTranspose
  repeat' wp_step4
  all_goals (apply h <;> sc)

theorem wp_mmlEcho (Q : Unit → MmlState → Prop) (s : MmlState) (h1 : col s ≤ len s)
    (h : ∀ s', col s ≤ col s' → col s' ≤ len s' → len s' = len s → Q () s') : wp mmlEcho Q s := by
  unfold mmlEcho
  repeat' wp_step4
  all_goals (apply h <;> sc)

theorem wp_eventRelative (ty : Nat) (sub : Option Nat) (Q : Unit → MmlState → Prop) (s : MmlState) (h1 : col s ≤ len s)
    (h : ∀ s', col s ≤ col s' → col s' ≤ len s' → len s' = len s → Q () s') : wp (eventRelative ty sub) Q s := by
  unfold eventRelative
  repeat' wp_step4
  all_goals (apply h <;> sc)

attribute [local irreducible] mmlGrace mmlTranspose mmlEcho eventRelative

macro "wp_step5" : tactic => `(tactic| first
  | apply wp_bind
  | (refine wp_mmlGrace _ _ (by sc) ?_; intro _ _ _ _)
  | (refine wp_mmlTranspose _ _ (by sc) ?_; intro _ _ _ _)
  | (refine wp_mmlEcho _ _ (by sc) ?_; intro _ _ _ _)
  | (refine wp_eventRelative _ _ _ _ (by sc) ?_; intro _ _ _ _)
  | wp_step4)

/-- what a command parser leaves: `false` = a command was read (at least one column consumed,
never beyond `length + 1`), `true` = not mine (the character was put back) -/
def CmdPost (s : MmlState) (r : Bool) (s' : MmlState) : Prop :=
  (r = false → col s + 1 ≤ col s' ∧ col s' ≤ len s + 1) ∧ (r = true → col s ≤ col s' ∧ col s' ≤ len s) ∧ len s' = len s


theorem wp_mmlBasic (Q : Bool → MmlState → Prop) (s : MmlState) (h1 : col s ≤ len s)
    (h : ∀ r s', CmdPost s r s' → Q r s') : wp mmlBasic Q s := by
  unfold mmlBasic
  repeat' wp_step5
  all_goals (apply h; unfold CmdPost; refine ⟨?_, ?_, ?_⟩ <;> first | (intro hh; exact absurd hh (by decide)) | (intro _; constructor <;> sc) | sc)

theorem wp_mmlControl (Q : Bool → MmlState → Prop) (s : MmlState) (h1 : col s ≤ len s)
    (h : ∀ r s', CmdPost s r s' → Q r s') : wp mmlControl Q s := by
  unfold mmlControl
  repeat' wp_step5
  all_goals (apply h; unfold CmdPost; refine ⟨?_, ?_, ?_⟩ <;> first | (intro hh; exact absurd hh (by decide)) | (intro _; constructor <;> sc) | sc)

theorem wp_mmlEnvelope (Q : Bool → MmlState → Prop) (s : MmlState) (h1 : col s ≤ len s)
    (h : ∀ r s', CmdPost s r s' → Q r s') : wp mmlEnvelope Q s := by
  unfold mmlEnvelope
  repeat' wp_step5
  all_goals (apply h; unfold CmdPost; refine ⟨?_, ?_, ?_⟩ <;> first | (intro hh; exact absurd hh (by decide)) | (intro _; constructor <;> sc) | sc)

/-! ### conditional blocks -/

theorem wp_condGo : ∀ (k : Nat) (Q : Unit → MmlState → Prop) (s : MmlState), col s ≤ len s →
    (∀ s', col s ≤ col s' → col s' ≤ len s' → len s' = len s → Q () s') → wp (conditionalBlockBegin.go k) Q s
  | 0, Q, s, h1, h => by
    unfold conditionalBlockBegin.go
    apply wp_pure
    apply h <;> sc
  | k + 1, Q, s, h1, h => by
    unfold conditionalBlockBegin.go
    apply wp_bind
    apply wp_scanTokenC; intro c s1 a1 a2 a3 a4
    dsimp only
    apply wp_ite
    · intro _; apply wp_bind; apply wp_parseError; decide
    · intro hc
      apply wp_condGo k
      · sc
      · intro s2 b1 b2 b3
        apply h <;> sc

theorem wp_conditionalBlockBegin (Q : Unit → MmlState → Prop) (s : MmlState) (h1 : col s ≤ len s)
    (h : ∀ s', col s ≤ col s' → col s' ≤ len s' → len s' = len s → Q () s') : wp conditionalBlockBegin Q s := by
  unfold conditionalBlockBegin
  apply wp_bind; apply wp_getS
  apply wp_bind
  refine wp_modifyS_keep _ (by intro _; rfl) _ _ ?_; intro s1 a1 a2
  apply wp_condGo
  · sc
  · intro s2 b1 b2 b3
    apply h <;> sc

theorem wp_conditionalBlockEnd (c : Int) (Q : Unit → MmlState → Prop) (s : MmlState) (h1 : col s ≤ len s)
    (h : ∀ s', col s ≤ col s' → col s' ≤ len s' → len s' = len s → Q () s') : wp (conditionalBlockEnd c) Q s := by
  unfold conditionalBlockEnd
  repeat' wp_step5
  all_goals (apply h <;> sc)

/-! ### the track loop -/

theorem cmd_split (m : P Bool) (hm : ∀ (Q : Bool → MmlState → Prop) (s : MmlState), col s ≤ len s →
      (∀ r s', CmdPost s r s' → Q r s') → wp m Q s)
    (Q : Bool → MmlState → Prop) (s : MmlState) (h1 : col s ≤ len s)
    (hf : ∀ s', col s + 1 ≤ col s' → col s' ≤ len s + 1 → len s' = len s → Q false s')
    (ht : ∀ s', col s ≤ col s' → col s' ≤ len s → len s' = len s → Q true s') : wp m Q s := by
  apply hm Q s h1
  intro r s' hp
  obtain ⟨p1, p2, p3⟩ := hp
  cases r with
  | false => exact hf s' (p1 rfl).1 (p1 rfl).2 p3
  | true => exact ht s' (p2 rfl).1 (p2 rfl).2 p3

attribute [local irreducible] mmlBasic mmlControl mmlEnvelope conditionalBlockBegin conditionalBlockEnd

end Ctrmml.Mml

namespace Ctrmml.MmlFix
open Ctrmml.Tables Ctrmml.Lexer Ctrmml.TrackBuilder Ctrmml.Mml

attribute [local irreducible] wp getC getTokenC ungetC getNumC scanC scanTokenC trackOp modifyTrack modifyS getS track
  tellC seekC parseWarning parseError expectParameter

/-- the loop of `parse_mml_track`: every iteration consumes at least one column and never moves
beyond `length + 1`, so a budget of `length + 2 - column` iterations is never exhausted -/
theorem wp_parseMmlTrackF : ∀ (fuel : Nat) (Q : Unit → MmlState → Prop) (s : MmlState),
    col s ≤ len s + 1 → len s + 2 ≤ fuel + col s →
    (∀ s', len s' = len s → Q () s') → wp (parseMmlTrackF fuel) Q s
  | 0, Q, s, h1, h2, h => by omega
  | fuel + 1, Q, s, h1, h2, h => by
    have ih := wp_parseMmlTrackF fuel
    unfold parseMmlTrackF
    apply wp_bind; apply wp_getTokenC; intro c s1 a1 a2 a3 a4
    apply wp_bind; apply wp_getS
    -- beyond the buffer the token is 0
    have hc0 : col s = len s + 1 → c = 0 := by
      intro he
      rcases Decidable.em (c = 0) with h0 | h0
      · exact h0
      · have := a4 h0; omega
    apply wp_ite
    · intro hc
      have : c = 124 := by simpa using hc
      apply ih _ _ (by sc) (by sc)
      intro s' b1; apply h; sc
    · intro _
      apply wp_ite
      · intro _; apply wp_pure; apply h; sc
      · intro _
        apply wp_ite
        · intro hc
          have hne : c ≠ 0 := by
            intro h0; subst h0; simp at hc
          apply wp_bind
          refine wp_conditionalBlockEnd _ _ _ (by sc) ?_; intro s2 b1 b2 b3
          apply ih _ _ (by sc) (by sc)
          intro s' d1; apply h; sc
        · intro _
          apply wp_ite
          · intro hc
            have hne : c ≠ 0 := by
              intro h0; subst h0; simp at hc
            apply wp_bind
            refine wp_conditionalBlockBegin _ _ (by sc) ?_; intro s2 b1 b2 b3
            apply ih _ _ (by sc) (by sc)
            intro s' d1; apply h; sc
          · intro _
            apply wp_ite
            · intro hc
              have hne : c = 37 := by simpa using hc
              apply wp_bind
              refine wp_ungetC _ _ _ (by sc) (by sc) ?_; intro s2 b1 b2
              apply wp_bind; apply wp_getS
              apply wp_bind
              refine wp_trackOp _ (safe_setReference _) _ _ ?_; intro s3 e1 e2
              apply wp_bind; apply wp_getC; intro c2 s4 f1 f2 f3
              apply wp_bind
              refine wp_expectParameter _ _ (by sc) ?_; intro r s5 g1 g2 g3
              apply wp_bind
              refine wp_trackOp _ (safe_addEvent _ _ _ _) _ _ ?_; intro s6 i1 i2
              apply ih _ _ (by sc) (by sc)
              intro s' d1; apply h; sc
            · intro _
              apply wp_ite
              · intro _; apply wp_pure; apply h; sc
              · intro hz
                have hne : c ≠ 0 := by
                  intro h0; subst h0; simp at hz
                apply wp_bind
                refine wp_ungetC _ _ _ (by sc) (by sc) ?_; intro s2 b1 b2
                apply wp_bind; apply wp_getS
                apply wp_bind
                refine wp_trackOp _ (safe_setReference _) _ _ ?_; intro s3 e1 e2
                apply wp_bind
                refine cmd_split mmlBasic wp_mmlBasic _ _ (by sc) ?_ ?_
                · intro s4 f1 f2 f3
                  apply wp_ite
                  · intro _
                    apply ih _ _ (by sc) (by sc)
                    intro s' d1; apply h; sc
                  · intro hh; exact absurd rfl hh
                · intro s4 f1 f2 f3
                  apply wp_ite
                  · intro hh; exact absurd hh (by decide)
                  · intro _
                    apply wp_bind
                    refine cmd_split mmlControl wp_mmlControl _ _ (by sc) ?_ ?_
                    · intro s5 g1 g2 g3
                      apply wp_ite
                      · intro _
                        apply ih _ _ (by sc) (by sc)
                        intro s' d1; apply h; sc
                      · intro hh; exact absurd rfl hh
                    · intro s5 g1 g2 g3
                      apply wp_ite
                      · intro hh; exact absurd hh (by decide)
                      · intro _
                        apply wp_bind
                        refine cmd_split mmlEnvelope wp_mmlEnvelope _ _ (by sc) ?_ ?_
                        · intro s6 i1 i2 i3
                          apply wp_ite
                          · intro _
                            apply ih _ _ (by sc) (by sc)
                            intro s' d1; apply h; sc
                          · intro hh; exact absurd rfl hh
                        · intro s6 i1 i2 i3
                          apply wp_ite
                          · intro hh; exact absurd hh (by decide)
                          · intro _; apply wp_parseError; decide

theorem wp_parseMmlTrack (Q : Unit → MmlState → Prop) (s : MmlState) (h1 : col s ≤ len s + 1)
    (h : ∀ s', len s' = len s → Q () s') : wp parseMmlTrack Q s := by
  unfold parseMmlTrack
  apply wp_bind; apply wp_getS
  apply wp_parseMmlTrackF _ _ _ h1 _ h
  show s.inp.lb.buf.length + 2 ≤ (s.inp.lb.buf.length + 2 - s.inp.lb.column) + s.inp.lb.column
  omega

theorem wp_parseMmlLoop (c0 : Nat) : ∀ (l : List Nat) (i : Nat) (Q : Unit → MmlState → Prop) (s : MmlState),
    c0 ≤ len s + 1 → (∀ s', len s' = len s → Q () s') → wp (parseMmlLoop c0 i l) Q s
  | [], i, Q, s, h1, h => by
    unfold parseMmlLoop
    apply wp_pure; exact h s rfl
  | id :: rest, i, Q, s, h1, h => by
    unfold parseMmlLoop
    apply wp_bind; apply wp_seekC; intro s1 a1 a2
    apply wp_bind
    refine wp_modifyS_keep _ (by intro _; rfl) _ _ ?_; intro s2 b1 b2
    apply wp_bind
    refine wp_parseMmlTrack _ _ (by omega) ?_; intro s3 d1
    apply wp_bind; apply wp_getS
    dsimp only
    apply wp_ite
    · intro _; apply wp_bind; apply wp_parseError; decide
    · intro _
      apply wp_parseMmlLoop c0 rest _ _ _ (by omega)
      intro s4 e1; apply h; omega

theorem wp_parseMml (Q : Unit → MmlState → Prop) (s : MmlState) (h1 : col s ≤ len s + 1)
    (h : ∀ s', len s' = len s → Q () s') : wp parseMml Q s := by
  unfold parseMml
  apply wp_bind; apply wp_tellC
  apply wp_bind; apply wp_getS
  exact wp_parseMmlLoop _ _ _ _ _ h1 h

end Ctrmml.MmlFix

namespace Ctrmml.Mml
open Ctrmml.Tables Ctrmml.Lexer Ctrmml.TrackBuilder

attribute [local irreducible] wp getC getTokenC ungetC getNumC scanC scanTokenC trackOp modifyTrack modifyS getS track
  tellC seekC parseWarning parseError expectParameter

theorem wp_fail_never {α} (e : Err) (Q : α → MmlState → Prop) (s : MmlState) (h : False) : wp (fail e : P α) Q s := h.elim

theorem wp_parseTag (Q : Unit → MmlState → Prop) (s : MmlState) (h1 : col s ≤ len s)
    (h : ∀ s', len s' = len s → Q () s') : wp parseTag Q s := by
  unfold parseTag
  apply wp_bind; apply wp_getS
  have hl : s.inp.lb.getLine = .ok (s.inp.lb.buf.drop s.inp.lb.column) := by
    unfold LineBuffer.getLine
    simp only [col, len] at h1
    simp [h1]
  rw [hl]
  simp only []
  apply wp_bind; apply wp_pure
  apply wp_ite
  · intro _
    apply wp_ite
    · intro _
      apply wp_bind
      refine wp_modifyS_keep _ (by intro _; rfl) _ _ ?_; intro s1 a1 a2
      refine wp_modifyS_keep _ (by intro _; rfl) _ _ ?_; intro s2 b1 b2
      apply h; omega
    · intro _
      apply wp_bind
      refine wp_modifyS_keep _ (by intro _; rfl) _ _ ?_; intro s1 a1 a2
      refine wp_modifyS_keep _ (by intro _; rfl) _ _ ?_; intro s2 b1 b2
      apply h; omega
  · intro _
    refine wp_modifyS_keep _ (by intro _; rfl) _ _ ?_; intro s1 a1 a2
    apply h; omega

theorem wp_getTrackId (Q : Int → MmlState → Prop) (s : MmlState) (h1 : col s ≤ len s)
    (h : ∀ r s', col s ≤ col s' → (r ≠ -1 → col s + 1 ≤ col s') → col s' ≤ len s' → len s' = len s → Q r s') :
    wp getTrackId Q s := by
  unfold getTrackId
  apply wp_bind; apply wp_getC; intro c s1 a1 a2 a3
  apply wp_ite
  · intro hc
    have : c ≠ 0 := by intro h0; subst h0; simp at hc
    apply wp_pure; apply h <;> sc
  · intro _
    apply wp_ite
    · intro hc
      have : c ≠ 0 := by intro h0; subst h0; simp [isDigit] at hc
      apply wp_pure; apply h <;> sc
    · intro _
      apply wp_ite
      · intro hc
        have : c = 42 := by simpa using hc
        apply wp_bind
        refine wp_getNumC _ _ (by sc) ?_; intro r s2 b1 b2 b3
        cases r with
        | none => apply wp_parseError; decide
        | some v => apply wp_pure; apply h <;> sc
      · intro _
        apply wp_bind
        refine wp_ungetC _ _ _ (by sc) (by sc) ?_; intro s2 b1 b2
        apply wp_pure; apply h <;> first | sc | (intro hh; exact absurd rfl hh)

theorem wp_trackListLoop : ∀ (fuel : Nat) (c : Int) (acc : List Nat) (Q : List Nat → MmlState → Prop) (s : MmlState),
    col s ≤ len s → len s + 1 ≤ fuel + col s →
    (∀ r s', col s ≤ col s' → col s' ≤ len s' → len s' = len s → Q r s') → wp (trackListLoop fuel c acc) Q s
  | 0, c, acc, Q, s, h1, h2, h => by omega
  | fuel + 1, c, acc, Q, s, h1, h2, h => by
    unfold trackListLoop
    simp only []
    apply wp_bind
    refine wp_getTrackId _ _ h1 ?_; intro r s1 a1 a2 a3 a4
    apply wp_ite
    · intro hc
      have hr : r ≠ -1 := by simpa using hc
      have := a2 hr
      apply wp_trackListLoop fuel _ _ _ _ (by omega) (by omega)
      intro r2 s2 b1 b2 b3
      apply h <;> omega
    · intro _
      apply wp_pure; apply h <;> omega

end Ctrmml.Mml

namespace Ctrmml.MmlFix
open Ctrmml.Tables Ctrmml.Lexer Ctrmml.TrackBuilder Ctrmml.Mml

attribute [local irreducible] wp getC getTokenC ungetC getNumC scanC scanTokenC trackOp modifyTrack modifyS getS track
  tellC seekC parseWarning parseError expectParameter parseMml parseTag getTrackId trackListLoop

theorem tagKeyScan_spec : ∀ (l : List Nat) (c : Int),
    1 ≤ (tagKeyScan c l).2.1 ∧ (tagKeyScan c l).2.1 ≤ l.length + 1 ∧ ((tagKeyScan c l).2.2 ≠ 0 → (tagKeyScan c l).2.1 ≤ l.length)
  | [], c => by simp [tagKeyScan]
  | d :: ds, c => by
    have ih := tagKeyScan_spec ds (schar d)
    unfold tagKeyScan
    simp only []
    split
    · rcases hsc : tagKeyScan (schar d) ds with ⟨k, n, e⟩
      rw [hsc] at ih
      simp only [] at ih ⊢
      refine ⟨by omega, by simp; omega, ?_⟩
      intro hne
      have := ih.2.2 hne
      simp; omega
    · refine ⟨by simp, by simp, ?_⟩
      intro _
      simp

theorem wp_runLastCmd (Q : Unit → MmlState → Prop) (s : MmlState) (h1 : col s ≤ len s)
    (h : ∀ s', len s' = len s → Q () s') : wp runLastCmd Q s := by
  unfold runLastCmd
  apply wp_bind; apply wp_getS
  split
  · apply wp_pure; exact h s rfl
  · exact wp_parseMml _ _ (by omega) h
  · exact wp_parseTag _ _ h1 h

/-- the tail of `parse_line` after the line has been recognised as a track / tag / continuation line -/
theorem wp_lineTail (Q : Unit → MmlState → Prop) (s : MmlState) (h1 : col s ≤ len s)
    (h : ∀ s', len s' = len s → Q () s') :
    wp (do
      let c ← getC
      if isBlank c then do
        let c ← getTokenC
        ungetC c
        if c == 0 then pure ()
        else runLastCmd) Q s := by
  apply wp_bind; apply wp_getC; intro c s1 a1 a2 a3
  apply wp_ite
  · intro hb
    have : c ≠ 0 := by intro h0; subst h0; simp [isBlank] at hb
    apply wp_bind; apply wp_getTokenC; intro c2 s2 b1 b2 b3 b4
    apply wp_bind
    refine wp_ungetC _ _ _ (by sc) (by sc) ?_; intro s3 d1 d2
    apply wp_ite
    · intro _; apply wp_pure; apply h; omega
    · intro hz
      have : c2 ≠ 0 := by simpa using hz
      refine wp_runLastCmd _ _ (by sc) ?_
      intro s4 e1; apply h; omega
  · intro _; apply wp_pure; apply h; omega

/-- the join point of `parse_line`: run the tail when the line continues -/
theorem wp_lineJoin (b : Bool) (Q : Unit → MmlState → Prop) (s : MmlState) (hc : b = true → col s ≤ len s)
    (h : ∀ s', len s' = len s → Q () s') :
    wp (if b = true then (do
      let c ← getC
      if isBlank c then do
        let c ← getTokenC
        ungetC c
        if c == 0 then pure ()
        else runLastCmd) else pure ()) Q s := by
  apply wp_ite
  · intro hb; exact wp_lineTail _ _ (hc hb) h
  · intro _; apply wp_pure; exact h s rfl

theorem wp_parseLine (Q : Unit → MmlState → Prop) (s : MmlState) (h0 : col s = 0)
    (h : ∀ s', len s' = len s → Q () s') : wp parseLine Q s := by
  unfold parseLine
  apply wp_bind
  refine wp_getTrackId _ _ (by omega) ?_; intro c s1 a1 a2 a3 a4
  dsimp only
  apply wp_ite
  · intro _
    apply wp_bind; apply wp_getS
    apply wp_bind
    refine wp_trackListLoop _ _ _ _ _ a3 ?_ ?_
    · show len s1 + 1 ≤ (s1.inp.lb.buf.length + 2) + col s1
      simp only [len]; omega
    · intro l s2 b1 b2 b3
      apply wp_bind
      refine wp_modifyS_keep _ (by intro _; rfl) _ _ ?_; intro s3 d1 d2
      apply wp_bind; apply wp_pure
      refine wp_lineJoin _ _ _ (fun _ => by omega) ?_
      intro s4 e1; apply h; omega
  · intro _
    apply wp_bind; apply wp_getC; intro c2 s2 b1 b2 b3
    apply wp_ite
    · intro hc
      have hne : c2 ≠ 0 := by intro h0'; subst h0'; simp at hc
      apply wp_bind; apply wp_getS
      have hts := tagKeyScan_spec (s2.inp.lb.buf.drop s2.inp.lb.column) c2
      simp only [List.length_drop] at hts
      rcases hsc : tagKeyScan c2 (s2.inp.lb.buf.drop s2.inp.lb.column) with ⟨key, n, e⟩
      rw [hsc] at hts
      simp only [] at hts ⊢
      apply wp_bind
      apply wp_modifyS
      apply wp_bind
      have hcol : col ({ setLb s2 { s2.inp.lb with column := s2.inp.lb.column + n } with tagKey := key, lastCmd := LastCmd.parseTag } : MmlState)
          = col s2 + n := rfl
      have hlen : len ({ setLb s2 { s2.inp.lb with column := s2.inp.lb.column + n } with tagKey := key, lastCmd := LastCmd.parseTag } : MmlState)
          = len s2 := rfl
      have hb3 := b3 hne
      refine wp_ungetC _ _ _ ?_ ?_ ?_
      · rw [hcol]; omega
      · intro he
        have := hts.2.2 he
        rw [hcol, hlen]; simp only [col, len] at *; omega
      · intro s4 d1 d2
        apply wp_bind; apply wp_pure
        rw [hcol] at d1; rw [hlen] at d2
        refine wp_lineJoin _ _ _ (fun _ => ?_) ?_
        · have := hts.2.1; simp only [col, len] at *; omega
        · intro s5 e1; apply h; omega
    · intro _
      apply wp_ite
      · intro _
        apply wp_bind; apply wp_pure
        refine wp_lineJoin _ _ _ (fun hh => by cases hh) ?_
        intro s5 e1; apply h; omega
      · intro _
        apply wp_ite
        · intro _
          apply wp_ite
          · intro _; apply wp_bind; apply wp_parseError; decide
          · intro _
            apply wp_bind; apply wp_pure
            refine wp_lineJoin _ _ _ (fun hh => by cases hh) ?_
            intro s5 e1; apply h; omega
        · intro hb
          apply wp_bind
          refine wp_ungetC _ _ _ (by sc) (by sc) ?_; intro s3 d1 d2
          apply wp_bind; apply wp_pure
          refine wp_lineJoin _ _ _ (fun _ => by sc) ?_
          intro s5 e1; apply h; omega

end Ctrmml.MmlFix

namespace Ctrmml.MmlFix
open Ctrmml.Tables Ctrmml.Lexer Ctrmml.TrackBuilder Ctrmml.Mml

theorem wp_readLine (text : List Nat) (n : Nat) (Q : Unit → MmlState → Prop) (s : MmlState)
    (h : ∀ s', Q () s') : wp (readLine text n) Q s := by
  unfold readLine
  apply wp_bind
  apply wp_modifyS
  exact wp_parseLine _ _ rfl (fun s' _ => h s')

theorem wp_readLines : ∀ (ls : List (List Nat)) (n : Nat) (Q : Unit → MmlState → Prop) (s : MmlState),
    (∀ s', Q () s') → wp (readLines n ls) Q s
  | [], n, Q, s, h => by
    unfold readLines
    exact wp_pure _ _ _ (h s)
  | l :: ls, n, Q, s, h => by
    unfold readLines
    apply wp_bind
    apply wp_readLine
    intro s'
    exact wp_readLines ls (n + 1) Q s' h

/-- **the reader never ends in a foreign outcome**: reading any list of lines from any state ends in
success or in an `InputError` whose message is not empty -/
theorem readLines_routed (ls : List (List Nat)) (n : Nat) (s : MmlState) :
    match readLines n ls s with
    | .ok _ _ => True
    | .err (.input m _) _ => m ≠ ""
    | .err (.foreign _) _ => False := by
  have h := wp_readLines ls n (fun _ _ => True) s (fun _ => trivial)
  unfold wp at h
  cases hr : readLines n ls s with
  | ok a s' => trivial
  | err e s' =>
    rw [hr] at h
    cases e with
    | input m r => exact h
    | foreign k => exact h

end Ctrmml.MmlFix
