/-
  C12, round 2 (second part): a player that has stopped has no residual duration when every `END`
  event of the song carries none; then seek and play past the end differ in `play_time` only.
-/
import Ctrmml.Proofs.SeekAlive
namespace Ctrmml.PlayerCh
open Ctrmml Player

theorem handleDrumMode_enabled (song : Song) (s : PS) (e : Event) :
    (handleDrumMode song s e).1.acc.enabled = s.acc.enabled := by
  unfold handleDrumMode handleDrumMode.enter
  repeat' split
  all_goals (try dsimp only)
  all_goals (repeat' split)
  all_goals rfl

theorem handleEvent_enabled (song : Song) (pd : Int → Bool) (s : PS) (e : Event) :
    (handleEvent song pd s e).1.acc.enabled = s.acc.enabled := by
  unfold handleEvent
  repeat' split
  all_goals first | rfl | exact handleDrumMode_enabled song _ e

theorem coreStep_rootEnd (song : Song) (root : List Event) (c c' : Core) (f : Event)
    (h : coreStep song root c = .ok (c', .rootEnd f)) :
    f = fetch (codeOf song root c.track) c.position ∧ f.kind = .fin := by
  unfold coreStep at h
  dsimp only at h
  repeat' (split at h)
  all_goals (try (simp at h))
  all_goals (obtain ⟨_, rfl⟩ := h; exact ⟨rfl, by assumption⟩)


/-- every `END` event of the root track and of the song's tracks carries no duration (true of
every track the MML reader produces; the event synthesised past the last event has none) -/
def EndsClean (song : Song) (root : List Event) : Prop :=
  ∀ tr pos, (fetch (codeOf song root tr) pos).kind = .fin →
    (fetch (codeOf song root tr) pos).on = 0 ∧ (fetch (codeOf song root tr) pos).off = 0

/-- a stopped player has no residual duration -/
def Z (s : PS) : Prop := s.acc.enabled = false → s.acc.onTime = 0 ∧ s.acc.offTime = 0

theorem Z_of_enabled {s : PS} (h : s.acc.enabled = true) : Z s := by
  intro h'; rw [h] at h'; exact absurd h' (by simp)

theorem accStep_Z (a a' : Acc) (pb : Nat) (c' c'' : Core) (o : Out) (em : Emit)
    (h : accStep true a pb c' o = (a', c'', em)) (hen : a.enabled = true)
    (hf : ∀ f, o = .rootEnd f → f.on = 0 ∧ f.off = 0) :
    (a'.enabled = false → a'.onTime = 0 ∧ a'.offTime = 0) ∧ (∀ v, em = .event v → a'.enabled = true) := by
  unfold accStep at h
  cases o with
  | hook v f =>
    dsimp only at h
    split at h <;> (simp only [Prod.mk.injEq] at h; obtain ⟨rfl, rfl, rfl⟩ := h; simp [hen])
  | ret f =>
    dsimp only at h
    simp only [Prod.mk.injEq] at h; obtain ⟨rfl, rfl, rfl⟩ := h; simp [hen]
  | rootEnd f =>
    dsimp only at h
    have := hf f rfl
    split at h <;> (simp only [Prod.mk.injEq] at h; obtain ⟨rfl, rfl, rfl⟩ := h; simp [hen, Out.fetched, this])

theorem step_Z (song : Song) (root : List Event) (hc : EndsClean song root) (ps bs : PState) (em : Emit)
    (hen : ps.acc.enabled = true) (h : step song root true ps = .ok (bs, em)) :
    (bs.acc.enabled = false → bs.acc.onTime = 0 ∧ bs.acc.offTime = 0) ∧
    (∀ v, em = .event v → bs.acc.enabled = true) := by
  unfold step at h
  split at h
  · simp at h
  · rename_i c' o hcs
    cases hacc : accStep true ps.acc ps.core.position c' o with
    | mk a' rest =>
      cases rest with
      | mk c'' em' =>
        rw [hacc] at h
        simp only [Except.ok.injEq, Prod.mk.injEq] at h
        obtain ⟨rfl, rfl⟩ := h
        refine accStep_Z ps.acc a' ps.core.position c' c'' o em' hacc hen ?_
        intro f hf
        subst hf
        obtain ⟨h1, h2⟩ := coreStep_rootEnd song root ps.core c' f hcs
        have := hc ps.core.track ps.core.position
        rw [← h1] at this
        exact this h2

theorem pstep_Z (song : Song) (root : List Event) (pd : Int → Bool) (hc : EndsClean song root) (skip : Bool)
    (s : PS) (hen : s.acc.enabled = true) : Z (pstep song root pd skip s).1 := by
  unfold pstep
  split
  · exact Z_of_enabled hen
  · split
    · exact Z_of_enabled hen
    · rename_i bs em hst
      obtain ⟨h1, h2⟩ := step_Z song root hc ⟨s.core, s.acc⟩ bs em hen hst
      cases em with
      | nothing => exact h1
      | finish => exact h1
      | event v =>
        dsimp only
        cases hh : handleEvent song pd { s with core := bs.core, acc := bs.acc } v with
        | mk s2 v' =>
          have he := handleEvent_enabled song pd { s with core := bs.core, acc := bs.acc } v
          rw [hh] at he
          have : s2.acc.enabled = true := by rw [he]; exact h2 v rfl
          dsimp only
          split <;> exact Z_of_enabled this

theorem enabled_of_unsettled {s : PS} (h : ¬ isSettled s = true) : s.acc.enabled = true := by
  simp [isSettled] at h
  exact h.1.2

theorem settleO_Z (song : Song) (root : List Event) (pd : Int → Bool) (hc : EndsClean song root) (skip : Bool) :
    ∀ (fuel : Nat) (s : PS), Z s → Z (settleO song root pd skip fuel s).1
  | 0, s, hz => by
    simp only [settleO]
    split
    · exact hz
    · rename_i hs; exact Z_of_enabled (s := { s with err := some .fuel }) (enabled_of_unsettled (s := s) hs)
  | fuel + 1, s, hz => by
    simp only [settleO]
    split
    · exact hz
    · rename_i hs
      have h1 := pstep_Z song root pd hc skip s (enabled_of_unsettled hs)
      cases hp : pstep song root pd skip s with
      | mk s1 w =>
        rw [hp] at h1
        have ih := settleO_Z song root pd hc skip fuel s1 h1
        cases hq : settleO song root pd skip fuel s1 with
        | mk s2 w2 => rw [hq] at ih; exact ih

theorem settle_Z (song : Song) (root : List Event) (pd : Int → Bool) (hc : EndsClean song root) (s : PS)
    (hz : Z s) : Z (settle song root pd s) := settleO_Z song root pd hc false settleFuel s hz

theorem playTickS_Z (song : Song) (root : List Event) (pd : Int → Bool) (hc : EndsClean song root) (s : PS)
    (hz : Z s) : Z (playTickS song root pd s) := by
  unfold playTickS
  split
  · exact hz
  · apply settle_Z song root pd hc
    split
    · rename_i hon
      intro hd
      have := hz hd
      omega
    · split
      · rename_i hoff
        intro hd
        have := hz hd
        omega
      · exact hz

theorem iter_Z (song : Song) (root : List Event) (pd : Int → Bool) (hc : EndsClean song root) :
    ∀ (k : Nat) (s : PS), Z s → Z (iter (playTickS song root pd) k s)
  | 0, _, hz => hz
  | k + 1, s, hz => iter_Z song root pd hc k _ (playTickS_Z song root pd hc s hz)

theorem skipLoopS_Z (song : Song) (root : List Event) (pd : Int → Bool) (hc : EndsClean song root) :
    ∀ (fuel ticks : Nat) (s : PS), Z s → Z (skipLoopS song root pd fuel ticks s)
  | 0, ticks, s, hz => by unfold skipLoopS; exact hz
  | fuel + 1, ticks, s, hz => by
    unfold skipLoopS
    split
    · exact hz
    · split
      · exact hz
      · rename_i hc'
        have hen : s.acc.enabled = true := by
          cases h : s.acc.enabled with
          | true => rfl
          | false => exact absurd (Or.inr h) hc'
        split
        · split
          · exact Z_of_enabled hen
          · exact skipLoopS_Z song root pd hc fuel _ _ (settle_Z song root pd hc _ (Z_of_enabled hen))
        · split
          · split
            · exact Z_of_enabled hen
            · exact skipLoopS_Z song root pd hc fuel _ _ (settle_Z song root pd hc _ (Z_of_enabled hen))
          · exact skipLoopS_Z song root pd hc fuel _ _ (settle_Z song root pd hc _ hz)

theorem skipTicks_Z (song : Song) (root : List Event) (pd : Int → Bool) (hc : EndsClean song root)
    (n : Nat) (s : PS) (hz : Z s) : Z (skipTicks song root pd n s) := by
  unfold skipTicks skipTicksO
  split
  · exact hz
  · split
    · exact hz
    · rw [skipLoopO_state]
      exact skipLoopS_Z song root pd hc _ _ s hz

/-- the sharper observation: once the track has ended, everything except `play_time` -/
def obs1 (s : PS) : PS := if s.acc.enabled = true then s else { s with acc := { s.acc with playTime := 0 } }

theorem obs1_eq_setTimes (a : PS) (hd : a.acc.enabled = false) (hz : Z a) : obs1 a = setTimes a 0 0 0 := by
  obtain ⟨h1, h2⟩ := hz hd
  cases a with
  | mk core acc ch err =>
    cases acc
    simp_all [obs1, setTimes]

theorem obs1_of_obs (a b : PS) (za : Z a) (zb : Z b) (h : obs a = obs b) : obs1 a = obs1 b := by
  have hen : a.acc.enabled = b.acc.enabled := by
    have := congrArg (fun s => s.acc.enabled) h
    unfold obs at this
    split at this <;> split at this <;> simpa [setTimes] using this
  cases ha : a.acc.enabled with
  | true =>
    have hb : b.acc.enabled = true := by rw [← hen]; exact ha
    simp only [obs, ha, hb, if_true] at h
    simp [obs1, hb, h]
  | false =>
    have hb : b.acc.enabled = false := by rw [← hen]; exact ha
    rw [obs1_eq_setTimes a ha za, obs1_eq_setTimes b hb zb]
    simpa [obs, ha, hb] using h

theorem lookup_mem : ∀ (l : List (Nat × List Event)) (id : Nat) (v : List Event),
    l.lookup id = some v → (id, v) ∈ l
  | [], _, _, h => by simp at h
  | (k, x) :: t, id, v, h => by
    simp only [List.lookup_cons] at h
    split at h
    · rename_i hk
      simp only [Option.some.injEq] at h
      have : id = k := by simpa using hk
      subst this; subst h
      exact List.mem_cons_self
    · exact List.mem_cons_of_mem _ (lookup_mem t id v h)

def cleanEv (e : Event) : Bool := e.type != Tables.ev_END || (e.on == 0 && e.off == 0)

/-- the decidable form of `EndsClean` -/
theorem endsClean_of_all (song : Song) (root : List Event) (hr : ∀ e ∈ root, cleanEv e = true)
    (ht : ∀ p ∈ song.tracks, ∀ e ∈ p.2, cleanEv e = true) : EndsClean song root := by
  have key : ∀ code : List Event, (∀ e ∈ code, cleanEv e = true) → ∀ pos,
      (fetch code pos).kind = .fin → (fetch code pos).on = 0 ∧ (fetch code pos).off = 0 := by
    intro code hcode pos hk
    unfold fetch at hk ⊢
    cases hg : code[pos]? with
    | none => simp [endEvent]
    | some e =>
      rw [hg] at hk
      simp only [Option.getD_some] at hk ⊢
      have hm : e ∈ code := List.mem_of_getElem? hg
      have hcl := hcode e hm
      have hty : e.type = Tables.ev_END := by
        unfold Event.kind kindOfType at hk
        repeat' (split at hk)
        all_goals first | assumption | exact absurd hk (by simp)
      simpa [cleanEv, hty] using hcl
  intro tr pos
  cases tr with
  | root => exact key root hr pos
  | id n =>
    simp only [codeOf]
    cases hl : song.track? n with
    | none => exact key [] (by simp) pos
    | some v =>
      exact key v (ht (n, v) (lookup_mem song.tracks n v hl)) pos

end Ctrmml.PlayerCh
