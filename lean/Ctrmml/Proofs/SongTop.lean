/-
  C02/C03 helper: whole songs of the plain fragment.  Composition of
  * `SongInv.construct_flat` (what the constructor's writer runs emitted),
  * `SongSem.semL` (event lists → bracket structures of the codec fragment, ticks),
  * `Codec.shape_*_conv` / `track_*_at` / `stream_at_subPlays` (bytes → interpreter),
  by induction on the call budget of `Expand.callK` (the call depth).
-/
import Ctrmml.Proofs.SongSplit
import Ctrmml.Proofs.SongInv
namespace Ctrmml.SongTop
open Ctrmml Ctrmml.Player Ctrmml.Mds Ctrmml.WTrace Ctrmml.WFold Ctrmml.Expand Ctrmml.Tree Ctrmml.Codec Ctrmml.Seq
open Ctrmml.SongSem Ctrmml.SongSplit Ctrmml.SongInv Ctrmml.MdsFile Ctrmml.Refine Tables

/-! ### the song fragment -/

/-- what is asked of a call event: its target track has no loop point -/
def CalleeNoSeg (song : Song) (e : Event) : Prop :=
  ∀ t', song.track? (trackIdOfParam e.param) = some t' → ∀ x ∈ t', x.kind ≠ .segno

/-- songs of the plain fragment: track ids ascending (a `std::map`), no explicit `END` event, every
event in the plain fragment with front-end timing and loop counts in a byte, called tracks without
loop point -/
structure PlainSong (song : Song) : Prop where
  ids : (song.tracks.map (·.1)).Pairwise (· < ·)
  noEnd : ∀ id t, (id, t) ∈ song.tracks → NoEnd t
  evs : ∀ id t, (id, t) ∈ song.tracks → ∀ e ∈ t,
    SimpleEv e ∧ Timed e ∧ (e.type = ev_LOOP_END → 0 ≤ e.param ∧ e.param ≤ 255)
  callees : ∀ id t, (id, t) ∈ song.tracks → ∀ e ∈ t, e.kind = .jump → CalleeNoSeg song e

theorem track_mem {song : Song} {id : Nat} {t : List Event} (h : song.track? id = some t) : (id, t) ∈ song.tracks :=
  lookup_some_mem _ _ _ h

theorem lookup_of_mem_sorted {β} : ∀ (l : List (Nat × β)) (k : Nat) (v : β), (l.map (·.1)).Pairwise (· < ·) → (k, v) ∈ l →
    l.lookup k = some v
  | [], _, _, _, h => by simp at h
  | (a, b) :: l, k, v, hs, h => by
    simp only [List.map_cons, List.pairwise_cons] at hs
    rcases List.mem_cons.mp h with h' | h'
    · simp only [Prod.mk.injEq] at h'; obtain ⟨rfl, rfl⟩ := h'
      simp [List.lookup]
    · have hlt : a < k := hs.1 k (List.mem_map.mpr ⟨(k, v), h', rfl⟩)
      have : (k == a) = false := by simp; omega
      simp only [List.lookup, this]
      exact lookup_of_mem_sorted l k v hs.2 h'

theorem PlainSong.track_of_mem {song : Song} (hp : PlainSong song) {id : Nat} {t : List Event} (h : (id, t) ∈ song.tracks) :
    song.track? id = some t := lookup_of_mem_sorted _ _ _ hp.ids h

theorem PlainSong.songNoEnd {song : Song} (hp : PlainSong song) : SongNoEnd song :=
  fun id evs h => hp.noEnd id evs (track_mem h)

theorem timed_brackets {t : List Event} (h : ∀ e ∈ t, Timed e) : BracketsTimeless t := by
  intro e he hk
  have ht := h e he
  have hty : e.type = ev_LOOP_END ∨ e.type = ev_LOOP_BREAK := by
    rcases hk with hk | hk
    · exact .inl (kind_loopEnd hk)
    · exact .inr (kind_loopBreak hk)
  have h3 : e.type ≠ ev_NOTE ∧ e.type ≠ ev_TIE ∧ e.type ≠ ev_REST := by
    rcases hty with t | t <;> (rw [t]; decide)
  exact ⟨ht.2.2.1 h3.1 h3.2.1, ht.2.2.2.1 h3.1 h3.2.1 h3.2.2⟩

theorem PlainSong.wf {song : Song} (hp : PlainSong song) {id : Nat} {t : List Event} (h : (id, t) ∈ song.tracks)
    {items : List Item} (hperf : perf song t = .ok items) : WFTrack song t :=
  ⟨hp.noEnd id t h, timed_brackets (fun e he => (hp.evs id t h e he).2.1), fun e he => (hp.evs id t h e he).1, items, hperf⟩

theorem PlainSong.evOK {song : Song} (hp : PlainSong song) {id : Nat} {t : List Event} (h : (id, t) ∈ song.tracks)
    {l : List Event} (hl : ∀ e ∈ l, e ∈ t) (hns : ∀ e ∈ l, e.kind ≠ .segno) : ∀ e ∈ l, EvOK (CalleeNoSeg song) e := by
  intro e he
  obtain ⟨h1, h2, h3⟩ := hp.evs id t h e (hl e he)
  exact ⟨h1, h2, hns e he, h3, fun hk => hp.callees id t h e (hl e he) hk⟩

/-! ### a piece of a track without loop point -/

theorem noTopBreak_of_ok (call : Nat → Nat → Except SErr (List Item)) (d : Nat) :
    ∀ (f : List Tree.Node) (items : List Item), Expand.expL call d false f = .ok items → hasTopBreak f = false
  | [], _, _ => rfl
  | n :: ns, items, h => by
    rw [Refine.expL_cons] at h
    obtain ⟨x, y, hx, hy, _⟩ := seq_ok h
    have := noTopBreak_of_ok call d ns y hy
    cases n <;> simp_all [hasTopBreak, expN]

/-- a closed piece without loop point, entered with no rest pending: its event list followed by the
rest that is pending at its end is the flat form of a bracket structure that plays the piece -/
theorem piece_sem (nS nM : Nat) (pf : Timeline.Platform) (m : List (Int × Nat)) (seq : List Nat) (base mj : Nat)
    (call : Nat → Nat → Except SErr (List Item)) (Q : Event → Prop) (hH : CallH pf m seq base mj call Q)
    (f : List Tree.Node) (hcl : closedL f) (hev : ∀ e ∈ flattenL f, EvOK Q e) (d : Nat) (items : List Item)
    (hexp : Expand.expL call d false f = .ok items) (g : Bool) (ms : List MEv) (r : Nat) (g' : Bool)
    (hem : Emits m 0 g ((flattenL f).map fun e => tItem e e) ms r g')
    (hfit : ∀ ev ∈ ms, ev.type = mds_PAT → ev.arg < 256) :
    ∃ ts : List Codec.Node, flatL ts = ms ++ flushL r ∧ linL ts = true ∧ brkOkL false ts = true ∧
      callsOkL seq base mj ts ∧ mk (Codec.expL nS nM ts) = itemsTicks pf items ∧ r < 65536 ∧ g' = g := by
  obtain ⟨sem, hr, hg⟩ := semL nS nM pf m seq base mj call Q hH f hcl hev d false items hexp 0 g ms r g' (by omega) hem hfit
  obtain ⟨ts, h1, h2, _, h4, h5, h6⟩ := SemOK.closed_ticks nS nM pf seq base mj sem hr
  exact ⟨ts, h1, h2, h4 (noTopBreak_of_ok call d f items hexp), h5, h6, hr, hg⟩

/-! ### the chunk, and the induction on the call depth -/

/-- what the constructor's assembly provides about the chunk (`chunkOK_of_construct`) -/
structure ChunkOK (song : Song) (b : Built) : Prop where
  flat : Flat song b.conv []
  maps : MapsOk b.conv
  len : b.seq.length < 65536
  nsub : b.conv.subList.length < 32768
  fitsS : ∀ evs ∈ b.conv.subList, ∀ ev ∈ evs, ev.type = mds_PAT → ev.arg < 256
  slot : ∀ (k : Nat) (hk : k < b.conv.subList.length), ∃ p stream rest,
    slotTarget b.seq (4 + 4 * b.trackList.length) k = some p ∧
    convertTrack b.conv.subList.length b.conv.macroList.length b.conv.subList[k] = .ok stream ∧
    b.seq.drop p = stream ++ rest

/-- the stream of a called subroutine, given what is known about the calls one level deeper: its
bracket structure, its structured encoding, and where it stands in the chunk -/
theorem sub_stream {song : Song} (pf : Timeline.Platform) {b : Built} (hp : PlainSong song) (hc : ChunkOK song b) (mj : Nat)
    (k : Nat) (hkl : k + 1 ≤ limit)
    (ih : CallH pf b.conv.subMap b.seq (4 + 4 * b.trackList.length) mj (callK song k) (CalleeNoSeg song))
    (d : Nat) (e : Event) (its : List Item) (idx : Nat) (hq : CalleeNoSeg song e)
    (hcall : callK song (k + 1) d (trackIdOfParam e.param) = .ok its)
    (hmem : (subKey e.param false false, idx) ∈ b.conv.subMap) (h256 : Mds.u16 (idx : Int) < 256) :
    ∃ (ts : List Codec.Node) (eA : Enc) (pre : List Nat), linL ts = true ∧ brkOkL false ts = true ∧
      callsOkL b.seq (4 + 4 * b.trackList.length) mj ts ∧
      mk (Codec.expL b.conv.subList.length b.conv.macroList.length ts) = itemsTicks pf its ∧
      encL b.conv.subList.length b.conv.macroList.length ts {} = .ok eA ∧ pre ++ eA.out ++ [mds_FINISH] <+: b.seq ∧
      slotTarget b.seq (4 + 4 * b.trackList.length) (Mds.u16 (idx : Int) % 256) = some pre.length := by
  have hcall0 := hcall
  simp only [callK] at hcall
  by_cases hf : d ≥ limit
  · simp [hf] at hcall
  simp only [hf, if_false] at hcall
  cases htr : song.track? (trackIdOfParam e.param) with
  | none => rw [htr] at hcall; simp at hcall
  | some tevs =>
    rw [htr] at hcall
    simp only at hcall
    have hmemT := track_mem htr
    have hns : ∀ x ∈ tevs, x.kind ≠ .segno := hq tevs htr
    have hperf : perf song tevs = .ok its := perf_of_callK song hkl htr hcall0
    have hwf := hp.wf hmemT hperf
    -- the subroutine's event list
    obtain ⟨evs, hsub, hfl⟩ := hc.flat (subKey e.param false false, idx) hmem (by simp)
    obtain ⟨ms, r, hem, hr, hevs⟩ := hfl e.param tevs rfl htr hwf hns
    have hidx : idx < b.conv.subList.length := by
      rw [← hc.maps.subLen]; exact val_lt_of_mem hc.maps.sub hmem
    have hget : b.conv.subList[idx] = evs := by
      rw [List.getElem?_eq_getElem hidx] at hsub; exact Option.some.inj hsub
    have hevmem : evs ∈ b.conv.subList := by rw [← hget]; exact List.getElem_mem hidx
    -- its bracket structure
    have hcl : closedL (parse tevs) := closed_of_ok (callK song k) (spine_parse tevs (hp.noEnd _ _ hmemT)) _ _ hcall
    have hev : ∀ e ∈ flattenL (parse tevs), EvOK (CalleeNoSeg song) e := by
      rw [flatten_parse]; exact hp.evOK hmemT (fun e he => he) hns
    have hfit : ∀ ev ∈ ms, ev.type = mds_PAT → ev.arg < 256 :=
      fun ev hev' => hc.fitsS evs hevmem ev (by rw [hevs]; simp [hev'])
    obtain ⟨ts, hflat, hlin, hbrk, hcalls, hticks, _, _⟩ := piece_sem b.conv.subList.length b.conv.macroList.length pf
      b.conv.subMap b.seq (4 + 4 * b.trackList.length) mj (callK song k) _ ih (parse tevs) hcl hev (d + 1) its hcall
      false ms r false (by rw [flatten_parse]; exact hem) hfit
    -- its bytes
    obtain ⟨p, stream, rest, hslot, hconv, hdrop⟩ := hc.slot idx hidx
    rw [hget, hevs, ← hflat] at hconv
    have hdl : (b.seq.drop p).length = stream.length + rest.length := by rw [hdrop]; simp
    have hsl : stream.length < 65536 := by
      have := hc.len; simp at hdl; omega
    obtain ⟨eA, hA, hstream⟩ := shape_f_conv _ _ ts hlin hbrk 0 stream hconv hsl
    have hpl : p < b.seq.length := by
      rw [hstream] at hdl; simp at hdl; omega
    have hseq : b.seq = b.seq.take p ++ (stream ++ rest) := by rw [← hdrop]; exact (List.take_append_drop p b.seq).symm
    have hprel : (b.seq.take p).length = p := by simp; omega
    have hpre : b.seq.take p ++ eA.out ++ [mds_FINISH] <+: b.seq := by
      conv => rhs; rw [hseq, hstream]
      simp [List.append_assoc]
    have hu : Mds.u16 (idx : Int) = idx := by
      have := hc.nsub; unfold Mds.u16; omega
    refine ⟨ts, eA, b.seq.take p, hlin, hbrk, hcalls, hticks, hA, hpre, ?_⟩
    rw [hu] at h256 ⊢
    rw [Nat.mod_eq_of_lt h256, hprel]; exact hslot

/-- **every call of the song finds its subroutine**: by induction on the call budget, each subroutine
stream that a performance of the song calls plays, entered through its pointer-table slot, the
(masked) ticks of the callee's expansion and returns -/
theorem callH_all {song : Song} (pf : Timeline.Platform) {b : Built} (hp : PlainSong song) (hc : ChunkOK song b) (mj : Nat) :
    ∀ k, k ≤ limit →
      CallH pf b.conv.subMap b.seq (4 + 4 * b.trackList.length) mj (callK song k) (CalleeNoSeg song)
  | 0, _ => by
    intro d e its idx _ _ hcall
    simp [callK] at hcall
  | k + 1, hkl => by
    intro d e its idx hk hq hcall hmem h256
    have ih := callH_all pf hp hc mj k (by omega)
    obtain ⟨ts, eA, pre, hlin, _, hcalls, hticks, hA, hpre, hslot⟩ :=
      sub_stream pf hp hc mj k hkl ih d e its idx hq hcall hmem h256
    obtain ⟨e', he', hsp⟩ := stream_at_subPlays b.conv.subList.length b.conv.macroList.length ts hlin
    rw [hA] at he'; injection he' with he'; subst he'
    exact ⟨Codec.expL b.conv.subList.length b.conv.macroList.length ts,
      ⟨pre.length, hslot, hsp pre b.seq (4 + 4 * b.trackList.length) mj hcalls hpre⟩, hticks⟩

/-- **every called subroutine stream is well-formed**: the instruction walker, started on the slot's
target, accepts it (balanced loops, break offsets behind their loop end, terminator at depth 0, all
inside the chunk) -/
theorem sub_walks {song : Song} (pf : Timeline.Platform) {b : Built} (hp : PlainSong song) (hc : ChunkOK song b)
    (k : Nat) (hkl : k + 1 ≤ limit) (d : Nat) (e : Event) (its : List Item) (idx : Nat) (hq : CalleeNoSeg song e)
    (hcall : callK song (k + 1) d (trackIdOfParam e.param) = .ok its)
    (hmem : (subKey e.param false false, idx) ∈ b.conv.subMap) (h256 : Mds.u16 (idx : Int) < 256) :
    ∃ t n, slotTarget b.seq (4 + 4 * b.trackList.length) (Mds.u16 (idx : Int) % 256) = some t ∧
      ∀ start fuel, fuel ≥ n → SeqWf.walk b.seq start fuel { pc := t } = .ok (t + n) := by
  obtain ⟨ts, eA, pre, hlin, _, _, _, hA, hpre, hslot⟩ :=
    sub_stream pf hp hc 0 k hkl (callH_all pf hp hc 0 k (by omega)) d e its idx hq hcall hmem h256
  refine ⟨pre.length, eA.out.length + 1, hslot, fun start fuel hf => ?_⟩
  have := walk_f_at b.conv.subList.length b.conv.macroList.length ts hlin eA hA pre b.seq start
    (by simpa [List.append_assoc] using hpre) fuel hf
  rw [this]; congr 1

/-! ### the items of a performance of a plain song -/

theorem callK_noDrum {song : Song} (hp : PlainSong song) : ∀ (k d tid : Nat) (its : List Item),
    callK song k d tid = .ok its → ∀ i ∈ its, i.ev.type ≠ ev_DRUM_MODE ∧ i.src.type ≠ ev_DRUM_MODE
  | 0, _, _, _, h => by simp [callK] at h
  | k + 1, d, tid, its, h => by
    simp only [callK] at h
    by_cases hf : d ≥ limit
    · simp [hf] at h
    simp only [hf, if_false] at h
    cases htr : song.track? tid with
    | none => rw [htr] at h; simp at h
    | some tevs =>
      rw [htr] at h
      simp only at h
      refine noseg_L (fun e => e.type ≠ ev_DRUM_MODE) (by decide) (callK song k) (parse tevs) ?_ ?_ (d + 1) false its h
      · rw [flatten_parse]; exact fun e he => (hp.evs _ _ (track_mem htr) e he).1.2.1
      · intro e _ _ d' its' h'; exact callK_noDrum hp k d' _ its' h'

theorem callK_noSeg {song : Song} (hp : PlainSong song) : ∀ (k d tid : Nat) (its : List Item) (tevs : List Event),
    song.track? tid = some tevs → (∀ x ∈ tevs, x.kind ≠ .segno) → callK song k d tid = .ok its →
    ∀ i ∈ its, i.ev.kind ≠ .segno ∧ i.src.kind ≠ .segno
  | 0, _, _, _, _, _, _, h => by simp [callK] at h
  | k + 1, d, tid, its, tevs, htr, hns, h => by
    simp only [callK] at h
    by_cases hf : d ≥ limit
    · simp [hf] at h
    simp only [hf, if_false, htr] at h
    refine noseg_L (fun e => e.kind ≠ .segno) (by decide) (callK song k) (parse tevs) ?_ ?_ (d + 1) false its h
    · rw [flatten_parse]; exact hns
    · intro e he hk d' its' h'
      rw [flatten_parse] at he
      cases htr' : song.track? (trackIdOfParam e.param) with
      | none =>
        cases k with
        | zero => simp [callK] at h'
        | succ k' =>
          simp only [callK] at h'
          by_cases hf' : d' ≥ limit
          · simp [hf'] at h'
          · simp [hf', htr'] at h'
      | some t' => exact callK_noSeg hp k d' _ its' t' htr' (hp.callees _ _ (track_mem htr) e he hk t' htr') h'

/-- the calls made from a piece of a track of the song: no drum-mode and no loop-point items -/
theorem calls_of_piece {song : Song} (hp : PlainSong song) {id : Nat} {t : List Event} (h : (id, t) ∈ song.tracks)
    (l : List Event) (hl : ∀ e ∈ l, e ∈ t) (k : Nat) :
    CallsP (fun e => e.type ≠ ev_DRUM_MODE) (callK song k) l ∧ CallsP (fun e => e.kind ≠ .segno) (callK song k) l := by
  constructor
  · intro e _ _ d its h'; exact callK_noDrum hp k d _ its h'
  · intro e he hk d its h'
    cases htr' : song.track? (trackIdOfParam e.param) with
    | none =>
      cases k with
      | zero => simp [callK] at h'
      | succ k' =>
        simp only [callK] at h'
        by_cases hf' : d ≥ limit
        · simp [hf'] at h'
        · simp [hf', htr'] at h'
    | some t' => exact callK_noSeg hp k d _ its t' htr' (hp.callees _ _ h e (hl e he) hk t' htr') h'

/-! ### a channel track -/

theorem perf_of_expected {song : Song} {pf : Timeline.Platform} {root : List Event} {t : List Tk}
    (h : Timeline.expected song pf root = .ok t) : ∃ items, perf song root = .ok items := by
  unfold Timeline.expected at h
  cases hp : perf song root with
  | error x => rw [hp] at h; cases h
  | ok items => exact ⟨items, rfl⟩

theorem mk_loopMark : mk [Tk.loopMark] = [Tk.loopMark] := rfl

def isCmd : Tk → Bool
  | .cmd _ _ => true
  | _ => false

theorem cmdOf_cmd (pf : Timeline.Platform) (e : Event) : ∀ tk ∈ Timeline.cmdOf pf e, isCmd tk = true := by
  intro tk h
  unfold Timeline.cmdOf at h
  by_cases t : e.type = ev_SLUR
  · rw [if_pos t] at h; rw [List.mem_singleton] at h; subst h; rfl
  rw [if_neg t] at h; clear t
  by_cases t : e.type = ev_TRANSPOSE_REL
  · rw [if_pos t] at h; rw [List.mem_singleton] at h; subst h; rfl
  rw [if_neg t] at h; clear t
  by_cases t : e.type = ev_VOL
  · rw [if_pos t] at h; rw [List.mem_singleton] at h; subst h; rfl
  rw [if_neg t] at h; clear t
  by_cases t : e.type = ev_VOL_REL ∨ e.type = ev_VOL_FINE_REL
  · rw [if_pos t] at h; rw [List.mem_singleton] at h; subst h; rfl
  rw [if_neg t] at h; clear t
  by_cases t : e.type = ev_TEMPO_BPM
  · rw [if_pos t] at h; rw [List.mem_singleton] at h; subst h; rfl
  rw [if_neg t] at h; clear t
  by_cases t : e.type = ev_INS
  · rw [if_pos t] at h; rw [List.mem_singleton] at h; subst h; rfl
  rw [if_neg t] at h; clear t
  by_cases t : e.type = ev_TRANSPOSE
  · rw [if_pos t] at h; rw [List.mem_singleton] at h; subst h; rfl
  rw [if_neg t] at h; clear t
  by_cases t : e.type = ev_DETUNE
  · rw [if_pos t] at h; rw [List.mem_singleton] at h; subst h; rfl
  rw [if_neg t] at h; clear t
  by_cases t : e.type = ev_VOL_FINE
  · rw [if_pos t] at h; rw [List.mem_singleton] at h; subst h; rfl
  rw [if_neg t] at h; clear t
  by_cases t : e.type = ev_PAN
  · rw [if_pos t] at h; rw [List.mem_singleton] at h; subst h; rfl
  rw [if_neg t] at h; clear t
  by_cases t : e.type = ev_PAN_ENVELOPE
  · rw [if_pos t] at h; rw [List.mem_singleton] at h; subst h; rfl
  rw [if_neg t] at h; clear t
  by_cases t : e.type = ev_PITCH_ENVELOPE
  · rw [if_pos t] at h; rw [List.mem_singleton] at h; subst h; rfl
  rw [if_neg t] at h; clear t
  by_cases t : e.type = ev_PORTAMENTO
  · rw [if_pos t] at h; rw [List.mem_singleton] at h; subst h; rfl
  rw [if_neg t] at h; clear t
  by_cases t : e.type = ev_DRUM_MODE
  · rw [if_pos t] at h; rw [List.mem_singleton] at h; subst h; rfl
  rw [if_neg t] at h; clear t
  by_cases t : e.type = ev_TEMPO
  · rw [if_pos t] at h; rw [List.mem_singleton] at h; subst h; rfl
  rw [if_neg t] at h; clear t
  by_cases t : e.type = ev_PLATFORM
  · rw [if_pos t] at h; obtain ⟨p, _, rfl⟩ := List.mem_map.mp h; rfl
  rw [if_neg t] at h
  exact absurd h (List.not_mem_nil)

theorem itTicks_noMark (pf : Timeline.Platform) (i : Item) : Tk.loopMark ∉ itTicks pf i := by
  unfold itTicks Timeline.noteTicks
  intro h
  split at h
  · simp only [List.mem_append, List.mem_replicate] at h
    rcases h with h | h
    · split at h
      · simp at h
      · simp [List.mem_replicate] at h
    · simp at h
  · split at h
    · simp [List.mem_replicate] at h
    · split at h
      · simp [List.mem_replicate] at h
      · simp only [List.mem_append, List.mem_replicate] at h
        rcases h with h | h
        · have := cmdOf_cmd pf i.ev _ h
          simp [isCmd] at this
        · simp at h

theorem itemsTicks_noMark (pf : Timeline.Platform) (l : List Item) : Tk.loopMark ∉ itemsTicks pf l := by
  unfold itemsTicks
  intro h
  obtain ⟨i, _, hi⟩ := List.mem_flatMap.mp h
  exact itTicks_noMark pf i hi

/-- an item that takes time sounds (or is silent) for at least one tick -/
theorem itTicks_time (pf : Timeline.Platform) (i : Item) (h : i.dur ≠ 0) : ∃ tk ∈ itTicks pf i, isCmd tk = false := by
  unfold Item.dur at h
  unfold itTicks Timeline.noteTicks
  by_cases t1 : i.ev.type = ev_NOTE
  · simp only [t1, if_true]
    by_cases hon : i.src.on = 0
    · exact ⟨Tk.off, by simp [hon]; omega, rfl⟩
    · exact ⟨Tk.on i.ev.param.toNat, by simp [hon], rfl⟩
  · simp only [t1, if_false]
    by_cases t2 : i.ev.type = ev_TIE
    · simp only [t2, if_true]
      by_cases hon : i.src.on = 0
      · exact ⟨Tk.off, by simp [hon]; omega, rfl⟩
      · exact ⟨Tk.hold, by simp [hon], rfl⟩
    · simp only [t2, if_false]
      by_cases t3 : i.ev.type = ev_REST
      · simp only [t3, if_true]
        exact ⟨Tk.off, by simp; omega, rfl⟩
      · simp only [t3, if_false]
        exact ⟨Tk.off, by simp; omega, rfl⟩

theorem itemsTicks_time (pf : Timeline.Platform) : ∀ (l : List Item), totalDur l ≠ 0 →
    ∃ tk ∈ itemsTicks pf l, isCmd tk = false
  | [], h => by simp [totalDur] at h
  | i :: is, h => by
    rw [totalDur_cons] at h
    rw [itemsTicks_cons]
    by_cases hi : i.dur = 0
    · obtain ⟨tk, h1, h2⟩ := itemsTicks_time pf is (by omega)
      exact ⟨tk, List.mem_append_right _ h1, h2⟩
    · obtain ⟨tk, h1, h2⟩ := itTicks_time pf i hi
      exact ⟨tk, List.mem_append_left _ h1, h2⟩

/-- what is known about a channel track of the chunk, entered at its first byte with the loop-back
jump followed `mj` times -/
structure ChanResult (b : Built) (pre stream : List Nat) (mj : Nat) (t : List Tk) : Prop where
  plays : ∃ (X Y TA TB : List Tk) (loops : Bool) (s' : St),
    Reach b.seq (4 + 4 * b.trackList.length) mj { pc := pre.length } s' ∧
    step b.seq (4 + 4 * b.trackList.length) mj s' = .error .finished ∧
    s'.out = (if loops then TA ++ repeatL mj (TB ++ [Tk.loopMark]) ++ TB else TA ++ TB).reverse ∧
    mk TA = X ∧ mk TB = Y ∧ t = (if loops then X ++ Y ++ [Tk.loopMark] ++ Y else X ++ Y) ∧
    (loops = true → ∃ tk ∈ Y, isCmd tk = false) ∧ Tk.loopMark ∉ X ∧ Tk.loopMark ∉ Y
  walks : ∀ fuel, fuel ≥ stream.length →
    SeqWf.walk b.seq pre.length fuel { pc := pre.length } = .ok (pre.length + stream.length)

/-- **a channel track of the chunk plays the expected tick string** -/
theorem chan_plays {song : Song} (pf : Timeline.Platform) {b : Built} (hp : PlainSong song) (hc : ChunkOK song b)
    {id : Nat} {root : List Event} (hmem : (id, root) ∈ song.tracks) {evs : List MEv}
    (hch : ChanFlat song b.conv.subMap id evs) (hfitT : ∀ ev ∈ evs, ev.type = mds_PAT → ev.arg < 256)
    {stream pre rest : List Nat}
    (hconv : convertTrack b.conv.subList.length b.conv.macroList.length evs = .ok stream)
    (hseq : b.seq = pre ++ stream ++ rest)
    (hseg0 : Timeline.segnoAtDepth0 0 root = true) (hcnt : segCount root ≤ 1)
    {t : List Tk} (hexp : Timeline.expected song pf root = .ok t) (mj : Nat) :
    ChanResult b pre stream mj t := by
  obtain ⟨items0, hperf0⟩ := perf_of_expected hexp
  have htr : song.track? id = some root := hp.track_of_mem hmem
  obtain ⟨items, ms, r, g, hperf, hem, hr, hevs⟩ := hch root htr (hp.wf hmem hperf0)
  have hH := callH_all pf hp hc mj limit (Nat.le_refl _)
  have hcl : closedL (parse root) := closed_of_ok (callK song limit) (spine_parse root (hp.noEnd _ _ hmem)) _ _ hperf
  have hsl : stream.length < 65536 := by
    have := hc.len; rw [hseq] at this; simp at this; omega
  have hpl : (pre ++ stream).length < 65536 := by
    have := hc.len; rw [hseq] at this; simp at this; simp; omega
  have hfit : ∀ ev ∈ ms, ev.type = mds_PAT → ev.arg < 256 := fun ev hev => hfitT ev (by rw [hevs]; simp [hev])
  have hpre : pre ++ stream <+: b.seq := by rw [hseq]; exact List.prefix_append _ _
  rcases split_segno (parse root) hcl (by rw [flatten_parse]; exact hseg0) (by rw [flatten_parse]; exact hcnt) with
    hns | ⟨FA, s, FB, hF, hsk, hnA, hnB⟩
  · -- no loop point
    rw [flatten_parse] at hns
    have hev : ∀ e ∈ flattenL (parse root), EvOK (CalleeNoSeg song) e := by
      rw [flatten_parse]; exact hp.evOK hmem (fun e he => he) hns
    obtain ⟨ts, hflat, hlin, hbrk, hcalls, hticks, _, hg⟩ := piece_sem b.conv.subList.length b.conv.macroList.length pf
      b.conv.subMap b.seq (4 + 4 * b.trackList.length) mj (callK song limit) _ hH (parse root) hcl hev 0 items hperf
      false ms r g (by rw [flatten_parse]; exact hem) hfit
    subst hg
    have hevs' : evs = flatL ts ++ [⟨mds_FINISH, 0⟩] := by rw [hevs, hflat]; simp
    rw [hevs'] at hconv
    obtain ⟨eA, hA, hstream⟩ := shape_f_conv _ _ ts hlin hbrk 0 stream hconv hsl
    obtain ⟨eA', hA', hplay⟩ := track_f_at b.conv.subList.length b.conv.macroList.length ts hlin
    rw [hA] at hA'; injection hA' with hA'; subst hA'
    obtain ⟨s', r', hfin, ho⟩ := hplay pre b.seq (4 + 4 * b.trackList.length) mj { pc := pre.length } hcalls
      (by rw [← hstream]; exact hpre) rfl rfl rfl
    obtain ⟨c1, c2⟩ := calls_of_piece hp hmem root (fun e he => he) limit
    have hd : ∀ i ∈ items, i.ev.type ≠ ev_DRUM_MODE := fun i hi =>
      (noseg_L (fun e => e.type ≠ ev_DRUM_MODE) (by decide) (callK song limit) (parse root)
        (by rw [flatten_parse]; exact fun e he => (hp.evs _ _ hmem e he).1.2.1) (by rw [flatten_parse]; exact c1) 0 false items hperf i hi).1
    have hn : ∀ i ∈ items, i.src.kind ≠ .segno := fun i hi =>
      (noseg_L (fun e => e.kind ≠ .segno) (by decide) (callK song limit) (parse root)
        (by rw [flatten_parse]; exact hns) (by rw [flatten_parse]; exact c2) 0 false items hperf i hi).2
    rw [expected_noseg song pf root items hperf hd hn] at hexp
    injection hexp with hexp
    refine ⟨⟨itemsTicks pf items, [], Codec.expL b.conv.subList.length b.conv.macroList.length ts, [], false, s', r', hfin,
      ?_, hticks, rfl, ?_, ?_, itemsTicks_noMark pf items, ?_⟩, ?_⟩
    · simpa using ho
    · simpa using hexp.symm
    · intro h; cases h
    · simp
    intro fuel hf
    have hw := walk_f_at b.conv.subList.length b.conv.macroList.length ts hlin eA hA pre b.seq pre.length
      (by rw [← hstream]; exact hpre) fuel (by rw [hstream] at hf; simpa using hf)
    rw [hw, hstream]; simp; omega
  · -- the loop point splits the track
    have hroot : root = flattenL FA ++ s :: flattenL FB := by
      rw [← flatten_parse root, hF, Tree.flattenL_append, Tree.flattenL_cons]; simp [flattenN]
    have hclAB := (closedL_append FA (.ev s :: FB)).mp (by rw [← hF]; exact hcl)
    have hsmem : s ∈ root := by rw [hroot]; simp
    obtain ⟨hs1, hs2, _⟩ := hp.evs _ _ hmem s hsmem
    have tss : s.type = ev_SEGNO := by
      rcases kind_cases' s with ⟨hk, _⟩ | ⟨hk, _⟩ | ⟨hk, _⟩ | ⟨_, ht⟩ | ⟨hk, _⟩ | ⟨hk, _⟩ | ⟨hk, _⟩ <;>
        first | exact ht | (rw [hsk] at hk; cases hk)
    have hsoff : s.off = 0 := hs2.2.2.2.1 (by rw [tss]; decide) (by rw [tss]; decide) (by rw [tss]; decide)
    have hson : s.on = 0 := hs2.2.2.1 (by rw [tss]; decide) (by rw [tss]; decide)
    -- the performance
    have hperf' : Expand.expL (callK song limit) 0 false (FA ++ Tree.Node.ev s :: FB) = .ok items := by
      rw [← hF]; exact hperf
    obtain ⟨iA, y, hiA, hy, hit⟩ := expL_append_ok (callK song limit) 0 false FA (.ev s :: FB) items hperf'
    rw [Refine.expL_cons] at hy
    obtain ⟨xs, iB, hxs, hiB, rfl⟩ := seq_ok hy
    have hxs' : xs = [item s] := by simpa [expN, hsk] using hxs.symm
    subst hxs'
    subst hit
    -- the event list
    have hmap : root.map (fun e => tItem e e) =
        (flattenL FA).map (fun e => tItem e e) ++ (tItem s s :: (flattenL FB).map (fun e => tItem e e)) := by
      rw [hroot]; simp
    rw [hmap] at hem
    obtain ⟨msA, rA, gA, ms1, heA, he1, rfl⟩ := emits_append _ _ hem
    obtain ⟨bs, msB, hbs, heB, rfl⟩ := emits_cons he1
    obtain rfl := body_segno tss hbs
    rw [prepR_timeless rA s (by rw [tss]; decide) hsoff] at heB hevs hfit
    have hgs : (gA || (tItem s s).ev.type == ev_SEGNO) = true := by
      have : ((tItem s s).ev.type == ev_SEGNO) = true := by simpa using tss
      rw [this]; simp
    rw [hgs] at heB
    simp only at heB
    have hevA : ∀ e ∈ flattenL FA, EvOK (CalleeNoSeg song) e :=
      hp.evOK hmem (fun e he => by rw [hroot]; simp [he]) hnA
    have hevB : ∀ e ∈ flattenL FB, EvOK (CalleeNoSeg song) e :=
      hp.evOK hmem (fun e he => by rw [hroot]; simp [he]) hnB
    obtain ⟨ta, hfA, hlA, hkA, hcA, htA, _, hgA⟩ := piece_sem b.conv.subList.length b.conv.macroList.length pf
      b.conv.subMap b.seq (4 + 4 * b.trackList.length) mj (callK song limit) _ hH FA hclAB.1 hevA 0 iA hiA
      false msA rA gA heA (fun ev hev => hfit ev (by simp [hev]))
    obtain ⟨tb, hfB, hlB, hkB, hcB, htB, _, hgB⟩ := piece_sem b.conv.subList.length b.conv.macroList.length pf
      b.conv.subMap b.seq (4 + 4 * b.trackList.length) mj (callK song limit) _ hH FB hclAB.2.2 hevB 0 iB hiB
      true msB r g heB (fun ev hev => hfit ev (by simp [hev]))
    subst hgB
    -- items and the expected string
    obtain ⟨cA1, cA2⟩ := calls_of_piece hp hmem (flattenL FA) (fun e he => by rw [hroot]; simp [he]) limit
    obtain ⟨cB1, cB2⟩ := calls_of_piece hp hmem (flattenL FB) (fun e he => by rw [hroot]; simp [he]) limit
    have hAseg : ∀ i ∈ iA, i.src.kind ≠ .segno := fun i hi =>
      (noseg_L (fun e => e.kind ≠ .segno) (by decide) (callK song limit) FA hnA cA2 0 false iA hiA i hi).2
    have hBseg : ∀ i ∈ iB, i.src.kind ≠ .segno := fun i hi =>
      (noseg_L (fun e => e.kind ≠ .segno) (by decide) (callK song limit) FB hnB cB2 0 false iB hiB i hi).2
    obtain ⟨c1, _⟩ := calls_of_piece hp hmem root (fun e he => he) limit
    have hd : ∀ i ∈ iA ++ item s :: iB, i.ev.type ≠ ev_DRUM_MODE := fun i hi =>
      (noseg_L (fun e => e.type ≠ ev_DRUM_MODE) (by decide) (callK song limit) (parse root)
        (by rw [flatten_parse]; exact fun e he => (hp.evs _ _ hmem e he).1.2.1) (by rw [flatten_parse]; exact c1) 0 false
        (iA ++ ([item s] ++ iB)) hperf i hi).1
    obtain ⟨hE, hLT⟩ := expected_split song pf root iA iB (item s)
      (show perf song root = .ok (iA ++ item s :: iB) from hperf) hd (by simpa [item] using hsk) hAseg hBseg
    rw [hE] at hexp
    injection hexp with hexp
    have his : itTicks pf (item s) = [] := by
      simp +decide [itTicks, item, Timeline.cmdOf, tss, hson, hsoff]
    have hall : itemsTicks pf (iA ++ item s :: iB) = itemsTicks pf iA ++ itemsTicks pf iB := by
      rw [itemsTicks_append, itemsTicks_cons, his]; rfl
    have hTD : totalDur (iA ++ ([item s] ++ iB)) = totalDur iA + totalDur iB := by
      rw [totalDur_append, totalDur_append]; simp [totalDur, Item.dur, item, hson, hsoff]
    -- the stream
    have hevs' : evs = flatL ta ++ [⟨mds_SEGNO, 0⟩] ++ flatL tb ++
        [⟨if (totalDur (iA ++ ([item s] ++ iB)) : Int) ≠ toInt (loopTime (iA ++ ([item s] ++ iB))) then mds_JUMP else mds_FINISH, 0⟩] := by
      rw [hevs, hfA, hfB]; simp [List.append_assoc]
    have hlt' : loopTime (iA ++ ([item s] ++ iB)) = some (totalDur iA) := by simpa using hLT
    rw [hlt'] at hevs'
    have etoi : toInt (some (totalDur iA)) = (totalDur iA : Int) := rfl
    by_cases hz : totalDur (iA ++ ([item s] ++ iB)) = totalDur iA
    · -- the loop section takes no time: `FINISH`
      have hzi : ¬ ((totalDur (iA ++ ([item s] ++ iB)) : Int) ≠ toInt (some (totalDur iA))) := by
        rw [etoi]; omega
      rw [if_neg hzi] at hevs'
      rw [hevs'] at hconv
      obtain ⟨eA, eB, hA, hB, hstream⟩ := shape_z_conv _ _ ta tb hlA hlB hkA hkB 0 stream hconv hsl
      obtain ⟨eA', eB', hA', hB', hplay⟩ := track_z_at b.conv.subList.length b.conv.macroList.length ta tb hlA hlB
      rw [hA] at hA'; injection hA' with hA'; subst hA'
      rw [hB] at hB'; injection hB' with hB'; subst hB'
      obtain ⟨s', r', hfin, ho⟩ := hplay pre b.seq (4 + 4 * b.trackList.length) mj { pc := pre.length } hcA hcB
        (by rw [← hstream]; exact hpre) rfl rfl rfl
      have hz' : totalDur (iA ++ item s :: iB) = totalDur iA := hz
      rw [if_pos hz'] at hexp
      refine ⟨⟨itemsTicks pf iA, itemsTicks pf iB, Codec.expL b.conv.subList.length b.conv.macroList.length ta,
        Codec.expL b.conv.subList.length b.conv.macroList.length tb, false, s', r', hfin, ?_, htA, htB,
        ?_, ?_, itemsTicks_noMark pf iA, itemsTicks_noMark pf iB⟩, ?_⟩
      · simpa using ho
      · rw [← hexp, hall]; rfl
      · intro h; cases h
      intro fuel hf
      have hw := walk_z_at b.conv.subList.length b.conv.macroList.length ta tb hlA hlB eA eB hA hB pre b.seq pre.length
        (by rw [← hstream]; exact hpre) fuel (by rw [hstream] at hf; simpa using hf)
      rw [hw, hstream]; simp; omega
    · have hzi : (totalDur (iA ++ ([item s] ++ iB)) : Int) ≠ toInt (some (totalDur iA)) := by
        rw [etoi]; omega
      rw [if_pos hzi] at hevs'
      rw [hevs'] at hconv
      obtain ⟨eA, eB, hA, hB, hstream⟩ := shape_j_conv _ _ ta tb hlA hlB hkA hkB 0 stream hconv hsl
      obtain ⟨eA', eB', hA', hB', hplay⟩ := track_j_at b.conv.subList.length b.conv.macroList.length ta tb hlA hlB
      rw [hA] at hA'; injection hA' with hA'; subst hA'
      rw [hB] at hB'; injection hB' with hB'; subst hB'
      obtain ⟨s', r', hfin, ho⟩ := hplay pre b.seq (4 + 4 * b.trackList.length) mj { pc := pre.length } hcA hcB
        (by rw [← hstream]; exact hpre) (by rw [← hstream]; exact hpl) rfl rfl rfl
      have hz' : ¬ totalDur (iA ++ item s :: iB) = totalDur iA := hz
      rw [if_neg hz'] at hexp
      have hdB : totalDur iB ≠ 0 := by omega
      refine ⟨⟨itemsTicks pf iA, itemsTicks pf iB, Codec.expL b.conv.subList.length b.conv.macroList.length ta,
        Codec.expL b.conv.subList.length b.conv.macroList.length tb, true, s', r', hfin, ?_, htA, htB,
        ?_, fun _ => itemsTicks_time pf iB hdB, itemsTicks_noMark pf iA, itemsTicks_noMark pf iB⟩, ?_⟩
      · simpa using ho
      · rw [← hexp, hall]; simp [List.append_assoc]
      intro fuel hf
      have hw := walk_j_at b.conv.subList.length b.conv.macroList.length ta tb hlA hlB eA eB hA hB pre b.seq
        (by rw [← hstream]; exact hpre) (by rw [← hstream]; exact hpl) fuel (by rw [hstream] at hf; exact hf)
      rw [hw, hstream]

end Ctrmml.SongTop
