/-
  C02/C03 helper: whole songs of the plain fragment.  Composition of
  * `SongInv.construct_flat` (what the constructor's writer runs emitted),
  * `SongSem.semL` (event lists → bracket structures of the codec fragment, ticks),
  * `Codec.shape_*_conv` / `track_*_at` / `stream_at_subPlays` (bytes → interpreter),
  by induction on the call budget of `Expand.callK` (the call depth).
-/
import Ctrmml.Proofs.SongSplit
import Ctrmml.Proofs.SongInv
namespace Ctrmml.SongTop
open Ctrmml Ctrmml.Player Ctrmml.Mds Ctrmml.WTrace Ctrmml.WFold Ctrmml.Expand Ctrmml.Tree Ctrmml.Codec Ctrmml.Seq
open Ctrmml.SongSem Ctrmml.SongSplit Ctrmml.SongInv Ctrmml.MdsFile Ctrmml.Refine Tables

/-! ### the song fragment -/

/-- what is asked of a call event: its target track has no loop point and no drum-mode switch -/
def CalleeNoSeg (song : Song) (e : Event) : Prop :=
  ∀ t', song.track? (trackIdOfParam e.param) = some t' → ∀ x ∈ t', x.kind ≠ .segno ∧ x.type ≠ ev_DRUM_MODE

/-- songs of the fragment: track ids ascending (a `std::map`), no explicit `END` event, every
event in the fragment with front-end timing and loop counts in a byte, called tracks without
loop point and without drum-mode switch, drum-mode switches not inside counted loops -/
structure PlainSong (song : Song) : Prop where
  ids : (song.tracks.map (·.1)).Pairwise (· < ·)
  noEnd : ∀ id t, (id, t) ∈ song.tracks → NoEnd t
  evs : ∀ id t, (id, t) ∈ song.tracks → ∀ e ∈ t,
    SimpleEv e ∧ Timed e ∧ (e.type = ev_LOOP_END → 0 ≤ e.param ∧ e.param ≤ 255)
  callees : ∀ id t, (id, t) ∈ song.tracks → ∀ e ∈ t, e.kind = .jump → CalleeNoSeg song e
  drumTop : ∀ id t, (id, t) ∈ song.tracks → ∀ n ∈ parse t, ∀ e ∈ flattenN n, e.type = ev_DRUM_MODE → n = .ev e

/-- a drum routine of the fragment: before its first note (which stands outside any loop) only
commands that take no time and loops of them — no tie, no rest, no call, no drum-mode switch -/
def RoutineTrack (song : Song) (p : Int) : Prop :=
  ∃ tevs fpre note fpost, song.track? (trackIdOfParam p) = some tevs ∧
    parse tevs = fpre ++ Tree.Node.ev note :: fpost ∧ note.type = ev_NOTE ∧
    ∀ e ∈ flattenL fpre, e.type ≠ ev_NOTE ∧ e.type ≠ ev_TIE ∧ e.type ≠ ev_REST ∧ e.type ≠ ev_DRUM_MODE ∧
      e.kind ≠ .jump ∧ e.kind ≠ .segno

theorem track_mem {song : Song} {id : Nat} {t : List Event} (h : song.track? id = some t) : (id, t) ∈ song.tracks :=
  lookup_some_mem _ _ _ h

theorem lookup_of_mem_sorted {β} : ∀ (l : List (Nat × β)) (k : Nat) (v : β), (l.map (·.1)).Pairwise (· < ·) → (k, v) ∈ l →
    l.lookup k = some v
  | [], _, _, _, h => by simp at h
  | (a, b) :: l, k, v, hs, h => by
    simp only [List.map_cons, List.pairwise_cons] at hs
    rcases List.mem_cons.mp h with h' | h'
    · simp only [Prod.mk.injEq] at h'; obtain ⟨rfl, rfl⟩ := h'
      simp [List.lookup]
    · have hlt : a < k := hs.1 k (List.mem_map.mpr ⟨(k, v), h', rfl⟩)
      have : (k == a) = false := by simp; omega
      simp only [List.lookup, this]
      exact lookup_of_mem_sorted l k v hs.2 h'

theorem PlainSong.track_of_mem {song : Song} (hp : PlainSong song) {id : Nat} {t : List Event} (h : (id, t) ∈ song.tracks) :
    song.track? id = some t := lookup_of_mem_sorted _ _ _ hp.ids h

theorem PlainSong.songNoEnd {song : Song} (hp : PlainSong song) : SongNoEnd song :=
  fun id evs h => hp.noEnd id evs (track_mem h)

theorem timed_brackets {t : List Event} (h : ∀ e ∈ t, Timed e) : BracketsTimeless t := by
  intro e he hk
  have ht := h e he
  have hty : e.type = ev_LOOP_END ∨ e.type = ev_LOOP_BREAK := by
    rcases hk with hk | hk
    · exact .inl (kind_loopEnd hk)
    · exact .inr (kind_loopBreak hk)
  have h3 : e.type ≠ ev_NOTE ∧ e.type ≠ ev_TIE ∧ e.type ≠ ev_REST := by
    rcases hty with t | t <;> (rw [t]; decide)
  exact ⟨ht.2.2.1 h3.1 h3.2.1, ht.2.2.2.1 h3.1 h3.2.1 h3.2.2⟩

theorem PlainSong.wf {song : Song} (hp : PlainSong song) {id : Nat} {t : List Event} (h : (id, t) ∈ song.tracks)
    {items : List Item} (hperf : perf song t = .ok items) : WFTrack song t :=
  ⟨hp.noEnd id t h, timed_brackets (fun e he => (hp.evs id t h e he).2.1), fun e he => (hp.evs id t h e he).1, items, hperf⟩

theorem PlainSong.evOK {song : Song} (hp : PlainSong song) {id : Nat} {t : List Event} (h : (id, t) ∈ song.tracks)
    {l : List Event} (hl : ∀ e ∈ l, e ∈ t) (hns : ∀ e ∈ l, e.kind ≠ .segno) (hnd : ∀ e ∈ l, e.type ≠ ev_DRUM_MODE) :
    ∀ e ∈ l, EvOK (CalleeNoSeg song) e := by
  intro e he
  obtain ⟨h1, h2, h3⟩ := hp.evs id t h e (hl e he)
  exact ⟨h1, h2, hns e he, h3, fun hk => hp.callees id t h e (hl e he) hk, hnd e he⟩

/-! ### a piece of a track without loop point -/

theorem noTopBreak_of_ok (call : Nat → Nat → Except SErr (List Item)) (d : Nat) :
    ∀ (f : List Tree.Node) (items : List Item), Expand.expL call d false f = .ok items → hasTopBreak f = false
  | [], _, _ => rfl
  | n :: ns, items, h => by
    rw [Refine.expL_cons] at h
    obtain ⟨x, y, hx, hy, _⟩ := seq_ok h
    have := noTopBreak_of_ok call d ns y hy
    cases n <;> simp_all [hasTopBreak, expN]

/-- a closed piece without loop point and without drum-mode switch, entered with no rest pending: its
event list followed by the rest that is pending at its end is the flat form of a bracket structure
that plays the piece in one mode -/
theorem piece_sem (M : Mode) (nS nM : Nat) (R : Int → Option (List Tk × Int)) (pf : Timeline.Platform) (m : WCtx)
    (seq : List Nat) (base mj : Nat)
    (call : Nat → Nat → Except SErr (List Item)) (Q : Event → Prop) (hH : CallH M R pf m seq base mj call Q)
    (hD : DrumH M.rt R m.sub) (hP : PlatOK nS nM pf m.plat) (hMac : CtxSmall m)
    (f : List Tree.Node) (hcl : closedL f) (hev : ∀ e ∈ flattenL f, EvOK Q e) (d : Nat) (items : List Item)
    (hexp : Expand.expL call d false f = .ok items) (g : Bool) (ms : List MEv) (r : Nat) (g' : Bool)
    (hem : Emits m M.dm 0 g ((flattenL f).map fun e => tItem e e) ms r g')
    (hfit : ∀ ev ∈ ms, FitsEv nS nM ev) :
    ∃ ts : List Codec.Node, flatL ts = ms ++ flushL r ∧ linL ts = true ∧ brkOkL false ts = true ∧
      mokL M false ts = true ∧
      callsOkL M seq base mj ts ∧ mk (Codec.expL M nS nM ts) = itemsTicks R pf M.dm items ∧ r < 65536 ∧ g' = g := by
  obtain ⟨sem, hr, hg⟩ := semL M nS nM R pf m seq base mj call Q hH hD hP hMac f hcl hev d false items hexp 0 g ms r g' (by omega) hem hfit
  obtain ⟨ts, h1, h2, _, h4, ho, h5, h6⟩ := SemOK.closed_ticks M nS nM R pf seq base mj sem hr
  exact ⟨ts, h1, h2, h4 (noTopBreak_of_ok call d f items hexp), ho, h5, h6, hr, hg⟩

/-! ### a piece with drum-mode switches at its top level -/

/-- a node at the top level of a track piece: a drum-mode switch, or a node whose events are all in
the fragment (no switch inside) -/
def TopEv (Q : Event → Prop) (n : Tree.Node) : Prop :=
  (∃ e, n = .ev e ∧ e.type = ev_DRUM_MODE ∧ Timed e) ∨ (∀ e ∈ flattenN n, EvOK Q e)

theorem mode_after_flg (M : Mode) (p : Int) :
    M.after ⟨mds_FLG, if p ≠ 0 then 8 else 0⟩ = M.set (decide (p ≠ 0)) := by
  unfold Mode.after
  by_cases hp : p ≠ 0
  · simp +decide [hp, mds_FLG]
  · simp +decide [hp, mds_FLG]

/-- **a top-level piece**: a closed piece without loop point whose drum-mode switches stand at its
top level.  Its event list is the flat form of a bracket structure that fits the modes it passes
through and plays the piece's ticks with the switches followed; the mode it ends in is the writer's
(text order) and the performance's (execution order) drum-mode state alike. -/
theorem piece_top (M : Mode) (nS nM : Nat) (R : Int → Option (List Tk × Int)) (pf : Timeline.Platform) (m : WCtx)
    (seq : List Nat) (base mj : Nat)
    (call : Nat → Nat → Except SErr (List Item)) (Q : Event → Prop)
    (hH : ∀ dm, CallH (M.set dm) R pf m seq base mj call Q) (hD : DrumH M.rt R m.sub) (hP : PlatOK nS nM pf m.plat)
    (hMac : CtxSmall m) (d : Nat) :
    ∀ (f : List Tree.Node) (dm : Bool), closedL f → (∀ n ∈ f, TopEv Q n) →
      CallsP (fun e => e.type ≠ ev_DRUM_MODE) call (flattenL f) → ∀ (items : List Item),
      Expand.expL call d false f = .ok items → ∀ (r : Nat) (g : Bool) (ms : List MEv) (r' : Nat) (g' : Bool), r < 65536 →
      Emits m dm r g ((flattenL f).map fun e => tItem e e) ms r' g' →
      (∀ ev ∈ ms, FitsEv nS nM ev) →
      ∃ ts : List Codec.Node, flatL ts = ms ∧ linL ts = true ∧ brkOkL false ts = true ∧
        mokL (M.set dm) true ts = true ∧ (afterL (M.set dm) ts).dm = Timeline.drumAt dm items ∧
        (afterL (M.set dm) ts).dm = dAfterL dm ((flattenL f).map fun e => tItem e e) ∧
        callsOkL (M.set dm) seq base mj ts ∧
        List.replicate r Tk.off ++ ticksT R pf dm items =
          mk (Codec.expL (M.set dm) nS nM ts) ++ List.replicate r' Tk.off ∧ r' < 65536 ∧ g' = g ∧
        (∀ i ∈ items, i.ev.type = ev_DRUM_MODE → i.dur = 0)
  | [], dm, _, _, _, items, hexp, r, g, ms, r', g', hr, hem, _ => by
    have hx : items = [] := by simpa [Expand.expL] using hexp.symm
    subst hx
    simp only [flattenL, List.map_nil] at hem
    obtain ⟨h1, h2, h3⟩ := emits_nil hem
    subst h1 h2 h3
    exact ⟨[], rfl, rfl, rfl, rfl, rfl, rfl, by simp [callsOkL], by simp [ticksT, Codec.expL, mk], hr, rfl,
      fun i hi => by simp at hi⟩
  | n :: ns, dm, hcl, htop, hcp, items, hexp, r, g, ms, r', g', hr, hem, hfit => by
    rw [Refine.expL_cons] at hexp
    obtain ⟨x, y, hx, hy, rfl⟩ := seq_ok hexp
    rw [Tree.flattenL_cons, List.map_append] at hem
    obtain ⟨ms1, r1, g1, ms2, he1, he2, rfl⟩ := emits_append _ _ hem
    have hcpn : CallsP (fun e => e.type ≠ ev_DRUM_MODE) call (flattenN n) :=
      fun e he => hcp e (by rw [Tree.flattenL_cons]; simp [he])
    have hcps : CallsP (fun e => e.type ≠ ev_DRUM_MODE) call (flattenL ns) :=
      fun e he => hcp e (by rw [Tree.flattenL_cons]; simp [he])
    rcases htop n (by simp) with ⟨e, rfl, te, hte⟩ | hev
    · -- a drum-mode switch
      have hk : e.kind = .other := by unfold Event.kind kindOfType; simp +decide [te]
      have hxx : x = [item e] := by simpa [expN, hk] using hx.symm
      subst hxx
      have hoff : e.off = 0 := hte.2.2.2.1 (by rw [te]; decide) (by rw [te]; decide) (by rw [te]; decide)
      simp only [flattenN, List.map_cons, List.map_nil] at he1 he2
      obtain ⟨b, ms', hb, he', rfl⟩ := emits_cons he1
      obtain ⟨rfl, rfl, rfl⟩ := emits_nil he'
      obtain rfl := body_drum te hb
      have hseg : ¬ e.type = ev_SEGNO := by rw [te]; decide
      have hsb : ((tItem e e).ev.type == ev_SEGNO) = false := by simpa using hseg
      rw [hsb, Bool.or_false] at he2
      have hda : dAfterL dm [tItem e e] = decide (e.param ≠ 0) := by
        have : (tItem e e).ev.type = ev_DRUM_MODE := te
        simp only [dAfterL, dAfter, if_pos this]
      rw [hda] at he2
      rw [prepR_timeless r e (by rw [te]; decide) hoff] at he2 ⊢
      simp only at he2
      obtain ⟨ts, hf, hl, hk', ho, hd1, hd2, hc, hT, hr2, hg, hdz⟩ := piece_top M nS nM R pf m seq base mj call Q hH hD hP hMac d ns
        (decide (e.param ≠ 0)) hcl.2 (fun n' hn' => htop n' (by simp [hn'])) hcps y hy 0 g ms2 r' g' (by omega) he2
        (fun ev hev => hfit ev (by simp [hev]))
      have hon : e.on = 0 := hte.2.2.1 (by rw [te]; decide) (by rw [te]; decide)
      have hfo := evOk_flushL (M.set dm) r
      have ha : afterL (M.set dm) (evNodes (flushL r)) = M.set dm := afterL_evNodes _ _ hfo
      have hma : (M.set dm).after ⟨mds_FLG, if e.param ≠ 0 then 8 else 0⟩ = M.set (decide (e.param ≠ 0)) :=
        mode_after_flg (M.set dm) e.param
      have hsw : afterL (M.set dm) [Codec.Node.ev ⟨mds_FLG, if e.param ≠ 0 then 8 else 0⟩] = M.set (decide (e.param ≠ 0)) := by
        simp only [afterL, Codec.Node.after, hma]
      refine ⟨evNodes (flushL r) ++ ([.ev ⟨mds_FLG, if e.param ≠ 0 then 8 else 0⟩] ++ ts), ?_, ?_, ?_, ?_, ?_, ?_, ?_, ?_, hr2, hg,
        ?_⟩
      rotate_right
      · intro i hi hti
        rcases List.mem_append.mp hi with h | h
        · simp at h; subst h; simp [Item.dur, item, hon, hoff]
        · exact hdz i h hti
      · rw [flatL_append, flatL_evNodes, flatL_append, hf]; simp [flatL, Codec.Node.flat, List.append_assoc]
      · rw [linL_append, linL_evNodes _ (lin_flushL r hr), linL_append, hl]
        by_cases hp : e.param ≠ 0 <;> simp +decide [linL, Codec.Node.lin, linEv, isCmdOp, hp]
      · rw [brkOkL_append, brkOkL_evNodes, brkOkL_append, hk']; simp [brkOkL, Codec.Node.brkOk]
      · rw [mokL_append, mokL_evNodes _ true _ hfo, ha, mokL_append, hsw, ho]
        simp +decide [mokL, Codec.Node.mok]
      · rw [afterL_append, ha, afterL_append, hsw, hd1]
        simp [Timeline.drumAt, item, te]
      · rw [afterL_append, ha, afterL_append, hsw, hd2]
        simp [Tree.flattenL_cons, flattenN, dAfterL, dAfter, te]
      · refine callsOkL_append (callsOkL_evNodes _ _ _ _ _) ?_
        rw [ha]
        refine callsOkL_append (by simp [callsOkL, Codec.Node.callsOk]) ?_
        rw [hsw]; exact hc
      · rw [expL_append, ha, expL_evNodes _ nS nM _ hfo, ticks_flushL, mk_append, mk_off, expL_append, hsw, mk_append,
          List.append_assoc, List.append_assoc, ← hT]
        have w : ¬ (236 : Nat) ∈ wordArgOps := by decide
        have bb : (236 : Nat) ∈ byteArgOps := by decide
        have hev1 : Codec.expL (M.set dm) nS nM [Codec.Node.ev ⟨mds_FLG, if e.param ≠ 0 then 8 else 0⟩] =
            [Tk.cmd mds_FLG (if e.param ≠ 0 then 8 else 0)] := by
          by_cases hp : e.param ≠ 0 <;>
            simp [Codec.expL, Codec.Node.exp, evTicks, cmdArg, isCmdOp, w, bb, mds_FLG, mds_REST, mds_TIE, mds_SLR, mds_MTAB,
              mds_INS, mds_PCM, mds_PEG, mds_DMFINISH, hp]
        rw [hev1]
        simp [ticksT, itTicks, item, te, Timeline.cmdOf, mk, Timeline.maskTk]
        by_cases hp : e.param = 0 <;> simp +decide [hp]
    · -- a node without switch
      have hnd : ∀ e ∈ flattenN n, e.type ≠ ev_DRUM_MODE := fun e he => (hev e he).2.2.2.2.2
      rw [dAfterL_const dm _ hnd] at he2
      have hMdm : (M.set dm).dm = dm := rfl
      obtain ⟨s1, hr1, hg1⟩ := semN (M.set dm) nS nM R pf m seq base mj call Q (hH dm) hD hP hMac n hcl.1 hev d false x hx r g ms1 r1 g1 hr
        (by rw [hMdm]; exact he1) (fun ev hev => hfit ev (by simp [hev]))
      subst hg1
      have hnb : isBrk n = false := by
        cases n <;> simp [isBrk]
        simp [expN] at hx
      rw [hnb] at s1
      obtain ⟨t1, f1, l1, _, k1, o1, c1, e1⟩ := s1
      have hxd : ∀ i ∈ x, i.ev.type ≠ ev_DRUM_MODE := fun i hi =>
        (noseg_N (fun e => e.type ≠ ev_DRUM_MODE) (by decide) call n hnd hcpn d false x hx i hi).1
      obtain ⟨ts, hf, hl, hk', ho, hd1, hd2, hc, hT, hr2, hg, hdz⟩ := piece_top M nS nM R pf m seq base mj call Q hH hD hP hMac d ns
        dm hcl.2 (fun n' hn' => htop n' (by simp [hn'])) hcps y hy r1 g1 ms2 r' g' hr1 he2
        (fun ev hev => hfit ev (by simp [hev]))
      have ha : afterL (M.set dm) t1 = M.set dm := afterL_of_mok o1
      refine ⟨t1 ++ ts, by rw [flatL_append, f1, hf], by rw [linL_append, l1, hl]; rfl,
        by rw [brkOkL_append, k1 rfl, hk']; rfl, by rw [mokL_append, mokL_top o1, ha, ho]; rfl, ?_, ?_,
        callsOkL_append c1 (by rw [ha]; exact hc), ?_, hr2, hg, ?_⟩
      rotate_right
      · intro i hi hti
        rcases List.mem_append.mp hi with h | h
        · exact absurd hti (hxd i h)
        · exact hdz i h hti
      · rw [afterL_append, ha, hd1, drumAt_append, drumAt_const x hxd]
      · rw [afterL_append, ha, hd2, Tree.flattenL_cons, List.map_append, dAfterL_append, dAfterL_const dm _ hnd]
      · have e1' : List.replicate r Tk.off ++ itemsTicks R pf dm x =
            mk (Codec.expL (M.set dm) nS nM t1) ++ List.replicate r1 Tk.off := e1
        rw [ticksT_append, drumAt_const x hxd, ticksT_const R pf x dm hxd, ← List.append_assoc, e1',
          List.append_assoc, hT, expL_append, ha, mk_append, List.append_assoc]

/-- the same with the rest that is pending at the end flushed (a piece that ends at the loop point or
at the end of the track) -/
theorem piece_top_closed (M : Mode) (nS nM : Nat) (R : Int → Option (List Tk × Int)) (pf : Timeline.Platform)
    (m : WCtx) (seq : List Nat) (base mj : Nat)
    (call : Nat → Nat → Except SErr (List Item)) (Q : Event → Prop)
    (hH : ∀ dm, CallH (M.set dm) R pf m seq base mj call Q) (hD : DrumH M.rt R m.sub) (hP : PlatOK nS nM pf m.plat)
    (hMac : CtxSmall m) (d : Nat)
    (f : List Tree.Node) (dm : Bool) (hcl : closedL f) (htop : ∀ n ∈ f, TopEv Q n)
    (hcp : CallsP (fun e => e.type ≠ ev_DRUM_MODE) call (flattenL f)) (items : List Item)
    (hexp : Expand.expL call d false f = .ok items) (g : Bool) (ms : List MEv) (r' : Nat) (g' : Bool)
    (hem : Emits m dm 0 g ((flattenL f).map fun e => tItem e e) ms r' g')
    (hfit : ∀ ev ∈ ms, FitsEv nS nM ev) :
    ∃ ts : List Codec.Node, flatL ts = ms ++ flushL r' ∧ linL ts = true ∧ brkOkL false ts = true ∧
      mokL (M.set dm) true ts = true ∧ (afterL (M.set dm) ts).dm = Timeline.drumAt dm items ∧
      (afterL (M.set dm) ts).dm = dAfterL dm ((flattenL f).map fun e => tItem e e) ∧
      callsOkL (M.set dm) seq base mj ts ∧
      mk (Codec.expL (M.set dm) nS nM ts) = ticksT R pf dm items ∧ r' < 65536 ∧ g' = g ∧
      (∀ i ∈ items, i.ev.type = ev_DRUM_MODE → i.dur = 0) := by
  obtain ⟨ts, hf, hl, hk, ho, hd1, hd2, hc, hT, hr2, hg, hdz⟩ := piece_top M nS nM R pf m seq base mj call Q hH hD hP hMac d f dm hcl
    htop hcp items hexp 0 g ms r' g' (by omega) hem hfit
  have hset : afterL (M.set dm) ts = (M.set dm).set (afterL (M.set dm) ts).dm := afterL_eq_set _ ts
  have hfo := evOk_flushL (afterL (M.set dm) ts) r'
  have ha : afterL (afterL (M.set dm) ts) (evNodes (flushL r')) = afterL (M.set dm) ts := afterL_evNodes _ _ hfo
  refine ⟨ts ++ evNodes (flushL r'), by rw [flatL_append, hf, flatL_evNodes],
    by rw [linL_append, hl, linL_evNodes _ (lin_flushL r' hr2)]; rfl, by rw [brkOkL_append, hk, brkOkL_evNodes]; rfl,
    by rw [mokL_append, ho, mokL_evNodes _ true _ hfo]; rfl, by rw [afterL_append, ha]; exact hd1,
    by rw [afterL_append, ha]; exact hd2, callsOkL_append hc (callsOkL_evNodes _ _ _ _ _), ?_, hr2, hg, hdz⟩
  rw [expL_append, expL_evNodes _ nS nM _ hfo, ticks_flushL, mk_append, mk_off]
  simpa using hT.symm

/-! ### the chunk, the drum routines, and the induction on the call depth -/

/-- what the constructor's assembly provides about the chunk (`chunkOK_of_construct`) -/
structure ChunkOK (song : Song) (d : DataInfo) (b : Built) : Prop where
  flat : Flat song d b.conv []
  maps : MapsOk b.conv
  len : b.seq.length < 65536
  nsub : b.conv.subList.length < 32768
  nmac : b.conv.macroList.length < 32768
  nused : b.conv.usedData.length < 32768
  fitsS : ∀ evs ∈ b.conv.subList, ∀ ev ∈ evs, FitsEv b.conv.subList.length b.conv.macroList.length ev
  slot : ∀ (k : Nat) (hk : k < b.conv.subList.length), ∃ p stream rest,
    slotTarget b.seq (4 + 4 * b.trackList.length) k = some p ∧
    convertTrack b.conv.subList.length b.conv.macroList.length b.conv.subList[k] = .ok stream ∧
    b.seq.drop p = stream ++ rest

section routines
variable (song : Song) (pf : Timeline.Platform) (b : Built) (mj : Nat)

/-- what the routine table records of pointer slot `q`: its stream plays the commands `C` and ends
with `DMFINISH n`, and every routine track registered under `q` has — up to masking — that head -/
def RS (q : Nat) (C : List Tk) (n : Nat) : Prop :=
  (∃ t, slotTarget b.seq (4 + 4 * b.trackList.length) q = some t ∧
     DrumPlays b.seq (4 + 4 * b.trackList.length) mj t C n) ∧
  (∀ p, (subKey p true false, q) ∈ b.conv.subMap → rhead song pf p = some (mk C, (n : Int)))

open Classical in
/-- the routine table of the chunk -/
noncomputable def rtOf : Nat → Option (List Tk × Nat) := fun q =>
  if h : ∃ Cn : List Tk × Nat, RS song pf b mj q Cn.1 Cn.2 then some (Classical.choose h) else none

theorem rtOf_spec {q : Nat} {C : List Tk} {n : Nat} (h : rtOf song pf b mj q = some (C, n)) : RS song pf b mj q C n := by
  unfold rtOf at h
  split at h
  · rename_i hex
    have := Classical.choose_spec hex
    simp only [Option.some.injEq] at h
    rw [h] at this; exact this
  · cases h

theorem rtOf_some {q : Nat} {C : List Tk} {n : Nat} (h : RS song pf b mj q C n) :
    ∃ C' n', rtOf song pf b mj q = some (C', n') := by
  have hex : ∃ Cn : List Tk × Nat, RS song pf b mj q Cn.1 Cn.2 := ⟨(C, n), h⟩
  unfold rtOf
  rw [dif_pos hex]
  exact ⟨_, _, rfl⟩

/-- the mode of the chunk with the drum flag `dm` -/
noncomputable def Mc (dm : Bool) : Mode := ⟨dm, rtOf song pf b mj⟩

theorem mc_sound (dm : Bool) : (Mc song pf b mj dm).Sound b.seq (4 + 4 * b.trackList.length) mj := by
  intro j C k h
  exact (rtOf_spec song pf b mj h).1

end routines

/-- events that are neither notes nor calls are written the same in every state -/
theorem body_indep {m : WCtx} {d d' : Bool} {it : TraceItem} {bd : List MEv} (h : Body m d it bd)
    (hn : it.ev.type ≠ ev_NOTE) (hj : it.ev.type ≠ ev_JUMP) : Body ⟨[], m.mac, m.plat, m.used⟩ d' it bd := by
  cases h with
  | det h =>
    refine .det ?_
    rw [← h]
    unfold detBody
    simp only [if_neg hn]
  | jump t _ => exact absurd t hj
  | ins t h2 => exact .ins t h2
  | dnote t _ _ _ _ => exact absurd t hn
  | plat t h2 => exact .plat t h2
  | peg t h2 h3 => exact .peg t h2 h3
  | mtab t h2 h3 => exact .mtab t h2 h3

theorem emits_indep {m : WCtx} {d : Bool} (d' : Bool) {r : Nat} {g : Bool} {its : List TraceItem} {ms : List MEv}
    {r' : Nat} {g' : Bool} (h : Emits m d r g its ms r' g')
    (hn : ∀ it ∈ its, it.ev.type ≠ ev_NOTE ∧ it.ev.type ≠ ev_JUMP ∧ it.ev.type ≠ ev_DRUM_MODE) :
    Emits ⟨[], m.mac, m.plat, m.used⟩ d' r g its ms r' g' := by
  induction h generalizing d' with
  | nil d r g => exact .nil d' r g
  | @cons d r g it its bd ms r' g' hb _ ih =>
    obtain ⟨h1, h2, h3⟩ := hn it (by simp)
    refine .cons (body_indep hb h1 h2) ?_
    have : dAfter d' it = d' := by simp only [dAfter, if_neg h3]
    rw [this]
    exact ih d' (fun x hx => hn x (by simp [hx]))

/-- the head of a routine: the commands of the items before its first note -/
theorem routineHead_pre (pf : Timeline.Platform) (i : Item) (rest : List Item) (hi : i.ev.type = ev_NOTE) :
    ∀ (pre : List Item), (∀ j ∈ pre, j.ev.type ≠ ev_NOTE) →
    Timeline.routineHead pf (pre ++ i :: rest) = some (pre.flatMap (fun j => Timeline.cmdOf pf j.ev), i.ev.param)
  | [], _ => by simp [Timeline.routineHead, hi]
  | j :: pre, h => by
    have hj : ¬ j.ev.type = ev_NOTE := h j (by simp)
    simp [Timeline.routineHead, hj, routineHead_pre pf i rest hi pre (fun x hx => h x (by simp [hx]))]

/-- items that are commands without time play their commands -/
theorem itemsTicks_cmds (R : Int → Option (List Tk × Int)) (pf : Timeline.Platform) (dm : Bool) : ∀ (l : List Item),
    (∀ j ∈ l, j.ev.type ≠ ev_NOTE ∧ j.ev.type ≠ ev_TIE ∧ j.ev.type ≠ ev_REST ∧ j.ev.type ≠ ev_DRUM_MODE ∧
      j.src.on = 0 ∧ j.src.off = 0) →
    itemsTicks R pf dm l = l.flatMap (fun j => Timeline.cmdOf pf j.ev)
  | [], _ => rfl
  | j :: l, h => by
    obtain ⟨h1, h2, h3, h4, h5, h6⟩ := h j (by simp)
    rw [itemsTicks_cons, itemsTicks_cmds R pf dm l (fun x hx => h x (by simp [hx]))]
    simp [itTicks, h1, h2, h3, h4, h5, h6]

theorem hmac_of_chunk {song : Song} {d : DataInfo} {b : Built} (hc : ChunkOK song d b) :
    CtxSmall (ctxOf d b.conv) := by
  refine ⟨fun p hp => ?_, Nat.le_of_lt hc.nused⟩
  have h1 : p.2 < b.conv.macroMap.length := val_lt_of_mem hc.maps.mac hp
  have h2 := hc.maps.macLen
  have h3 := hc.nmac
  omega

/-- **a drum routine of the chunk**: the stream registered for a routine track of the fragment plays
the head of that track and ends with its note -/
theorem routine_sem {song : Song} {d : DataInfo} (pf : Timeline.Platform) {b : Built} (hp : PlainSong song)
    (hc : ChunkOK song d b) (hP : PlatOK b.conv.subList.length b.conv.macroList.length pf d.platform) (mj : Nat)
    {p : Int} {k : Nat} (hmem : (subKey p true false, k) ∈ b.conv.subMap) (hrt : RoutineTrack song p)
    (hk : ∃ ritems, callK song limit 1 (trackIdOfParam p) = .ok ritems) :
    ∃ C n, RS song pf b mj k C n := by
  obtain ⟨tevs, fpre, note, fpost, htr, hparse, hnote, hpre⟩ := hrt
  obtain ⟨ritems, hcall⟩ := hk
  have hmemT := track_mem htr
  have hcall' := hcall
  have hlim : ¬ (1 ≥ limit) := by decide
  obtain ⟨kk, hkk⟩ : ∃ kk, limit = kk + 1 := ⟨limit - 1, by decide⟩
  rw [hkk] at hcall
  simp only [callK] at hcall
  simp only [hlim, if_false, htr] at hcall
  -- the forest
  have hclT : closedL (parse tevs) := closed_of_ok (callK song kk) (spine_parse tevs (hp.noEnd _ _ hmemT)) _ _ hcall
  rw [hparse] at hclT hcall
  have hcl' := (closedL_append fpre (.ev note :: fpost)).mp hclT
  have hclp : closedL fpre := hcl'.1
  obtain ⟨ipre, y, hipre, hy, hrit⟩ := expL_append_ok (callK song kk) 2 false fpre (.ev note :: fpost) ritems hcall
  rw [Refine.expL_cons] at hy
  obtain ⟨xn, irest, hxn, _, rfl⟩ := seq_ok hy
  have hkn : note.kind = .other := by unfold Event.kind kindOfType; simp +decide [hnote]
  have hxn' : xn = [item note] := by simpa [expN, hkn] using hxn.symm
  subst hxn'
  have htevs : tevs = flattenL fpre ++ note :: flattenL fpost := by
    rw [← flatten_parse tevs, hparse, Tree.flattenL_append, Tree.flattenL_cons]; simp [flattenN]
  have hsub : ∀ e ∈ flattenL fpre, e ∈ tevs := fun e he => by rw [htevs]; simp [he]
  have hnmem : note ∈ tevs := by rw [htevs]; simp
  -- the routine's event list
  have hle : CallLE (callK song kk) (callK song limit) := callK_mono song kk limit (by omega)
  have hexp0 : Expand.expL (callK song limit) 0 false fpre = .ok ipre :=
    expL_mono hle fpre 2 0 false ipre (by omega) hipre
  obtain ⟨hsn, htn, _⟩ := hp.evs _ _ hmemT note hnmem
  obtain ⟨hp0, hp94⟩ := hsn hnote
  have hro : RoutineOK song tevs fpre note (flattenL fpost) :=
    ⟨htevs, hclp, timed_brackets (fun e he => (hp.evs _ _ hmemT e (hsub e he)).2.1), ⟨ipre, hexp0⟩, hnote, ⟨hp0, hp94⟩,
      fun e he => ⟨(hp.evs _ _ hmemT e (hsub e he)).1, (hpre e he).1, (hpre e he).2.2.2.1⟩⟩
  obtain ⟨evs, hsubl, hfl⟩ := hc.flat (subKey p true false, k) hmem (by simp)
  obtain ⟨ms, r, g, hem, hr, hevs⟩ := hfl.2 p tevs fpre note (flattenL fpost) rfl htr hro
  have hidx : k < b.conv.subList.length := by
    rw [← hc.maps.subLen]; exact val_lt_of_mem hc.maps.sub hmem
  have hget : b.conv.subList[k] = evs := by
    rw [List.getElem?_eq_getElem hidx] at hsubl; exact Option.some.inj hsubl
  have hevmem : evs ∈ b.conv.subList := by rw [← hget]; exact List.getElem_mem hidx
  -- its bracket structure, in the mode of a routine: drum flag on, no routine known
  have hem0 : Emits ⟨[], (ctxOf d b.conv).mac, (ctxOf d b.conv).plat, (ctxOf d b.conv).used⟩ true 0 false ((flattenL fpre).map fun e => tItem e e) ms r g := by
    refine emits_indep true hem ?_
    intro it hit
    obtain ⟨e, he, rfl⟩ := List.mem_map.mp hit
    refine ⟨(hpre e he).1, ?_, (hpre e he).2.2.2.1⟩
    intro tj
    have : e.kind = .jump := by unfold Event.kind kindOfType; simp +decide [show e.type = ev_JUMP from tj]
    exact (hpre e he).2.2.2.2.1 this
  have hev : ∀ e ∈ flattenL fpre, EvOK (fun _ => False) e := by
    intro e he
    obtain ⟨h1, h2, h3⟩ := hp.evs _ _ hmemT e (hsub e he)
    exact ⟨h1, h2, (hpre e he).2.2.2.2.2, h3, fun hk => (hpre e he).2.2.2.2.1 hk, (hpre e he).2.2.2.1⟩
  have hH0 : CallH Mode.drum0 (rhead song pf) pf ⟨[], (ctxOf d b.conv).mac, (ctxOf d b.conv).plat, (ctxOf d b.conv).used⟩ b.seq (4 + 4 * b.trackList.length) mj (callK song limit) (fun _ => False) := by
    intro d e its k' _ hq; exact absurd hq (by simp)
  have hD0 : DrumH Mode.drum0.rt (rhead song pf) [] := by
    intro e k' q _ hm; simp at hm
  have hfit : ∀ ev ∈ ms, FitsEv b.conv.subList.length b.conv.macroList.length ev :=
    fun ev hev' => hc.fitsS evs hevmem ev (by rw [hevs]; simp [hev'])
  obtain ⟨ts, hflat, hlin, hbrk, hmok, hcalls, hticks, _, _⟩ := piece_sem Mode.drum0 b.conv.subList.length b.conv.macroList.length
    (rhead song pf) pf ⟨[], (ctxOf d b.conv).mac, (ctxOf d b.conv).plat, (ctxOf d b.conv).used⟩ b.seq (4 + 4 * b.trackList.length) mj (callK song limit) _
    hH0 hD0 hP (hmac_of_chunk hc) fpre hclp hev 0 ipre hexp0
    false ms r g hem0 hfit
  -- its bytes
  have hpn : prepR r (tItem note note) = (flushL r, note.off) :=
    prepR_other r note (by rw [hnote]; decide) htn.2.1
  rw [hpn] at hevs
  obtain ⟨p0, stream, rest, hslot, hconv, hdrop⟩ := hc.slot k hidx
  rw [hget, hevs, ← hflat] at hconv
  have hdl : (b.seq.drop p0).length = stream.length + rest.length := by rw [hdrop]; simp
  have hsl : stream.length < 65536 := by
    have := hc.len; simp at hdl; omega
  obtain ⟨eA, hA, hstream⟩ := shape_d_conv _ _ ts hlin hbrk _ stream hconv hsl
  have hpl : p0 < b.seq.length := by
    rw [hstream] at hdl; simp at hdl; omega
  have hseq : b.seq = b.seq.take p0 ++ (stream ++ rest) := by rw [← hdrop]; exact (List.take_append_drop p0 b.seq).symm
  have hprel : (b.seq.take p0).length = p0 := by simp; omega
  obtain ⟨n, hn⟩ : ∃ n : Nat, n = Mds.u16 note.param % 256 := ⟨_, rfl⟩
  have hnp : (n : Int) = note.param := by rw [hn]; unfold Mds.u16; omega
  have hpre' : b.seq.take p0 ++ eA.out ++ [mds_DMFINISH, n] <+: b.seq := by
    conv => rhs; rw [hseq, hstream]
    rw [hn]; simp [List.append_assoc]
  obtain ⟨e', he', hplay⟩ := routine_at b.conv.subList.length b.conv.macroList.length ts hlin hmok n
  rw [hA] at he'; injection he' with he'; subst he'
  have hdp := hplay (b.seq.take p0) b.seq (4 + 4 * b.trackList.length) mj hcalls hpre'
  rw [hprel] at hdp
  -- the head of the routine track
  have hPpre : ∀ i ∈ ipre, (i.ev.type ≠ ev_NOTE ∧ i.ev.type ≠ ev_TIE ∧ i.ev.type ≠ ev_REST ∧ i.ev.type ≠ ev_DRUM_MODE ∧
      i.ev.on = 0 ∧ i.ev.off = 0) ∧ (i.src.type ≠ ev_NOTE ∧ i.src.type ≠ ev_TIE ∧ i.src.type ≠ ev_REST ∧
      i.src.type ≠ ev_DRUM_MODE ∧ i.src.on = 0 ∧ i.src.off = 0) := by
    refine noseg_L (fun e => e.type ≠ ev_NOTE ∧ e.type ≠ ev_TIE ∧ e.type ≠ ev_REST ∧ e.type ≠ ev_DRUM_MODE ∧ e.on = 0 ∧ e.off = 0)
      (by decide) (callK song kk) fpre ?_ ?_ 2 false ipre hipre
    · intro e he
      obtain ⟨h1, h2, h3, h4, _, _⟩ := hpre e he
      have ht := (hp.evs _ _ hmemT e (hsub e he)).2.1
      exact ⟨h1, h2, h3, h4, ht.2.2.1 h1 h2, ht.2.2.2.1 h1 h2 h3⟩
    · intro e he hk; exact absurd hk (hpre e he).2.2.2.2.1
  have hhead : rhead song pf p = some (mk (Codec.expL Mode.drum0 b.conv.subList.length b.conv.macroList.length ts), (n : Int)) := by
    unfold rhead
    rw [hcall', hrit]
    simp only [List.singleton_append]
    rw [routineHead_pre pf (item note) irest (by simpa [item] using hnote) ipre (fun j hj => (hPpre j hj).1.1)]
    have hdm0 : Mode.drum0.dm = true := rfl
    rw [hdm0] at hticks
    rw [hticks, itemsTicks_cmds (rhead song pf) pf true ipre (fun j hj => by
      obtain ⟨⟨a1, a2, a3, a4, _, _⟩, ⟨_, _, _, _, b5, b6⟩⟩ := hPpre j hj
      exact ⟨a1, a2, a3, a4, b5, b6⟩), hnp]
    rfl
  refine ⟨_, n, ⟨p0, hslot, hdp⟩, ?_⟩
  intro p' hmem'
  have := pair_eq_of_val hc.maps.sub hmem' hmem rfl
  simp only [Prod.mk.injEq] at this
  obtain ⟨rfl, _, _⟩ := subKey_inj this.1
  exact hhead

/-- every routine number the converter registered names a routine track of the fragment whose
expansion (the routine as `Timeline.ticksOf` calls it) is defined -/
def RoutinesOK (song : Song) (b : Built) : Prop :=
  ∀ p k, (subKey p true false, k) ∈ b.conv.subMap →
    RoutineTrack song p ∧ ∃ ritems, callK song limit 1 (trackIdOfParam p) = .ok ritems

/-- **every drum note of the song finds its routine** -/
theorem drumH_all {song : Song} {d : DataInfo} (pf : Timeline.Platform) {b : Built} (hp : PlainSong song)
    (hc : ChunkOK song d b) (hP : PlatOK b.conv.subList.length b.conv.macroList.length pf d.platform) (mj : Nat)
    (hR : RoutinesOK song b) : DrumH (rtOf song pf b mj) (rhead song pf) b.conv.subMap := by
  intro e k q _ hmem hq hq94
  have hidx : k < b.conv.subList.length := by
    rw [← hc.maps.subLen]; exact val_lt_of_mem hc.maps.sub hmem
  have hk : k < 32768 := Nat.lt_trans hidx hc.nsub
  have hw : wrap16 (k : Int) = (k : Int) := by unfold wrap16; omega
  rw [hw] at hq
  have hqk : q = k := by
    have : ¬ ((k : Int) < 0) := by omega
    rw [if_neg this] at hq
    exact_mod_cast hq
  subst hqk
  obtain ⟨hrt, hok⟩ := hR e.param q hmem
  obtain ⟨C, n, hrs⟩ := routine_sem pf hp hc hP mj hmem hrt hok
  obtain ⟨C', n', h'⟩ := rtOf_some song pf b mj hrs
  exact ⟨C', n', h', (rtOf_spec song pf b mj h').2 e.param hmem⟩

/-- the stream of a called subroutine (called in drum-mode state `dm`), given what is known about the
calls one level deeper: its bracket structure, its structured encoding, and where it stands in the chunk -/
theorem sub_stream {song : Song} {d : DataInfo} (pf : Timeline.Platform) {b : Built} (hp : PlainSong song)
    (hc : ChunkOK song d b) (hP : PlatOK b.conv.subList.length b.conv.macroList.length pf d.platform) (mj : Nat)
    (hD : DrumH (rtOf song pf b mj) (rhead song pf) b.conv.subMap) (dm : Bool)
    (k : Nat) (hkl : k + 1 ≤ limit)
    (ih : CallH (Mc song pf b mj dm) (rhead song pf) pf (ctxOf d b.conv) b.seq (4 + 4 * b.trackList.length) mj (callK song k)
      (CalleeNoSeg song))
    (dp : Nat) (e : Event) (its : List Item) (idx : Nat) (hq : CalleeNoSeg song e)
    (hcall : callK song (k + 1) dp (trackIdOfParam e.param) = .ok its)
    (hmem : (subKey e.param false dm, idx) ∈ b.conv.subMap) (h256 : Mds.u16 (idx : Int) < 256) :
    ∃ (ts : List Codec.Node) (eA : Enc) (pre : List Nat), linL ts = true ∧ brkOkL false ts = true ∧
      mokL (Mc song pf b mj dm) false ts = true ∧
      callsOkL (Mc song pf b mj dm) b.seq (4 + 4 * b.trackList.length) mj ts ∧
      mk (Codec.expL (Mc song pf b mj dm) b.conv.subList.length b.conv.macroList.length ts) =
        itemsTicks (rhead song pf) pf dm its ∧
      encL b.conv.subList.length b.conv.macroList.length ts {} = .ok eA ∧ pre ++ eA.out ++ [mds_FINISH] <+: b.seq ∧
      slotTarget b.seq (4 + 4 * b.trackList.length) (Mds.u16 (idx : Int) % 256) = some pre.length := by
  have hcall0 := hcall
  simp only [callK] at hcall
  by_cases hf : dp ≥ limit
  · simp [hf] at hcall
  simp only [hf, if_false] at hcall
  cases htr : song.track? (trackIdOfParam e.param) with
  | none => rw [htr] at hcall; simp at hcall
  | some tevs =>
    rw [htr] at hcall
    simp only at hcall
    have hmemT := track_mem htr
    have hns : ∀ x ∈ tevs, x.kind ≠ .segno := fun x hx => (hq tevs htr x hx).1
    have hnd : ∀ x ∈ tevs, x.type ≠ ev_DRUM_MODE := fun x hx => (hq tevs htr x hx).2
    have hperf : perf song tevs = .ok its := perf_of_callK song hkl htr hcall0
    have hwf := hp.wf hmemT hperf
    -- the subroutine's event list
    obtain ⟨evs, hsub, hfl⟩ := hc.flat (subKey e.param false dm, idx) hmem (by simp)
    obtain ⟨ms, r, hem, hr, hevs⟩ := hfl.1 e.param dm tevs rfl htr hwf hns
    have hidx : idx < b.conv.subList.length := by
      rw [← hc.maps.subLen]; exact val_lt_of_mem hc.maps.sub hmem
    have hget : b.conv.subList[idx] = evs := by
      rw [List.getElem?_eq_getElem hidx] at hsub; exact Option.some.inj hsub
    have hevmem : evs ∈ b.conv.subList := by rw [← hget]; exact List.getElem_mem hidx
    -- its bracket structure
    have hcl : closedL (parse tevs) := closed_of_ok (callK song k) (spine_parse tevs (hp.noEnd _ _ hmemT)) _ _ hcall
    have hev : ∀ e ∈ flattenL (parse tevs), EvOK (CalleeNoSeg song) e := by
      rw [flatten_parse]; exact hp.evOK hmemT (fun e he => he) hns hnd
    have hfit : ∀ ev ∈ ms, FitsEv b.conv.subList.length b.conv.macroList.length ev :=
      fun ev hev' => hc.fitsS evs hevmem ev (by rw [hevs]; simp [hev'])
    obtain ⟨ts, hflat, hlin, hbrk, hmok, hcalls, hticks, _, _⟩ := piece_sem (Mc song pf b mj dm) b.conv.subList.length
      b.conv.macroList.length (rhead song pf) pf
      (ctxOf d b.conv) b.seq (4 + 4 * b.trackList.length) mj (callK song k) _ ih hD hP (hmac_of_chunk hc) (parse tevs) hcl hev
      (dp + 1) its hcall
      false ms r false (by rw [flatten_parse]; exact hem) hfit
    -- its bytes
    obtain ⟨p, stream, rest, hslot, hconv, hdrop⟩ := hc.slot idx hidx
    rw [hget, hevs, ← hflat] at hconv
    have hdl : (b.seq.drop p).length = stream.length + rest.length := by rw [hdrop]; simp
    have hsl : stream.length < 65536 := by
      have := hc.len; simp at hdl; omega
    obtain ⟨eA, hA, hstream⟩ := shape_f_conv _ _ ts hlin hbrk 0 stream hconv hsl
    have hpl : p < b.seq.length := by
      rw [hstream] at hdl; simp at hdl; omega
    have hseq : b.seq = b.seq.take p ++ (stream ++ rest) := by rw [← hdrop]; exact (List.take_append_drop p b.seq).symm
    have hprel : (b.seq.take p).length = p := by simp; omega
    have hpre : b.seq.take p ++ eA.out ++ [mds_FINISH] <+: b.seq := by
      conv => rhs; rw [hseq, hstream]
      simp [List.append_assoc]
    have hu : Mds.u16 (idx : Int) = idx := by
      have := hc.nsub; unfold Mds.u16; omega
    refine ⟨ts, eA, b.seq.take p, hlin, hbrk, hmok, hcalls, hticks, hA, hpre, ?_⟩
    rw [hu] at h256 ⊢
    rw [Nat.mod_eq_of_lt h256, hprel]; exact hslot

/-- **every call of the song finds its subroutine**: by induction on the call budget, each subroutine
stream that a performance of the song calls — in either drum-mode state — plays, entered through its
pointer-table slot, the (masked) ticks of the callee's expansion and returns -/
theorem callH_all {song : Song} {d : DataInfo} (pf : Timeline.Platform) {b : Built} (hp : PlainSong song)
    (hc : ChunkOK song d b) (hP : PlatOK b.conv.subList.length b.conv.macroList.length pf d.platform) (mj : Nat)
    (hD : DrumH (rtOf song pf b mj) (rhead song pf) b.conv.subMap) :
    ∀ k, k ≤ limit → ∀ dm,
      CallH (Mc song pf b mj dm) (rhead song pf) pf (ctxOf d b.conv) b.seq (4 + 4 * b.trackList.length) mj (callK song k)
        (CalleeNoSeg song)
  | 0, _, _ => by
    intro dp e its idx _ _ hcall
    simp [callK] at hcall
  | k + 1, hkl, dm => by
    intro dp e its idx hk hq hcall hmem h256
    have ih := callH_all pf hp hc hP mj hD k (by omega) dm
    obtain ⟨ts, eA, pre, hlin, _, hmok, hcalls, hticks, hA, hpre, hslot⟩ :=
      sub_stream pf hp hc hP mj hD dm k hkl ih dp e its idx hq hcall hmem h256
    obtain ⟨e', he', hsp⟩ := stream_at_subPlays (Mc song pf b mj dm) b.conv.subList.length b.conv.macroList.length ts hlin hmok
    rw [hA] at he'; injection he' with he'; subst he'
    exact ⟨Codec.expL (Mc song pf b mj dm) b.conv.subList.length b.conv.macroList.length ts,
      ⟨pre.length, hslot, hsp pre b.seq (4 + 4 * b.trackList.length) mj (mc_sound song pf b mj dm) hcalls hpre⟩, hticks⟩

/-! ### the items of a performance of a song of the fragment -/

theorem CallsP.mono {P P' : Event → Prop} (h : ∀ e, P e → P' e) {call : Nat → Nat → Except SErr (List Item)} {l : List Event}
    (hc : CallsP P call l) : CallsP P' call l :=
  fun e he hk d its hx i hi => ⟨h _ (hc e he hk d its hx i hi).1, h _ (hc e he hk d its hx i hi).2⟩

/-- the items of a called track without loop point and drum-mode switch have neither -/
theorem callK_clean {song : Song} (hp : PlainSong song) : ∀ (k d tid : Nat) (its : List Item) (tevs : List Event),
    song.track? tid = some tevs → (∀ x ∈ tevs, x.kind ≠ .segno ∧ x.type ≠ ev_DRUM_MODE) → callK song k d tid = .ok its →
    ∀ i ∈ its, (i.ev.kind ≠ .segno ∧ i.ev.type ≠ ev_DRUM_MODE) ∧ (i.src.kind ≠ .segno ∧ i.src.type ≠ ev_DRUM_MODE)
  | 0, _, _, _, _, _, _, h => by simp [callK] at h
  | k + 1, d, tid, its, tevs, htr, hns, h => by
    simp only [callK] at h
    by_cases hf : d ≥ limit
    · simp [hf] at h
    simp only [hf, if_false, htr] at h
    refine noseg_L (fun e => e.kind ≠ .segno ∧ e.type ≠ ev_DRUM_MODE) (by decide) (callK song k) (parse tevs) ?_ ?_ (d + 1) false its h
    · rw [flatten_parse]; exact hns
    · intro e he hk d' its' h'
      rw [flatten_parse] at he
      cases htr' : song.track? (trackIdOfParam e.param) with
      | none =>
        cases k with
        | zero => simp [callK] at h'
        | succ k' =>
          simp only [callK] at h'
          by_cases hf' : d' ≥ limit
          · simp [hf'] at h'
          · simp [hf', htr'] at h'
      | some t' => exact callK_clean hp k d' _ its' t' htr' (hp.callees _ _ (track_mem htr) e he hk t' htr') h'

/-- the calls made from a piece of a track of the song: no drum-mode and no loop-point items -/
theorem calls_of_piece {song : Song} (hp : PlainSong song) {id : Nat} {t : List Event} (h : (id, t) ∈ song.tracks)
    (l : List Event) (hl : ∀ e ∈ l, e ∈ t) (k : Nat) :
    CallsP (fun e => e.type ≠ ev_DRUM_MODE) (callK song k) l ∧ CallsP (fun e => e.kind ≠ .segno) (callK song k) l := by
  have hboth : CallsP (fun e => e.kind ≠ .segno ∧ e.type ≠ ev_DRUM_MODE) (callK song k) l := by
    intro e he hk d its h'
    cases htr' : song.track? (trackIdOfParam e.param) with
    | none =>
      cases k with
      | zero => simp [callK] at h'
      | succ k' =>
        simp only [callK] at h'
        by_cases hf' : d ≥ limit
        · simp [hf'] at h'
        · simp [hf', htr'] at h'
    | some t' => exact callK_clean hp k d _ its t' htr' (hp.callees _ _ h e (hl e he) hk t' htr') h'
  exact ⟨CallsP.mono (fun _ h => h.2) hboth, CallsP.mono (fun _ h => h.1) hboth⟩

/-! ### a channel track -/

theorem perf_of_expected {song : Song} {pf : Timeline.Platform} {root : List Event} {t : List Tk}
    (h : Timeline.expected song pf root = .ok t) : ∃ items, perf song root = .ok items := by
  unfold Timeline.expected at h
  cases hp : perf song root with
  | error x => rw [hp] at h; cases h
  | ok items => exact ⟨items, rfl⟩

theorem mk_loopMark : mk [Tk.loopMark] = [Tk.loopMark] := rfl

def isCmd : Tk → Bool
  | .cmd _ _ => true
  | _ => false

theorem cmdOf_cmd (pf : Timeline.Platform) (e : Event) : ∀ tk ∈ Timeline.cmdOf pf e, isCmd tk = true := by
  intro tk h
  unfold Timeline.cmdOf at h
  by_cases t : e.type = ev_SLUR
  · rw [if_pos t] at h; rw [List.mem_singleton] at h; subst h; rfl
  rw [if_neg t] at h; clear t
  by_cases t : e.type = ev_TRANSPOSE_REL
  · rw [if_pos t] at h; rw [List.mem_singleton] at h; subst h; rfl
  rw [if_neg t] at h; clear t
  by_cases t : e.type = ev_VOL
  · rw [if_pos t] at h; rw [List.mem_singleton] at h; subst h; rfl
  rw [if_neg t] at h; clear t
  by_cases t : e.type = ev_VOL_REL ∨ e.type = ev_VOL_FINE_REL
  · rw [if_pos t] at h; rw [List.mem_singleton] at h; subst h; rfl
  rw [if_neg t] at h; clear t
  by_cases t : e.type = ev_TEMPO_BPM
  · rw [if_pos t] at h; rw [List.mem_singleton] at h; subst h; rfl
  rw [if_neg t] at h; clear t
  by_cases t : e.type = ev_INS
  · rw [if_pos t] at h; rw [List.mem_singleton] at h; subst h; rfl
  rw [if_neg t] at h; clear t
  by_cases t : e.type = ev_TRANSPOSE
  · rw [if_pos t] at h; rw [List.mem_singleton] at h; subst h; rfl
  rw [if_neg t] at h; clear t
  by_cases t : e.type = ev_DETUNE
  · rw [if_pos t] at h; rw [List.mem_singleton] at h; subst h; rfl
  rw [if_neg t] at h; clear t
  by_cases t : e.type = ev_VOL_FINE
  · rw [if_pos t] at h; rw [List.mem_singleton] at h; subst h; rfl
  rw [if_neg t] at h; clear t
  by_cases t : e.type = ev_PAN
  · rw [if_pos t] at h; rw [List.mem_singleton] at h; subst h; rfl
  rw [if_neg t] at h; clear t
  by_cases t : e.type = ev_PAN_ENVELOPE
  · rw [if_pos t] at h; rw [List.mem_singleton] at h; subst h; rfl
  rw [if_neg t] at h; clear t
  by_cases t : e.type = ev_PITCH_ENVELOPE
  · rw [if_pos t] at h; rw [List.mem_singleton] at h; subst h; rfl
  rw [if_neg t] at h; clear t
  by_cases t : e.type = ev_PORTAMENTO
  · rw [if_pos t] at h; rw [List.mem_singleton] at h; subst h; rfl
  rw [if_neg t] at h; clear t
  by_cases t : e.type = ev_DRUM_MODE
  · rw [if_pos t] at h; rw [List.mem_singleton] at h; subst h; rfl
  rw [if_neg t] at h; clear t
  by_cases t : e.type = ev_TEMPO
  · rw [if_pos t] at h; rw [List.mem_singleton] at h; subst h; rfl
  rw [if_neg t] at h; clear t
  by_cases t : e.type = ev_PLATFORM
  · rw [if_pos t] at h; obtain ⟨p, _, rfl⟩ := List.mem_map.mp h; rfl
  rw [if_neg t] at h
  exact absurd h (List.not_mem_nil)

theorem routineHead_cmds (pf : Timeline.Platform) : ∀ (items : List Item) (c : List Tk) (n : Int),
    Timeline.routineHead pf items = some (c, n) → ∀ tk ∈ c, isCmd tk = true
  | [], _, _, h => by simp [Timeline.routineHead] at h
  | i :: is, c, n, h => by
    unfold Timeline.routineHead at h
    by_cases t : i.ev.type = ev_NOTE
    · rw [if_pos t] at h
      simp only [Option.some.injEq, Prod.mk.injEq] at h
      obtain ⟨rfl, _⟩ := h
      intro tk htk; simp at htk
    · rw [if_neg t] at h
      cases hr : Timeline.routineHead pf is with
      | none => rw [hr] at h; simp at h
      | some p =>
        obtain ⟨c', n'⟩ := p
        rw [hr] at h
        simp only [Option.map_some, Option.some.injEq, Prod.mk.injEq] at h
        obtain ⟨rfl, _⟩ := h
        intro tk htk
        rcases List.mem_append.mp htk with h' | h'
        · exact cmdOf_cmd pf i.ev tk h'
        · exact routineHead_cmds pf is c' n' hr tk h'

theorem rhead_cmds (song : Song) (pf : Timeline.Platform) (p : Int) (c : List Tk) (n : Int)
    (h : rhead song pf p = some (c, n)) : ∀ tk ∈ c, isCmd tk = true := by
  unfold rhead at h
  cases hc : callK song limit 1 (trackIdOfParam p) with
  | error x => rw [hc] at h; cases h
  | ok ritems => rw [hc] at h; exact routineHead_cmds pf ritems c n h

theorem itTicks_noMark (R : Int → Option (List Tk × Int)) (hR : ∀ p c n, R p = some (c, n) → ∀ tk ∈ c, isCmd tk = true)
    (pf : Timeline.Platform) (dm : Bool) (i : Item) : Tk.loopMark ∉ itTicks R pf dm i := by
  unfold itTicks Timeline.noteTicks
  intro h
  by_cases t1 : i.ev.type = ev_NOTE
  · rw [if_pos t1] at h
    by_cases hd : dm = true
    · rw [if_pos hd] at h
      cases hr : R i.ev.param with
      | none => rw [hr] at h; simp at h
      | some p =>
        obtain ⟨c, n⟩ := p
        rw [hr] at h
        simp only [List.mem_append, List.mem_replicate] at h
        rcases h with h | h | h
        · have := hR _ c n hr _ h; simp [isCmd] at this
        · split at h
          · simp at h
          · simp [List.mem_replicate] at h
        · simp at h
    · rw [if_neg hd] at h
      simp only [List.mem_append, List.mem_replicate] at h
      rcases h with h | h
      · split at h
        · simp at h
        · simp [List.mem_replicate] at h
      · simp at h
  · rw [if_neg t1] at h
    by_cases t2 : i.ev.type = ev_TIE
    · rw [if_pos t2] at h; simp [List.mem_replicate] at h
    rw [if_neg t2] at h
    by_cases t3 : i.ev.type = ev_REST
    · rw [if_pos t3] at h; simp [List.mem_replicate] at h
    rw [if_neg t3] at h
    by_cases t4 : i.ev.type = ev_DRUM_MODE
    · rw [if_pos t4] at h
      have := cmdOf_cmd pf i.ev _ h
      simp [isCmd] at this
    · rw [if_neg t4] at h
      simp only [List.mem_append, List.mem_replicate] at h
      rcases h with h | h
      · have := cmdOf_cmd pf i.ev _ h
        simp [isCmd] at this
      · simp at h

theorem ticksT_noMark (R : Int → Option (List Tk × Int)) (hR : ∀ p c n, R p = some (c, n) → ∀ tk ∈ c, isCmd tk = true)
    (pf : Timeline.Platform) : ∀ (l : List Item) (dm : Bool), Tk.loopMark ∉ ticksT R pf dm l
  | [], _ => by simp [ticksT]
  | i :: is, dm => by
    simp only [ticksT, List.mem_append, not_or]
    exact ⟨itTicks_noMark R hR pf dm i, ticksT_noMark R hR pf is _⟩

/-- an item that takes time sounds (or is silent) for at least one tick -/
theorem itTicks_time (R : Int → Option (List Tk × Int)) (pf : Timeline.Platform) (dm : Bool) (i : Item) (h : i.dur ≠ 0)
    (hdef : i.ev.type = ev_NOTE → dm = true → (R i.ev.param).isSome = true) (hnd : i.ev.type ≠ ev_DRUM_MODE) :
    ∃ tk ∈ itTicks R pf dm i, isCmd tk = false := by
  unfold Item.dur at h
  unfold itTicks Timeline.noteTicks
  by_cases t1 : i.ev.type = ev_NOTE
  · simp only [t1, if_true]
    by_cases hd : dm = true
    · obtain ⟨⟨c, n⟩, hr⟩ := Option.isSome_iff_exists.mp (hdef t1 hd)
      simp only [hd, if_true, hr]
      by_cases hon : i.src.on = 0
      · exact ⟨Tk.off, by simp [hon]; omega, rfl⟩
      · exact ⟨Tk.on n.toNat, by simp [hon], rfl⟩
    · simp only [hd, if_false]
      by_cases hon : i.src.on = 0
      · exact ⟨Tk.off, by simp [hon]; omega, rfl⟩
      · exact ⟨Tk.on i.ev.param.toNat, by simp [hon], rfl⟩
  · simp only [t1, if_false]
    by_cases t2 : i.ev.type = ev_TIE
    · simp only [t2, if_true]
      by_cases hon : i.src.on = 0
      · exact ⟨Tk.off, by simp [hon]; omega, rfl⟩
      · exact ⟨Tk.hold, by simp [hon], rfl⟩
    · simp only [t2, if_false]
      by_cases t3 : i.ev.type = ev_REST
      · simp only [t3, if_true]
        exact ⟨Tk.off, by simp; omega, rfl⟩
      · simp only [t3, if_false, hnd]
        exact ⟨Tk.off, by simp; omega, rfl⟩

theorem ticksT_time (R : Int → Option (List Tk × Int)) (pf : Timeline.Platform) : ∀ (l : List Item) (dm : Bool),
    DefT R dm l → (∀ i ∈ l, i.ev.type = ev_DRUM_MODE → i.dur = 0) → totalDur l ≠ 0 →
    ∃ tk ∈ ticksT R pf dm l, isCmd tk = false
  | [], _, _, _, h => by simp [totalDur] at h
  | i :: is, dm, hdef, hz, h => by
    rw [totalDur_cons] at h
    simp only [ticksT]
    by_cases hi : i.dur = 0
    · obtain ⟨tk, h1, h2⟩ := ticksT_time R pf is _ hdef.2 (fun j hj => hz j (by simp [hj])) (by omega)
      exact ⟨tk, List.mem_append_right _ h1, h2⟩
    · have hnd : i.ev.type ≠ ev_DRUM_MODE := fun t => hi (hz i (by simp) t)
      obtain ⟨tk, h1, h2⟩ := itTicks_time R pf dm i hi hdef.1 hnd
      exact ⟨tk, List.mem_append_left _ h1, h2⟩

/-- what is known about a channel track of the chunk, entered at its first byte with the loop-back
jump followed `mj` times -/
structure ChanResult (b : Built) (pre stream : List Nat) (mj : Nat) (t : List Tk) : Prop where
  plays : ∃ (X Y TA TB : List Tk) (loops : Bool) (s' : St),
    Reach b.seq (4 + 4 * b.trackList.length) mj { pc := pre.length } s' ∧
    step b.seq (4 + 4 * b.trackList.length) mj s' = .error .finished ∧
    s'.out = (if loops then TA ++ repeatL mj (TB ++ [Tk.loopMark]) ++ TB else TA ++ TB).reverse ∧
    mk TA = X ∧ mk TB = Y ∧ t = (if loops then X ++ Y ++ [Tk.loopMark] ++ Y else X ++ Y) ∧
    (loops = true → ∃ tk ∈ Y, isCmd tk = false) ∧ Tk.loopMark ∉ X ∧ Tk.loopMark ∉ Y
  walks : ∀ fuel, fuel ≥ stream.length →
    SeqWf.walk b.seq pre.length fuel { pc := pre.length } = .ok (pre.length + stream.length)

/-- the loop section of a track ends in the drum-mode state it starts in (otherwise the replay after
the loop-back jump is played in the other state than it was written in: D27) -/
def LoopDrumOK (root : List Event) : Prop :=
  ∀ a s c, root = a ++ s :: c → s.kind = .segno →
    dAfterL (dAfterL false (a.map fun e => tItem e e)) (c.map fun e => tItem e e) =
      dAfterL false (a.map fun e => tItem e e)

theorem mem_flattenL_of_mem : ∀ {F : List Tree.Node} {n : Tree.Node} {e : Event}, n ∈ F → e ∈ flattenN n → e ∈ flattenL F
  | [], _, _, h, _ => by simp at h
  | m :: F, n, e, h, he => by
    rw [Tree.flattenL_cons]
    rcases List.mem_cons.mp h with h' | h'
    · subst h'; exact List.mem_append_left _ he
    · exact List.mem_append_right _ (mem_flattenL_of_mem h' he)

/-- the nodes of a piece of a track of the song are top-level nodes of the fragment -/
theorem PlainSong.topEv {song : Song} (hp : PlainSong song) {id : Nat} {t : List Event} (h : (id, t) ∈ song.tracks)
    {F : List Tree.Node} (hF : ∀ n ∈ F, n ∈ parse t) (hns : ∀ e ∈ flattenL F, e.kind ≠ .segno) :
    ∀ n ∈ F, TopEv (CalleeNoSeg song) n := by
  intro n hn
  have hsub : ∀ e ∈ flattenN n, e ∈ t := by
    intro e he
    rw [← flatten_parse t]
    exact mem_flattenL_of_mem (hF n hn) he
  by_cases hd : ∃ e ∈ flattenN n, e.type = ev_DRUM_MODE
  · obtain ⟨e, he, te⟩ := hd
    have := hp.drumTop id t h n (hF n hn) e he te
    exact .inl ⟨e, this, te, (hp.evs id t h e (hsub e he)).2.1⟩
  · refine .inr (hp.evOK h hsub (fun e he => hns e (mem_flattenL_of_mem hn he)) (fun e he te => hd ⟨e, he, te⟩))

/-- **a channel track of the chunk plays the expected tick string** -/
theorem chan_plays {song : Song} {d : DataInfo} (pf : Timeline.Platform) {b : Built} (hp : PlainSong song)
    (hc : ChunkOK song d b) (hP : PlatOK b.conv.subList.length b.conv.macroList.length pf d.platform)
    (hR : RoutinesOK song b)
    {id : Nat} {root : List Event} (hmem : (id, root) ∈ song.tracks) {evs : List MEv}
    (hch : ChanFlat song (ctxOf d b.conv) id evs) (hfitT : ∀ ev ∈ evs, FitsEv b.conv.subList.length b.conv.macroList.length ev)
    {stream pre rest : List Nat}
    (hconv : convertTrack b.conv.subList.length b.conv.macroList.length evs = .ok stream)
    (hseq : b.seq = pre ++ stream ++ rest)
    (hseg0 : Timeline.segnoAtDepth0 0 root = true) (hcnt : segCount root ≤ 1) (hloop : LoopDrumOK root)
    {t : List Tk} (hexp : Timeline.expected song pf root = .ok t) (mj : Nat) :
    ChanResult b pre stream mj t := by
  obtain ⟨items0, hperf0⟩ := perf_of_expected hexp
  have htr : song.track? id = some root := hp.track_of_mem hmem
  obtain ⟨items, ms, r, g, hperf, hem, hr, hevs⟩ := hch root htr (hp.wf hmem hperf0)
  have hD := drumH_all pf hp hc hP mj hR
  have hMac := hmac_of_chunk hc
  obtain ⟨M0, hM0⟩ : ∃ M0 : Mode, M0 = Mc song pf b mj false := ⟨_, rfl⟩
  have hH : ∀ dm, CallH (M0.set dm) (rhead song pf) pf (ctxOf d b.conv) b.seq (4 + 4 * b.trackList.length) mj
      (callK song limit) (CalleeNoSeg song) := by
    intro dm; rw [hM0]; exact callH_all pf hp hc hP mj hD limit (Nat.le_refl _) dm
  have hD0 : DrumH M0.rt (rhead song pf) b.conv.subMap := by rw [hM0]; exact hD
  have hS0 : M0.Sound b.seq (4 + 4 * b.trackList.length) mj := by rw [hM0]; exact mc_sound song pf b mj false
  have hdm0 : M0.dm = false := by rw [hM0]; rfl
  have hset0 : M0.set false = M0 := by rw [← hdm0]; rfl
  have hRc := rhead_cmds song pf
  have hcl : closedL (parse root) := closed_of_ok (callK song limit) (spine_parse root (hp.noEnd _ _ hmem)) _ _ hperf
  have hsl : stream.length < 65536 := by
    have := hc.len; rw [hseq] at this; simp at this; omega
  have hpl : (pre ++ stream).length < 65536 := by
    have := hc.len; rw [hseq] at this; simp at this; simp; omega
  have hfit : ∀ ev ∈ ms, FitsEv b.conv.subList.length b.conv.macroList.length ev := fun ev hev => hfitT ev (by rw [hevs]; simp [hev])
  have hpre : pre ++ stream <+: b.seq := by rw [hseq]; exact List.prefix_append _ _
  rcases split_segno (parse root) hcl (by rw [flatten_parse]; exact hseg0) (by rw [flatten_parse]; exact hcnt) with
    hns | ⟨FA, s, FB, hF, hsk, hnA, hnB⟩
  · -- no loop point
    have htop := hp.topEv hmem (F := parse root) (fun n hn => hn) hns
    obtain ⟨c1, c2⟩ := calls_of_piece hp hmem root (fun e he => he) limit
    obtain ⟨ts, hflat, hlin, hbrk, hmok, _, _, hcalls, hticks, _, hg, _⟩ := piece_top_closed M0 b.conv.subList.length
      b.conv.macroList.length (rhead song pf) pf
      (ctxOf d b.conv) b.seq (4 + 4 * b.trackList.length) mj (callK song limit) _ hH hD0 hP hMac 0 (parse root) false hcl htop
      (by rw [flatten_parse]; exact c1) items hperf
      false ms r g (by rw [flatten_parse]; exact hem) hfit
    rw [hset0] at hmok hcalls hticks
    subst hg
    have hevs' : evs = flatL ts ++ [⟨mds_FINISH, 0⟩] := by rw [hevs, hflat]; simp
    rw [hevs'] at hconv
    obtain ⟨eA, hA, hstream⟩ := shape_f_conv _ _ ts hlin hbrk 0 stream hconv hsl
    obtain ⟨eA', hA', hplay⟩ := track_f_at M0 b.conv.subList.length b.conv.macroList.length ts hlin hmok
    rw [hA] at hA'; injection hA' with hA'; subst hA'
    obtain ⟨s', r', hfin, ho⟩ := hplay pre b.seq (4 + 4 * b.trackList.length) mj { pc := pre.length } hS0 hcalls
      (by rw [← hstream]; exact hpre) rfl (by rw [hdm0]) rfl
    rw [flatten_parse] at hns
    have hn : ∀ i ∈ items, i.src.kind ≠ .segno := fun i hi =>
      (noseg_L (fun e => e.kind ≠ .segno) (by decide) (callK song limit) (parse root)
        (by rw [flatten_parse]; exact hns) (by rw [flatten_parse]; exact c2) 0 false items hperf i hi).2
    obtain ⟨hexp', _⟩ := expected_noseg song pf root items hperf hn hexp
    refine ⟨⟨ticksT (rhead song pf) pf false items, [], Codec.expL M0 b.conv.subList.length b.conv.macroList.length ts, [],
      false, s', r', hfin, ?_, hticks, rfl, ?_, ?_, ticksT_noMark _ hRc pf items false, ?_⟩, ?_⟩
    · simpa using ho
    · simpa using hexp'
    · intro h; cases h
    · simp
    intro fuel hf
    have hw := walk_f_at b.conv.subList.length b.conv.macroList.length ts hlin eA hA pre b.seq pre.length
      (by rw [← hstream]; exact hpre) fuel (by rw [hstream] at hf; simpa using hf)
    rw [hw, hstream]; simp; omega
  · -- the loop point splits the track
    have hroot : root = flattenL FA ++ s :: flattenL FB := by
      rw [← flatten_parse root, hF, Tree.flattenL_append, Tree.flattenL_cons]; simp [flattenN]
    have hclAB := (closedL_append FA (.ev s :: FB)).mp (by rw [← hF]; exact hcl)
    have hsmem : s ∈ root := by rw [hroot]; simp
    obtain ⟨hs1, hs2, _⟩ := hp.evs _ _ hmem s hsmem
    have tss : s.type = ev_SEGNO := by
      rcases kind_cases' s with ⟨hk, _⟩ | ⟨hk, _⟩ | ⟨hk, _⟩ | ⟨_, ht⟩ | ⟨hk, _⟩ | ⟨hk, _⟩ | ⟨hk, _⟩ <;>
        first | exact ht | (rw [hsk] at hk; cases hk)
    have hsoff : s.off = 0 := hs2.2.2.2.1 (by rw [tss]; decide) (by rw [tss]; decide) (by rw [tss]; decide)
    have hson : s.on = 0 := hs2.2.2.1 (by rw [tss]; decide) (by rw [tss]; decide)
    have hsnd : ¬ s.type = ev_DRUM_MODE := by rw [tss]; decide
    -- the performance
    have hperf' : Expand.expL (callK song limit) 0 false (FA ++ Tree.Node.ev s :: FB) = .ok items := by
      rw [← hF]; exact hperf
    obtain ⟨iA, y, hiA, hy, hit⟩ := expL_append_ok (callK song limit) 0 false FA (.ev s :: FB) items hperf'
    rw [Refine.expL_cons] at hy
    obtain ⟨xs, iB, hxs, hiB, rfl⟩ := seq_ok hy
    have hxs' : xs = [item s] := by simpa [expN, hsk] using hxs.symm
    subst hxs'
    subst hit
    -- the event list
    have hmap : root.map (fun e => tItem e e) =
        (flattenL FA).map (fun e => tItem e e) ++ (tItem s s :: (flattenL FB).map (fun e => tItem e e)) := by
      rw [hroot]; simp
    rw [hmap] at hem
    obtain ⟨msA, rA, gA, ms1, heA, he1, rfl⟩ := emits_append _ _ hem
    obtain ⟨bs, msB, hbs, heB, rfl⟩ := emits_cons he1
    obtain rfl := body_segno tss hbs
    rw [prepR_timeless rA s (by rw [tss]; decide) hsoff] at heB hevs hfit
    have hgs : (gA || (tItem s s).ev.type == ev_SEGNO) = true := by
      have : ((tItem s s).ev.type == ev_SEGNO) = true := by simpa using tss
      rw [this]; simp
    rw [hgs, dAfter_const hsnd] at heB
    simp only at heB
    obtain ⟨dA, hdA⟩ : ∃ dA, dA = dAfterL false ((flattenL FA).map fun e => tItem e e) := ⟨_, rfl⟩
    rw [← hdA] at heB
    have hFmemA : ∀ n ∈ FA, n ∈ parse root := fun n hn => by rw [hF]; simp [hn]
    have hFmemB : ∀ n ∈ FB, n ∈ parse root := fun n hn => by rw [hF]; simp [hn]
    have htopA := hp.topEv hmem hFmemA hnA
    have htopB := hp.topEv hmem hFmemB hnB
    obtain ⟨cA1, cA2⟩ := calls_of_piece hp hmem (flattenL FA) (fun e he => by rw [hroot]; simp [he]) limit
    obtain ⟨cB1, cB2⟩ := calls_of_piece hp hmem (flattenL FB) (fun e he => by rw [hroot]; simp [he]) limit
    obtain ⟨ta, hfA, hlA, hkA, hoA, hdA1, hdA2, hcA, htA, _, hgA, hzA⟩ := piece_top_closed M0 b.conv.subList.length
      b.conv.macroList.length (rhead song pf) pf
      (ctxOf d b.conv) b.seq (4 + 4 * b.trackList.length) mj (callK song limit) _ hH hD0 hP hMac 0 FA false hclAB.1 htopA cA1 iA hiA
      false msA rA gA heA (fun ev hev => hfit ev (by simp [hev]))
    rw [hset0] at hoA hdA1 hdA2 hcA htA
    have haA : afterL M0 ta = M0.set dA := by rw [afterL_eq_set M0 ta, hdA2, hdA]
    obtain ⟨tb, hfB, hlB, hkB, hoB, hdB1, hdB2, hcB, htB, _, hgB, hzB⟩ := piece_top_closed M0 b.conv.subList.length
      b.conv.macroList.length (rhead song pf) pf
      (ctxOf d b.conv) b.seq (4 + 4 * b.trackList.length) mj (callK song limit) _ hH hD0 hP hMac 0 FB dA hclAB.2.2 htopB cB1 iB hiB
      true msB r g heB (fun ev hev => hfit ev (by simp [hev]))
    subst hgB
    -- the loop section ends in the state it starts in
    have hloopd : dAfterL dA ((flattenL FB).map fun e => tItem e e) = dA := by
      rw [hdA]; exact hloop (flattenL FA) s (flattenL FB) hroot hsk
    have hloopM : (afterL (afterL M0 ta) tb).dm = (afterL M0 ta).dm := by
      rw [haA, hdB2, hloopd]; rfl
    have hdAi : Timeline.drumAt false iA = dA := by rw [← hdA1, haA]; rfl
    have hdBi : Timeline.drumAt dA iB = dA := by rw [← hdB1, hdB2, hloopd]
    -- items and the expected string
    have hAseg : ∀ i ∈ iA, i.src.kind ≠ .segno := fun i hi =>
      (noseg_L (fun e => e.kind ≠ .segno) (by decide) (callK song limit) FA hnA cA2 0 false iA hiA i hi).2
    have hBseg : ∀ i ∈ iB, i.src.kind ≠ .segno := fun i hi =>
      (noseg_L (fun e => e.kind ≠ .segno) (by decide) (callK song limit) FB hnB cB2 0 false iB hiB i hi).2
    obtain ⟨hE, hLT, hdefAll, hdefB⟩ := expected_split song pf root iA iB (item s)
      (show perf song root = .ok (iA ++ item s :: iB) from hperf) (by simpa [item] using hsk) hAseg hBseg hexp
    have his : itTicks (rhead song pf) pf dA (item s) = [] := by
      simp +decide [itTicks, item, Timeline.cmdOf, tss, hson, hsoff]
    have hall : ticksT (rhead song pf) pf false (iA ++ item s :: iB) =
        ticksT (rhead song pf) pf false iA ++ ticksT (rhead song pf) pf dA iB := by
      rw [ticksT_append, hdAi]
      simp only [ticksT, his, List.nil_append]
      have : ¬ (item s).ev.type = ev_DRUM_MODE := hsnd
      rw [if_neg this]
    have hdrumAll : Timeline.drumAt false (iA ++ item s :: iB) = dA := by
      rw [drumAt_append, hdAi]
      have : ¬ (item s).ev.type = ev_DRUM_MODE := hsnd
      simp only [Timeline.drumAt, if_neg this]
      exact hdBi
    rw [hdrumAll] at hE hdefB
    have hTD : totalDur (iA ++ ([item s] ++ iB)) = totalDur iA + totalDur iB := by
      rw [totalDur_append, totalDur_append]; simp [totalDur, Item.dur, item, hson, hsoff]
    -- the stream
    have hevs' : evs = flatL ta ++ [⟨mds_SEGNO, 0⟩] ++ flatL tb ++
        [⟨if (totalDur (iA ++ ([item s] ++ iB)) : Int) ≠ toInt (loopTime (iA ++ ([item s] ++ iB))) then mds_JUMP else mds_FINISH, 0⟩] := by
      rw [hevs, hfA, hfB]; simp [List.append_assoc]
    have hlt' : loopTime (iA ++ ([item s] ++ iB)) = some (totalDur iA) := by simpa using hLT
    rw [hlt'] at hevs'
    have etoi : toInt (some (totalDur iA)) = (totalDur iA : Int) := rfl
    have hmb : mokL (afterL M0 ta) true tb = true := by rw [haA]; exact hoB
    have hcB' : callsOkL (afterL M0 ta) b.seq (4 + 4 * b.trackList.length) mj tb := by rw [haA]; exact hcB
    have htB' : mk (Codec.expL (afterL M0 ta) b.conv.subList.length b.conv.macroList.length tb) =
        ticksT (rhead song pf) pf dA iB := by rw [haA]; exact htB
    by_cases hz : totalDur (iA ++ ([item s] ++ iB)) = totalDur iA
    · -- the loop section takes no time: `FINISH`
      have hzi : ¬ ((totalDur (iA ++ ([item s] ++ iB)) : Int) ≠ toInt (some (totalDur iA))) := by
        rw [etoi]; omega
      rw [if_neg hzi] at hevs'
      rw [hevs'] at hconv
      obtain ⟨eA, eB, hA, hB, hstream⟩ := shape_z_conv _ _ ta tb hlA hlB hkA hkB 0 stream hconv hsl
      obtain ⟨eA', eB', hA', hB', hplay⟩ := track_z_at M0 b.conv.subList.length b.conv.macroList.length ta tb hlA hlB hoA hmb
      rw [hA] at hA'; injection hA' with hA'; subst hA'
      rw [hB] at hB'; injection hB' with hB'; subst hB'
      obtain ⟨s', r', hfin, ho⟩ := hplay pre b.seq (4 + 4 * b.trackList.length) mj { pc := pre.length } hS0 hcA hcB'
        (by rw [← hstream]; exact hpre) rfl (by rw [hdm0]) rfl
      have hz' : totalDur (iA ++ item s :: iB) = totalDur iA := hz
      rw [if_pos hz'] at hE
      refine ⟨⟨ticksT (rhead song pf) pf false iA, ticksT (rhead song pf) pf dA iB,
        Codec.expL M0 b.conv.subList.length b.conv.macroList.length ta,
        Codec.expL (afterL M0 ta) b.conv.subList.length b.conv.macroList.length tb, false, s', r', hfin, ?_, htA, htB',
        ?_, ?_, ticksT_noMark _ hRc pf iA false, ticksT_noMark _ hRc pf iB dA⟩, ?_⟩
      · simpa using ho
      · rw [hE, hall]; rfl
      · intro h; cases h
      intro fuel hf
      have hw := walk_z_at b.conv.subList.length b.conv.macroList.length ta tb hlA hlB eA eB hA hB pre b.seq pre.length
        (by rw [← hstream]; exact hpre) fuel (by rw [hstream] at hf; simpa using hf)
      rw [hw, hstream]; simp; omega
    · have hzi : (totalDur (iA ++ ([item s] ++ iB)) : Int) ≠ toInt (some (totalDur iA)) := by
        rw [etoi]; omega
      rw [if_pos hzi] at hevs'
      rw [hevs'] at hconv
      obtain ⟨eA, eB, hA, hB, hstream⟩ := shape_j_conv _ _ ta tb hlA hlB hkA hkB 0 stream hconv hsl
      obtain ⟨eA', eB', hA', hB', hplay⟩ := track_j_at M0 b.conv.subList.length b.conv.macroList.length ta tb hlA hlB hoA hmb
        hloopM
      rw [hA] at hA'; injection hA' with hA'; subst hA'
      rw [hB] at hB'; injection hB' with hB'; subst hB'
      obtain ⟨s', r', hfin, ho⟩ := hplay pre b.seq (4 + 4 * b.trackList.length) mj { pc := pre.length } hS0 hcA hcB'
        (by rw [← hstream]; exact hpre) (by rw [← hstream]; exact hpl) rfl (by rw [hdm0]) rfl
      have hz' : ¬ totalDur (iA ++ item s :: iB) = totalDur iA := hz
      rw [if_neg hz'] at hE
      have hdB : totalDur iB ≠ 0 := by omega
      refine ⟨⟨ticksT (rhead song pf) pf false iA, ticksT (rhead song pf) pf dA iB,
        Codec.expL M0 b.conv.subList.length b.conv.macroList.length ta,
        Codec.expL (afterL M0 ta) b.conv.subList.length b.conv.macroList.length tb, true, s', r', hfin, ?_, htA, htB',
        ?_, fun _ => ticksT_time _ pf iB dA (hdefB hz') hzB hdB, ticksT_noMark _ hRc pf iA false,
        ticksT_noMark _ hRc pf iB dA⟩, ?_⟩
      · simpa using ho
      · rw [hE, hall]; simp [List.append_assoc]
      intro fuel hf
      have hw := walk_j_at b.conv.subList.length b.conv.macroList.length ta tb hlA hlB eA eB hA hB pre b.seq
        (by rw [← hstream]; exact hpre) (by rw [← hstream]; exact hpl) fuel (by rw [hstream] at hf; exact hf)
      rw [hw, hstream]

end Ctrmml.SongTop
