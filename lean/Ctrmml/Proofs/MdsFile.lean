/-
  Helper lemmas for C09 (no property statements): list-index plumbing for the sequence header,
  the layout of the streams behind it, and `get_mds` as the serialisation of a chunk tree.
-/
import Ctrmml.Model.MdsFile
import Ctrmml.Spec.RiffTree
import Ctrmml.Spec.SeqInterp
import Ctrmml.Proofs.Riff
namespace Ctrmml.MdsFile
open Ctrmml Ctrmml.Mds Tables

/-! ## lists -/

theorem flatMapK_get {α} (k : Nat) (f : α → List Nat) (hf : ∀ a, (f a).length = k) :
    ∀ (l : List α) (i j : Nat), j < k → (hi : i < l.length) → (l.flatMap f)[k * i + j]? = (f l[i])[j]?
  | [], i, j, _, hi => by simp at hi
  | a :: l, 0, j, hj, _ => by
    simp only [List.flatMap_cons, Nat.mul_zero, Nat.zero_add, List.getElem_cons_zero]
    rw [List.getElem?_append_left (by rw [hf]; exact hj)]
  | a :: l, i + 1, j, hj, hi => by
    simp only [List.flatMap_cons, List.getElem_cons_succ]
    rw [List.getElem?_append_right (by rw [hf]; rw [Nat.mul_succ]; omega)]
    have : k * (i + 1) + j - (f a).length = k * i + j := by rw [hf, Nat.mul_succ]; omega
    rw [this]
    exact flatMapK_get k f hf l i j hj (by simpa using hi)

theorem flatMapK_length {α} (k : Nat) (f : α → List Nat) (hf : ∀ a, (f a).length = k) :
    ∀ (l : List α), (l.flatMap f).length = k * l.length
  | [] => by simp
  | a :: l => by
    simp only [List.flatMap_cons, List.length_append, List.length_cons, hf, flatMapK_length k f hf l, Nat.mul_succ]
    omega

theorem startsFrom_length : ∀ (pos : Nat) (bs : List (List Nat)), (startsFrom pos bs).length = bs.length
  | _, [] => rfl
  | pos, b :: bs => by simp [startsFrom, startsFrom_length (pos + b.length) bs]

theorem startsFrom_get : ∀ (pos : Nat) (bs : List (List Nat)) (i : Nat) (hi : i < bs.length),
    (startsFrom pos bs)[i]? = some (pos + ((bs.take i).flatten).length)
  | _, [], i, hi => by simp at hi
  | pos, b :: bs, 0, _ => by simp [startsFrom]
  | pos, b :: bs, i + 1, hi => by
    simp only [startsFrom, List.getElem?_cons_succ, List.take_succ_cons, List.flatten_cons, List.length_append]
    rw [startsFrom_get (pos + b.length) bs i (by simpa using hi)]
    simp [Nat.add_assoc]

theorem flatten_split (bs : List (List Nat)) (i : Nat) (hi : i < bs.length) :
    bs.flatten = (bs.take i).flatten ++ (bs[i] ++ (bs.drop (i + 1)).flatten) := by
  have h2 : bs.drop i = bs[i] :: bs.drop (i + 1) := by
    rw [List.drop_eq_getElem_cons hi]
  calc bs.flatten = (bs.take i ++ bs.drop i).flatten := by rw [List.take_append_drop]
    _ = (bs.take i).flatten ++ (bs.drop i).flatten := by rw [List.flatten_append]
    _ = _ := by rw [h2, List.flatten_cons]

/-- the `i`-th stream sits at its recorded start inside `pre ++ flatten ++ post` -/
theorem drop_at_start (pre post : List Nat) (bs : List (List Nat)) (i : Nat) (hi : i < bs.length) :
    (pre ++ bs.flatten ++ post).drop (pre.length + ((bs.take i).flatten).length)
      = bs[i] ++ ((bs.drop (i + 1)).flatten ++ post) := by
  rw [flatten_split bs i hi]
  have : pre ++ ((bs.take i).flatten ++ (bs[i] ++ (bs.drop (i + 1)).flatten)) ++ post
      = (pre ++ (bs.take i).flatten) ++ (bs[i] ++ ((bs.drop (i + 1)).flatten ++ post)) := by
    simp [List.append_assoc]
  rw [this]
  have hl : pre.length + ((bs.take i).flatten).length = (pre ++ (bs.take i).flatten).length := by simp
  rw [hl, List.drop_left]

theorem encodeStreams_length (enc : List MEv → Except FErr (List Nat)) (base : Nat) :
    ∀ (pos : Nat) (es : List (List MEv)) (bs : List (List Nat)), encodeStreams enc base pos es = .ok bs → bs.length = es.length
  | _, [], bs, h => by simp [encodeStreams] at h; subst h; rfl
  | pos, e :: es, bs, h => by
    simp only [encodeStreams] at h
    split at h
    · simp at h
    · split at h
      · simp at h
      · rename_i b hb
        split at h
        · simp at h
        · rename_i bs' hbs
          simp at h; subst h
          simp [encodeStreams_length enc base _ es bs' hbs]

theorem encodeStreams_get (enc : List MEv → Except FErr (List Nat)) (base : Nat) :
    ∀ (pos : Nat) (es : List (List MEv)) (bs : List (List Nat)), encodeStreams enc base pos es = .ok bs →
      ∀ (i : Nat) (hi : i < es.length) (hb : i < bs.length), enc es[i] = .ok bs[i]
  | _, [], _, _, i, hi, _ => by simp at hi
  | pos, e :: es, bs, h, i, hi, hb => by
    simp only [encodeStreams] at h
    split at h
    · simp at h
    · split at h
      · simp at h
      · rename_i b hbe
        split at h
        · simp at h
        · rename_i bs' hbs
          simp at h; subst h
          cases i with
          | zero => simpa using hbe
          | succ i =>
            simp only [List.getElem_cons_succ]
            exact encodeStreams_get enc base _ es bs' hbs i (by simpa using hi) (by simpa using hb)

/-- every stream that was converted starts at an offset that fits 16 bits -/
theorem encodeStreams_starts (enc : List MEv → Except FErr (List Nat)) (base : Nat) :
    ∀ (pos : Nat) (es : List (List MEv)) (bs : List (List Nat)), encodeStreams enc base pos es = .ok bs →
      ∀ (i : Nat), i < bs.length → pos + ((bs.take i).flatten).length ≤ 65535 + base
  | _, [], bs, h, i, hi => by simp [encodeStreams] at h; subst h; simp at hi
  | pos, e :: es, bs, h, i, hi => by
    simp only [encodeStreams] at h
    split at h
    · simp at h
    · rename_i hpos
      split at h
      · simp at h
      · rename_i b hbe
        split at h
        · simp at h
        · rename_i bs' hbs
          simp at h; subst h
          cases i with
          | zero => simp; omega
          | succ i =>
            have := encodeStreams_starts enc base _ es bs' hbs i (by simpa using hi)
            simp only [List.take_succ_cons, List.flatten_cons, List.length_append]
            omega

/-! ## bytes of the header -/

theorem be16b_val (n : Nat) (h : n < 65536) : (n / 256 % 256) * 256 + n % 256 = n := by omega

theorem rd16_be16b (pre post : List Nat) (n : Nat) (h : n < 65536) :
    Seq.rd16 (pre ++ be16b n ++ post) pre.length = some n := by
  have h0 : (pre ++ be16b n ++ post)[pre.length]? = some (n / 256 % 256) := by
    simp [be16b, List.append_assoc]
  have h1 : (pre ++ be16b n ++ post)[pre.length + 1]? = some (n % 256) := by
    rw [List.append_assoc, List.getElem?_append_right (by omega)]
    simp [be16b]
  simp only [Seq.rd16, h0, h1]
  simp [be16b_val n h]


theorem rd16_of_get (L : List Nat) (p v : Nat) (hv : v < 65536)
    (h0 : L[p]? = some (v / 256 % 256)) (h1 : L[p + 1]? = some (v % 256)) : Seq.rd16 L p = some v := by
  simp only [Seq.rd16, h0, h1]
  simp [be16b_val v hv]

theorem get_mid (P M R : List Nat) (m : Nat) (hm : m < M.length) : (P ++ (M ++ R))[P.length + m]? = M[m]? := by
  rw [List.getElem?_append_right (by omega)]
  simp only [Nat.add_sub_cancel_left]
  rw [List.getElem?_append_left hm]

theorem off16_lt (st base : Nat) : off16 st base < 65536 := by unfold off16; omega

theorem off16_eq (st base : Nat) (h1 : base ≤ st) (h2 : st < 65536 + base) : base + off16 st base = st := by
  unfold off16; omega

def trackEntry (dataBase : Nat) (p : Nat × Nat) : List Nat := [p.1 % 256, 0] ++ be16b (off16 p.2 dataBase)
def slotEntry (dataBase : Nat) (st : Nat) : List Nat := be16b (off16 st dataBase)

theorem headerOf_eq (dataBase vol : Nat) (ids tS sS mS : List Nat) (nD : Nat) (body : List Nat) :
    headerOf dataBase vol ids tS sS mS nD ++ body
      = (be16b dataBase ++ [vol % 256, ids.length % 256]) ++
        ((ids.zip tS).flatMap (trackEntry dataBase) ++
          (((sS ++ mS).flatMap (slotEntry dataBase)) ++ (List.replicate (nD * 2) 0 ++ body))) := by
  simp [headerOf, trackEntry, slotEntry, List.append_assoc]
  rfl

theorem table_length (dataBase : Nat) (l : List (Nat × Nat)) : (l.flatMap (trackEntry dataBase)).length = 4 * l.length :=
  flatMapK_length 4 _ (by intro a; simp [trackEntry, be16b]) l

theorem slots_length (dataBase : Nat) (l : List Nat) : (l.flatMap (slotEntry dataBase)).length = 2 * l.length :=
  flatMapK_length 2 _ (by intro a; simp [slotEntry, be16b]) l

theorem headerOf_length (dataBase vol : Nat) (ids tS sS mS : List Nat) (nD : Nat) (h : tS.length = ids.length) :
    (headerOf dataBase vol ids tS sS mS nD).length = 4 + 4 * ids.length + 2 * (sS.length + mS.length) + nD * 2 := by
  have := congrArg List.length (headerOf_eq dataBase vol ids tS sS mS nD [])
  simp only [List.append_nil, List.length_append, table_length, slots_length, List.length_replicate, List.length_zip, h,
    Nat.min_self] at this
  rw [this]; simp [be16b]; omega

/-- the fixed four bytes -/
theorem header_fixed (dataBase vol : Nat) (ids tS sS mS : List Nat) (nD : Nat) (body : List Nat) (hb : dataBase < 65536) :
    let L := headerOf dataBase vol ids tS sS mS nD ++ body
    Seq.rd16 L 0 = some dataBase ∧ Seq.rd L 2 = some (vol % 256) ∧ Seq.rd L 3 = some (ids.length % 256) := by
  intro L
  have hL : L = (be16b dataBase ++ [vol % 256, ids.length % 256]) ++ _ := headerOf_eq ..
  refine ⟨?_, ?_, ?_⟩
  · apply rd16_of_get _ _ _ hb <;> simp [hL, be16b]
  · simp [Seq.rd, hL, be16b]
  · simp [Seq.rd, hL, be16b]

/-- track table entry `i` -/
theorem header_track (dataBase vol : Nat) (ids tS sS mS : List Nat) (nD : Nat) (body : List Nat)
    (h : tS.length = ids.length) (i : Nat) (hi : i < ids.length) (ht : i < tS.length) :
    let L := headerOf dataBase vol ids tS sS mS nD ++ body
    Seq.rd L (4 + 4 * i) = some (ids[i] % 256) ∧ Seq.rd L (4 + 4 * i + 1) = some 0 ∧
    Seq.rd16 L (4 + 4 * i + 2) = some (off16 tS[i] dataBase) := by
  intro L
  have hL : L = (be16b dataBase ++ [vol % 256, ids.length % 256]) ++ _ := headerOf_eq ..
  have h4 : (be16b dataBase ++ [vol % 256, ids.length % 256]).length = 4 := by simp [be16b]
  have hz : i < (ids.zip tS).length := by simp [List.length_zip, h]; exact hi
  have key : ∀ j, j < 4 → L[4 + (4 * i + j)]? = (trackEntry dataBase (ids.zip tS)[i])[j]? := by
    intro j hj
    rw [hL]
    have := get_mid (be16b dataBase ++ [vol % 256, ids.length % 256]) ((ids.zip tS).flatMap (trackEntry dataBase))
      (((sS ++ mS).flatMap (slotEntry dataBase)) ++ (List.replicate (nD * 2) 0 ++ body)) (4 * i + j)
      (by rw [table_length]; omega)
    rw [h4] at this
    rw [this]
    exact flatMapK_get 4 _ (by intro a; simp [trackEntry, be16b]) _ i j hj hz
  have hzi : (ids.zip tS)[i] = (ids[i], tS[i]) := by simp
  refine ⟨?_, ?_, ?_⟩
  · have := key 0 (by omega); simp only [Nat.add_zero] at this
    simp [Seq.rd, this, hzi, trackEntry]
  · have := key 1 (by omega)
    have e : 4 + 4 * i + 1 = 4 + (4 * i + 1) := by omega
    simp [Seq.rd, e, this, hzi, trackEntry]
  · apply rd16_of_get _ _ _ (off16_lt _ _)
    · have := key 2 (by omega)
      have e : 4 + 4 * i + 2 = 4 + (4 * i + 2) := by omega
      simp [e, this, hzi, trackEntry, be16b]
    · have := key 3 (by omega)
      have e : 4 + 4 * i + 2 + 1 = 4 + (4 * i + 3) := by omega
      simp [e, this, hzi, trackEntry, be16b]

/-- pointer slot `k` of a stream -/
theorem header_slot (dataBase vol : Nat) (ids tS sS mS : List Nat) (nD : Nat) (body : List Nat)
    (h : tS.length = ids.length) (k : Nat) (hk : k < (sS ++ mS).length) :
    Seq.rd16 (headerOf dataBase vol ids tS sS mS nD ++ body) (4 + 4 * ids.length + 2 * k)
      = some (off16 (sS ++ mS)[k] dataBase) := by
  have hL := headerOf_eq dataBase vol ids tS sS mS nD body
  have h4 : (be16b dataBase ++ [vol % 256, ids.length % 256]).length = 4 := by simp [be16b]
  have hz : (ids.zip tS).length = ids.length := by simp [List.length_zip, h]
  have key : ∀ j, j < 2 → (headerOf dataBase vol ids tS sS mS nD ++ body)[4 + 4 * ids.length + (2 * k + j)]?
      = (slotEntry dataBase (sS ++ mS)[k])[j]? := by
    intro j hj
    rw [hL]
    rw [← List.append_assoc]
    have hpre : ((be16b dataBase ++ [vol % 256, ids.length % 256]) ++ (ids.zip tS).flatMap (trackEntry dataBase)).length
        = 4 + 4 * ids.length := by
      rw [List.length_append, h4, table_length, hz]
    have := get_mid ((be16b dataBase ++ [vol % 256, ids.length % 256]) ++ (ids.zip tS).flatMap (trackEntry dataBase))
      ((sS ++ mS).flatMap (slotEntry dataBase)) (List.replicate (nD * 2) 0 ++ body) (2 * k + j)
      (by rw [slots_length]; omega)
    rw [hpre] at this
    rw [this]
    exact flatMapK_get 2 _ (by intro a; simp [slotEntry, be16b]) _ k j hj hk
  apply rd16_of_get _ _ _ (off16_lt _ _)
  · have := key 0 (by omega); simpa [slotEntry, be16b] using this
  · have := key 1 (by omega)
    have e : 4 + 4 * ids.length + 2 * k + 1 = 4 + 4 * ids.length + (2 * k + 1) := by omega
    rw [e, this]; simp [slotEntry, be16b]

/-- pointer slot `k` of a data item is zero -/
theorem header_data_slot (dataBase vol : Nat) (ids tS sS mS : List Nat) (nD : Nat) (body : List Nat)
    (h : tS.length = ids.length) (k : Nat) (hk1 : (sS ++ mS).length ≤ k) (hk2 : k < (sS ++ mS).length + nD) :
    Seq.rd16 (headerOf dataBase vol ids tS sS mS nD ++ body) (4 + 4 * ids.length + 2 * k) = some 0 := by
  have hL := headerOf_eq dataBase vol ids tS sS mS nD body
  generalize sS ++ mS = sl at hL hk1 hk2
  have h4 : (be16b dataBase ++ [vol % 256, ids.length % 256]).length = 4 := by simp [be16b]
  have hz : (ids.zip tS).length = ids.length := by simp [List.length_zip, h]
  have key : ∀ j, j < 2 → (headerOf dataBase vol ids tS sS mS nD ++ body)[4 + 4 * ids.length + (2 * k + j)]? = some 0 := by
    intro j hj
    rw [hL, ← List.append_assoc, ← List.append_assoc]
    have hpre : (((be16b dataBase ++ [vol % 256, ids.length % 256]) ++ (ids.zip tS).flatMap (trackEntry dataBase))
        ++ sl.flatMap (slotEntry dataBase)).length = 4 + 4 * ids.length + 2 * sl.length := by
      rw [List.length_append, List.length_append, h4, table_length, hz, slots_length]
    have := get_mid (((be16b dataBase ++ [vol % 256, ids.length % 256]) ++ (ids.zip tS).flatMap (trackEntry dataBase))
        ++ sl.flatMap (slotEntry dataBase)) (List.replicate (nD * 2) 0) body (2 * (k - sl.length) + j)
      (by simp; omega)
    rw [hpre] at this
    have e : 4 + 4 * ids.length + (2 * k + j) = 4 + 4 * ids.length + 2 * sl.length + (2 * (k - sl.length) + j) := by omega
    rw [e, this]
    rw [List.getElem?_replicate]; simp; omega
  apply rd16_of_get _ _ _ (by omega)
  · have := key 0 (by omega); simpa using this
  · have := key 1 (by omega)
    have e : 4 + 4 * ids.length + 2 * k + 1 = 4 + 4 * ids.length + (2 * k + 1) := by omega
    rw [e, this]


/-! ## the constructor's assembly -/

/-- size of the header: `header_size` -/
def hdrSize (c : Conv) (n : Nat) : Nat := 4 + 4 * n + (c.subList.length + c.macroList.length + c.usedData.length) * 2

theorem assemble_ok {c : Conv} {tl : List (Nat × List MEv)} {vol : Option String} {b : Built}
    (h : assemble c tl vol = .ok b) :
    ∃ ts ss ms,
      encodeStreams (convertTrackChk c.subList.length c.macroList.length) (4 + 4 * tl.length) (hdrSize c tl.length) (tl.map (·.2)) = .ok ts ∧
      encodeStreams (convertTrackChk c.subList.length c.macroList.length) (4 + 4 * tl.length)
        (hdrSize c tl.length + ts.flatten.length) c.subList = .ok ss ∧
      encodeStreams convertMacroTrack (4 + 4 * tl.length) (hdrSize c tl.length + ts.flatten.length + ss.flatten.length) c.macroList = .ok ms ∧
      hdrSize c tl.length < 65536 ∧
      b.conv = c ∧ b.trackList = tl ∧ b.trackStreams = ts ∧ b.subStreams = ss ∧ b.macroStreams = ms ∧
      b.seq = headerOf (4 + 4 * tl.length) (volByte vol) (tl.map (·.1))
          (startsFrom (hdrSize c tl.length) ts)
          (startsFrom (hdrSize c tl.length + ts.flatten.length) ss)
          (startsFrom (hdrSize c tl.length + ts.flatten.length + ss.flatten.length) ms) c.usedData.length
        ++ ts.flatten ++ ss.flatten ++ ms.flatten := by
  unfold assemble at h
  simp only at h
  split at h
  · simp at h
  · rename_i hsz
    split at h
    · simp at h
    · rename_i ts hts
      split at h
      · simp at h
      · rename_i ss hss
        split at h
        · simp at h
        · rename_i ms hms
          simp only [Except.ok.injEq] at h
          subst h
          exact ⟨ts, ss, ms, hts, hss, hms, by unfold hdrSize; omega, rfl, rfl, rfl, rfl, rfl, rfl⟩


theorem take_flatten_le (bs : List (List Nat)) (i : Nat) : ((bs.take i).flatten).length ≤ bs.flatten.length := by
  have : bs.flatten = (bs.take i).flatten ++ (bs.drop i).flatten := by
    rw [← List.flatten_append, List.take_append_drop]
  rw [this, List.length_append]; omega

/-- the recorded start of stream `i`, turned into a 16-bit offset from `dataBase` and read back,
is the position where that stream begins -/
theorem stream_at (pre post : List Nat) (bs : List (List Nat)) (i : Nat) (hi : i < bs.length) (dataBase : Nat)
    (hdb : dataBase ≤ pre.length) (hfit : pre.length + ((bs.take i).flatten).length ≤ 65535 + dataBase) :
    ∃ st, (startsFrom pre.length bs)[i]? = some st ∧
      (pre ++ bs.flatten ++ post).drop (dataBase + off16 st dataBase) = bs[i] ++ ((bs.drop (i + 1)).flatten ++ post) := by
  refine ⟨pre.length + ((bs.take i).flatten).length, startsFrom_get _ _ _ hi, ?_⟩
  rw [off16_eq _ _ (by omega) (by omega)]
  exact drop_at_start pre post bs i hi

theorem volByte_lt (v : Option String) : volByte v < 256 := by
  unfold volByte
  split
  · omega
  · split
    · omega
    · simp only; split
      · omega
      · split <;> omega


/-! ## index check -/

theorem convertTrackChk_fits {nS nM : Nat} {es : List MEv} {bs : List Nat}
    (h : convertTrackChk nS nM es = .ok bs) : es.all (idxFits nS nM) = true ∧ convertTrack nS nM es = .ok bs := by
  unfold convertTrackChk at h
  split at h
  · rename_i hall
    refine ⟨hall, ?_⟩
    split at h
    · simp at h
    · rename_i b hb; simp at h; subst h; exact hb
  · split at h <;> simp at h

theorem encodeStreams_fits {nS nM : Nat} (base : Nat) :
    ∀ (pos : Nat) (es : List (List MEv)) (bs : List (List Nat)), encodeStreams (convertTrackChk nS nM) base pos es = .ok bs →
      ∀ l ∈ es, l.all (idxFits nS nM) = true
  | _, [], _, _, l, hl => by simp at hl
  | pos, e :: es, bs, h, l, hl => by
    simp only [encodeStreams] at h
    split at h
    · simp at h
    · split at h
      · simp at h
      · rename_i b hb
        split at h
        · simp at h
        · rename_i bs' hbs
          rcases List.mem_cons.mp hl with rfl | hl'
          · exact (convertTrackChk_fits hb).1
          · exact encodeStreams_fits base _ es bs' hbs l hl'

/-! ## the used-data map -/

/-- `used_data_map` numbers its keys 0, 1, 2, … in insertion order -/
def UsedOk (u : List (Nat × Nat)) : Prop := u.map (·.2) = List.range u.length

theorem usedOk_nil : UsedOk [] := rfl

/-- `get_envelope` keeps the numbering (the only place the map is written) -/
theorem usedOk_getEnvelope (c : Conv) (m : Nat) (h : UsedOk c.usedData) : UsedOk (getEnvelope c m).1.usedData := by
  unfold getEnvelope
  split
  · exact h
  · unfold UsedOk at *
    simp [h, List.range_succ]

theorem usedOk_nodup {u : List (Nat × Nat)} (h : UsedOk u) : (u.map (·.2)).Nodup := by
  rw [h]; exact List.nodup_range


/-! ## `get_mds` is the serialisation of a chunk tree -/

theorem wfL_of_forall : ∀ (ts : List Riff.Tree), (∀ t ∈ ts, t.wf) → Riff.Tree.wfL ts
  | [], _ => trivial
  | t :: ts, h => ⟨h t (by simp), wfL_of_forall ts (fun x hx => h x (by simp [hx]))⟩


def entryTree (nS nM : Nat) (mapped envId : Nat) (dat : List Nat) : Riff.Tree :=
  .chunk (if mapped < mdsFile_pcmTag then mdsFile_glob else mdsFile_pcmh) (le32 (entryId nS nM mapped envId) ++ toU8 dat)

def entryTrees (nS nM : Nat) (bank : List (List Nat)) : List (Nat × Nat) → Option (List Riff.Tree)
  | [] => some []
  | (mapped, envId) :: rest =>
    match bank[mapped % (mdsFile_bankMask + 1)]? with
    | none => none
    | some dat => (entryTrees nS nM bank rest).map (entryTree nS nM mapped envId dat :: ·)

def mdsTree (seq group pcm : Bytes) (entries : List Riff.Tree) : Riff.Tree :=
  .list Riff.TYPE_RIFF mdsFile_MDS0
    [.chunk mdsFile_ver (toU8 [MDSDRV_SEQ_VERSION_MAJOR, MDSDRV_SEQ_VERSION_MINOR]), .chunk mdsFile_grp group,
     .chunk mdsFile_seq seq, .list Riff.TYPE_LIST mdsFile_dblk entries, .chunk mdsFile_pcmd pcm]

theorem addEntries_buildL (nS nM : Nat) (bank : List (List Nat)) :
    ∀ (l : List (Nat × Nat)) (r r' : Riff.Riff), addEntries nS nM bank r l = .ok r' →
      ∃ ts, entryTrees nS nM bank l = some ts ∧ Riff.buildL r ts = .ok r' ∧ ts.length = l.length ∧
        ∀ t ∈ ts, ∃ p, t = .chunk mdsFile_glob p ∨ t = .chunk mdsFile_pcmh p
  | [], r, r', h => by
    simp [addEntries] at h; subst h
    exact ⟨[], rfl, rfl, rfl, by simp⟩
  | (mapped, envId) :: rest, r, r', h => by
    simp only [addEntries] at h
    split at h
    · simp at h
    · rename_i dat hdat
      split at h
      · simp at h
      · rename_i r1 hr1
        obtain ⟨ts, hts, hb, hl, hk⟩ := addEntries_buildL nS nM bank rest r1 r' h
        refine ⟨entryTree nS nM mapped envId dat :: ts, ?_, ?_, by simp [hl], ?_⟩
        · simp [entryTrees, hdat, hts]
        · simp only [Riff.buildL, entryTree, Riff.build]
          rw [hr1]; exact hb
        · intro t ht
          rcases List.mem_cons.mp ht with rfl | ht'
          · unfold entryTree; split
            · exact ⟨_, Or.inl rfl⟩
            · exact ⟨_, Or.inr rfl⟩
          · exact hk t ht'

theorem getMds_serialize {b : Built} {bank : List (List Nat)} {group pcm f : Bytes}
    (h : getMds b bank group pcm = .ok f) :
    ∃ ts, entryTrees b.conv.subList.length b.conv.macroList.length bank (usedSorted b.conv) = some ts ∧
      ts.length = b.conv.usedData.length ∧
      (∀ t ∈ ts, ∃ p, t = .chunk mdsFile_glob p ∨ t = .chunk mdsFile_pcmh p) ∧
      Riff.serialize (mdsTree (toU8 b.seq) group pcm ts) = .ok f := by
  unfold getMds at h
  simp only [bind, Except.bind, pure, Except.pure] at h
  have hl : ∀ (r : Riff.Riff) (c : Riff.Riff), Riff.isList r.type = true →
      liftRiff (Riff.addChunk r c) = .ok { r with data := Riff.pad r.data ++ be32 c.type ++ le32 c.data.length ++ c.data } := by
    intro r c hr; simp [Riff.addChunk, hr, liftRiff]
  have hR : Riff.isList Riff.TYPE_RIFF = true := by decide
  rw [hl _ _ (by simpa [Riff.mk3] using hR)] at h
  simp only at h
  rw [hl _ _ (by simpa [Riff.mk3] using hR)] at h
  simp only at h
  rw [hl _ _ (by simpa [Riff.mk3] using hR)] at h
  simp only at h
  split at h
  · simp at h
  · rename_i dblk hd
    obtain ⟨ts, hts, hb, hlen, hk⟩ := addEntries_buildL _ _ _ _ _ _ hd
    rw [hl _ _ (by simpa [Riff.mk3] using hR)] at h
    simp only at h
    rw [hl _ _ (by simpa [Riff.mk3] using hR)] at h
    simp only [Except.ok.injEq] at h
    refine ⟨ts, hts, ?_, hk, ?_⟩
    · rw [hlen]; unfold usedSorted; exact List.length_mergeSort _
    · subst h
      simp only [Riff.serialize, mdsTree, Riff.build, Riff.buildL, hb, Except.map]
      simp [Riff.addChunk, Riff.mk3, Riff.mk2, Riff.rewindPos, hR, Riff.isList]

end Ctrmml.MdsFile
