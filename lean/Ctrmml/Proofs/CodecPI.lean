/-
  Prefix independence of the encoder on the linear fragment: what `encEv` appends depends on the
  encoder state only through the two length registers, `lastType`, and whether the last emitted
  byte is `> 0x80` — not on the bytes emitted before, the break stack or the loop point.  This is
  the lemma that makes a two-pass (measure, then emit) formulation of the loop-break back-patch
  possible.
-/
import Ctrmml.Proofs.CodecLinear
namespace Ctrmml.Codec
open Ctrmml.Mds Ctrmml.Seq Tables

/-- two encoder states that `encEv` cannot tell apart -/
structure SimE (e e2 : Enc) : Prop where
  rest : e2.lastRest = e.lastRest
  note : e2.lastNote = e.lastNote
  type : e2.lastType = e.lastType
  last : noteish e.lastType = true → lastGt80 e2.out = lastGt80 e.out

theorem SimE.needLen {e e2 : Enc} (h : SimE e e2) : needLenB e2 = needLenB e := by
  unfold needLenB
  rw [h.type]
  cases hn : noteish e.lastType
  · rfl
  · rw [h.last hn]

/-- two runs, started in indistinguishable states, appended the same bytes, ended in
indistinguishable states, and the second kept its own loop point -/
structure Par (e e2 e' e2' : Enc) : Prop where
  sim : SimE e' e2'
  app : ∃ B, e'.out = e.out ++ B ∧ e2'.out = e2.out ++ B
  segno : e2'.segnoPos = e2.segnoPos

theorem Par.refl' {e e2 : Enc} (h : SimE e e2) : Par e e2 e e2 := ⟨h, ⟨[], by simp, by simp⟩, rfl⟩

theorem Par.trans {e e2 e1 e21 e' e2' : Enc} (h1 : Par e e2 e1 e21) (h2 : Par e1 e21 e' e2') : Par e e2 e' e2' := by
  obtain ⟨B1, a1, b1⟩ := h1.app
  obtain ⟨B2, a2, b2⟩ := h2.app
  exact ⟨h2.sim, ⟨B1 ++ B2, by rw [a2, a1, List.append_assoc], by rw [b2, b1, List.append_assoc]⟩,
    h2.segno.trans h1.segno⟩

theorem lastGt80_append_ne (l l2 : List Nat) {bs : List Nat} (h : bs ≠ []) :
    lastGt80 (l2 ++ bs) = lastGt80 (l ++ bs) := by
  rcases List.eq_nil_or_concat bs with rfl | ⟨t, b, rfl⟩
  · exact absurd rfl h
  · rw [List.concat_eq_append, ← List.append_assoc, ← List.append_assoc, lastGt80_concat, lastGt80_concat]

/-- both runs append `bs` and set their other fields alike; if nothing is appended the type must be
unchanged or not note-like (so that the last byte does not matter) -/
theorem Par.push {e e2 : Enc} (h : SimE e e2) {x x2 : Enc} (bs : List Nat)
    (ho : x.out = e.out ++ bs) (ho2 : x2.out = e2.out ++ bs) (hr : x2.lastRest = x.lastRest)
    (hn : x2.lastNote = x.lastNote) (ht : x2.lastType = x.lastType)
    (hsp : x2.segnoPos = e2.segnoPos)
    (hty : bs ≠ [] ∨ x.lastType = e.lastType ∨ noteish x.lastType = false) : Par e e2 x x2 := by
  refine ⟨⟨hr, hn, ht, ?_⟩, ⟨bs, ho, ho2⟩, hsp⟩
  intro hx
  rw [ho, ho2]
  by_cases hb : bs = []
  · subst hb
    rcases hty with h' | h' | h'
    · exact absurd rfl h'
    · simpa using h.last (h' ▸ hx)
    · rw [h'] at hx; cases hx
  · exact lastGt80_append_ne _ _ hb

/-- when something was appended, the last bytes agree unconditionally -/
theorem Par.last_of_grow {e e2 e' e2' : Enc} (p : Par e e2 e' e2') (hg : e.out.length < e'.out.length) :
    lastGt80 e2'.out = lastGt80 e'.out := by
  obtain ⟨B, a, b⟩ := p.app
  have hB : B ≠ [] := by
    intro h; subst h; rw [a] at hg; simp at hg
  rw [a, b]; exact lastGt80_append_ne _ _ hB

theorem disambP_par {e e2 : Enc} (h : SimE e e2) : Par e e2 (disambP e) (disambP e2) := by
  have hn := h.needLen
  unfold disambP
  rw [hn]
  by_cases hc : needLenB e = true
  · rw [if_pos hc, if_pos hc]
    exact Par.push h [e.lastNote % 256] rfl (by simp [h.note]) h.rest h.note rfl rfl (.inl (by simp))
  · rw [if_neg hc, if_neg hc]
    exact Par.refl' h

theorem restLoop_par : ∀ (fuel : Nat) (e e2 : Enc) (arg : Nat) (e' : Enc) (a : Nat), SimE e e2 →
    restLoop fuel e arg = .ok (e', a) → ∃ e2', restLoop fuel e2 arg = .ok (e2', a) ∧ Par e e2 e' e2' := by
  intro fuel
  induction fuel with
  | zero =>
    intro e e2 arg e' a h hr
    simp [restLoop] at hr; obtain ⟨rfl, rfl⟩ := hr
    exact ⟨e2, rfl, Par.refl' h⟩
  | succ f ih =>
    intro e e2 arg e' a h hr
    rw [restLoop_succ] at hr ⊢
    by_cases hc : arg ≥ 128
    · simp only [hc, if_true] at hr ⊢
      have p1 := disambP_par h
      have p2 : Par (disambP e) (disambP e2)
          { disambP e with out := (disambP e).out ++ [0x7f], lastRest := 0x7f }
          { disambP e2 with out := (disambP e2).out ++ [0x7f], lastRest := 0x7f } :=
        Par.push p1.sim [0x7f] rfl rfl rfl p1.sim.note p1.sim.type rfl (.inl (by simp))
      obtain ⟨e2', hr2, p3⟩ := ih _ _ _ _ _ p2.sim hr
      exact ⟨e2', hr2, (p1.trans p2).trans p3⟩
    · simp only [hc, if_false, Except.ok.injEq, Prod.mk.injEq] at hr ⊢
      obtain ⟨rfl, rfl⟩ := hr
      exact ⟨e2, ⟨rfl, rfl⟩, Par.refl' h⟩

theorem encRest_par {e e2 e' : Enc} {n : Nat} (h : SimE e e2) (hr : encRest e n = .ok e') :
    ∃ e2', encRest e2 n = .ok e2' ∧ Par e e2 e' e2' := by
  obtain ⟨e1, a, hrl⟩ := restLoop_ok 512 e (n - 1)
  obtain ⟨e21, hrl2, p1⟩ := restLoop_par 512 e e2 (n - 1) e1 a h hrl
  unfold encRest at hr ⊢
  rw [hrl] at hr
  rw [hrl2]
  simp only at hr ⊢
  rw [p1.sim.rest]
  by_cases hc : a = e1.lastRest
  · simp only [hc, if_true, Except.ok.injEq] at hr ⊢
    subst hr
    exact ⟨_, rfl, p1.trans (Par.push p1.sim [mds_REST] rfl rfl rfl p1.sim.note p1.sim.type rfl (.inl (by simp)))⟩
  · simp only [hc, if_false, disamb_eq, Except.ok.injEq] at hr ⊢
    subst hr
    have p2 := disambP_par p1.sim
    exact ⟨_, rfl, (p1.trans p2).trans (Par.push p2.sim [a % 256] rfl rfl rfl p2.sim.note p2.sim.type rfl (.inl (by simp)))⟩

theorem noteLoop_par : ∀ (fuel : Nat) (e e2 : Enc) (arg : Nat), SimE e e2 →
    Par e e2 (noteLoop fuel e arg).1 (noteLoop fuel e2 arg).1 ∧ (noteLoop fuel e2 arg).2 = (noteLoop fuel e arg).2 := by
  intro fuel
  induction fuel with
  | zero => intro e e2 arg h; exact ⟨Par.refl' h, by first | rfl | trivial⟩
  | succ f ih =>
    intro e e2 arg h
    rw [noteLoop_succ, noteLoop_succ, h.note]
    by_cases hc : arg ≥ 128
    · simp only [hc, if_true]
      by_cases hl : e.lastNote ≠ 0x7f
      · rw [if_pos hl, if_pos hl]
        have p1 : Par e e2 { e with lastNote := 0x7f, out := e.out ++ [0x7f] ++ [mds_TIE] }
            { e2 with lastNote := 0x7f, out := e2.out ++ [0x7f] ++ [mds_TIE] } :=
          Par.push h [0x7f, mds_TIE] (by simp) (by simp) h.rest rfl h.type rfl (.inl (by simp))
        obtain ⟨p2, ha⟩ := ih _ _ (arg - 128) p1.sim
        exact ⟨p1.trans p2, ha⟩
      · rw [if_neg hl, if_neg hl]
        have p1 : Par e e2 { e with lastNote := 0x7f, out := e.out ++ [mds_TIE] }
            { e2 with lastNote := 0x7f, out := e2.out ++ [mds_TIE] } :=
          Par.push h [mds_TIE] rfl rfl h.rest rfl h.type rfl (.inl (by simp))
        obtain ⟨p2, ha⟩ := ih _ _ (arg - 128) p1.sim
        exact ⟨p1.trans p2, ha⟩
    · simp only [hc, if_false]
      exact ⟨Par.refl' h, trivial⟩

theorem encNote_par {e e2 : Enc} (ty n : Nat) (h : SimE e e2) : Par e e2 (encNote e ty n) (encNote e2 ty n) := by
  obtain ⟨e1, a, hnl, henc⟩ := encNote_eq e ty n
  obtain ⟨e21, a2, hnl2, henc2⟩ := encNote_eq e2 ty n
  have p0 : Par e e2 { e with out := e.out ++ [ty] } { e2 with out := e2.out ++ [ty] } :=
    Par.push h [ty] rfl rfl h.rest h.note h.type rfl (.inl (by simp))
  obtain ⟨p1, ha⟩ := noteLoop_par 512 _ _ (n - 1) p0.sim
  rw [hnl, hnl2] at p1 ha
  simp only at p1 ha
  subst ha
  rw [henc, henc2, p1.sim.note]
  by_cases hc : a2 ≠ e1.lastNote
  · rw [if_pos hc, if_pos hc]
    exact (p0.trans p1).trans (Par.push p1.sim [a2 % 256] rfl rfl p1.sim.rest rfl p1.sim.type rfl (.inl (by simp)))
  · rw [if_neg hc, if_neg hc]
    exact p0.trans p1

/-! ### `encEv` in closed form per event kind -/

theorem encEv_rest_eq (nS nM : Nat) {e e1 : Enc} {arg : Nat} (ha : arg ≠ 0) (h : encRest e arg = .ok e1) :
    encEv nS nM e ⟨mds_REST, arg⟩ = .ok { e1 with lastType := mds_REST } := by
  have a9 : ¬ (mds_REST = mds_LPB) := by decide
  simp [encEv, ha, h, a9]

theorem encEv_note_eq (nS nM : Nat) (e : Enc) {ty arg : Nat} (h1 : mds_TIE ≤ ty) (h2 : ty < mds_SLR) (ha : arg ≠ 0) :
    encEv nS nM e ⟨ty, arg⟩ = .ok { encNote e ty arg with lastType := ty } := by
  have a0 : ¬ ty = mds_REST := by simp [mds_REST, mds_TIE] at *; omega
  have a9 : ¬ ty = mds_LPB := by simp [mds_LPB, mds_SLR] at *; omega
  simp only [encEv, a9, a0, ha, h2, if_false, if_true, and_self, ne_eq, not_false_eq_true, false_and, or_true]

/-- a command event of the linear fragment appends bytes that do not depend on the state -/
theorem encEv_cmd_form (nS nM : Nat) {ty : Nat} (arg : Nat) (h : ty = mds_SLR ∨ isCmdOp ty = true) :
    ∃ bs, ∀ e : Enc, encEv nS nM e ⟨ty, arg⟩ = .ok { e with out := e.out ++ bs, lastType := ty } := by
  rcases h with rfl | hcmd
  · exact ⟨[mds_SLR], fun e => encEv_other (Nat.le_refl _) (encOther_slr nS nM e arg)⟩
  · simp only [isCmdOp, Bool.or_eq_true, Bool.and_eq_true, beq_iff_eq, bne_iff_ne] at hcmd
    rcases hcmd with ((((⟨hb, _⟩ | hw) | rfl) | rfl) | rfl) | rfl
    · have all : ∀ x ∈ byteArgOps, x ≥ mds_SLR := by decide
      exact ⟨_, fun e => encEv_other (all ty (by simpa using hb)) (encOther_byte nS nM e arg hb)
        (by rintro ⟨h, _⟩; subst h; exact absurd hb (by decide))⟩
    · have all : ∀ x ∈ wordArgOps, x ≥ mds_SLR := by decide
      exact ⟨_, fun e => encEv_other (all ty (by simpa using hw)) (encOther_word nS nM e arg hw)
        (by rintro ⟨h, _⟩; subst h; exact absurd hw (by decide))⟩
    · exact ⟨_, fun e => encEv_other (by decide) (encOther_ins nS nM e arg (.inl rfl))⟩
    · exact ⟨_, fun e => encEv_other (by decide) (encOther_ins nS nM e arg (.inr rfl))⟩
    · exact ⟨_, fun e => encEv_other (by decide) (encOther_peg nS nM e arg)⟩
    · exact ⟨_, fun e => encEv_other (by decide) (encOther_mtab nS nM e arg)⟩

/-- **prefix independence of one linear event** -/
theorem encEv_par (nS nM : Nat) {e e2 e' : Enc} {ev : MEv} (hv : linEv ev = true) (h : SimE e e2)
    (he : encEv nS nM e ev = .ok e') : ∃ e2', encEv nS nM e2 ev = .ok e2' ∧ Par e e2 e' e2' := by
  obtain ⟨ty, arg⟩ := ev
  simp only [linEv, Bool.or_eq_true, Bool.and_eq_true, beq_iff_eq, decide_eq_true_eq] at hv
  rcases hv with (((⟨⟨hty, h1⟩, h2⟩ | ⟨⟨⟨h1, h2⟩, h3⟩, h4⟩) | hslr) | hcmd) | ⟨hz, ha⟩
  rotate_right
  · subst ha
    rw [encEv_zero nS nM e hz] at he
    injection he with he; subst he
    exact ⟨e2, encEv_zero nS nM e2 hz, Par.refl' h⟩
  · subst hty
    have a1 : arg ≠ 0 := by omega
    obtain ⟨e1, he1⟩ := encRest_ok e arg
    obtain ⟨e21, he21, p⟩ := encRest_par h he1
    rw [encEv_rest_eq nS nM a1 he1] at he
    injection he with he; subst he
    refine ⟨_, encEv_rest_eq nS nM a1 he21, ?_⟩
    exact p.trans (Par.push p.sim [] (by simp) (by simp) p.sim.rest p.sim.note rfl rfl (.inr (.inr (show noteish mds_REST = false by decide))))
  · have a1 : arg ≠ 0 := by omega
    rw [encEv_note_eq nS nM e h1 h2 a1] at he
    injection he with he; subst he
    refine ⟨_, encEv_note_eq nS nM e2 h1 h2 a1, ?_⟩
    have p := encNote_par ty arg h
    have hg : e.out.length < (encNote e ty arg).out.length := by
      have := (encNote_frame e ty arg).1.length_le; simp at this; omega
    exact ⟨⟨p.sim.rest, p.sim.note, rfl, fun _ => p.last_of_grow hg⟩, p.app, p.segno⟩
  · obtain ⟨bs, hbs⟩ := encEv_cmd_form nS nM arg (.inl hslr)
    rw [hbs e] at he
    injection he with he; subst he
    exact ⟨_, hbs e2, Par.push h bs rfl rfl h.rest h.note rfl rfl (.inr (.inr (show noteish ty = false by subst hslr; decide)))⟩
  · obtain ⟨bs, hbs⟩ := encEv_cmd_form nS nM arg (.inr hcmd)
    have hnn : noteish ty = false := by
      have hc := hcmd
      simp only [isCmdOp, Bool.or_eq_true, Bool.and_eq_true, beq_iff_eq, bne_iff_ne] at hc
      rcases hc with ((((⟨hb, _⟩ | hw) | rfl) | rfl) | rfl) | rfl
      · have all : ∀ x ∈ byteArgOps, noteish x = false := by decide
        exact all ty (by simpa using hb)
      · have all : ∀ x ∈ wordArgOps, noteish x = false := by decide
        exact all ty (by simpa using hw)
      all_goals decide
    rw [hbs e] at he
    injection he with he; subst he
    exact ⟨_, hbs e2, Par.push h bs rfl rfl h.rest h.note rfl rfl (.inr (.inr hnn))⟩

end Ctrmml.Codec
