/-
  Helper lemmas for C06 (no property statements here): a `Track` modulo the source references.

  `parse_mml_track` stamps every command with `set_reference(get_reference())` (line, column), and
  every event keeps the reference current at its `add_event`.  Two layouts of the same commands
  necessarily differ in these stamps and in nothing else; `Track.strip` erases them, and every
  builder call of the covered command subset commutes with it (`strip_cmdTrack`).
-/
import Ctrmml.Proofs.ReaderLine
namespace Ctrmml.TrackBuilder
open Ctrmml.Tables Ctrmml.Lexer

/-- an event without its source reference -/
def BEvent.strip (e : BEvent) : BEvent := { e with ref := none }

/-- a track without source references: `reference` and the `ref` of every event erased -/
def Track.strip (t : Track) : Track :=
  { t with reference := none, revEvents := t.revEvents.map BEvent.strip }

@[simp] theorem BEvent.strip_type (e : BEvent) : e.strip.type = e.type := rfl
@[simp] theorem BEvent.strip_on (e : BEvent) : e.strip.on = e.on := rfl
@[simp] theorem BEvent.strip_off (e : BEvent) : e.strip.off = e.off := rfl
@[simp] theorem BEvent.strip_toEvent (e : BEvent) : e.strip.toEvent = e.toEvent := rfl
@[simp] theorem BEvent.strip_strip (e : BEvent) : e.strip.strip = e.strip := rfl

theorem Track.strip_strip (t : Track) : t.strip.strip = t.strip := by
  simp [Track.strip, Function.comp_def]

/-- the events as `Track::get_events()` shows them do not contain references -/
theorem Track.strip_getEvents (t : Track) : t.strip.getEvents = t.getEvents := by
  simp [Track.strip, Track.getEvents, Track.events, Function.comp_def, List.map_reverse]

theorem Track.strip_setReference (t : Track) (r : Option Ref) : (t.setReference r).strip = t.strip := rfl

theorem Track.strip_new (ppqn : Nat) : (Track.new ppqn).strip = Track.new ppqn := rfl

theorem Track.strip_addEvent (t : Track) (ty : Nat) (p : Int) (a b : UInt16) :
    (t.addEvent ty p a b).strip = t.strip.addEvent ty p a b := rfl

theorem Track.strip_onTime (t : Track) (d : UInt16) : t.strip.onTime d = t.onTime d := rfl
theorem Track.strip_offTime (t : Track) (d : UInt16) : t.strip.offTime d = t.offTime d := rfl

theorem Track.strip_addNote (t : Track) (n : Int) (d : UInt16) : (t.addNote n d).strip = t.strip.addNote n d := by
  simp [Track.addNote, Track.strip, Track.addEvent, Track.flipShuffle, Track.pushEchoNote, Track.notePitch,
    Track.inDrumMode, Track.addShuffle, Track.getDuration, Track.onTime, Track.offTime, BEvent.strip]

theorem Track.strip_addRest (t : Track) (d : UInt16) : (t.addRest d).strip = t.strip.addRest d := by
  simp [Track.addRest, Track.strip, Track.addEvent, Track.flipShuffle, Track.pushEchoNote,
    Track.addShuffle, Track.getDuration, BEvent.strip]

theorem map_modify_strip (l : List BEvent) (i : Nat) (f : BEvent → BEvent)
    (hf : ∀ e, (f e).strip = f e.strip) : (l.modify i f).map BEvent.strip = (l.map BEvent.strip).modify i f := by
  induction l generalizing i with
  | nil => simp
  | cons e es ih =>
    cases i with
    | zero => simp [hf]
    | succ i => simp [ih]

theorem Track.strip_modifyAt (t : Track) (p : Nat) (f : BEvent → BEvent) (hf : ∀ e, (f e).strip = f e.strip) :
    (t.modifyAt p f).strip = t.strip.modifyAt p f := by
  simp [Track.modifyAt, Track.strip, map_modify_strip _ _ f hf]

theorem Track.strip_addTie (t : Track) (d : UInt16) : (t.addTie d).strip = t.strip.addTie d := by
  unfold Track.addTie
  have hl : t.strip.flipShuffle.lastNotePos = t.flipShuffle.lastNotePos := rfl
  have hlen : t.strip.flipShuffle.revEvents.length = t.flipShuffle.revEvents.length := by
    simp [Track.strip, Track.flipShuffle]
  have hget : ∀ i : Nat, t.strip.flipShuffle.revEvents[i]? = (t.flipShuffle.revEvents[i]?).map BEvent.strip := by
    intro i; simp [Track.strip, Track.flipShuffle]
  have hfs : t.strip.flipShuffle = t.flipShuffle.strip := rfl
  have hsh : t.strip.addShuffle (t.strip.getDuration d) = t.addShuffle (t.getDuration d) := rfl
  simp only [hsh, hl]
  cases hp : t.flipShuffle.lastNotePos with
  | none =>
    simp only [hfs]
    rfl
  | some p =>
    simp only [hlen, hget]
    by_cases h1 : p ≥ t.flipShuffle.revEvents.length
    · simp only [h1, if_true]; rfl
    · simp only [h1, if_false]
      cases hg : t.flipShuffle.revEvents[t.flipShuffle.revEvents.length - 1 - p]? with
      | none => simp only [Option.map_none]; rfl
      | some last =>
        simp only [Option.map_some, BEvent.strip_on, BEvent.strip_off, hfs, Track.strip_onTime, Track.strip_offTime]
        by_cases h2 : p + 1 = t.flipShuffle.revEvents.length
        · simp only [h2, if_true]
          exact Track.strip_modifyAt _ _ _ (fun e => rfl)
        · simp only [h2, if_false]
          by_cases h3 : t.flipShuffle.onTime (last.on + last.off + t.addShuffle (t.getDuration d)) > last.on + last.off
          · simp only [h3, if_true]
            rw [Track.strip_addEvent]
            congr 1
            show ({ (t.flipShuffle.modifyAt p _) with lastNotePos := _ } : Track).strip = _
            have := Track.strip_modifyAt t.flipShuffle p (fun e => { e with on := last.on + last.off, off := 0 }) (fun e => rfl)
            rw [← this]
            rfl
          · simp only [h3, if_false]
            rw [Track.strip_addEvent]
            congr 1
            have := Track.strip_modifyAt t.flipShuffle p
              (fun e => { e with on := t.flipShuffle.onTime (last.on + last.off + t.addShuffle (t.getDuration d)),
                                 off := last.on + last.off - t.flipShuffle.onTime (last.on + last.off + t.addShuffle (t.getDuration d)) })
              (fun e => rfl)
            rw [← this]
            rfl

theorem slurBack_strip (l : List BEvent) :
    Track.slurBack (l.map BEvent.strip) = (Track.slurBack l).map (·.map BEvent.strip) := by
  induction l with
  | nil => rfl
  | cons e es ih =>
    simp only [List.map_cons, Track.slurBack, BEvent.strip_type, BEvent.strip_on, BEvent.strip_off]
    by_cases h1 : e.type = ev_NOTE ∨ e.type = ev_TIE
    · simp only [h1, if_true]; rfl
    · simp only [h1, if_false]
      by_cases h2 : e.type = ev_REST ∨ e.type = ev_SEGNO ∨ e.type = ev_LOOP_END
      · simp only [h2, if_true]; rfl
      · simp only [h2, if_false]
        rw [ih]
        cases Track.slurBack es <;> rfl

theorem Track.strip_addSlur (t : Track) : t.addSlur.1.strip = t.strip.addSlur.1 ∧ t.strip.addSlur.2 = t.addSlur.2 := by
  unfold Track.addSlur
  have h : (t.strip.addEvent ev_SLUR).revEvents = (t.addEvent ev_SLUR).revEvents.map BEvent.strip := rfl
  simp only [h, slurBack_strip]
  cases Track.slurBack (t.addEvent ev_SLUR).revEvents with
  | none => exact ⟨rfl, rfl⟩
  | some l => exact ⟨rfl, rfl⟩

theorem rrBack_strip (d : UInt16) (l : List BEvent) :
    Track.rrBack d (l.map BEvent.strip) = ((Track.rrBack d l).1, (Track.rrBack d l).2.map BEvent.strip) := by
  induction l with
  | nil => rfl
  | cons e es ih =>
    simp only [List.map_cons, Track.rrBack, BEvent.strip_type, BEvent.strip_on, BEvent.strip_off]
    by_cases h1 : e.type = ev_NOTE ∨ e.type = ev_TIE ∨ e.type = ev_REST
    · simp only [h1, if_true]
      by_cases h2 : d > e.off
      · simp only [h2, if_true]
        by_cases h3 : d - e.off < e.on
        · simp only [h3, if_true]; rfl
        · simp only [h3, if_false]; rfl
      · simp only [h2, if_false]; rfl
    · simp only [h1, if_false]
      by_cases h2 : e.type = ev_SEGNO ∨ e.type = ev_LOOP_END
      · simp only [h2, if_true]; rfl
      · simp only [h2, if_false, ih]; rfl

theorem Track.strip_reverseRest (t : Track) (d : UInt16) :
    (t.reverseRest d).1.strip = (t.strip.reverseRest d).1 ∧ (t.strip.reverseRest d).2 = (t.reverseRest d).2 := by
  unfold Track.reverseRest
  have h : t.strip.flipShuffle.revEvents = t.flipShuffle.revEvents.map BEvent.strip := rfl
  simp only [h, rrBack_strip]
  exact ⟨rfl, trivial⟩

theorem Track.strip_setQuantize (t : Track) (p parts : UInt16) :
    (t.setQuantize p parts).1.strip = (t.strip.setQuantize p parts).1 := by
  unfold Track.setQuantize
  split <;> rfl

end Ctrmml.TrackBuilder

namespace Ctrmml.Mml
open Ctrmml.Tables Ctrmml.Lexer Ctrmml.TrackBuilder
open Ctrmml.MmlMeaning (Num Dur Acc Cmd)

theorem durVal_strip (t : Track) (d : Dur) : durVal t.strip d = durVal t d := by cases d <;> rfl
theorem noteVal_strip (t : Track) (l : Nat) (a : Acc) : noteVal t.strip l a = noteVal t l a := by cases a <;> rfl

/-- every builder call of the covered subset commutes with erasing the references -/
theorem strip_cmdTrack (t : Track) (cmd : Cmd) : (cmdTrack t cmd).strip = cmdTrack t.strip cmd := by
  cases cmd <;> simp only [cmdTrack, durVal_strip, noteVal_strip]
  case note l a d => exact Track.strip_addNote _ _ _
  case rest d => exact Track.strip_addRest _ _
  case tie d => exact Track.strip_addTie _ _
  case slur => exact (Track.strip_addSlur t).1
  case quantize n => exact Track.strip_setQuantize _ _ _
  all_goals rfl

/-- … and the side conditions on a command's numbers do not look at references -/
theorem cmdNums_strip (t : Track) (cmd : Cmd) : CmdNums t.strip cmd ↔ CmdNums t cmd := by
  cases cmd <;> simp only [CmdNums]
  case slur => rw [(Track.strip_addSlur t).2]

end Ctrmml.Mml
