/-
  C02 helper: `MDSDRV_Track_Writer` as a left fold over the hook calls it is shown.
  * `runWriter` along a recorded run of the control machine (`WTrace.stepsV`): hidden hook calls
    change nothing, a shown hook call is `hookVis` on the prepared writer state;
  * `hookVis` on the events of the plain fragment (no drum mode, no platform command, no macro
    track): what is pushed (`Body`), as a function of the event except for the three operands that
    come out of the conversion state (subroutine index, instrument / pitch-envelope index);
  * the whole writer run on a well-formed plain track: `Emits` of its events, the pending rest, the
    terminator chosen by `end_hook`.
-/
import Ctrmml.Proofs.WriterTrace
import Ctrmml.Proofs.MdsInd
import Ctrmml.Proofs.Validator
namespace Ctrmml.WFold
open Ctrmml Ctrmml.Player Ctrmml.Mds Ctrmml.WTrace Ctrmml.Refine Ctrmml.Expand Ctrmml.Tree Tables

/-! ### the rest bookkeeping -/

def flushL (r : Nat) : List MEv := if r ≠ 0 then [⟨mds_REST, r⟩] else []

theorem flushRest_eq (w : WState) : flushRest w = { w with out := w.out ++ flushL w.restTime, restTime := 0 } := by
  unfold flushRest flushL
  split
  · rfl
  · rename_i h
    have h0 : w.restTime = 0 := by simpa using h
    cases w; simp_all

/-- `prep` on the pending rest: what is flushed in front of the event, and the new pending rest -/
def prepA (r : Nat) (it : TraceItem) : List MEv × Nat := if it.ev.type ≠ ev_REST then (flushL r, 0) else ([], r)
def prepB (r : Nat) (it : TraceItem) : List MEv × Nat := if r + it.off > 0xffff then (flushL r, 0) else ([], r)
def prepR (r : Nat) (it : TraceItem) : List MEv × Nat :=
  ((prepA r it).1 ++ (prepB (prepA r it).2 it).1, ((prepB (prepA r it).2 it).2 + it.off) % 65536)

theorem prep_eq (w : WState) (it : TraceItem) :
    prep w it = { w with out := w.out ++ (prepR w.restTime it).1, restTime := (prepR w.restTime it).2 } := by
  unfold prep prepR prepA prepB
  by_cases h1 : it.ev.type ≠ ev_REST
  · simp only [h1, ne_eq, not_false_eq_true, if_true, flushRest_eq]
    by_cases h2 : 0 + it.off > 0xffff
    · have h2' : it.off > 0xffff := by omega
      simp [h2, h2', flushL]
    · have h2' : ¬ it.off > 0xffff := by omega
      simp [h2, h2']
  · simp only [h1, if_false]
    by_cases h2 : w.restTime + it.off > 0xffff
    · simp [h2, flushRest_eq]
    · simp [h2]

theorem prepR_lt (r : Nat) (it : TraceItem) : (prepR r it).2 < 65536 := by
  unfold prepR; simp only; omega

/-! ### the plain fragment -/

/-- events outside the fragment: notes outside the MDSDRV range (the writer refuses them; in drum
mode the same range is the oracle's domain for routine numbers).  (Until round 5 also: pitch
envelope on.) -/
def SimpleEv (e : Event) : Prop :=
  e.type = ev_NOTE → 0 ≤ e.param ∧ e.param < 94

/-- what a writer's hook looks up outside its own state: the subroutine map, the macro-track map,
the platform commands of the song, the size of `used_data_map` (every envelope index handed out
so far is below it) -/
structure WCtx where
  sub : List (Int × Nat)
  mac : List (Int × Nat)
  plat : List (Int × Option (List MEv))
  used : Nat

/-- the maps only grow -/
def WCtx.le (a b : WCtx) : Prop :=
  (∀ p ∈ a.sub, p ∈ b.sub) ∧ (∀ p ∈ a.mac, p ∈ b.mac) ∧ a.plat = b.plat ∧ a.used ≤ b.used

theorem WCtx.le_refl (a : WCtx) : a.le a := ⟨fun _ h => h, fun _ h => h, rfl, Nat.le_refl _⟩
theorem WCtx.le_trans {a b c : WCtx} (h1 : a.le b) (h2 : b.le c) : a.le c :=
  ⟨fun p h => h2.1 p (h1.1 p h), fun p h => h2.2.1 p (h1.2.1 p h), h1.2.2.1.trans h2.2.2.1, Nat.le_trans h1.2.2.2 h2.2.2.2⟩

def ctxOf (d : DataInfo) (c : Conv) : WCtx := ⟨c.subMap, c.macroMap, d.platform, c.usedData.length⟩

theorem ctxOf_le (d : DataInfo) {c c' : Conv} (h : SubMono c c') : (ctxOf d c).le (ctxOf d c') := ⟨h.1, h.2.1, rfl, h.2.2⟩

/-- the writer's drum-mode state after an event -/
def dAfter (d : Bool) (it : TraceItem) : Bool :=
  if it.ev.type = ev_DRUM_MODE then decide (it.ev.param ≠ 0) else d

def dAfterL (d : Bool) : List TraceItem → Bool
  | [] => d
  | it :: its => dAfterL (dAfter d it) its

theorem dAfterL_append (d : Bool) (a b : List TraceItem) : dAfterL d (a ++ b) = dAfterL (dAfterL d a) b := by
  induction a generalizing d with
  | nil => rfl
  | cons x a ih => simp [dAfterL, ih]

/-- what a shown hook call pushes, where that is a function of the event and of the writer's
drum-mode state `d` -/
def detBody (d : Bool) (it : TraceItem) : Option (List MEv) :=
  let p := it.ev.param
  if it.ev.type = ev_TIE then some [⟨mds_TIE, u16 it.on⟩]
  else if it.ev.type = ev_NOTE then
    (if d = true then none else if 0 ≤ p ∧ p < 94 then some [⟨mds_NOTE + p.toNat, u16 it.on⟩] else none)
  else if it.ev.type = ev_LOOP_START then some [⟨mds_LP, 0⟩]
  else if it.ev.type = ev_LOOP_BREAK then some [⟨mds_LPB, 0⟩]
  else if it.ev.type = ev_LOOP_END then some [⟨mds_LPF, u16 p⟩]
  else if it.ev.type = ev_SEGNO then some [⟨mds_SEGNO, 0⟩]
  else if it.ev.type = ev_JUMP then none
  else if it.ev.type = ev_SLUR then some [⟨mds_SLR, 0⟩]
  else if it.ev.type = ev_PLATFORM then none
  else if it.ev.type = ev_TRANSPOSE_REL then some [⟨mds_TRSM, u16 p⟩]
  else if it.ev.type = ev_VOL then some [⟨mds_VOL, u16 (Int.ofNat (u16 p ||| 0x80))⟩]
  else if it.ev.type = ev_VOL_REL ∨ it.ev.type = ev_VOL_FINE_REL then some [⟨mds_VOLM, u16 p⟩]
  else if it.ev.type = ev_TEMPO_BPM then some [⟨mds_TEMPO, u16 (bpmToDelta (u16 p))⟩]
  else if it.ev.type = ev_INS then none
  else if it.ev.type = ev_TRANSPOSE then some [⟨mds_TRS, u16 p⟩]
  else if it.ev.type = ev_DETUNE then some [⟨mds_DTN, u16 p⟩]
  else if it.ev.type = ev_VOL_FINE then some [⟨mds_VOL, u16 (Int.ofNat (u16 p &&& 0x7f))⟩]
  else if it.ev.type = ev_PAN then some [⟨mds_PAN, u16 (p * 64)⟩]
  else if it.ev.type = ev_PAN_ENVELOPE then (if p = 0 then some [⟨mds_MTAB, 0⟩] else none)
  else if it.ev.type = ev_PITCH_ENVELOPE then (if p = 0 then some [⟨mds_PEG, 0⟩] else none)
  else if it.ev.type = ev_PORTAMENTO then some [⟨mds_PTA, u16 p⟩]
  else if it.ev.type = ev_DRUM_MODE then some [⟨mds_FLG, if p ≠ 0 then 8 else 0⟩]
  else if it.ev.type = ev_TEMPO then some [⟨mds_TEMPO, u16 p⟩]
  else some []

/-- what a shown hook call pushes; `x` = where the index of a call, of a drum routine or of a macro
track and the events of a platform command are looked up, `d` = the writer's drum-mode state -/
inductive Body (x : WCtx) (d : Bool) (it : TraceItem) : List MEv → Prop
  | det {ms : List MEv} : detBody d it = some ms → Body x d it ms
  | jump {k : Nat} : it.ev.type = ev_JUMP → (subKey it.ev.param false d, k) ∈ x.sub → Body x d it [⟨mds_PAT, u16 (k : Int)⟩]
  | ins {ty i : Nat} : it.ev.type = ev_INS → (ty = mds_INS ∨ ty = mds_PCM) → Body x d it [⟨ty, u16 (i : Int)⟩]
  /-- a note in drum mode: the note byte carries the index of the routine -/
  | dnote {k q : Nat} : it.ev.type = ev_NOTE → d = true → (subKey it.ev.param true false, k) ∈ x.sub →
      (q : Int) = (if wrap16 (k : Int) < 0 then 0 else wrap16 (k : Int)) → q < 94 →
      Body x d it [⟨mds_NOTE + q, u16 it.on⟩]
  /-- a platform command: the events `parse_platform_event` made of its text -/
  | plat {evs : List MEv} : it.ev.type = ev_PLATFORM → x.plat.lookup it.ev.param = some (some evs) → Body x d it evs
  /-- a macro track (pan envelope on): its index + 1 -/
  | mtab {k : Nat} : it.ev.type = ev_PAN_ENVELOPE → it.ev.param ≠ 0 → (it.ev.param, k) ∈ x.mac →
      Body x d it [⟨mds_MTAB, u16 (wrap16 ((k : Int) + 1))⟩]
  /-- a pitch envelope switched on: its index in `used_data_map` (an index handed out, hence below the
  map's size) + 1 -/
  | peg {i : Nat} : it.ev.type = ev_PITCH_ENVELOPE → it.ev.param ≠ 0 → i < x.used →
      Body x d it [⟨mds_PEG, u16 (wrap16 ((i : Int) + 1))⟩]

theorem Body.mono {x x' : WCtx} (hx : x.le x') {d : Bool} {it : TraceItem} {ms : List MEv}
    (h : Body x d it ms) : Body x' d it ms := by
  cases h with
  | det h => exact .det h
  | jump h1 h2 => exact .jump h1 (hx.1 _ h2)
  | ins h1 h2 => exact .ins h1 h2
  | dnote h1 h2 h3 h4 h5 => exact .dnote h1 h2 (hx.1 _ h3) h4 h5
  | plat h1 h2 => exact .plat h1 (by rw [← hx.2.2.1]; exact h2)
  | mtab h1 h2 h3 => exact .mtab h1 h2 (hx.2.1 _ h3)
  | peg h1 h2 h3 => exact .peg h1 h2 (Nat.lt_of_lt_of_le h3 hx.2.2.2)

/-- the writer's event list for a list of shown hook calls: drum-mode state `d`, pending rest `r`,
loop point seen `g` -/
inductive Emits (x : WCtx) : Bool → Nat → Bool → List TraceItem → List MEv → Nat → Bool → Prop
  | nil (d : Bool) (r : Nat) (g : Bool) : Emits x d r g [] [] r g
  | cons {d : Bool} {r : Nat} {g : Bool} {it : TraceItem} {its : List TraceItem} {b ms : List MEv} {r' : Nat} {g' : Bool} :
      Body x d it b → Emits x (dAfter d it) (prepR r it).2 (g || it.ev.type == ev_SEGNO) its ms r' g' →
      Emits x d r g (it :: its) ((prepR r it).1 ++ b ++ ms) r' g'

theorem Emits.mono {x x' : WCtx} (hx : x.le x') {d : Bool} {r : Nat} {g : Bool} {its : List TraceItem}
    {ms : List MEv} {r' : Nat} {g' : Bool} (h : Emits x d r g its ms r' g') : Emits x' d r g its ms r' g' := by
  induction h with
  | nil d r g => exact .nil d r g
  | cons hb _ ih => exact .cons (hb.mono hx) ih

/-- the writer state after a shown hook call that pushed `ms` -/
def pushed (w : WState) (it : TraceItem) (ms : List MEv) : WState :=
  { w with out := w.out ++ ms, inLoop := w.inLoop || (it.ev.type == ev_SEGNO), drumEnabled := dAfter w.drumEnabled it }

set_option hygiene false in
/-- a branch of `hookVis` that pushes one event determined by the hook's event -/
macro "det_case" : tactic => `(tactic| (
  simp only [Option.some.injEq] at h
  subst h
  simp +decide [Mds.push, t, u16, dAfter]
  try rfl))

theorem hookVis_det {song : Song} {d : DataInfo} {n : Nat} {c : Conv} {w : WState} {it : TraceItem} {ms : List MEv}
    (hi : w.inDrum = false ∨ it.ev.type ≠ ev_NOTE) (h : detBody w.drumEnabled it = some ms) :
    hookVis song d n c w it = .ok (c, pushed w it ms) := by
  unfold detBody at h
  unfold hookVis pushed
  simp only at h
  by_cases t : it.ev.type = ev_TIE
  · rw [if_pos t] at h ⊢; det_case
  rw [if_neg t] at h ⊢; clear t
  by_cases t : it.ev.type = ev_NOTE
  · rw [if_pos t] at h ⊢
    have hi' : w.inDrum = false := by
      rcases hi with hi | hi
      · exact hi
      · exact absurd t hi
    by_cases hd : w.drumEnabled = true
    · rw [if_pos hd] at h; cases h
    rw [if_neg hd] at h
    have hd' : w.drumEnabled = false := by simpa using hd
    by_cases hp : 0 ≤ it.ev.param ∧ it.ev.param < 94
    · rw [if_pos hp] at h
      simp only [Option.some.injEq] at h
      subst h
      have h1 : ¬ it.ev.param < 0 := by omega
      have h2 : ¬ it.ev.param ≥ ((mds_SLR - mds_NOTE : Nat) : Int) := by
        have : ((mds_SLR - mds_NOTE : Nat) : Int) = 94 := by decide
        rw [this]; omega
      have h3 : (mds_NOTE + it.ev.param.toNat) % 256 = mds_NOTE + it.ev.param.toNat := by
        show (130 + it.ev.param.toNat) % 256 = 130 + it.ev.param.toNat; omega
      simp +decide [hd', hi', h1, h2, Mds.push, h3, t, u16, dAfter]
    · rw [if_neg hp] at h; cases h
  rw [if_neg t] at h ⊢; clear t
  by_cases t : it.ev.type = ev_LOOP_START
  · rw [if_pos t] at h ⊢; det_case
  rw [if_neg t] at h ⊢; clear t
  by_cases t : it.ev.type = ev_LOOP_BREAK
  · rw [if_pos t] at h ⊢; det_case
  rw [if_neg t] at h ⊢; clear t
  by_cases t : it.ev.type = ev_LOOP_END
  · rw [if_pos t] at h ⊢; det_case
  rw [if_neg t] at h ⊢; clear t
  by_cases t : it.ev.type = ev_SEGNO
  · rw [if_pos t] at h ⊢; det_case
  rw [if_neg t] at h ⊢
  have tS : (it.ev.type == ev_SEGNO) = false := by simpa using t
  clear t
  by_cases t : it.ev.type = ev_JUMP
  · rw [if_pos t] at h; cases h
  rw [if_neg t] at h ⊢; clear t
  by_cases t : it.ev.type = ev_SLUR
  · rw [if_pos t] at h ⊢; det_case
  rw [if_neg t] at h ⊢; clear t
  by_cases t : it.ev.type = ev_PLATFORM
  · rw [if_pos t] at h; cases h
  rw [if_neg t] at h ⊢; clear t
  by_cases t : it.ev.type = ev_TRANSPOSE_REL
  · rw [if_pos t] at h ⊢; det_case
  rw [if_neg t] at h ⊢; clear t
  by_cases t : it.ev.type = ev_VOL
  · rw [if_pos t] at h ⊢; det_case
  rw [if_neg t] at h ⊢; clear t
  by_cases t : it.ev.type = ev_VOL_REL ∨ it.ev.type = ev_VOL_FINE_REL
  · rw [if_pos t] at h ⊢
    simp only [Option.some.injEq] at h
    subst h
    have nd : ¬ it.ev.type = ev_DRUM_MODE := by rcases t with t | t <;> (rw [t]; decide)
    simp +decide [Mds.push, tS, u16, dAfter, nd]
  rw [if_neg t] at h ⊢; clear t
  by_cases t : it.ev.type = ev_TEMPO_BPM
  · rw [if_pos t] at h ⊢; det_case
  rw [if_neg t] at h ⊢; clear t
  by_cases t : it.ev.type = ev_INS
  · rw [if_pos t] at h; cases h
  rw [if_neg t] at h ⊢; clear t
  by_cases t : it.ev.type = ev_TRANSPOSE
  · rw [if_pos t] at h ⊢; det_case
  rw [if_neg t] at h ⊢; clear t
  by_cases t : it.ev.type = ev_DETUNE
  · rw [if_pos t] at h ⊢; det_case
  rw [if_neg t] at h ⊢; clear t
  by_cases t : it.ev.type = ev_VOL_FINE
  · rw [if_pos t] at h ⊢; det_case
  rw [if_neg t] at h ⊢; clear t
  by_cases t : it.ev.type = ev_PAN
  · rw [if_pos t] at h ⊢; det_case
  rw [if_neg t] at h ⊢; clear t
  by_cases t : it.ev.type = ev_PAN_ENVELOPE
  · rw [if_pos t] at h ⊢
    by_cases hp : it.ev.param = 0
    · rw [if_pos hp] at h
      have hp' : ¬ it.ev.param ≠ 0 := by simpa using hp
      rw [if_neg hp']
      det_case
    · rw [if_neg hp] at h; cases h
  rw [if_neg t] at h ⊢; clear t
  by_cases t : it.ev.type = ev_PITCH_ENVELOPE
  · rw [if_pos t] at h ⊢
    by_cases hp : it.ev.param = 0
    · rw [if_pos hp] at h
      have hp' : ¬ it.ev.param ≠ 0 := by simpa using hp
      rw [if_neg hp']
      det_case
    · rw [if_neg hp] at h; cases h
  rw [if_neg t] at h ⊢; clear t
  by_cases t : it.ev.type = ev_PORTAMENTO
  · rw [if_pos t] at h ⊢; det_case
  rw [if_neg t] at h ⊢; clear t
  by_cases t : it.ev.type = ev_DRUM_MODE
  · rw [if_pos t] at h ⊢
    simp only [Option.some.injEq] at h
    subst h
    by_cases hp : it.ev.param ≠ 0 <;> simp +decide [Mds.push, t, u16, dAfter, hp]
  rw [if_neg t] at h ⊢
  have tD := t; clear t
  by_cases t : it.ev.type = ev_TEMPO
  · rw [if_pos t] at h ⊢; det_case
  rw [if_neg t] at h ⊢; clear t
  simp only [Option.some.injEq] at h
  subst h
  simp [tS, dAfter, tD]

set_option hygiene false in
macro "skip_some" : tactic => `(tactic| (rw [if_pos t] at h; cases h))

/-- outside `detBody`: calls, instruments, notes in drum mode, platform commands, macro tracks -/
theorem detBody_none {d : Bool} {it : TraceItem} (hs : SimpleEv it.ev) (h : detBody d it = none) :
    it.ev.type = ev_JUMP ∨ it.ev.type = ev_INS ∨ (it.ev.type = ev_NOTE ∧ d = true) ∨ it.ev.type = ev_PLATFORM ∨
      (it.ev.type = ev_PAN_ENVELOPE ∧ it.ev.param ≠ 0) ∨ (it.ev.type = ev_PITCH_ENVELOPE ∧ it.ev.param ≠ 0) := by
  have s4 := hs
  unfold detBody at h
  simp only at h
  by_cases t : it.ev.type = ev_TIE
  · skip_some
  rw [if_neg t] at h; clear t
  by_cases t : it.ev.type = ev_NOTE
  · rw [if_pos t] at h
    by_cases hd : d = true
    · exact .inr (.inr (.inl ⟨t, hd⟩))
    · rw [if_neg hd, if_pos (s4 t)] at h; cases h
  rw [if_neg t] at h; clear t
  by_cases t : it.ev.type = ev_LOOP_START
  · skip_some
  rw [if_neg t] at h; clear t
  by_cases t : it.ev.type = ev_LOOP_BREAK
  · skip_some
  rw [if_neg t] at h; clear t
  by_cases t : it.ev.type = ev_LOOP_END
  · skip_some
  rw [if_neg t] at h; clear t
  by_cases t : it.ev.type = ev_SEGNO
  · skip_some
  rw [if_neg t] at h; clear t
  by_cases t : it.ev.type = ev_JUMP
  · exact .inl t
  rw [if_neg t] at h; clear t
  by_cases t : it.ev.type = ev_SLUR
  · skip_some
  rw [if_neg t] at h; clear t
  by_cases t : it.ev.type = ev_PLATFORM
  · exact .inr (.inr (.inr (.inl t)))
  rw [if_neg t] at h; clear t
  by_cases t : it.ev.type = ev_TRANSPOSE_REL
  · skip_some
  rw [if_neg t] at h; clear t
  by_cases t : it.ev.type = ev_VOL
  · skip_some
  rw [if_neg t] at h; clear t
  by_cases t : it.ev.type = ev_VOL_REL ∨ it.ev.type = ev_VOL_FINE_REL
  · skip_some
  rw [if_neg t] at h; clear t
  by_cases t : it.ev.type = ev_TEMPO_BPM
  · skip_some
  rw [if_neg t] at h; clear t
  by_cases t : it.ev.type = ev_INS
  · exact .inr (.inl t)
  rw [if_neg t] at h; clear t
  by_cases t : it.ev.type = ev_TRANSPOSE
  · skip_some
  rw [if_neg t] at h; clear t
  by_cases t : it.ev.type = ev_DETUNE
  · skip_some
  rw [if_neg t] at h; clear t
  by_cases t : it.ev.type = ev_VOL_FINE
  · skip_some
  rw [if_neg t] at h; clear t
  by_cases t : it.ev.type = ev_PAN
  · skip_some
  rw [if_neg t] at h; clear t
  by_cases t : it.ev.type = ev_PAN_ENVELOPE
  · rw [if_pos t] at h
    by_cases hp : it.ev.param = 0
    · rw [if_pos hp] at h; cases h
    · exact .inr (.inr (.inr (.inr (.inl ⟨t, hp⟩))))
  rw [if_neg t] at h; clear t
  by_cases t : it.ev.type = ev_PITCH_ENVELOPE
  · rw [if_pos t] at h
    by_cases hp : it.ev.param = 0
    · rw [if_pos hp] at h; cases h
    · exact .inr (.inr (.inr (.inr (.inr ⟨t, hp⟩))))
  rw [if_neg t] at h; clear t
  by_cases t : it.ev.type = ev_PORTAMENTO
  · skip_some
  rw [if_neg t] at h; clear t
  by_cases t : it.ev.type = ev_DRUM_MODE
  · skip_some
  rw [if_neg t] at h; clear t
  by_cases t : it.ev.type = ev_TEMPO
  · skip_some
  rw [if_neg t] at h; clear t
  cases h

theorem hookVis_jump {song : Song} {d : DataInfo} {n : Nat} {c : Conv} {w : WState} {it : TraceItem}
    (t : it.ev.type = ev_JUMP) :
    hookVis song d n c w it =
      match getSubroutine song d n c it.ev.param false w.drumEnabled with
      | .error x => .error x
      | .ok (c', id) => .ok (c', Mds.push w mds_PAT id) := by
  unfold hookVis
  rw [if_neg (show ¬ it.ev.type = ev_TIE by rw [t]; decide), if_neg (show ¬ it.ev.type = ev_NOTE by rw [t]; decide),
    if_neg (show ¬ it.ev.type = ev_LOOP_START by rw [t]; decide), if_neg (show ¬ it.ev.type = ev_LOOP_BREAK by rw [t]; decide),
    if_neg (show ¬ it.ev.type = ev_LOOP_END by rw [t]; decide), if_neg (show ¬ it.ev.type = ev_SEGNO by rw [t]; decide),
    if_pos t]
  rfl

theorem hookVis_ins {song : Song} {d : DataInfo} {n : Nat} {c : Conv} {w : WState} {it : TraceItem}
    (t : it.ev.type = ev_INS) :
    hookVis song d n c w it =
      match checkInstrument d w.trackId it.ev.param with
      | .error x => .error x
      | .ok _ =>
        match d.insType.lookup it.ev.param, d.envelopeMap.lookup it.ev.param with
        | some ty, some idx =>
          if ty ≠ mdsIns_INS_PCM then
            let (c', i) := getEnvelope c idx
            .ok (c', Mds.push w mds_INS i)
          else
            let (c', i) := getEnvelope c (0x20000 + idx)
            .ok (c', Mds.push w mds_PCM i)
        | _, _ => .error .insMissing := by
  unfold hookVis
  rw [if_neg (show ¬ it.ev.type = ev_TIE by rw [t]; decide), if_neg (show ¬ it.ev.type = ev_NOTE by rw [t]; decide),
    if_neg (show ¬ it.ev.type = ev_LOOP_START by rw [t]; decide), if_neg (show ¬ it.ev.type = ev_LOOP_BREAK by rw [t]; decide),
    if_neg (show ¬ it.ev.type = ev_LOOP_END by rw [t]; decide), if_neg (show ¬ it.ev.type = ev_SEGNO by rw [t]; decide),
    if_neg (show ¬ it.ev.type = ev_JUMP by rw [t]; decide), if_neg (show ¬ it.ev.type = ev_SLUR by rw [t]; decide),
    if_neg (show ¬ it.ev.type = ev_PLATFORM by rw [t]; decide), if_neg (show ¬ it.ev.type = ev_TRANSPOSE_REL by rw [t]; decide),
    if_neg (show ¬ it.ev.type = ev_VOL by rw [t]; decide),
    if_neg (show ¬ (it.ev.type = ev_VOL_REL ∨ it.ev.type = ev_VOL_FINE_REL) by rw [t]; decide),
    if_neg (show ¬ it.ev.type = ev_TEMPO_BPM by rw [t]; decide), if_pos t]
  rfl

theorem hookVis_plat {song : Song} {d : DataInfo} {n : Nat} {c : Conv} {w : WState} {it : TraceItem}
    (t : it.ev.type = ev_PLATFORM) :
    hookVis song d n c w it =
      match d.platform.lookup it.ev.param with
      | none => .error .platformMissing
      | some none => .error .platformBad
      | some (some evs) => .ok (c, { w with out := w.out ++ evs }) := by
  unfold hookVis
  rw [if_neg (show ¬ it.ev.type = ev_TIE by rw [t]; decide), if_neg (show ¬ it.ev.type = ev_NOTE by rw [t]; decide),
    if_neg (show ¬ it.ev.type = ev_LOOP_START by rw [t]; decide), if_neg (show ¬ it.ev.type = ev_LOOP_BREAK by rw [t]; decide),
    if_neg (show ¬ it.ev.type = ev_LOOP_END by rw [t]; decide), if_neg (show ¬ it.ev.type = ev_SEGNO by rw [t]; decide),
    if_neg (show ¬ it.ev.type = ev_JUMP by rw [t]; decide), if_neg (show ¬ it.ev.type = ev_SLUR by rw [t]; decide),
    if_pos t]
  rfl

theorem hookVis_mtab {song : Song} {d : DataInfo} {n : Nat} {c : Conv} {w : WState} {it : TraceItem}
    (t : it.ev.type = ev_PAN_ENVELOPE) (hp : it.ev.param ≠ 0) :
    hookVis song d n c w it =
      match getMacroTrack song d n c it.ev.param with
      | .error x => .error x
      | .ok (c', id) => .ok (c', Mds.push w mds_MTAB (wrap16 (id + 1))) := by
  unfold hookVis
  rw [if_neg (show ¬ it.ev.type = ev_TIE by rw [t]; decide), if_neg (show ¬ it.ev.type = ev_NOTE by rw [t]; decide),
    if_neg (show ¬ it.ev.type = ev_LOOP_START by rw [t]; decide), if_neg (show ¬ it.ev.type = ev_LOOP_BREAK by rw [t]; decide),
    if_neg (show ¬ it.ev.type = ev_LOOP_END by rw [t]; decide), if_neg (show ¬ it.ev.type = ev_SEGNO by rw [t]; decide),
    if_neg (show ¬ it.ev.type = ev_JUMP by rw [t]; decide), if_neg (show ¬ it.ev.type = ev_SLUR by rw [t]; decide),
    if_neg (show ¬ it.ev.type = ev_PLATFORM by rw [t]; decide), if_neg (show ¬ it.ev.type = ev_TRANSPOSE_REL by rw [t]; decide),
    if_neg (show ¬ it.ev.type = ev_VOL by rw [t]; decide),
    if_neg (show ¬ (it.ev.type = ev_VOL_REL ∨ it.ev.type = ev_VOL_FINE_REL) by rw [t]; decide),
    if_neg (show ¬ it.ev.type = ev_TEMPO_BPM by rw [t]; decide), if_neg (show ¬ it.ev.type = ev_INS by rw [t]; decide),
    if_neg (show ¬ it.ev.type = ev_TRANSPOSE by rw [t]; decide), if_neg (show ¬ it.ev.type = ev_DETUNE by rw [t]; decide),
    if_neg (show ¬ it.ev.type = ev_VOL_FINE by rw [t]; decide), if_neg (show ¬ it.ev.type = ev_PAN by rw [t]; decide),
    if_pos t, if_pos hp]
  rfl

theorem hookVis_peg {song : Song} {d : DataInfo} {n : Nat} {c : Conv} {w : WState} {it : TraceItem}
    (t : it.ev.type = ev_PITCH_ENVELOPE) (hp : it.ev.param ≠ 0) :
    hookVis song d n c w it =
      match d.pitchMap.lookup it.ev.param with
      | none => .error .pitchMissing
      | some idx =>
        let (c', i) := getEnvelope c (if d.pitchExtend.contains it.ev.param then 0x10000 + idx else idx)
        .ok (c', Mds.push w mds_PEG (wrap16 (i + 1))) := by
  unfold hookVis
  rw [if_neg (show ¬ it.ev.type = ev_TIE by rw [t]; decide), if_neg (show ¬ it.ev.type = ev_NOTE by rw [t]; decide),
    if_neg (show ¬ it.ev.type = ev_LOOP_START by rw [t]; decide), if_neg (show ¬ it.ev.type = ev_LOOP_BREAK by rw [t]; decide),
    if_neg (show ¬ it.ev.type = ev_LOOP_END by rw [t]; decide), if_neg (show ¬ it.ev.type = ev_SEGNO by rw [t]; decide),
    if_neg (show ¬ it.ev.type = ev_JUMP by rw [t]; decide), if_neg (show ¬ it.ev.type = ev_SLUR by rw [t]; decide),
    if_neg (show ¬ it.ev.type = ev_PLATFORM by rw [t]; decide), if_neg (show ¬ it.ev.type = ev_TRANSPOSE_REL by rw [t]; decide),
    if_neg (show ¬ it.ev.type = ev_VOL by rw [t]; decide),
    if_neg (show ¬ (it.ev.type = ev_VOL_REL ∨ it.ev.type = ev_VOL_FINE_REL) by rw [t]; decide),
    if_neg (show ¬ it.ev.type = ev_TEMPO_BPM by rw [t]; decide), if_neg (show ¬ it.ev.type = ev_INS by rw [t]; decide),
    if_neg (show ¬ it.ev.type = ev_TRANSPOSE by rw [t]; decide), if_neg (show ¬ it.ev.type = ev_DETUNE by rw [t]; decide),
    if_neg (show ¬ it.ev.type = ev_VOL_FINE by rw [t]; decide), if_neg (show ¬ it.ev.type = ev_PAN by rw [t]; decide),
    if_neg (show ¬ it.ev.type = ev_PAN_ENVELOPE by rw [t]; decide), if_pos t, if_pos hp]
  rfl

theorem hookVis_note {song : Song} {d : DataInfo} {n : Nat} {c : Conv} {w : WState} {it : TraceItem}
    (t : it.ev.type = ev_NOTE) :
    hookVis song d n c w it =
      match (if w.drumEnabled then
          match getSubroutine song d n c it.ev.param true false with
          | .error x => .error x
          | .ok (c', id) => .ok (c', wrap16 id)
        else (.ok (c, it.ev.param) : Except WErr (Conv × Int))) with
      | .error x => .error x
      | .ok (c, param) =>
        let param := if param < 0 then 0 else param
        if w.inDrum then
          if it.topLoop then .error .drumNoteInLoop
          else if param > 255 then .error .noteRange
          else .ok (c, { (Mds.push w mds_DMFINISH param) with disabled := true })
        else if param ≥ (mds_SLR - mds_NOTE : Nat) then .error .noteRange
        else .ok (c, Mds.push w (mds_NOTE + param.toNat) it.on) := by
  unfold hookVis
  rw [if_neg (show ¬ it.ev.type = ev_TIE by rw [t]; decide), if_pos t]
  rfl

theorem push_eq (w : WState) (it : TraceItem) (ty : Nat) (arg : Int) (hty : ty < 256) (hs : it.ev.type ≠ ev_SEGNO)
    (hd : it.ev.type ≠ ev_DRUM_MODE) :
    Mds.push w ty arg = pushed w it [⟨ty, u16 arg⟩] := by
  have : (it.ev.type == ev_SEGNO) = false := by simpa using hs
  simp [Mds.push, pushed, this, Nat.mod_eq_of_lt hty, dAfter, hd]

/-- **one shown hook call of the fragment** (a writer that is not a drum routine's, or an event
that is not a note) -/
theorem hookVis_simple {song : Song} {d : DataInfo} (hpc : PlatformClean d) {n : Nat} {c c' : Conv} {w w' : WState}
    {it : TraceItem} {L : List (List MEv)} {P : Pend} (hs : SimpleEv it.ev)
    (hi : w.inDrum = false ∨ it.ev.type ≠ ev_NOTE) (hinv : Inv song d c (w.out :: L) P)
    (h : hookVis song d n c w it = .ok (c', w')) :
    ∃ ms, Body (ctxOf d c') w.drumEnabled it ms ∧ w' = pushed w it ms := by
  cases hb : detBody w.drumEnabled it with
  | some ms =>
    rw [hookVis_det hi hb] at h
    simp only [Except.ok.injEq, Prod.mk.injEq] at h
    obtain ⟨rfl, rfl⟩ := h
    exact ⟨ms, .det hb, rfl⟩
  | none =>
    rcases detBody_none hs hb with t | t | ⟨t, hd⟩ | t | ⟨t, hp⟩ | ⟨t, hp⟩
    rotate_right 3
    · -- a platform command
      rw [hookVis_plat t] at h
      cases hl : d.platform.lookup it.ev.param with
      | none => rw [hl] at h; cases h
      | some o =>
        cases o with
        | none => rw [hl] at h; cases h
        | some evs =>
          rw [hl] at h
          simp only [Except.ok.injEq, Prod.mk.injEq] at h
          obtain ⟨rfl, rfl⟩ := h
          refine ⟨evs, .plat t hl, ?_⟩
          have hns : (it.ev.type == ev_SEGNO) = false := by rw [t]; decide
          have hnd : ¬ it.ev.type = ev_DRUM_MODE := by rw [t]; decide
          simp [pushed, hns, dAfter, hnd]
    · -- a macro track
      rw [hookVis_mtab t hp] at h
      cases hg : getMacroTrack song d n c it.ev.param with
      | error x => rw [hg] at h; cases h
      | ok p =>
        obtain ⟨c2, id⟩ := p
        rw [hg] at h
        simp only [Except.ok.injEq, Prod.mk.injEq] at h
        obtain ⟨rfl, rfl⟩ := h
        obtain ⟨k, rfl, _, hmem, _, _⟩ := (writerInv hpc n).mac c _ c2 id (w.out :: L) P hinv hg
        exact ⟨_, .mtab t hp hmem, push_eq w it mds_MTAB _ (by decide) (by rw [t]; decide) (by rw [t]; decide)⟩
    · -- a pitch envelope: `get_envelope` hands out an index below the (new) size of `used_data_map`
      rw [hookVis_peg t hp] at h
      cases hl : d.pitchMap.lookup it.ev.param with
      | none => rw [hl] at h; cases h
      | some idx =>
        rw [hl] at h
        simp only [Except.ok.injEq, Prod.mk.injEq] at h
        obtain ⟨rfl, rfl⟩ := h
        have hlt := (getEnvelope_spec c (if d.pitchExtend.contains it.ev.param then 0x10000 + idx else idx) hinv.maps).2.2.2.2.2.1
        exact ⟨_, .peg (i := (getEnvelope c (if d.pitchExtend.contains it.ev.param then 0x10000 + idx else idx)).2) t hp hlt,
          push_eq w it mds_PEG _ (by decide) (by rw [t]; decide) (by rw [t]; decide)⟩
    · rw [hookVis_jump t] at h
      cases hg : getSubroutine song d n c it.ev.param false w.drumEnabled with
      | error x => rw [hg] at h; cases h
      | ok p =>
        obtain ⟨c2, id⟩ := p
        rw [hg] at h
        simp only [Except.ok.injEq, Prod.mk.injEq] at h
        obtain ⟨rfl, rfl⟩ := h
        obtain ⟨k, rfl, _, hmem, _, _⟩ := (writerInv hpc n).sub c _ _ _ c2 id (w.out :: L) P hinv hg
        exact ⟨_, .jump t hmem, push_eq w it mds_PAT _ (by decide) (by rw [t]; decide) (by rw [t]; decide)⟩
    · rw [hookVis_ins t] at h
      cases hc : checkInstrument d w.trackId it.ev.param with
      | error x => rw [hc] at h; cases h
      | ok u =>
        rw [hc] at h
        cases h1 : d.insType.lookup it.ev.param with
        | none => rw [h1] at h; simp at h
        | some ty =>
          cases h2 : d.envelopeMap.lookup it.ev.param with
          | none => rw [h1, h2] at h; simp at h
          | some idx =>
            rw [h1, h2] at h
            by_cases hpcm : ty ≠ mdsIns_INS_PCM
            · simp only [if_pos hpcm, Except.ok.injEq, Prod.mk.injEq] at h
              obtain ⟨rfl, rfl⟩ := h
              exact ⟨_, .ins (i := (getEnvelope c idx).2) t (.inl rfl),
                push_eq w it mds_INS _ (by decide) (by rw [t]; decide) (by rw [t]; decide)⟩
            · simp only [if_neg hpcm, Except.ok.injEq, Prod.mk.injEq] at h
              obtain ⟨rfl, rfl⟩ := h
              exact ⟨_, .ins (i := (getEnvelope c (0x20000 + idx)).2) t (.inr rfl),
                push_eq w it mds_PCM _ (by decide) (by rw [t]; decide) (by rw [t]; decide)⟩
    · -- a note in drum mode
      have hi' : w.inDrum = false := by
        rcases hi with hi | hi
        · exact hi
        · exact absurd t hi
      rw [hookVis_note t, hd] at h
      simp only [if_true] at h
      cases hg : getSubroutine song d n c it.ev.param true false with
      | error x => rw [hg] at h; cases h
      | ok p =>
        obtain ⟨c2, id⟩ := p
        rw [hg] at h
        simp only [hi', Bool.false_eq_true, if_false] at h
        obtain ⟨k, rfl, _, hmem, _, _⟩ := (writerInv hpc n).sub c _ _ _ c2 _ (w.out :: L) P hinv hg
        by_cases hr : (if wrap16 (k : Int) < 0 then 0 else wrap16 (k : Int)) ≥ ((mds_SLR - mds_NOTE : Nat) : Int)
        · rw [if_pos hr] at h; cases h
        · rw [if_neg hr] at h
          simp only [Except.ok.injEq, Prod.mk.injEq] at h
          obtain ⟨rfl, rfl⟩ := h
          have h94 : ((mds_SLR - mds_NOTE : Nat) : Int) = 94 := by decide
          rw [h94] at hr
          obtain ⟨q, hq⟩ : ∃ q : Nat, (q : Int) = (if wrap16 (k : Int) < 0 then 0 else wrap16 (k : Int)) :=
            ⟨(if wrap16 (k : Int) < 0 then 0 else wrap16 (k : Int)).toNat, by split <;> omega⟩
          have hq94 : q < 94 := by omega
          refine ⟨_, .dnote (k := k) (q := q) t hd hmem hq hq94, ?_⟩
          have e1 : (if wrap16 (k : Int) < 0 then 0 else wrap16 (k : Int)).toNat = q := by rw [← hq]; simp
          rw [e1]
          have hm : (mds_NOTE + q) % 256 = mds_NOTE + q := by show (130 + q) % 256 = 130 + q; omega
          have hns : (it.ev.type == ev_SEGNO) = false := by rw [t]; decide
          have hnd : ¬ it.ev.type = ev_DRUM_MODE := by rw [t]; decide
          simp [Mds.push, pushed, hm, hns, dAfter, hnd]

/-- a hook call inside a repeated loop pass or inside a call changes nothing -/
theorem hook_hidden {song : Song} {d : DataInfo} {n : Nat} {c c' : Conv} {w w' : WState} {it : TraceItem}
    (hh : it.insideLoop ∨ it.insideJump) (h : hook song d (n + 1) c w it = .ok (c', w')) : c' = c ∧ w' = w := by
  rw [hook_succ_eq, if_pos hh] at h
  split at h
  · split at h
    · simp at h
    · simp at h; exact ⟨h.1.symm, h.2.symm⟩
  · simp at h; exact ⟨h.1.symm, h.2.symm⟩

/-! ### the writer along a recorded run -/

/-- the part of the writer state that stays as it is -/
structure WS (w : WState) : Prop where
  notDisabled : w.disabled = false
  restLt : w.restTime < 65536

theorem flushL_rest (r : Nat) : ∀ x ∈ flushL r, x.type = mds_REST := by
  intro x hx
  unfold flushL at hx
  split at hx
  · simp at hx; rw [hx]
  · simp at hx

theorem prepR_rest (r : Nat) (it : TraceItem) : ∀ x ∈ (prepR r it).1, x.type = mds_REST := by
  intro x hx
  unfold prepR at hx
  rcases List.mem_append.mp hx with hx | hx
  · unfold prepA at hx
    split at hx
    · exact flushL_rest _ x hx
    · simp at hx
  · unfold prepB at hx
    split at hx
    · exact flushL_rest _ x hx
    · simp at hx

/-- the `TraceItem` of a hook call without the "top frame is a loop" bit -/
def recItem (v f : Event) (st : List Frame) : TraceItem :=
  { ev := v, on := f.on, off := f.off, insideLoop := insideLoop st, insideJump := insideJump st }

/-- the `TraceItem` of a hook call as `Player.stepTrace` records it -/
def recItemT (v f : Event) (st : List Frame) : TraceItem :=
  { recItem v f st with topLoop := topIsLoop st }

/-- the record of a step as `Player.stepTrace` hands it to the hook -/
def itemOfRecT (r : Rec) : Option TraceItem :=
  match r.1 with
  | .hook v f => some (recItemT v f r.2)
  | _ => none

/-- `get_stack_type() == LOOP` is only looked at by the writer of a drum routine, at a note (the fix of
D25 on main: the note that ends a routine may not stand inside a loop) -/
theorem hook_topLoop {song : Song} {d : DataInfo} {n : Nat} {c : Conv} {w : WState} {it : TraceItem} (b : Bool)
    (h : w.inDrum = false ∨ it.ev.type ≠ ev_NOTE) :
    hook song d (n + 1) c w { it with topLoop := b } = hook song d (n + 1) c w it := by
  rw [hook_succ_eq, hook_succ_eq]
  have hp : prep w { it with topLoop := b } = prep w it := rfl
  show (if it.insideLoop ∨ it.insideJump then _ else hookVis song d n c (prep w { it with topLoop := b }) { it with topLoop := b }) = _
  rw [hp]
  by_cases hsh : it.insideLoop ∨ it.insideJump
  · rw [if_pos hsh, if_pos hsh]
  · rw [if_neg hsh, if_neg hsh]
    by_cases t : it.ev.type = ev_NOTE
    · have hi : w.inDrum = false := by
        rcases h with h | h
        · exact h
        · exact absurd t h
      have hi' : (prep w it).inDrum = false := by rw [prep_eq]; exact hi
      rw [hookVis_note (it := { it with topLoop := b }) t, hookVis_note t]
      simp only [hi', Bool.false_eq_true, if_false]
    · unfold hookVis
      have t' : ¬ ({ it with topLoop := b } : TraceItem).ev.type = ev_NOTE := t
      simp only [if_neg t, if_neg t']

section
variable (song : Song) (root : List Event)

theorem stepTrace_nonroot (s : PState) {c' : Core} {o : Out} (h : coreStep song root s.core = .ok (c', o))
    (ho : isRoot o = false) :
    ∃ a', stepTrace song root false s = .ok (⟨c', a'⟩, (itemOfRecT (o, hookStack s.core c' o)).map some) ∧
      a'.enabled = s.acc.enabled ∧ T a' = T s.acc + o.fetched.on + o.fetched.off ∧
      a'.loopPlayTime = (if isSegnoHook o then (T s.acc : Int) else s.acc.loopPlayTime) := by
  obtain ⟨a', em, hacc, hen, hpt, hon, hoff, hlp⟩ := accStep_nonroot false s.acc s.core.position c' o ho
  refine ⟨a', ?_, hen, by simp only [T, hpt, hon, hoff], hlp⟩
  cases o with
  | rootEnd f => simp [isRoot] at ho
  | ret f =>
    have hem : em = .nothing := by
      simp only [accStep] at hacc
      exact (Prod.mk.inj (Prod.mk.inj hacc).2).2.symm
    subst hem
    simp [stepTrace, h, hacc, itemOfRecT]
  | hook v f =>
    have hem : em = .event v := by
      simp only [accStep] at hacc
      split at hacc
      · exact (Prod.mk.inj (Prod.mk.inj hacc).2).2.symm
      · exact (Prod.mk.inj (Prod.mk.inj hacc).2).2.symm
    subst hem
    have e1 : a'.onTime = f.on := hon
    have e2 : a'.offTime = f.off := hoff
    simp [stepTrace, h, hacc, itemOfRecT, recItemT, recItem, e1, e2]

theorem visItems_cons_ret (f : Event) (st : List Frame) (rs : List Rec) : visItems ((.ret f, st) :: rs) = visItems rs := by
  have : (Out.ret f, st) :: rs = [(Out.ret f, st)] ++ rs := rfl
  rw [this, visItems_append, visItems_ret]; rfl

theorem visItems_cons_hook (v f : Event) (st : List Frame) (rs : List Rec) :
    visItems ((.hook v f, st) :: rs) = (if vis st then [tItem v f] else []) ++ visItems rs := by
  have : (Out.hook v f, st) :: rs = [(Out.hook v f, st)] ++ rs := rfl
  rw [this, visItems_append, visItems_hook]

/-- **the writer along a run of the machine**: whatever number of steps it was given, it was enough;
the shown hook calls were folded into the writer state as `Emits` says, the hidden ones changed
nothing, and the writer goes on from the end of the run -/
theorem run_emits {d : DataInfo} (hpc : PlatformClean d) (fuel : Nat) :
    ∀ (k : Nat) (c0 cE : Core) (rs : List Rec), stepsV song root k c0 = .ok (cE, rs) → (∀ r ∈ rs, isRoot r.1 = false) →
    (∀ it ∈ visItems rs, SimpleEv it.ev) →
    ∀ (steps : Nat) (c : Conv) (w : WState) (a : Acc) (cF : Conv) (wF : WState) (L : List (List MEv)) (P : Pend),
      a.enabled = true → WS w → (w.inDrum = false ∨ ∀ it ∈ visItems rs, it.ev.type ≠ ev_NOTE) →
      Inv song d c (w.out :: L) P →
      runWriter song d root (fuel + 1) steps c w ⟨c0, a⟩ = .ok (cF, wF) →
      ∃ (m : Nat) (c1 : Conv) (w1 : WState) (a1 : Acc) (ms : List MEv), steps = k + m ∧
        Emits (ctxOf d c1) w.drumEnabled w.restTime w.inLoop (visItems rs) ms w1.restTime w1.inLoop ∧
        w1.out = w.out ++ ms ∧ WS w1 ∧
        w1.trackId = w.trackId ∧ w1.inDrum = w.inDrum ∧ w1.drumEnabled = dAfterL w.drumEnabled (visItems rs) ∧
        SubMono c c1 ∧ Inv song d c1 (w1.out :: L) P ∧ a1.enabled = true ∧
        (T a1, a1.loopPlayTime) = timeFold (T a) a.loopPlayTime (rs.map (·.1)) ∧
        runWriter song d root (fuel + 1) m c1 w1 ⟨cE, a1⟩ = .ok (cF, wF)
  | 0, c0, cE, rs, hk, _, _, steps, c, w, a, cF, wF, L, P, hen, hws, _, hinv, h => by
    simp only [stepsV, Except.ok.injEq, Prod.mk.injEq] at hk
    obtain ⟨rfl, rfl⟩ := hk
    exact ⟨steps, c, w, a, [], by omega, by simpa [visItems_nil] using Emits.nil _ _ _, by simp, hws, rfl, rfl,
      by simp [visItems_nil, dAfterL], SubMono.refl c,
      by simpa using hinv, hen, by simp [timeFold], h⟩
  | k + 1, c0, cE, rs, hk, hno, hsim, steps, c, w, a, cF, wF, L, P, hen, hws, hin, hinv, h => by
    simp only [stepsV] at hk
    cases h1 : coreStep song root c0 with
    | error e => rw [h1] at hk; cases hk
    | ok p =>
      obtain ⟨c1', o⟩ := p
      rw [h1] at hk
      simp only at hk
      cases h2 : stepsV song root k c1' with
      | error e => rw [h2] at hk; cases hk
      | ok p2 =>
        obtain ⟨c2, rs'⟩ := p2
        rw [h2] at hk
        simp only [Except.ok.injEq, Prod.mk.injEq] at hk
        obtain ⟨rfl, rfl⟩ := hk
        have hno' : ∀ r ∈ rs', isRoot r.1 = false := fun r hr => hno r (List.mem_cons_of_mem _ hr)
        have ho : isRoot o = false := hno (o, hookStack c0 c1' o) (by simp)
        cases steps with
        | zero => simp [runWriter] at h
        | succ steps =>
          obtain ⟨a', hst, hen', hT', hlp'⟩ := stepTrace_nonroot song root ⟨c0, a⟩ (c' := c1') (o := o) h1 ho
          simp only at hen' hT' hlp'
          have hdis : ¬ ((!a.enabled) = true ∨ w.disabled = true) := by simp [hen, hws.notDisabled]
          simp only [runWriter] at h
          rw [if_neg (by simpa using hdis), hst] at h
          have htf : timeFold (T a) a.loopPlayTime (((o, hookStack c0 c1' o) :: rs').map (·.1)) =
              timeFold (T a') a'.loopPlayTime (rs'.map (·.1)) := by
            simp [timeFold, hT', hlp']
          cases o with
          | rootEnd f => simp [isRoot] at ho
          | ret f =>
            simp only [itemOfRecT, Option.map_none] at h
            obtain ⟨m, c1, w1, a1, ms, hm, he, hout, hws1, htid, hind, hdr, hmono, hinv1, hen1, htime, hrun⟩ :=
              run_emits hpc fuel k c1' c2 rs' h2 hno' (by rw [visItems_cons_ret] at hsim; exact hsim)
                steps c w a' cF wF L P (hen'.trans hen) hws (by rw [visItems_cons_ret] at hin; exact hin) hinv h
            refine ⟨m, c1, w1, a1, ms, by omega, ?_, hout, hws1, htid, hind, ?_, hmono, hinv1, hen1, ?_, hrun⟩
            · rw [visItems_cons_ret]; exact he
            · rw [visItems_cons_ret]; exact hdr
            · rw [htf]; exact htime
          | hook v f =>
            obtain ⟨itR, hitR⟩ : ∃ itR : TraceItem, itR = recItemT v f (hookStack c0 c1' (.hook v f)) := ⟨_, rfl⟩
            obtain ⟨it, hit⟩ : ∃ it : TraceItem, it = recItem v f (hookStack c0 c1' (.hook v f)) := ⟨_, rfl⟩
            have hrel : itR = { it with topLoop := topIsLoop (hookStack c0 c1' (.hook v f)) } := by rw [hitR, hit]; rfl
            have hio : itemOfRecT (Out.hook v f, hookStack c0 c1' (.hook v f)) = some itR := by rw [hitR]; rfl
            rw [hio] at h
            simp only [Option.map_some] at h
            cases hhR : hook song d fuel c w itR with
            | error x => rw [hhR] at h; simp only at h; split at h <;> cases h
            | ok r =>
              obtain ⟨c', w'⟩ := r
              rw [hhR] at h
              simp only at h
              cases fuel with
              | zero => simp [hook] at hhR
              | succ n =>
                by_cases hvis : vis (hookStack c0 c1' (.hook v f)) = true
                · -- shown
                  have hnote : w.inDrum = false ∨ it.ev.type ≠ ev_NOTE := by
                    rcases hin with hin | hin
                    · exact .inl hin
                    · right
                      refine hin it ?_
                      rw [visItems_cons_hook, if_pos hvis]
                      have : it = tItem v f := by
                        rw [hit]; unfold vis at hvis
                        simp only [Bool.and_eq_true, Bool.not_eq_true'] at hvis
                        simp [recItem, tItem, hvis.1, hvis.2]
                      rw [this]; simp
                  have hh : hook song d (n + 1) c w it = .ok (c', w') := by
                    rw [← hhR, hrel]; exact (hook_topLoop _ hnote).symm
                  have hsh : ¬ (it.insideLoop ∨ it.insideJump) := by
                    rw [hit]; unfold vis at hvis
                    simp only [Bool.and_eq_true, Bool.not_eq_true'] at hvis
                    simp [recItem, hvis.1, hvis.2]
                  have hitem : it = tItem v f := by
                    rw [hit]; unfold vis at hvis
                    simp only [Bool.and_eq_true, Bool.not_eq_true'] at hvis
                    simp [recItem, tItem, hvis.1, hvis.2]
                  have hcons : visItems ((Out.hook v f, hookStack c0 c1' (.hook v f)) :: rs') = it :: visItems rs' := by
                    rw [visItems_cons_hook, if_pos hvis, hitem]; rfl
                  rw [hcons] at hsim hin ⊢
                  have hse : SimpleEv it.ev := hsim it (by simp)
                  have hh' := hh
                  rw [hook_succ_eq, if_neg hsh, prep_eq] at hh'
                  obtain ⟨wp, hwp⟩ : ∃ wp : WState,
                      wp = { w with out := w.out ++ (prepR w.restTime it).1, restTime := (prepR w.restTime it).2 } := ⟨_, rfl⟩
                  rw [← hwp] at hh'
                  have hinvp : Inv song d c (wp.out :: L) P := by
                    rw [hwp]
                    exact inv_add hinv _ (fun ev hev => scoped_of_plain (plain_of_rest (prepR_rest _ _ ev hev)) _ _ _)
                  have hi0 : wp.inDrum = false ∨ it.ev.type ≠ ev_NOTE := by
                    rcases hin with hin | hin
                    · left; rw [hwp]; exact hin
                    · right; exact hin it (by simp)
                  obtain ⟨b, hbody, hw'⟩ := hookVis_simple hpc hse hi0 hinvp hh'
                  have hbody' : Body (ctxOf d c') w.drumEnabled it b := by
                    have : wp.drumEnabled = w.drumEnabled := by rw [hwp]
                    rw [this] at hbody; exact hbody
                  obtain ⟨hinv', hmono'⟩ := (writerInv hpc (n + 1)).hook c w it c' w' L P hinv hh
                  have hws' : WS w' := by
                    rw [hw', hwp]
                    exact ⟨hws.notDisabled, prepR_lt _ _⟩
                  have hind' : w'.inDrum = w.inDrum := by rw [hw', hwp]; rfl
                  have hdr' : w'.drumEnabled = dAfter w.drumEnabled it := by rw [hw', hwp]; rfl
                  obtain ⟨m, c1, w1, a1, ms, hm, he, hout, hws1, htid, hind, hdr, hmono, hinv1, hen1, htime, hrun⟩ :=
                    run_emits hpc (n + 1) k c1' c2 rs' h2 hno' (fun x hx => hsim x (List.mem_cons_of_mem _ hx))
                      steps c' w' a' cF wF L P (hen'.trans hen) hws'
                      (by
                        rcases hin with hin | hin
                        · left; rw [hind']; exact hin
                        · right; exact fun x hx => hin x (List.mem_cons_of_mem _ hx)) hinv' h
                  have hr' : w'.restTime = (prepR w.restTime it).2 := by rw [hw', hwp]; rfl
                  have hg' : w'.inLoop = (w.inLoop || it.ev.type == ev_SEGNO) := by rw [hw', hwp]; rfl
                  have ho' : w'.out = w.out ++ (prepR w.restTime it).1 ++ b := by rw [hw', hwp]; rfl
                  rw [hr', hg', hdr'] at he
                  refine ⟨m, c1, w1, a1, (prepR w.restTime it).1 ++ b ++ ms, by omega,
                    .cons (hbody'.mono (ctxOf_le d hmono)) he, by rw [hout, ho']; simp [List.append_assoc], hws1,
                    by rw [htid, hw', hwp]; rfl, hind.trans hind', by rw [hdr, hdr']; rfl,
                    hmono'.trans hmono, hinv1, hen1, ?_, hrun⟩
                  rw [htf]; exact htime
                · -- hidden
                  have hvf : vis (hookStack c0 c1' (.hook v f)) = false := by simpa using hvis
                  have hsh : itR.insideLoop ∨ itR.insideJump := by
                    rw [hitR]; unfold vis at hvf
                    simp only [Bool.and_eq_false_iff, Bool.not_eq_false'] at hvf
                    simpa [recItemT, recItem] using hvf
                  obtain ⟨rfl, rfl⟩ := hook_hidden hsh hhR
                  have hcons : visItems ((Out.hook v f, hookStack c0 c1' (.hook v f)) :: rs') = visItems rs' := by
                    rw [visItems_cons_hook, hvf]; rfl
                  rw [hcons] at hsim hin ⊢
                  obtain ⟨m, c1, w1, a1, ms, hm, he, hout, hws1, htid, hind, hdr, hmono, hinv1, hen1, htime, hrun⟩ :=
                    run_emits hpc (n + 1) k c1' c2 rs' h2 hno' hsim steps c' w' a' cF wF L P (hen'.trans hen) hws hin hinv h
                  exact ⟨m, c1, w1, a1, ms, by omega, he, hout, hws1, htid, hind, hdr, hmono, hinv1, hen1,
                    by rw [htf]; exact htime, hrun⟩

/-- the step at the end of the track: `end_hook` flushes the pending rest and pushes the terminator -/
theorem run_finish {d : DataInfo} (fuel m : Nat) (c1 : Conv) (w1 : WState) (a1 : Acc) (cF : Conv) (wF : WState)
    (hen : a1.enabled = true) (hws : WS w1)
    (h : runWriter song d root (fuel + 1) m c1 w1 ⟨⟨.root, root.length, []⟩, a1⟩ = .ok (cF, wF)) :
    cF = c1 ∧ wF = Mds.push (flushRest w1)
      (if w1.inLoop = true ∧ (T a1 : Int) ≠ a1.loopPlayTime then mds_JUMP else mds_FINISH) 0 := by
  cases m with
  | zero => simp [runWriter] at h
  | succ m =>
    have hdis : ¬ ((!a1.enabled) = true ∨ w1.disabled = true) := by simp [hen, hws.notDisabled]
    simp only [runWriter] at h
    rw [if_neg (by simpa using hdis)] at h
    obtain ⟨a', ha'⟩ : ∃ a' : Acc, a' = (accStep false a1 root.length ⟨.root, root.length + 1, []⟩ (.rootEnd endEvent)).1 :=
      ⟨_, rfl⟩
    have hpt : a'.playTime = T a1 := by rw [ha']; simp [accStep, T]
    have hlp : a'.loopPlayTime = a1.loopPlayTime := by rw [ha']; simp [accStep]
    have hst : stepTrace song root false ⟨⟨.root, root.length, []⟩, a1⟩ =
        .ok (⟨⟨.root, root.length + 1, []⟩, a'⟩, some none) := by
      rw [ha']; simp [stepTrace, coreStep_rootEnd, accStep]
    rw [hst] at h
    simp only [Except.ok.injEq, Prod.mk.injEq] at h
    obtain ⟨rfl, rfl⟩ := h
    refine ⟨rfl, ?_⟩
    have hin : (flushRest w1).inLoop = w1.inLoop := by rw [flushRest_eq]
    rw [hpt, hlp, hin]
    by_cases hz : (T a1 : Int) = a1.loopPlayTime
    · simp [hz]
    · by_cases hl : w1.inLoop = true <;> simp [hz, hl]

/-- **writer_flat**: `MDSDRV_Track_Writer` run over a well-formed track of the plain fragment whose
loop brackets take no time: the event list is `Emits` of the track's events, then the pending rest,
then the terminator — `JUMP` when a loop point was seen and the loop section takes time, else
`FINISH` -/
theorem writer_flat {d : DataInfo} (hpc : PlatformClean d) (hne : SongNoEnd song) (hr : NoEnd root)
    (ht : BracketsTimeless root) {items : List Item} (hperf : perf song root = .ok items)
    (hsimple : ∀ e ∈ root, SimpleEv e) (fuel steps : Nat) (c : Conv) (w : WState) (cF : Conv) (wF : WState)
    (L : List (List MEv)) (P : Pend) (hws : WS w) (hind : w.inDrum = false) (hinv : Inv song d c (w.out :: L) P)
    (h : runWriter song d root (fuel + 1) steps c w initState = .ok (cF, wF)) :
    ∃ ms r g, Emits (ctxOf d cF) w.drumEnabled w.restTime w.inLoop (root.map fun e => tItem e e) ms r g ∧ r < 65536 ∧
      wF.out = w.out ++ ms ++ flushL r ++
        [⟨if g = true ∧ (totalDur items : Int) ≠ toInt (loopTime items) then mds_JUMP else mds_FINISH, 0⟩] ∧
      SubMono c cF ∧ Inv song d cF (wF.out :: L) P := by
  obtain ⟨rs, ⟨k, hk, hno⟩, hvis, hits⟩ := vperf_flat song root hne hr ht hperf
  have hsim : ∀ it ∈ visItems rs, SimpleEv it.ev := by
    rw [hvis]; intro it hit
    obtain ⟨e, he, rfl⟩ := List.mem_map.mp hit
    exact hsimple e he
  obtain ⟨m, c1, w1, a1, ms, _, he, hout, hws1, _, _, _, hmono, _, hen1, htime, hrun⟩ :=
    run_emits song root hpc fuel k _ _ rs hk hno hsim steps c w {} cF wF L P rfl hws (.inl hind) hinv h
  obtain ⟨rfl, hwF⟩ := run_finish song root fuel m c1 w1 a1 cF wF hen1 hws1 hrun
  have hcode := codesNoEnd_of song root hne hr
  have hok := stepsCore_outOK song root hcode k _ _ _ (stepsV_core song root k _ _ rs hk)
  have hno' : ∀ o ∈ rs.map (·.1), isRoot o = false := by
    intro o ho; obtain ⟨r, hr', rfl⟩ := List.mem_map.mp ho; exact hno r hr'
  have hfold := timeFold_items (rs.map (·.1)) hok hno' 0 none
  have hT0 : T ({} : Acc) = 0 := rfl
  have hlp0 : ({} : Acc).loopPlayTime = toInt none := rfl
  rw [hT0, hlp0, hfold, hits] at htime
  simp only [Nat.zero_add, Prod.mk.injEq] at htime
  obtain ⟨hT, hlp⟩ := htime
  rw [hvis] at he
  obtain ⟨hinvF, _⟩ := (writerInv hpc (fuel + 1)).run steps root c w initState cF wF L P hinv h
  refine ⟨ms, w1.restTime, w1.inLoop, he, hws1.restLt, ?_, hmono, hinvF⟩
  rw [hwF, flushRest_eq]
  have e1 : (T a1 : Int) = (totalDur items : Int) := by rw [hT]
  have e2 : a1.loopPlayTime = toInt (loopTime items) := by rw [hlp]; rfl
  simp only [Mds.push, hout, e1, e2, List.append_assoc]
  have hu : u16 0 = 0 := by decide
  rw [hu]
  congr 4
  split <;> rfl

/-- **the writer of a drum routine**: the track is a forest `fpre` without notes followed by a note;
the writer is run with `in_drum_mode` set.  The event list is `Emits` of the events before the
note, what is flushed in front of the note, and `DMFINISH` with the note number — and the writer
disables itself there: nothing behind the first note is converted, no terminator is written -/
theorem writer_routine {d : DataInfo} (hpc : PlatformClean d) (hne : SongNoEnd song) (fpre : List Node) (note : Event)
    (post : List Event) (hroot : root = flattenL fpre ++ note :: post) (hcl : closedL fpre)
    (hbt : BracketsTimeless (flattenL fpre)) {items : List Item}
    (hexp : Expand.expL (callK song limit) 0 false fpre = .ok items)
    (hnote : note.type = ev_NOTE) (hp : 0 ≤ note.param ∧ note.param < 94)
    (hsimple : ∀ e ∈ flattenL fpre, SimpleEv e) (hnn : ∀ e ∈ flattenL fpre, e.type ≠ ev_NOTE)
    (fuel steps : Nat) (c : Conv) (w : WState) (cF : Conv) (wF : WState)
    (L : List (List MEv)) (P : Pend) (hws : WS w) (hind : w.inDrum = true)
    (hdr : dAfterL w.drumEnabled ((flattenL fpre).map fun e => tItem e e) = false)
    (hinv : Inv song d c (w.out :: L) P)
    (h : runWriter song d root (fuel + 1) steps c w initState = .ok (cF, wF)) :
    ∃ ms r g, Emits (ctxOf d cF) w.drumEnabled w.restTime w.inLoop ((flattenL fpre).map fun e => tItem e e) ms r g ∧
      r < 65536 ∧
      wF.out = w.out ++ ms ++ (prepR r (tItem note note)).1 ++ [⟨mds_DMFINISH, u16 note.param⟩] ∧
      SubMono c cF ∧ Inv song d cF (wF.out :: L) P := by
  have hcode : codeOf song root .root = [] ++ flattenL fpre ++ (note :: post) := by simp [codeOf, hroot]
  obtain ⟨rs, ⟨k, hk, hno⟩, _, hvis⟩ := vL song root (callK song limit) limit (vcallK_spec song root hne limit) fpre hcl []
    (note :: post) .root [] false items hcode (by intro fr r h; cases h) (by simp) (by simpa using hexp)
  have hv0 : vis ([] : List Frame) = true := rfl
  rw [hv0, if_pos rfl, visL_flat fpre hcl hbt] at hvis
  simp only [List.length_nil, Nat.zero_add] at hk
  have hsim : ∀ it ∈ visItems rs, SimpleEv it.ev := by
    rw [hvis]; intro it hit
    obtain ⟨e, he, rfl⟩ := List.mem_map.mp hit
    exact hsimple e he
  have hin : w.inDrum = false ∨ ∀ it ∈ visItems rs, it.ev.type ≠ ev_NOTE := by
    right; rw [hvis]; intro it hit
    obtain ⟨e, he, rfl⟩ := List.mem_map.mp hit
    exact hnn e he
  obtain ⟨m, c1, w1, a1, ms, _, he, hout, hws1, _, hind1, hdr1, hmono, hinv1, hen1, _, hrun⟩ :=
    run_emits song root hpc fuel k _ _ rs hk hno hsim steps c w {} cF wF L P rfl hws hin hinv h
  rw [hvis] at he hdr1
  rw [hdr] at hdr1
  rw [hind] at hind1
  -- the hook call of the note
  have hc : (codeOf song root .root)[(flattenL fpre).length]? = some note := by
    rw [hcode]; simp
  have hkind : note.kind = .other := by unfold Event.kind kindOfType; simp +decide [hnote]
  have hstep := step_other song root (σ := []) hc (Or.inr hkind)
  cases m with
  | zero => simp [runWriter] at hrun
  | succ m =>
    obtain ⟨a', hst, hen', _, _⟩ := stepTrace_nonroot song root ⟨⟨.root, (flattenL fpre).length, []⟩, a1⟩ hstep rfl
    have hdis : ¬ ((!a1.enabled) = true ∨ w1.disabled = true) := by simp [hen1, hws1.notDisabled]
    simp only [runWriter] at hrun
    rw [if_neg (by simpa using hdis), hst] at hrun
    obtain ⟨it, hit⟩ : ∃ it : TraceItem, it = tItem note note := ⟨_, rfl⟩
    have hio : itemOfRecT (Out.hook note note, hookStack ⟨.root, (flattenL fpre).length, []⟩
        ⟨.root, (flattenL fpre).length + 1, []⟩ (.hook note note)) = some it := by
      rw [hit]; simp [itemOfRecT, recItemT, recItem, hookStack, hkind, insideLoop, insideJump, topIsLoop]
    rw [hio] at hrun
    simp only [Option.map_some] at hrun
    cases hh : hook song d fuel c1 w1 it with
    | error x => rw [hh] at hrun; simp only at hrun; split at hrun <;> cases hrun
    | ok r =>
      obtain ⟨c', w'⟩ := r
      rw [hh] at hrun
      simp only at hrun
      cases fuel with
      | zero => simp [hook] at hh
      | succ n =>
        have hsh : ¬ (it.insideLoop ∨ it.insideJump) := by rw [hit]; simp [tItem]
        have hh' := hh
        rw [hook_succ_eq, if_neg hsh, prep_eq] at hh'
        have ht : it.ev.type = ev_NOTE := by rw [hit]; exact hnote
        rw [hookVis_note ht] at hh'
        have hpar : it.ev.param = note.param := by rw [hit]
        have htl : it.topLoop = false := by rw [hit]
        have hden : ¬ (w1.drumEnabled = true) := by rw [hdr1]; simp
        simp only [hden, hind1, if_true, hpar, htl] at hh'
        have h1 : ¬ note.param < 0 := by omega
        have h2 : ¬ note.param > 255 := by omega
        simp only [Bool.false_eq_true, if_false, h1, h2, Except.ok.injEq, Prod.mk.injEq] at hh'
        obtain ⟨rfl, rfl⟩ := hh'
        obtain ⟨hinv', hmono'⟩ := (writerInv hpc (n + 1)).hook c1 w1 it c1 _ L P hinv1 hh
        cases m with
        | zero => simp [runWriter] at hrun
        | succ m =>
          rw [runWriter, if_pos (by simp)] at hrun
          simp only [Except.ok.injEq, Prod.mk.injEq] at hrun
          obtain ⟨rfl, rfl⟩ := hrun
          refine ⟨ms, w1.restTime, w1.inLoop, he, hws1.restLt, ?_, hmono.trans hmono', by simpa [Mds.push] using hinv'⟩
          rw [hit, hout]
          have hm : mds_DMFINISH % 256 = mds_DMFINISH := by decide
          simp [Mds.push, hm, List.append_assoc]

end

end Ctrmml.WFold
