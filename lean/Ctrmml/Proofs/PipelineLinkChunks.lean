/-
  Helper lemmas for Proofs/PipelineLinkParse: the chunk splitter of the linker's spec reader
  (`LinkSpec.chunks`) on the byte layout the RIFF library writes (`Riff.layout`).
-/
import Ctrmml.Proofs.LinkRead
import Ctrmml.Proofs.Riff
namespace Ctrmml.Pipeline
open Ctrmml Ctrmml.LinkSpec

/-- a chunk sequence with the pad byte AFTER every chunk of odd size except the last -/
def frames : List (Bytes × Bytes) → Bytes
  | [] => []
  | [c] => c.1 ++ le32 c.2.length ++ c.2
  | c :: d :: r => c.1 ++ le32 c.2.length ++ c.2 ++ (if c.2.length % 2 = 1 then [0] else []) ++ frames (d :: r)

theorem readAt_mid (pre body tail : Bytes) : readAt (pre ++ body ++ tail) pre.length body.length = body := by
  unfold readAt
  rw [List.append_assoc, List.drop_left, List.take_left]

theorem chunks_step (fuel : Nat) (t4 body tail : Bytes) (h4 : t4.length = 4) (hs : body.length < 4294967296) :
    chunks (fuel + 1) (t4 ++ le32 body.length ++ body ++ tail) =
      if tail = [] then some [(t4, body)] else
      if tail.length < body.length % 2 then none else
      match chunks fuel (tail.drop (body.length % 2)) with
      | none => none
      | some rest => some ((t4, body) :: rest) := by
  have hsz : nat32le (t4 ++ le32 body.length ++ body ++ tail) 4 = some body.length := by
    rw [Linker.nat32le_eq, List.append_assoc, ← h4]
    exact rdLe32_le32 body.length hs t4 (body ++ tail)
  have hbody : readAt (t4 ++ le32 body.length ++ body ++ tail) 8 body.length = body := by
    have := readAt_mid (t4 ++ le32 body.length) body tail
    simpa [h4] using this
  have htake : (t4 ++ le32 body.length ++ body ++ tail).take 4 = t4 := by
    rw [List.append_assoc, List.append_assoc, ← h4, List.take_left]
  have hlen : (t4 ++ le32 body.length ++ body ++ tail).length = 8 + body.length + tail.length := by
    simp [h4]; omega
  have hdrop : (t4 ++ le32 body.length ++ body ++ tail).drop (8 + body.length + body.length % 2) = tail.drop (body.length % 2) := by
    have : 8 + body.length + body.length % 2 = (t4 ++ le32 body.length ++ body).length + body.length % 2 := by simp [h4]; omega
    rw [this, Linker.drop_append_add]
  generalize t4 ++ le32 body.length ++ body ++ tail = b at hsz hbody htake hlen hdrop
  match b, hlen with
  | [], hlen => simp at hlen; omega
  | x :: xs, hlen =>
    simp only [chunks, hsz, hbody, htake, hlen, hdrop, ne_eq, not_true_eq_false, if_false]
    by_cases ht : tail = []
    · subst ht; simp
    · have : 0 < tail.length := List.length_pos_iff.mpr ht
      rw [if_neg (by omega), if_neg ht]
      by_cases h2 : tail.length < body.length % 2
      · rw [if_pos (by omega), if_pos h2]
      · rw [if_neg (by omega), if_neg h2]
        cases chunks fuel (tail.drop (body.length % 2)) <;> rfl

def pairOf (c : Riff.Tree) : Bytes × Bytes := (be32 c.typeOf, c.body)

theorem layout_frames : ∀ (cs : List Riff.Tree) (n : Nat),
    Riff.layout n cs = (if n % 2 = 1 ∧ cs ≠ [] then [0] else []) ++ frames (cs.map pairOf)
  | [], n => by simp [Riff.layout, frames]
  | [c], n => by
    simp only [Riff.layout, List.map_cons, List.map_nil, frames, pairOf, List.append_nil, beq_iff_eq]
    by_cases h : n % 2 = 1 <;> simp [h]
  | c :: d :: r, n => by
    rw [Riff.layout, layout_frames (d :: r)]
    simp only [List.map_cons, frames, pairOf, beq_iff_eq]
    have : (n + n % 2 + 8 + c.body.length) % 2 = c.body.length % 2 := by omega
    rw [this]
    by_cases h : n % 2 = 1 <;> by_cases h2 : c.body.length % 2 = 1 <;> simp [h, h2]

theorem frames_length_ge : ∀ (l : List (Bytes × Bytes)), (∀ c ∈ l, c.1.length = 4) → 8 * l.length ≤ (frames l).length
  | [], _ => by simp [frames]
  | [c], h => by have := h c (by simp); simp [frames]; omega
  | c :: d :: r, h => by
    have h1 := h c (by simp)
    have := frames_length_ge (d :: r) (fun x hx => h x (by simp [hx]))
    simp only [frames, List.length_append, List.length_cons, le32_length] at this ⊢
    omega

theorem frames_body_le : ∀ (l : List (Bytes × Bytes)), ∀ c ∈ l, c.2.length ≤ (frames l).length
  | [], c, hc => by simp at hc
  | [d], c, hc => by
    simp only [List.mem_singleton] at hc; subst hc
    simp only [frames, List.length_append]; omega
  | d :: e :: r, c, hc => by
    rcases List.mem_cons.mp hc with rfl | hc'
    · simp only [frames, List.length_append]; omega
    · have := frames_body_le (e :: r) c hc'
      simp only [frames, List.length_append] at this ⊢; omega

theorem layout4 (cs : List Riff.Tree) : Riff.layout 4 cs = frames (cs.map pairOf) := by
  rw [layout_frames]; simp

/-- the spec reader's splitter on a well-laid chunk sequence -/
theorem chunks_frames : ∀ (l : List (Bytes × Bytes)) (fuel : Nat), l.length < fuel →
    (∀ c ∈ l, c.1.length = 4 ∧ c.2.length < 4294967296) → chunks fuel (frames l) = some l
  | [], fuel, hf, _ => by
    obtain ⟨f, rfl⟩ : ∃ f, fuel = f + 1 := ⟨fuel - 1, by omega⟩
    rfl
  | [c], fuel, hf, h => by
    obtain ⟨f, rfl⟩ : ∃ f, fuel = f + 1 := ⟨fuel - 1, by omega⟩
    have hc := h c (by simp)
    have := chunks_step f c.1 c.2 [] hc.1 hc.2
    simpa [frames] using this
  | c :: d :: r, fuel, hf, h => by
    obtain ⟨f, rfl⟩ : ∃ f, fuel = f + 1 := ⟨fuel - 1, by omega⟩
    have hc := h c (by simp)
    have ih := chunks_frames (d :: r) f (by simp at hf ⊢; omega) (fun x hx => h x (by simp [hx]))
    have hd := h d (by simp)
    have hne : frames (d :: r) ≠ [] := by
      intro he
      have := frames_length_ge (d :: r) (fun x hx => (h x (by simp [hx])).1)
      rw [he] at this; simp at this
    have hstep := chunks_step f c.1 c.2 ((if c.2.length % 2 = 1 then [0] else []) ++ frames (d :: r)) hc.1 hc.2
    have hdrop : ((if c.2.length % 2 = 1 then [0] else []) ++ frames (d :: r)).drop (c.2.length % 2) = frames (d :: r) := by
      by_cases h2 : c.2.length % 2 = 1
      · simp [h2]
      · have : c.2.length % 2 = 0 := by omega
        simp [this]
    have hnil : ¬ ((if c.2.length % 2 = 1 then [0] else []) ++ frames (d :: r) = []) := by
      simp [hne]
    have hlen : ¬ (((if c.2.length % 2 = 1 then [0] else []) ++ frames (d :: r)).length < c.2.length % 2) := by
      have : 0 < (frames (d :: r)).length := List.length_pos_iff.mpr hne
      simp only [List.length_append]
      omega
    rw [hdrop, if_neg hnil, if_neg hlen, ih] at hstep
    have e : frames (c :: d :: r) = c.1 ++ le32 c.2.length ++ c.2 ++ ((if c.2.length % 2 = 1 then [0] else []) ++ frames (d :: r)) := by
      simp [frames]
    rw [e, hstep]
end Ctrmml.Pipeline
