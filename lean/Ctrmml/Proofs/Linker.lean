/-
  Helper lemmas for C10 (no property statements here): add_unique_data, the character
  classes of keyify_string, the fuel bound of unique_string, the generic padded layout used
  by both loops of get_seq_data, write_be16 / the relocation loop, the ordered group map.
-/
import Ctrmml.Model.Linker
namespace Ctrmml.Linker
open Ctrmml

/-! ### add_unique_data -/

theorem findUnique_some {bank : List Bytes} {d : Bytes} {i : Nat} (h : findUnique bank d = some i) :
    bank[i]? = some d ∧ ∀ j, j < i → bank[j]? ≠ some d := by
  unfold findUnique at h
  obtain ⟨hlt, hp, hmin⟩ := List.findIdx?_eq_some_iff_getElem.mp h
  have hp' : bank[i] = d := by simpa using hp
  refine ⟨by rw [List.getElem?_eq_getElem hlt, hp'], ?_⟩
  intro j hj hc
  have hjl : j < bank.length := by omega
  have := hmin j hj
  rw [List.getElem?_eq_getElem hjl] at hc
  simp only [Option.some.injEq] at hc
  simp [hc] at this

theorem findUnique_none {bank : List Bytes} {d : Bytes} (h : findUnique bank d = none) : d ∉ bank := by
  unfold findUnique at h
  intro hm
  have := List.findIdx?_eq_none_iff.mp h d hm
  simp at this

theorem findUnique_of_mem {bank : List Bytes} {d : Bytes} (hm : d ∈ bank) : ∃ i, findUnique bank d = some i := by
  cases h : findUnique bank d with
  | some i => exact ⟨i, rfl⟩
  | none => exact absurd hm (findUnique_none h)

/-! ### characters -/

def good (c : UInt8) : Bool := isDigit c || isUpper c || c == 95

theorem keyifyRaw_good (s : Bytes) : ∀ c ∈ keyifyRaw s, good c = true := by
  induction s with
  | nil => simp [keyifyRaw]
  | cons a s ih =>
    unfold keyifyRaw
    split
    · intro c hc
      rcases List.mem_cons.mp hc with rfl | hc
      · decide
      · exact ih c hc
    · split
      · rename_i h
        intro c hc
        rcases List.mem_cons.mp hc with rfl | hc
        · simpa [good] using h
        · exact ih c hc
      · split
        · rename_i h1 h2 h3
          intro c hc
          rcases List.mem_cons.mp hc with rfl | hc
          · simp only [isLower, Bool.and_eq_true, decide_eq_true_eq] at h3
            obtain ⟨l1, l2⟩ := h3
            have l1' : (97 : UInt8).toNat ≤ a.toNat := UInt8.le_iff_toNat_le.mp l1
            have l2' : a.toNat ≤ (122 : UInt8).toNat := UInt8.le_iff_toNat_le.mp l2
            have e : (a - 32).toNat = a.toNat - 32 := by
              rw [UInt8.toNat_sub_of_le]
              · rfl
              · exact UInt8.le_iff_toNat_le.mpr (by simp at l1' ⊢; omega)
            have u1 : (65 : UInt8) ≤ a - 32 := UInt8.le_iff_toNat_le.mpr (by rw [e]; simp at l1' ⊢; omega)
            have u2 : a - 32 ≤ (90 : UInt8) := UInt8.le_iff_toNat_le.mpr (by rw [e]; simp at l2' ⊢; omega)
            simp [good, isUpper, u1, u2]
          · exact ih c hc
        · exact ih

theorem good_not_space {c : UInt8} (h : good c = true) : isSpace c = false := by
  simp only [good, isDigit, isUpper, isSpace, Bool.or_eq_true, Bool.and_eq_true, decide_eq_true_eq, beq_iff_eq,
    UInt8.le_iff_toNat_le, ← UInt8.toNat_inj, Bool.or_eq_false_iff, Bool.and_eq_false_iff, beq_eq_false_iff_ne, ne_eq,
    decide_eq_false_iff_not] at h ⊢
  simp at h ⊢
  omega

theorem keyifyRaw_fix (s : Bytes) (h : ∀ c ∈ s, good c = true) : keyifyRaw s = s := by
  induction s with
  | nil => rfl
  | cons a s ih =>
    have ha := h a (List.mem_cons_self ..)
    have hs := ih (fun c hc => h c (List.mem_cons_of_mem _ hc))
    unfold keyifyRaw
    rw [good_not_space ha]
    have : (isDigit a || isUpper a || a == 95) = true := ha
    simp only [Bool.false_eq_true, if_false, this, if_true, hs]

/-- the image of keyify: only `[A-Z0-9_]`, never beginning with a digit -/
def KeyOk (s : Bytes) : Prop := (∀ c ∈ s, good c = true) ∧ ∀ c r, s = c :: r → isDigit c = false

theorem keyify_ok (s : Bytes) : KeyOk (keyify s) := by
  unfold keyify
  have hg := keyifyRaw_good s
  split
  · exact ⟨by simp, by intro c r h; cases h⟩
  · rename_i c cs heq
    rw [heq] at hg
    split
    · rename_i hd
      refine ⟨?_, ?_⟩
      · intro x hx
        rcases List.mem_cons.mp hx with rfl | hx
        · decide
        · exact hg x hx
      · intro x r h
        cases h; decide
    · rename_i hd
      refine ⟨hg, ?_⟩
      intro x r h
      cases h
      simpa using hd

theorem keyify_fix {s : Bytes} (h : KeyOk s) : keyify s = s := by
  unfold keyify
  rw [keyifyRaw_fix s h.1]
  cases s with
  | nil => rfl
  | cons c r => simp [h.2 c r rfl]

theorem decAux_digits (f n : Nat) (acc : Bytes) (h : ∀ c ∈ acc, isDigit c = true) :
    ∀ c ∈ decAux f n acc, isDigit c = true := by
  induction f generalizing n acc with
  | zero => simpa [decAux] using h
  | succ f ih =>
    unfold decAux
    have hd : isDigit (UInt8.ofNat (48 + n % 10)) = true := by
      have hall : ∀ k, k < 10 → isDigit (UInt8.ofNat (48 + k)) = true := by decide
      exact hall _ (Nat.mod_lt _ (by omega))
    have h' : ∀ c ∈ UInt8.ofNat (48 + n % 10) :: acc, isDigit c = true := by
      intro c hc
      rcases List.mem_cons.mp hc with rfl | hc
      · exact hd
      · exact h c hc
    simp only
    split
    · exact h'
    · exact ih _ _ h'

theorem decimal_digits (n : Nat) : ∀ c ∈ decimal n, isDigit c = true :=
  decAux_digits _ _ _ (by simp)

theorem digit_good {c : UInt8} (h : isDigit c = true) : good c = true := by simp [good, h]

/-- appending `_<number>` to a key gives a key again, strictly longer -/
theorem suffix_ok {s : Bytes} (h : KeyOk s) (n : Nat) : KeyOk (s ++ [95] ++ decimal n) := by
  refine ⟨?_, ?_⟩
  · intro c hc
    simp only [List.append_assoc, List.mem_append, List.mem_cons, List.not_mem_nil, or_false] at hc
    rcases hc with hc | rfl | hc
    · exact h.1 c hc
    · decide
    · exact digit_good (decimal_digits n c hc)
  · intro c r he
    cases s with
    | nil =>
      simp only [List.nil_append, List.cons_append] at he
      cases he; decide
    | cons a s' =>
      simp only [List.cons_append, List.cons.injEq] at he
      rw [← he.1]; exact h.2 a s' rfl

/-! ### the counter map -/

theorem get_bump_self (m : Counter) (k : Bytes) : (m.bump k).get k = m.get k + 1 := by
  induction m with
  | nil => simp [Counter.bump, Counter.get]
  | cons p m ih =>
    obtain ⟨k', v⟩ := p
    unfold Counter.bump
    by_cases h : k' = k
    · simp [h, Counter.get]
    · simp only [h, if_false, Counter.get, ih]

theorem get_bump_other (m : Counter) (k j : Bytes) (h : j ≠ k) : (m.bump k).get j = m.get j := by
  induction m with
  | nil =>
    simp only [Counter.bump, Counter.get]
    rw [if_neg (fun e => h e.symm)]
  | cons p m ih =>
    obtain ⟨k', v⟩ := p
    unfold Counter.bump
    by_cases hk : k' = k
    · subst hk
      simp only [if_true, Counter.get]
      by_cases hj : k' = j
      · exact absurd hj.symm h
      · simp [hj]
    · simp only [hk, if_false, Counter.get, ih]

theorem get_le_bump (m : Counter) (k j : Bytes) : m.get j ≤ (m.bump k).get j := by
  by_cases h : j = k
  · subst h; rw [get_bump_self]; omega
  · rw [get_bump_other m k j h]; exact Nat.le_refl _

/-- number of keys with a positive count and at least `n` bytes -/
def longKeys (m : Counter) (n : Nat) : Nat := (m.filter fun p => decide (n ≤ p.1.length)).length

theorem bump_length_present (m : Counter) (k : Bytes) (h : Counter.get m k ≠ 0) :
    ∀ n, longKeys (Counter.bump m k) n = longKeys m n := by
  intro n
  induction m with
  | nil => simp [Counter.get] at h
  | cons p m ih =>
    obtain ⟨k', v⟩ := p
    unfold Counter.bump
    by_cases hk : k' = k
    · simp only [hk, if_true, longKeys, List.filter_cons]
      split <;> simp
    · have h' : Counter.get m k ≠ 0 := by simpa [Counter.get, hk] using h
      have := ih h'
      simp only [hk, if_false, longKeys, List.filter_cons] at this ⊢
      split <;> simp [this]

theorem get_pos_mem (m : Counter) (k : Bytes) (h : Counter.get m k ≠ 0) : ∃ v, (k, v) ∈ m := by
  induction m with
  | nil => simp [Counter.get] at h
  | cons p m ih =>
    obtain ⟨k', v⟩ := p
    by_cases hk : k' = k
    · exact ⟨v, by simp [hk]⟩
    · have h' : Counter.get m k ≠ 0 := by simpa [Counter.get, hk] using h
      obtain ⟨v', hv⟩ := ih h'
      exact ⟨v', List.mem_cons_of_mem _ hv⟩

theorem longKeys_mono (m : Counter) (a b : Nat) (h : a ≤ b) : longKeys m b ≤ longKeys m a := by
  unfold longKeys
  induction m with
  | nil => simp
  | cons q m ihm =>
    simp only [List.filter_cons]
    by_cases h1 : b ≤ q.1.length
    · have h2 : a ≤ q.1.length := by omega
      simp only [h1, h2, decide_true, if_true, List.length_cons]; omega
    · simp only [h1, decide_false, Bool.false_eq_true, if_false]
      split
      · simp only [List.length_cons]; omega
      · exact ihm

theorem longKeys_drop (m : Counter) (k : Bytes) (v : Nat) (hm : (k, v) ∈ m) (n : Nat) (hn : k.length < n) :
    longKeys m n < longKeys m k.length := by
  induction m with
  | nil => cases hm
  | cons p m ih =>
    have mono := longKeys_mono m k.length n (by omega)
    rcases List.mem_cons.mp hm with rfl | hm
    · simp only [longKeys, List.filter_cons]
      have h1 : ¬ n ≤ k.length := by omega
      simp only [h1, decide_false, Bool.false_eq_true, if_false, Nat.le_refl, decide_true, if_true, List.length_cons]
      unfold longKeys at mono; omega
    · have := ih hm
      simp only [longKeys, List.filter_cons] at this ⊢
      by_cases h1 : n ≤ p.1.length
      · have h2 : k.length ≤ p.1.length := by omega
        simp only [h1, h2, decide_true, if_true, List.length_cons]; omega
      · simp only [h1, decide_false, Bool.false_eq_true, if_false]
        split
        · simp only [List.length_cons]; omega
        · exact this

theorem longKeys_le (m : Counter) (n : Nat) : longKeys m n ≤ m.length := by
  unfold longKeys; exact List.length_filter_le _ _

/-- the fuel bound: `unique_string` returns whenever the fuel exceeds the number of keys at
least as long as the keyified input; the result is a key that was unused, now used once,
and no count decreases -/
theorem uniqueGo_spec (f : Nat) (input : Bytes) (m : Counter) (hf : longKeys m (keyify input).length < f) :
    ∃ s m', uniqueGo f input m = some (s, m') ∧ KeyOk s ∧ m.get s = 0 ∧ m'.get s = 1 ∧
      (keyify input).length ≤ s.length ∧ (∀ k, m.get k ≤ m'.get k) ∧
      (∀ c ∈ keyify input, c ∈ s) := by
  induction f generalizing input m with
  | zero => omega
  | succ f ih =>
    unfold uniqueGo
    simp only
    by_cases h1 : (m.bump (keyify input)).get (keyify input) ≠ 1
    · rw [if_pos h1]
      rw [get_bump_self] at h1
      have hpos : m.get (keyify input) ≠ 0 := by omega
      have hk := keyify_ok input
      have hsuf := suffix_ok hk ((m.bump (keyify input)).get (keyify input) - 1)
      generalize hnx : keyify input ++ [95] ++ decimal ((m.bump (keyify input)).get (keyify input) - 1) = nx at *
      have hfix : keyify nx = nx := keyify_fix hsuf
      have hlen : (keyify input).length < nx.length := by rw [← hnx]; simp <;> omega
      obtain ⟨v, hv⟩ := get_pos_mem m _ hpos
      have hdrop := longKeys_drop m _ v hv nx.length hlen
      have hfuel : longKeys (m.bump (keyify input)) (keyify nx).length < f := by
        rw [hfix, bump_length_present m _ hpos]; omega
      obtain ⟨s, m', e1, e2, e3, e4, e5, e6, e7⟩ := ih nx (m.bump (keyify input)) hfuel
      refine ⟨s, m', e1, e2, ?_, e4, ?_, ?_, ?_⟩
      · have := get_le_bump m (keyify input) s; omega
      · rw [hfix] at e5; omega
      · intro k; exact Nat.le_trans (get_le_bump m _ k) (e6 k)
      · intro c hc
        apply e7; rw [hfix, ← hnx]; simp [hc]
    · rw [if_neg h1]
      have h1' : (m.bump (keyify input)).get (keyify input) = 1 := by
        rcases Nat.lt_or_ge 1 ((m.bump (keyify input)).get (keyify input)) with h | h
        · exact absurd (by omega) h1
        · rw [get_bump_self] at h ⊢; omega
      refine ⟨_, _, rfl, keyify_ok input, ?_, h1', Nat.le_refl _, fun k => get_le_bump m _ k, fun c hc => hc⟩
      rw [get_bump_self] at h1'; omega

theorem uniqueString_spec (input : Bytes) (m : Counter) :
    ∃ s m', uniqueString input m = some (s, m') ∧ KeyOk s ∧ m.get s = 0 ∧ m'.get s = 1 ∧
      (∀ k, m.get k ≤ m'.get k) ∧ (∀ c ∈ keyify input, c ∈ s) := by
  obtain ⟨s, m', h1, h2, h3, h4, _, h6, h7⟩ :=
    uniqueGo_spec (m.length + 1) input m (by have := longKeys_le m (keyify input).length; omega)
  exact ⟨s, m', h1, h2, h3, h4, h6, h7⟩

/-! ### the generic padded layout (both loops of get_seq_data) -/

def layGen : List Bytes → Nat → Bytes × List Nat × Nat
  | [], off => ([], [], off)
  | e :: es, off =>
    (e ++ padOf off e ++ (layGen es (nextOff off e)).1, off :: (layGen es (nextOff off e)).2.1, (layGen es (nextOff off e)).2.2)

theorem pad_len (off : Nat) (e : Bytes) : (e ++ padOf off e).length + off = nextOff off e := by
  unfold padOf nextOff; split <;> simp <;> omega

theorem layGen_len (es : List Bytes) (off : Nat) :
    (layGen es off).1.length + off = (layGen es off).2.2 ∧ (layGen es off).2.1.length = es.length := by
  induction es generalizing off with
  | nil => simp [layGen]
  | cons e es ih =>
    simp only [layGen]
    have := ih (nextOff off e)
    have hp := pad_len off e
    simp only [List.length_append, List.length_cons] at hp ⊢
    omega

theorem drop_len_add (a b : Bytes) (i : Nat) : (a ++ b).drop (a.length + i) = b.drop i := by
  induction a with
  | nil => simp
  | cons x a ih => rw [List.length_cons, Nat.add_right_comm, List.cons_append, List.drop_succ_cons]; exact ih

theorem take_drop_append_left (a b : Bytes) (k n : Nat) (h : k + n ≤ a.length) :
    ((a ++ b).drop k).take n = (a.drop k).take n := by
  rw [List.drop_append_of_le_length (by omega), List.take_append_of_le_length (by simp; omega)]

theorem layGen_spec (es : List Bytes) (off i : Nat) (e : Bytes) (h : es[i]? = some e) :
    ∃ o, (layGen es off).2.1[i]? = some o ∧ off ≤ o ∧ o + e.length ≤ (layGen es off).2.2 ∧
      ((layGen es off).1.drop (o - off)).take e.length = e ∧ (off % 2 = 0 → o % 2 = 0) := by
  induction es generalizing off i with
  | nil => simp at h
  | cons a es ih =>
    cases i with
    | zero =>
      simp only [List.getElem?_cons_zero, Option.some.injEq] at h
      subst h
      have hl := (layGen_len (a :: es) off).1
      refine ⟨off, by simp [layGen], Nat.le_refl _, ?_, ?_, fun h => h⟩
      · simp only [layGen] at hl ⊢
        simp only [List.length_append] at hl
        omega
      · simp only [layGen, Nat.sub_self, List.drop_zero, List.append_assoc]
        rw [List.take_append_of_le_length (Nat.le_refl _), List.take_length]
    | succ i =>
      simp only [List.getElem?_cons_succ] at h
      obtain ⟨o, h1, h2, h3, h4, h5⟩ := ih (nextOff off a) i h
      have hp := pad_len off a
      have hge : off + a.length ≤ nextOff off a := by unfold nextOff; split <;> omega
      simp only [layGen]
      refine ⟨o, by simpa using h1, by omega, h3, ?_, ?_⟩
      · have e1 : o - off = (a ++ padOf off a).length + (o - nextOff off a) := by omega
        rw [e1, drop_len_add]
        exact h4
      · intro hev
        apply h5
        unfold nextOff; split <;> omega

theorem layoutData_eq (es : List Bytes) (off : Nat) (r : Bytes × List Nat × Nat)
    (h : layoutData es off = .ok r) : r = layGen es off ∧ (es ≠ [] → r.2.2 < Tables.link_dataLimit) := by
  induction es generalizing off r with
  | nil =>
    simp only [layoutData, Except.ok.injEq] at h
    subst h; exact ⟨rfl, fun h => absurd rfl h⟩
  | cons e es ih =>
    unfold layoutData at h
    by_cases hlim : nextOff off e ≥ Tables.link_dataLimit
    · rw [if_pos hlim] at h; cases h
    · rw [if_neg hlim] at h
      cases hrec : layoutData es (nextOff off e) with
      | error x => rw [hrec] at h; cases h
      | ok t =>
        obtain ⟨b, os, fin⟩ := t
        rw [hrec] at h
        simp only [Except.ok.injEq] at h
        subst h
        obtain ⟨h1, h2⟩ := ih _ _ hrec
        refine ⟨?_, fun _ => ?_⟩
        · simp only [layGen, ← h1]
        · cases es with
          | nil =>
            simp only [layoutData, Except.ok.injEq, Prod.mk.injEq] at hrec
            simp only; rw [← hrec.2.2]; omega
          | cons x xs => exact h2 (by simp)

/-! ### write_be16 and the relocation loop -/

theorem writeBe16_inside (d : Bytes) (pos v : Nat) (h : pos + 2 ≤ d.length) :
    (writeBe16 d pos v).length = d.length ∧
    (writeBe16 d pos v)[pos]? = some (byteOf (v / 256)) ∧
    (writeBe16 d pos v)[pos + 1]? = some (byteOf v) ∧
    ∀ p, p ≠ pos → p ≠ pos + 1 → (writeBe16 d pos v)[p]? = d[p]? := by
  unfold writeBe16
  have hn : ¬ d.length < pos + 2 := by omega
  simp only [hn, if_false]
  refine ⟨by simp, ?_, ?_, ?_⟩
  · rw [List.getElem?_set_self (by simp; omega)]
  · rw [List.getElem?_set_ne (by omega), List.getElem?_set_self (by omega)]
  · intro p h1 h2
    rw [List.getElem?_set_ne (by omega), List.getElem?_set_ne (by omega)]

/-- every slot of the patch table lies inside the song and no two slots overlap -/
def PatchWf (n : Nat) : List (Nat × Nat) → Prop
  | [] => True
  | (a, _) :: rest => a + 2 ≤ n ∧ (∀ q ∈ rest, a + 2 ≤ q.1 ∨ q.1 + 2 ≤ a) ∧ PatchWf n rest

theorem patchSong_spec (offs : List Nat) (P : List (Nat × Nat)) (d d' : Bytes) (wf : PatchWf d.length P)
    (h : patchSong offs P d = some d') :
    d'.length = d.length ∧
    (∀ p, (∀ q ∈ P, p ≠ q.1 ∧ p ≠ q.1 + 1) → d'[p]? = d[p]?) ∧
    (∀ q ∈ P, ∃ o, offs[q.2 % 32768]? = some o ∧
        d'[q.1]? = some (byteOf ((o ||| (q.2 / 32768 % 2 * 32768)) / 256)) ∧
        d'[q.1 + 1]? = some (byteOf (o ||| (q.2 / 32768 % 2 * 32768)))) := by
  induction P generalizing d with
  | nil =>
    simp only [patchSong, Option.some.injEq] at h
    subst h
    exact ⟨rfl, fun _ _ => rfl, by simp⟩
  | cons q P ih =>
    obtain ⟨addr, v⟩ := q
    obtain ⟨w1, w2, w3⟩ := wf
    unfold patchSong at h
    split at h
    · cases h
    · rename_i o ho
      obtain ⟨l1, l2, l3, l4⟩ := writeBe16_inside d addr (o ||| (v / 32768 % 2 * 32768)) w1
      have wf' : PatchWf (writeBe16 d addr (o ||| (v / 32768 % 2 * 32768))).length P := by rw [l1]; exact w3
      obtain ⟨i1, i2, i3⟩ := ih _ wf' h
      refine ⟨by rw [i1, l1], ?_, ?_⟩
      · intro p hp
        have hq := hp (addr, v) (List.mem_cons_self ..)
        rw [i2 p (fun q hq' => hp q (List.mem_cons_of_mem _ hq')), l4 p hq.1 hq.2]
      · intro q hq
        rcases List.mem_cons.mp hq with rfl | hq
        · refine ⟨o, ho, ?_, ?_⟩
          · rw [i2 addr (fun q' hq' => by have := w2 q' hq'; constructor <;> omega)]; exact l2
          · rw [i2 (addr + 1) (fun q' hq' => by have := w2 q' hq'; constructor <;> omega)]; exact l3
        · exact i3 q hq

/-- the songs handed to the generic layout -/
def patchAll (offs : List Nat) : List SeqData → Option (List Bytes)
  | [] => some []
  | s :: ss =>
    match patchSong offs s.patch s.data, patchAll offs ss with
    | some d, some ds => some (d :: ds)
    | _, _ => none

theorem layoutSongs_eq (offs : List Nat) (ss : List SeqData) (off : Nat) (r : Bytes × List Nat × Nat)
    (h : layoutSongs offs ss off = .ok r) : ∃ ds, patchAll offs ss = some ds ∧ r = layGen ds off := by
  induction ss generalizing off r with
  | nil =>
    simp only [layoutSongs, Except.ok.injEq] at h
    subst h; exact ⟨[], rfl, rfl⟩
  | cons s ss ih =>
    unfold layoutSongs at h
    cases hd : patchSong offs s.patch s.data with
    | none => rw [hd] at h; cases h
    | some d =>
      rw [hd] at h
      simp only at h
      cases hrec : layoutSongs offs ss (nextOff off d) with
      | error x => rw [hrec] at h; cases h
      | ok t =>
        obtain ⟨b, os, fin⟩ := t
        rw [hrec] at h
        simp only [Except.ok.injEq] at h
        subst h
        obtain ⟨ds, h1, h2⟩ := ih _ _ hrec
        refine ⟨d :: ds, by simp [patchAll, hd, h1], ?_⟩
        simp only [layGen, ← h2]

theorem patchAll_get (offs : List Nat) (ss : List SeqData) (ds : List Bytes) (h : patchAll offs ss = some ds)
    (i : Nat) (s : SeqData) (hs : ss[i]? = some s) : ∃ d, ds[i]? = some d ∧ patchSong offs s.patch s.data = some d := by
  induction ss generalizing ds i with
  | nil => simp at hs
  | cons a ss ih =>
    unfold patchAll at h
    split at h
    · rename_i d ds' hd hds
      simp only [Option.some.injEq] at h
      subst h
      cases i with
      | zero =>
        simp only [List.getElem?_cons_zero, Option.some.injEq] at hs
        subst hs; exact ⟨d, rfl, hd⟩
      | succ i =>
        simp only [List.getElem?_cons_succ] at hs ⊢
        exact ih ds' hds i hs
    · cases h

theorem flatMap_be32_read (l : List Nat) (i o : Nat) (h : l[i]? = some o) (rest : Bytes) :
    ((l.flatMap be32 ++ rest).drop (4 * i)).take 4 = be32 o := by
  induction l generalizing i with
  | nil => simp at h
  | cons a l ih =>
    cases i with
    | zero =>
      simp only [List.getElem?_cons_zero, Option.some.injEq] at h
      subst h
      simp [List.flatMap_cons, be32]
    | succ i =>
      simp only [List.getElem?_cons_succ] at h
      have : 4 * (i + 1) = (be32 a).length + 4 * i := by simp; omega
      rw [List.flatMap_cons, List.append_assoc, this, drop_len_add]
      exact ih i h

/-! ### the ordered group map -/

theorem songs_seqInsert_length (bank : List (Bytes × List SeqData)) (key : Bytes) (sd : SeqData) :
    ((seqInsert bank key sd).flatMap (·.2)).length = (bank.flatMap (·.2)).length + 1 := by
  induction bank with
  | nil => simp [seqInsert]
  | cons p bank ih =>
    obtain ⟨k, l⟩ := p
    unfold seqInsert
    split
    · simp [List.flatMap_cons] <;> omega
    · split
      · simp [List.flatMap_cons] <;> omega
      · simp only [List.flatMap_cons, List.length_append, ih]; omega

end Ctrmml.Linker

namespace Ctrmml.Linker
open Ctrmml

/-! ### get_seq_data: where things are in the linked bank -/

def rd (b : Bytes) (pos len : Nat) : Bytes := (b.drop pos).take len

theorem flatMap_be32_length (l : List Nat) : (l.flatMap be32).length = 4 * l.length := by
  induction l with
  | nil => rfl
  | cons a l ih => rw [List.flatMap_cons, List.length_append, ih, List.length_cons]; simp; omega

theorem patchAll_length (offs : List Nat) (ss : List SeqData) (ds : List Bytes) (h : patchAll offs ss = some ds) :
    ds.length = ss.length := by
  induction ss generalizing ds with
  | nil => simp only [patchAll, Option.some.injEq] at h; subst h; rfl
  | cons a ss ih =>
    unfold patchAll at h
    split at h
    · rename_i d ds' hd hds
      simp only [Option.some.injEq] at h
      subst h
      simp [ih ds' hds]
    · cases h

/-- the decomposition of a successful `get_seq_data` -/
structure Laid (l : Linker) (bank : Bytes) : Prop where
  ex : ∃ (offs soffs : List Nat) (ds : List Bytes) (off2 : Nat) (wt : Bytes),
    let off0 := 4 + 4 * l.songs.length
    let D := layGen l.dataBank off0
    let S := layGen ds D.2.2
    offs = D.2.1 ∧ soffs = S.2.1 ∧ off2 = S.2.2 ∧ patchAll offs l.songs = some ds ∧
    (l.dataBank ≠ [] → D.2.2 < 32768) ∧
    bank = (be32 Tables.link_magic ++ be16 (Tables.MDSDRV_SEQ_VERSION_MAJOR * 256 ||| Tables.MDSDRV_SEQ_VERSION_MINOR) ++
            be16 l.songs.length ++ be32 off2) ++ soffs.flatMap be32 ++ D.1 ++ S.1 ++ (be16 l.wave.samples.length ++ wt)

theorem getSeqData_laid (l : Linker) (bank : Bytes) (h : getSeqData l = .ok bank) : Laid l bank := by
  unfold getSeqData at h
  simp only at h
  have hoff0 : headerSize l.seqCount - Tables.link_ptrBase = 4 + 4 * l.songs.length := by
    simp only [headerSize, Tables.link_headerBase, Tables.link_headerPerSong, Tables.link_ptrBase, Linker.seqCount]; omega
  rw [hoff0] at h
  cases hD : layoutData l.dataBank (4 + 4 * l.songs.length) with
  | error e => rw [hD] at h; cases h
  | ok t =>
    obtain ⟨dbytes, offs, off1⟩ := t
    rw [hD] at h
    simp only at h
    obtain ⟨eD, hlim⟩ := layoutData_eq _ _ _ hD
    cases hS : layoutSongs offs l.songs off1 with
    | error e => rw [hS] at h; cases h
    | ok t =>
      obtain ⟨sbytes, soffs, off2⟩ := t
      rw [hS] at h
      simp only at h
      obtain ⟨ds, hpa, eS⟩ := layoutSongs_eq _ _ _ _ hS
      cases hW : waveTable l.dataBank offs l.wave.samples with
      | error e => rw [hW] at h; cases h
      | ok wt =>
        rw [hW] at h
        simp only [Except.ok.injEq] at h
        have e1 : dbytes = (layGen l.dataBank (4 + 4 * l.songs.length)).1 := by rw [← eD]
        have e2 : offs = (layGen l.dataBank (4 + 4 * l.songs.length)).2.1 := by rw [← eD]
        have e3 : off1 = (layGen l.dataBank (4 + 4 * l.songs.length)).2.2 := by rw [← eD]
        refine ⟨offs, soffs, ds, off2, wt, e2, ?_, ?_, hpa, ?_, ?_⟩
        · rw [← e3, ← eS]
        · rw [← e3, ← eS]
        · intro hne; have := hlim hne; simp only [Tables.link_dataLimit] at this; rw [← e3]; exact this
        · rw [← h, ← e1, ← e3, ← eS]
          simp only [Linker.seqCount, List.append_assoc]

/-- song `i`: its table entry and its relocated bytes in the bank -/
theorem laid_song {l : Linker} {bank : Bytes} (L : Laid l bank) (i : Nat) (s : SeqData) (hs : l.songs[i]? = some s) :
    ∃ (o : Nat) (d : Bytes) (offs : List Nat), offs = (layGen l.dataBank (4 + 4 * l.songs.length)).2.1 ∧
      patchSong offs s.patch s.data = some d ∧
      rd bank (12 + 4 * i) 4 = be32 o ∧ o % 2 = 0 ∧ 4 + 4 * l.songs.length ≤ o ∧ rd bank (8 + o) d.length = d := by
  obtain ⟨offs, soffs, ds, off2, wt, h1, h2, h3, h4, h5, h6⟩ := L.ex
  obtain ⟨d, hd, hp⟩ := patchAll_get offs l.songs ds h4 i s hs
  generalize hD : layGen l.dataBank (4 + 4 * l.songs.length) = D at *
  obtain ⟨o, g1, g2, g3, g4, g5⟩ := layGen_spec ds D.2.2 i d hd
  have hDl := layGen_len l.dataBank (4 + 4 * l.songs.length)
  rw [hD] at hDl
  have hDeven : D.2.2 % 2 = 0 := by
    have : ∀ (es : List Bytes) (off : Nat), off % 2 = 0 → (layGen es off).2.2 % 2 = 0 := by
      intro es
      induction es with
      | nil => intro off h; simpa [layGen] using h
      | cons e es ih =>
        intro off h
        simp only [layGen]
        apply ih
        unfold nextOff; split <;> omega
    have := this l.dataBank (4 + 4 * l.songs.length) (by omega)
    rw [hD] at this; exact this
  have hSl := layGen_len ds D.2.2
  have hT : (soffs.flatMap be32).length = 4 * l.songs.length := by
    rw [flatMap_be32_length, h2, hSl.2, patchAll_length _ _ _ h4]
  refine ⟨o, d, offs, h1, hp, ?_, g5 hDeven, by omega, ?_⟩
  · rw [h6]
    unfold rd
    have hA : (be32 Tables.link_magic ++ be16 (Tables.MDSDRV_SEQ_VERSION_MAJOR * 256 ||| Tables.MDSDRV_SEQ_VERSION_MINOR) ++
            be16 l.songs.length ++ be32 off2).length = 12 := by simp [be16]
    rw [List.append_assoc, List.append_assoc, List.append_assoc, ← hA, drop_len_add]
    rw [h2] at *
    exact flatMap_be32_read _ i o g1 _
  · rw [h6]
    unfold rd
    have hA : (be32 Tables.link_magic ++ be16 (Tables.MDSDRV_SEQ_VERSION_MAJOR * 256 ||| Tables.MDSDRV_SEQ_VERSION_MINOR) ++
            be16 l.songs.length ++ be32 off2).length = 12 := by simp [be16]
    have hpre : ((be32 Tables.link_magic ++ be16 (Tables.MDSDRV_SEQ_VERSION_MAJOR * 256 ||| Tables.MDSDRV_SEQ_VERSION_MINOR) ++
            be16 l.songs.length ++ be32 off2) ++ soffs.flatMap be32 ++ D.1).length + (o - D.2.2) = 8 + o := by
      simp only [List.length_append, hA, hT]; omega
    rw [← hpre, List.append_assoc _ (layGen ds D.2.2).1, drop_len_add, take_drop_append_left _ _ _ _ (by omega)]
    exact g4

/-- data-bank entry `j`: its offset (the one the relocation writes) and its bytes in the bank -/
theorem laid_entry {l : Linker} {bank : Bytes} (L : Laid l bank) (j : Nat) (e : Bytes) (he : l.dataBank[j]? = some e) :
    ∃ t, (layGen l.dataBank (4 + 4 * l.songs.length)).2.1[j]? = some t ∧ t < 32768 ∧ t % 2 = 0 ∧
      4 + 4 * l.songs.length ≤ t ∧ rd bank (8 + t) e.length = e := by
  obtain ⟨offs, soffs, ds, off2, wt, h1, h2, h3, h4, h5, h6⟩ := L.ex
  have hne : l.dataBank ≠ [] := by intro h; rw [h] at he; simp at he
  have hlim := h5 hne
  generalize hD : layGen l.dataBank (4 + 4 * l.songs.length) = D at *
  obtain ⟨t, g1, g2, g3, g4, g5⟩ := layGen_spec l.dataBank (4 + 4 * l.songs.length) j e he
  rw [hD] at g1 g3 g4
  have hDl := layGen_len l.dataBank (4 + 4 * l.songs.length)
  rw [hD] at hDl
  have hSl := layGen_len ds D.2.2
  have hT : (soffs.flatMap be32).length = 4 * l.songs.length := by
    rw [flatMap_be32_length, h2, hSl.2, patchAll_length _ _ _ h4]
  refine ⟨t, g1, by omega, g5 (by omega), g2, ?_⟩
  rw [h6]
  unfold rd
  have hA : (be32 Tables.link_magic ++ be16 (Tables.MDSDRV_SEQ_VERSION_MAJOR * 256 ||| Tables.MDSDRV_SEQ_VERSION_MINOR) ++
          be16 l.songs.length ++ be32 off2).length = 12 := by simp [be16]
  have hpre : ((be32 Tables.link_magic ++ be16 (Tables.MDSDRV_SEQ_VERSION_MAJOR * 256 ||| Tables.MDSDRV_SEQ_VERSION_MINOR) ++
          be16 l.songs.length ++ be32 off2) ++ soffs.flatMap be32).length + (t - (4 + 4 * l.songs.length)) = 8 + t := by
    simp only [List.length_append, hA, hT]; omega
  rw [← hpre, List.append_assoc _ D.1, List.append_assoc _ (D.1 ++ _), drop_len_add, List.append_assoc D.1, take_drop_append_left _ _ _ _ (by omega)]
  exact g4

end Ctrmml.Linker
