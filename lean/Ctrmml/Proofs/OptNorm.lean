/-
  C01, layer 2 — part A: the specification `perf`/`obs` does not depend on the params of
  `LOOP_BREAK` events (the optimiser's `find_match_length` compares events up to the param of a
  `LOOP_BREAK`: "Player modifies the param though it's normally unused").

  `normE` zeroes the param of a `LOOP_BREAK`; two songs whose tracks are equal after
  normalisation (`BrkEqv`) have, track by track, the same error or the same observation
  (`perf_brk`).  `ResEq` is the relation "same error / same observation".
-/
import Ctrmml.Proofs.Rewrite
namespace Ctrmml.OptSteps
open Ctrmml Ctrmml.Tree Ctrmml.Expand Ctrmml.Rewrite Tables

/-! ## kinds and types -/

theorem kind_cases (e : Event) :
    (e.kind = .loopStart ∧ e.type = ev_LOOP_START) ∨ (e.kind = .loopBreak ∧ e.type = ev_LOOP_BREAK) ∨
    (e.kind = .loopEnd ∧ e.type = ev_LOOP_END) ∨ (e.kind = .segno ∧ e.type = ev_SEGNO) ∨
    (e.kind = .jump ∧ e.type = ev_JUMP) ∨ (e.kind = .fin ∧ e.type = ev_END) ∨
    (e.kind = .other ∧ e.type ≠ ev_LOOP_START ∧ e.type ≠ ev_LOOP_BREAK ∧ e.type ≠ ev_LOOP_END ∧
      e.type ≠ ev_SEGNO ∧ e.type ≠ ev_JUMP ∧ e.type ≠ ev_END) := by
  unfold Event.kind kindOfType
  by_cases h1 : e.type = ev_LOOP_START
  · simp [h1]
  by_cases h2 : e.type = ev_LOOP_BREAK
  · simp [h2]; decide
  by_cases h3 : e.type = ev_LOOP_END
  · simp [h3]; decide
  by_cases h4 : e.type = ev_SEGNO
  · simp [h4]; decide
  by_cases h5 : e.type = ev_JUMP
  · simp [h5]; decide
  by_cases h6 : e.type = ev_END
  · simp [h6]; decide
  simp [h1, h2, h3, h4, h5, h6]

theorem kind_loopStart_iff (e : Event) : e.kind = .loopStart ↔ e.type = ev_LOOP_START := by
  constructor
  · intro h
    rcases kind_cases e with ⟨hk, ht⟩ | ⟨hk, ht⟩ | ⟨hk, ht⟩ | ⟨hk, ht⟩ | ⟨hk, ht⟩ | ⟨hk, ht⟩ | ⟨hk, ht⟩ <;>
      first | exact ht | (rw [h] at hk; cases hk)
  · intro h; unfold Event.kind; rw [h]; decide

theorem kind_loopBreak_iff (e : Event) : e.kind = .loopBreak ↔ e.type = ev_LOOP_BREAK := by
  constructor
  · intro h
    rcases kind_cases e with ⟨hk, ht⟩ | ⟨hk, ht⟩ | ⟨hk, ht⟩ | ⟨hk, ht⟩ | ⟨hk, ht⟩ | ⟨hk, ht⟩ | ⟨hk, ht⟩ <;>
      first | exact ht | (rw [h] at hk; cases hk)
  · intro h; unfold Event.kind; rw [h]; decide

theorem kind_loopEnd_iff (e : Event) : e.kind = .loopEnd ↔ e.type = ev_LOOP_END := by
  constructor
  · intro h
    rcases kind_cases e with ⟨hk, ht⟩ | ⟨hk, ht⟩ | ⟨hk, ht⟩ | ⟨hk, ht⟩ | ⟨hk, ht⟩ | ⟨hk, ht⟩ | ⟨hk, ht⟩ <;>
      first | exact ht | (rw [h] at hk; cases hk)
  · intro h; unfold Event.kind; rw [h]; decide

theorem kind_fin_iff (e : Event) : e.kind = .fin ↔ e.type = ev_END := by
  constructor
  · intro h
    rcases kind_cases e with ⟨hk, ht⟩ | ⟨hk, ht⟩ | ⟨hk, ht⟩ | ⟨hk, ht⟩ | ⟨hk, ht⟩ | ⟨hk, ht⟩ | ⟨hk, ht⟩ <;>
      first | exact ht | (rw [h] at hk; cases hk)
  · intro h; unfold Event.kind; rw [h]; decide

theorem kind_jump_iff (e : Event) : e.kind = .jump ↔ e.type = ev_JUMP := by
  constructor
  · intro h
    rcases kind_cases e with ⟨hk, ht⟩ | ⟨hk, ht⟩ | ⟨hk, ht⟩ | ⟨hk, ht⟩ | ⟨hk, ht⟩ | ⟨hk, ht⟩ | ⟨hk, ht⟩ <;>
      first | exact ht | (rw [h] at hk; cases hk)
  · intro h; unfold Event.kind; rw [h]; decide

theorem kind_segno_iff (e : Event) : e.kind = .segno ↔ e.type = ev_SEGNO := by
  constructor
  · intro h
    rcases kind_cases e with ⟨hk, ht⟩ | ⟨hk, ht⟩ | ⟨hk, ht⟩ | ⟨hk, ht⟩ | ⟨hk, ht⟩ | ⟨hk, ht⟩ | ⟨hk, ht⟩ <;>
      first | exact ht | (rw [h] at hk; cases hk)
  · intro h; unfold Event.kind; rw [h]; decide

/-! ## normalisation of `LOOP_BREAK` params -/

/-- `LOOP_BREAK` params are scratch space of the players: normal form with param 0 -/
def normE (e : Event) : Event := if e.type = ev_LOOP_BREAK then { e with param := 0 } else e

def normL (l : List Event) : List Event := l.map normE

theorem normE_type (e : Event) : (normE e).type = e.type := by unfold normE; split <;> rfl
theorem normE_on (e : Event) : (normE e).on = e.on := by unfold normE; split <;> rfl
theorem normE_off (e : Event) : (normE e).off = e.off := by unfold normE; split <;> rfl
theorem normE_kind (e : Event) : (normE e).kind = e.kind := by unfold Event.kind; rw [normE_type]
theorem normE_of_ne {e : Event} (h : e.type ≠ ev_LOOP_BREAK) : normE e = e := by unfold normE; simp [h]
theorem normE_of_kind_ne {e : Event} (h : e.kind ≠ .loopBreak) : normE e = e :=
  normE_of_ne (fun hc => h ((kind_loopBreak_iff e).2 hc))
theorem normE_endEvent : normE endEvent = endEvent := by decide

/- only `brk` nodes carry a `LOOP_BREAK` in a parsed forest -/
mutual
def normN : Node → Node
  | .brk e => .brk (normE e)
  | .loop ls b le => .loop ls (normF b) le
  | .openLoop ls b => .openLoop ls (normF b)
  | .ev e => .ev e
  | .strayEnd e => .strayEnd e
def normF : List Node → List Node
  | [] => []
  | n :: ns => normN n :: normF ns
end

theorem normF_eq_map (f : List Node) : normF f = f.map normN := by
  induction f with
  | nil => simp [normF]
  | cons n ns ih => simp [normF, ih]

theorem normF_append (a b : List Node) : normF (a ++ b) = normF a ++ normF b := by
  simp [normF_eq_map]

theorem normF_reverse (a : List Node) : normF a.reverse = (normF a).reverse := by
  simp [normF_eq_map]

theorem closeAll_norm (st : PStack) (cur : List Node) :
    closeAll (st.map fun p => (p.1, normF p.2)) (normF cur) = normF (closeAll st cur) := by
  induction st generalizing cur with
  | nil => simp [closeAll, normF_reverse]
  | cons p st ih =>
    obtain ⟨ls, outer⟩ := p
    simp only [List.map_cons, closeAll]
    rw [← ih]
    simp [normF, normN, normF_reverse]

theorem parseAux_norm (l : List Event) : ∀ (st : PStack) (cur : List Node),
    parseAux (st.map fun p => (p.1, normF p.2)) (normF cur) (normL l) = normF (parseAux st cur l) := by
  induction l with
  | nil => intro st cur; simp [normL, parseAux, closeAll_norm]
  | cons e rest ih =>
    intro st cur
    simp only [normL, List.map_cons]
    cases hk : e.kind with
    | loopStart =>
      have hk' : (normE e).kind = .loopStart := by rw [normE_kind, hk]
      rw [parseAux_loopStart hk', parseAux_loopStart hk, normE_of_kind_ne (by simp [hk])]
      exact ih ((e, cur) :: st) []
    | loopBreak =>
      have hk' : (normE e).kind = .loopBreak := by rw [normE_kind, hk]
      rw [parseAux_break hk', parseAux_break hk]
      exact ih st (Node.brk e :: cur)
    | loopEnd =>
      have hk' : (normE e).kind = .loopEnd := by rw [normE_kind, hk]
      have he : normE e = e := normE_of_kind_ne (by simp [hk])
      cases st with
      | nil =>
        simp only [List.map_nil]
        rw [parseAux_loopEnd_nil hk', parseAux_loopEnd_nil hk, he]
        exact ih [] (Node.strayEnd e :: cur)
      | cons p st' =>
        obtain ⟨ls, outer⟩ := p
        simp only [List.map_cons]
        rw [parseAux_loopEnd_cons hk', parseAux_loopEnd_cons hk, he]
        have := ih st' (Node.loop ls cur.reverse e :: outer)
        simpa [normF, normN, normF_reverse, normL] using this
    | segno =>
      have he : normE e = e := normE_of_kind_ne (by simp [hk])
      rw [he, parseAux_other (by simp [hk]) (by simp [hk]) (by simp [hk]),
        parseAux_other (by simp [hk]) (by simp [hk]) (by simp [hk])]
      exact ih st (Node.ev e :: cur)
    | jump =>
      have he : normE e = e := normE_of_kind_ne (by simp [hk])
      rw [he, parseAux_other (by simp [hk]) (by simp [hk]) (by simp [hk]),
        parseAux_other (by simp [hk]) (by simp [hk]) (by simp [hk])]
      exact ih st (Node.ev e :: cur)
    | fin =>
      have he : normE e = e := normE_of_kind_ne (by simp [hk])
      rw [he, parseAux_other (by simp [hk]) (by simp [hk]) (by simp [hk]),
        parseAux_other (by simp [hk]) (by simp [hk]) (by simp [hk])]
      exact ih st (Node.ev e :: cur)
    | other =>
      have he : normE e = e := normE_of_kind_ne (by simp [hk])
      rw [he, parseAux_other (by simp [hk]) (by simp [hk]) (by simp [hk]),
        parseAux_other (by simp [hk]) (by simp [hk]) (by simp [hk])]
      exact ih st (Node.ev e :: cur)

theorem parse_norm (l : List Event) : parse (normL l) = normF (parse l) := by
  have := parseAux_norm l [] []
  simpa [parse, normF] using this

/-! ## same error / same observation -/

def ResEq : Res → Res → Prop
  | .ok x, .ok y => OEq x y
  | .error e, .error e' => e = e'
  | _, _ => False

theorem ResEq.refl (r : Res) : ResEq r r := by cases r <;> simp [ResEq, OEq.refl]

theorem ResEq.symm {r r' : Res} (h : ResEq r r') : ResEq r' r := by
  cases r <;> cases r' <;> simp_all [ResEq]
  exact OEq.symm h

theorem ResEq.trans {a b c : Res} (h1 : ResEq a b) (h2 : ResEq b c) : ResEq a c := by
  cases a <;> cases b <;> cases c <;> simp_all [ResEq]
  exact OEq.trans h1 h2

theorem ResEq.seq {a a' b b' : Res} (h1 : ResEq a a') (h2 : ResEq b b') :
    ResEq (Expand.seq a b) (Expand.seq a' b') := by
  cases a <;> cases a' <;> cases b <;> cases b' <;> simp_all [ResEq, Expand.seq]
  exact OEq.append h1 h2

/-- composition with the one-sided relation of the rewrites -/
theorem ResEq.then_rel {a b c : Res} (h1 : ResEq a b) (h2 : ResRel b c) : ResRel a c := by
  cases a <;> cases b <;> cases c <;> simp_all [ResEq, ResRel]
  exact OEq.trans h1 h2

theorem ResEq.ok_left {r r' : Res} (h : ResEq r r') {x : List Item} (hx : r = .ok x) :
    ∃ y, r' = .ok y ∧ obs y = obs x := by
  subst hx
  cases r' with
  | ok y => exact ⟨y, rfl, (OEq.symm h : OEq y x)⟩
  | error e => simp [ResEq] at h

theorem hasTopBreak_norm (f : List Node) : hasTopBreak (normF f) = hasTopBreak f := by
  induction f with
  | nil => rfl
  | cons n ns ih => cases n <;> simp [normF, normN, hasTopBreak, ih]

theorem topBreakEv_norm (f : List Node) : topBreakEv (normF f) = normE (topBreakEv f) := by
  induction f with
  | nil => simp [normF, topBreakEv, normE_endEvent]
  | cons n ns ih => cases n <;> simp [normF, normN, topBreakEv, ih]

theorem obs_item_normE (e : Event) : OEq [item e] [item (normE e)] := by
  by_cases h : e.type = ev_LOOP_BREAK
  · have hk : e.kind = .loopBreak := (kind_loopBreak_iff e).2 h
    have hp : playedItem { ev := e, src := e } = playedItem { ev := normE e, src := normE e } := by
      unfold playedItem
      simp [normE_kind, hk, normE_on, normE_off]
    simp only [OEq, obs, played, item, List.filterMap_cons, List.filterMap_nil, hp]
    simp [normE_kind, normE_on, normE_off, totalDur, Item.dur, loopTime, loopTimeAux]
  · rw [normE_of_ne h]; exact OEq.refl _

theorem obs_last_normE (le tb : Event) : OEq [{ ev := le, src := tb }] [{ ev := le, src := normE tb }] := by
  have hp : playedItem { ev := le, src := tb } = playedItem { ev := le, src := normE tb } := by
    unfold playedItem
    simp [normE_on, normE_off]
  simp only [OEq, obs, played, List.filterMap_cons, List.filterMap_nil, hp]
  simp [normE_kind, normE_on, normE_off, totalDur, Item.dur, loopTime, loopTimeAux]

theorem loopOut_eq (ls le : Event) (hb : Bool) (tb : Event) {full full' : List Item} {pre pre' : Res}
    (h1 : OEq full full') (h2 : ResEq pre pre') :
    ResEq (loopOut ls le hb tb full pre) (loopOut ls le hb (normE tb) full' pre') := by
  unfold loopOut
  have hfl : OEq (full ++ [item le]) (full' ++ [item le]) := OEq.append h1 (OEq.refl _)
  by_cases hn : le.param < 0
  · simp [hn, ResEq]
  · simp only [hn, if_false]
    by_cases h1' : le.param.toNat ≤ 1
    · simp only [h1', if_true]
      exact OEq.cons _ hfl
    · simp only [h1', if_false]
      cases hb with
      | false =>
        simp only [Bool.false_eq_true, if_false]
        exact OEq.cons _ (OEq.rep hfl _)
      | true =>
        simp only [if_true]
        cases pre with
        | error e =>
          cases pre' with
          | error e' => simpa [ResEq] using h2
          | ok p' => simp [ResEq] at h2
        | ok p =>
          cases pre' with
          | error e' => simp [ResEq] at h2
          | ok p' =>
            have hp : OEq p p' := h2
            exact OEq.cons _ (OEq.append (OEq.rep hfl _) (OEq.append hp (obs_last_normE le tb)))

section expnorm
variable {c c' : CallFn} (hc : ∀ d id, ResEq (c d id) (c' d id))
include hc
set_option linter.unusedSectionVars false

mutual
theorem expN_norm : ∀ (n : Node) (d : Nat) (b : Bool), ResEq (expN c d b n) (expN c' d b (normN n))
  | .ev e, d, b => by
    simp only [normN, expN]
    split
    · exact ResEq.seq (ResEq.refl _) (hc d _)
    · exact ResEq.refl _
  | .brk e, d, b => by
    simp only [normN, expN]
    split
    · exact obs_item_normE e
    · exact ResEq.refl _
  | .strayEnd e, d, b => by simp only [normN, expN]; exact ResEq.refl _
  | .openLoop ls body, d, b => by simp only [normN, expN]; exact ResEq.refl _
  | .loop ls body le, d, b => by
    simp only [normN]
    rw [expN_loop, expN_loop]
    by_cases h1 : d ≥ limit
    · simp only [h1, if_true]; exact ResEq.refl _
    · simp only [h1, if_false]
      have hl := expL_norm body (d + 1) true
      have hp := expPre_norm body (d + 1)
      rw [hasTopBreak_norm, topBreakEv_norm]
      cases hx : expL c (d + 1) true body with
      | error e =>
        rw [hx] at hl
        cases hy : expL c' (d + 1) true (normF body) with
        | error e' => rw [hy] at hl; exact hl
        | ok y => rw [hy] at hl; simp [ResEq] at hl
      | ok x =>
        rw [hx] at hl
        cases hy : expL c' (d + 1) true (normF body) with
        | error e' => rw [hy] at hl; simp [ResEq] at hl
        | ok y =>
          rw [hy] at hl
          exact loopOut_eq ls le _ _ hl hp
theorem expL_norm : ∀ (f : List Node) (d : Nat) (b : Bool), ResEq (expL c d b f) (expL c' d b (normF f))
  | [], d, b => by simp only [normF, expL]; exact ResEq.refl _
  | n :: ns, d, b => by
    simp only [normF, expL_cons]
    exact ResEq.seq (expN_norm n d b) (expL_norm ns d b)
theorem expPre_norm : ∀ (f : List Node) (d : Nat), ResEq (expPre c d f) (expPre c' d (normF f))
  | [], d => by simp only [normF, expPre]; exact ResEq.refl _
  | .brk e :: ns, d => by simp only [normF, normN, expPre]; exact ResEq.refl _
  | .ev e :: ns, d => by
    simp only [normF, normN, expPre]
    exact ResEq.seq (by simpa [normN] using expN_norm (.ev e) d true) (expPre_norm ns d)
  | .strayEnd e :: ns, d => by
    simp only [normF, normN, expPre]
    exact ResEq.seq (by simpa [normN] using expN_norm (.strayEnd e) d true) (expPre_norm ns d)
  | .openLoop ls bd :: ns, d => by
    simp only [normF, normN, expPre]
    exact ResEq.seq (by simpa [normN] using expN_norm (.openLoop ls bd) d true) (expPre_norm ns d)
  | .loop ls bd le :: ns, d => by
    simp only [normF, normN, expPre]
    exact ResEq.seq (by simpa [normN] using expN_norm (.loop ls bd le) d true) (expPre_norm ns d)
end
end expnorm

/-- two songs whose tracks, looked up by id, are equal up to `LOOP_BREAK` params -/
def BrkEqv (S S1 : Song) : Prop := ∀ id, (S1.track? id).map normL = (S.track? id).map normL

theorem BrkEqv.refl (S : Song) : BrkEqv S S := fun _ => rfl

/-- forests of lists that are equal up to `LOOP_BREAK` params expand alike -/
theorem expL_brk {c c' : CallFn} (hc : ∀ d id, ResEq (c d id) (c' d id)) {l l' : List Event}
    (h : normL l = normL l') (d : Nat) (b : Bool) :
    ResEq (expL c d b (parse l)) (expL c' d b (parse l')) := by
  have h1 := expL_norm hc (parse l) d b
  have h2 := expL_norm (fun d id => ResEq.refl (c' d id)) (parse l') d b
  rw [← parse_norm, h, parse_norm] at h1
  exact ResEq.trans h1 (ResEq.symm h2)

theorem callK_brk {S S1 : Song} (h : BrkEqv S S1) : ∀ k d id, ResEq (callK S k d id) (callK S1 k d id) := by
  intro k
  induction k with
  | zero => intro d id; simp only [callK]; exact ResEq.refl _
  | succ k ih =>
    intro d id
    simp only [callK]
    by_cases h1 : d ≥ limit
    · simp only [h1, if_true]; exact ResEq.refl _
    · simp only [h1, if_false]
      have hid := h id
      cases ht : S.track? id with
      | none =>
        cases ht1 : S1.track? id with
        | none => exact ResEq.refl _
        | some e1 => rw [ht, ht1] at hid; simp at hid
      | some evs =>
        cases ht1 : S1.track? id with
        | none => rw [ht, ht1] at hid; simp at hid
        | some e1 =>
          rw [ht, ht1] at hid
          simp only [Option.map_some, Option.some.injEq] at hid
          exact expL_brk ih hid.symm _ _

/-- **The performance does not depend on `LOOP_BREAK` params**: same error or same observation. -/
theorem perf_brk {S S1 : Song} (h : BrkEqv S S1) {t t1 : List Event} (ht : normL t = normL t1) :
    ResEq (perf S t) (perf S1 t1) :=
  expL_brk (callK_brk h limit) ht 0 false

end Ctrmml.OptSteps
