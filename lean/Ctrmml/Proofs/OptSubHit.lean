/-
  C01, layer 3 — termination, the subroutine half: `find_subroutines` replaces at least one of the
  occurrences `find_match` counted.

  * `go_sim`: two runs of `find_match_length` on data that agree on `len` positions;
  * `SubOK2` / `findMatch_subOK2`: a positive `subScore` of `find_match` comes with a counted
    occurrence of length `≥ subLength ≥ 3` of the phrase, in a later track or later in the same
    track without overlap;
  * `fml_transfer`: that occurrence is found again, with match length exactly `subLength`, by the
    search `find_subroutines` performs on the rewritten song (new phrase track, first occurrence
    replaced, stack list spliced).
-/
import Ctrmml.Proofs.OptMeasure
import Ctrmml.Proofs.OptAnalyze
namespace Ctrmml.OptSteps
open Ctrmml Ctrmml.Tree Ctrmml.Expand Ctrmml.Rewrite Ctrmml.Opt Tables

theorem go_at_end (dS : Nat) (Xl dst : List Event) (sa : SA) (fuel se de : Nat) (depth : Int) (safe : Nat)
    (track : Bool) (ll : Nat) (hse : Xl.length ≤ se) :
    findMatchLength.go dS Xl dst sa fuel se de depth safe track ll = .ok (safe - dS, ll) := by
  cases fuel with
  | zero => rfl
  | succ f =>
    unfold findMatchLength.go
    rw [List.getElem?_eq_none hse]

theorem go_succ_accept (dS : Nat) (src dst : List Event) (sa : SA) (fuel se de : Nat) (depth : Int) (safe : Nat)
    (track : Bool) (ll : Nat) {x y : Event} {u : Int} (hx : src[se]? = some x) (hy : dst[de]? = some y)
    (hu : sa.eventList[de]? = some u) (h1 : ¬ u + sa.baseUsage ≥ maxSubStack)
    (h2 : ¬ (y.type = ev_SEGNO ∨ y.type = ev_DRUM_MODE))
    (h3 : ¬ ((y.type = ev_LOOP_END ∨ y.type = ev_LOOP_BREAK) ∧ depth = 0)) (h4 : sameEvent x y = true) :
    findMatchLength.go dS src dst sa (fuel + 1) se de depth safe track ll =
      if (if y.type = ev_LOOP_START then depth + 1 else if y.type = ev_LOOP_END then depth - 1 else depth) = 0 then
        findMatchLength.go dS src dst sa fuel (se + 1) (de + 1)
          (if y.type = ev_LOOP_START then depth + 1 else if y.type = ev_LOOP_END then depth - 1 else depth) (de + 1)
          (if u + sa.baseUsage ≥ maxLoopStack then false else track)
          (if (if u + sa.baseUsage ≥ maxLoopStack then false else track) = true then de + 1 - dS else ll)
      else
        findMatchLength.go dS src dst sa fuel (se + 1) (de + 1)
          (if y.type = ev_LOOP_START then depth + 1 else if y.type = ev_LOOP_END then depth - 1 else depth) safe
          (if u + sa.baseUsage ≥ maxLoopStack then false else track) ll := by
  rw [findMatchLength.go]
  simp only [hx, hy, hu, h1, h2, h3, h4, if_false, if_true]

/-- **Two runs of `find_match_length` on equal data.**  If a run on `(src, dst)` returns at least
`len`, the `dst` prefix of length `len` ends at depth 0, and the phrase track `Xl` holds exactly the
`len` source events, then the run of the phrase track against a track and a stack list that agree
with `dst` on those `len` positions returns exactly `len`. -/
theorem go_sim {src dst Xl dst2 : List Event} {sa sa2 : SA} {sS dS dS2 len : Nat}
    (hXlen : Xl.length = len)
    (hsrc : ∀ i, i < len → src[sS + i]? = Xl[i]?)
    (hdst : ∀ i, i < len → dst[dS + i]? = dst2[dS2 + i]?)
    (hsa : ∀ i, i < len → sa.eventList[dS + i]? = sa2.eventList[dS2 + i]?)
    (hbase : sa.baseUsage = sa2.baseUsage)
    (hbal : scan ((dst.drop dS).take len) 0 = some 0) :
    ∀ (fuel1 fuel2 se de safe se2 de2 safe2 : Nat) (depth : Int) (track1 track2 : Bool) (ll1 ll2 j s dn : Nat),
    se = sS + j → de = dS + j → safe = dS + s → se2 = j → de2 = dS2 + j → safe2 = dS2 + s →
    j ≤ len → s ≤ j → (dn = 0 → s = j) → depth = (dn : Int) →
    scan ((dst.drop dS).take j) 0 = some dn → len - j ≤ fuel2 →
    ∀ r, findMatchLength.go dS src dst sa fuel1 se de depth safe track1 ll1 = .ok r → len ≤ r.1 →
    ∃ ll, findMatchLength.go dS2 Xl dst2 sa2 fuel2 se2 de2 depth safe2 track2 ll2 = .ok (len, ll) := by
  intro fuel1
  induction fuel1 with
  | zero =>
    intro fuel2 se de safe se2 de2 safe2 depth track1 track2 ll1 ll2 j s dn hse hde hsafe hse2 hde2 hsafe2
      hj hs hdn hdep hscan hf2 r hr hlen
    simp only [findMatchLength.go, Except.ok.injEq] at hr
    subst hr
    simp only at hlen
    have hjl : j = len := by omega
    refine ⟨ll2, ?_⟩
    rw [go_at_end _ _ _ _ _ _ _ _ _ _ _ (by omega)]
    congr 2; omega
  | succ fuel1 ih =>
    intro fuel2 se de safe se2 de2 safe2 depth track1 track2 ll1 ll2 j s dn hse hde hsafe hse2 hde2 hsafe2
      hj hs hdn hdep hscan hf2 r hr hlen
    have hend : j = len → s = j →
        ∃ ll, findMatchLength.go dS2 Xl dst2 sa2 fuel2 se2 de2 depth safe2 track2 ll2 = .ok (len, ll) := by
      intro h1 h2
      refine ⟨ll2, ?_⟩
      rw [go_at_end _ _ _ _ _ _ _ _ _ _ _ (by omega)]
      congr 2; omega
    have hstop : ∀ r, (Except.ok (safe - dS, ll1) : Except OErr (Nat × Nat)) = .ok r → len ≤ r.1 →
        ∃ ll, findMatchLength.go dS2 Xl dst2 sa2 fuel2 se2 de2 depth safe2 track2 ll2 = .ok (len, ll) := by
      intro r hr hl
      simp only [Except.ok.injEq] at hr
      subst hr
      simp only at hl
      exact hend (by omega) (by omega)
    unfold findMatchLength.go at hr
    split at hr
    · rename_i x y hx hy
      split at hr
      · simp at hr
      · rename_i u hu
        simp only at hr
        split at hr
        · exact hstop r hr hlen
        rename_i hst
        split at hr
        · exact hstop r hr hlen
        rename_i hns
        split at hr
        · exact hstop r hr hlen
        rename_i hnb
        split at hr
        · rename_i hsame
          by_cases hjl : j = len
          · -- the phrase track ends here; the depth is 0
            have : dn = 0 := by
              rw [hjl, hbal] at hscan
              simpa using hscan.symm
            exact hend hjl (hdn this)
          · have hjlt : j < len := by omega
            obtain ⟨f2, hf2e⟩ : ∃ f2, fuel2 = f2 + 1 := ⟨fuel2 - 1, by omega⟩
            have hyj : dst[dS + j]? = some y := by rw [← hde]; exact hy
            have hx2 : Xl[se2]? = some x := by rw [hse2, ← hsrc j hjlt, ← hse]; exact hx
            have hy2 : dst2[de2]? = some y := by rw [hde2, ← hdst j hjlt]; exact hyj
            have hu2 : sa2.eventList[de2]? = some u := by rw [hde2, ← hsa j hjlt, ← hde]; exact hu
            -- the new depth
            obtain ⟨dn', hdn', hscan'⟩ : ∃ dn' : Nat,
                (if y.type = ev_LOOP_START then depth + 1 else if y.type = ev_LOOP_END then depth - 1 else depth)
                  = (dn' : Int) ∧ scan ((dst.drop dS).take (j + 1)) 0 = some dn' := by
              rw [take_succ_of_get hyj, scan_append, hscan]
              simp only [Option.bind_some, scan_cons, scan_nil]
              by_cases h1 : y.type = ev_LOOP_START
              · exact ⟨dn + 1, by rw [if_pos h1, hdep]; rfl, by rw [if_pos h1]⟩
              · by_cases h2 : y.type = ev_LOOP_END
                · have hd0 : dn ≠ 0 := by
                    intro h0
                    apply hnb
                    exact ⟨Or.inl h2, by rw [hdep, h0]; rfl⟩
                  refine ⟨dn - 1, ?_, by rw [if_neg h1, if_pos h2, if_neg hd0]⟩
                  rw [if_neg h1, if_pos h2, hdep]
                  omega
                · by_cases h3 : y.type = ev_LOOP_BREAK
                  · have hd0 : dn ≠ 0 := by
                      intro h0
                      apply hnb
                      exact ⟨Or.inr h3, by rw [hdep, h0]; rfl⟩
                    exact ⟨dn, by rw [if_neg h1, if_neg h2, hdep], by rw [if_neg h1, if_neg h2, if_pos h3, if_neg hd0]⟩
                  · exact ⟨dn, by rw [if_neg h1, if_neg h2, hdep], by rw [if_neg h1, if_neg h2, if_neg h3]⟩
            have hfx : len - (j + 1) ≤ f2 := by clear hstop hend ih; omega
            rw [hf2e, go_succ_accept dS2 Xl dst2 sa2 f2 se2 de2 depth safe2 track2 ll2 hx2 hy2 hu2
              (by rw [← hbase]; exact hst) hns hnb hsame]
            rw [hdn'] at hr ⊢
            split at hr
            · rename_i hd0
              rw [if_pos hd0]
              have hz : dn' = 0 := by omega
              exact ih f2 (se + 1) (de + 1) (de + 1) (se2 + 1) (de2 + 1) (de2 + 1) (dn' : Int) _ _ _ _ (j + 1) (j + 1) dn' (by omega) (by omega) (by omega) (by omega)
                (by omega) (by omega) (by omega) (Nat.le_refl _) (fun _ => rfl) rfl hscan' hfx r hr hlen
            · rename_i hd0
              rw [if_neg hd0]
              have hz : dn' ≠ 0 := by omega
              exact ih f2 (se + 1) (de + 1) safe (se2 + 1) (de2 + 1) safe2 (dn' : Int) _ _ _ _ (j + 1) s dn' (by omega) (by omega) hsafe (by omega)
                (by omega) hsafe2 (by omega) (by omega) (fun h => absurd h hz) rfl hscan' hfx r hr hlen
        · exact hstop r hr hlen
    · exact hstop r hr hlen

/-! ## the subroutine candidate of `find_match`, with the position of a counted occurrence -/

/-- what `find_match` knows about a phrase length it counts: it is at least 3, a balanced prefix
of the phrase, and at most the length of a match at `(dstT, dstPos)` — a later track, or the same
track at or after the end of the phrase -/
def SubOK2 (song : Song) (m : SAMap) (srcT srcStart : Nat) (isBal : Nat → Bool) (len : Nat) : Prop :=
  3 ≤ len ∧ isBal len = true ∧
    ∃ dstT dstPos wl len0 ll, findMatchLength song m srcT srcStart dstT dstPos wl = .ok (len0, ll) ∧ len ≤ len0 ∧
      (srcT < dstT ∨ (dstT = srcT ∧ srcStart + len ≤ dstPos))

theorem SubOK2.mono {song : Song} {m : SAMap} {srcT srcStart : Nat} {isBal isBal' : Nat → Bool} {len : Nat}
    (h : SubOK2 song m srcT srcStart isBal' len) (hb : ∀ len, isBal' len = true → isBal len = true) :
    SubOK2 song m srcT srcStart isBal len :=
  ⟨h.1, hb _ h.2.1, h.2.2⟩

theorem SubOK2.toSubOK {song : Song} {m : SAMap} {srcT srcStart : Nat} {isBal : Nat → Bool} {len : Nat}
    (h : SubOK2 song m srcT srcStart isBal len) : SubOK song m srcT srcStart isBal len := by
  obtain ⟨h1, h2, dstT, dstPos, wl, len0, ll, hf, hle, _⟩ := h
  exact ⟨by omega, h2, dstT, dstPos, wl, len0, ll, hf, hle⟩

theorem innerSame_cnt2 {P : Nat → Prop} {isBal : Nat → Bool} {dstPos length : Nat} {sc last : Counter}
    (hsc : CInv P sc) (hP : ∀ len, 4 ≤ len → len ≤ length → isBal len = true → P len)
    {s : Counter × Counter × Nat} (h : innerSame isBal dstPos length sc last = .ok s) : CInv P s.1 := by
  unfold innerSame at h
  have := forIn_inv' _ (fun s : Counter × Counter × Nat => CInv P s.1 ∧ s.2.2 ≤ length) _ _
    ⟨hsc, Nat.le_refl _⟩ ?_ s h
  · exact this.1
  · intro _ _ b hb r hr
    split at hr
    · rename_i hgt
      rw [minSubScore_eq] at hgt
      split at hr
      · rename_i hc
        simp only [pure, Except.pure, Except.ok.injEq] at hr
        refine ⟨_, hr.symm, ?_, by simp only; omega⟩
        exact hb.1.cSet (hP _ (by omega) hb.2 hc.1) _
      · simp only [pure, Except.pure, Except.ok.injEq] at hr
        exact ⟨_, hr.symm, hb.1, by simp only; omega⟩
    · simp only [pure, Except.pure, Except.ok.injEq] at hr
      exact ⟨_, hr.symm, hb⟩

theorem jp2Same_cnt2 {P : Nat → Prop} {isBal : Nat → Bool} {srcStart dstPos length0 : Nat} {sc last : Counter}
    {ld : Int} {lv : Bool} {mt : Match} {r : ForInStep (Match × Counter × Counter × Int × Bool)}
    (hsc : CInv P sc)
    (hP : ∀ len, 4 ≤ len → len ≤ length0 → len ≤ dstPos - srcStart → isBal len = true → P len)
    (h : jp2Same isBal srcStart dstPos length0 sc last ld lv mt = .ok r) :
    ∃ b', r = .yield b' ∧ CInv P b'.2.1 := by
  unfold jp2Same at h
  obtain ⟨s, hs, h⟩ := bind_ok h
  simp only [pure, Except.pure, Except.ok.injEq] at h
  refine ⟨_, h.symm, ?_⟩
  refine innerSame_cnt2 hsc (fun len h1 h2 h3 => hP len h1 ?_ ?_ h3) hs
  · split at h2 <;> omega
  · split at h2 <;> omega

theorem jpSame_cnt2 {song : Song} {m : SAMap} {srcT srcStart : Nat} {isBal : Nat → Bool} {dstPos : Nat}
    {mt : Match} {sc last : Counter} {ld : Int} {lv : Bool}
    {r : ForInStep (Match × Counter × Counter × Int × Bool)}
    (hsc : CInv (SubOK2 song m srcT srcStart isBal) sc)
    (h : jpSame song m srcT srcStart srcT isBal dstPos mt sc last ld lv = .ok r) :
    ∃ b', r = .yield b' ∧ CInv (SubOK2 song m srcT srcStart isBal) b'.2.1 := by
  unfold jpSame at h
  obtain ⟨x, hx, h⟩ := bind_ok h
  have hP : ∀ len, 4 ≤ len → len ≤ x.1 → len ≤ dstPos - srcStart → isBal len = true →
      SubOK2 song m srcT srcStart isBal len :=
    fun len h1 h2 h3 h4 => ⟨by omega, h4, srcT, dstPos, true, x.1, x.2, hx, h2, Or.inr ⟨rfl, by omega⟩⟩
  split at h
  · simp only [pure, Except.pure, Except.ok.injEq] at h
    exact ⟨_, h.symm, hsc⟩
  · split at h
    · exact jp2Same_cnt2 hsc hP h
    · exact jp2Same_cnt2 hsc hP h

theorem midBody_cnt2 {song : Song} {m : SAMap} {srcT srcStart : Nat} {dst : List Event} {isBal : Nat → Bool}
    {a : Nat} {s : Match × Counter × Counter × Int × Bool}
    (hsc : CInv (SubOK2 song m srcT srcStart isBal) s.2.1)
    {r : ForInStep (Match × Counter × Counter × Int × Bool)}
    (hr : midBody song m srcT srcStart srcT dst isBal a s = .ok r) :
    ∃ b', r = .yield b' ∧ CInv (SubOK2 song m srcT srcStart isBal) b'.2.1 := by
  unfold midBody at hr
  simp only at hr
  split at hr
  · exact jpSame_cnt2 hsc hr
  split at hr
  · exact jpSame_cnt2 hsc hr
  split at hr
  · exact jpSame_cnt2 hsc hr
  split at hr
  · exact jpSame_cnt2 hsc hr
  · exact jpSame_cnt2 hsc hr

theorem midBodyS_cnt2 {song : Song} {m : SAMap} {sa : SA} {srcT srcStart : Nat} {dst : List Event} {isBal : Nat → Bool}
    {a : Nat} {s : Match × Counter × Counter × Int × Bool}
    (hsc : CInv (SubOK2 song m srcT srcStart isBal) s.2.1)
    {r : ForInStep (Match × Counter × Counter × Int × Bool)}
    (hr : midBodyS song m sa srcT srcStart srcT dst isBal a s = .ok r) :
    ∃ b', r = .yield b' ∧ CInv (SubOK2 song m srcT srcStart isBal) b'.2.1 := by
  obtain ⟨lv, hr'⟩ := midBodyS_cases hr
  exact midBody_cnt2 (s := (s.1, s.2.1, s.2.2.1, s.2.2.2.1, lv)) hsc hr'

theorem otherBody_cnt2 {song : Song} {m : SAMap} {srcT srcStart dstT : Nat} {isBal : Nat → Bool}
    (hlt : srcT < dstT)
    {dstPos : Nat} {s : Counter × Counter} (hsc : CInv (SubOK2 song m srcT srcStart isBal) s.1)
    {r : ForInStep (Counter × Counter)} (hr : otherBody song m srcT srcStart dstT isBal dstPos s = .ok r) :
    ∃ b', r = .yield b' ∧ CInv (SubOK2 song m srcT srcStart isBal) b'.1 := by
  unfold otherBody at hr
  obtain ⟨x, hx, hr⟩ := bind_ok hr
  obtain ⟨r1, hr1, hr⟩ := bind_ok hr
  simp only [pure, Except.pure, Except.ok.injEq] at hr
  refine ⟨_, hr.symm, ?_⟩
  have := forIn_inv' _ (fun s : Counter × Counter × Nat =>
      CInv (SubOK2 song m srcT srcStart isBal) s.1 ∧ s.2.2 ≤ x.1) _ _ ⟨hsc, Nat.le_refl _⟩ ?_ r1 hr1
  · exact this.1
  · intro _ _ b hb r hr
    split at hr
    · rename_i hge
      have h1 : 3 ≤ b.2.2 := by rw [minSubScore_eq] at hge; omega
      split at hr
      · rename_i hc
        simp only [pure, Except.pure, Except.ok.injEq] at hr
        refine ⟨_, hr.symm, ?_, by simp only; omega⟩
        exact hb.1.cSet ⟨h1, hc.1, dstT, dstPos, false, x.1, x.2, hx, hb.2, Or.inl hlt⟩ _
      · simp only [pure, Except.pure, Except.ok.injEq] at hr
        exact ⟨_, hr.symm, hb.1, by simp only; omega⟩
    · simp only [pure, Except.pure, Except.ok.injEq] at hr
      exact ⟨_, hr.symm, hb⟩

theorem trackBody_cnt2 {song : Song} {m : SAMap} {sa : SA} {srcT srcStart : Nat} {isBal : Nat → Bool}
    {x : Nat × List Event} {s : Match × Counter} (hsc : CInv (SubOK2 song m srcT srcStart isBal) s.2)
    {r : ForInStep (Match × Counter)} (hr : trackBody song m sa srcT srcStart isBal x s = .ok r) :
    ∃ b', r = .yield b' ∧ CInv (SubOK2 song m srcT srcStart isBal) b'.2 := by
  unfold trackBody at hr
  split at hr
  · simp only [pure, Except.pure, Except.ok.injEq] at hr
    exact ⟨_, hr.symm, hsc⟩
  rename_i hnlt
  split at hr
  · rename_i heq
    obtain ⟨r1, hr1, hr⟩ := bind_ok hr
    simp only [pure, Except.pure, Except.ok.injEq] at hr
    refine ⟨_, hr.symm, ?_⟩
    rw [heq] at hr1
    exact forIn_inv' _ (fun s : Match × Counter × Counter × Int × Bool =>
      CInv (SubOK2 song m srcT srcStart isBal) s.2.1) _ _ hsc
      (fun _ _ b hb r hr => midBodyS_cnt2 hb hr) r1 hr1
  · rename_i hne
    obtain ⟨r1, hr1, hr⟩ := bind_ok hr
    simp only [pure, Except.pure, Except.ok.injEq] at hr
    refine ⟨_, hr.symm, ?_⟩
    exact forIn_inv' _ (fun s : Counter × Counter => CInv (SubOK2 song m srcT srcStart isBal) s.1) _ _ hsc
      (fun _ _ b hb r hr => otherBody_cnt2 (by omega) hb hr) r1 hr1

/-- **`find_match`, the subroutine candidate, with a counted occurrence** (`bal` = the `balanced`
vector the run computed) -/
theorem findMatch_subOK2_bal {song : Song} {m : SAMap} {srcT srcStart : Nat} {mt : Match} {src : List Event}
    (hsrc : song.track? srcT = some src) (h : findMatch song m srcT srcStart = .ok mt) :
    ∃ bal, sourcePrefixes (getSA m srcT) src srcStart = .ok bal ∧ (0 < mt.subScore →
      SubOK2 song m srcT srcStart (fun len => (bal[len]?).getD false) mt.subLength) := by
  rw [findMatch_eq song m srcT srcStart src hsrc] at h
  obtain ⟨bal, hbal, h⟩ := bind_ok h
  refine ⟨bal, hbal, ?_⟩
  obtain ⟨s, hs, h⟩ := bind_ok h
  obtain ⟨mt2, h2, h⟩ := bind_ok h
  simp only [pure, Except.pure, Except.ok.injEq] at h
  subst h
  -- the counter holds only counted lengths; the subroutine score is only written by the final loop
  have hQ1 : CInv (SubOK2 song m srcT srcStart (fun len => (bal[len]?).getD false)) s.2 :=
    forIn_inv' _ (fun s : Match × Counter =>
      CInv (SubOK2 song m srcT srcStart (fun len => (bal[len]?).getD false)) s.2) _ _
      (fun p hp => by simp at hp) (fun x _ b hb r hr => trackBody_cnt2 hb hr) s hs
  have hQ2 : s.1.subScore = 0 := by
    refine forIn_inv' _ (fun s : Match × Counter => s.1.subScore = 0) _ _ rfl ?_ s hs
    intro x _ b hb r hr
    unfold trackBody at hr
    split at hr
    · simp only [pure, Except.pure, Except.ok.injEq] at hr
      exact ⟨_, hr.symm, hb⟩
    split at hr
    · obtain ⟨r1, hr1, hr⟩ := bind_ok hr
      simp only [pure, Except.pure, Except.ok.injEq] at hr
      refine ⟨_, hr.symm, ?_⟩
      refine forIn_inv' _ (fun s : Match × Counter × Counter × Int × Bool => s.1.subScore = 0) _ _ hb ?_ r1 hr1
      intro a _ c hc r hr
      obtain ⟨lv0, hr⟩ := midBodyS_cases hr
      unfold midBody at hr
      simp only at hr
      have key : ∀ ld lv, jpSame song m srcT srcStart x.1
          (fun len => (bal[len]?).getD false) a c.1 c.2.1 c.2.2.1 ld lv = .ok r →
          ∃ b', r = .yield b' ∧ b'.1.subScore = 0 := by
        intro ld lv hj
        obtain ⟨mt', sc', last', hr', hmt⟩ := jpSame_spec hj
        refine ⟨_, hr', ?_⟩
        rcases hmt with h | ⟨_, _, _, _, _, _, _, h3⟩
        · rw [h]; exact hc
        · rw [h3]; exact hc
      split at hr
      · exact key _ _ hr
      split at hr
      · exact key _ _ hr
      split at hr
      · exact key _ _ hr
      split at hr
      · exact key _ _ hr
      · exact key _ _ hr
    · obtain ⟨r1, hr1, hr⟩ := bind_ok hr
      simp only [pure, Except.pure, Except.ok.injEq] at hr
      exact ⟨_, hr.symm, hb⟩
  have hsorted : ∀ x ∈ (s.2.toArray.qsort (fun a b => a.1 < b.1)).toList,
      SubOK2 song m srcT srcStart (fun len => (bal[len]?).getD false) x.1 := by
    intro x hx
    have := (qsort_perm s.2.toArray (fun a b => a.1 < b.1)).mem_iff.1 hx
    exact hQ1 x (by simpa using this)
  exact forIn_inv' finalBody (fun mt' : Match => 0 < mt'.subScore →
      SubOK2 song m srcT srcStart (fun len => (bal[len]?).getD false) mt'.subLength) _
    { s.1 with trackId := srcT, position := srcStart }
    (fun h0 => by
      have : (0 : Int) < s.1.subScore := h0
      rw [hQ2] at this; omega)
    (fun a ha b hb r hr => by
      unfold finalBody at hr
      split at hr
      · simp only [pure, Except.pure, Except.ok.injEq] at hr
        exact ⟨_, hr.symm, fun _ => hsorted a ha⟩
      · simp only [pure, Except.pure, Except.ok.injEq] at hr
        exact ⟨_, hr.symm, hb⟩) mt2 h2

/-- **`find_match`, the subroutine candidate, with a counted occurrence** -/
theorem findMatch_subOK2 {song : Song} {m : SAMap} {srcT srcStart : Nat} {mt : Match} {src : List Event}
    (hsrc : song.track? srcT = some src) (h : findMatch song m srcT srcStart = .ok mt) :
    0 < mt.subScore →
      SubOK2 song m srcT srcStart (fun len => ((balancedPrefixes src srcStart)[len]?).getD false) mt.subLength := by
  obtain ⟨bal, hbal, h2⟩ := findMatch_subOK2_bal hsrc h
  intro hp
  exact (h2 hp).mono (fun len hl => (sourcePrefixes_spec hbal len hl).1)

end Ctrmml.OptSteps
