/-
  Reader layer, part 4 (helper lemmas for C05, round T; no property statements): the command set of
  the reader-layer theorems widened from `Covered` (ReaderLine) to C06's `LCovered` (LayoutCmd:
  `D R ~ [ L ] ( ) * @ v p K E M P G t T _ __ k %`), REUSING `lcmd_step` / `parse_toks`, plus what
  C06 had no use for: the refusal outcomes of `R` and `~` (the builder's `reverse_rest` throws, the
  reader turns it into an `InputError` at the cursor behind the duration) and the echo commands
  `\` and `\=delay,volume` of `mml_basic`.
-/
import Ctrmml.Proofs.LayoutLine
namespace Ctrmml.Mml
open Ctrmml.Tables Ctrmml.Lexer Ctrmml.TrackBuilder
open Ctrmml.MmlMeaning (Num Dur Acc Cmd Simple dotsBytes bodyBytes)

theorem bind_err {α β : Type} {m : P α} {f : α → P β} {s s' : MmlState} {e : Err} (h : m s = .err e s') :
    (m >>= f) s = .err e s' := by rw [run_bind, h]

/-! ### `R` and `~` when the builder refuses -/

/-- the `InputError` text `mml_reverse_rest` makes of the builder's exception -/
def rrMsg : Track.RRes → String
  | .done => ""
  | .domainError => "unable to backtrack"
  | .lengthError => "previous note is not long enough"

theorem mmlReverseRest_refused (s : MmlState) (dur : Nat)
    (hne : ((getTrack s).reverseRest (UInt16.ofNat dur)).2 ≠ .done) :
    mmlReverseRest dur s =
      .err (.input (rrMsg ((getTrack s).reverseRest (UInt16.ofNat dur)).2) s.inp.getReference)
        (setTrack s ((getTrack s).reverseRest (UInt16.ofNat dur)).1) := by
  unfold mmlReverseRest
  rw [bind_ok (track_run s)]
  cases h : (getTrack s).reverseRest (UInt16.ofNat dur) with
  | mk t r =>
    rw [h] at hne
    cases r with
    | done => exact absurd rfl hne
    | domainError => rfl
    | lengthError => rfl

/-- `R` + duration when `reverse_rest` refuses: the duration is read, the (shuffle-flipped) track is
stored, and the error carries the cursor position behind the duration -/
theorem revRest_span_refused (s : MmlState) (hs : Sane s) (d : Dur) (tail : List Nat)
    (hsuf : suffix s = 82 :: (d.bytes ++ tail)) (hn : DurNums d) (ht : DurTail d tail)
    (hne : ((getTrack s).reverseRest (UInt16.ofNat (durVal (getTrack s) d).toNat)).2 ≠ .done) :
    mmlBasic s = .err
      (.input (rrMsg ((getTrack s).reverseRest (UInt16.ofNat (durVal (getTrack s) d).toNat)).2)
        { line := s.inp.line, column := s.inp.lb.column + (1 + d.bytes.length + durSkip d tail) })
      (adv (setTrack s ((getTrack s).reverseRest (UInt16.ofNat (durVal (getTrack s) d).toNat)).1) (1 + d.bytes.length + durSkip d tail)) := by
  have hs1 : Sane (adv s 1) := sane_adv s hs 1 (by rw [hsuf]; simp)
  have hsuf1 : suffix (adv s 1) = d.bytes ++ tail := by rw [suffix_adv, hsuf]; rfl
  unfold mmlBasic
  rw [bind_ok (getTokenC_cons s 82 _ hsuf (by omega))]
  dispatch 82
  rw [bind_ok (readDuration_render (adv s 1) hs1 d tail hsuf1 hn ht)]
  rw [bind_err (mmlReverseRest_refused _ _ (by simpa using hne))]
  simp only [getTrack_adv, setTrack_adv, adv_adv, Nat.add_assoc]
  rfl

/-- `~` + note + duration when `reverse_rest` refuses: nothing is added, same error as for `R` -/
theorem grace_span_refused (s : MmlState) (hs : Sane s) (l : Nat) (hl : l < 8) (a : Acc) (d : Dur) (tail : List Nat)
    (hsuf : suffix s = 126 :: (97 + l) :: (a.bytes ++ (d.bytes ++ tail)))
    (hn : DurNums d) (ht : DurTail d tail)
    (hacc : a = .none → (d.bytes ++ tail).head? ≠ some 43 ∧ (d.bytes ++ tail).head? ≠ some 45 ∧ (d.bytes ++ tail).head? ≠ some 61)
    (hne : ((getTrack s).reverseRest (UInt16.ofNat (durVal (getTrack s) d).toNat)).2 ≠ .done) :
    mmlBasic s = .err
      (.input (rrMsg ((getTrack s).reverseRest (UInt16.ofNat (durVal (getTrack s) d).toNat)).2)
        { line := s.inp.line, column := s.inp.lb.column + (2 + a.bytes.length + d.bytes.length + durSkip d tail) })
      (adv (setTrack s ((getTrack s).reverseRest (UInt16.ofNat (durVal (getTrack s) d).toNat)).1)
        (2 + a.bytes.length + d.bytes.length + durSkip d tail)) := by
  have hs1 : Sane (adv s 1) := sane_adv s hs 1 (by rw [hsuf]; simp)
  have hsuf1 : suffix (adv s 1) = (97 + l) :: (a.bytes ++ (d.bytes ++ tail)) := by rw [suffix_adv, hsuf]; rfl
  have hs2 : Sane (adv (adv s 1) 1) := sane_adv _ hs1 1 (by rw [hsuf1]; simp)
  have hsuf2 : suffix (adv (adv s 1) 1) = a.bytes ++ (d.bytes ++ tail) := by rw [suffix_adv, hsuf1]; rfl
  have hs3 : Sane (adv (adv (adv s 1) 1) a.bytes.length) := sane_adv _ hs2 _ (by rw [hsuf2]; simp)
  have hsuf3 : suffix (adv (adv (adv s 1) 1) a.bytes.length) = d.bytes ++ tail := suffix_adv_append _ _ _ hsuf2
  obtain ⟨dur, hdur⟩ : ∃ dur, dur = (durVal (getTrack s) d).toNat := ⟨_, rfl⟩
  rw [← hdur] at hne ⊢
  have e2 : 1 + 1 + a.bytes.length + (d.bytes.length + durSkip d tail) = 2 + a.bytes.length + d.bytes.length + durSkip d tail := by omega
  have hgrace : mmlGrace (adv s 1) = .err
      (.input (rrMsg ((getTrack s).reverseRest (UInt16.ofNat dur)).2)
        { line := s.inp.line, column := s.inp.lb.column + (2 + a.bytes.length + d.bytes.length + durSkip d tail) })
      (adv (setTrack s ((getTrack s).reverseRest (UInt16.ofNat dur)).1) (2 + a.bytes.length + d.bytes.length + durSkip d tail)) := by
    unfold mmlGrace
    rw [bind_ok (getTokenC_cons (adv s 1) (97 + l) _ hsuf1 (by omega))]
    have e : ((97 + l : Nat) : Int) = 97 + (l : Int) := by omega
    rw [e]
    have hrange : (decide (97 + (l : Int) < 97) || decide (97 + (l : Int) > 104)) = false := by
      simp only [Bool.or_eq_false_iff, decide_eq_false_iff_not]; omega
    simp only [hrange, Bool.false_eq_true, if_false]
    rw [bind_ok (readNote_spec _ hs2 l hl a _ hsuf2 hacc)]
    rw [bind_ok (readDuration_render _ hs3 d tail hsuf3 hn ht)]
    simp only [getTrack_adv]
    rw [← hdur]
    rw [bind_err (mmlReverseRest_refused _ dur (by simpa using hne))]
    simp only [getTrack_adv, setTrack_adv, adv_adv, e2]
    rw [← e2]
    rfl
  unfold mmlBasic
  rw [bind_ok (getTokenC_cons s 126 _ hsuf (by omega))]
  dispatch 126
  rw [bind_err hgrace]

/-- one iteration of `parse_mml_track` whose `mml_basic` raises: the error escapes unchanged -/
theorem step_basic_err (f : Nat) (s : MmlState) (hs : Sane s) (c : Nat) (r : List Nat)
    (hsuf : suffix s = c :: r) (hc : 33 ≤ c ∧ c < 128) (hn : NotLoopChar c) (e : Err) (s2 : MmlState)
    (hbasic : mmlBasic (setTrack s
        ((getTrack s).setReference (some { line := s.inp.line, column := s.inp.lb.column }))) = .err e s2) :
    parseMmlTrackF (f + 1) s = .err e s2 := by
  obtain ⟨h1, h2, h3, h4, h5, h6⟩ := hn
  have e0 := ne_lit c 0 (by omega) 0 rfl
  have e124 := ne_lit c 124 h1 124 rfl
  have e59 := ne_lit c 59 h2 59 rfl
  have e47 := ne_lit c 47 h3 47 rfl
  have e125 := ne_lit c 125 h4 125 rfl
  have e123 := ne_lit c 123 h5 123 rfl
  have e37 := ne_lit c 37 h6 37 rfl
  unfold parseMmlTrackF
  rw [bind_ok (getTokenC_cons s c r hsuf hc), bind_ok (getS_run _)]
  simp only [e124, e59, e47, e125, e123, e37, e0, Bool.false_eq_true, if_false, Bool.or_self, Bool.false_and]
  rw [← schar_small c hc.2, bind_ok (ungetC_same s hs.bytes c r hsuf), bind_ok (getS_run _)]
  rw [bind_ok (trackOp_ok _ _ _ "" rfl)]
  have hst : setTrack s (Track.setReference (getTrack s) (some s.inp.getReference)) =
      setTrack s ((getTrack s).setReference (some { line := s.inp.line, column := s.inp.lb.column })) := rfl
  rw [hst, bind_err hbasic]

/-- `R` refused, seen from `parse_mml_track`: the run ends with the `InputError` -/
theorem revRest_step_refused (f : Nat) (s : MmlState) (hs : Sane s) (d : Dur) (tail : List Nat)
    (hsuf : suffix s = (Cmd.revRest d).bytes ++ tail) (hn : DurNums d) (ht : DurTail d tail)
    (hne : ((getTrack s).strip.reverseRest (UInt16.ofNat (durVal (getTrack s).strip d).toNat)).2 ≠ .done) :
    ∃ t', parseMmlTrackF (f + 1) s = .err
      (.input (rrMsg ((getTrack s).strip.reverseRest (UInt16.ofNat (durVal (getTrack s).strip d).toNat)).2)
        { line := s.inp.line, column := s.inp.lb.column + ((Cmd.revRest d).bytes.length + durSkip d tail) })
      (adv (setTrack s t') ((Cmd.revRest d).bytes.length + durSkip d tail)) := by
  obtain ⟨t1, ht1⟩ : ∃ t1, t1 = (getTrack s).setReference (some { line := s.inp.line, column := s.inp.lb.column }) := ⟨_, rfl⟩
  have hst : t1.strip = (getTrack s).strip := by rw [ht1, Track.strip_setReference]
  have hdv : durVal t1 d = durVal (getTrack s).strip d := by rw [← hst, durVal_strip]
  have hrr : (t1.reverseRest (UInt16.ofNat (durVal t1 d).toNat)).2 =
      ((getTrack s).strip.reverseRest (UInt16.ofNat (durVal (getTrack s).strip d).toNat)).2 := by
    rw [← (Track.strip_reverseRest t1 _).2, hst, hdv]
  have hs0 : Sane (setTrack s t1) := sane_setTrack _ _ hs
  have hsuf0 : suffix (setTrack s t1) = 82 :: (d.bytes ++ tail) := by rw [suffix_setTrack]; simpa [Cmd.bytes] using hsuf
  have hspan := revRest_span_refused (setTrack s t1) hs0 d tail hsuf0 hn ht (by rw [getTrack_setTrack, hrr]; exact hne)
  rw [getTrack_setTrack, setTrack_setTrack, hrr] at hspan
  have hsuf' : suffix s = 82 :: (d.bytes ++ tail) := by simpa [Cmd.bytes] using hsuf
  have := step_basic_err f s hs 82 _ hsuf' (by omega) (by unfold NotLoopChar; omega) _ _ (by rw [← ht1]; exact hspan)
  refine ⟨(t1.reverseRest (UInt16.ofNat (durVal t1 d).toNat)).1, ?_⟩
  rw [this]
  simp only [Cmd.bytes, List.length_cons]
  have e : 1 + d.bytes.length + durSkip d tail = d.bytes.length + 1 + durSkip d tail := by omega
  rw [e]; rfl

/-- `~` refused, seen from `parse_mml_track` -/
theorem grace_step_refused (f : Nat) (s : MmlState) (hs : Sane s) (l : Nat) (hl : l < 8) (a : Acc) (d : Dur) (tail : List Nat)
    (hsuf : suffix s = (Cmd.grace l a d).bytes ++ tail) (hn : DurNums d) (ht : LCmdTail (.grace l a d) tail)
    (hne : ((getTrack s).strip.reverseRest (UInt16.ofNat (durVal (getTrack s).strip d).toNat)).2 ≠ .done) :
    ∃ t', parseMmlTrackF (f + 1) s = .err
      (.input (rrMsg ((getTrack s).strip.reverseRest (UInt16.ofNat (durVal (getTrack s).strip d).toNat)).2)
        { line := s.inp.line, column := s.inp.lb.column + ((Cmd.grace l a d).bytes.length + durSkip d tail) })
      (adv (setTrack s t') ((Cmd.grace l a d).bytes.length + durSkip d tail)) := by
  obtain ⟨t1, ht1⟩ : ∃ t1, t1 = (getTrack s).setReference (some { line := s.inp.line, column := s.inp.lb.column }) := ⟨_, rfl⟩
  have hst : t1.strip = (getTrack s).strip := by rw [ht1, Track.strip_setReference]
  have hdv : durVal t1 d = durVal (getTrack s).strip d := by rw [← hst, durVal_strip]
  have hrr : (t1.reverseRest (UInt16.ofNat (durVal t1 d).toNat)).2 =
      ((getTrack s).strip.reverseRest (UInt16.ofNat (durVal (getTrack s).strip d).toNat)).2 := by
    rw [← (Track.strip_reverseRest t1 _).2, hst, hdv]
  have hlb : MmlMeaning.letterByte l = 97 + l := by unfold MmlMeaning.letterByte; rw [Nat.mod_eq_of_lt hl]
  have hs0 : Sane (setTrack s t1) := sane_setTrack _ _ hs
  have hsuf0 : suffix (setTrack s t1) = 126 :: (97 + l) :: (a.bytes ++ (d.bytes ++ tail)) := by
    rw [suffix_setTrack]; simpa [Cmd.bytes, hlb] using hsuf
  have hspan := grace_span_refused (setTrack s t1) hs0 l hl a d tail hsuf0 hn ht.1 ht.2 (by rw [getTrack_setTrack, hrr]; exact hne)
  rw [getTrack_setTrack, setTrack_setTrack, hrr] at hspan
  have hsuf' : suffix s = 126 :: ((97 + l) :: (a.bytes ++ (d.bytes ++ tail))) := by simpa [Cmd.bytes, hlb] using hsuf
  have := step_basic_err f s hs 126 _ hsuf' (by omega) (by unfold NotLoopChar; omega) _ _ (by rw [← ht1]; exact hspan)
  refine ⟨(t1.reverseRest (UInt16.ofNat (durVal t1 d).toNat)).1, ?_⟩
  rw [this]
  simp only [Cmd.bytes, List.length_cons, List.length_append]
  have e : 2 + a.bytes.length + d.bytes.length + durSkip d tail = a.bytes.length + 1 + 1 + d.bytes.length + durSkip d tail := by omega
  rw [e]; rfl

/-! ### echo: `\` + duration, `\=delay,volume` -/

/-- `\`, any blanks, a duration: `mml_echo` looks at the next token (`=` or not), puts it back and
reads the duration; the builder call is `add_echo` -/
theorem echo_span (s : MmlState) (hs : Sane s) (bl : List Nat) (hbl : ∀ b ∈ bl, b = 32 ∨ b = 9) (d : Dur) (tail : List Nat)
    (hsuf : suffix s = 92 :: (bl ++ (d.bytes ++ tail)))
    (hnb : LineBuffer.countBlanks (d.bytes ++ tail) = 0) (h61 : (d.bytes ++ tail).head? ≠ some 61)
    (hn : DurNums d) (ht : DurTail d tail) :
    mmlBasic s = .ok false
      (adv (setTrack s ((getTrack s).addEcho (UInt16.ofNat (durVal (getTrack s) d).toNat)))
        (1 + bl.length + d.bytes.length + durSkip d tail)) := by
  have hs1 : Sane (adv s 1) := sane_adv s hs 1 (by rw [hsuf]; simp)
  have hsuf1 : suffix (adv s 1) = bl ++ (d.bytes ++ tail) := by rw [suffix_adv, hsuf]; rfl
  have hs2 : Sane (adv (adv s 1) bl.length) := sane_adv _ hs1 _ (by rw [hsuf1]; simp)
  have hsuf2 : suffix (adv (adv s 1) bl.length) = d.bytes ++ tail := suffix_adv_append _ _ _ hsuf1
  have hcb : LineBuffer.countBlanks (bl ++ (d.bytes ++ tail)) = bl.length := by
    rw [countBlanks_append bl _ (fun b hb => blank_isBlank b (hbl b hb)), hnb]; rfl
  obtain ⟨c, hget, _, hne, _⟩ := peek_spec _ hs2
  have c61 : (c == 61) = false := hne 61 (by omega) (by omega) (by rw [hsuf2]; exact h61)
  have htok : getTokenC (adv s 1) = .ok c (adv (adv (adv s 1) bl.length) 1) := by
    rw [getTokenC_eq, hsuf1, hcb]; exact hget
  have hecho : mmlEcho (adv s 1) = .ok ()
      (adv (setTrack s ((getTrack s).addEcho (UInt16.ofNat (durVal (getTrack s) d).toNat)))
        (1 + bl.length + d.bytes.length + durSkip d tail)) := by
    unfold mmlEcho
    rw [bind_ok htok]
    simp only [c61, Bool.false_eq_true, if_false]
    rw [bind_ok (ungetC_zero _), bind_ok (readDuration_render _ hs2 d tail hsuf2 hn ht)]
    rw [trackOp_ok _ _ _ "" rfl]
    simp only [getTrack_adv, setTrack_adv, adv_adv, Nat.add_assoc]
  unfold mmlBasic
  rw [bind_ok (getTokenC_cons s 92 _ hsuf (by omega))]
  dispatch 92
  rw [bind_ok hecho, run_pure]

theorem numEnd_comma (base : Nat) (hb : base ≤ 16) (rest : List Nat) : NumEnd base (44 :: rest) := by
  refine ⟨?_, ?_⟩
  · intro c hc
    simp at hc; subst hc
    unfold digitVal
    simp only [show ¬ (48 ≤ 44 ∧ 44 ≤ 57) by omega, show ¬ (97 ≤ 44 ∧ 44 ≤ 122) by omega,
      show ¬ (65 ≤ 44 ∧ 44 ≤ 90) by omega, if_false]
    have : ¬ 99 < base := by omega
    simp [this]
  · intro _ c hc
    simp at hc; omega

/-- the builder calls of `\=delay,volume`: a negative delay keeps the echo buffer -/
def echoSetTrack (t : Track) (dl v : Num) : Track :=
  if wrapS16 dl.v < 0 then t.setEcho (u16 (wrapS16 (-(wrapS16 dl.v)))) (wrapU16 v.v)
  else t.clearEchoBuffer.setEcho (u16 (wrapS16 dl.v)) (wrapU16 v.v)

theorem echoSet_span (s : MmlState) (hs : Sane s) (dl v : Num) (tail : List Nat)
    (hsuf : suffix s = 92 :: 61 :: (dl.bytes ++ 44 :: (v.bytes ++ tail)))
    (hrd : NumRange dl) (hrv : NumRange v) (hend : NumEnd (numBase v) tail) :
    mmlBasic s = .ok false (adv (setTrack s (echoSetTrack (getTrack s) dl v)) (3 + dl.bytes.length + v.bytes.length)) := by
  have hb : ∀ n : Num, numBase n ≤ 16 := fun n => by unfold numBase; split <;> omega
  have hs1 : Sane (adv s 1) := sane_adv s hs 1 (by rw [hsuf]; simp)
  have hsuf1 : suffix (adv s 1) = 61 :: (dl.bytes ++ 44 :: (v.bytes ++ tail)) := by rw [suffix_adv, hsuf]; rfl
  have hs2 : Sane (adv (adv s 1) 1) := sane_adv _ hs1 1 (by rw [hsuf1]; simp)
  have hsuf2 : suffix (adv (adv s 1) 1) = dl.bytes ++ 44 :: (v.bytes ++ tail) := by rw [suffix_adv, hsuf1]; rfl
  have hs3 : Sane (adv (adv (adv s 1) 1) dl.bytes.length) := sane_adv _ hs2 _ (by rw [hsuf2]; simp)
  have hsuf3 : suffix (adv (adv (adv s 1) 1) dl.bytes.length) = 44 :: (v.bytes ++ tail) := suffix_adv_append _ _ _ hsuf2
  have hecho : mmlEcho (adv s 1) = .ok ()
      (adv (setTrack s (echoSetTrack (getTrack s) dl v)) (3 + dl.bytes.length + v.bytes.length)) := by
    unfold mmlEcho
    rw [bind_ok (getTokenC_cons (adv s 1) 61 _ hsuf1 (by omega))]
    dispatch 61
    rw [bind_ok (expectParameter_render _ hs2 dl _ hsuf2 hrd (numEnd_comma _ (hb dl) _))]
    have e3 : 1 + 1 + dl.bytes.length + 1 + v.bytes.length = 3 + dl.bytes.length + v.bytes.length := by omega
    by_cases hneg : wrapS16 dl.v < 0
    · simp only [hneg, if_true]
      rw [bind_ok (run_pure _ _)]
      have hs4 : Sane (adv (adv (adv (adv s 1) 1) dl.bytes.length) 1) := sane_adv _ hs3 1 (by rw [hsuf3]; simp)
      have hsuf4 : suffix (adv (adv (adv (adv s 1) 1) dl.bytes.length) 1) = v.bytes ++ tail := by rw [suffix_adv, hsuf3]; rfl
      rw [bind_ok (getTokenC_cons _ 44 _ hsuf3 (by omega))]
      dispatch 44
      rw [bind_ok (expectParameter_render _ hs4 v tail hsuf4 hrv hend)]
      rw [trackOp_ok _ _ _ "" rfl]
      simp only [getTrack_adv, setTrack_adv, adv_adv, e3]
      simp only [echoSetTrack, hneg, if_true]
    · simp only [hneg, if_false]
      rw [bind_ok (trackOp_ok _ .clearEchoBuffer _ "" rfl), bind_ok (run_pure _ _)]
      obtain ⟨s3, hs3d⟩ : ∃ s3, s3 = setTrack (adv (adv (adv s 1) 1) dl.bytes.length) (getTrack (adv (adv (adv s 1) 1) dl.bytes.length)).clearEchoBuffer := ⟨_, rfl⟩
      rw [← hs3d]
      have hs3' : Sane s3 := by rw [hs3d]; exact sane_setTrack _ _ hs3
      have hsuf3' : suffix s3 = 44 :: (v.bytes ++ tail) := by rw [hs3d, suffix_setTrack]; exact hsuf3
      have hs4 : Sane (adv s3 1) := sane_adv _ hs3' 1 (by rw [hsuf3']; simp)
      have hsuf4 : suffix (adv s3 1) = v.bytes ++ tail := by rw [suffix_adv, hsuf3']; rfl
      rw [bind_ok (getTokenC_cons _ 44 _ hsuf3' (by omega))]
      dispatch 44
      rw [bind_ok (expectParameter_render _ hs4 v tail hsuf4 hrv hend)]
      rw [trackOp_ok _ _ _ "" rfl]
      rw [hs3d]
      simp only [getTrack_adv, getTrack_setTrack, setTrack_adv, setTrack_setTrack, adv_adv, e3]
      simp only [echoSetTrack, hneg, if_false]
  unfold mmlBasic
  rw [bind_ok (getTokenC_cons s 92 _ hsuf (by omega))]
  dispatch 92
  rw [bind_ok hecho, run_pure]

/-! ### canonical lines over the extended set (`LCovered`), from C06's `parse_toks` -/

/-- what follows a command on a canonical line of the extended set -/
def LSepTail (tail : List Nat) : Prop := tail = [] ∨ ∃ c r, tail = 32 :: c :: r ∧ LCmdStart c

theorem lnumSpan_sep (c : Nat) (r : List Nat) (hc : LCmdStart c) : numSpan (32 :: c :: r) = (none, 1) := by
  have := numSpan_stop [32] (by simp) (c :: r) (Or.inr ⟨c, r, rfl, Or.inr (Or.inr (Or.inr (Or.inr (Or.inr hc))))⟩)
  simpa using this

theorem numEnd_lsepTail (base : Nat) (hb : base ≤ 16) (tail : List Nat) (h : LSepTail tail) : NumEnd base tail := by
  rcases h with rfl | ⟨c, r, rfl, _⟩
  · exact ⟨fun c hc => by simp at hc, fun _ c hc => by simp at hc⟩
  · refine ⟨?_, ?_⟩
    · intro x hx
      simp at hx; subst hx
      unfold digitVal
      simp only [show ¬ (48 ≤ 32 ∧ 32 ≤ 57) by omega, show ¬ (97 ≤ 32 ∧ 32 ≤ 122) by omega,
        show ¬ (65 ≤ 32 ∧ 32 ≤ 90) by omega, if_false]
      have : ¬ 99 < base := by omega
      simp [this]
    · intro _ x hx
      simp at hx; omega

theorem durTail_lsepTail (d : Dur) (tail : List Nat) (h : LSepTail tail) : DurTail d tail := by
  have h46 : tail.head? ≠ some 46 := by
    rcases h with rfl | ⟨c, r, rfl, _⟩ <;> simp
  have hb : ∀ n : Num, numBase n ≤ 16 := fun n => by unfold numBase; split <;> omega
  cases d with
  | dflt k =>
    cases k with
    | zero =>
      rcases h with rfl | ⟨c, r, rfl, hc⟩
      · simp [DurTail, numSpan_nil]
      · have hne : c ≠ 46 := (stop_props c (Or.inr (Or.inr (Or.inr (Or.inr (Or.inr hc)))))).2.2.2.2.2.2.1
        simp [DurTail, lnumSpan_sep c r hc, hne]
    | succ k => exact h46
  | len n k =>
    cases k with
    | zero => exact ⟨numEnd_lsepTail _ (hb n) tail h, h46⟩
    | succ k => exact h46
  | frames n k =>
    cases k with
    | zero => exact ⟨numEnd_lsepTail _ (hb n) tail h, h46⟩
    | succ k => exact h46

theorem dur_head_l (d : Dur) (tail : List Nat) (hn : DurNums d) (ht : LSepTail tail) :
    (d.bytes ++ tail).head? ≠ some 43 ∧ (d.bytes ++ tail).head? ≠ some 45 ∧ (d.bytes ++ tail).head? ≠ some 61 := by
  cases d with
  | dflt k =>
    cases k with
    | zero => rcases ht with rfl | ⟨c, r, rfl, _⟩ <;> simp [Dur.bytes, dotsBytes]
    | succ k => simp [Dur.bytes, dotsBytes, List.replicate_succ]
  | len n k =>
    obtain ⟨c, r, hcr, hc⟩ := num_bytes_head_nonneg n (by have := hn.2; omega)
    simp only [Dur.bytes, hcr, List.cons_append, List.head?_cons, ne_eq, Option.some.injEq]
    omega
  | frames n k => simp [Dur.bytes]

/-- the look-ahead condition of every command of the extended set holds on canonical lines -/
theorem lcmdTail_lsepTail (t : Track) (cmd : Cmd) (tail : List Nat) (hn : LCmdNums t cmd) (ht : LSepTail tail) :
    LCmdTail cmd tail := by
  have hb : ∀ n : Num, numBase n ≤ 16 := fun n => by unfold numBase; split <;> omega
  have hnone : (numSpan tail).1 = none := by
    rcases ht with rfl | ⟨c, r, rfl, hc⟩
    · rw [numSpan_nil]
    · rw [lnumSpan_sep c r hc]
  cases cmd with
  | note l a d => exact ⟨durTail_lsepTail d tail ht, fun _ => dur_head_l d tail hn ht⟩
  | rest d => exact durTail_lsepTail d tail ht
  | tie d => exact durTail_lsepTail d tail ht
  | length d => exact durTail_lsepTail d tail ht
  | revRest d => exact durTail_lsepTail d tail ht
  | grace l a d => exact ⟨durTail_lsepTail d tail ht, fun _ => dur_head_l d tail hn.1 ht⟩
  | octave n => exact numEnd_lsepTail _ (hb n) tail ht
  | quantize n => exact numEnd_lsepTail _ (hb n) tail ht
  | early n => exact numEnd_lsepTail _ (hb n) tail ht
  | measure n => exact numEnd_lsepTail _ (hb n) tail ht
  | shuffle n => exact numEnd_lsepTail _ (hb n) tail ht
  | drum n => exact numEnd_lsepTail _ (hb n) tail ht
  | simple sm n =>
    cases n with
    | some n => exact numEnd_lsepTail _ (hb n) tail ht
    | none => cases sm <;> first | exact hnone | trivial
  | _ => trivial

/-- the tokens of a canonical line: the commands, one space between two -/
def sepToks : List Cmd → List Tok
  | [] => []
  | c :: cs => .blank 32 :: .cmd c :: sepToks cs

def bodyToks : List Cmd → List Tok
  | [] => []
  | c :: cs => .cmd c :: sepToks cs

theorem toksText_sepToks (cs : List Cmd) : toksText (sepToks cs) [] = sepBody cs := by
  induction cs with
  | nil => rfl
  | cons c cs ih =>
    show 32 :: (c.bytes ++ toksText (sepToks cs) []) = 32 :: bodyBytes (c :: cs)
    rw [ih, bodyBytes_cons]

theorem toksText_bodyToks (cs : List Cmd) : toksText (bodyToks cs) [] = bodyBytes cs := by
  cases cs with
  | nil => rfl
  | cons c cs =>
    show c.bytes ++ toksText (sepToks cs) [] = bodyBytes (c :: cs)
    rw [toksText_sepToks, bodyBytes_cons]

theorem cmdsOf_sepToks (cs : List Cmd) : cmdsOf (sepToks cs) = cs := by
  induction cs with
  | nil => rfl
  | cons c cs ih => simp [sepToks, cmdsOf, ih]

theorem cmdsOf_bodyToks (cs : List Cmd) : cmdsOf (bodyToks cs) = cs := by
  cases cs with
  | nil => rfl
  | cons c cs => simp [bodyToks, cmdsOf, cmdsOf_sepToks]

theorem lsepTail_sepBody (t : Track) (cs : List Cmd) (h : CmdsOk t cs) : LSepTail (sepBody cs) := by
  cases cs with
  | nil => exact Or.inl rfl
  | cons c2 cs' =>
    obtain ⟨ch, r', hb2, hch⟩ := lcovered_head c2 h.1
    refine Or.inr ⟨ch, r' ++ sepBody cs', ?_, hch⟩
    show 32 :: bodyBytes (c2 :: cs') = _
    rw [bodyBytes_cons, hb2]; rfl

theorem toksOk_sepToks (cs : List Cmd) : ∀ t, CmdsOk t cs → ToksOk (sepToks cs) [] := by
  induction cs with
  | nil => intro _ _; trivial
  | cons c cs ih =>
    intro t h
    refine ⟨Or.inl rfl, ?_, ih _ h.2.2⟩
    rw [toksText_sepToks]
    exact lcmdTail_lsepTail t c _ h.2.1 (lsepTail_sepBody _ cs h.2.2)

theorem toksOk_bodyToks (cs : List Cmd) (t : Track) (h : CmdsOk t cs) : ToksOk (bodyToks cs) [] := by
  cases cs with
  | nil => trivial
  | cons c cs =>
    refine ⟨?_, toksOk_sepToks cs _ h.2.2⟩
    rw [toksText_sepToks]
    exact lcmdTail_lsepTail t c _ h.2.1 (lsepTail_sepBody _ cs h.2.2)

/-- `parse_mml_track` on the canonical body `c₁ c₂ … cₙ` of commands of the extended set: the track
ends, up to source references, as after the builder calls of the commands in order -/
theorem parse_body_ext (cmds : List Cmd) (f : Nat) (s : MmlState) (hs : Sane s) (hsuf : suffix s = bodyBytes cmds)
    (hn : CmdsOk (getTrack s).strip cmds) (hf : (bodyBytes cmds).length + 1 ≤ f) :
    ∃ s', parseMmlTrackF f s = .ok () s' ∧ Moved s s' ∧ (getTrack s').strip = runCmds (getTrack s).strip cmds := by
  have := parse_toks (bodyToks cmds).length (bodyToks cmds) (Nat.le_refl _) [] f s hs (Or.inl rfl)
    (by rw [toksText_bodyToks]; exact hsuf) (toksOk_bodyToks cmds _ hn) (by rw [cmdsOf_bodyToks]; exact hn)
    (by rw [toksText_bodyToks]; exact hf)
  rw [cmdsOf_bodyToks] at this
  exact this

theorem parse_track_body_ext (cmds : List Cmd) (s : MmlState) (hs : Sane s) (hsuf : suffix s = bodyBytes cmds)
    (hn : CmdsOk (getTrack s).strip cmds) :
    ∃ s', parseMmlTrack s = .ok () s' ∧ Moved s s' ∧ (getTrack s').strip = runCmds (getTrack s).strip cmds := by
  unfold parseMmlTrack
  rw [bind_ok (getS_run s)]
  have hfuel : (bodyBytes cmds).length + 1 ≤ trackFuel s := by
    have h1 := suffix_length s
    rw [hsuf] at h1
    unfold trackFuel
    have := hs.inl
    omega
  exact parse_body_ext cmds (trackFuel s) s hs hsuf hn hfuel

/-! ### the extended set as one interface: `LCovered` and the echo commands -/

/-- `\` seen from `parse_mml_track` (blanks allowed between `\` and the duration) -/
theorem echo_step (f : Nat) (s : MmlState) (hs : Sane s) (bl : List Nat) (hbl : ∀ b ∈ bl, b = 32 ∨ b = 9) (d : Dur) (tail : List Nat)
    (hsuf : suffix s = 92 :: (bl ++ (d.bytes ++ tail)))
    (hnb : LineBuffer.countBlanks (d.bytes ++ tail) = 0) (h61 : (d.bytes ++ tail).head? ≠ some 61)
    (hn : DurNums d) (ht : DurTail d tail) :
    parseMmlTrackF (f + 1) s =
      parseMmlTrackF f (adv (setTrack s
        (((getTrack s).setReference (some { line := s.inp.line, column := s.inp.lb.column })).addEcho
          (UInt16.ofNat (durVal ((getTrack s).setReference (some { line := s.inp.line, column := s.inp.lb.column })) d).toNat)))
        (1 + bl.length + d.bytes.length + durSkip d tail)) := by
  obtain ⟨t1, ht1⟩ : ∃ t1, t1 = (getTrack s).setReference (some { line := s.inp.line, column := s.inp.lb.column }) := ⟨_, rfl⟩
  have hs0 : Sane (setTrack s t1) := sane_setTrack _ _ hs
  have hsuf0 : suffix (setTrack s t1) = 92 :: (bl ++ (d.bytes ++ tail)) := by rw [suffix_setTrack]; exact hsuf
  have hspan := echo_span (setTrack s t1) hs0 bl hbl d tail hsuf0 hnb h61 hn ht
  rw [getTrack_setTrack, setTrack_setTrack] at hspan
  have hsuf' : suffix s = List.replicate 0 32 ++ 92 :: (bl ++ (d.bytes ++ tail)) := by simpa using hsuf
  have := step_basic f s hs 0 92 _ hsuf' (by omega) (by unfold NotLoopChar; omega) _ (by
    rw [adv_zero, Nat.add_zero, ← ht1]; exact hspan)
  rw [this, ht1]

/-- `\=delay,volume` seen from `parse_mml_track` -/
theorem echoSet_step (f : Nat) (s : MmlState) (hs : Sane s) (dl v : Num) (tail : List Nat)
    (hsuf : suffix s = 92 :: 61 :: (dl.bytes ++ 44 :: (v.bytes ++ tail)))
    (hrd : NumRange dl) (hrv : NumRange v) (hend : NumEnd (numBase v) tail) :
    parseMmlTrackF (f + 1) s =
      parseMmlTrackF f (adv (setTrack s
        (echoSetTrack ((getTrack s).setReference (some { line := s.inp.line, column := s.inp.lb.column })) dl v))
        (3 + dl.bytes.length + v.bytes.length)) := by
  obtain ⟨t1, ht1⟩ : ∃ t1, t1 = (getTrack s).setReference (some { line := s.inp.line, column := s.inp.lb.column }) := ⟨_, rfl⟩
  have hs0 : Sane (setTrack s t1) := sane_setTrack _ _ hs
  have hsuf0 : suffix (setTrack s t1) = 92 :: 61 :: (dl.bytes ++ 44 :: (v.bytes ++ tail)) := by rw [suffix_setTrack]; exact hsuf
  have hspan := echoSet_span (setTrack s t1) hs0 dl v tail hsuf0 hrd hrv hend
  rw [getTrack_setTrack, setTrack_setTrack] at hspan
  have hsuf' : suffix s = List.replicate 0 32 ++ 92 :: (61 :: (dl.bytes ++ 44 :: (v.bytes ++ tail))) := by simpa using hsuf
  have := step_basic f s hs 0 92 _ hsuf' (by omega) (by unfold NotLoopChar; omega) _ (by
    rw [adv_zero, Nat.add_zero, ← ht1]; exact hspan)
  rw [this, ht1]

/-- C05's extended command set: C06's `LCovered` (C05's `Covered`, `D R ~ [ L ] ( ) * @ v p K E M P
G t T _ __ k %`) and the echo commands `\`, `\=` -/
def ECovered : Cmd → Prop
  | .echo _ => True
  | .echoSet _ _ => True
  | c => LCovered c

/-- the builder call(s) of a command of the extended set -/
def ecmdTrack (t : Track) : Cmd → Track
  | .echo d => t.addEcho (UInt16.ofNat (durVal t d).toNat)
  | .echoSet dl v => echoSetTrack t dl v
  | c => lcmdTrack t c

/-- conditions on the written numbers (and, for `& R ~`, that the builder accepts) -/
def ECmdNums (t : Track) : Cmd → Prop
  | .echo d => DurNums d
  | .echoSet dl v => NumRange dl ∧ NumRange v
  | c => LCmdNums t c

/-- the look-ahead.  `\`: `mml_echo` reads a TOKEN behind `\` to look for `=`, so blanks there are
skipped before the duration is read; the interface asks for none (`echo_step` has the general form) -/
def ECmdTail : Cmd → List Nat → Prop
  | .echo d, tail => DurTail d tail ∧ LineBuffer.countBlanks (d.bytes ++ tail) = 0 ∧ (d.bytes ++ tail).head? ≠ some 61
  | .echoSet _ v, tail => NumEnd (numBase v) tail
  | c, tail => LCmdTail c tail

def ecmdSkip : Cmd → List Nat → Nat
  | .echo d, tail => durSkip d tail
  | .echoSet _ _, _ => 0
  | c, tail => lcmdSkip c tail

theorem ecovered_of_lcovered (c : Cmd) (h : LCovered c) : ECovered c := by
  cases c <;> first | exact h | trivial

/-- ONE COMMAND OF THE EXTENDED SET AT THE CURSOR: one iteration of `parse_mml_track` = its builder
call(s) on the track stamped with the cursor position; the cursor ends behind the spelling -/
theorem ecmd_step (f : Nat) (s : MmlState) (hs : Sane s) (cmd : Cmd) (tail : List Nat) (hc : ECovered cmd)
    (hsuf : suffix s = cmd.bytes ++ tail) (hn : ECmdNums (getTrack s).strip cmd) (ht : ECmdTail cmd tail) :
    parseMmlTrackF (f + 1) s =
      parseMmlTrackF f (adv (setTrack s (ecmdTrack ((getTrack s).setReference (some { line := s.inp.line, column := s.inp.lb.column })) cmd))
        (cmd.bytes.length + ecmdSkip cmd tail)) := by
  cases cmd with
  | echo d =>
    have h := echo_step f s hs [] (by simp) d tail (by simpa [Cmd.bytes] using hsuf) ht.2.1 ht.2.2 hn ht.1
    rw [h]
    simp only [Cmd.bytes, ecmdTrack, ecmdSkip, List.length_cons, List.length_nil]
    have e : 1 + 0 + d.bytes.length + durSkip d tail = d.bytes.length + 1 + durSkip d tail := by omega
    rw [e]
  | echoSet dl v =>
    have h := echoSet_step f s hs dl v tail (by simpa [Cmd.bytes] using hsuf) hn.1 hn.2 ht
    rw [h]
    simp only [Cmd.bytes, ecmdTrack, ecmdSkip, List.length_cons, List.length_append]
    have e : 3 + dl.bytes.length + v.bytes.length = dl.bytes.length + 1 + 1 + (v.bytes.length + 1) + 0 := by omega
    rw [e]
  | _ => exact lcmd_step f s hs _ tail hc hsuf hn ht

/-- `R` / `~` of the extended set when the builder refuses: the run of `parse_mml_track` ends with
the `InputError` (`rrMsg`: "unable to backtrack" / "previous note is not long enough") at the cursor
behind the command; the track keeps only the flipped shuffle sign of `reverse_rest` -/
theorem ecmd_step_refused (f : Nat) (s : MmlState) (hs : Sane s) (cmd : Cmd) (tail : List Nat) (hc : ECovered cmd)
    (hsuf : suffix s = cmd.bytes ++ tail) (ht : ECmdTail cmd tail) (d : Dur)
    (hcmd : cmd = .revRest d ∨ ∃ l a, cmd = .grace l a d) (hn : DurNums d)
    (hne : ((getTrack s).strip.reverseRest (UInt16.ofNat (durVal (getTrack s).strip d).toNat)).2 ≠ .done) :
    ∃ t', parseMmlTrackF (f + 1) s = .err
      (.input (rrMsg ((getTrack s).strip.reverseRest (UInt16.ofNat (durVal (getTrack s).strip d).toNat)).2)
        { line := s.inp.line, column := s.inp.lb.column + (cmd.bytes.length + ecmdSkip cmd tail) })
      (adv (setTrack s t') (cmd.bytes.length + ecmdSkip cmd tail)) := by
  rcases hcmd with rfl | ⟨l, a, rfl⟩
  · exact revRest_step_refused f s hs d tail hsuf hn ht hne
  · exact grace_step_refused f s hs l hc a d tail hsuf hn ht hne

/-! ### the look-ahead condition of the whole extended set on canonical lines -/

theorem countBlanks_head (l : List Nat) (c : Nat) (h : l.head? = some c) (hc : 33 ≤ c ∧ c < 128) : LineBuffer.countBlanks l = 0 := by
  cases l with
  | nil => simp at h
  | cons x r => simp at h; subst h; simp [LineBuffer.countBlanks, not_blank_of_range x hc]

/-- `\` with a written duration (or at the end of the line) on a canonical line -/
theorem echoTail_lsepTail (d : Dur) (tail : List Nat) (hn : DurNums d) (ht : LSepTail tail) (hd : d = .dflt 0 → tail = []) :
    ECmdTail (.echo d) tail := by
  refine ⟨durTail_lsepTail d tail ht, ?_⟩
  have key : ∀ c, (d.bytes ++ tail).head? = some c → (33 ≤ c ∧ c < 128) ∧ c ≠ 61 →
      LineBuffer.countBlanks (d.bytes ++ tail) = 0 ∧ (d.bytes ++ tail).head? ≠ some 61 := by
    intro c h hc
    refine ⟨countBlanks_head _ c h hc.1, ?_⟩
    rw [h]; simp; exact hc.2
  cases d with
  | dflt k =>
    cases k with
    | zero =>
      have := hd rfl; subst this
      exact ⟨by simp [Dur.bytes, dotsBytes, LineBuffer.countBlanks], by simp [Dur.bytes, dotsBytes]⟩
    | succ k => exact key 46 (by simp [Dur.bytes, dotsBytes, List.replicate_succ]) (by omega)
  | len n k =>
    obtain ⟨c, r, hcr, hc⟩ := num_bytes_head_nonneg n (by have := hn.2; omega)
    exact key c (by simp [Dur.bytes, hcr]) (by omega)
  | frames n k => exact key 58 (by simp [Dur.bytes]) (by omega)

theorem ecmdTail_lsepTail (t : Track) (cmd : Cmd) (tail : List Nat) (hn : ECmdNums t cmd) (ht : LSepTail tail)
    (hecho : cmd = .echo (.dflt 0) → tail = []) : ECmdTail cmd tail := by
  have hb : ∀ n : Num, numBase n ≤ 16 := fun n => by unfold numBase; split <;> omega
  cases cmd with
  | echo d => exact echoTail_lsepTail d tail hn ht (fun h => hecho (by rw [h]))
  | echoSet dl v => exact numEnd_lsepTail _ (hb v) tail ht
  | note l a d => exact lcmdTail_lsepTail t (.note l a d) tail hn ht
  | rest d => exact lcmdTail_lsepTail t (.rest d) tail hn ht
  | tie d => exact lcmdTail_lsepTail t (.tie d) tail hn ht
  | slur => exact lcmdTail_lsepTail t (.slur) tail hn ht
  | octave n => exact lcmdTail_lsepTail t (.octave n) tail hn ht
  | octUp => exact lcmdTail_lsepTail t (.octUp) tail hn ht
  | octDown => exact lcmdTail_lsepTail t (.octDown) tail hn ht
  | length d => exact lcmdTail_lsepTail t (.length d) tail hn ht
  | quantize n => exact lcmdTail_lsepTail t (.quantize n) tail hn ht
  | early n => exact lcmdTail_lsepTail t (.early n) tail hn ht
  | revRest d => exact lcmdTail_lsepTail t (.revRest d) tail hn ht
  | grace l a d => exact lcmdTail_lsepTail t (.grace l a d) tail hn ht
  | measure n => exact lcmdTail_lsepTail t (.measure n) tail hn ht
  | shuffle n => exact lcmdTail_lsepTail t (.shuffle n) tail hn ht
  | keyScale nm => exact lcmdTail_lsepTail t (.keyScale nm) tail hn ht
  | keyMod g => exact lcmdTail_lsepTail t (.keyMod g) tail hn ht
  | drum n => exact lcmdTail_lsepTail t (.drum n) tail hn ht
  | simple sm n => exact lcmdTail_lsepTail t (.simple sm n) tail hn ht
  | bar => exact lcmdTail_lsepTail t (.bar) tail hn ht

end Ctrmml.Mml
