/-
  Codec round trip for counted loops.  Event lists are given by their bracket structure (`Node`),
  `flatL` is the event list `convert_track` sees, `expL` the tick string of the loop expansion
  (body `n` times; with a break the part after it is dropped on the last pass; a count `≤ 1`
  plays everything once — the rules of Spec/Expand, with the count cut to the byte the encoder
  writes).

  This file: loops WITHOUT break, nested to any depth (no back-patch happens, the encoder only
  appends).  The registers are forgotten by the encoder at `LP`; the interpreter comes back to the
  loop start with whatever the body left in them — compatible, because nothing is assumed.  After
  the last pass both sides hold the registers of the end of the body.
-/
import Ctrmml.Proofs.CodecSegno
namespace Ctrmml.Codec
open Ctrmml.Mds Ctrmml.Seq Tables

inductive Node
  | ev (e : MEv)
  | loop (body : List Node) (n : Nat)
  /-- a loop with a break: `body` is the part before the FIRST break, `tail` the part after it
  (which may contain further break markers `xbrk` of the same loop: `convert_track` drops them) -/
  | loopB (body tail : List Node) (n : Nat)
  /-- a second, third, … break marker of the enclosing loop -/
  | xbrk
  /-- a subroutine call `PAT arg`, annotated with the tick string its callee plays -/
  | call (arg : Nat) (T : List Tk)

mutual
/-- the event list of a bracket structure -/
def Node.flat : Node → List MEv
  | .ev e => [e]
  | .loop body n => ⟨mds_LP, 0⟩ :: (flatL body ++ [⟨mds_LPF, n⟩])
  | .loopB body tail n => ⟨mds_LP, 0⟩ :: (flatL body ++ ⟨mds_LPB, 0⟩ :: (flatL tail ++ [⟨mds_LPF, n⟩]))
  | .xbrk => [⟨mds_LPB, 0⟩]
  | .call arg _ => [⟨mds_PAT, arg⟩]
def flatL : List Node → List MEv
  | [] => []
  | t :: ts => t.flat ++ flatL ts
end

/-- number of passes of a loop whose `LPF` argument is `n` (one byte is written) -/
def passes (n : Nat) : Nat := if n % 256 ≤ 1 then 1 else n % 256

/-- the mode after an event: a `FLG` command with an argument below `0x80` sets the drum flag -/
def Mode.after (M : Mode) (e : MEv) : Mode :=
  if e.type = mds_FLG ∧ e.arg % 256 < 0x80 then M.set (decide (e.arg % 256 &&& 8 ≠ 0)) else M

/-- the mode after a node: only an event at this level can change it (below, inside loops, the
fragment has no mode-changing command: `mok`) -/
def Node.after (M : Mode) : Node → Mode
  | .ev e => M.after e
  | _ => M

def afterL (M : Mode) : List Node → Mode
  | [] => M
  | t :: ts => afterL (t.after M) ts

mutual
/-- tick string of the loop expansion, starting in mode `M` -/
def Node.exp (M : Mode) (nS nM : Nat) : Node → List Tk
  | .ev e => evTicks M nS nM e
  | .loop body n => repeatL (passes n) (expL M nS nM body)
  | .loopB body tail n =>
    repeatL (passes n - 1) (expL M nS nM body ++ expL M nS nM tail) ++ expL M nS nM body ++
      (if n % 256 ≤ 1 then expL M nS nM tail else [])
  | .xbrk => []
  | .call _ T => T
def expL (M : Mode) (nS nM : Nat) : List Node → List Tk
  | [] => []
  | t :: ts => t.exp M nS nM ++ expL (t.after M) nS nM ts
end

mutual
/-- the structure can be played starting in mode `M`: every event fits the mode it is reached in;
a drum-mode switch (`FLG` with another drum bit) only at the top level of the list (`top`), not
inside a loop -/
def Node.mok (M : Mode) (top : Bool) : Node → Bool
  | .ev e => M.evOk e || (top && e.type == mds_FLG)
  | .loop body _ => mokL M false body
  | .loopB body tail _ => mokL M false body && mokL M false tail
  | .xbrk => true
  | .call _ _ => true
def mokL (M : Mode) (top : Bool) : List Node → Bool
  | [] => true
  | t :: ts => t.mok M top && mokL (t.after M) top ts
end

theorem Mode.after_of_evOk {M : Mode} {e : MEv} (h : M.evOk e = true) : M.after e = M := by
  unfold Mode.after
  split
  · rename_i hc
    simp only [Mode.evOk, Bool.and_eq_true, Bool.or_eq_true, bne_iff_ne, ne_eq] at h
    rcases h.2 with h2 | h2
    · exact absurd hc.1 h2
    · simp only [drumSafe, Bool.or_eq_true, decide_eq_true_eq, beq_iff_eq] at h2
      rcases h2 with h2 | h2
      · omega
      · rw [h2]; rfl
  · rfl

theorem Node.after_of_mok {M : Mode} : ∀ {t : Node}, t.mok M false = true → t.after M = M
  | .ev e, h => by
    simp only [Node.mok, Bool.false_and, Bool.or_false] at h
    exact Mode.after_of_evOk h
  | .loop _ _, _ => rfl
  | .loopB _ _ _, _ => rfl
  | .xbrk, _ => rfl
  | .call _ _, _ => rfl

theorem afterL_of_mok {M : Mode} : ∀ {ts : List Node}, mokL M false ts = true → afterL M ts = M
  | [], _ => rfl
  | t :: ts, h => by
    simp only [mokL, Bool.and_eq_true] at h
    have h1 := Node.after_of_mok h.1
    simp only [afterL, h1]
    rw [h1] at h
    exact afterL_of_mok h.2

theorem Node.mok_top {M : Mode} : ∀ {t : Node}, t.mok M false = true → t.mok M true = true
  | .ev e, h => by
    simp only [Node.mok, Bool.false_and, Bool.or_false] at h
    simp [Node.mok, h]
  | .loop _ _, h => h
  | .loopB _ _ _, h => h
  | .xbrk, _ => rfl
  | .call _ _, _ => rfl

theorem mokL_top {M : Mode} : ∀ {ts : List Node}, mokL M false ts = true → mokL M true ts = true
  | [], _ => rfl
  | t :: ts, h => by
    simp only [mokL, Bool.and_eq_true] at h ⊢
    exact ⟨Node.mok_top h.1, mokL_top h.2⟩

theorem expL_cons_mok {M : Mode} {nS nM : Nat} {t : Node} {ts : List Node} (h : t.mok M false = true) :
    expL M nS nM (t :: ts) = t.exp M nS nM ++ expL M nS nM ts := by
  simp only [expL, Node.after_of_mok h]

mutual
/-- all leaves are events of the linear fragment (or calls / further break markers) -/
def Node.lin : Node → Bool
  | .ev e => linEv e
  | .loop body _ => linL body
  | .loopB body tail _ => linL body && linL tail
  | .xbrk => true
  | .call _ _ => true
def linL : List Node → Bool
  | [] => true
  | t :: ts => t.lin && linL ts
end

mutual
/-- further break markers stand only where a first break of the same loop precedes them: directly
in the `tail` of a `loopB` (`top` = "this list is such a tail") -/
def Node.brkOk : Bool → Node → Bool
  | _, .ev _ => true
  | _, .loop body _ => brkOkL false body
  | _, .loopB body tail _ => brkOkL false body && brkOkL true tail
  | top, .xbrk => top
  | _, .call _ _ => true
def brkOkL : Bool → List Node → Bool
  | _, [] => true
  | top, t :: ts => t.brkOk top && brkOkL top ts
end

mutual
/-- every call of the structure finds, through the pointer table of `seq`, a stream that — entered
with the drum flag of the mode the call is reached in — plays the annotated tick string and returns -/
def Node.callsOk (M : Mode) (seq : List Nat) (base mj : Nat) : Node → Prop
  | .ev _ => True
  | .loop body _ => callsOkL M seq base mj body
  | .loopB body tail _ => callsOkL M seq base mj body ∧ callsOkL M seq base mj tail
  | .xbrk => True
  | .call arg T => ∃ t, slotTarget seq base (arg % 256) = some t ∧ SubPlays seq base mj M.dm t T
def callsOkL (M : Mode) (seq : List Nat) (base mj : Nat) : List Node → Prop
  | [] => True
  | t :: ts => t.callsOk M seq base mj ∧ callsOkL (t.after M) seq base mj ts
end

mutual
def Node.noBreak : Node → Bool
  | .ev _ => true
  | .loop body _ => noBreakL body
  | .loopB _ _ _ => false
  | .xbrk => false
  | .call _ _ => false
def noBreakL : List Node → Bool
  | [] => true
  | t :: ts => t.noBreak && noBreakL ts
end

mutual
/-- no subroutine calls -/
def Node.noCall : Node → Bool
  | .ev _ => true
  | .loop body _ => noCallL body
  | .loopB body tail _ => noCallL body && noCallL tail
  | .xbrk => true
  | .call _ _ => false
def noCallL : List Node → Bool
  | [] => true
  | t :: ts => t.noCall && noCallL ts
end

/-! ### the two loop instructions in the encoder -/

theorem encEv_lp (nS nM : Nat) (e : Enc) (arg : Nat) :
    encEv nS nM e ⟨mds_LP, arg⟩ =
      .ok { e with out := e.out ++ [mds_LP], breaks := 0 :: e.breaks, lastRest := U16, lastNote := U16,
                   lastType := mds_LP } := by
  have n1 : ¬ (mds_LP = mds_SEGNO) := by decide
  have n2 : ¬ (mds_LP = mds_SLR ∨ mds_LP = mds_FINISH) := by decide
  have n3 : byteArgOps.contains mds_LP = false := by decide
  have n4 : ¬ (mds_LP = mds_MTAB) := by decide
  have n5 : ¬ (mds_LP = mds_INS ∨ mds_LP = mds_PCM) := by decide
  have n6 : ¬ (mds_LP = mds_PEG) := by decide
  have n7 : wordArgOps.contains mds_LP = false := by decide
  have n8 : ¬ (mds_LP = mds_JUMP) := by decide
  have n9 : ¬ (mds_LP = mds_PAT) := by decide
  have h : encOther nS nM e mds_LP arg =
      .ok { e with out := e.out ++ [mds_LP], breaks := 0 :: e.breaks, lastRest := U16, lastNote := U16 } := by
    simp only [encOther, n1, n2, n3, n4, n5, n6, n7, n8, n9, if_false, Bool.false_eq_true, if_true]
  exact encEv_other (by decide) h

theorem encOther_lpf (nS nM : Nat) (e : Enc) (arg : Nat) :
    encOther nS nM e mds_LPF arg =
      match e.breaks with
      | [] => .error .stackEmpty
      | b :: r =>
        if b ≠ 0 then
          .ok { e with
                out := (e.out ++ [mds_LPF, arg % 256]).take b ++
                  (if ((e.out ++ [mds_LPF, arg % 256]).length + 65536 - b) % 65536 < 256 then
                    [mds_LPB, ((e.out ++ [mds_LPF, arg % 256]).length + 65536 - b) % 65536]
                   else [mds_LPBL, ((e.out ++ [mds_LPF, arg % 256]).length + 65536 - b) % 65536 / 256,
                          ((e.out ++ [mds_LPF, arg % 256]).length + 65536 - b) % 65536 % 256]) ++
                  (e.out ++ [mds_LPF, arg % 256]).drop b
                breaks := r
                lastRest := U16
                lastNote := U16 }
        else .ok { e with out := e.out ++ [mds_LPF, arg % 256], breaks := r } := by
  have n1 : ¬ (mds_LPF = mds_SEGNO) := by decide
  have n2 : ¬ (mds_LPF = mds_SLR ∨ mds_LPF = mds_FINISH) := by decide
  have n3 : byteArgOps.contains mds_LPF = false := by decide
  have n4 : ¬ (mds_LPF = mds_MTAB) := by decide
  have n5 : ¬ (mds_LPF = mds_INS ∨ mds_LPF = mds_PCM) := by decide
  have n6 : ¬ (mds_LPF = mds_PEG) := by decide
  have n7 : wordArgOps.contains mds_LPF = false := by decide
  have n8 : ¬ (mds_LPF = mds_JUMP) := by decide
  have n9 : ¬ (mds_LPF = mds_PAT) := by decide
  have n10 : ¬ (mds_LPF = mds_LP) := by decide
  have n11 : ¬ (mds_LPF = mds_LPB) := by decide
  simp only [encOther, n1, n2, n3, n4, n5, n6, n7, n8, n9, n10, n11, if_false, Bool.false_eq_true, if_true]
  cases e.breaks <;> rfl

theorem encEv_lpf_nobreak (nS nM : Nat) (e : Enc) (arg : Nat) (r : List Nat) (hb : e.breaks = 0 :: r) :
    encEv nS nM e ⟨mds_LPF, arg⟩ =
      .ok { e with out := e.out ++ [mds_LPF, arg % 256], breaks := r, lastType := mds_LPF } := by
  have h : encOther nS nM e mds_LPF arg = .ok { e with out := e.out ++ [mds_LPF, arg % 256], breaks := r } := by
    rw [encOther_lpf, hb]; simp
  exact encEv_other (by decide) h

/-! ### the subroutine call and the dropped break marker -/

/-- a break marker of a loop that already has a break is dropped without a trace -/
theorem encEv_xbrk (nS nM : Nat) (e : Enc) (arg : Nat) (h : e.breaks.head?.getD 0 ≠ 0) :
    encEv nS nM e ⟨mds_LPB, arg⟩ = .ok e := by
  simp [encEv, h]

theorem step_pat {seq : List Nat} {base mj : Nat} {s : St} {k t : Nat} (h : seq[s.pc]? = some mds_PAT)
    (h1 : seq[s.pc + 1]? = some k) (ht : slotTarget seq base k = some t) :
    step seq base mj s = .ok { s with pc := t, calls := (s.pc + 2, none) :: s.calls } := by
  simp [step, rd, h, h1, ht, mds_REST, mds_SLR, mds_FINISH, mds_DMFINISH, mds_JUMP, mds_LP, mds_LPF, mds_LPB, mds_LPBL,
    mds_PAT]

theorem step_return {seq : List Nat} {base mj : Nat} {s : St} {ret : Nat}
    {cs : List (Nat × Option (Nat × Option Nat × Option Nat))}
    (h : seq[s.pc]? = some mds_FINISH) (hc : s.calls = (ret, none) :: cs) :
    step seq base mj s = .ok { s with pc := ret, calls := cs, lastNote := none, lastRest := none } := by
  simp [step, rd, h, hc, mds_REST, mds_SLR, mds_FINISH]

/-- the encoder at a subroutine call: two bytes, both registers forgotten -/
def afterPAT (e : Enc) (arg : Nat) : Enc :=
  { e with out := e.out ++ [mds_PAT, arg % 256], lastRest := U16, lastNote := U16, lastType := mds_PAT }

theorem encEv_pat (nS nM : Nat) (e : Enc) (arg : Nat) : encEv nS nM e ⟨mds_PAT, arg⟩ = .ok (afterPAT e arg) := by
  have n1 : ¬ (mds_PAT = mds_SEGNO) := by decide
  have n2 : ¬ (mds_PAT = mds_SLR ∨ mds_PAT = mds_FINISH) := by decide
  have n3 : byteArgOps.contains mds_PAT = false := by decide
  have n4 : ¬ (mds_PAT = mds_MTAB) := by decide
  have n5 : ¬ (mds_PAT = mds_INS ∨ mds_PAT = mds_PCM) := by decide
  have n6 : ¬ (mds_PAT = mds_PEG) := by decide
  have n7 : wordArgOps.contains mds_PAT = false := by decide
  have n8 : ¬ (mds_PAT = mds_JUMP) := by decide
  have h : encOther nS nM e mds_PAT arg =
      .ok { e with out := e.out ++ [mds_PAT, arg % 256], lastRest := U16, lastNote := U16 } := by
    simp only [encOther, n1, n2, n3, n4, n5, n6, n7, n8, if_false, Bool.false_eq_true, if_true]
  exact encEv_other (by decide) h

/-- **the call / return join point** -/
theorem pat_good {M : Mode} {seq : List Nat} {base mj : Nat} (hS : M.Sound seq base mj) {e : Enc} {s : St}
    {O : List Tk} (g : Good M e s O) (arg : Nat)
    (hp : (afterPAT e arg).out <+: seq) {t : Nat} (ht : slotTarget seq base (arg % 256) = some t) {T : List Tk}
    (hsub : SubPlays seq base mj M.dm t T) :
    ∃ s', Reach seq base mj s s' ∧ Frame s s' ∧ Good M (afterPAT e arg) s' (T.reverse ++ O) := by
  have hp' : e.out ++ [mds_PAT, arg % 256] <+: seq := hp
  obtain ⟨s1, r1, f1, i1⟩ := resolve (base := base) (mj := mj) hS g (b := mds_PAT) (by decide) hp'
  have r0 : seq[s1.pc]? = some mds_PAT := by rw [i1.pc]; exact rd_at hp'
  have r1' : seq[s1.pc + 1]? = some (arg % 256) := by rw [i1.pc]; exact rd_at1 hp'
  have hs := step_pat (base := base) (mj := mj) r0 r1' ht
  obtain ⟨s2, hs2, hpc2, hca2, hlo2, hdr2, hju2, hou2⟩ : ∃ s2 : St, step seq base mj s1 = .ok s2 ∧ s2.pc = t ∧
      s2.calls = (s1.pc + 2, none) :: s1.calls ∧ s2.loops = s1.loops ∧ s2.drum = s1.drum ∧ s2.jumps = s1.jumps ∧
      s2.out = s1.out := ⟨_, hs, rfl, rfl, rfl, rfl, rfl, rfl⟩
  obtain ⟨s3, r3, f3, hfin, ho3⟩ := hsub s2 hpc2 (hdr2.trans i1.drum)
  have hret := step_return (base := base) (mj := mj) hfin (f3.calls.trans hca2)
  obtain ⟨s4, hs4, hpc4, hn4, hr4, hca4, hlo4, hdr4, hju4, hou4⟩ : ∃ s4 : St, step seq base mj s3 = .ok s4 ∧
      s4.pc = s1.pc + 2 ∧ s4.lastNote = none ∧ s4.lastRest = none ∧ s4.calls = s1.calls ∧ s4.loops = s3.loops ∧
      s4.drum = s3.drum ∧ s4.jumps = s3.jumps ∧ s4.out = s3.out := ⟨_, hret, rfl, rfl, rfl, rfl, rfl, rfl, rfl, rfl⟩
  refine ⟨s4, r1.trans (.head hs2 (by rw [hou2]; exact Nat.le_refl _) (r3.trans (.one hs4 (by rw [hou4]; exact Nat.le_refl _)))),
    ⟨?_, ?_, ?_, ?_⟩, ⟨fun h => absurd rfl h, fun h => absurd rfl h, ?_, .inl ⟨?_, ?_, ?_⟩⟩⟩
  · rw [hlo4, f3.loops, hlo2]; exact f1.loops
  · rw [hca4]; exact f1.calls
  · rw [hdr4, f3.drum, hdr2]; exact f1.drum
  · rw [hju4, f3.jumps, hju2]; exact f1.jumps
  · rw [hdr4, f3.drum, hdr2]; exact i1.drum
  · exact needLenB_cmd (show mds_PAT ≥ 0xe0 by decide)
  · rw [hpc4, i1.pc]; simp [afterPAT]
  · rw [hou4, ho3, hou2, i1.out]


/-! ### the interpreter going round a loop without break -/

theorem repeatL_succ_reverse (k : Nat) (T O : List Tk) :
    (repeatL k T).reverse ++ (T.reverse ++ O) = (repeatL (k + 1) T).reverse ++ O := by
  simp [repeatL, List.reverse_append, List.append_assoc]

/-- passes with a known remaining count `k + 1`: the body is played `k + 1` more times, then the
interpreter leaves the loop -/
theorem loop_passes {M : Mode} {seq : List Nat} {base mj : Nat} (hS : M.Sound seq base mj) {e1 e2 eF : Enc}
    {T : List Tk} {n' : Nat}
    (hsem : ∀ (s : St) (O : List Tk), Good M e1 s O →
      ∃ s1, Reach seq base mj s s1 ∧ FrameX s s1 ∧ Good M e2 s1 (T.reverse ++ O))
    (hF : eF.out = e2.out ++ [mds_LPF, n']) (hFn : eF.lastNote = e2.lastNote) (hFr : eF.lastRest = e2.lastRest)
    (hFt : eF.lastType ≥ 0xe0)
    (h1n : e1.lastNote = U16) (h1r : e1.lastRest = U16) (h1t : needLenB e1 = false)
    (hp : eF.out <+: seq) :
    ∀ (k : Nat) (s : St) (O : List Tk) (fs : List LoopF), Good M e1 s O →
      s.loops = { start := e1.out.length, count := k + 1 } :: fs →
      ∃ s', Reach seq base mj s s' ∧ Good M eF s' ((repeatL (k + 1) T).reverse ++ O) ∧ s'.loops = fs ∧
        s'.calls = s.calls ∧ s'.drum = s.drum ∧ s'.jumps = s.jumps := by
  rw [hF] at hp
  intro k
  induction k with
  | zero =>
    intro s O fs g hl
    obtain ⟨s1, r1, f1, g1⟩ := hsem s O g
    obtain ⟨s2, r2, f2, i2⟩ := resolve (base := base) (mj := mj) hS g1 (b := mds_LPF) (by decide) hp
    have r0 : seq[s2.pc]? = some mds_LPF := by rw [i2.pc]; exact rd_at hp
    have r1' : seq[s2.pc + 1]? = some n' := by rw [i2.pc]; exact rd_at1 hp
    have hl2 : s2.loops = { start := e1.out.length, count := 0 + 1 } :: fs := by rw [f2.loops, f1.loops, hl]
    have hs := step_lpf (base := base) (mj := mj) r0 r1' hl2
    simp only [Nat.zero_add, Nat.succ_ne_zero, if_false, Nat.sub_self, Nat.lt_irrefl, gt_iff_lt] at hs
    refine ⟨_, r1.trans (r2.trans (.one hs (by simp))), ⟨?_, ?_, ?_, .inl ⟨needLenB_cmd hFt, ?_, ?_⟩⟩, rfl, ?_, ?_, ?_⟩
    · rw [hFn]; exact i2.note
    · rw [hFr]; exact i2.rest
    · exact i2.drum
    · simp [hF, i2.pc]
    · simp [i2.out, repeatL]
    · exact f2.calls.trans f1.calls
    · exact i2.drum.trans g.drum.symm
    · exact f2.jumps.trans f1.jumps
  | succ k ih =>
    intro s O fs g hl
    obtain ⟨s1, r1, f1, g1⟩ := hsem s O g
    obtain ⟨s2, r2, f2, i2⟩ := resolve (base := base) (mj := mj) hS g1 (b := mds_LPF) (by decide) hp
    have r0 : seq[s2.pc]? = some mds_LPF := by rw [i2.pc]; exact rd_at hp
    have r1' : seq[s2.pc + 1]? = some n' := by rw [i2.pc]; exact rd_at1 hp
    have hl2 : s2.loops = { start := e1.out.length, count := k + 1 + 1 } :: fs := by rw [f2.loops, f1.loops, hl]
    have hs := step_lpf (base := base) (mj := mj) r0 r1' hl2
    have c1 : ¬ (k + 1 + 1 = 0) := by omega
    have c2 : k + 1 + 1 - 1 > 0 := by omega
    simp only [c1, if_false, c2, if_true] at hs
    obtain ⟨s3, hs3, hpc3, hlo3, hca3, hdr3, hju3, hou3⟩ : ∃ s3 : St, step seq base mj s2 = .ok s3 ∧
        s3.pc = e1.out.length ∧ s3.loops = { start := e1.out.length, count := k + 1 } :: fs ∧
        s3.calls = s2.calls ∧ s3.drum = s2.drum ∧ s3.jumps = s2.jumps ∧ s3.out = s2.out :=
      ⟨_, hs, rfl, rfl, rfl, rfl, rfl, rfl⟩
    have g3 : Good M e1 s3 (T.reverse ++ O) :=
      ⟨by rw [h1n]; exact fun h => absurd rfl h, by rw [h1r]; exact fun h => absurd rfl h, hdr3.trans i2.drum,
        .inl ⟨h1t, hpc3, hou3.trans i2.out⟩⟩
    obtain ⟨s', r', g', hl', hc', hd', hj'⟩ := ih s3 _ fs g3 hlo3
    refine ⟨s', r1.trans (r2.trans (.head hs3 (by rw [hou3]; exact Nat.le_refl _) r')), ?_, hl', ?_, ?_, ?_⟩
    · rw [← repeatL_succ_reverse]; exact g'
    · rw [hc', hca3]; exact f2.calls.trans f1.calls
    · rw [hd', hdr3]; exact i2.drum.trans g.drum.symm
    · rw [hj', hju3]; exact f2.jumps.trans f1.jumps

/-- the first pass (count not yet known) and the rest: `passes n'` passes in all -/
theorem loop_first {M : Mode} {seq : List Nat} {base mj : Nat} (hS : M.Sound seq base mj) {e1 e2 eF : Enc}
    {T : List Tk} {n : Nat}
    (hsem : ∀ (s : St) (O : List Tk), Good M e1 s O →
      ∃ s1, Reach seq base mj s s1 ∧ FrameX s s1 ∧ Good M e2 s1 (T.reverse ++ O))
    (hF : eF.out = e2.out ++ [mds_LPF, n % 256]) (hFn : eF.lastNote = e2.lastNote) (hFr : eF.lastRest = e2.lastRest)
    (hFt : eF.lastType ≥ 0xe0)
    (h1n : e1.lastNote = U16) (h1r : e1.lastRest = U16) (h1t : needLenB e1 = false)
    (hp : eF.out <+: seq) (s : St) (O : List Tk) (fs : List LoopF) (g : Good M e1 s O)
    (hl : s.loops = { start := e1.out.length, count := 0 } :: fs) :
    ∃ s', Reach seq base mj s s' ∧ Good M eF s' ((repeatL (passes n) T).reverse ++ O) ∧ s'.loops = fs ∧
      s'.calls = s.calls ∧ s'.drum = s.drum ∧ s'.jumps = s.jumps := by
  have hp' := hp
  rw [hF] at hp
  obtain ⟨s1, r1, f1, g1⟩ := hsem s O g
  obtain ⟨s2, r2, f2, i2⟩ := resolve (base := base) (mj := mj) hS g1 (b := mds_LPF) (by decide) hp
  have r0 : seq[s2.pc]? = some mds_LPF := by rw [i2.pc]; exact rd_at hp
  have r1' : seq[s2.pc + 1]? = some (n % 256) := by rw [i2.pc]; exact rd_at1 hp
  have hl2 : s2.loops = { start := e1.out.length, count := 0 } :: fs := by rw [f2.loops, f1.loops, hl]
  have hs := step_lpf (base := base) (mj := mj) r0 r1' hl2
  simp only [if_true] at hs
  by_cases hc : n % 256 - 1 > 0
  · rw [if_pos hc] at hs
    obtain ⟨k, hk⟩ : ∃ k, n % 256 - 1 = k + 1 := ⟨n % 256 - 1 - 1, by omega⟩
    obtain ⟨s3, hs3, hpc3, hlo3, hca3, hdr3, hju3, hou3⟩ : ∃ s3 : St, step seq base mj s2 = .ok s3 ∧
        s3.pc = e1.out.length ∧ s3.loops = { start := e1.out.length, count := k + 1 } :: fs ∧
        s3.calls = s2.calls ∧ s3.drum = s2.drum ∧ s3.jumps = s2.jumps ∧ s3.out = s2.out :=
      ⟨_, hs, rfl, by simp [hk], rfl, rfl, rfl, rfl⟩
    have g3 : Good M e1 s3 (T.reverse ++ O) :=
      ⟨by rw [h1n]; exact fun h => absurd rfl h, by rw [h1r]; exact fun h => absurd rfl h, hdr3.trans i2.drum,
        .inl ⟨h1t, hpc3, hou3.trans i2.out⟩⟩
    obtain ⟨s', r', g', hl', hc', hd', hj'⟩ :=
      loop_passes (base := base) (mj := mj) hS hsem hF hFn hFr hFt h1n h1r h1t hp' k s3 _ fs g3 hlo3
    have hpass : passes n = k + 1 + 1 := by unfold passes; split <;> omega
    refine ⟨s', r1.trans (r2.trans (.head hs3 (by rw [hou3]; exact Nat.le_refl _) r')), ?_, hl', ?_, ?_, ?_⟩
    · rw [hpass, ← repeatL_succ_reverse]; exact g'
    · rw [hc', hca3]; exact f2.calls.trans f1.calls
    · rw [hd', hdr3]; exact i2.drum.trans g.drum.symm
    · rw [hj', hju3]; exact f2.jumps.trans f1.jumps
  · rw [if_neg hc] at hs
    have hpass : passes n = 1 := by unfold passes; split <;> omega
    refine ⟨_, r1.trans (r2.trans (.one hs (by simp))), ⟨?_, ?_, ?_, .inl ⟨needLenB_cmd hFt, ?_, ?_⟩⟩, rfl, ?_, ?_, ?_⟩
    · rw [hFn]; exact i2.note
    · rw [hFr]; exact i2.rest
    · exact i2.drum
    · simp [hF, i2.pc]
    · simp [i2.out, repeatL, hpass]
    · exact f2.calls.trans f1.calls
    · exact i2.drum.trans g.drum.symm
    · exact f2.jumps.trans f1.jumps

def afterLP (e : Enc) : Enc :=
  { e with out := e.out ++ [mds_LP], breaks := 0 :: e.breaks, lastRest := U16, lastNote := U16, lastType := mds_LP }

def afterLPF (e2 : Enc) (n : Nat) (r : List Nat) : Enc :=
  { e2 with out := e2.out ++ [mds_LPF, n % 256], breaks := r, lastType := mds_LPF }

/-- one loop without break around a body that is already known to be simulated -/
theorem segOk_loop {M : Mode} {nS nM : Nat} {body : List MEv} {T : List Tk} (n : Nat)
    (hbody : ∀ e : Enc, SegOk M nS nM e body T) (e : Enc) :
    SegOk M nS nM e (⟨mds_LP, 0⟩ :: (body ++ [⟨mds_LPF, n⟩])) (repeatL (passes n) T) := by
  obtain ⟨e1, he1⟩ : ∃ e1 : Enc, e1 = afterLP e := ⟨_, rfl⟩
  obtain ⟨e2, he2, p2, b2, sp2, sem2⟩ := hbody e1
  have hb2 : e2.breaks = 0 :: e.breaks := by rw [b2, he1]; rfl
  obtain ⟨eF, heF⟩ : ∃ eF : Enc, eF = afterLPF e2 n e.breaks := ⟨_, rfl⟩
  have henc : encAll nS nM e (⟨mds_LP, 0⟩ :: (body ++ [⟨mds_LPF, n⟩])) = .ok eF := by
    have h1 : encEv nS nM e ⟨mds_LP, 0⟩ = .ok e1 := by rw [he1]; exact encEv_lp nS nM e 0
    have h2 : encEv nS nM e2 ⟨mds_LPF, n⟩ = .ok eF := by rw [heF]; exact encEv_lpf_nobreak nS nM e2 n e.breaks hb2
    simp only [encAll, h1, encAll_append, he2, h2]
  have p1 : e.out <+: e1.out := by rw [he1]; exact List.prefix_append _ _
  have pF : e2.out <+: eF.out := by rw [heF]; exact List.prefix_append _ _
  refine ⟨eF, henc, p1.trans (p2.trans pF), by rw [heF]; rfl, by rw [heF]; show e2.segnoPos = _; rw [sp2, he1]; rfl, ?_⟩
  intro seq base mj s O hS hp g
  have hp1 : e.out ++ [mds_LP] <+: seq := by
    have := p2.trans (pF.trans hp); rw [he1] at this; exact this
  obtain ⟨s0, r0, f0, i0⟩ := resolve (base := base) (mj := mj) hS g (b := mds_LP) (by decide) hp1
  have rd0 : seq[s0.pc]? = some mds_LP := by rw [i0.pc]; exact rd_at hp1
  have hs := step_lp (base := base) (mj := mj) rd0
  obtain ⟨s1, hs1, hpc1, hlo1, hca1, hdr1, hju1, hou1⟩ : ∃ s1 : St, step seq base mj s0 = .ok s1 ∧
      s1.pc = s0.pc + 1 ∧ s1.loops = { start := s0.pc + 1, count := 0 } :: s0.loops ∧
      s1.calls = s0.calls ∧ s1.drum = s0.drum ∧ s1.jumps = s0.jumps ∧ s1.out = s0.out :=
    ⟨_, hs, rfl, rfl, rfl, rfl, rfl, rfl⟩
  have hlen1 : e1.out.length = s0.pc + 1 := by rw [he1, i0.pc]; simp [afterLP]
  have h1t : needLenB e1 = false := by rw [he1]; exact needLenB_cmd (show mds_LP ≥ 0xe0 by decide)
  have g1 : Good M e1 s1 O :=
    ⟨by rw [he1]; exact fun h => absurd rfl h, by rw [he1]; exact fun h => absurd rfl h, hdr1.trans i0.drum,
      .inl ⟨h1t, by rw [hpc1, hlen1], hou1.trans i0.out⟩⟩
  obtain ⟨s', r', g', hl', hc', hd', hj'⟩ := loop_first (base := base) (mj := mj) (n := n) hS
    (fun s O g => by
      obtain ⟨x, a, b, c⟩ := sem2 seq base mj s O hS (pF.trans hp) g
      exact ⟨x, a, b.x, c⟩)
    (by rw [heF]; rfl) (by rw [heF]; rfl) (by rw [heF]; rfl)
    (by rw [heF]; show mds_LPF ≥ 0xe0; decide) (by rw [he1]; rfl) (by rw [he1]; rfl) h1t hp s1 O s0.loops g1 (by rw [hlo1, hlen1])
  refine ⟨s', r0.trans (.head hs1 (by rw [hou1]; exact Nat.le_refl _) r'), ⟨?_, ?_, ?_, ?_⟩, g'⟩
  · rw [hl']; exact f0.loops
  · rw [hc', hca1]; exact f0.calls
  · rw [hd', hdr1]; exact f0.drum
  · rw [hj', hju1]; exact f0.jumps

mutual
/-- **nested loops without break** (no mode switch) -/
theorem node_ok (M : Mode) (nS nM : Nat) : ∀ (t : Node), t.lin = true → t.noBreak = true → t.mok M false = true →
    ∀ e : Enc, SegOk M nS nM e t.flat (t.exp M nS nM)
  | .ev ev, hl, _, hm, e => by
    have hm' : M.evOk ev = true := by simpa [Node.mok] using hm
    have := segOk_cons (encEv_lin M nS nM e ev (by simpa [Node.lin] using hl) hm') (fun e1 _ => segOk_nil M nS nM e1)
    simpa [Node.flat, Node.exp] using this
  | .loop body n, hl, hn, hm, e => by
    simp only [Node.flat, Node.exp]
    exact segOk_loop n (fun e1 => list_ok M nS nM body (by simpa [Node.lin] using hl) (by simpa [Node.noBreak] using hn)
      (by simpa [Node.mok] using hm) e1) e
  | .loopB _ _ _, _, hn, _, _ => by simp [Node.noBreak] at hn
  | .xbrk, _, hn, _, _ => by simp [Node.noBreak] at hn
  | .call _ _, _, hn, _, _ => by simp [Node.noBreak] at hn
theorem list_ok (M : Mode) (nS nM : Nat) : ∀ (ts : List Node), linL ts = true → noBreakL ts = true →
    mokL M false ts = true → ∀ e : Enc, SegOk M nS nM e (flatL ts) (expL M nS nM ts)
  | [], _, _, _, e => by simpa [flatL, expL] using segOk_nil M nS nM e
  | t :: ts, hl, hn, hm, e => by
    simp only [linL, Bool.and_eq_true] at hl
    simp only [noBreakL, Bool.and_eq_true] at hn
    simp only [mokL, Bool.and_eq_true] at hm
    have ha := Node.after_of_mok hm.1
    rw [ha] at hm
    simp only [flatL, expL, ha]
    exact segOk_append (node_ok M nS nM t hl.1 hn.1 hm.1 e) (fun e1 _ => list_ok M nS nM ts hl.2 hn.2 hm.2 e1)
end

/-- **C02, counted loops without break (any nesting), terminated by `FINISH`.** -/
theorem codec_roundtrip_loops_nobreak (nS nM : Nat) (ts : List Node) (hl : linL ts = true) (hn : noBreakL ts = true)
    (hm : mokL Mode.plain false ts = true) (farg : Nat) :
    ∃ bytes, convertTrack nS nM (flatL ts ++ [⟨mds_FINISH, farg⟩]) = .ok bytes ∧
      ∀ (base mj : Nat) (ln lr : Option Nat), Plays bytes base mj ln lr (expL Mode.plain nS nM ts) := by
  obtain ⟨e1, he1, _, _, _, sem⟩ := list_ok Mode.plain nS nM ts hl hn hm {}
  refine ⟨e1.out ++ [mds_FINISH], ?_, ?_⟩
  · simp [convertTrack, encAll_append, he1, encAll, encEv_finish, Except.map]
  · intro base mj ln lr
    have hS := Mode.plain_sound (e1.out ++ [mds_FINISH]) base mj
    obtain ⟨s1, r1, f1, g1⟩ := sem (e1.out ++ [mds_FINISH]) base mj _ [] hS (List.prefix_append _ _) (good_init ln lr)
    obtain ⟨s2, r2, hfin, ho⟩ := finish_run (base := base) (mj := mj) hS g1 (f1.calls) (List.prefix_refl _)
    exact ⟨s2, r1.trans r2, hfin, by simpa using ho⟩

end Ctrmml.Codec
