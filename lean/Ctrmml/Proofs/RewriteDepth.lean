/-
  C01, layer 1 — acceptance of the loop fold WITHOUT the depth proviso.

  `Proofs/Rewrite.lean` relates the performances of a song and of its rewritten form at all pairs
  of stack depths (`ResRel`, `FEq`): "same observation, or the rewritten one runs out of stack
  frames".  That relation cannot say when the second alternative is excluded.  This file relates
  two expansions at the SAME depth (`OkLe`: success carries over; `FLe`: forests, `CallLe`: call
  functions) and proves the congruences the parser needs (`parse_le`), calls (`callK_le`) and
  performances (`perf_le`) for it.

  Application (`wrapfold_FLe`, `wrapfold0_FLe`): the new loop of a fold encloses the period `A0·A1`
  one frame deeper than before and nothing else.  So if the song validates with the period wrapped
  in one more loop — `[ A0 A1 ]·(A0 A1)^k·A0` in place of `A0 A1·(A0 A1)^k·A0` — the folded song
  `[ A0 / A1 ](k+2)` validates: one frame of headroom around the period is all the fold needs.
-/
import Ctrmml.Proofs.Rewrite
namespace Ctrmml.Rewrite
open Ctrmml Ctrmml.Tree Ctrmml.Expand

def isOk (r : Res) : Prop := ∃ x, r = .ok x

/-- success carries over -/
def OkLe (r r' : Res) : Prop := isOk r → isOk r'

theorem isOk_ok (x : List Item) : isOk (.ok x) := ⟨x, rfl⟩
theorem not_isOk_err (e : SErr) : ¬ isOk (.error e) := fun ⟨_, h⟩ => by cases h

theorem OkLe.refl (r : Res) : OkLe r r := id
theorem OkLe.err (e : SErr) (r : Res) : OkLe (.error e) r := fun h => absurd h (not_isOk_err e)
theorem OkLe.trans {a b c : Res} (h1 : OkLe a b) (h2 : OkLe b c) : OkLe a c := fun h => h2 (h1 h)

theorem isOk_seq {a b : Res} : isOk (seq a b) ↔ isOk a ∧ isOk b := by
  constructor
  · rintro ⟨z, hz⟩
    obtain ⟨x, y, h1, h2, _⟩ := seq_ok hz
    exact ⟨⟨x, h1⟩, ⟨y, h2⟩⟩
  · rintro ⟨⟨x, h1⟩, ⟨y, h2⟩⟩
    subst h1 h2
    exact ⟨x ++ y, rfl⟩

theorem OkLe.seq {a a' b b' : Res} (h1 : OkLe a a') (h2 : OkLe b b') : OkLe (seq a b) (seq a' b') := by
  intro h
  obtain ⟨ha, hb⟩ := isOk_seq.1 h
  exact isOk_seq.2 ⟨h1 ha, h2 hb⟩

/-- when a loop node expands without error -/
theorem isOk_loop (c : CallFn) (d : Nat) (b : Bool) (ls le : Event) (body : List Node) :
    isOk (expN c d b (.loop ls body le)) ↔
      d < limit ∧ isOk (expL c (d + 1) true body) ∧ ¬ le.param < 0 ∧
        (le.param.toNat ≤ 1 ∨ hasTopBreak body = false ∨ isOk (expPre c (d + 1) body)) := by
  rw [expN_loop]
  by_cases hd : d ≥ limit
  · simp only [hd, if_true]
    constructor
    · intro h; exact absurd h (not_isOk_err _)
    · intro h; omega
  · simp only [hd, if_false]
    cases hx : expL c (d + 1) true body with
    | error e =>
      constructor
      · intro h; exact absurd h (not_isOk_err _)
      · intro h; exact absurd h.2.1 (not_isOk_err _)
    | ok full =>
      simp only [loopOut]
      by_cases hn : le.param < 0
      · rw [if_pos hn]
        constructor
        · intro h; exact absurd h (not_isOk_err _)
        · intro h; exact absurd hn h.2.2.1
      · rw [if_neg hn]
        by_cases h1 : le.param.toNat ≤ 1
        · rw [if_pos h1]
          exact ⟨fun _ => ⟨by omega, isOk_ok _, hn, Or.inl h1⟩, fun _ => isOk_ok _⟩
        · rw [if_neg h1]
          cases hb : hasTopBreak body with
          | false =>
            rw [if_neg (by simp)]
            exact ⟨fun _ => ⟨by omega, isOk_ok _, hn, Or.inr (Or.inl rfl)⟩, fun _ => isOk_ok _⟩
          | true =>
            rw [if_pos rfl]
            cases hp : expPre c (d + 1) body with
            | error e =>
              constructor
              · intro h; exact absurd h (not_isOk_err _)
              · intro h
                rcases h.2.2.2 with h | h | h
                · exact absurd h h1
                · cases h
                · exact absurd h (not_isOk_err _)
            | ok p =>
              exact ⟨fun _ => ⟨by omega, isOk_ok _, hn, Or.inr (Or.inr (isOk_ok _))⟩, fun _ => isOk_ok _⟩

/-! ## forests at the same depth -/

/-- the second call function succeeds wherever the first does, at the same depth -/
def CallLe (c c' : CallFn) : Prop := ∀ d id, OkLe (c d id) (c' d id)

/-- wherever `f` expands without error under `c`, `f'` does under `c'` at the same depth, as a loop
body or not -/
structure FLe (c c' : CallFn) (f f' : List Node) : Prop where
  l : ∀ d b, OkLe (expL c d b f) (expL c' d b f')
  p : ∀ d, OkLe (expPre c d f) (expPre c' d f')
  b : hasTopBreak f = hasTopBreak f'

theorem FLe.nil (c c' : CallFn) : FLe c c' [] [] :=
  ⟨fun _ _ => by simp only [expL_nil]; exact OkLe.refl _, fun _ => by simp only [expPre]; exact OkLe.refl _, rfl⟩

theorem FLe.append {c c' : CallFn} {a a' b b' : List Node} (h1 : FLe c c' a a') (h2 : FLe c c' b b') :
    FLe c c' (a ++ b) (a' ++ b') := by
  refine ⟨?_, ?_, ?_⟩
  · intro d bb
    rw [expL_append, expL_append]
    exact OkLe.seq (h1.l d bb) (h2.l d bb)
  · intro d
    rw [expPre_append, expPre_append, ← h1.b]
    split
    · exact h1.p d
    · exact OkLe.seq (h1.l d true) (h2.p d)
  · rw [hasTopBreak_append, hasTopBreak_append, h1.b, h2.b]

theorem FLe.single {c c' : CallFn} {n n' : Node} (hn : ∀ e, n ≠ .brk e) (hn' : ∀ e, n' ≠ .brk e)
    (h : ∀ d b, OkLe (expN c d b n) (expN c' d b n')) : FLe c c' [n] [n'] := by
  refine ⟨?_, ?_, ?_⟩
  · intro d b
    rw [expL_single, expL_single]
    exact h d b
  · intro d
    rw [expPre_cons_nobrk c d n [] hn, expPre_cons_nobrk c' d n' [] hn']
    simp only [expPre, seq_nil_right]
    exact h d true
  · cases n <;> cases n' <;> simp_all [hasTopBreak]

theorem loop_le {c c' : CallFn} {body body' : List Node} (h : FLe c c' body body') (ls le : Event)
    (d : Nat) (b : Bool) : OkLe (expN c d b (.loop ls body le)) (expN c' d b (.loop ls body' le)) := by
  intro hok
  obtain ⟨h1, h2, h3, h4⟩ := (isOk_loop c d b ls le body).1 hok
  refine (isOk_loop c' d b ls le body').2 ⟨h1, h.l _ _ h2, h3, ?_⟩
  rcases h4 with h4 | h4 | h4
  · exact Or.inl h4
  · exact Or.inr (Or.inl (by rw [← h.b]; exact h4))
  · exact Or.inr (Or.inr (h.p _ h4))

theorem FLe.loop {c c' : CallFn} {body body' : List Node} (h : FLe c c' body body') (ls le : Event) :
    FLe c c' [.loop ls body le] [.loop ls body' le] :=
  FLe.single (by simp) (by simp) (fun d b => loop_le h ls le d b)

theorem FLe.openLoop (c c' : CallFn) (ls ls' : Event) (body body' : List Node) :
    FLe c c' [.openLoop ls body] [.openLoop ls' body'] :=
  FLe.single (by simp) (by simp) (fun d b => by simp only [expN]; exact OkLe.err _ _)

theorem FLe.brk (c c' : CallFn) (e : Event) : FLe c c' [.brk e] [.brk e] := by
  refine ⟨?_, ?_, rfl⟩
  · intro d b
    rw [expL_single, expL_single]
    simp only [expN]
    exact OkLe.refl _
  · intro d
    simp only [expPre]
    exact OkLe.refl _

mutual
theorem expN_le {c c' : CallFn} (hc : CallLe c c') : ∀ (n : Node) (d : Nat) (b : Bool),
    OkLe (expN c d b n) (expN c' d b n)
  | .ev e, d, b => by
    simp only [expN]
    split
    · exact OkLe.seq (OkLe.refl _) (hc d _)
    · exact OkLe.refl _
  | .brk e, d, b => by simp only [expN]; exact OkLe.refl _
  | .strayEnd e, d, b => by simp only [expN]; exact OkLe.err _ _
  | .openLoop ls body, d, b => by simp only [expN]; exact OkLe.err _ _
  | .loop ls body le, d, b => loop_le (FLe.rfl' hc body) ls le d b
theorem FLe.rfl' {c c' : CallFn} (hc : CallLe c c') : ∀ (f : List Node), FLe c c' f f
  | [] => FLe.nil c c'
  | n :: ns => by
    have hn : FLe c c' [n] [n] := by
      cases n with
      | brk e => exact FLe.brk c c' e
      | ev e => exact FLe.single (by simp) (by simp) (fun d b => expN_le hc (.ev e) d b)
      | strayEnd e => exact FLe.single (by simp) (by simp) (fun d b => expN_le hc (.strayEnd e) d b)
      | openLoop ls bd => exact FLe.openLoop c c' ls ls bd bd
      | loop ls bd le => exact FLe.loop (FLe.rfl' hc bd) ls le
    exact FLe.append hn (FLe.rfl' hc ns)
end

/-! ## parser congruence (as `Rewrite.parse_cong`, for `FLe`) -/

def StLe (c c' : CallFn) : PStack → PStack → Prop
  | [], [] => True
  | (ls, o) :: st, (ls', o') :: st' => ls = ls' ∧ FLe c c' o.reverse o'.reverse ∧ StLe c c' st st'
  | _, _ => False

theorem closeAll_le {c c' : CallFn} : ∀ (st st' : PStack) (cur cur' : List Node),
    StLe c c' st st' → FLe c c' cur.reverse cur'.reverse → FLe c c' (closeAll st cur) (closeAll st' cur')
  | [], [], cur, cur', _, h => by simpa [closeAll] using h
  | [], _ :: _, _, _, hs, _ => by simp [StLe] at hs
  | _ :: _, [], _, _, hs, _ => by simp [StLe] at hs
  | (ls, o) :: st, (ls', o') :: st', cur, cur', hs, h => by
    obtain ⟨h1, h2, h3⟩ := hs
    subst h1
    simp only [closeAll]
    apply closeAll_le st st' _ _ h3
    simp only [List.reverse_cons]
    exact FLe.append h2 (FLe.openLoop c c' ls ls _ _)

theorem parseAux_le {c c' : CallFn} (hc : CallLe c c') {X X' : List Node}
    (hX : closedL X) (hX' : closedL X') (hXX : FLe c c' X X') :
    ∀ {l l' : List Event}, ERel X X' l l' → ∀ (st st' : PStack) (cur cur' : List Node),
    StLe c c' st st' → FLe c c' cur.reverse cur'.reverse →
    FLe c c' (parseAux st cur l) (parseAux st' cur' l') := by
  intro l l' h
  induction h with
  | nil =>
    intro st st' cur cur' hs hcur
    simpa [parseAux] using closeAll_le st st' cur cur' hs hcur
  | repl _ ih =>
    intro st st' cur cur' hs hcur
    rw [parseAux_flattenL X hX, parseAux_flattenL X' hX']
    apply ih st st' _ _ hs
    simp only [List.reverse_append, List.reverse_reverse]
    exact FLe.append hcur hXX
  | cons e _ ih =>
    intro st st' cur cur' hs hcur
    have push : ∀ n : Node, FLe c c' (n :: cur).reverse (n :: cur').reverse := by
      intro n
      simp only [List.reverse_cons]
      exact FLe.append hcur (FLe.rfl' hc [n])
    cases hk : e.kind with
    | loopStart =>
      rw [parseAux_loopStart hk, parseAux_loopStart hk]
      exact ih _ _ _ _ ⟨rfl, hcur, hs⟩ (FLe.nil c c')
    | loopBreak =>
      rw [parseAux_break hk, parseAux_break hk]
      exact ih _ _ _ _ hs (push _)
    | loopEnd =>
      match st, st', hs with
      | [], [], _ =>
        rw [parseAux_loopEnd_nil hk, parseAux_loopEnd_nil hk]
        exact ih _ _ _ _ trivial (push _)
      | (ls, o) :: st, (ls', o') :: st', hs =>
        obtain ⟨h1, h2, h3⟩ := hs
        subst h1
        rw [parseAux_loopEnd_cons hk, parseAux_loopEnd_cons hk]
        apply ih _ _ _ _ h3
        simp only [List.reverse_cons]
        exact FLe.append h2 (FLe.loop hcur ls e)
      | [], _ :: _, hs => simp [StLe] at hs
      | _ :: _, [], hs => simp [StLe] at hs
    | segno =>
      rw [parseAux_other (by simp [hk]) (by simp [hk]) (by simp [hk]),
        parseAux_other (by simp [hk]) (by simp [hk]) (by simp [hk])]
      exact ih _ _ _ _ hs (push _)
    | jump =>
      rw [parseAux_other (by simp [hk]) (by simp [hk]) (by simp [hk]),
        parseAux_other (by simp [hk]) (by simp [hk]) (by simp [hk])]
      exact ih _ _ _ _ hs (push _)
    | fin =>
      rw [parseAux_other (by simp [hk]) (by simp [hk]) (by simp [hk]),
        parseAux_other (by simp [hk]) (by simp [hk]) (by simp [hk])]
      exact ih _ _ _ _ hs (push _)
    | other =>
      rw [parseAux_other (by simp [hk]) (by simp [hk]) (by simp [hk]),
        parseAux_other (by simp [hk]) (by simp [hk]) (by simp [hk])]
      exact ih _ _ _ _ hs (push _)

/-- tracks equal up to replacing `X` by `X'` (`FLe c c' X X'`) have forests related by `FLe` -/
theorem parse_le {c c' : CallFn} (hc : CallLe c c') {X X' : List Node}
    (hX : closedL X) (hX' : closedL X') (hXX : FLe c c' X X') {l l' : List Event} (h : ERel X X' l l') :
    FLe c c' (parse l) (parse l') :=
  parseAux_le hc hX hX' hXX h [] [] [] [] trivial (FLe.nil c c')

/-! ## songs -/

/-- calls of the two songs succeed together, at the same budget and depth -/
theorem callK_le (S S' : Song) {X X' : List Node} (hX : closedL X) (hX' : closedL X')
    (hbase : ∀ k, CallLe (callK S k) (callK S' k) → FLe (callK S k) (callK S' k) X X')
    (htr : ∀ id evs, S.track? id = some evs → ∃ evs', S'.track? id = some evs' ∧ ERel X X' evs evs') :
    ∀ k, CallLe (callK S k) (callK S' k) := by
  intro k
  induction k with
  | zero => intro d id; simp only [callK]; exact OkLe.err _ _
  | succ k ih =>
    intro d id
    simp only [callK]
    by_cases h1 : d ≥ limit
    · simp only [h1, if_true]; exact OkLe.err _ _
    · simp only [h1, if_false]
      cases ht : S.track? id with
      | none => exact OkLe.err _ _
      | some evs =>
        obtain ⟨evs', ht', hrel⟩ := htr id evs ht
        simp only [ht']
        exact (parse_le ih hX hX' (hbase k ih) hrel).l _ false

/-- the performances of related root tracks: if the first validates, so does the second -/
theorem perf_le (S S' : Song) {X X' : List Node} (hX : closedL X) (hX' : closedL X')
    (hbase : ∀ k, CallLe (callK S k) (callK S' k) → FLe (callK S k) (callK S' k) X X')
    (htr : ∀ id evs, S.track? id = some evs → ∃ evs', S'.track? id = some evs' ∧ ERel X X' evs evs')
    {root root' : List Event} (hroot : ERel X X' root root') :
    OkLe (perf S root) (perf S' root') := by
  have hc := callK_le S S' hX hX' hbase htr limit
  exact (parse_le hc hX hX' (hbase limit hc) hroot).l 0 false

/-! ## the loop fold against the song with the period wrapped in one more loop -/

/-- the phrase `A0 A1` wrapped in a loop `ls0 … le0`, `k` more copies, and the prefix `A0` -/
def foldSrcW (A0 A1 : List Node) (k : Nat) (ls0 le0 : Event) : List Node :=
  .loop ls0 (A0 ++ A1) le0 :: ((List.replicate k (A0 ++ A1)).flatten ++ A0)

theorem foldSrcW_closed {A0 A1 : List Node} (h0 : closedL A0) (h1 : closedL A1) (k : Nat) {ls0 le0 : Event}
    (kls : ls0.kind = .loopStart) (kle : le0.kind = .loopEnd) : closedL (foldSrcW A0 A1 k ls0 le0) := by
  have hA : closedL (A0 ++ A1) := (closedL_append _ _).2 ⟨h0, h1⟩
  have := (closedL_append _ _).2 ⟨closedL_replicate (A0 ++ A1) hA k, h0⟩
  simp only [foldSrcW, closedL, Node.closed, kls, kle, hA, this, and_self]

/-- **one frame of headroom around the period is what the fold needs**: wherever the wrapped source
expands without error, `[ A0 / A1 ](k+2)` does, at the same depth -/
theorem wrapfold_FLe {c c' : CallFn} (hc : CallLe c c') (A0 A1 : List Node) (k : Nat) (ls0 le0 ls lb le : Event)
    (b0 : hasTopBreak A0 = false) (b1 : hasTopBreak A1 = false) (count : le.param = (k : Int) + 2) :
    FLe c c' (foldSrcW A0 A1 k ls0 le0) (foldDst A0 A1 ls lb le) := by
  have hrest : hasTopBreak ((List.replicate k (A0 ++ A1)).flatten ++ A0) = false := by
    rw [hasTopBreak_append, hasTopBreak_replicate _ (by rw [hasTopBreak_append, b0, b1]; rfl), b0]; rfl
  -- the new loop node succeeds wherever the wrapping loop node does
  have key : ∀ d b b', isOk (expN c d b (.loop ls0 (A0 ++ A1) le0)) →
      isOk (expN c' d b' (.loop ls (A0 ++ .brk lb :: A1) le)) := by
    intro d b b' hok
    obtain ⟨h1, h2, _, _⟩ := (isOk_loop c d b ls0 le0 (A0 ++ A1)).1 hok
    rw [expL_append] at h2
    obtain ⟨hA0, hA1⟩ := isOk_seq.1 h2
    have hA0' := (FLe.rfl' hc A0).l _ _ hA0
    have hA1' := (FLe.rfl' hc A1).l _ _ hA1
    refine (isOk_loop c' d b' ls le _).2 ⟨h1, ?_, by omega, Or.inr (Or.inr ?_)⟩
    · rw [expL_append, expL_cons]
      refine isOk_seq.2 ⟨hA0', isOk_seq.2 ⟨?_, hA1'⟩⟩
      simp only [expN, if_true]
      exact isOk_ok _
    · rw [expPre_append, b0]
      simp only [Bool.false_eq_true, if_false, expPre, seq_nil_right]
      exact hA0'
  refine ⟨?_, ?_, ?_⟩
  · intro d b hok
    simp only [foldSrcW, expL_cons] at hok
    simp only [foldDst, expL_single]
    exact key d b b (isOk_seq.1 hok).1
  · intro d hok
    simp only [foldSrcW] at hok
    rw [expPre_cons_nobrk _ _ _ _ (by simp)] at hok
    simp only [foldDst]
    rw [expPre_cons_nobrk _ _ _ _ (by simp)]
    simp only [expPre, seq_nil_right]
    exact key d true true (isOk_seq.1 hok).1
  · simp only [foldSrcW, foldDst, hasTopBreak, hrest]

/-- `A` wrapped in a loop `ls0 … le0` and `k` more copies -/
def fold0SrcW (A : List Node) (k : Nat) (ls0 le0 : Event) : List Node :=
  .loop ls0 A le0 :: (List.replicate k A).flatten

theorem fold0SrcW_closed {A : List Node} (h0 : closedL A) (k : Nat) {ls0 le0 : Event}
    (kls : ls0.kind = .loopStart) (kle : le0.kind = .loopEnd) : closedL (fold0SrcW A k ls0 le0) := by
  have := closedL_replicate A h0 k
  simp only [fold0SrcW, closedL, Node.closed, kls, kle, h0, this, and_self]

/-- the same for the fold without remainder: `[ A ]·A^k ↦ [ A ](k+1)` -/
theorem wrapfold0_FLe {c c' : CallFn} (hc : CallLe c c') (A : List Node) (k : Nat) (ls0 le0 ls le : Event)
    (b0 : hasTopBreak A = false) (count : le.param = (k : Int) + 1) :
    FLe c c' (fold0SrcW A k ls0 le0) [.loop ls A le] := by
  have key : ∀ d b b', isOk (expN c d b (.loop ls0 A le0)) → isOk (expN c' d b' (.loop ls A le)) := by
    intro d b b' hok
    obtain ⟨h1, h2, _, _⟩ := (isOk_loop c d b ls0 le0 A).1 hok
    exact (isOk_loop c' d b' ls le _).2 ⟨h1, (FLe.rfl' hc A).l _ _ h2, by omega, Or.inr (Or.inl b0)⟩
  refine ⟨?_, ?_, ?_⟩
  · intro d b hok
    simp only [fold0SrcW, expL_cons] at hok
    simp only [expL_single]
    exact key d b b (isOk_seq.1 hok).1
  · intro d hok
    simp only [fold0SrcW] at hok
    rw [expPre_cons_nobrk _ _ _ _ (by simp)] at hok
    rw [expPre_cons_nobrk _ _ _ _ (by simp)]
    simp only [expPre, seq_nil_right]
    exact key d true true (isOk_seq.1 hok).1
  · simp only [fold0SrcW, hasTopBreak, hasTopBreak_replicate _ b0]

end Ctrmml.Rewrite
