/-
  C01, layer 3 — well-formedness of songs that the passes of the optimiser maintain:
  distinct track ids, no explicit `END` event, `LOOP_BREAK`s without duration, tracks shorter
  than 32767 events (so that the repeat count of a folded loop fits `int16_t`).
-/
import Ctrmml.Proofs.OptLoops
namespace Ctrmml.OptSteps
open Ctrmml Ctrmml.Tree Ctrmml.Expand Ctrmml.Rewrite Ctrmml.Opt Tables

structure SongWF (S : Song) : Prop where
  nodup : (S.tracks.map (·.1)).Nodup
  tracks : ∀ p ∈ S.tracks, NoEnd p.2 ∧ BrkZero p.2 ∧ p.2.length < 32767

theorem mem_of_lookup {β : Type} {l : List (Nat × β)} {k : Nat} {v : β} (h : l.lookup k = some v) : (k, v) ∈ l := by
  induction l with
  | nil => simp [List.lookup] at h
  | cons p r ih =>
    by_cases hk : k = p.1
    · subst hk
      simp only [List.lookup, beq_self_eq_true, Option.some.injEq] at h
      subst h
      simp
    · have h' : (k == p.1) = false := by simp [hk]
      simp only [List.lookup, h'] at h
      exact List.mem_cons_of_mem _ (ih h)

theorem SongWF.track {S : Song} (h : SongWF S) {id : Nat} {t : List Event} (ht : S.track? id = some t) :
    NoEnd t ∧ BrkZero t ∧ t.length < 32767 :=
  h.tracks (id, t) (mem_of_lookup ht)

theorem setTrack_tracks {S : Song} {id : Nat} {x : List Event} (h : S.track? id = some x) (evs : List Event) :
    (setTrack S id evs).tracks = S.tracks.map fun p => if p.1 == id then (id, evs) else p := by
  unfold setTrack
  rw [if_pos (lookup_some_any _ _ _ h)]

theorem SongWF.setTrack {S : Song} (h : SongWF S) {id : Nat} {x : List Event} (hx : S.track? id = some x)
    {evs : List Event} (h1 : NoEnd evs) (h2 : BrkZero evs) (h3 : evs.length < 32767) :
    SongWF (setTrack S id evs) := by
  constructor
  · rw [setTrack_tracks hx, List.map_map]
    have : ((fun x : Nat × List Event => x.1) ∘ fun p => if p.1 == id then (id, evs) else p) = (·.1) := by
      funext p
      simp only [Function.comp]
      split
      · rename_i hp; exact (beq_iff_eq.1 hp).symm
      · rfl
    rw [this]; exact h.nodup
  · intro p hp
    rw [setTrack_tracks hx] at hp
    obtain ⟨p0, hp0, rfl⟩ := List.mem_map.1 hp
    split
    · exact ⟨h1, h2, h3⟩
    · exact h.tracks p0 hp0

theorem noEnd_append {a b : List Event} (ha : NoEnd a) (hb : NoEnd b) : NoEnd (a ++ b) := by
  intro e he
  rcases List.mem_append.1 he with h | h
  · exact ha e h
  · exact hb e h

theorem noEnd_cons {e : Event} {a : List Event} (he : e.kind ≠ .fin) (ha : NoEnd a) : NoEnd (e :: a) := by
  intro x hx
  rcases List.mem_cons.1 hx with h | h
  · rw [h]; exact he
  · exact ha x h

theorem brkZero_append {a b : List Event} (ha : BrkZero a) (hb : BrkZero b) : BrkZero (a ++ b) := by
  intro e he
  rcases List.mem_append.1 he with h | h
  · exact ha e h
  · exact hb e h

theorem brkZero_cons {e : Event} {a : List Event} (he : e.on = 0 ∧ e.off = 0) (ha : BrkZero a) : BrkZero (e :: a) := by
  intro x hx
  rcases List.mem_cons.1 hx with h | h
  · rw [h]; exact fun _ => he
  · exact ha x h

theorem brkZero_take {l : List Event} (h : BrkZero l) (n : Nat) : BrkZero (l.take n) :=
  fun e he => h e (List.mem_of_mem_take he)
theorem brkZero_drop {l : List Event} (h : BrkZero l) (n : Nat) : BrkZero (l.drop n) :=
  fun e he => h e (List.mem_of_mem_drop he)

theorem lsEv_nofin : lsEv.kind ≠ .fin := by decide
theorem lbEv_nofin : lbEv.kind ≠ .fin := by decide
theorem leEv_nofin (n : Int) : (leEv n).kind ≠ .fin := by
  show kindOfType ev_LOOP_END ≠ .fin
  decide

/-- the folded track is well formed and not longer than the original -/
theorem foldedTrack_wf {src : List Event} {p q L : Nat} (hpq : p < q) (hlen : q + L ≤ src.length)
    (hL : 3 ≤ L) (hrep : L / (q - p) + 2 < 32768) (hne : NoEnd src) (hbz : BrkZero src) :
    NoEnd (foldedTrack src p q L) ∧ BrkZero (foldedTrack src p q L) ∧
      (foldedTrack src p q L).length ≤ src.length := by
  by_cases hb : L % (q - p) = 0
  · rw [foldedTrack_nobreak hpq hlen hb hrep]
    refine ⟨?_, ?_, ?_⟩
    · exact noEnd_append (noEnd_append (noEnd_take hne _) (noEnd_cons lsEv_nofin
        (noEnd_append (noEnd_take (noEnd_drop hne _) _) (noEnd_cons (leEv_nofin _) (fun _ h => by simp at h)))))
        (noEnd_drop hne _)
    · exact brkZero_append (brkZero_append (brkZero_take hbz _) (brkZero_cons ⟨rfl, rfl⟩
        (brkZero_append (brkZero_take (brkZero_drop hbz _) _) (brkZero_cons ⟨rfl, rfl⟩ (fun _ h => by simp at h)))))
        (brkZero_drop hbz _)
    · simp only [List.length_append, List.length_cons, List.length_take, List.length_drop, List.length_nil]
      omega
  · rw [foldedTrack_break hpq hlen hb hrep]
    refine ⟨?_, ?_, ?_⟩
    · exact noEnd_append (noEnd_append (noEnd_take hne _) (noEnd_cons lsEv_nofin
        (noEnd_append (noEnd_append (noEnd_take (noEnd_take (noEnd_drop hne _) _) _)
          (noEnd_cons lbEv_nofin (noEnd_drop (noEnd_take (noEnd_drop hne _) _) _)))
          (noEnd_cons (leEv_nofin _) (fun _ h => by simp at h)))))
        (noEnd_drop hne _)
    · exact brkZero_append (brkZero_append (brkZero_take hbz _) (brkZero_cons ⟨rfl, rfl⟩
        (brkZero_append (brkZero_append (brkZero_take (brkZero_take (brkZero_drop hbz _) _) _)
          (brkZero_cons ⟨rfl, rfl⟩ (brkZero_drop (brkZero_take (brkZero_drop hbz _) _) _)))
          (brkZero_cons ⟨rfl, rfl⟩ (fun _ h => by simp at h)))))
        (brkZero_drop hbz _)
    · have hm : L % (q - p) < q - p := Nat.mod_lt _ (by omega)
      simp only [List.length_append, List.length_cons, List.length_take, List.length_drop, List.length_nil]
      omega

/-- the repeat count of a fold in a track shorter than 32767 events fits `int16_t` -/
theorem repeats_small {src : List Event} {p q L : Nat} (hpq : p < q) (hlen : q + L ≤ src.length)
    (hs : src.length < 32767) : L / (q - p) + 2 < 32768 := by
  have : L / (q - p) ≤ L := Nat.div_le_self _ _
  omega

theorem minLoopScore_eq : minLoopScore = 3 := rfl

end Ctrmml.OptSteps
