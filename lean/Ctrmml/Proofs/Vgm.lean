/-
  Helper lemmas for C08 (no property statements): buffer growth, stores stay inside the
  allocation, every emission of the writer is read back by the VGM reader (`Emits`).
-/
import Ctrmml.Model.Vgm
import Ctrmml.Spec.VgmParse
namespace Ctrmml.Vgm
open Ctrmml Ctrmml.VgmSpec

theorem grow_ge (alloc need : Nat) (h : 0 < alloc) : need ≤ grow alloc need ∧ alloc ≤ grow alloc need := by
  fun_induction grow alloc need with
  | case1 a hc ih =>
    have := ih (by omega); omega
  | case2 a hc =>
    omega

/-- `Good`: the position is inside a non-empty allocation. -/
def Good (s : W) : Prop := s.pos ≤ s.alloc ∧ 0 < s.alloc

theorem reserve_pos (s : W) (n : Nat) : (reserve s n).pos = s.pos := rfl
theorem reserve_mem (s : W) (n : Nat) : (reserve s n).mem = s.mem := rfl

theorem reserve_room (s : W) (n : Nat) (h : Good s) :
    (reserve s n).pos + n ≤ (reserve s n).alloc ∧ Good (reserve s n) := by
  have := grow_ge s.alloc (s.pos + n) h.2
  unfold Good reserve W.pos at *
  simp only []
  omega

theorem put_ok (s : W) (bs : Bytes) (h : s.pos + bs.length ≤ s.alloc) :
    put s bs = .ok { s with mem := s.mem ++ bs.map some } := by
  unfold put; simp [h]

theorem put_good (s s' : W) (bs : Bytes) (hg : 0 < s.alloc) (h : put s bs = .ok s') : Good s' := by
  unfold put at h
  split at h
  · cases h; unfold Good W.pos at *; simp at *; omega
  · cases h

/-- after `reserve n`, storing at most `n` bytes succeeds -/
theorem reserve_put (s : W) (n : Nat) (bs : Bytes) (hg : Good s) (hl : bs.length ≤ n) :
    ∃ s', put (reserve s n) bs = .ok s' ∧ Good s' ∧ s'.mem = s.mem ++ bs.map some := by
  have hr := reserve_room s n hg
  have : (reserve s n).pos + bs.length ≤ (reserve s n).alloc := by omega
  refine ⟨_, put_ok _ _ this, ?_, rfl⟩
  exact put_good _ _ bs hr.2.2 (put_ok _ _ this)

theorem flatten_replicate_length (k : Nat) (l : Bytes) :
    (List.replicate k l).flatten.length = k * l.length := by
  induction k with
  | zero => simp
  | succ k ih => simp [List.replicate_succ, ih, Nat.succ_mul]; omega

theorem delayBytes_length (d : Nat) : (delayBytes d).length ≤ d / delayChunk * 3 + 3 := by
  unfold delayBytes
  simp only [List.length_append, flatten_replicate_length]
  split
  · simp [le16]
  · split <;> simp


/-- the common shape of `write`, `dac_*`, `datablock`: flush the delay, reserve, store -/
def emit (s : W) (n : Nat) (bs : Bytes) : Except Err W := do
  let s ← addDelay s
  put (reserve s n) bs

theorem delayBytes_zero : delayBytes 0 = [] := by
  simp [delayBytes, delayChunk, Tables.vgm_delay_chunk]

/-- what `add_delay` does to a good state -/
theorem addDelay_spec (s : W) (hg : Good s) (hs : s.samples < 4294967296) :
    (addDelay s = .error .delayOverflow ∧ 2147483648 ≤ s.pending) ∨
    ∃ s', addDelay s = .ok s' ∧ Good s' ∧ s'.pending = 0 ∧
      s'.mem = s.mem ++ (delayBytes s.pending).map some ∧
      s'.samples = (s.samples + s.pending) % 4294967296 ∧
      s'.loopSet = s.loopSet ∧ s'.loopSample = s.loopSample ∧ s'.completed = s.completed := by
  unfold addDelay
  by_cases h1 : s.pending ≥ 1
  · simp only [h1, if_true]
    by_cases h2 : s.pending ≥ 2147483648
    · left; simp [h2]
    · right
      simp only [h2, if_false]
      have hl := delayBytes_length s.pending
      have hg' : Good { s with pending := 0, samples := (s.samples + s.pending) % 4294967296 } := hg
      obtain ⟨s', h, g, m⟩ := reserve_put _ (s.pending / delayChunk * Tables.vgm_reserve_delay_per + Tables.vgm_reserve_delay_extra)
        (delayBytes s.pending) hg' (by simp [Tables.vgm_reserve_delay_per, Tables.vgm_reserve_delay_extra]; exact hl)
      refine ⟨s', h, g, ?_, m, ?_⟩
      · unfold put at h; split at h <;> cases h; rfl
      · unfold put at h; split at h <;> cases h; simp [reserve]
  · right
    have h0 : s.pending = 0 := by omega
    simp only [h1, if_false]
    refine ⟨s, rfl, hg, h0, ?_, ?_, rfl, rfl, rfl⟩
    · simp [h0, delayBytes_zero]
    · simp [h0]; omega

theorem emit_spec (s : W) (n : Nat) (bs : Bytes) (hg : Good s) (hs : s.samples < 4294967296)
    (hl : bs.length ≤ n) :
    (emit s n bs = .error .delayOverflow ∧ 2147483648 ≤ s.pending) ∨
    ∃ s', emit s n bs = .ok s' ∧ Good s' ∧ s'.pending = 0 ∧
      s'.mem = s.mem ++ (delayBytes s.pending ++ bs).map some ∧
      s'.samples = (s.samples + s.pending) % 4294967296 ∧
      s'.loopSet = s.loopSet ∧ s'.loopSample = s.loopSample ∧ s'.completed = s.completed := by
  unfold emit
  rcases addDelay_spec s hg hs with ⟨h, hp⟩ | ⟨s1, h, g1, p1, m1, sm1, l1, l2, c1⟩
  · left; simp [h, bind, Except.bind, hp]
  · right
    obtain ⟨s2, h2, g2, m2⟩ := reserve_put s1 n bs g1 hl
    refine ⟨s2, by simp [h, bind, Except.bind, h2], g2, ?_, ?_, ?_, ?_, ?_, ?_⟩
    all_goals (unfold put at h2; split at h2 <;> cases h2)
    · simpa [reserve] using p1
    · simp [reserve, m1, List.append_assoc]
    · simpa [reserve] using sm1
    · simpa [reserve] using l1
    · simpa [reserve] using l2
    · simpa [reserve] using c1



def Safe (s : W) : Prop := Good s ∧ s.samples < 4294967296

/-- outcome of an operation on a safe state: a safe state, or an error that is not a heap overflow -/
def SafeOut (r : Except Err W) : Prop :=
  (∃ s', r = .ok s' ∧ Safe s') ∨ (∃ e, r = .error e ∧ e ≠ .heapOverflow)

theorem setCells_length (m : List Cell) (off : Nat) (bs : Bytes) (h : off + bs.length ≤ m.length) :
    (setCells m off bs).length = m.length := by
  unfold setCells; simp; omega

theorem poke_safe (s : W) (off : Nat) (bs : Bytes) (h : Safe s) : SafeOut (poke s off bs) := by
  unfold poke
  split
  · left; refine ⟨_, rfl, ?_, h.2⟩
    have := setCells_length s.mem off bs (by assumption)
    unfold Good W.pos at *; simp only [this]; exact h.1
  · right; exact ⟨_, rfl, by simp⟩

theorem emit_safe (s : W) (n : Nat) (bs : Bytes) (h : Safe s) (hl : bs.length ≤ n) : SafeOut (emit s n bs) := by
  rcases emit_spec s n bs h.1 h.2 hl with ⟨he, _⟩ | ⟨s', he, g, _, _, sm, _⟩
  · right; exact ⟨_, he, by simp⟩
  · left; refine ⟨s', he, g, ?_⟩; rw [sm]; omega

theorem SafeOut.bind {r : Except Err W} {f : W → Except Err W} (hr : SafeOut r)
    (hf : ∀ s, Safe s → SafeOut (f s)) : SafeOut (r >>= f) := by
  rcases hr with ⟨s', rfl, hs⟩ | ⟨e, rfl, he⟩
  · exact hf s' hs
  · right; exact ⟨e, rfl, he⟩

theorem addDelay_safe (s : W) (h : Safe s) : SafeOut (addDelay s) := by
  rcases addDelay_spec s h.1 h.2 with ⟨he, _⟩ | ⟨s', he, g, _, _, sm, _⟩
  · right; exact ⟨_, he, by simp⟩
  · left; refine ⟨s', he, g, ?_⟩; rw [sm]; omega

theorem reserve_put_safe (s : W) (n : Nat) (bs : Bytes) (h : Safe s) (hl : bs.length ≤ n) :
    SafeOut (put (reserve s n) bs) := by
  obtain ⟨s', h', g, _⟩ := reserve_put s n bs h.1 hl
  left; refine ⟨s', h', g, ?_⟩
  unfold put at h'; split at h' <;> cases h'; exact h.2

theorem unitsBytes_length (us : List Nat) : (unitsBytes us).length = 2 * us.length := by
  induction us with
  | nil => rfl
  | cons u us ih => simp [unitsBytes, le16] at *; omega

theorem utf8_err (b : Bytes) (e : Err) (h : utf8ToUtf16 b = .error e) : e = .rangeError := by
  fun_induction utf8ToUtf16 b <;> simp_all [Except.map]
  all_goals (split at h <;> simp_all)

theorem put_within (s : W) (bs : Bytes) (k : Nat) (h : Safe s) (hk : s.pos + k ≤ s.alloc) (hl : bs.length ≤ k) :
    ∃ s', put s bs = .ok s' ∧ Safe s' ∧ s'.pos = s.pos + bs.length ∧ s'.alloc = s.alloc := by
  have h1 := h.1.1; have h2 := h.1.2
  unfold W.pos at *
  refine ⟨_, put_ok s bs (by unfold W.pos; omega), ⟨⟨?_, h2⟩, h.2⟩, ?_, rfl⟩
  · show (s.mem ++ bs.map some).length ≤ s.alloc
    simp; omega
  · simp

theorem addGd3All_safe (ts : List Bytes) (s : W) (h : Safe s) (hk : s.pos + ts.length * 514 ≤ s.alloc) :
    SafeOut (addGd3All s ts) := by
  induction ts generalizing s with
  | nil => left; exact ⟨s, rfl, h⟩
  | cons t ts ih =>
    rw [List.length_cons] at hk
    have hk1 : s.pos + 514 ≤ s.alloc := by omega
    have hk2 : s.pos + 514 + ts.length * 514 ≤ s.alloc := by omega
    clear hk
    unfold addGd3All addGd3
    cases hu : utf8ToUtf16 (cstr t) with
    | error e =>
      right
      refine ⟨e, rfl, ?_⟩
      rw [utf8_err _ _ hu]; simp
    | ok us =>
      have hl : (unitsBytes (us.take gd3MaxUnits) ++ [0, 0]).length ≤ 514 := by
        have h1 : (us.take gd3MaxUnits).length ≤ 256 := by
          rw [List.length_take]; exact Nat.min_le_left _ _
        rw [List.length_append, unitsBytes_length]
        simp only [List.length_cons, List.length_nil]; omega
      obtain ⟨s', hp, hs', hpos, hal⟩ := put_within s _ 514 h hk1 hl
      simp only [hp]
      apply ih s' hs'
      rw [hal, hpos]
      generalize (unitsBytes (us.take gd3MaxUnits) ++ [0, 0]).length = n at hl ⊢
      omega

theorem poke_ok (s s' : W) (off : Nat) (bs : Bytes) (h : Safe s) (hp : poke s off bs = .ok s') :
    Safe s' ∧ s'.pos = s.pos ∧ s'.alloc = s.alloc := by
  unfold poke at hp
  split at hp
  · cases hp
    have hl := setCells_length s.mem off bs (by assumption)
    refine ⟨⟨?_, h.2⟩, ?_, rfl⟩
    · unfold Good W.pos at *; simp only [hl]; exact h.1
    · unfold W.pos; simp only [hl]
  · cases hp

theorem poke_err (s : W) (off : Nat) (bs : Bytes) (e : Err) (hp : poke s off bs = .error e) : e ≠ .heapOverflow := by
  unfold poke at hp
  split at hp
  · cases hp
  · cases hp; simp

theorem skip_within (s : W) (k : Nat) (h : Safe s) (hk : s.pos + k ≤ s.alloc) :
    ∃ s', skip s k = .ok s' ∧ Safe s' ∧ s'.pos = s.pos + k ∧ s'.alloc = s.alloc := by
  have h2 := h.1.2
  unfold skip
  simp only [hk, if_true]
  refine ⟨_, rfl, ⟨⟨?_, h2⟩, h.2⟩, ?_, rfl⟩
  · unfold W.pos at *; simp; omega
  · unfold W.pos; simp

theorem writeTag_safe (s : W) (t : Tags) (h : Safe s) : SafeOut (writeTag s t) := by
  unfold writeTag
  obtain ⟨hroom, hg0⟩ := reserve_room s Tables.vgm_reserve_write_tag h.1
  have hs0 : Safe (reserve s Tables.vgm_reserve_write_tag) := ⟨hg0, h.2⟩
  have hN : Tables.vgm_reserve_write_tag = 5666 := rfl
  rw [hN] at hroom hs0 ⊢
  generalize reserve s 5666 = s0 at *
  simp only [bind, Except.bind, poke32]
  cases h1 : poke s0 0x14 (le32 (s0.pos - 0x14)) with
  | error e => right; exact ⟨e, rfl, poke_err _ _ _ _ h1⟩
  | ok s1 =>
    obtain ⟨hs1, hp1, ha1⟩ := poke_ok _ _ _ _ hs0 h1
    obtain ⟨s2, h2, hs2, hp2, ha2⟩ := put_within s1 gd3Magic 8 hs1 (by omega) (by simp [gd3Magic])
    simp only [h2]
    obtain ⟨s3, h3, hs3, hp3, ha3⟩ := skip_within s2 4 hs2 (by simp [gd3Magic] at hp2; omega)
    simp only [h3]
    have h4 := addGd3All_safe t.toList s3 hs3 (by simp [Tags.toList, gd3Magic] at *; omega)
    rcases h4 with ⟨s4, h4, hs4⟩ | ⟨e, h4, he⟩
    · simp only [h4]; exact poke_safe _ _ _ hs4
    · right; exact ⟨e, by simp only [h4], he⟩

theorem writeBytes_length (c p r d : Nat) : (writeBytes c p r d).length ≤ 100 := by
  unfold writeBytes; repeat' split
  all_goals simp

theorem step_safe (s : W) (o : Op) (h : Safe s) : SafeOut (step s o) := by
  cases o with
  | write c p r d => exact emit_safe s _ _ h (writeBytes_length c p r d)
  | dacSetup a b c d e => exact emit_safe s _ _ h (by simp [dacSetupBytes, Tables.vgm_reserve_dac_setup])
  | dacStart a b c d => exact emit_safe s _ _ h (by simp [dacStartBytes, Tables.vgm_reserve_dac_start])
  | dacStop a => exact emit_safe s _ _ h (by simp [Tables.vgm_reserve_dac_stop])
  | setLoop =>
    show SafeOut (setLoop s)
    unfold setLoop
    exact (addDelay_safe s h).bind fun s1 h1 => poke_safe _ _ _ h1
  | datablock t p m f o =>
    refine emit_safe s _ _ h ?_
    unfold datablockBytes; split <;> simp [Tables.vgm_reserve_datablock_extra] <;> omega
  | delay n => left; exact ⟨_, rfl, h⟩
  | stop =>
    show SafeOut (stop s)
    unfold stop
    refine (addDelay_safe s h).bind fun s1 h1 => ?_
    refine (reserve_put_safe s1 _ _ h1 (by simp [Tables.vgm_reserve_stop])).bind fun s2 h2 => ?_
    refine (poke_safe _ _ _ h2).bind fun s3 h3 => ?_
    have fin : ∀ s4 : W, Safe s4 → SafeOut (pure { s4 with completed := true } : Except Err W) :=
      fun s4 h4 => Or.inl ⟨_, rfl, h4⟩
    show SafeOut (if s3.loopSet = true then _ else _)
    split
    · exact (poke_safe _ _ _ h3).bind fin
    · exact fin s3 h3
  | poke o bs => exact poke_safe s o bs h
  | writeTag t => exact writeTag_safe s t h

theorem steps_safe (ops : List Op) (s : W) (h : Safe s) : SafeOut (steps s ops) := by
  induction ops generalizing s with
  | nil => left; exact ⟨s, rfl, h⟩
  | cons o os ih =>
    unfold steps
    rcases step_safe s o h with ⟨s', hs, h'⟩ | ⟨e, hs, he⟩
    · simp only [hs]; exact ih s' h'
    · right; exact ⟨e, by simp only [hs], he⟩



def Emits (e : Bytes) (cs : List (Nat × Cmd)) : Prop :=
  ∀ tail, parseAll (e ++ tail) = (parseAll tail).map (fun x => (cs ++ x.1, x.2))

theorem Emits.nil : Emits [] [] := by
  intro tail; cases h : parseAll tail <;> simp [h]

theorem Emits.append {a b : Bytes} {ca cb} (ha : Emits a ca) (hb : Emits b cb) : Emits (a ++ b) (ca ++ cb) := by
  intro tail
  rw [List.append_assoc, ha, hb]
  cases h : parseAll tail <;> simp

theorem emits_one (c : UInt8) (ops : Bytes) (cmd : Cmd) (hne : cmd ≠ .endMark)
    (h : ∀ tail, parseCmd c (ops ++ tail) = some (cmd, ops.length)) :
    Emits (c :: ops) [(ops.length + 1, cmd)] := by
  intro tail
  rw [List.cons_append, parseAll, h tail]
  simp only [hne, if_false, List.drop_left]
  cases parseAll tail <;> simp

theorem emits_wait61 (lo hi : UInt8) : Emits [0x61, lo, hi] [(3, .wait (lo.toNat + 256 * hi.toNat))] := by
  apply emits_one 0x61 [lo, hi] _ (by simp)
  intro tail
  simp [parseCmd]

theorem emits_wait7 (n : Nat) (h1 : 1 ≤ n) (h2 : n ≤ 16) : Emits [byteOf (0x70 + n - 1)] [(1, .wait n)] := by
  apply emits_one _ [] _ (by simp)
  intro tail
  have hn : (byteOf (0x70 + n - 1)).toNat = 0x6f + n := by rw [byteOf_toNat]; omega
  unfold parseCmd
  simp only [hn]
  rw [if_neg (by omega), if_neg (by omega), if_neg (by omega), if_neg (by omega), if_pos (by omega)]
  simp

theorem emits_rep (k : Nat) :
    Emits (List.replicate k [0x61, 0xff, 0xff]).flatten (List.replicate k (3, .wait 65535)) := by
  induction k with
  | zero => exact Emits.nil
  | succ k ih =>
    rw [List.replicate_succ, List.replicate_succ, List.flatten_cons]
    exact Emits.append (emits_wait61 0xff 0xff) ih

/-- the commands a reader sees for `add_delay` of `d` samples -/
def delayCmds (d : Nat) : List (Nat × Cmd) :=
  List.replicate (d / 65535) (3, .wait 65535) ++
    (if d % 65535 > 16 then [(3, .wait (d % 65535))] else if d % 65535 > 0 then [(1, .wait (d % 65535))] else [])

theorem emits_delay (d : Nat) : Emits (delayBytes d) (delayCmds d) := by
  unfold delayBytes delayCmds
  have hc : delayChunk = 65535 := rfl
  have hm : delayShortMax = 16 := rfl
  simp only [hc, hm]
  apply Emits.append (emits_rep _)
  have hlt : d % 65535 < 65535 := Nat.mod_lt _ (by omega)
  generalize d % 65535 = fin at hlt
  split
  · have := emits_wait61 (byteOf fin) (byteOf (fin / 256))
    have hv : (byteOf fin).toNat + 256 * (byteOf (fin / 256)).toNat = fin := by
      rw [byteOf_toNat, byteOf_toNat]; omega
    rw [hv] at this
    exact this
  · split
    · exact emits_wait7 fin (by omega) (by omega)
    · exact Emits.nil

theorem waits_append (a b : List (Nat × Cmd)) : waits (a ++ b) = waits a + waits b := by
  simp [waits]
theorem sizes_append (a b : List (Nat × Cmd)) : sizes (a ++ b) = sizes a + sizes b := by
  simp [sizes]

theorem waits_replicate (k n m : Nat) : waits (List.replicate k (n, .wait m)) = k * m := by
  induction k with
  | zero => simp [waits]
  | succ k ih =>
    rw [List.replicate_succ]
    have : waits ((n, Cmd.wait m) :: List.replicate k (n, Cmd.wait m)) = m + waits (List.replicate k (n, Cmd.wait m)) := by
      simp [waits, waitOf]
    rw [this, ih, Nat.succ_mul]; omega

theorem waits_delayCmds (d : Nat) : waits (delayCmds d) = d := by
  unfold delayCmds
  rw [waits_append, waits_replicate]
  have := Nat.div_add_mod d 65535
  split
  · simp [waits, waitOf]; omega
  · split
    · simp [waits, waitOf]; omega
    · simp [waits]; omega

theorem delayCmds_all_waits (d : Nat) : ∀ p ∈ delayCmds d, ∃ n, p.2 = .wait n ∧ 0 < n ∧ n ≤ 65535 := by
  intro p hp
  unfold delayCmds at hp
  have hlt : d % 65535 < 65535 := Nat.mod_lt _ (by omega)
  rw [List.mem_append] at hp
  rcases hp with hp | hp
  · rw [List.mem_replicate] at hp; exact ⟨65535, by rw [hp.2], by omega, by omega⟩
  · split at hp
    · simp at hp; exact ⟨_, by rw [hp], by omega, by omega⟩
    · split at hp
      · simp at hp; exact ⟨_, by rw [hp], by omega, by omega⟩
      · simp at hp



theorem emits_psg (d : Nat) : Emits (writeBytes 0x50 0 0 d) [(2, .chip 0x50 [byteOf d])] := by
  have : writeBytes 0x50 0 0 d = [0x50, byteOf d] := by simp [writeBytes, byteOf]
  rw [this]
  apply emits_one 0x50 [byteOf d] _ (by simp)
  intro tail
  simp [parseCmd, operandCount]

theorem emits_ym (p r d : Nat) (hp : p ≤ 1) :
    Emits (writeBytes 0x52 p r d) [(3, .chip (byteOf (0x52 + p)) [byteOf r, byteOf d])] := by
  have : writeBytes 0x52 p r d = [byteOf (0x52 + p), byteOf r, byteOf d] := by simp [writeBytes]
  rw [this]
  apply emits_one _ [byteOf r, byteOf d] _ (by simp)
  intro tail
  have hn : (byteOf (0x52 + p)).toNat = 0x52 + p := by rw [byteOf_toNat]; omega
  unfold parseCmd
  simp only [hn]
  have ho : operandCount (0x52 + p) = some 2 := by
    unfold operandCount
    rw [if_neg (by omega), if_pos (by omega)]
  rw [if_neg (by omega), if_neg (by omega), if_neg (by omega), if_neg (by omega), if_neg (by omega), if_neg (by omega),
    if_neg (by omega), if_neg (by omega), if_neg (by omega), if_neg (by omega), if_neg (by omega), ho]
  simp

theorem emits_dacSetup (sid chip port reg db : Nat) :
    Emits (dacSetupBytes sid chip port reg db)
      [(5, .dacSetup (byteOf sid) (byteOf chip) (byteOf port) (byteOf reg)), (5, .dacData (byteOf sid) (byteOf db) 1 0)] := by
  have : dacSetupBytes sid chip port reg db =
      [0x90, byteOf sid, byteOf chip, byteOf port, byteOf reg] ++ [0x91, byteOf sid, byteOf db, 1, 0] := rfl
  rw [this]
  refine Emits.append (ca := [_]) (cb := [_]) ?_ ?_
  · apply emits_one 0x90 [_, _, _, _] _ (by simp)
    intro tail; simp [parseCmd]
  · apply emits_one 0x91 [_, _, _, _] _ (by simp)
    intro tail; simp [parseCmd]

theorem v32_le32 (n : Nat) : ∃ a b c d, le32 n = [a, b, c, d] ∧ v32 a b c d = n % 4294967296 := by
  refine ⟨_, _, _, _, rfl, ?_⟩
  simp only [v32, byteOf_toNat]; omega

theorem emits_dacStart (sid start len freq : Nat) :
    Emits (dacStartBytes sid start len freq)
      [(6, .dacFreq (byteOf sid) (freq % 4294967296)), (11, .dacStart (byteOf sid) (start % 4294967296) 1 (len % 4294967296))] := by
  obtain ⟨f0, f1, f2, f3, hf, hfv⟩ := v32_le32 freq
  obtain ⟨s0, s1, s2, s3, hs, hsv⟩ := v32_le32 start
  obtain ⟨l0, l1, l2, l3, hl, hlv⟩ := v32_le32 len
  have : dacStartBytes sid start len freq =
      [0x92, byteOf sid, f0, f1, f2, f3] ++ [0x93, byteOf sid, s0, s1, s2, s3, 1, l0, l1, l2, l3] := by
    simp [dacStartBytes, hf, hs, hl]
  rw [this, ← hfv, ← hsv, ← hlv]
  refine Emits.append (ca := [_]) (cb := [_]) ?_ ?_
  · apply emits_one 0x92 [_, _, _, _, _] _ (by simp)
    intro tail; simp [parseCmd]
  · apply emits_one 0x93 [_, _, _, _, _, _, _, _, _, _] _ (by simp)
    intro tail; simp [parseCmd]

theorem emits_dacStop (sid : Nat) : Emits [0x94, byteOf sid] [(2, .dacStop (byteOf sid))] := by
  apply emits_one 0x94 [_] _ (by simp)
  intro tail; simp [parseCmd]

theorem emits_datablock (t : Nat) (payload : Bytes) (m o : Nat) (ht : t < 0x80) (hl : payload.length < 2147483648) :
    Emits (datablockBytes t payload m 0 o) [(7 + payload.length, .dataBlock (byteOf t) payload)] := by
  obtain ⟨a, b, c, d, hle, hv⟩ := v32_le32 payload.length
  have hr : isRomDump t = false := by simp [isRomDump]; omega
  have : datablockBytes t payload m 0 o = 0x67 :: ([0x66, byteOf t, a, b, c, d] ++ payload) := by
    simp [datablockBytes, hr, hle]
  rw [this]
  have h2 := emits_one 0x67 ([0x66, byteOf t, a, b, c, d] ++ payload) (.dataBlock (byteOf t) payload) (by simp) (by
    intro tail
    have hsz : v32 a b c d % 2147483648 = payload.length := by rw [hv]; omega
    simp [parseCmd, hsz]; omega)
  have hlen : ([0x66, byteOf t, a, b, c, d] ++ payload).length + 1 = 7 + payload.length := by simp; omega
  rw [hlen] at h2
  exact h2



/-- the operations the exporter (MD_Driver + vgm_export) performs between construction and `stop` -/
inductive XOp
  | psg (d : Nat)
  | ym (port1 : Bool) (reg d : Nat)
  | delay (n : Nat)
  | setLoop
  | dacSetup (sid chip port reg db : Nat)
  | dacStart (sid start len freq : Nat)
  | dacStop (sid : Nat)
  | datablock (t : Nat) (payload : Bytes) (maxsize offset : Nat)

def XOp.toOp : XOp → Op
  | .psg d => .write 0x50 0 0 d
  | .ym p r d => .write 0x52 (if p then 1 else 0) r d
  | .delay n => .delay n
  | .setLoop => .setLoop
  | .dacSetup a b c d e => .dacSetup a b c d e
  | .dacStart a b c d => .dacStart a b c d
  | .dacStop a => .dacStop a
  | .datablock t p m o => .datablock t p m 0 o

def XOp.valid : XOp → Prop
  | .datablock t p _ _ => t < 0x80 ∧ p.length < 2147483648
  | _ => True

/-- what a VGM reader must see for the operation (waits excluded) -/
def XOp.cmds : XOp → List (Nat × Cmd)
  | .psg d => [(2, .chip 0x50 [byteOf d])]
  | .ym p r d => [(3, .chip (byteOf (0x52 + if p then 1 else 0)) [byteOf r, byteOf d])]
  | .delay _ => []
  | .setLoop => []
  | .dacSetup sid chip port reg db =>
    [(5, .dacSetup (byteOf sid) (byteOf chip) (byteOf port) (byteOf reg)), (5, .dacData (byteOf sid) (byteOf db) 1 0)]
  | .dacStart sid st len fr =>
    [(6, .dacFreq (byteOf sid) (fr % 4294967296)), (11, .dacStart (byteOf sid) (st % 4294967296) 1 (len % 4294967296))]
  | .dacStop sid => [(2, .dacStop (byteOf sid))]
  | .datablock t p _ _ => [(7 + p.length, .dataBlock (byteOf t) p)]

def XOp.delayOf : XOp → Nat
  | .delay n => n
  | _ => 0

/-- stream invariant: `pre` = header cells (all determinate), `body` = command bytes so far,
read back by the VGM reader as `cs`; `sample_count` is the sum of the waits in `cs` -/
structure StreamInv (s : W) (pre body : Bytes) (cs : List (Nat × Cmd)) : Prop where
  mem : s.mem = pre.map some ++ body.map some
  pre36 : 0x24 ≤ pre.length
  emits : Emits body cs
  samp : s.samples = waits cs % 4294967296
  safe : Safe s

theorem setCells_pre (pre body bs : Bytes) (off : Nat) (h : off + bs.length ≤ pre.length) :
    setCells (pre.map some ++ body.map some) off bs =
      (pre.take off ++ bs ++ pre.drop (off + bs.length)).map some ++ body.map some := by
  unfold setCells
  rw [List.take_append_of_le_length (by simp; omega), List.drop_append_of_le_length (by simp; omega)]
  simp [List.map_take, List.map_drop]

theorem poke_inv {s s' : W} {pre body : Bytes} {cs} (inv : StreamInv s pre body cs) (off : Nat) (bs : Bytes)
    (h : off + bs.length ≤ pre.length) (hp : poke s off bs = .ok s') :
    StreamInv s' (pre.take off ++ bs ++ pre.drop (off + bs.length)) body cs ∧ s'.pending = s.pending ∧
      s'.samples = s.samples ∧ s'.loopSet = s.loopSet ∧ s'.loopSample = s.loopSample := by
  have hs := (poke_ok _ _ _ _ inv.safe hp).1
  unfold poke at hp
  split at hp
  · cases hp
    refine ⟨⟨?_, ?_, inv.emits, inv.samp, hs⟩, rfl, rfl, rfl, rfl⟩
    · show setCells s.mem off bs = _
      rw [inv.mem, setCells_pre _ _ _ _ h]
    · have := inv.pre36; simp; omega
  · cases hp

theorem emit_inv {s s' : W} {pre body : Bytes} {cs} (inv : StreamInv s pre body cs) (n : Nat) (bs : Bytes)
    (c : List (Nat × Cmd)) (he : Emits bs c) (hw : waits c = 0) (hl : bs.length ≤ n) (h : emit s n bs = .ok s') :
    StreamInv s' pre (body ++ (delayBytes s.pending ++ bs)) (cs ++ (delayCmds s.pending ++ c)) ∧ s'.pending = 0 := by
  rcases emit_spec s n bs inv.safe.1 inv.safe.2 hl with ⟨he', _⟩ | ⟨s2, he', g, p0, m, sm, _⟩
  · rw [he'] at h; cases h
  · rw [he'] at h; cases h
    refine ⟨⟨?_, inv.pre36, inv.emits.append ((emits_delay _).append he), ?_, ⟨g, ?_⟩⟩, p0⟩
    · rw [m, inv.mem]; simp
    · rw [sm, inv.samp, waits_append, waits_append, waits_delayCmds, hw]; omega
    · rw [sm]; omega

theorem addDelay_inv {s s' : W} {pre body : Bytes} {cs} (inv : StreamInv s pre body cs) (h : addDelay s = .ok s') :
    StreamInv s' pre (body ++ delayBytes s.pending) (cs ++ delayCmds s.pending) ∧ s'.pending = 0 ∧
      s'.loopSet = s.loopSet ∧ s'.loopSample = s.loopSample := by
  rcases addDelay_spec s inv.safe.1 inv.safe.2 with ⟨he', _⟩ | ⟨s2, he', g, p0, m, sm, l1, l2, _⟩
  · rw [he'] at h; cases h
  · rw [he'] at h; cases h
    refine ⟨⟨?_, inv.pre36, inv.emits.append (emits_delay _), ?_, ⟨g, ?_⟩⟩, p0, l1, l2⟩
    · rw [m, inv.mem]; simp
    · rw [sm, inv.samp, waits_append, waits_delayCmds]; omega
    · rw [sm]; omega

theorem waits_cmds (x : XOp) : waits x.cmds = 0 := by
  cases x <;> simp [XOp.cmds, waits, waitOf]

/-- one exporter operation keeps the invariant; the reader sees the pending wait (if the
operation flushes it) followed by exactly the operation's commands -/
theorem xstep_inv {s s' : W} {pre body : Bytes} {cs} (x : XOp) (hv : x.valid) (inv : StreamInv s pre body cs)
    (h : step s x.toOp = .ok s') :
    ∃ pre' body' cs', StreamInv s' pre' body' cs' ∧ pre'.length = pre.length ∧
      waits cs' + s'.pending = waits cs + s.pending + x.delayOf := by
  cases x with
  | psg d =>
    have := emit_inv inv _ _ _ (emits_psg d) (by simp [waits, waitOf]) (writeBytes_length _ _ _ _) h
    exact ⟨_, _, _, this.1, rfl, by rw [this.2, waits_append, waits_append, waits_delayCmds]; simp [waits, waitOf, XOp.delayOf]⟩
  | ym p r d =>
    have := emit_inv inv _ _ _ (emits_ym (if p then 1 else 0) r d (by split <;> omega)) (by simp [waits, waitOf]) (writeBytes_length _ _ _ _) h
    exact ⟨_, _, _, this.1, rfl, by rw [this.2, waits_append, waits_append, waits_delayCmds]; simp [waits, waitOf, XOp.delayOf]⟩
  | delay n =>
    cases h
    refine ⟨pre, body, cs, ⟨inv.mem, inv.pre36, inv.emits, inv.samp, inv.safe⟩, rfl, ?_⟩
    simp [delay, XOp.delayOf]; omega
  | setLoop =>
    change setLoop s = .ok s' at h
    unfold setLoop at h
    cases h1 : addDelay s with
    | error e => rw [h1] at h; cases h
    | ok s1 =>
      rw [h1] at h
      obtain ⟨inv1, p1, _, _⟩ := addDelay_inv inv h1
      have inv1' : StreamInv { s1 with loopSample := s1.samples, loopSet := true } pre _ _ :=
        ⟨inv1.mem, inv1.pre36, inv1.emits, inv1.samp, inv1.safe⟩
      have hp := poke_inv inv1' 0x1c (le32 (s1.pos - 0x1c)) (by have := inv.pre36; simp; omega) h
      refine ⟨_, _, _, hp.1, ?_, ?_⟩
      · have := inv.pre36; simp; omega
      · rw [hp.2.1, waits_append, waits_delayCmds]; simp [p1, XOp.delayOf]
  | dacSetup a b c d e =>
    have := emit_inv inv _ _ _ (emits_dacSetup a b c d e) (by simp [waits, waitOf]) (by simp [dacSetupBytes, Tables.vgm_reserve_dac_setup]) h
    exact ⟨_, _, _, this.1, rfl, by rw [this.2, waits_append, waits_append, waits_delayCmds]; simp [waits, waitOf, XOp.delayOf]⟩
  | dacStart a b c d =>
    have := emit_inv inv _ _ _ (emits_dacStart a b c d) (by simp [waits, waitOf]) (by simp [dacStartBytes, Tables.vgm_reserve_dac_start]) h
    exact ⟨_, _, _, this.1, rfl, by rw [this.2, waits_append, waits_append, waits_delayCmds]; simp [waits, waitOf, XOp.delayOf]⟩
  | dacStop a =>
    have := emit_inv inv _ _ _ (emits_dacStop a) (by simp [waits, waitOf]) (by simp [Tables.vgm_reserve_dac_stop]) h
    exact ⟨_, _, _, this.1, rfl, by rw [this.2, waits_append, waits_append, waits_delayCmds]; simp [waits, waitOf, XOp.delayOf]⟩
  | datablock t p m o =>
    have := emit_inv inv _ _ _ (emits_datablock t p m o hv.1 hv.2) (by simp [waits, waitOf])
      (by unfold datablockBytes; split <;> simp [Tables.vgm_reserve_datablock_extra] <;> omega) h
    exact ⟨_, _, _, this.1, rfl, by rw [this.2, waits_append, waits_append, waits_delayCmds]; simp [waits, waitOf, XOp.delayOf]⟩


theorem setCells_pre' (pre bs : Bytes) (rest : List Cell) (off : Nat) (h : off + bs.length ≤ pre.length) :
    setCells (pre.map some ++ rest) off bs =
      (pre.take off ++ bs ++ pre.drop (off + bs.length)).map some ++ rest := by
  unfold setCells
  rw [List.take_append_of_le_length (by simp; omega), List.drop_append_of_le_length (by simp; omega)]
  simp [List.map_take, List.map_drop]

theorem poke_mem {s s' : W} {pre : Bytes} {rest : List Cell} (hm : s.mem = pre.map some ++ rest) (off : Nat) (bs : Bytes)
    (h : off + bs.length ≤ pre.length) (hp : poke s off bs = .ok s') :
    s'.mem = (pre.take off ++ bs ++ pre.drop (off + bs.length)).map some ++ rest ∧
      (pre.take off ++ bs ++ pre.drop (off + bs.length)).length = pre.length ∧
      s'.samples = s.samples ∧ s'.loopSet = s.loopSet ∧ s'.loopSample = s.loopSample := by
  unfold poke at hp
  split at hp
  · cases hp
    refine ⟨?_, ?_, rfl, rfl, rfl⟩
    · show setCells s.mem off bs = _
      rw [hm, setCells_pre' _ _ _ _ h]
    · simp; omega
  · cases hp

theorem parse_end (tail : Bytes) : parseAll (0x66 :: tail) = some ([], tail) := by
  rw [parseAll]; simp [parseCmd]

theorem emits_end {body : Bytes} {cs} (h : Emits body cs) (tail : Bytes) :
    parseAll (body ++ 0x66 :: tail) = some (cs, tail) := by
  rw [h, parse_end]; simp

/-- `stop`: the pending wait is flushed, the end marker follows, the header pokes leave the
stream alone; every cell is determinate and the reader gets exactly `cs'` -/
theorem stop_inv {s s' : W} {pre body : Bytes} {cs} (inv : StreamInv s pre body cs) (h : stop s = .ok s') :
    ∃ (pre' body' : Bytes) (cs' : List (Nat × Cmd)), s'.mem = pre'.map some ++ (body' ++ [0x66]).map some ∧ pre'.length = pre.length ∧
      (∀ tail, parseAll (body' ++ 0x66 :: tail) = some (cs', tail)) ∧
      s'.samples = waits cs' % 4294967296 ∧ waits cs' = waits cs + s.pending ∧ s'.completed = true := by
  unfold stop at h
  cases h1 : addDelay s with
  | error e => rw [h1] at h; cases h
  | ok s1 =>
    obtain ⟨inv1, _, _, _⟩ := addDelay_inv inv h1
    obtain ⟨s2, h2, _, m2⟩ := reserve_put s1 Tables.vgm_reserve_stop [0x66] inv1.safe.1 (by simp [Tables.vgm_reserve_stop])
    have hs2 : s2.samples = s1.samples := by
      unfold put at h2; split at h2 <;> cases h2; rfl
    have hm2 : s2.mem = pre.map some ++ ((body ++ delayBytes s.pending).map some ++ [some 0x66]) := by
      rw [m2, inv1.mem]; simp
    have hpre := inv.pre36
    simp only [h1, h2, bind, Except.bind] at h
    cases h3 : poke32 s2 0x18 s2.samples with
    | error e => rw [h3] at h; cases h
    | ok s3 =>
      rw [h3] at h
      obtain ⟨m3, l3, sm3, _, _⟩ := poke_mem hm2 0x18 _ (by simp; omega) h3
      generalize List.take 0x18 pre ++ le32 s2.samples ++ List.drop (0x18 + (le32 s2.samples).length) pre = p3 at m3 l3
      have hw : waits (cs ++ delayCmds s.pending) = waits cs + s.pending := by rw [waits_append, waits_delayCmds]
      by_cases hl : s3.loopSet = true
      · simp only [hl, if_true] at h
        cases h4 : poke32 s3 0x20 ((s3.samples + 4294967296 - s3.loopSample) % 4294967296) with
        | error e => rw [h4] at h; cases h
        | ok s4 =>
          rw [h4] at h; cases h
          obtain ⟨m4, l4, sm4, _, _⟩ := poke_mem m3 0x20 _ (by simp; omega) h4
          generalize List.take 0x20 p3 ++ le32 ((s3.samples + 4294967296 - s3.loopSample) % 4294967296) ++
            List.drop (0x20 + (le32 ((s3.samples + 4294967296 - s3.loopSample) % 4294967296)).length) p3 = p4 at m4 l4
          refine ⟨p4, body ++ delayBytes s.pending, _, ?_, ?_, emits_end inv1.emits, ?_, hw, rfl⟩
          · show s4.mem = _; rw [m4]; simp
          · rw [l4, l3]
          · show s4.samples = _; rw [sm4, sm3, hs2, inv1.samp]
      · simp only [hl] at h
        cases h
        refine ⟨p3, body ++ delayBytes s.pending, _, ?_, l3, emits_end inv1.emits, ?_, hw, rfl⟩
        · show s3.mem = _; rw [m3]; simp
        · show s3.samples = _; rw [sm3, hs2, inv1.samp]

theorem xsteps_inv (xs : List XOp) {s s' : W} {pre body : Bytes} {cs} (hv : ∀ x ∈ xs, x.valid)
    (inv : StreamInv s pre body cs) (h : steps s (xs.map XOp.toOp) = .ok s') :
    ∃ (pre' body' : Bytes) (cs' : List (Nat × Cmd)), StreamInv s' pre' body' cs' ∧ pre'.length = pre.length ∧
      waits cs' + s'.pending = waits cs + s.pending + (xs.map XOp.delayOf).sum := by
  induction xs generalizing s pre body cs with
  | nil => cases h; exact ⟨pre, body, cs, inv, rfl, by simp⟩
  | cons x xs ih =>
    simp only [List.map_cons, steps] at h
    cases h1 : step s x.toOp with
    | error e => rw [h1] at h; cases h
    | ok s1 =>
      rw [h1] at h
      obtain ⟨p1, b1, c1, inv1, l1, w1⟩ := xstep_inv x (hv x (by simp)) inv h1
      obtain ⟨p2, b2, c2, inv2, l2, w2⟩ := ih (fun y hy => hv y (by simp [hy])) inv1 h
      exact ⟨p2, b2, c2, inv2, by rw [l2, l1], by simp only [List.map_cons, List.sum_cons]; omega⟩


theorem cellsToBytes_err (m : List Cell) (e : Err) (h : cellsToBytes m = .error e) (he : e = .heapOverflow) : False := by
  induction m with
  | nil => cases h
  | cons c r ih =>
    cases c with
    | none => simp [cellsToBytes] at h; rw [← h] at he; cases he
    | some b =>
      simp only [cellsToBytes, Except.map] at h
      split at h
      · rename_i e' he'; cases h; exact ih he'
      · cases h

theorem ctor_inv (version headerSize : Nat) (h1 : 0x38 ≤ headerSize) (h2 : headerSize ≤ initialAlloc) :
    ∃ s pre, ctor version headerSize = .ok s ∧ StreamInv s pre [] [] ∧ pre.length = headerSize ∧ s.pending = 0 := by
  unfold ctor
  simp only [show ¬ headerSize < 0x38 from by omega, show ¬ headerSize > initialAlloc from by omega, if_false]
  have h0 : (List.range headerSize).map fresh = (List.replicate headerSize (0 : UInt8)).map some ++ [] := by
    rw [List.append_nil]
    apply List.ext_getElem
    · simp
    · intro i hi1 hi2
      simp at hi1
      simp [fresh]; omega
  obtain ⟨p1, hp1, hl1⟩ : ∃ p1 : Bytes, setCells ((List.replicate headerSize (0 : UInt8)).map some ++ []) 0 [0x56, 0x67, 0x6d, 0x20] =
      p1.map some ++ [] ∧ p1.length = headerSize :=
    ⟨_, setCells_pre' _ _ _ _ (by simp; omega), by simp; omega⟩
  obtain ⟨p2, hp2, hl2⟩ : ∃ p2 : Bytes, setCells (p1.map some ++ []) 8 [byteOf version, 0x01] =
      p2.map some ++ [] ∧ p2.length = headerSize :=
    ⟨_, setCells_pre' _ _ _ _ (by simp; omega), by simp; omega⟩
  obtain ⟨p3, hp3, hl3⟩ : ∃ p3 : Bytes, setCells (p2.map some ++ []) 0x34 (le32 (headerSize - 0x34)) =
      p3.map some ++ [] ∧ p3.length = headerSize :=
    ⟨_, setCells_pre' _ _ _ _ (by simp; omega), by simp; omega⟩
  rw [h0, hp1, hp2, hp3]
  refine ⟨_, p3, rfl, ⟨by simp, by omega, Emits.nil, by simp [waits], ⟨⟨?_, ?_⟩, ?_⟩⟩, hl3, rfl⟩
  · show (List.map some p3 ++ []).length ≤ initialAlloc
    simp; omega
  · show 0 < initialAlloc
    decide
  · show (0 : Nat) < 4294967296
    omega

end Ctrmml.Vgm
