/-
  C09, reader tie (7): which operands `opsOf` holds — every decoded index operand is the (offset)
  argument of an index-bearing event of the list, and every such event that emits a byte is
  decoded.
-/
import Ctrmml.Proofs.MdsReadTrack
namespace Ctrmml.MdsRead
open Ctrmml Ctrmml.Mds Ctrmml.Seq Ctrmml.SeqWf Ctrmml.MdsResolve Ctrmml.Codec Tables

/-- what one decoder step can record -/
theorem stepI_new {b : Nat} {r : List Nat} {s : Bool × List Op} {o : Op} (h : o ∈ (stepI (b :: r) s).2) :
    o ∈ s.2 ∨ (b = mds_DMFINISH ∧ o = .dmfinish (r.headD 0)) ∨
      (mds_NOTE ≤ b ∧ b < mds_SLR ∧ (o = .drumNote (b - mds_NOTE) ∨ o = .note (b - mds_NOTE))) ∨
      (b = mds_INS ∧ o = .ins (r.headD 0)) ∨ (b = mds_PCM ∧ o = .pcm (r.headD 0)) ∨ (b = mds_PEG ∧ o = .peg (r.headD 0)) ∨
      (b = mds_MTAB ∧ o = .mtab (r.headD 0)) ∨ (b = mds_PAT ∧ o = .pat (r.headD 0)) := by
  simp only [stepI, act] at h
  by_cases c1 : b = mds_FINISH
  · simp only [if_pos c1] at h; exact .inl (by simpa using h)
  by_cases c2 : b = mds_JUMP
  · simp only [if_neg c1, if_pos c2] at h; exact .inl (by simpa using h)
  by_cases c3 : b = mds_DMFINISH
  · simp only [if_neg c1, if_neg c2, if_pos c3] at h
    simp only [Option.toList_some, List.singleton_append, List.mem_cons] at h
    rcases h with h | h
    · exact .inr (.inl ⟨c3, h⟩)
    · exact .inl h
  by_cases c4 : mds_NOTE ≤ b ∧ b < mds_SLR
  · simp only [if_neg c1, if_neg c2, if_neg c3, if_pos c4] at h
    simp only [Option.toList_some, List.singleton_append, List.mem_cons] at h
    rcases h with h | h
    · refine .inr (.inr (.inl ⟨c4.1, c4.2, ?_⟩))
      cases hd : s.1 <;> simp [hd] at h
      · exact .inr h
      · exact .inl h
    · exact .inl h
  by_cases c5 : b = mds_INS
  · simp only [if_neg c1, if_neg c2, if_neg c3, if_neg c4, if_pos c5, Option.toList_some, List.singleton_append, List.mem_cons] at h
    rcases h with h | h
    · exact .inr (.inr (.inr (.inl ⟨c5, h⟩)))
    · exact .inl h
  by_cases c6 : b = mds_PCM
  · simp only [if_neg c1, if_neg c2, if_neg c3, if_neg c4, if_neg c5, if_pos c6, Option.toList_some, List.singleton_append, List.mem_cons] at h
    rcases h with h | h
    · exact .inr (.inr (.inr (.inr (.inl ⟨c6, h⟩))))
    · exact .inl h
  by_cases c7 : b = mds_PEG
  · simp only [if_neg c1, if_neg c2, if_neg c3, if_neg c4, if_neg c5, if_neg c6, if_pos c7, Option.toList_some, List.singleton_append,
      List.mem_cons] at h
    rcases h with h | h
    · exact .inr (.inr (.inr (.inr (.inr (.inl ⟨c7, h⟩)))))
    · exact .inl h
  by_cases c8 : b = mds_MTAB
  · simp only [if_neg c1, if_neg c2, if_neg c3, if_neg c4, if_neg c5, if_neg c6, if_neg c7, if_pos c8, Option.toList_some,
      List.singleton_append, List.mem_cons] at h
    rcases h with h | h
    · exact .inr (.inr (.inr (.inr (.inr (.inr (.inl ⟨c8, h⟩))))))
    · exact .inl h
  by_cases c9 : b = mds_PAT
  · simp only [if_neg c1, if_neg c2, if_neg c3, if_neg c4, if_neg c5, if_neg c6, if_neg c7, if_neg c8, if_pos c9, Option.toList_some,
      List.singleton_append, List.mem_cons] at h
    rcases h with h | h
    · exact .inr (.inr (.inr (.inr (.inr (.inr (.inr ⟨c9, h⟩))))))
    · exact .inl h
  · simp only [if_neg c1, if_neg c2, if_neg c3, if_neg c4, if_neg c5, if_neg c6, if_neg c7, if_neg c8, if_neg c9] at h
    left
    by_cases c10 : b = mds_FLG ∧ r.headD 0 < 0x80
    · simp only [if_pos c10] at h; simpa using h
    · simp only [if_neg c10] at h; simpa using h

/-- a decoder step only adds to what was recorded -/
theorem stepI_mono (i : Ins) (s : Bool × List Op) {o : Op} (h : o ∈ s.2) : o ∈ (stepI i s).2 := by
  cases i with
  | nil => exact h
  | cons b r =>
    simp only [stepI]
    split <;> simp [h]

theorem runI_mono (I : List Ins) (s : Bool × List Op) {o : Op} (h : o ∈ s.2) : o ∈ (runI I s).2 := by
  induction I generalizing s with
  | nil => exact h
  | cons i I ih => rw [runI_cons]; exact ih _ (stepI_mono i s h)

theorem mem_runI {I : List Ins} {s : Bool × List Op} {o : Op} (h : o ∈ (runI I s).2) :
    o ∈ s.2 ∨ ∃ i ∈ I, ∃ s', o ∈ (stepI i s').2 ∧ o ∉ s'.2 := by
  induction I generalizing s with
  | nil => exact .inl h
  | cons i I ih =>
    rw [runI_cons] at h
    rcases ih h with h1 | ⟨j, hj, s', h2, h3⟩
    · by_cases hs : o ∈ s.2
      · exact .inl hs
      · exact .inr ⟨i, by simp, s, h1, hs⟩
    · exact .inr ⟨j, by simp [hj], s', h2, h3⟩

theorem evIns_head {nS nM : Nat} {ev : MEv} {b : Nat} {r : List Nat} (h : evIns nS nM ev = b :: r) : b = ev.type := by
  unfold evIns at h
  repeat' split at h
  all_goals first | (injection h with h _; exact h.symm) | cases h

/-- the operand byte of an index-bearing event -/
theorem evIns_pat {nS nM : Nat} {ev : MEv} (h : ev.type = mds_PAT) : evIns nS nM ev = [mds_PAT, ev.arg % 256] := by
  simp [evIns, h, mds_PAT, mds_SLR]
theorem evIns_ins {nS nM : Nat} {ev : MEv} (h : ev.type = mds_INS) : evIns nS nM ev = [mds_INS, (nS + nM + ev.arg) % 256] := by
  simp [evIns, h, mds_INS, mds_MTAB, mds_SLR, byteArgOps, mds_PAT, mds_VOL, mds_VOLM, mds_TRS, mds_TRSM,
    mds_DTN, mds_PTA, mds_PAN, mds_LFO, mds_FLG, mds_DMFINISH, mds_COMM, mds_TEMPO, mds_PCMRATE, mds_PCMMODE]
theorem evIns_pcm {nS nM : Nat} {ev : MEv} (h : ev.type = mds_PCM) : evIns nS nM ev = [mds_PCM, (nS + nM + ev.arg) % 256] := by
  simp [evIns, h, mds_PCM, mds_INS, mds_MTAB, mds_SLR, byteArgOps, mds_PAT, mds_VOL, mds_VOLM, mds_TRS, mds_TRSM,
    mds_DTN, mds_PTA, mds_PAN, mds_LFO, mds_FLG, mds_DMFINISH, mds_COMM, mds_TEMPO, mds_PCMRATE, mds_PCMMODE]
theorem evIns_peg {nS nM : Nat} {ev : MEv} (h : ev.type = mds_PEG) :
    evIns nS nM ev = [mds_PEG, if ev.arg ≠ 0 then (nS + nM + ev.arg) % 256 else 0] := by
  simp [evIns, h, mds_PEG, mds_PCM, mds_INS, mds_MTAB, mds_SLR, byteArgOps, mds_PAT, mds_VOL, mds_VOLM, mds_TRS, mds_TRSM,
    mds_DTN, mds_PTA, mds_PAN, mds_LFO, mds_FLG, mds_DMFINISH, mds_COMM, mds_TEMPO, mds_PCMRATE, mds_PCMMODE]
theorem evIns_mtab {nS nM : Nat} {ev : MEv} (h : ev.type = mds_MTAB) :
    evIns nS nM ev = [mds_MTAB, if ev.arg ≠ 0 then (ev.arg + nS) % 256 else 0] := by
  simp [evIns, h, mds_MTAB, mds_SLR, byteArgOps, mds_PAT, mds_VOL, mds_VOLM, mds_TRS, mds_TRSM,
    mds_DTN, mds_PTA, mds_PAN, mds_LFO, mds_FLG, mds_DMFINISH, mds_COMM, mds_TEMPO, mds_PCMRATE, mds_PCMMODE]
theorem evIns_note {nS nM : Nat} {ev : MEv} (h1 : mds_NOTE ≤ ev.type) (h2 : ev.type < mds_SLR) (ha : ev.arg ≠ 0) :
    evIns nS nM ev = [ev.type] := by
  have : mds_REST ≤ ev.type := by simp [mds_REST, mds_NOTE] at *; omega
  simp [evIns, h2, this, ha]

/-- **every decoded index operand is the offset argument of an event of the list** -/
theorem mem_opsOf {nS nM : Nat} {es : List MEv} {drum : Bool} {o : Op} (h : o ∈ opsOf nS nM es drum) :
    ∃ ev ∈ es,
      (o = .pat (ev.arg % 256) ∧ ev.type = mds_PAT) ∨
      (o = .ins ((nS + nM + ev.arg) % 256) ∧ ev.type = mds_INS) ∨
      (o = .pcm ((nS + nM + ev.arg) % 256) ∧ ev.type = mds_PCM) ∨
      (o = .peg (if ev.arg ≠ 0 then (nS + nM + ev.arg) % 256 else 0) ∧ ev.type = mds_PEG) ∨
      (o = .mtab (if ev.arg ≠ 0 then (ev.arg + nS) % 256 else 0) ∧ ev.type = mds_MTAB) ∨
      (ev.type = mds_DMFINISH ∧ o = .dmfinish (ev.arg % 256)) ∨
      (mds_NOTE ≤ ev.type ∧ ev.type < mds_SLR ∧ ev.arg ≠ 0 ∧ (o = .drumNote (ev.type - mds_NOTE) ∨ o = .note (ev.type - mds_NOTE))) := by
  unfold opsOf at h
  rw [List.mem_reverse] at h
  rcases mem_runI h with h0 | ⟨i, hi, s', h1, h2⟩
  · cases h0
  obtain ⟨ev, hev, rfl⟩ := List.mem_map.mp hi
  refine ⟨ev, hev, ?_⟩
  cases hins : evIns nS nM ev with
  | nil => rw [hins] at h1; exact absurd h1 h2
  | cons b r =>
    have hb := evIns_head hins
    rw [hins] at h1
    rcases stepI_new h1 with h3 | ⟨hb', ho⟩ | ⟨n1, n2, ho⟩ | ⟨hb', ho⟩ | ⟨hb', ho⟩ | ⟨hb', ho⟩ | ⟨hb', ho⟩ | ⟨hb', ho⟩
    · exact absurd h3 h2
    · right; right; right; right; right; left
      rw [hb] at hb'
      have : evIns nS nM ev = [mds_DMFINISH, ev.arg % 256] := by
        simp [evIns, hb', mds_DMFINISH, mds_SLR, byteArgOps]
      rw [this] at hins; injection hins with _ hr; subst hr
      exact ⟨hb', ho⟩
    · right; right; right; right; right; right
      rw [hb] at n1 n2 ho
      have ha : ev.arg ≠ 0 := by
        intro ha
        have : evIns nS nM ev = [] := by simp [evIns, n2, ha]
        rw [this] at hins; cases hins
      exact ⟨n1, n2, ha, ho⟩
    · right; left
      rw [hb] at hb'; rw [evIns_ins hb'] at hins; injection hins with _ hr; subst hr
      exact ⟨ho, hb'⟩
    · right; right; left
      rw [hb] at hb'; rw [evIns_pcm hb'] at hins; injection hins with _ hr; subst hr
      exact ⟨ho, hb'⟩
    · right; right; right; left
      rw [hb] at hb'; rw [evIns_peg hb'] at hins; injection hins with _ hr; subst hr
      exact ⟨ho, hb'⟩
    · right; right; right; right; left
      rw [hb] at hb'; rw [evIns_mtab hb'] at hins; injection hins with _ hr; subst hr
      exact ⟨ho, hb'⟩
    · left
      rw [hb] at hb'; rw [evIns_pat hb'] at hins; injection hins with _ hr; subst hr
      exact ⟨ho, hb'⟩

/-- an instruction that records `o` whatever the state, somewhere in the list -/
theorem runI_records {I : List Ins} {i : Ins} (hi : i ∈ I) {o : Op} (h : ∀ s, o ∈ (stepI i s).2) (s : Bool × List Op) :
    o ∈ (runI I s).2 := by
  induction I generalizing s with
  | nil => cases hi
  | cons j I ih =>
    rw [runI_cons]
    rcases List.mem_cons.mp hi with rfl | hi'
    · exact runI_mono I _ (h s)
    · exact ih hi' _

theorem stepI_records_pat (k : Nat) (s : Bool × List Op) : Op.pat k ∈ (stepI [mds_PAT, k] s).2 := by
  simp [stepI, act, mds_PAT, mds_FINISH, mds_JUMP, mds_DMFINISH, mds_NOTE, mds_SLR, mds_INS, mds_PCM, mds_PEG, mds_MTAB]
theorem stepI_records_ins (k : Nat) (s : Bool × List Op) : Op.ins k ∈ (stepI [mds_INS, k] s).2 := by
  simp [stepI, act, mds_FINISH, mds_JUMP, mds_DMFINISH, mds_NOTE, mds_SLR, mds_INS]
theorem stepI_records_pcm (k : Nat) (s : Bool × List Op) : Op.pcm k ∈ (stepI [mds_PCM, k] s).2 := by
  simp [stepI, act, mds_FINISH, mds_JUMP, mds_DMFINISH, mds_NOTE, mds_SLR, mds_INS, mds_PCM]
theorem stepI_records_peg (k : Nat) (s : Bool × List Op) : Op.peg k ∈ (stepI [mds_PEG, k] s).2 := by
  simp [stepI, act, mds_FINISH, mds_JUMP, mds_DMFINISH, mds_NOTE, mds_SLR, mds_INS, mds_PCM, mds_PEG]
theorem stepI_records_mtab (k : Nat) (s : Bool × List Op) : Op.mtab k ∈ (stepI [mds_MTAB, k] s).2 := by
  simp [stepI, act, mds_FINISH, mds_JUMP, mds_DMFINISH, mds_NOTE, mds_SLR, mds_INS, mds_PCM, mds_PEG, mds_MTAB]
theorem stepI_records_note {t : Nat} (h1 : mds_NOTE ≤ t) (h2 : t < mds_SLR) (s : Bool × List Op) :
    Op.drumNote (t - mds_NOTE) ∈ (stepI [t] s).2 ∨ Op.note (t - mds_NOTE) ∈ (stepI [t] s).2 := by
  have n1 : t ≠ mds_FINISH := by simp [mds_FINISH, mds_SLR] at *; omega
  have n2 : t ≠ mds_JUMP := by simp [mds_JUMP, mds_SLR] at *; omega
  have n3 : t ≠ mds_DMFINISH := by simp [mds_DMFINISH, mds_SLR] at *; omega
  simp only [stepI, act, n1, n2, n3, if_false, h1, h2, and_self, if_true, Option.toList_some]
  cases s.1 <;> simp

/-- **every index-bearing event that emits a byte is decoded** (`ev` anywhere in the list) -/
theorem opsOf_records {nS nM : Nat} {es : List MEv} {ev : MEv} (hev : ev ∈ es) (drum : Bool) :
    (ev.type = mds_PAT → Op.pat (ev.arg % 256) ∈ opsOf nS nM es drum) ∧
    (ev.type = mds_INS → Op.ins ((nS + nM + ev.arg) % 256) ∈ opsOf nS nM es drum) ∧
    (ev.type = mds_PCM → Op.pcm ((nS + nM + ev.arg) % 256) ∈ opsOf nS nM es drum) ∧
    (ev.type = mds_PEG → Op.peg (if ev.arg ≠ 0 then (nS + nM + ev.arg) % 256 else 0) ∈ opsOf nS nM es drum) ∧
    (ev.type = mds_MTAB → Op.mtab (if ev.arg ≠ 0 then (ev.arg + nS) % 256 else 0) ∈ opsOf nS nM es drum) := by
  have hmem : evIns nS nM ev ∈ es.map (evIns nS nM) := List.mem_map.mpr ⟨ev, hev, rfl⟩
  unfold opsOf
  simp only [List.mem_reverse]
  refine ⟨fun h => ?_, fun h => ?_, fun h => ?_, fun h => ?_, fun h => ?_⟩
  · exact runI_records hmem (by rw [evIns_pat h]; exact stepI_records_pat _) _
  · exact runI_records hmem (by rw [evIns_ins h]; exact stepI_records_ins _) _
  · exact runI_records hmem (by rw [evIns_pcm h]; exact stepI_records_pcm _) _
  · exact runI_records hmem (by rw [evIns_peg h]; exact stepI_records_peg _) _
  · exact runI_records hmem (by rw [evIns_mtab h]; exact stepI_records_mtab _) _

theorem runI_records_or {I : List Ins} {i : Ins} (hi : i ∈ I) {o1 o2 : Op}
    (h : ∀ s, o1 ∈ (stepI i s).2 ∨ o2 ∈ (stepI i s).2) (s : Bool × List Op) : o1 ∈ (runI I s).2 ∨ o2 ∈ (runI I s).2 := by
  induction I generalizing s with
  | nil => cases hi
  | cons j I ih =>
    rw [runI_cons]
    rcases List.mem_cons.mp hi with rfl | hi'
    · rcases h s with h1 | h1
      · exact .inl (runI_mono I _ h1)
      · exact .inr (runI_mono I _ h1)
    · exact ih hi' _

/-- a note of non-zero length is decoded as a note instruction (a drum-routine call when the
decoder's drum flag is set) -/
theorem opsOf_records_note {nS nM : Nat} {es : List MEv} {ev : MEv} (hev : ev ∈ es) (h1 : mds_NOTE ≤ ev.type)
    (h2 : ev.type < mds_SLR) (ha : ev.arg ≠ 0) (drum : Bool) :
    Op.drumNote (ev.type - mds_NOTE) ∈ opsOf nS nM es drum ∨ Op.note (ev.type - mds_NOTE) ∈ opsOf nS nM es drum := by
  have hmem : evIns nS nM ev ∈ es.map (evIns nS nM) := List.mem_map.mpr ⟨ev, hev, rfl⟩
  unfold opsOf
  simp only [List.mem_reverse]
  exact runI_records_or hmem (by rw [evIns_note h1 h2 ha]; exact stepI_records_note h1 h2) _

end Ctrmml.MdsRead
