/- Helper definitions and lemmas for Properties/C15 about the stages of the pipeline model that
are hypotheses of the composite theorem, and the parse stage (a theorem: Proofs/PipelineParse). -/
import Ctrmml.Proofs.PipelineValidate
import Ctrmml.Proofs.PipelineParse
import Ctrmml.Proofs.PipelineNoEnd
import Ctrmml.Proofs.PipelineOpt
import Ctrmml.Proofs.PipelineMds
namespace Ctrmml.Pipeline
open Ctrmml

/-- the parse stage is routed for every text: `readLines_routed` on the outcome type -/
theorem parseStage_routed (text : List Nat) : (parseStage text).routed := by
  have h := MmlFix.readLines_routed (splitLines text) 0 Mml.MmlState.init
  unfold parseStage
  cases hr : MmlFix.readLines 0 (splitLines text) Mml.MmlState.init with
  | ok a s' => trivial
  | err e s' =>
    rw [hr] at h
    cases e with
    | input m r => exact h
    | foreign k => exact h.elim

theorem kind_fin_type (t : Nat) (h : kindOfType t = .fin) : t = Tables.ev_END := by
  unfold kindOfType at h
  repeat' split at h
  all_goals first | assumption | cases h

/-- the reader emits no explicit `END` event: every parsed song is in the domain of C04 -/
theorem parseStage_noEnd (text : List Nat) (st : Mml.MmlState) (h : parseStage text = .ok st) :
    hasEndEvent (songOf st) = false := by
  have hs : Mml.SOk st := by
    have hp := (MmlFix.pres_readLines (splitLines text) 0).pres Mml.MmlState.init (by intro p hp; simp [Mml.MmlState.init] at hp)
    unfold parseStage at h
    cases hr : MmlFix.readLines 0 (splitLines text) Mml.MmlState.init with
    | ok a s' =>
      rw [hr] at h hp
      injection h with h
      subst h
      exact hp
    | err e s' =>
      rw [hr] at h
      cases e <;> cases h
  cases hb : hasEndEvent (songOf st) with
  | false => rfl
  | true =>
    exfalso
    unfold hasEndEvent at hb
    rw [List.any_eq_true] at hb
    obtain ⟨p, hp, hb⟩ := hb
    rw [List.any_eq_true] at hb
    obtain ⟨e, he, hk⟩ := hb
    simp only [songOf, Refs.rsongOf, Refs.RSong.erase, List.map_map, List.mem_map] at hp
    obtain ⟨q, hq, rfl⟩ := hp
    simp only [Function.comp, Refs.eraseTrack, List.mem_map] at he
    obtain ⟨be, hbe, rfl⟩ := he
    have hty : be.type ≠ Tables.ev_END := by
      apply hs q hq be
      simpa [TrackBuilder.Track.events] using hbe
    apply hty
    apply kind_fin_type
    have : (TrackBuilder.BEvent.toEvent be).kind = Kind.fin := by simpa using hk
    exact this

/-! ### the optimise stage: a theorem on `OptDomain` -/

/-- the parsed song of the text (if it parses) satisfies the side conditions of the optimise stage -/
def OptInDomain (text : List Nat) : Prop := ∀ st, parseStage text = .ok st → OptDomain (songOf st)

/-- the same as a check -/
def inOptDomainB (text : List Nat) : Bool :=
  match parseStage text with
  | .ok st => decide (OptDomain (songOf st))
  | _ => true

theorem optInDomain_of_check (text : List Nat) (h : inOptDomainB text = true) : OptInDomain text := by
  intro st hst
  unfold inOptDomainB at h
  rw [hst] at h
  exact of_decide_eq_true h

/-! ### the errors of the converter model -/

/-- the errors of `read_song` -/
def dataErr : MdsFile.FErr → Prop
  | .data | .dataUnsupported => True
  | _ => False

theorem liftData_err {r : Except MdsData.Err MdsData.State} {e : MdsFile.FErr} (h : MdsFile.liftData r = .error e) : dataErr e := by
  unfold MdsFile.liftData at h
  split at h
  · cases h
  · cases h; trivial
  · cases h; trivial

theorem map_err {α β : Type} {r : Except MdsFile.FErr α} {f : α → β} {e : MdsFile.FErr} (h : r.map f = .error e) : r = .error e := by
  cases r with
  | error x => simpa [Except.map] using h
  | ok a => simp [Except.map] at h

theorem addInsPcm_err {files : List (String × Bytes)} {d : MdsFile.DState} {id : Nat} {tag : List String} {e : MdsFile.FErr}
    (h : MdsFile.addInsPcm files d id tag = .error e) : dataErr e := by
  unfold MdsFile.addInsPcm at h
  simp only at h
  repeat' split at h
  all_goals first | (cases h; trivial) | cases h

theorem readTags_err (files : List (String × Bytes)) :
    ∀ (tags : List (String × List String)) (d : MdsFile.DState) (e : MdsFile.FErr),
      MdsFile.readTags MdsData.Arith.float files d tags = .error e → dataErr e := by
  intro tags
  induction tags with
  | nil => intro d e h; cases h
  | cons kv rest ih =>
    intro d e h
    obtain ⟨key, tag⟩ := kv
    unfold MdsFile.readTags at h
    split at h
    · exact ih d e h
    · simp only at h
      split at h
      · rename_i x hx
        cases h
        split at hx
        · exact liftData_err (map_err hx)
        · split at hx
          · split at hx
            · exact addInsPcm_err hx
            · exact liftData_err (map_err hx)
          · exact liftData_err (map_err hx)
      · exact ih _ e h

theorem addEntries_err (nS nM : Nat) (bank : List (List Nat)) :
    ∀ (l : List (Nat × Nat)) (dblk : Riff.Riff) (e : MdsFile.FErr), Riff.isList dblk.type = true →
      MdsFile.addEntries nS nM bank dblk l = .error e → e = .bankIndex := by
  intro l
  induction l with
  | nil => intro dblk e _ h; cases h
  | cons p rest ih =>
    intro dblk e hl h
    obtain ⟨mapped, envId⟩ := p
    unfold MdsFile.addEntries at h
    split at h
    · cases h; rfl
    · rename_i dat _
      obtain ⟨r', hr, ht⟩ := addChunk_list hl
        (Riff.mk2 (if mapped < Tables.mdsFile_pcmTag then Tables.mdsFile_glob else Tables.mdsFile_pcmh)
          (le32 (MdsFile.entryId nS nM mapped envId) ++ MdsFile.toU8 dat))
      simp only [hr] at h
      exact ih r' e (by rw [ht]; exact hl) h

theorem getMds_err {b : MdsFile.Built} {bank : List (List Nat)} {group pcm : Bytes} {e : MdsFile.FErr}
    (h : MdsFile.getMds b bank group pcm = .error e) : e = .bankIndex := by
  unfold MdsFile.getMds at h
  obtain ⟨r1, h1, t1⟩ := addChunk_list (r := Riff.mk3 Riff.TYPE_RIFF Tables.mdsFile_MDS0) isList_riff
    (Riff.mk2 Tables.mdsFile_ver (MdsFile.toU8 [Tables.MDSDRV_SEQ_VERSION_MAJOR, Tables.MDSDRV_SEQ_VERSION_MINOR]))
  have l1 : Riff.isList r1.type = true := by rw [t1]; exact isList_riff
  obtain ⟨r2, h2, t2⟩ := addChunk_list l1 (Riff.mk2 Tables.mdsFile_grp group)
  have l2 : Riff.isList r2.type = true := by rw [t2]; exact l1
  obtain ⟨r3, h3, t3⟩ := addChunk_list l2 (Riff.mk2 Tables.mdsFile_seq (MdsFile.toU8 b.seq))
  have l3 : Riff.isList r3.type = true := by rw [t3]; exact l2
  simp only [h1, h2, h3, MdsFile.liftRiff, bind, Except.bind] at h
  cases hd : MdsFile.addEntries b.conv.subList.length b.conv.macroList.length bank (Riff.mk3 Riff.TYPE_LIST Tables.mdsFile_dblk)
      (MdsFile.usedSorted b.conv) with
  | error x =>
    rw [hd] at h
    simp only at h
    injection h with h
    rw [← h]
    exact addEntries_err _ _ _ _ _ _ isList_list hd
  | ok dblk =>
    rw [hd] at h
    simp only at h
    obtain ⟨r4, h4, t4⟩ := addChunk_list l3 dblk
    have l4 : Riff.isList r4.type = true := by rw [t4]; exact l3
    obtain ⟨r5, h5, _⟩ := addChunk_list l4 (Riff.mk2 Tables.mdsFile_pcmd pcm)
    simp only [h4, h5, pure, Except.pure] at h
    cases h

theorem exportMds_err (inp : MdsFile.Input) (e : MdsFile.FErr) (h : MdsFile.exportMds MdsData.Arith.float inp = .error e) :
    (∀ r, e ≠ .riff r) ∧ e ≠ .codec .atEmpty := by
  unfold MdsFile.exportMds at h
  split at h
  · rename_i e' he
    cases h
    have := readTags_err _ _ _ _ he
    exact ⟨fun r hr => (by rw [hr] at this; exact this), fun hr => (by rw [hr] at this; exact this)⟩
  · split at h
    · rename_i e' he
      cases h
      unfold MdsFile.construct at he
      split at he
      · cases he
        exact ⟨fun r hr => (by cases hr), fun hr => (by cases hr)⟩
      · have := assemble_err _ _ _ _ he
        refine ⟨fun r hr => ?_, fun hr => ?_⟩
        · rw [hr] at this; exact this
        · rw [hr] at this; exact this
    · split at h
      · rename_i e' he
        cases h
        rw [getMds_err he]
        exact ⟨fun r hr => (by cases hr), fun hr => (by cases hr)⟩
      · cases h

end Ctrmml.Pipeline
