/- Helper definitions and lemmas for Properties/C15 about the stages of the pipeline model that
are hypotheses of the composite theorem, and the parse stage (a theorem: Proofs/PipelineParse). -/
import Ctrmml.Proofs.PipelineValidate
import Ctrmml.Proofs.PipelineParse
import Ctrmml.Proofs.PipelineNoEnd
namespace Ctrmml.Pipeline
open Ctrmml

/-- the parse stage is routed for every text: `readLines_routed` on the outcome type -/
theorem parseStage_routed (text : List Nat) : (parseStage text).routed := by
  have h := MmlFix.readLines_routed (splitLines text) 0 Mml.MmlState.init
  unfold parseStage
  cases hr : MmlFix.readLines 0 (splitLines text) Mml.MmlState.init with
  | ok a s' => trivial
  | err e s' =>
    rw [hr] at h
    cases e with
    | input m r => exact h
    | foreign k => exact h.elim

theorem kind_fin_type (t : Nat) (h : kindOfType t = .fin) : t = Tables.ev_END := by
  unfold kindOfType at h
  repeat' split at h
  all_goals first | assumption | cases h

/-- the reader emits no explicit `END` event: every parsed song is in the domain of C04 -/
theorem parseStage_noEnd (text : List Nat) (st : Mml.MmlState) (h : parseStage text = .ok st) :
    hasEndEvent (songOf st) = false := by
  have hs : Mml.SOk st := by
    have hp := (MmlFix.pres_readLines (splitLines text) 0).pres Mml.MmlState.init (by intro p hp; simp [Mml.MmlState.init] at hp)
    unfold parseStage at h
    cases hr : MmlFix.readLines 0 (splitLines text) Mml.MmlState.init with
    | ok a s' =>
      rw [hr] at h hp
      injection h with h
      subst h
      exact hp
    | err e s' =>
      rw [hr] at h
      cases e <;> cases h
  cases hb : hasEndEvent (songOf st) with
  | false => rfl
  | true =>
    exfalso
    unfold hasEndEvent at hb
    rw [List.any_eq_true] at hb
    obtain ⟨p, hp, hb⟩ := hb
    rw [List.any_eq_true] at hb
    obtain ⟨e, he, hk⟩ := hb
    simp only [songOf, Refs.rsongOf, Refs.RSong.erase, List.map_map, List.mem_map] at hp
    obtain ⟨q, hq, rfl⟩ := hp
    simp only [Function.comp, Refs.eraseTrack, List.mem_map] at he
    obtain ⟨be, hbe, rfl⟩ := he
    have hty : be.type ≠ Tables.ev_END := by
      apply hs q hq be
      simpa [TrackBuilder.Track.events] using hbe
    apply hty
    apply kind_fin_type
    have : (TrackBuilder.BEvent.toEvent be).kind = Kind.fin := by simpa using hk
    exact this

/-! ### the stages that are hypotheses -/

/-- the converter model's undefined-behaviour / endless-loop constructors -/
def ferrIsUB : MdsFile.FErr → Bool
  | .codec _ | .headerWrap | .bankIndex | .riff _ => true
  | .writer .fuel | .writer (.player .fuel) | .writer (.player .impossible) => true
  | _ => false

/-- the mds export never ends in one of them -/
def MdsNoUB : Prop :=
  ∀ inp : MdsFile.Input, match MdsFile.exportMds MdsData.Arith.float inp with
    | .error e => ferrIsUB e = false
    | .ok _ => True

/-- what the composition assumes about the stages that are not (yet) under a theorem -/
structure StageHyps (u : Residual) (opt : Bool) (fmt : Format) : Prop where
  /-- the optimiser ends (enough passes) without indexing outside a stack list -/
  optimize : opt = true → ∀ song, ∃ S P, ∀ steps passes, steps ≥ S → passes ≥ P → (optimizeStage song steps passes).routed
  /-- only the mds export (formats `mds` and `link`) runs the converter -/
  mdsNoUB : fmt ≠ .vgm → MdsNoUB
  vgmPlay : ∀ inp d, (u.vgmPlay inp d).routed
  link : ∀ b, (u.link b).routed
  mdsGap : ∀ inp, (u.mdsGap inp).routed

theorem ferrOut_routed {α : Type} (inp : MdsFile.Input) (gap : MdsFile.Input → Out α) (hg : ∀ i, (gap i).routed)
    (e : MdsFile.FErr) (he : ferrIsUB e = false) : (ferrOut inp gap e).routed := by
  cases e with
  | data => simp [ferrOut, Out.routed]
  | dataUnsupported => exact hg inp
  | writer w =>
    cases w with
    | player p => cases p <;> first | (exact absurd he (by decide)) | (simp only [ferrOut, Out.routed]; exact playerMsg_ne_empty _)
    | fuel => simp [ferrIsUB] at he
    | _ => simp [ferrOut, Out.routed]
  | codec c => simp [ferrIsUB] at he
  | indexRange => simp [ferrOut, Out.routed]
  | headerWrap => simp [ferrIsUB] at he
  | seqTooLarge => simp [ferrOut, Out.routed]
  | bankIndex => simp [ferrIsUB] at he
  | riff r => simp [ferrIsUB] at he

theorem exportMdsStage_routed (u : Residual) {opt : Bool} {fmt : Format} (hu : StageHyps u opt fmt) (hf : fmt ≠ .vgm)
    (inp : MdsFile.Input) (gap : Bool) : (exportMdsStage u inp gap).routed := by
  unfold exportMdsStage
  split
  · exact hu.mdsGap inp
  · have h := hu.mdsNoUB hf inp
    split
    · trivial
    · rename_i e he
      rw [he] at h
      exact ferrOut_routed inp u.mdsGap hu.mdsGap e h

theorem exportVgmStage_routed (u : Residual) {opt : Bool} {fmt : Format} (hu : StageHyps u opt fmt) (inp : MdsFile.Input) :
    (exportVgmStage u inp).routed := by
  unfold exportVgmStage
  split
  · exact hu.vgmPlay _ _
  · simp [Out.routed]
  · exact hu.mdsGap inp


end Ctrmml.Pipeline
