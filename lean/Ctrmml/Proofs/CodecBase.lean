/-
  Base layer of the codec proofs (C02/C03): reachability for the spec interpreter
  `Seq.step`, one lemma per instruction form (what `step` does when the bytes at `pc` are
  known), monotonicity of the output, and the bridge from reachability to `Seq.run`.
-/
import Ctrmml.Model.MdsCodec
import Ctrmml.Spec.SeqInterp
namespace Ctrmml.Codec
open Ctrmml.Mds Ctrmml.Seq Tables

/-- `s2` is reached from `s` by zero or more interpreter steps -/
inductive Reach (seq : List Nat) (base mj : Nat) : St → St → Prop
  | refl (s : St) : Reach seq base mj s s
  | head {s s1 s2 : St} : step seq base mj s = .ok s1 → s.out.length ≤ s1.out.length →
      Reach seq base mj s1 s2 → Reach seq base mj s s2

theorem Reach.trans {seq base mj} {a b c : St} (h1 : Reach seq base mj a b) (h2 : Reach seq base mj b c) :
    Reach seq base mj a c := by
  induction h1 with
  | refl => exact h2
  | head hs hm _ ih => exact .head hs hm (ih h2)

theorem Reach.one {seq base mj} {a b : St} (h : step seq base mj a = .ok b) (hm : a.out.length ≤ b.out.length) :
    Reach seq base mj a b :=
  .head h hm (.refl _)

theorem Reach.out_mono {seq base mj} {a b : St} (h : Reach seq base mj a b) : a.out.length ≤ b.out.length := by
  induction h with
  | refl => exact Nat.le_refl _
  | head _ hm _ ih => exact Nat.le_trans hm ih

/-- the part of the interpreter state that linear instructions leave alone -/
structure Frame (s s' : St) : Prop where
  loops : s'.loops = s.loops
  calls : s'.calls = s.calls
  drum : s'.drum = s.drum
  jumps : s'.jumps = s.jumps

theorem Frame.rfl' (s : St) : Frame s s := ⟨rfl, rfl, rfl, rfl⟩
theorem Frame.trans {a b c : St} (h1 : Frame a b) (h2 : Frame b c) : Frame a c :=
  ⟨h2.loops.trans h1.loops, h2.calls.trans h1.calls, h2.drum.trans h1.drum, h2.jumps.trans h1.jumps⟩

/-! ### tick strings -/

def noteTicks (ty n : Nat) : List Tk :=
  if ty = mds_TIE then List.replicate n Tk.hold else Tk.on (ty - mds_NOTE) :: List.replicate (n - 1) Tk.hold

theorem emitNote_out (s : St) (ty len : Nat) : (emitNote s ty len).out = (noteTicks ty len).reverse ++ s.out := by
  simp [emitNote, noteTicks]

theorem noteTicks_split (ty m k : Nat) (hm : m ≥ 1) :
    noteTicks ty (m + k) = noteTicks ty m ++ noteTicks mds_TIE k := by
  unfold noteTicks
  by_cases h : ty = mds_TIE
  · simp [h, List.replicate_append_replicate]
  · simp [h]
    omega

theorem noteTicks_length (ty n : Nat) (hn : n ≥ 1) : (noteTicks ty n).length = n := by
  unfold noteTicks; split <;> simp <;> omega

/-! ### `step` on known bytes -/

variable {seq : List Nat} {base mj : Nat}

theorem step_restLit {s : St} {b : Nat} (h : seq[s.pc]? = some b) (hb : b < 0x80) :
    step seq base mj s =
      .ok { s with pc := s.pc + 1, lastRest := some b, out := List.replicate (b + 1) Tk.off ++ s.out } := by
  simp [step, rd, h, hb]

theorem step_restRep {s : St} {r : Nat} (h : seq[s.pc]? = some mds_REST) (hr : s.lastRest = some r) :
    step seq base mj s = .ok { s with pc := s.pc + 1, out := List.replicate (r + 1) Tk.off ++ s.out } := by
  simp [step, rd, h, hr, mds_REST]

theorem step_noteLen {s : St} {ty l : Nat} (h : seq[s.pc]? = some ty) (h1 : 0x81 ≤ ty) (h2 : ty < 0xe0)
    (hl : seq[s.pc + 1]? = some l) (hl' : l < 0x80) (hd : s.drum = false) :
    step seq base mj s = .ok (emitNote { s with pc := s.pc + 2, lastNote := some l } ty (l + 1)) := by
  have a1 : ¬ ty < 128 := by omega
  have a2 : ¬ ty = 128 := by omega
  have a3 : ty < 224 := by omega
  simp [step, rd, h, hl, hl', hd, a1, a2, a3, mds_REST, mds_SLR]

theorem step_noteBare {s : St} {ty l n : Nat} (h : seq[s.pc]? = some ty) (h1 : 0x81 ≤ ty) (h2 : ty < 0xe0)
    (hl : seq[s.pc + 1]? = some l) (hl' : ¬ l < 0x80) (hn : s.lastNote = some n) (hd : s.drum = false) :
    step seq base mj s = .ok (emitNote { s with pc := s.pc + 1 } ty (n + 1)) := by
  have a1 : ¬ ty < 128 := by omega
  have a2 : ¬ ty = 128 := by omega
  have a3 : ty < 224 := by omega
  simp [step, rd, h, hl, hl', hd, hn, a1, a2, a3, mds_REST, mds_SLR]

theorem step_slr {s : St} (h : seq[s.pc]? = some mds_SLR) :
    step seq base mj s = .ok { s with pc := s.pc + 1, out := Tk.cmd mds_SLR 0 :: s.out } := by
  simp [step, rd, h, mds_REST, mds_SLR]

/-- an argument byte of `FLG` that does not switch drum mode on -/
def drumSafe (a : Nat) : Bool := decide (a ≥ 0x80) || decide (a &&& 8 = 0)

theorem step_cmd1 {s : St} {op a : Nat} (h : seq[s.pc]? = some op) (hop : oneArgOps.contains op = true)
    (ha : seq[s.pc + 1]? = some a) (hf : op = mds_FLG → drumSafe a = true) (hd : s.drum = false) :
    step seq base mj s = .ok { s with pc := s.pc + 2, out := Tk.cmd op a :: s.out } := by
  have hmem : op ∈ oneArgOps := by simpa using hop
  have key : (if op = mds_FLG ∧ a < 0x80 then { s with drum := a &&& 8 ≠ 0 } else s) = s := by
    split
    · rename_i hc
      have := hf hc.1
      simp [drumSafe] at this
      rcases this with h' | h'
      · omega
      · cases s; simp_all
    · rfl
  have facts : ¬ op < 128 ∧ ¬ op = 128 ∧ ¬ op < 224 ∧ ¬ op = 224 ∧ ¬ op = 255 ∧ ¬ op = 247 ∧ ¬ op = 245 ∧
      ¬ op = 250 ∧ ¬ op = 251 ∧ ¬ op = 252 ∧ ¬ op = 253 ∧ ¬ op = 254 := by
    simp only [oneArgOps, List.mem_cons, List.mem_nil_iff, or_false] at hmem
    rcases hmem with rfl | rfl | rfl | rfl | rfl | rfl | rfl | rfl | rfl | rfl | rfl | rfl | rfl | rfl | rfl | rfl | rfl <;>
      decide
  obtain ⟨f1, f2, f3, f4, f5, f6, f7, f8, f9, f10, f11, f12⟩ := facts
  unfold step
  simp only [rd, h, ha, f1, f2, f3, f4, f5, f6, f7, f8, f9, f10, f11, f12, hop, key, mds_REST, mds_SLR, mds_FINISH,
    mds_DMFINISH, mds_JUMP, mds_LP, mds_LPF, mds_LPB, mds_LPBL, mds_PAT, if_false, if_true, or_self]

theorem step_cmd2 {s : St} {op hi lo : Nat} (h : seq[s.pc]? = some op) (hop : twoArgOps.contains op = true)
    (h1 : seq[s.pc + 1]? = some hi) (h2 : seq[s.pc + 1 + 1]? = some lo) :
    step seq base mj s = .ok { s with pc := s.pc + 3, out := Tk.cmd op (hi * 256 + lo) :: s.out } := by
  have hmem : op ∈ twoArgOps := by simpa using hop
  have facts : ¬ op < 128 ∧ ¬ op = 128 ∧ ¬ op < 224 ∧ ¬ op = 224 ∧ ¬ op = 255 ∧ ¬ op = 247 ∧ ¬ op = 245 ∧
      ¬ op = 250 ∧ ¬ op = 251 ∧ ¬ op = 252 ∧ ¬ op = 253 ∧ ¬ op = 254 ∧ ¬ op ∈ oneArgOps := by
    simp only [twoArgOps, List.mem_cons, List.mem_nil_iff, or_false] at hmem
    rcases hmem with rfl | rfl | rfl | rfl <;> decide
  obtain ⟨f1, f2, f3, f4, f5, f6, f7, f8, f9, f10, f11, f12, f13⟩ := facts
  unfold step
  simp [rd, rd16, h, h1, h2, f1, f2, f3, f4, f5, f6, f7, f8, f9, f10, f11, f12, f13, hmem, mds_REST, mds_SLR, mds_FINISH,
    mds_DMFINISH, mds_JUMP, mds_LP, mds_LPF, mds_LPB, mds_LPBL, mds_PAT]

theorem step_finish {s : St} (h : seq[s.pc]? = some mds_FINISH) (hc : s.calls = []) :
    step seq base mj s = .error .finished := by
  simp [step, rd, h, hc, mds_REST, mds_SLR, mds_FINISH]

theorem step_jump {s : St} {hi lo : Nat} (h : seq[s.pc]? = some mds_JUMP)
    (h1 : seq[s.pc + 1]? = some hi) (h2 : seq[s.pc + 1 + 1]? = some lo) :
    step seq base mj s =
      if s.jumps ≥ mj then .error .finished
      else .ok { s with pc := (s.pc + 3 + (hi * 256 + lo)) % 65536, jumps := s.jumps + 1, lastNote := none,
                        lastRest := none, out := Tk.loopMark :: s.out } := by
  simp [step, rd, rd16, h, h1, h2, mds_REST, mds_SLR, mds_FINISH, mds_DMFINISH, mds_JUMP]

theorem step_lp {s : St} (h : seq[s.pc]? = some mds_LP) :
    step seq base mj s = .ok { s with pc := s.pc + 1, loops := { start := s.pc + 1, count := 0 } :: s.loops } := by
  simp [step, rd, h, mds_REST, mds_SLR, mds_FINISH, mds_DMFINISH, mds_JUMP, mds_LP]

theorem step_lpf {s : St} {n : Nat} {f : LoopF} {fs : List LoopF} (h : seq[s.pc]? = some mds_LPF)
    (h1 : seq[s.pc + 1]? = some n) (hl : s.loops = f :: fs) :
    step seq base mj s =
      if (if f.count = 0 then n else f.count) - 1 > 0 then
        .ok { s with pc := f.start, loops := { f with count := (if f.count = 0 then n else f.count) - 1 } :: fs }
      else .ok { s with pc := s.pc + 2, loops := fs } := by
  simp [step, rd, h, h1, hl, mds_REST, mds_SLR, mds_FINISH, mds_DMFINISH, mds_JUMP, mds_LP, mds_LPF]

theorem step_lpb {s : St} {o : Nat} {f : LoopF} {fs : List LoopF} (h : seq[s.pc]? = some mds_LPB)
    (h1 : seq[s.pc + 1]? = some o) (hl : s.loops = f :: fs) :
    step seq base mj s =
      if f.count = 1 then .ok { s with pc := s.pc + 2 + o, loops := fs } else .ok { s with pc := s.pc + 2 } := by
  simp [step, rd, h, h1, hl, mds_REST, mds_SLR, mds_FINISH, mds_DMFINISH, mds_JUMP, mds_LP, mds_LPF, mds_LPB]

theorem step_lpbl {s : St} {hi lo : Nat} {f : LoopF} {fs : List LoopF} (h : seq[s.pc]? = some mds_LPBL)
    (h1 : seq[s.pc + 1]? = some hi) (h2 : seq[s.pc + 1 + 1]? = some lo) (hl : s.loops = f :: fs) :
    step seq base mj s =
      if f.count = 1 then .ok { s with pc := s.pc + 3 + (hi * 256 + lo), loops := fs }
      else .ok { s with pc := s.pc + 3 } := by
  simp [step, rd, rd16, h, h1, h2, hl, mds_REST, mds_SLR, mds_FINISH, mds_DMFINISH, mds_JUMP, mds_LP, mds_LPF, mds_LPB,
    mds_LPBL]

/-! ### from reachability to `run` -/

theorem run_of_reach {maxTicks : Nat} {s s' : St} {st : Stop} (h : Reach seq base mj s s')
    (he : step seq base mj s' = .error st) (hb : s'.out.length ≤ maxTicks) :
    ∃ n, ∀ fuel, fuel > n → run seq base mj maxTicks fuel s = (s'.out.reverse, st) := by
  induction h with
  | refl s =>
    refine ⟨0, fun fuel hf => ?_⟩
    obtain ⟨f, rfl⟩ : ∃ f, fuel = f + 1 := ⟨fuel - 1, by omega⟩
    have : ¬ (f % 64 = 0 ∧ s.out.length > maxTicks) := by omega
    simp [run, this, he]
  | @head s s1 s2 hs hm hr ih =>
    obtain ⟨n, hn⟩ := ih he hb
    refine ⟨n + 1, fun fuel hf => ?_⟩
    obtain ⟨f, rfl⟩ : ∃ f, fuel = f + 1 := ⟨fuel - 1, by omega⟩
    have h2 := hr.out_mono
    have : ¬ (f % 64 = 0 ∧ s.out.length > maxTicks) := by omega
    simp only [run, this, if_false, hs]
    exact hn f (by omega)

/-- whatever the fuel and the tick limit: a run along a path that ends in stop `st` can only
stop with `st`, run out of fuel, or hit the tick limit -/
theorem run_stop_of_reach {maxTicks : Nat} {s s' : St} {st : Stop} (h : Reach seq base mj s s')
    (he : step seq base mj s' = .error st) (fuel : Nat) :
    (run seq base mj maxTicks fuel s).2 = .fuel ∨ (run seq base mj maxTicks fuel s).2 = .tooManyTicks ∨
      (run seq base mj maxTicks fuel s).2 = st := by
  induction h generalizing fuel with
  | refl s =>
    cases fuel with
    | zero => exact .inl rfl
    | succ f =>
      by_cases hc : f % 64 = 0 ∧ s.out.length > maxTicks
      · right; left; simp [run, hc]
      · right; right; simp [run, hc, he]
  | @head s s1 s2 hs hm hr ih =>
    cases fuel with
    | zero => exact .inl rfl
    | succ f =>
      by_cases hc : f % 64 = 0 ∧ s.out.length > maxTicks
      · right; left; simp [run, hc]
      · simp only [run, hc, if_false, hs]; exact ih he f

/-- a run that stops the way its path ends produced exactly the path's output -/
theorem run_out_of_reach {maxTicks : Nat} {s s' : St} {st : Stop} (h : Reach seq base mj s s')
    (he : step seq base mj s' = .error st) (hst : st ≠ .fuel ∧ st ≠ .tooManyTicks) (fuel : Nat)
    (hr : (run seq base mj maxTicks fuel s).2 = st) : (run seq base mj maxTicks fuel s).1 = s'.out.reverse := by
  induction h generalizing fuel with
  | refl s =>
    cases fuel with
    | zero => simp [run] at hr; exact absurd hr.symm hst.1
    | succ f =>
      by_cases hc : f % 64 = 0 ∧ s.out.length > maxTicks
      · simp [run, hc] at hr; exact absurd hr.symm hst.2
      · simp [run, hc, he]
  | @head s s1 s2 hs hm hr' ih =>
    cases fuel with
    | zero => simp [run] at hr; exact absurd hr.symm hst.1
    | succ f =>
      by_cases hc : f % 64 = 0 ∧ s.out.length > maxTicks
      · simp [run, hc] at hr; exact absurd hr.symm hst.2
      · simp only [run, hc, if_false, hs] at hr ⊢
        exact ih he f hr

/-- what the caller needs to know about a subroutine stream starting at `t`: entered with any
state (drum mode off), it plays `T` and arrives at a `FINISH` with all stacks as on entry -/
def SubPlays (seq : List Nat) (base mj t : Nat) (T : List Tk) : Prop :=
  ∀ s0 : St, s0.pc = t → s0.drum = false →
    ∃ s1, Reach seq base mj s0 s1 ∧ Frame s0 s1 ∧ seq[s1.pc]? = some mds_FINISH ∧ s1.out = T.reverse ++ s0.out

end Ctrmml.Codec
