/-
  Base layer of the codec proofs (C02/C03): reachability for the spec interpreter
  `Seq.step`, one lemma per instruction form (what `step` does when the bytes at `pc` are
  known), monotonicity of the output, and the bridge from reachability to `Seq.run`.
-/
import Ctrmml.Model.MdsCodec
import Ctrmml.Spec.SeqInterp
namespace Ctrmml.Codec
open Ctrmml.Mds Ctrmml.Seq Tables

/-- `s2` is reached from `s` by zero or more interpreter steps -/
inductive Reach (seq : List Nat) (base mj : Nat) : St → St → Prop
  | refl (s : St) : Reach seq base mj s s
  | head {s s1 s2 : St} : step seq base mj s = .ok s1 → s.out.length ≤ s1.out.length →
      Reach seq base mj s1 s2 → Reach seq base mj s s2

theorem Reach.trans {seq base mj} {a b c : St} (h1 : Reach seq base mj a b) (h2 : Reach seq base mj b c) :
    Reach seq base mj a c := by
  induction h1 with
  | refl => exact h2
  | head hs hm _ ih => exact .head hs hm (ih h2)

theorem Reach.one {seq base mj} {a b : St} (h : step seq base mj a = .ok b) (hm : a.out.length ≤ b.out.length) :
    Reach seq base mj a b :=
  .head h hm (.refl _)

theorem Reach.out_mono {seq base mj} {a b : St} (h : Reach seq base mj a b) : a.out.length ≤ b.out.length := by
  induction h with
  | refl => exact Nat.le_refl _
  | head _ hm _ ih => exact Nat.le_trans hm ih

/-- the part of the interpreter state that linear instructions leave alone -/
structure Frame (s s' : St) : Prop where
  loops : s'.loops = s.loops
  calls : s'.calls = s.calls
  drum : s'.drum = s.drum
  jumps : s'.jumps = s.jumps

theorem Frame.rfl' (s : St) : Frame s s := ⟨rfl, rfl, rfl, rfl⟩
theorem Frame.trans {a b c : St} (h1 : Frame a b) (h2 : Frame b c) : Frame a c :=
  ⟨h2.loops.trans h1.loops, h2.calls.trans h1.calls, h2.drum.trans h1.drum, h2.jumps.trans h1.jumps⟩

/-- the same without the drum flag (which a `FLG` command at the top level of a track changes) -/
structure FrameX (s s' : St) : Prop where
  loops : s'.loops = s.loops
  calls : s'.calls = s.calls
  jumps : s'.jumps = s.jumps

theorem Frame.x {s s' : St} (f : Frame s s') : FrameX s s' := ⟨f.loops, f.calls, f.jumps⟩
theorem FrameX.rfl' (s : St) : FrameX s s := ⟨rfl, rfl, rfl⟩
theorem FrameX.trans {a b c : St} (h1 : FrameX a b) (h2 : FrameX b c) : FrameX a c :=
  ⟨h2.loops.trans h1.loops, h2.calls.trans h1.calls, h2.jumps.trans h1.jumps⟩
theorem FrameX.frame {s s' : St} (f : FrameX s s') (hd : s'.drum = s.drum) : Frame s s' :=
  ⟨f.loops, f.calls, hd, f.jumps⟩

/-! ### tick strings -/

def noteTicks (ty n : Nat) : List Tk :=
  if ty = mds_TIE then List.replicate n Tk.hold else Tk.on (ty - mds_NOTE) :: List.replicate (n - 1) Tk.hold

theorem emitNote_out (s : St) (ty len : Nat) : (emitNote s ty len).out = (noteTicks ty len).reverse ++ s.out := by
  simp [emitNote, noteTicks]

theorem noteTicks_split (ty m k : Nat) (hm : m ≥ 1) :
    noteTicks ty (m + k) = noteTicks ty m ++ noteTicks mds_TIE k := by
  unfold noteTicks
  by_cases h : ty = mds_TIE
  · simp [h, List.replicate_append_replicate]
  · simp [h]
    omega

theorem noteTicks_length (ty n : Nat) (hn : n ≥ 1) : (noteTicks ty n).length = n := by
  unfold noteTicks; split <;> simp <;> omega

/-! ### `step` on known bytes -/

variable {seq : List Nat} {base mj : Nat}

theorem step_restLit {s : St} {b : Nat} (h : seq[s.pc]? = some b) (hb : b < 0x80) :
    step seq base mj s =
      .ok { s with pc := s.pc + 1, lastRest := some b, out := List.replicate (b + 1) Tk.off ++ s.out } := by
  simp [step, rd, h, hb]

theorem step_restRep {s : St} {r : Nat} (h : seq[s.pc]? = some mds_REST) (hr : s.lastRest = some r) :
    step seq base mj s = .ok { s with pc := s.pc + 1, out := List.replicate (r + 1) Tk.off ++ s.out } := by
  simp [step, rd, h, hr, mds_REST]

theorem step_noteLen {s : St} {ty l : Nat} (h : seq[s.pc]? = some ty) (h1 : 0x81 ≤ ty) (h2 : ty < 0xe0)
    (hl : seq[s.pc + 1]? = some l) (hl' : l < 0x80) (hd : s.drum = false ∨ ty < mds_NOTE) :
    step seq base mj s = .ok (emitNote { s with pc := s.pc + 2, lastNote := some l } ty (l + 1)) := by
  have a1 : ¬ ty < 128 := by omega
  have a2 : ¬ ty = 128 := by omega
  have a3 : ty < 224 := by omega
  have a4 : ¬ (s.drum = true ∧ ty ≥ mds_NOTE) := by
    rintro ⟨x, y⟩; rcases hd with hd | hd
    · rw [hd] at x; cases x
    · omega
  simp [step, rd, h, hl, hl', a1, a2, a3, a4, mds_REST, mds_SLR]

theorem step_noteBare {s : St} {ty l n : Nat} (h : seq[s.pc]? = some ty) (h1 : 0x81 ≤ ty) (h2 : ty < 0xe0)
    (hl : seq[s.pc + 1]? = some l) (hl' : ¬ l < 0x80) (hn : s.lastNote = some n) (hd : s.drum = false ∨ ty < mds_NOTE) :
    step seq base mj s = .ok (emitNote { s with pc := s.pc + 1 } ty (n + 1)) := by
  have a1 : ¬ ty < 128 := by omega
  have a2 : ¬ ty = 128 := by omega
  have a3 : ty < 224 := by omega
  have a4 : ¬ (s.drum = true ∧ ty ≥ mds_NOTE) := by
    rintro ⟨x, y⟩; rcases hd with hd | hd
    · rw [hd] at x; cases x
    · omega
  simp [step, rd, h, hl, hl', hn, a1, a2, a3, a4, mds_REST, mds_SLR]

/-- a note byte with the drum flag set: the routine is called, the note's length and the caller's
registers go on the call stack -/
theorem step_drumLen {s : St} {ty l t : Nat} (h : seq[s.pc]? = some ty) (h1 : mds_NOTE ≤ ty) (h2 : ty < 0xe0)
    (hl : seq[s.pc + 1]? = some l) (hl' : l < 0x80) (hd : s.drum = true)
    (ht : slotTarget seq base (ty - mds_NOTE) = some t) :
    step seq base mj s = .ok { s with pc := t, lastNote := none, lastRest := none,
                                      calls := (s.pc + 2, some (l + 1, some l, s.lastRest)) :: s.calls } := by
  have h1' : 130 ≤ ty := h1
  have a1 : ¬ ty < 128 := by omega
  have a2 : ¬ ty = 128 := by omega
  have a3 : ty < 224 := by omega
  have a4 : ty ≥ mds_NOTE := h1
  simp [step, rd, h, hl, hl', hd, a1, a2, a3, a4, ht, mds_REST, mds_SLR]

theorem step_drumBare {s : St} {ty l n t : Nat} (h : seq[s.pc]? = some ty) (h1 : mds_NOTE ≤ ty) (h2 : ty < 0xe0)
    (hl : seq[s.pc + 1]? = some l) (hl' : ¬ l < 0x80) (hn : s.lastNote = some n) (hd : s.drum = true)
    (ht : slotTarget seq base (ty - mds_NOTE) = some t) :
    step seq base mj s = .ok { s with pc := t, lastNote := none, lastRest := none,
                                      calls := (s.pc + 1, some (n + 1, some n, s.lastRest)) :: s.calls } := by
  have h1' : 130 ≤ ty := h1
  have a1 : ¬ ty < 128 := by omega
  have a2 : ¬ ty = 128 := by omega
  have a3 : ty < 224 := by omega
  have a4 : ty ≥ mds_NOTE := h1
  simp [step, rd, h, hl, hl', hd, hn, a1, a2, a3, a4, ht, mds_REST, mds_SLR]

/-- the end of a drum routine: its note sounds with the caller's length, the caller's registers
come back -/
theorem step_dmfinish {s : St} {k ret len : Nat} {ln lr : Option Nat}
    {cs : List (Nat × Option (Nat × Option Nat × Option Nat))}
    (h : seq[s.pc]? = some mds_DMFINISH) (h1 : seq[s.pc + 1]? = some k) (hc : s.calls = (ret, some (len, ln, lr)) :: cs) :
    step seq base mj s =
      .ok (emitNote { s with pc := ret, calls := cs, lastNote := ln, lastRest := lr } (mds_NOTE + k) len) := by
  simp [step, rd, h, h1, hc, mds_REST, mds_SLR, mds_FINISH, mds_DMFINISH]

theorem step_slr {s : St} (h : seq[s.pc]? = some mds_SLR) :
    step seq base mj s = .ok { s with pc := s.pc + 1, out := Tk.cmd mds_SLR 0 :: s.out } := by
  simp [step, rd, h, mds_REST, mds_SLR]

/-- an argument byte of `FLG` that leaves the drum flag at `d` -/
def drumSafe (d : Bool) (a : Nat) : Bool := decide (a ≥ 0x80) || (decide (a &&& 8 ≠ 0) == d)

theorem step_cmd1 {s : St} {op a : Nat} (h : seq[s.pc]? = some op) (hop : oneArgOps.contains op = true)
    (ha : seq[s.pc + 1]? = some a) (hf : op = mds_FLG → drumSafe s.drum a = true) :
    step seq base mj s = .ok { s with pc := s.pc + 2, out := Tk.cmd op a :: s.out } := by
  have hmem : op ∈ oneArgOps := by simpa using hop
  have key : (if op = mds_FLG ∧ a < 0x80 then { s with drum := a &&& 8 ≠ 0 } else s) = s := by
    split
    · rename_i hc
      have := hf hc.1
      simp [drumSafe] at this
      rcases this with h' | h'
      · omega
      · cases s; simp_all
    · rfl
  have facts : ¬ op < 128 ∧ ¬ op = 128 ∧ ¬ op < 224 ∧ ¬ op = 224 ∧ ¬ op = 255 ∧ ¬ op = 247 ∧ ¬ op = 245 ∧
      ¬ op = 250 ∧ ¬ op = 251 ∧ ¬ op = 252 ∧ ¬ op = 253 ∧ ¬ op = 254 := by
    simp only [oneArgOps, List.mem_cons, List.mem_nil_iff, or_false] at hmem
    rcases hmem with rfl | rfl | rfl | rfl | rfl | rfl | rfl | rfl | rfl | rfl | rfl | rfl | rfl | rfl | rfl | rfl | rfl <;>
      decide
  obtain ⟨f1, f2, f3, f4, f5, f6, f7, f8, f9, f10, f11, f12⟩ := facts
  unfold step
  simp only [rd, h, ha, f1, f2, f3, f4, f5, f6, f7, f8, f9, f10, f11, f12, hop, key, mds_REST, mds_SLR, mds_FINISH,
    mds_DMFINISH, mds_JUMP, mds_LP, mds_LPF, mds_LPB, mds_LPBL, mds_PAT, if_false, if_true, or_self]

theorem step_flg {s : St} {a : Nat} (h : seq[s.pc]? = some mds_FLG) (ha : seq[s.pc + 1]? = some a) (hlt : a < 0x80) :
    step seq base mj s =
      .ok { s with drum := decide (a &&& 8 ≠ 0), pc := s.pc + 2, out := Tk.cmd mds_FLG a :: s.out } := by
  have hop : (236 : Nat) ∈ oneArgOps := by decide
  unfold step
  simp [rd, h, ha, hlt, hop, mds_REST, mds_SLR, mds_FINISH, mds_DMFINISH, mds_JUMP, mds_LP, mds_LPF, mds_LPB, mds_LPBL,
    mds_PAT, mds_FLG]

theorem step_cmd2 {s : St} {op hi lo : Nat} (h : seq[s.pc]? = some op) (hop : twoArgOps.contains op = true)
    (h1 : seq[s.pc + 1]? = some hi) (h2 : seq[s.pc + 1 + 1]? = some lo) :
    step seq base mj s = .ok { s with pc := s.pc + 3, out := Tk.cmd op (hi * 256 + lo) :: s.out } := by
  have hmem : op ∈ twoArgOps := by simpa using hop
  have facts : ¬ op < 128 ∧ ¬ op = 128 ∧ ¬ op < 224 ∧ ¬ op = 224 ∧ ¬ op = 255 ∧ ¬ op = 247 ∧ ¬ op = 245 ∧
      ¬ op = 250 ∧ ¬ op = 251 ∧ ¬ op = 252 ∧ ¬ op = 253 ∧ ¬ op = 254 ∧ ¬ op ∈ oneArgOps := by
    simp only [twoArgOps, List.mem_cons, List.mem_nil_iff, or_false] at hmem
    rcases hmem with rfl | rfl | rfl | rfl <;> decide
  obtain ⟨f1, f2, f3, f4, f5, f6, f7, f8, f9, f10, f11, f12, f13⟩ := facts
  unfold step
  simp [rd, rd16, h, h1, h2, f1, f2, f3, f4, f5, f6, f7, f8, f9, f10, f11, f12, f13, hmem, mds_REST, mds_SLR, mds_FINISH,
    mds_DMFINISH, mds_JUMP, mds_LP, mds_LPF, mds_LPB, mds_LPBL, mds_PAT]

theorem step_finish {s : St} (h : seq[s.pc]? = some mds_FINISH) (hc : s.calls = []) :
    step seq base mj s = .error .finished := by
  simp [step, rd, h, hc, mds_REST, mds_SLR, mds_FINISH]

theorem step_jump {s : St} {hi lo : Nat} (h : seq[s.pc]? = some mds_JUMP)
    (h1 : seq[s.pc + 1]? = some hi) (h2 : seq[s.pc + 1 + 1]? = some lo) :
    step seq base mj s =
      if s.jumps ≥ mj then .error .finished
      else .ok { s with pc := (s.pc + 3 + (hi * 256 + lo)) % 65536, jumps := s.jumps + 1, lastNote := none,
                        lastRest := none, out := Tk.loopMark :: s.out } := by
  simp [step, rd, rd16, h, h1, h2, mds_REST, mds_SLR, mds_FINISH, mds_DMFINISH, mds_JUMP]

theorem step_lp {s : St} (h : seq[s.pc]? = some mds_LP) :
    step seq base mj s = .ok { s with pc := s.pc + 1, loops := { start := s.pc + 1, count := 0 } :: s.loops } := by
  simp [step, rd, h, mds_REST, mds_SLR, mds_FINISH, mds_DMFINISH, mds_JUMP, mds_LP]

theorem step_lpf {s : St} {n : Nat} {f : LoopF} {fs : List LoopF} (h : seq[s.pc]? = some mds_LPF)
    (h1 : seq[s.pc + 1]? = some n) (hl : s.loops = f :: fs) :
    step seq base mj s =
      if (if f.count = 0 then n else f.count) - 1 > 0 then
        .ok { s with pc := f.start, loops := { f with count := (if f.count = 0 then n else f.count) - 1 } :: fs }
      else .ok { s with pc := s.pc + 2, loops := fs } := by
  simp [step, rd, h, h1, hl, mds_REST, mds_SLR, mds_FINISH, mds_DMFINISH, mds_JUMP, mds_LP, mds_LPF]

theorem step_lpb {s : St} {o : Nat} {f : LoopF} {fs : List LoopF} (h : seq[s.pc]? = some mds_LPB)
    (h1 : seq[s.pc + 1]? = some o) (hl : s.loops = f :: fs) :
    step seq base mj s =
      if f.count = 1 then .ok { s with pc := s.pc + 2 + o, loops := fs } else .ok { s with pc := s.pc + 2 } := by
  simp [step, rd, h, h1, hl, mds_REST, mds_SLR, mds_FINISH, mds_DMFINISH, mds_JUMP, mds_LP, mds_LPF, mds_LPB]

theorem step_lpbl {s : St} {hi lo : Nat} {f : LoopF} {fs : List LoopF} (h : seq[s.pc]? = some mds_LPBL)
    (h1 : seq[s.pc + 1]? = some hi) (h2 : seq[s.pc + 1 + 1]? = some lo) (hl : s.loops = f :: fs) :
    step seq base mj s =
      if f.count = 1 then .ok { s with pc := s.pc + 3 + (hi * 256 + lo), loops := fs }
      else .ok { s with pc := s.pc + 3 } := by
  simp [step, rd, rd16, h, h1, h2, hl, mds_REST, mds_SLR, mds_FINISH, mds_DMFINISH, mds_JUMP, mds_LP, mds_LPF, mds_LPB,
    mds_LPBL]

/-! ### from reachability to `run` -/

theorem run_of_reach {maxTicks : Nat} {s s' : St} {st : Stop} (h : Reach seq base mj s s')
    (he : step seq base mj s' = .error st) (hb : s'.out.length ≤ maxTicks) :
    ∃ n, ∀ fuel, fuel > n → run seq base mj maxTicks fuel s = (s'.out.reverse, st) := by
  induction h with
  | refl s =>
    refine ⟨0, fun fuel hf => ?_⟩
    obtain ⟨f, rfl⟩ : ∃ f, fuel = f + 1 := ⟨fuel - 1, by omega⟩
    have : ¬ (f % 64 = 0 ∧ s.out.length > maxTicks) := by omega
    simp [run, this, he]
  | @head s s1 s2 hs hm hr ih =>
    obtain ⟨n, hn⟩ := ih he hb
    refine ⟨n + 1, fun fuel hf => ?_⟩
    obtain ⟨f, rfl⟩ : ∃ f, fuel = f + 1 := ⟨fuel - 1, by omega⟩
    have h2 := hr.out_mono
    have : ¬ (f % 64 = 0 ∧ s.out.length > maxTicks) := by omega
    simp only [run, this, if_false, hs]
    exact hn f (by omega)

/-- whatever the fuel and the tick limit: a run along a path that ends in stop `st` can only
stop with `st`, run out of fuel, or hit the tick limit -/
theorem run_stop_of_reach {maxTicks : Nat} {s s' : St} {st : Stop} (h : Reach seq base mj s s')
    (he : step seq base mj s' = .error st) (fuel : Nat) :
    (run seq base mj maxTicks fuel s).2 = .fuel ∨ (run seq base mj maxTicks fuel s).2 = .tooManyTicks ∨
      (run seq base mj maxTicks fuel s).2 = st := by
  induction h generalizing fuel with
  | refl s =>
    cases fuel with
    | zero => exact .inl rfl
    | succ f =>
      by_cases hc : f % 64 = 0 ∧ s.out.length > maxTicks
      · right; left; simp [run, hc]
      · right; right; simp [run, hc, he]
  | @head s s1 s2 hs hm hr ih =>
    cases fuel with
    | zero => exact .inl rfl
    | succ f =>
      by_cases hc : f % 64 = 0 ∧ s.out.length > maxTicks
      · right; left; simp [run, hc]
      · simp only [run, hc, if_false, hs]; exact ih he f

/-- a run that stops the way its path ends produced exactly the path's output -/
theorem run_out_of_reach {maxTicks : Nat} {s s' : St} {st : Stop} (h : Reach seq base mj s s')
    (he : step seq base mj s' = .error st) (hst : st ≠ .fuel ∧ st ≠ .tooManyTicks) (fuel : Nat)
    (hr : (run seq base mj maxTicks fuel s).2 = st) : (run seq base mj maxTicks fuel s).1 = s'.out.reverse := by
  induction h generalizing fuel with
  | refl s =>
    cases fuel with
    | zero => simp [run] at hr; exact absurd hr.symm hst.1
    | succ f =>
      by_cases hc : f % 64 = 0 ∧ s.out.length > maxTicks
      · simp [run, hc] at hr; exact absurd hr.symm hst.2
      · simp [run, hc, he]
  | @head s s1 s2 hs hm hr' ih =>
    cases fuel with
    | zero => simp [run] at hr; exact absurd hr.symm hst.1
    | succ f =>
      by_cases hc : f % 64 = 0 ∧ s.out.length > maxTicks
      · simp [run, hc] at hr; exact absurd hr.symm hst.2
      · simp only [run, hc, if_false, hs] at hr ⊢
        exact ih he f hr

/-- what the caller needs to know about a subroutine stream starting at `t`: entered with any
state (drum flag `d`), it plays `T` and arrives at a `FINISH` with all stacks as on entry -/
def SubPlays (seq : List Nat) (base mj : Nat) (d : Bool) (t : Nat) (T : List Tk) : Prop :=
  ∀ s0 : St, s0.pc = t → s0.drum = d →
    ∃ s1, Reach seq base mj s0 s1 ∧ Frame s0 s1 ∧ seq[s1.pc]? = some mds_FINISH ∧ s1.out = T.reverse ++ s0.out

/-! ### drum mode

A `Mode` says how a note byte is played: with the drum flag off (or for a tie) it sounds; with the
drum flag on, note byte `82+j` calls the routine in slot `j`, which plays the commands `C` and ends
with `DMFINISH k` — note `k` with the length of the calling note byte.  `rt` lists the routines
that are known to behave like that (`Sound`). -/

structure Mode where
  dm : Bool
  rt : Nat → Option (List Tk × Nat)

def Mode.plain : Mode := ⟨false, fun _ => none⟩

/-- the same routines, drum flag `d` -/
def Mode.set (M : Mode) (d : Bool) : Mode := ⟨d, M.rt⟩

@[simp] theorem Mode.set_dm (M : Mode) (d : Bool) : (M.set d).dm = d := rfl
@[simp] theorem Mode.set_rt (M : Mode) (d : Bool) : (M.set d).rt = M.rt := rfl
@[simp] theorem Mode.set_self (M : Mode) : M.set M.dm = M := rfl

/-- ticks of note / tie byte `ty` played with length `n` -/
def Mode.nt (M : Mode) (ty n : Nat) : List Tk :=
  if M.dm = true ∧ ty ≥ mds_NOTE then
    match M.rt (ty - mds_NOTE) with
    | some (C, k) => C ++ noteTicks (mds_NOTE + k) n
    | none => noteTicks ty n
  else noteTicks ty n

/-- note / tie byte `ty` can be played in this mode -/
def Mode.okTy (M : Mode) (ty : Nat) : Bool := !M.dm || decide (ty < mds_NOTE) || (M.rt (ty - mds_NOTE)).isSome

@[simp] theorem Mode.plain_nt (ty n : Nat) : Mode.plain.nt ty n = noteTicks ty n := by simp [Mode.nt, Mode.plain]
@[simp] theorem Mode.plain_okTy (ty : Nat) : Mode.plain.okTy ty = true := by simp [Mode.okTy, Mode.plain]
@[simp] theorem Mode.plain_dm : Mode.plain.dm = false := rfl

theorem Mode.nt_tie (M : Mode) (n : Nat) : M.nt mds_TIE n = noteTicks mds_TIE n := by
  simp [Mode.nt, mds_TIE, mds_NOTE]

theorem Mode.okTy_tie (M : Mode) : M.okTy mds_TIE = true := by simp [Mode.okTy, mds_TIE, mds_NOTE]

theorem Mode.nt_split (M : Mode) (ty m k : Nat) (hm : m ≥ 1) : M.nt ty (m + k) = M.nt ty m ++ noteTicks mds_TIE k := by
  unfold Mode.nt
  split
  · split
    · rw [noteTicks_split _ m k hm, List.append_assoc]
    · exact noteTicks_split ty m k hm
  · exact noteTicks_split ty m k hm

/-- the routine stream at `t`: entered with the drum flag on, it plays the commands `C` and arrives
at `DMFINISH k` with all stacks as on entry -/
def DrumPlays (seq : List Nat) (base mj t : Nat) (C : List Tk) (k : Nat) : Prop :=
  ∀ s0 : St, s0.pc = t → s0.drum = true →
    ∃ s1, Reach seq base mj s0 s1 ∧ Frame s0 s1 ∧ seq[s1.pc]? = some mds_DMFINISH ∧ seq[s1.pc + 1]? = some k ∧
      s1.out = C.reverse ++ s0.out

/-- every routine of the mode is in the pointer table of `seq` and behaves as annotated -/
def Mode.Sound (M : Mode) (seq : List Nat) (base mj : Nat) : Prop :=
  ∀ j C k, M.rt j = some (C, k) → ∃ t, slotTarget seq base j = some t ∧ DrumPlays seq base mj t C k

theorem Mode.plain_sound (seq : List Nat) (base mj : Nat) : Mode.plain.Sound seq base mj := by
  intro j C k h; simp [Mode.plain] at h

theorem Mode.set_sound {M : Mode} {seq : List Nat} {base mj : Nat} (h : M.Sound seq base mj) (d : Bool) :
    (M.set d).Sound seq base mj := h

/-- **a note / tie byte with an explicit length byte**, in any mode -/
theorem note_len {M : Mode} (hS : M.Sound seq base mj) {s : St} {ty l : Nat} (h : seq[s.pc]? = some ty)
    (h1 : 0x81 ≤ ty) (h2 : ty < 0xe0) (hl : seq[s.pc + 1]? = some l) (hl' : l < 0x80) (hd : s.drum = M.dm)
    (hok : M.okTy ty = true) :
    ∃ s', Reach seq base mj s s' ∧ Frame s s' ∧ s'.pc = s.pc + 2 ∧ s'.lastNote = some l ∧ s'.lastRest = s.lastRest ∧
      s'.out = (M.nt ty (l + 1)).reverse ++ s.out := by
  by_cases hc : M.dm = true ∧ ty ≥ mds_NOTE
  · obtain ⟨hdm, hty⟩ := hc
    have hsome : (M.rt (ty - mds_NOTE)).isSome = true := by
      have hnl : ¬ ty < mds_NOTE := by omega
      simpa [Mode.okTy, hdm, hnl] using hok
    obtain ⟨⟨C, k⟩, hrt⟩ := Option.isSome_iff_exists.mp hsome
    obtain ⟨t, ht, hplay⟩ := hS _ C k hrt
    have hs := step_drumLen (base := base) (mj := mj) h hty h2 hl hl' (hd.trans hdm) ht
    obtain ⟨s0, hs0, hpc0, hca0, hlo0, hdr0, hju0, hou0⟩ : ∃ s0 : St, step seq base mj s = .ok s0 ∧ s0.pc = t ∧
        s0.calls = (s.pc + 2, some (l + 1, some l, s.lastRest)) :: s.calls ∧ s0.loops = s.loops ∧ s0.drum = s.drum ∧
        s0.jumps = s.jumps ∧ s0.out = s.out := ⟨_, hs, rfl, rfl, rfl, rfl, rfl, rfl⟩
    obtain ⟨s1, r1, f1, hfin, hk, ho1⟩ := hplay s0 hpc0 (hdr0.trans (hd.trans hdm))
    have hs1 := step_dmfinish (base := base) (mj := mj) hfin hk (f1.calls.trans hca0)
    refine ⟨_, .head hs0 (by rw [hou0]; exact Nat.le_refl _) (r1.trans (.one hs1 (by simp [emitNote_out]))),
      ⟨?_, ?_, ?_, ?_⟩, rfl, rfl, rfl, ?_⟩
    · show s1.loops = s.loops; rw [f1.loops, hlo0]
    · rfl
    · show s1.drum = s.drum; rw [f1.drum, hdr0]
    · show s1.jumps = s.jumps; rw [f1.jumps, hju0]
    · rw [emitNote_out]
      show _ ++ s1.out = _
      rw [ho1, hou0]
      simp [Mode.nt, hdm, hty, hrt, List.reverse_append, List.append_assoc]
  · have hd' : s.drum = false ∨ ty < mds_NOTE := by
      by_cases hdm : M.dm = true
      · right; have : ¬ ty ≥ mds_NOTE := fun x => hc ⟨hdm, x⟩; omega
      · left; rw [hd]; simpa using hdm
    have hs := step_noteLen (base := base) (mj := mj) h h1 h2 hl hl' hd'
    refine ⟨_, .one hs (by simp [emitNote_out]), ⟨rfl, rfl, rfl, rfl⟩, rfl, rfl, rfl, ?_⟩
    rw [emitNote_out]; simp [Mode.nt, hc]

/-- **a note / tie byte without length byte**: the remembered length -/
theorem note_bare {M : Mode} (hS : M.Sound seq base mj) {s : St} {ty l n : Nat} (h : seq[s.pc]? = some ty)
    (h1 : 0x81 ≤ ty) (h2 : ty < 0xe0) (hl : seq[s.pc + 1]? = some l) (hl' : ¬ l < 0x80) (hn : s.lastNote = some n)
    (hd : s.drum = M.dm) (hok : M.okTy ty = true) :
    ∃ s', Reach seq base mj s s' ∧ Frame s s' ∧ s'.pc = s.pc + 1 ∧ s'.lastNote = s.lastNote ∧
      s'.lastRest = s.lastRest ∧ s'.out = (M.nt ty (n + 1)).reverse ++ s.out := by
  by_cases hc : M.dm = true ∧ ty ≥ mds_NOTE
  · obtain ⟨hdm, hty⟩ := hc
    have hsome : (M.rt (ty - mds_NOTE)).isSome = true := by
      have hnl : ¬ ty < mds_NOTE := by omega
      simpa [Mode.okTy, hdm, hnl] using hok
    obtain ⟨⟨C, k⟩, hrt⟩ := Option.isSome_iff_exists.mp hsome
    obtain ⟨t, ht, hplay⟩ := hS _ C k hrt
    have hs := step_drumBare (base := base) (mj := mj) h hty h2 hl hl' hn (hd.trans hdm) ht
    obtain ⟨s0, hs0, hpc0, hca0, hlo0, hdr0, hju0, hou0⟩ : ∃ s0 : St, step seq base mj s = .ok s0 ∧ s0.pc = t ∧
        s0.calls = (s.pc + 1, some (n + 1, some n, s.lastRest)) :: s.calls ∧ s0.loops = s.loops ∧ s0.drum = s.drum ∧
        s0.jumps = s.jumps ∧ s0.out = s.out := ⟨_, hs, rfl, rfl, rfl, rfl, rfl, rfl⟩
    obtain ⟨s1, r1, f1, hfin, hk, ho1⟩ := hplay s0 hpc0 (hdr0.trans (hd.trans hdm))
    have hs1 := step_dmfinish (base := base) (mj := mj) hfin hk (f1.calls.trans hca0)
    refine ⟨_, .head hs0 (by rw [hou0]; exact Nat.le_refl _) (r1.trans (.one hs1 (by simp [emitNote_out]))),
      ⟨?_, ?_, ?_, ?_⟩, rfl, hn.symm, rfl, ?_⟩
    · show s1.loops = s.loops; rw [f1.loops, hlo0]
    · rfl
    · show s1.drum = s.drum; rw [f1.drum, hdr0]
    · show s1.jumps = s.jumps; rw [f1.jumps, hju0]
    · rw [emitNote_out]
      show _ ++ s1.out = _
      rw [ho1, hou0]
      simp [Mode.nt, hdm, hty, hrt, List.reverse_append, List.append_assoc]
  · have hd' : s.drum = false ∨ ty < mds_NOTE := by
      by_cases hdm : M.dm = true
      · right; have : ¬ ty ≥ mds_NOTE := fun x => hc ⟨hdm, x⟩; omega
      · left; rw [hd]; simpa using hdm
    have hs := step_noteBare (base := base) (mj := mj) h h1 h2 hl hl' hn hd'
    refine ⟨_, .one hs (by simp [emitNote_out]), ⟨rfl, rfl, rfl, rfl⟩, rfl, rfl, rfl, ?_⟩
    rw [emitNote_out]; simp [Mode.nt, hc]

end Ctrmml.Codec
