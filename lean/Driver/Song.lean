import Driver.Common
import Ctrmml.Model.Event
namespace Driver
open Ctrmml

def parseInt? (s : String) : Option Int :=
  if s.startsWith "-" then (s.drop 1).toString.toNat?.map (fun n => -(n : Int)) else s.toNat?.map (fun n => (n : Int))

def parseEvent (s : String) : Option Event :=
  match s.splitOn "." with
  | [t, p, a, b] => do
    let t ← t.toNat?
    let p ← parseInt? p
    let a ← a.toNat?
    let b ← b.toNat?
    pure { type := t, param := p, on := a, off := b }
  | _ => none

def parseEvents (s : String) : Option (List Event) :=
  if s.isEmpty then some [] else (s.splitOn ",").filter (· ≠ "") |>.mapM parseEvent

/-- tokens `T<id>:events` build the song (kept in key order, later duplicates ignored like
`make_track` on an existing id appends — the generators never repeat an id); other tokens
are returned -/
def parseSong (toks : List String) : Option (Song × List String) := do
  let mut tracks : List (Nat × List Event) := []
  let mut rest : List String := []
  for t in toks do
    if t.startsWith "T" && (t.drop 1).toString.front.isDigit then
      match (t.drop 1).toString.splitOn ":" with
      | [id] => tracks := tracks ++ [(← id.toNat?, [])]
      | [id, evs] => tracks := tracks ++ [(← id.toNat?, ← parseEvents evs)]
      | _ => none
    else rest := rest ++ [t]
  pure ({ tracks := tracks }, rest)

def showEvent (e : Event) : String := s!"{e.type}.{e.param}.{e.on}.{e.off}"

def showEvents (l : List Event) : String :=
  if l.isEmpty then "-" else ",".intercalate (l.map showEvent)

/-- the answer of the `optx` / `convox` model streams: the list-based model of the optimiser
(`Model/Optimizer.lean`) is quartic in the number of events of a run of equal phrases (300 equal
notes: 6 s, 511: 25 s, 1000: more than 15 min); the checks send such songs under these command names,
the model does not answer and the case is decided by the spec oracle on the implementation's answer
alone (`agree` in checks/c01.py, checks/c02.py) -/
def optModelDeclines : String := "MODEL:size-limit"

end Driver
