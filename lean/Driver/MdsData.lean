/- Driver for stream data.bank (C11): `ins` (tags fed directly) and `insmml` (through MML text). -/
import Driver.Common
import Ctrmml.Model.MdsData
import Ctrmml.Spec.MdsData
namespace Driver.MdsDataD
open Ctrmml Ctrmml.MdsData Driver

def hexN (b : List Nat) : String :=
  if b.isEmpty then "-" else String.ofList (b.flatMap fun x => [hexDigit (x / 16 % 16), hexDigit (x % 16)])

def showMap (m : List (Nat × Int)) : String :=
  let s := m.toArray.qsort (fun a b => a.1 < b.1) |>.toList
  if s.isEmpty then "-" else ",".intercalate (s.map fun kv => s!"{kv.1}:{kv.2}")

def showSet (m : List Nat) : String :=
  let s := m.toArray.qsort (· < ·) |>.toList
  if s.isEmpty then "-" else ",".intercalate (s.map toString)

def showState (st : State) (e : Option Err) : String :=
  let exc := match e with
    | none => "-"
    | some (.input _) => "InputError"
    | some .unsupported => "unsupported"
  let bank := if st.bank.isEmpty then "none" else ",".intercalate (st.bank.map hexN)
  s!"exc={exc} ext={if st.useExt then 1 else 0} bank={bank} env={showMap st.envMap} tr={showMap st.trMap} ty={showMap st.tyMap} pm={showMap st.pitchMap} px={showSet st.pitchExt}"

abbrev Tags := List (String × List String)

def addTo (tags : Tags) (key : String) (vals : List String) : Tags :=
  if tags.any (·.1 == key) then tags.map fun kv => if kv.1 == key then (kv.1, kv.2 ++ vals) else kv
  else tags ++ [(key, vals)]

def setTo (tags : Tags) (key : String) (vals : List String) : Tags :=
  if tags.any (·.1 == key) then tags.map fun kv => if kv.1 == key then (kv.1, vals) else kv
  else tags ++ [(key, vals)]

/-- `ins` request → (noext, tags in tag_order) -/
def parseIns (arg : String) : Tags :=
  let groups := (arg.splitOn ";").map words
  groups.foldl (fun tags g =>
    let (opts, rest) := g.partition (fun t => t.startsWith "opt=" && tags.all (fun kv => kv.1 == "#option"))
    let tags := opts.foldl (fun tags o => setTo tags "#option" [(o.drop 4).toString]) tags
    match rest with
    | [] => tags
    | key :: toks => addTo tags key toks) []

def noextOf (tags : Tags) : Bool :=
  match tags.find? (·.1 == "#option") with
  | some (_, vals) => vals.contains "noextpitch"
  | none => false

def runTagsWith {α} (A : Arith α) (tags : Tags) : String :=
  let (st, e) := readSong A (noextOf tags) tags
  showState st e

def runTags (tags : Tags) : String := runTagsWith Arith.float tags

/-! ### the MML glue for the restricted family of `insmml` (lines `@key values ; comment`,
`#option …`, continuation lines starting with a blank, comment lines) -/
def isBlank (c : Char) : Bool := c == ' ' || c == '\t'

/-- `Song::add_tag_list` without quoted strings -/
def tagListSplit (s : List Char) : List String :=
  let rec go (cs : List Char) (cur : List Char) (lastc : Char) (acc : List String) (fuel : Nat) : List String :=
    match fuel, cs with
    | 0, _ => acc
    | _, [] => if cur.isEmpty then acc else acc ++ [String.ofList cur]
    | fuel + 1, c :: rest =>
      if c == ' ' || c == '\t' || c == '\r' || c == '\n' || c == ',' || c == ';' then
        let (acc, lastc) :=
          if !cur.isEmpty then (acc ++ [String.ofList cur], c)
          else if c == ',' then (if lastc == ',' then (acc ++ [""], lastc) else (acc, ','))
          else (acc, lastc)
        if c == ';' then acc else go rest [] lastc acc fuel
      else go rest (cur ++ [c]) lastc acc fuel
  go s [] '\x00' [] (s.length + 1)

def trimRight (s : List Char) : List Char := (s.reverse.dropWhile Char.isWhitespace).reverse

def tagsOfMml (text : String) : Tags :=
  let lines := text.splitOn "\n"
  let (tags, _) := lines.foldl (fun (acc : Tags × Option String) line =>
    let (tags, cur) := acc
    let cs := line.toList
    let apply (key : String) (rest : List Char) : Tags × Option String :=
      if key.startsWith "#" then (setTo tags key [String.ofList (trimRight rest)], none)
      else (addTo tags key (tagListSplit rest), some key)
    match cs with
    | [] => (tags, cur)
    | c :: _ =>
      if c == '@' || c == '#' then
        let key := String.ofList ((cs.takeWhile (fun c => !c.isWhitespace)).map Char.toLower)
        let rest := (cs.dropWhile (fun c => !c.isWhitespace)).dropWhile isBlank
        if rest.isEmpty then (tags, some key) else apply key rest
      else if isBlank c then
        let rest := cs.dropWhile isBlank
        match cur with
        | some key => if rest.isEmpty then (tags, cur) else apply key rest
        | none => (tags, cur)
      else if c == ';' then (tags, cur)
      else (tags, none)) ([], none)
  tags

def textOfHex (h : String) : Option String :=
  (bytesOfHex h).map fun b => String.ofList (b.map fun x => Char.ofNat x.toNat)

def model (arg : String) : String := runTags (parseIns arg)

def modelMml (arg : String) : String :=
  match textOfHex arg.trimAscii.toString with
  | none => "bad-request"
  | some t => runTags (tagsOfMml t)

/-! ### judge: the spec applied to the implementation's answer -/
open Ctrmml.MdsSpec

structure Impl where
  exc : String
  bank : List (List Nat)
  env : List (Nat × Int)
  pm : List (Nat × Int)
  px : List Nat

def parseMapS (s : String) : List (Nat × Int) :=
  if s == "-" then [] else
  (s.splitOn ",").filterMap fun kv =>
    match kv.splitOn ":" with
    | [k, v] => match k.toNat?, v.toInt? with
      | some k, some v => some (k, v)
      | _, _ => none
    | _ => none

def field (ws : List String) (name : String) : String :=
  match ws.find? (·.startsWith (name ++ "=")) with
  | some w => (w.drop (name.length + 1)).toString
  | none => ""

def parseImpl (s : String) : Option Impl :=
  let ws := words s
  if (field ws "exc") == "" then none else
  let bank := (field ws "bank").splitOn "," |>.filterMap fun h =>
    (bytesOfHex h).map fun b => b.map (·.toNat)
  some { exc := field ws "exc", bank := bank, env := parseMapS (field ws "env"), pm := parseMapS (field ws "pm"),
         px := if field ws "px" == "-" then [] else (field ws "px").splitOn "," |>.filterMap (·.toNat?) }

def natTok (t : String) : Option Nat := if t.isEmpty then none else t.toNat?
def intTok (t : String) : Option Int := if t.isEmpty then none else t.toInt?

def fmOpOf : List Nat → Option FmOp
  | [ar, dr, sr, rr, sl, tl, ks, ml, dt, ssg] =>
    if ssg ≥ 100 then some { ar, dr, sr, rr, sl, tl, ks, ml, dt, ssg := ssg - 100, am := true }
    else some { ar, dr, sr, rr, sl, tl, ks, ml, dt, ssg, am := false }
  | _ => none

/-- a written FM definition (42 naturals + optional transpose), in range -/
def fmDefOf (toks : List String) : Option FmDef := do
  if toks.length ≠ 42 ∧ toks.length ≠ 43 then none
  let ps ← (toks.take 42).mapM natTok
  let tr ← match toks[42]? with
    | some t => intTok t
    | none => some 0
  let o1 ← fmOpOf ((ps.drop 2).take 10)
  let o2 ← fmOpOf ((ps.drop 12).take 10)
  let o3 ← fmOpOf ((ps.drop 22).take 10)
  let o4 ← fmOpOf ((ps.drop 32).take 10)
  let d : FmDef := { alg := ps.getD 0 0, fb := ps.getD 1 0, op1 := o1, op2 := o2, op3 := o3, op4 := o4, tr := tr }
  if decide d.inRange then some d else none

/-- strict grammar of a written PSG definition; `none` = outside the property's quantifier -/
def psgItemsOf (toks : List String) : Option (List PsgItem) :=
  let rec go (toks : List String) (defLen : Nat) (acc : List PsgItem) (havePrev : Bool) : Option (List PsgItem) :=
    match toks with
    | [] => some acc
    | "|" :: r => go r defLen (acc ++ [.loop]) havePrev
    | "/" :: r => if havePrev then go r defLen (acc ++ [.sustain]) false else none
    | t :: r =>
      if t.startsWith "l:" then
        match natTok (t.drop 2).toString with
        | some n => if 1 ≤ n ∧ n ≤ 255 then go r n acc havePrev else none
        | none => none
      else
        let (vt, len) := match t.splitOn ":" with
          | [a] => (a, some none)
          | [a, l] => (a, (natTok l).map some)
          | _ => (t, none)
        let it := match vt.splitOn ">" with
          | [a] => (natTok a).map fun a => (a, a)
          | [a, b] => (natTok a).bind fun a => (natTok b).map fun b => (a, b)
          | _ => none
        match it, len with
        | some (i, tg), some l =>
          let n := match l with
            | some n => n
            | none => if i ≠ tg then (if i > tg then i - tg else tg - i) + 1 else defLen
          if i ≤ 15 ∧ tg ≤ 15 ∧ 1 ≤ n ∧ n ≤ 255 then go r defLen (acc ++ [.value i tg n]) true else none
        | _, _ => none
  go toks 1 [] false

def decOf (s : String) : Option Dec :=
  let (neg, body) := if s.startsWith "-" then (true, (s.drop 1).toString) else (false, s)
  match body.splitOn "." with
  | [a] => (natTok a).map fun a => ⟨if neg then -(a : Int) else a, 0⟩
  | [a, f] =>
    if f.isEmpty || !(f.toList.all Char.isDigit) then none else
    (natTok (a ++ f)).map fun v => ⟨if neg then -(v : Int) else v, f.length⟩
  | _ => none


def pitchItemsOf (toks : List String) : Option (List PitchItem) :=
  toks.foldlM (fun acc t =>
    if t == "|" then some (acc ++ [.loop])
    else if t.startsWith "V" then
      -- vibrato macro: loop mark + three written nodes (mml_ref.md)
      match ((t.drop 1).toString.splitOn ":") with
      | [b, d, r] =>
        match decOf b, decOf d, natTok r with
        | some b, some d, some r =>
          -- only when the 6-decimal rendering is exact; rates above 1000 are outside the quantifier, like node
          -- lengths (a rate that does not fit an `int` is read modulo 2^32)
          if r = 0 ∨ r > 1000 ∨ b.dec + d.dec + 1 > 6 then none else
          let top := Dec.add (Dec.half d) b
          -- like written nodes: pitches within +-127 semitones (the quantifier of the property)
          if top.num.natAbs > 127 * 10 ^ top.dec ∨ b.num.natAbs > 127 * 10 ^ b.dec then none else
          some (acc ++ [.loop, .node b top (some r), .node top top.neg (some (2 * r)), .node top.neg b (some r)])
        | _, _, _ => none
      | _ => none
    else
      let (vt, len) := match t.splitOn ":" with
        | [a] => (a, some none)
        | [a, l] => (a, (natTok l).map some)
        | _ => (t, none)
      let it := match vt.splitOn ">" with
        | [a] => (decOf a).map fun a => (a, a)
        | [a, b] => (decOf a).bind fun a => (decOf b).map fun b => (a, b)
        | _ => none
      match it, len with
      | some (i, tg), some l =>
        let inR (d : Dec) : Bool := d.num.natAbs ≤ 127 * 10 ^ d.dec
        if l == some 0 || !inR i || !inR tg || (l.getD 1) > 1000 then none else some (acc ++ [.node i tg l])
      | _, _ => none) []

def judgeTags (tags : Tags) (impl : String) : String :=
  -- the binary64 arithmetic written out in Lean (`Arith.b64`, the one `C11_psg_slide_binary64` is about) must give the
  -- same state and the same exception as the hardware doubles (`Arith.float`, which the correspondence check compares
  -- with the C++), on every request
  if runTagsWith Arith.b64 tags != runTags tags then "fail b64: the model run with Arith.b64 differs from the run with Float" else
  match parseImpl impl with
  | none => "skip"
  | some im =>
    if im.exc != "-" then "skip" else
    let noext := noextOf tags
    let verdicts := tags.map fun (key, toks) =>
      match scanKey key with
      | none => "skip"
      | some (isPitch, id) =>
        if (tags.filter fun kv => scanKey kv.1 == some (isPitch, id)).length ≠ 1 then "skip" else
        if isPitch then
          match pitchItemsOf toks, mget im.pm id with
          | some items, some idx =>
            if items.all (· == .loop) then "skip" else
            let ext := im.px.contains id
            match im.bank[idx.toNat]?.bind (runPitchEnv ext) with
            | none => s!"fail @m{id}: envelope does not decode"
            | some e =>
              if ext && noext then s!"fail @m{id}: extended form under noextpitch"
              else if ext && e.chunks.all (fun c => -128 ≤ c.delta && c.delta ≤ 127) then s!"fail @m{id}: extended form although every step fits a signed byte"
              else if pitchMeets noext items e then "ok" else s!"fail @m{id}: nodes do not meet the written definition"
          | some _, none => s!"fail @m{id}: no pitch_map entry"
          | none, _ => "skip"
        else
          match toks with
          | ty :: rest =>
            let ty := lower ty
            let image := (mget im.env id).bind fun idx => im.bank[idx.toNat]?
            if ty == "fm" then
              match fmDefOf rest, image with
              | some d, some b => if decodeFm b == some d then "ok" else s!"fail @{id}: FM image does not decode to the definition"
              | some _, none => s!"fail @{id}: no envelope_map entry"
              | none, _ => "skip"
            else if ty == "2op" then
              match rest.mapM intTok, image with
              | some [bid, m1, m2, m3, m4, tr], some b =>
                let baseToks := tags.filter (fun kv => scanKey kv.1 == some (false, bid.toNat))
                match baseToks with
                | [(_, bty :: brest)] =>
                  if lower bty != "fm" then "skip" else
                  match fmDefOf brest with
                  | some d =>
                    if 0 ≤ bid ∧ bid < 256 ∧ [m1, m2, m3, m4].all (fun m => 0 ≤ m && m < 16) ∧ -24 ≤ tr ∧ tr ≤ 103 then
                      if decodeFm b == some (d.twoOp m1.toNat m2.toNat m3.toNat m4.toNat tr) then "ok"
                      else s!"fail @{id}: 2op image is not the base patch with multipliers, op4 level and transpose replaced"
                    else "skip"
                  | none => "skip"
                | _ => "skip"
              | _, _ => "skip"
            else if ty == "psg" then
              match psgItemsOf rest, image with
              | some items, some b =>
                if items.isEmpty then "skip" else
                match expandPsg b with
                | some e => if psgMeets items e then "ok" else s!"fail @{id}: PSG envelope does not expand to the written frames/marks"
                | none => s!"fail @{id}: PSG envelope does not decode"
              | some items, none => if items.isEmpty then "skip" else s!"fail @{id}: no envelope_map entry"
              | none, _ => "skip"
            else "skip"
          | [] => "skip"
    -- Float-vs-exact-rational comparison on single slides (reported, never a verdict)
    let singles := tags.filterMap fun (key, toks) =>
      match scanKey key, toks with
      | some (false, _), ty :: rest =>
        if lower ty == "psg" then
          match psgItemsOf rest with
          | some [.value i t n] => some (s!"{i}>{t}:{n}", rest)
          | _ => none
        else none
      | _, _ => none
    let differing := singles.filter fun (_, rest) =>
      (match psgCompile Arith.float 0 rest with | .ok b => some b | .error _ => none)
        != (match psgCompile Arith.rat 0 rest with | .ok b => some b | .error _ => none)
    let fq := if singles.isEmpty then "" else
      s!" fq={singles.length}/{differing.length}" ++ (match differing.head? with | some (n, _) => s!":{n}" | none => "")
    match verdicts.find? (·.startsWith "fail") with
    | some f => f
    | none => if verdicts.any (· == "ok") then "ok" ++ fq else "skip"

def judge (arg impl : String) : String := judgeTags (parseIns arg) impl

def judgeMml (arg impl : String) : String :=
  match textOfHex arg.trimAscii.toString with
  | none => "skip"
  | some t => judgeTags (tagsOfMml t) impl

def handlers : List Driver.Handler :=
  [{ cmd := "ins", model := model, judge := judge },
   { cmd := "insmml", model := modelMml, judge := judgeMml }]

end Driver.MdsDataD
