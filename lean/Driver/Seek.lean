import Driver.Song
import Ctrmml.Model.PlayerCh
namespace Driver.SeekD
open Ctrmml Ctrmml.Player Ctrmml.PlayerCh Driver

def trefId (rootId : Nat) : TRef → Int
  | .root => rootId
  | .id n => n

def ftypeNum : FType → Nat
  | .loop => Tables.st_LOOP
  | .jump => Tables.st_JUMP
  | .drum => Tables.st_DRUM_MODE

def maskVal (m : List Nat) : Nat := (m.eraseDups.map (fun b => 2 ^ b)).sum

def dump (rootId : Nat) (s : PS) : String :=
  let vars := ",".intercalate (s.ch.trackState.map toString)
  let st := if s.core.stack.isEmpty then "-" else
    ";".intercalate (s.core.stack.map fun f =>
      s!"{ftypeNum f.type}:{trefId rootId f.track}:{f.position}:{f.endPosition}:{f.loopCount}")
  s!"t={s.acc.playTime}/en={if s.acc.enabled then 1 else 0}/lc={loopCountOf s}/on={s.acc.onTime}/off={s.acc.offTime}/ln={s.ch.lastNote}/v={vars}/m={hex32 (maskVal s.ch.mask)}/pos={s.core.position}/trk={trefId rootId s.core.track}/st={st}"

def errMsg : PErr → String
  | .stackOverflow => "stack_overflow_(depth_limit_reached)"
  | .unterminatedLoop => "unterminated_'[]'_loop"
  | .unexpectedLoopEnd => "unexpected_']'_loop_end"
  | .drumNoNote => "drum_routine_contains_no_note"
  | .invalidLoopCount => "Invalid_loop_count"
  | .jumpMissing => "jump_destination_doesn't_exist"
  | .drumTrackMissing => "drum_mode_error"
  | .platformMissing => "Platform_command_is_not_defined"
  | .impossible => "MODEL:impossible"
  | .fuel => "MODEL:fuel"

def recAdd (rec : String) (evs : List Event) : String :=
  evs.foldl (fun r e => r ++ (if r.isEmpty then "" else ",") ++ s!"{e.type}.{e.param}") rec

def future (song : Song) (root : List Event) (pd : Int → Bool) : Nat → PS → String → Except PErr String
  | 0, _, rec => .ok rec
  | k + 1, s, rec =>
    let (s', w) := playTickO song root pd s
    match s'.err with
    | some e => .error e
    | none => future song root pd k s' (recAdd rec w ++ "|")

def playN (song : Song) (root : List Event) (pd : Int → Bool) : Nat → PS → PS
  | 0, s => s
  | k + 1, s => playN song root pd k (playTickO song root pd s).1

def one (song : Song) (root : List Event) (rootId : Nat) (pd : Int → Bool) (n : Nat) : String :=
  let (sa, wa) := skipTicksO song root pd n initPS
  let a := match sa.err with
    | some e => "err:" ++ errMsg e
    | none =>
      match future song root pd 24 sa "" with
      | .error e => "err:" ++ errMsg e
      | .ok _ => dump rootId sa ++ "/w=" ++ (let r := recAdd "" wa; if r.isEmpty then "-" else r)
  let fa := match sa.err with
    | some _ => ""
    | none => match future song root pd 24 sa "" with | .ok r => r | .error _ => ""
  let sb := playN song root pd (n + 1) initPS
  let b := match sb.err with
    | some e => "err:" ++ errMsg e
    | none =>
      match future song root pd 24 sb "" with
      | .error e => "err:" ++ errMsg e
      | .ok _ => dump rootId sb
  let fb := match sb.err with
    | some _ => ""
    | none => match future song root pd 24 sb "" with | .ok r => r | .error _ => ""
  s!"#{n} skip={a} play={b} fut={if fa == fb then "same:" else "DIFF:"}{fa}"

/-- a seek on a player that is not fresh (`seekm`): after `m+1` play ticks, `skip_ticks(n)` against `n` more
play ticks (`C12_seek_eq_play_after_play`); the label is the total `m+n` -/
def oneFrom (song : Song) (root : List Event) (rootId : Nat) (pd : Int → Bool) (m n : Nat) : String :=
  let s0 := playN song root pd (m + 1) initPS
  match s0.err with
  | some e => s!"#{m + n} skip=err:{errMsg e} play=err:{errMsg e} fut=same:"
  | none =>
  let (sa, wa) := skipTicksO song root pd n s0
  let a := match sa.err with
    | some e => "err:" ++ errMsg e
    | none =>
      match future song root pd 24 sa "" with
      | .error e => "err:" ++ errMsg e
      | .ok _ => dump rootId sa ++ "/w=" ++ (let r := recAdd "" wa; if r.isEmpty then "-" else r)
  let fa := match sa.err with
    | some _ => ""
    | none => match future song root pd 24 sa "" with | .ok r => r | .error _ => ""
  let sb := playN song root pd n s0
  let b := match sb.err with
    | some e => "err:" ++ errMsg e
    | none =>
      match future song root pd 24 sb "" with
      | .error e => "err:" ++ errMsg e
      | .ok _ => dump rootId sb
  let fb := match sb.err with
    | some _ => ""
    | none => match future song root pd 24 sb "" with | .ok r => r | .error _ => ""
  s!"#{m + n} skip={a} play={b} fut={if fa == fb then "same:" else "DIFF:"}{fa}"

def modelM (arg : String) : String :=
  match parseSong (words arg) with
  | none => "bad-request"
  | some (song, rest) =>
    match (rest[0]?).bind String.toNat?, (rest[1]?).bind String.toNat?, song.track? (((rest[0]?).bind String.toNat?).getD 0) with
    | some rootId, some m, some root =>
      let ns := ((rest[2]?).map (fun s => (s.splitOn ",").filterMap String.toNat?)).getD []
      let pids : List Int := (rest.filter (·.startsWith "P:")).flatMap fun t =>
        ((t.drop 2).toString.splitOn ",").filterMap parseInt?
      " ".intercalate (ns.map (oneFrom song root rootId (fun p => pids.contains p) m))
    | _, _, _ => "bad-request"

def parseReq (arg : String) : Option (Song × Nat × List Event × List Nat × (Int → Bool)) := do
  let (song, rest) ← parseSong (words arg)
  let rootId ← (rest[0]?).bind String.toNat?
  let ns ← (rest[1]?).map (fun s => (s.splitOn ",").filterMap String.toNat?)
  let root ← song.track? rootId
  let pids : List Int := (rest.filter (·.startsWith "P:")).flatMap fun t =>
    ((t.drop 2).toString.splitOn ",").filterMap parseInt?
  pure (song, rootId, root, ns, fun p => pids.contains p)

def model (arg : String) : String :=
  match parseReq arg with
  | none => "bad-request"
  | some (song, rootId, root, ns, pd) => " ".intercalate (ns.map (one song root rootId pd))

/-- spec verdict: after `skip_ticks(n)` the observable state equals the one after `n+1`
`play_tick()`s and the futures coincide — evaluated on the implementation's own dumps.
A seek beyond the end of a finished non-looping track (player disabled before tick n) is
outside the property's quantifier (`n` within the track length). -/
def judge (_arg impl : String) : String :=
  let parts := (impl.splitOn "#").filter (· ≠ "")
  let bad := parts.filterMap fun p =>
    let fields := (p.splitOn " ").filter (· ≠ "")
    let get (k : String) := ((fields.find? (·.startsWith k)).map (fun f => (f.drop k.length).toString)).getD ""
    let a := get "skip="
    let b := get "play="
    let f := get "fut="
    let aState := ((a.splitOn "/w=").headD "")
    let nVal := ((fields.headD "").toNat?).getD 0
    let tB := ((((b.splitOn "/").headD "").drop 2).toString.toNat?).getD 0
    let endedEarly := (b.splitOn "/en=0/").length > 1 && tB < nVal
    if endedEarly then none
    else if a.startsWith "err:" || b.startsWith "err:" then
      if a.startsWith "err:" && b.startsWith "err:" then none else some s!"n={fields.headD ""}: one path fails, the other does not"
    else if aState != b then some s!"n={fields.headD ""}: state after seek differs from state after playing"
    else if f.startsWith "DIFF" then some s!"n={fields.headD ""}: future events differ"
    else none
  match bad with
  | [] => "ok"
  | x :: _ => "fail " ++ x

def handlers : List Driver.Handler := [{ cmd := "seek", model := model, judge := judge },
  { cmd := "seekm", model := modelM, judge := judge }]
end Driver.SeekD
