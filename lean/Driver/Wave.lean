import Driver.Common
import Ctrmml.Model.Wave
import Ctrmml.Spec.Alloc
namespace Driver.WaveD
open Ctrmml Ctrmml.Wave Driver

/-! ### request parsing (shared by model and judge) -/

inductive FileSpec
  | canon (bits ch rate frames seed : Nat)
  | raw (b : Bytes)
  | missing
  | emptyTag

inductive Op
  | tag (f : FileSpec) (args : List String)
  | rawAdd (h : Sample) (data : Bytes)

def parseFile (s : String) : Option FileSpec :=
  if s == "-" then some .emptyTag
  else if s.startsWith "m:" then some .missing
  else if s.startsWith "x:" then (bytesOfHex (s.drop 2).toString).map .raw
  else if s.startsWith "w:" then
    match (s.drop 2).toString.splitOn ":" with
    | [b, c, r, f, sd] => do
      pure (.canon (← b.toNat?) (← c.toNat?) (← r.toNat?) (← f.toNat?) (← sd.toNat?))
    | _ => none
  else none

def parseOp (s : String) : Option Op :=
  match words s with
  | "T" :: f :: args => do
    let f ← parseFile f
    pure (.tag f (args.map fun a => a.replace "_" " "))
  | ["R", st, sz, ls, le, rate, tr, fl, pl] => do
    let data ← payloadOf pl
    pure (.rawAdd { position := 0, start := ← st.toNat?, size := ← sz.toNat?, loopStart := ← ls.toNat?, loopEnd := ← le.toNat?,
                    rate := ← rate.toNat?, transpose := ← tr.toNat?, flags := ← fl.toNat? } data)
  | _ => none

def parseReq (arg : String) : Option (Nat × Nat × List Op) :=
  match arg.splitOn "|" with
  | hd :: ops =>
    match words hd with
    | [m, b] => do
      let m ← m.toNat?
      let b ← b.toNat?
      let ops ← (ops.filter fun o => (words o) ≠ []).mapM parseOp
      pure (m, b, ops)
    | _ => none
  | [] => none

/-- bytes of the canonical file, built directly (same layout as harness/h_wave.cpp) -/
def canonicalWav (bits ch rate frames seed : Nat) : Bytes :=
  let n := frames * ch * (bits / 8)
  let pad : Bytes := if n % 2 = 1 then [0] else []
  [0x52, 0x49, 0x46, 0x46] ++ le32 (4 + 24 + 8 + n + n % 2) ++ [0x57, 0x41, 0x56, 0x45] ++
  [0x66, 0x6d, 0x74, 0x20] ++ le32 16 ++ le16 1 ++ le16 ch ++ le32 rate ++ le32 (rate * ch * (bits / 8)) ++
  le16 (ch * (bits / 8)) ++ le16 bits ++ [0x64, 0x61, 0x74, 0x61] ++ le32 n ++ fillBytes n seed ++ pad

def fileBytes : FileSpec → Option Bytes
  | .canon b c r f s => some (canonicalWav b c r f s)
  | .raw b => some b
  | .missing => none
  | .emptyTag => none

/-! ### model answer -/

def winHash (rom : Bytes) (h : Sample) : String :=
  let lo := h.position + h.start
  if lo + h.size > rom.length then "oob" else lenfnv ((rom.drop lo).take h.size)

def headerStr (h : Sample) : String :=
  s!"{h.position},{h.start},{h.size},{h.loopStart},{h.loopEnd},{h.rate},{h.transpose},{h.flags}"

def gapList (b : Bank) : String :=
  if b.gaps.isEmpty then "-" else ",".intercalate (b.gaps.map fun g => s!"{g.start}-{g.stop}")

def stateStr (b : Bank) : String :=
  s!" n={b.samples.length} cur={b.currentSize} gaps={gapList b} tg={b.totalGap} lg={b.largestGap} free={b.freeBytes}"

def runOp (b : Bank) : Op → Except Err (Bank × Nat)
  | .tag .emptyTag _ => addSampleTag b none []
  | .tag f args => addSampleTag b (fileBytes f) ("file" :: args)
  | .rawAdd h d => addSample b { h with transpose := u32 h.transpose } d

def model (arg : String) : String :=
  match parseReq arg with
  | none => "bad-request"
  | some (m, bk, ops) =>
    let rec go (b : Bank) (ops : List Op) (acc : String) : String :=
      match ops with
      | [] =>
        let used := b.maxSize - b.freeBytes
        let wins := if b.samples.isEmpty then "-" else ",".intercalate (b.samples.map (winHash b.rom))
        acc ++ s!"end rom={lenfnv (b.rom.take used)} wins={wins}"
      | op :: rest =>
        match runOp b op with
        | .ok (b', idx) =>
          let h := b'.samples.getD idx ⟨0, 0, 0, 0, 0, 0, 0, 0⟩
          go b' rest (acc ++ s!"r={idx} h={headerStr h} win={winHash b'.rom h}" ++ stateStr b' ++ " ; ")
        | .error .incomplete => go b rest (acc ++ "exc:incomplete" ++ stateStr b ++ " ; ")
        | .error .notFound => go b rest (acc ++ "exc:notfound" ++ stateStr b ++ " ; ")
        | .error .offsetTooBig => go b rest (acc ++ "exc:offset" ++ stateStr b ++ " ; ")
        | .error .noFit => go b rest (acc ++ "exc:nofit" ++ stateStr b ++ " ; ")
        | .error .tooLong => go b rest (acc ++ "exc:toolong" ++ stateStr b ++ " ; ")
        | .error .hang => "timeout"
        | .error _ => "crash"
    go (Bank.new m bk) ops ""

def modelHdr (arg : String) : String :=
  match (words arg).head? >>= payloadOf with
  | none => "bad-request"
  | some b =>
    match Sample.fromBytes b with
    | none => "exc:out_of_range"
    | some h => s!"h={headerStr h} bytes={hexOfBytes h.toBytes}"

/-! ### spec verdict on the implementation's answer -/
open Ctrmml.Alloc

def field (rec key : String) : Option String :=
  (words rec).findSome? fun t => if t.startsWith (key ++ "=") then some (t.drop (key.length + 1)).toString else none

def parseGaps (s : String) : Option (List Win) :=
  if s == "-" then some [] else
  (s.splitOn ",").mapM fun g =>
    match g.splitOn "-" with
    | [a, b] => do
      let a ← a.toNat?
      let b ← b.toNat?
      if a ≤ b then pure ⟨a, b - a⟩ else none
    | _ => none

/-- canonical override syntax understood by the spec: `rate=<n>`, `offset=<n>` -/
def specArgs (args : List String) : Option (Option Nat × Nat) :=
  args.foldlM (fun (acc : Option Nat × Nat) a =>
    if a.startsWith "rate=" then (a.drop 5).toString.toNat?.bind fun r => if r < 4294967296 then some (some r, acc.2) else none
    else if a.startsWith "offset=" then (a.drop 7).toString.toNat?.bind fun o => if o < 4294967296 then some (acc.1, acc.2 + o) else none
    else none) (none, 0)

def groupN (n : Nat) : Nat → Bytes → List (List UInt8)
  | 0, _ => []
  | fuel + 1, l => if l.isEmpty ∨ n = 0 then [] else l.take n :: groupN n fuel (l.drop n)

def pcmOf (bits ch rate frames seed : Nat) : Pcm :=
  let w := bits / 8
  let raw := fillBytes (frames * ch * w) seed
  let frameOf (fb : List UInt8) : List Nat :=
    (groupN w ch fb).map fun sb => match sb with
      | [a] => a.toNat
      | [a, b] => a.toNat + 256 * b.toNat
      | _ => 0
  { bits, channels := ch, rate, frames := (groupN (ch * w) frames raw).map frameOf }

/-- what the spec expects of one operation -/
inductive Expect
  | ok (wanted : Bytes) (rate : Nat) (full : Option Bytes)   -- full = complete sample data when the window is all of it
  | exc (cls : String) (alsoOk : Bool)
  | unknown                                                    -- hand-made file: structural checks only

def expectOf : Op → Expect
  | .tag .emptyTag _ => .exc "incomplete" false
  | .tag .missing _ => .exc "notfound" false
  | .tag (.raw _) _ => .unknown
  | .tag (.canon bits ch rate frames seed) args =>
    if ¬ ((bits = 8 ∨ bits = 16) ∧ (ch = 1 ∨ ch = 2)) then .unknown else
    match specArgs args with
    | none => .unknown
    | some (r, off) =>
      if off > frames then .exc "offset" false
      else
        let p := pcmOf bits ch rate frames seed
        .ok (p.wanted off) (r.getD rate) (if off = 0 then some (p.wanted 0) else none)
  | .rawAdd h d =>
    if h.start + h.size > d.length then .exc "toolong" false else
    .ok ((d.drop h.start).take h.size) h.rate (if h.start = 0 ∧ h.size = d.length ∧ h.loopStart = 0 then some d else none)

structure JState where
  n : Nat := 0
  cur : Nat := 0
  gaps : List Win := []
  regions : List Win := []
  headers : List String := []
  hashes : List String := []       -- window hash per entry when it was handed out
  stored : List String := []       -- hashes of complete sample data already stored

def tilesCheck (pieces : List Win) (used : Nat) : Bool :=
  let ps := (pieces.filter (·.len > 0)).toArray.qsort (fun a b => a.lo < b.lo) |>.toList
  let rec go (at_ : Nat) : List Win → Bool
    | [] => at_ == used
    | p :: r => p.lo == at_ && go (p.lo + p.len) r
  go 0 ps && pieces.all (fun p => p.lo + p.len ≤ used)

def judgeStep (maxSz bank : Nat) (st : JState) (op : Op) (rec : String) : Except String JState := do
  let some n := (field rec "n") >>= String.toNat? | throw "parse"
  let some cur := (field rec "cur") >>= String.toNat? | throw "parse"
  let some gaps := (field rec "gaps") >>= parseGaps | throw "gap-order"
  let some tg := (field rec "tg") >>= String.toNat? | throw "parse"
  let some lg := (field rec "lg") >>= String.toNat? | throw "parse"
  let some free := (field rec "free") >>= String.toNat? | throw "parse"
  let ex := expectOf op
  if rec.startsWith "exc:" then
    let cls := ((rec.drop 4).toString.splitOn " ").headD ""
    if n ≠ st.n ∨ cur ≠ st.cur ∨ gaps ≠ st.gaps then throw "state-changed-on-error"
    match ex with
    | .exc c _ => if c == cls then pure st else throw s!"exc-unexpected:{cls}"
    | .ok _ _ _ => if cls == "nofit" then pure st else throw s!"exc-unexpected:{cls}"
    | .unknown => pure st
  else
    let some r := (field rec "r") >>= String.toNat? | throw "parse"
    let some hs := field rec "h" | throw "parse"
    let some win := field rec "win" | throw "parse"
    let some [pos, start, size, _ls, _le, rate, _tr, _fl] := (hs.splitOn ",").mapM String.toNat? | throw "parse"
    match ex with
    | .exc _ false => throw "accepted-invalid"
    | _ => pure ()
    let w : Win := ⟨pos + start, size⟩
    -- the window shows what was asked for
    match ex with
    | .ok wanted wrate _ =>
      if size ≠ wanted.length then throw "window-size"
      if win ≠ lenfnv wanted then throw "window-content"
      if rate ≠ wrate then throw "rate"
    | _ => pure ()
    if win == "oob" ∨ ¬ (w.lo + w.len ≤ cur) then throw "window-outside"
    -- entry bookkeeping
    let fresh := ¬ (cur == st.cur ∧ gaps == st.gaps)
    let st1 ←
      if r < st.n then
        if n ≠ st.n then throw "count"
        else if st.headers.getD r "" ≠ hs then throw "header-changed"
        else if fresh then throw "reuse-added-bytes"
        else pure st
      else if r = st.n ∧ n = st.n + 1 then
        pure { st with n := n, headers := st.headers ++ [hs], hashes := st.hashes ++ [win] }
      else throw "count"
    let regions := if fresh then st.regions ++ [⟨pos, size⟩] else st.regions
    -- layout: regions and gaps tile the used area, accounting, accessors
    if ¬ tilesCheck (regions ++ gaps) cur then throw "tiling"
    if total regions + total gaps ≠ cur then throw "account"
    if tg ≠ total gaps ∨ lg ≠ (gaps.foldl (fun a g => max a g.len) 0) ∨ cur > maxSz ∨ free ≠ maxSz - cur then throw "accessors"
    if w.len > 0 ∧ ¬ regions.any (fun g => g.lo ≤ w.lo ∧ w.lo + w.len ≤ g.lo + g.len) then throw "window-unhoused"
    -- bank rule
    if w.len ≤ bank ∧ w.len > 0 ∧ w.lo / bank ≠ (w.lo + w.len - 1) / bank then throw "bankrule"
    -- identical data is stored once
    let st2 ← match ex with
      | .ok _ _ (some full) =>
        let hsh := lenfnv full
        if st.stored.contains hsh then
          if fresh ∧ full.length > 0 then throw "stored-twice" else pure st1
        else pure { st1 with stored := st1.stored ++ [hsh] }
      | _ => pure st1
    pure { st2 with cur := cur, gaps := gaps, regions := regions }

def judge (arg impl : String) : String :=
  match parseReq arg with
  | none => "skip"
  | some (m, bk, ops) =>
    if impl.startsWith "crash" ∨ impl == "timeout" ∨ impl.startsWith "uncaught" then "fail crash" else
    let bank := if bk = 0 then m else bk
    let recs := impl.splitOn " ; "
    if recs.length ≠ ops.length + 1 then "fail records" else
    let rec go (k : Nat) (st : JState) : List Op → List String → String
      | op :: ops, rec :: recs =>
        match judgeStep m bank st op rec with
        | .ok st' => go (k + 1) st' ops recs
        | .error e => s!"fail {e} step={k}"
      | _, [last] =>
        match field last "wins", field last "rom" with
        | some wins, some rom =>
          let ws := if wins == "-" then [] else wins.splitOn ","
          if ws.length ≠ st.hashes.length then "fail records"
          else match (List.range ws.length).find? (fun i => ws.getD i "" ≠ st.hashes.getD i "") with
            | some i => s!"fail unstable entry={i}"
            | none => if (rom.splitOn ":").headD "" == toString st.cur then "ok" else "fail used-size"
        | _, _ => "fail records"
      | _, _ => "fail records"
    go 0 {} ops recs

def judgeHdr (arg impl : String) : String :=
  match (words arg).head? >>= payloadOf with
  | none => "skip"
  | some b =>
    if b.length < 32 then (if impl == "exc:out_of_range" then "ok" else "fail short-header-accepted")
    else
      -- a header is eight little-endian words; reading and writing it back must reproduce them
      match field impl "bytes" with
      | some hx => if hx == hexOfBytes (b.take 32) then "ok" else "fail header-roundtrip"
      | none => "fail header-roundtrip"

def handlers : List Driver.Handler :=
  [{ cmd := "wave", model := model, judge := judge }, { cmd := "wavehdr", model := modelHdr, judge := judgeHdr }]

end Driver.WaveD
