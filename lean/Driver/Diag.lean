/- Driver for the stream `diag.what` (`diag`) — C17.
   diag <file> <hexline> … @ <kind> <fline> <fcol> <ftracks|-> @ t:<line>:<col>:<tr+tr> … c:<caller>:<callee> …
   model: the pipeline of Model/Refs;  judge: Spec/Diag.verdict on the implementation's answer. -/
import Driver.Mml
import Ctrmml.Model.Refs
import Ctrmml.Spec.Diag
namespace Driver.DiagD
open Ctrmml Ctrmml.Refs Driver

def token (s : String) : String :=
  let t := String.ofList (s.toList.map fun c => if c == ' ' then '_' else if c.toNat < 0x20 || c.toNat ≥ 0x7f then '?' else c)
  if t.isEmpty then "-" else t

def stageName : Stage → String
  | .parse => "parse" | .validate => "validate" | .convert => "convert" | .ok => "ok"

def runDiag (arg : String) : String :=
  match words arg with
  | [] => "bad-request"
  | file :: rest =>
    match (rest.takeWhile (· ≠ "@")).mapM MmlD.unhex with
    | none => "bad-request"
    | some lines =>
      let o := runPipeline file lines
      s!"stage={stageName o.stage} what={match o.what with | some w => token w | none => "-"}"

/-! ### judge -/
open Ctrmml.Diag

def kindOf : String → Option Diag.Kind
  | "valid" => some .valid | "unknown-char" => some .unknownChar | "missing-param" => some .missingParam
  | "illegal-duration" => some .illegalDuration | "unterminated-quote" => some .unterminatedQuote
  | "unterminated-cond" => some .unterminatedCond | "unterminated-key" => some .unterminatedKey | "loop-unclosed" => some .loopUnclosed
  | "loop-stray-end" => some .loopStrayEnd | "stray-break" => some .strayBreak | "missing-call" => some .missingCall
  | "missing-ins" => some .missingIns | "wrong-ins" => some .wrongIns | "note-range" => some .noteRange
  | "missing-platform" => some .missingPlatform
  | _ => none

def tracksOf (s : String) : Option (List Nat) :=
  if s == "-" then some [] else (s.splitOn "+").mapM String.toNat?

def parseInput (arg : String) : Option Input := do
  let ws := words arg
  let file ← ws.head?
  let lines ← ((ws.drop 1).takeWhile (· ≠ "@")).mapM MmlD.unhex
  let r1 := ((ws.drop 1).dropWhile (· ≠ "@")).drop 1
  let (kind, fl, fc, ft) ← match r1.takeWhile (· ≠ "@") with
    | [k, l, c, t] => some (← kindOf k, ← l.toNat?, ← c.toNat?, ← tracksOf t)
    | _ => none
  let r2 := (r1.dropWhile (· ≠ "@")).drop 1
  let toks ← (r2.filter (·.startsWith "t:")).mapM fun w =>
    match w.splitOn ":" with
    | [_, l, c, tr] => do pure ({ line := ← l.toNat?, col := ← c.toNat?, tracks := ← tracksOf tr } : Tok)
    | _ => none
  let calls ← (r2.filter (·.startsWith "c:")).mapM fun w =>
    match w.splitOn ":" with
    | [_, a, b] => do pure (← a.toNat?, ← b.toNat?)
    | _ => none
  pure { file := file, lineLens := lines.map List.length, toks := toks, calls := calls,
         fault := { kind := kind, line := fl, col := fc, tracks := ft } }

/-- undo the harness' blank → `_` on the separator after `file:line:col:` -/
def unToken (w : String) : String :=
  let cs := w.toList
  let (f, r1) := splitAtColon cs
  let (l, r2) := splitAtColon r1
  let (c, r3) := splitAtColon r2
  match r3 with
  | '_' :: m => String.ofList (f ++ [':'] ++ l ++ [':'] ++ c ++ [':', ' '] ++ m)
  | _ => w

def judgeDiag (arg impl : String) : String :=
  if impl.startsWith "crash" || impl == "timeout" then "fail crash" else
  match parseInput arg with
  | none =>
    -- no fault description: correspondence only — except that an exception which is no `InputError` (it carries no
    -- position at all) is never a diagnostic that points at the offending command
    if ((MmlD.fieldOf impl "what").map (·.startsWith "foreign:")) == some true then "fail foreign_exception" else "skip"
  | some i =>
    match MmlD.fieldOf impl "stage", MmlD.fieldOf impl "what" with
    | some stage, some what =>
      if what.startsWith "foreign:" then "fail foreign_exception" else
      let answer : Option (Option Pos) := if stage == "ok" then none else some (parseWhat (unToken what))
      match verdict i answer with
      | .ok => "ok"
      | .fail why => s!"fail {why} kind={repr i.fault.kind} at={i.fault.line + 1}:{i.fault.col + 1} got={what}"
    | _, _ => "skip"

def handlers : List Driver.Handler := [
  { cmd := "diag", model := runDiag, judge := judgeDiag }]

end Driver.DiagD
