import Driver.Common
import Ctrmml.Model.Tags
import Ctrmml.Spec.TagRender
namespace Driver.TagsD
open Ctrmml Ctrmml.Tags Driver

def hx (b : Bytes) : String := hexOrDash b

def showTag (t : List Bytes) : String := "[" ++ ",".intercalate (t.map hx) ++ "]"

def sortBy {α : Type} (lt : α → α → Bool) (l : List α) : List α := (l.toArray.qsort lt).toList

def dedupInts (l : List Int) : List Int :=
  (sortBy (fun a b => decide (a < b)) l).foldr (fun x acc => match acc with
    | y :: _ => if x == y then acc else x :: acc
    | [] => [x]) []

def dump (st : Inp) (ret : List Int) : String :=
  let tags := sortBy (fun a b => decide (a.1 < b.1)) st.song.tags
  let m := ";".intercalate (tags.map fun kv => hx kv.1 ++ "=" ++ showTag kv.2)
  let trs := sortBy (fun a b => decide (a.1 < b.1)) st.tracks
  let t := ";".intercalate (trs.map fun kv => toString kv.1 ++ ":[" ++ ",".intercalate (kv.2.map toString) ++ "]")
  let ids := dedupInts (ret ++ st.tracks.flatMap (·.2))
  let c := ";".intercalate (ids.map fun i => toString i ++ "=" ++ match getCmd st.song i with
    | some v => showTag v
    | none => "!")
  "map={" ++ m ++ "} tracks={" ++ t ++ "} cmds={" ++ c ++ "}"

inductive Op
  | set (k v : Bytes) | add (k v : Bytes) | list (k v : Bytes) | make (k : Bytes) | order
  | reg (p : Int) (v : Bytes) | line (l : Bytes)

def parseOp (s : String) : Option Op :=
  match s.splitOn ":" with
  | ["S", k, v] => do pure (.set (← bytesOfHex k) (← bytesOfHex v))
  | ["A", k, v] => do pure (.add (← bytesOfHex k) (← bytesOfHex v))
  | ["L", k, v] => do pure (.list (← bytesOfHex k) (← bytesOfHex v))
  | ["G", k] => do pure (.make (← bytesOfHex k))
  | ["O"] => some .order
  | ["R", p, v] => do pure (.reg (← p.toInt?) (← bytesOfHex v))
  | ["M", l] => do pure (.line (← bytesOfHex l))
  | _ => none

/-- (state, returned ids, err string, unsupported?) -/
def runOps : List Op → Nat → Inp → List Int → Inp × List Int × String × Bool
  | [], _, st, ret => (st, ret, "-", false)
  | op :: ops, i, st, ret =>
    match op with
    | .set k v => runOps ops (i + 1) { st with song := setTag st.song k v } ret
    | .add k v => runOps ops (i + 1) { st with song := addTag st.song k v } ret
    | .list k v => runOps ops (i + 1) { st with song := addTagList st.song k v } ret
    | .make k => runOps ops (i + 1) { st with song := getOrMake st.song k } ret
    | .order => runOps ops (i + 1) { st with song := (getTagOrderList st.song).1 } ret
    | .reg p v =>
      let (id, s') := registerCmd st.song p v
      runOps ops (i + 1) { st with song := s' } (ret ++ [id])
    | .line l =>
      match parseLine st l with
      | (st', .ok) => runOps ops (i + 1) st' ret
      | (st', .inputError) => (st', ret, s!"InputError@{i}", false)
      | (st', .unsupported) => (st', ret, "-", true)

def model (arg : String) : String :=
  match (words arg).mapM parseOp with
  | none => "bad-request"
  | some ops =>
    let (st, ret, err, unsup) := runOps ops 0 {} []
    if unsup then "unsupported" else
    s!"err={err} ret=[{",".intercalate (ret.map toString)}] " ++ dump st ret

/-! spec-level expectations for API-only requests: key order and the value left by a final `set` -/
def opKeySpec : Op → Int → Option (Bytes × Int)
  | .set k _, n | .add k _, n | .list k _, n | .make k, n => some (k, n)
  | .reg p _, n =>
    if p == -1 then some ("cmd_".toUTF8.toList ++ (toString n).toUTF8.toList, n + 1)
    else some ("cmd_".toUTF8.toList ++ (toString p).toUTF8.toList, n)
  | _, _ => none

def specKeys : List Op → Int → Option (List Bytes)
  | [], _ => some []
  | op :: ops, n => do
    let (k, n') ← opKeySpec op n
    let ks ← specKeys ops n'
    pure (k :: ks)

def orderKeyBytes : Bytes := "tag_order".toUTF8.toList

def hasSub (s sub : String) : Bool := (s.splitOn sub).length > 1

def judge (arg impl : String) : String :=
  if hasSub impl "UB:" then "fail undefined behaviour" else
  match (words arg).mapM parseOp with
  | none => "skip"
  | some ops =>
    match specKeys ops (-32768) with
    | none => "ok"     -- requests with whole lines: covered by correspondence + `tagr`
    | some ks =>
      if ks.contains orderKeyBytes || ks.length > 60000 then "ok" else
      let want := hx orderKeyBytes ++ "=" ++ showTag (TagSpec.firstDefs ks)
      if ks ≠ [] && !hasSub impl want then s!"fail tag order: want {want}" else
      -- the last `set` of a key that nothing touches afterwards leaves exactly [trimRight v]
      let rec chk : List Op → List Bytes → Option String
        | [], _ => none
        | op :: rest, ks' =>
          match op, ks' with
          | .set k v, _ :: later =>
            if later.contains k then chk rest later else
            let w := hx k ++ "=" ++ showTag [TagSpec.trimRight v]
            if hasSub impl ("{" ++ w) || hasSub impl (";" ++ w) then chk rest later
            else some s!"fail set_tag: want {w}"
          | _, _ :: later => chk rest later
          | _, [] => none
      match chk ops ks with
      | some f => f
      | none => "ok"

/-! `tagr`: rendered table lines -/
inductive Seg | item (raw : Bytes) | quoted (raw : Bytes) | sep (b : Bytes) | comment (b : Bytes) | nl

def parseSeg (s : String) : Option Seg :=
  if s == "N" then some .nl else
  match s.splitOn ":" with
  | ["I", h] => (bytesOfHex h).map .item
  | ["Q", h] => (bytesOfHex h).map .quoted
  | ["W", h] => (bytesOfHex h).map .sep
  | ["C", h] => (bytesOfHex h).map .comment
  | _ => none

def segText : Seg → Bytes
  | .item b | .sep b | .comment b => b
  | .quoted b => 34 :: b ++ [34]
  | .nl => []

def splitLines (segs : List Seg) : List (List Seg) :=
  let r := segs.foldl (fun (acc : List (List Seg) × List Seg) s =>
    match s with
    | .nl => (acc.1 ++ [acc.2], [])
    | s => (acc.1, acc.2 ++ [s])) ([], [])
  r.1 ++ [r.2]

def modelR (arg : String) : String :=
  match words arg with
  | [] => "bad-request"
  | k :: rest =>
    match bytesOfHex k, rest.mapM parseSeg with
    | some key, some segs =>
      let lines := (splitLines segs).map fun l => l.flatMap segText
      let mmlLines := match lines with
        | [] => []
        | l0 :: ls => ((64 :: key) ++ 32 :: l0) :: ls.map (32 :: ·)
      let a := match parseLines {} mmlLines with
        | (st, .ok) => "mml=" ++ showTag ((lookupTag st.song.tags (64 :: key)).getD [])
        | (_, .inputError) => "mml=exc:InputError"
        | (_, .unsupported) => "mml=unsupported"
      let s := lines.foldl (fun s l => addTagList s key l) Song.empty
      a ++ " api=" ++ showTag ((lookupTag s.tags key).getD [])
    | _, _ => "bad-request"

open TagSpec in
/-- segments of one line → abstract line (`none`: not of the shape lead item sep … comment) -/
def toLine (segs : List Seg) : Option Line :=
  let (lead, segs) := match segs with
    | .sep b :: r => (b, r)
    | r => ([], r)
  let rec items : List Seg → List (Item × Bytes) → Option (List (Item × Bytes) × Option Bytes)
    | [], acc => some (acc.reverse, none)
    | [.comment c], acc => match c with
      | 59 :: c' => some (acc.reverse, some c')
      | _ => none
    | .item v :: .sep s :: r, acc => items r ((.plain v, s) :: acc)
    | .quoted v :: .sep s :: r, acc => items r ((.quoted v, s) :: acc)
    | .item v :: r, acc => items r ((.plain v, []) :: acc)
    | .quoted v :: r, acc => items r ((.quoted v, []) :: acc)
    | _, _ => none
  match items segs [] with
  | some (its, c) => some { lead := lead, items := its, comment := c }
  | none => none

open TagSpec in
def lineOk (l : Line) : Bool :=
  l.lead.all isSepChar &&
  l.items.all (fun p => (match p.1 with
    | .plain v => !v.isEmpty && v.all (fun b => !isSpecial b)
    | .quoted raw => (unescape raw).isSome) && p.2.all isSepChar) &&
  (l.items.dropLast.all fun p => !p.2.isEmpty) &&
  (match l.comment with | some c => c.all (· != 0) | none => true)

def judgeR (arg impl : String) : String :=
  if hasSub impl "UB:" then "fail undefined behaviour" else
  match words arg with
  | [] => "skip"
  | _ :: rest =>
    match rest.mapM parseSeg with
    | none => "skip"
    | some segs =>
      match (splitLines segs).mapM toLine with
      | none => "skip"
      | some ls =>
        if !ls.all lineOk then "skip" else
        let v := showTag (TagSpec.denoteLines ls)
        let want := s!"mml={v} api={v}"
        if impl == want then "ok" else s!"fail want {want}"

/-! `tagl`: whole `#`/`@`/continuation lines with a known meaning -/
inductive Entry
  | hash (k blanks v : Bytes) | table (k : Bytes) (ws : List Bytes) | cont (ws : List Bytes)

def parseWords (s : String) : Option (List Bytes) :=
  if s == "." then some [] else (s.splitOn ",").mapM bytesOfHex

def parseEntry (s : String) : Option Entry :=
  match s.splitOn ":" with
  | ["H", k, b, v] => do pure (.hash (← bytesOfHex k) (← bytesOfHex b) (← bytesOfHex v))
  | ["T", k, ws] => do pure (.table (← bytesOfHex k) (← parseWords ws))
  | ["K", ws] => do pure (.cont (← parseWords ws))
  | _ => none

def joinWords (ws : List Bytes) : Bytes :=
  match ws with
  | [] => []
  | w :: rest => w ++ rest.flatMap (32 :: ·)

def entryLine : Entry → Bytes
  | .hash k b v => 35 :: k ++ b ++ v
  | .table k ws => 64 :: k ++ 32 :: joinWords ws
  | .cont ws => 32 :: joinWords ws

def modelL (arg : String) : String :=
  match (words arg).mapM parseEntry with
  | none => "bad-request"
  | some es => model (" ".intercalate (es.map fun e => "M:" ++ hx (entryLine e)))

open TagSpec in
/-- the documented meaning of the entries: (tags in definition order, key of the open `@` table) -/
def specEntries : List Entry → List (Bytes × List Bytes) × Option Bytes → List (Bytes × List Bytes) × Option Bytes
  | [], st => st
  | e :: es, (m, cur) =>
    let upd (m : List (Bytes × List Bytes)) (k : Bytes) (f : List Bytes → List Bytes) :=
      if m.any (·.1 == k) then m.map (fun kv => if kv.1 == k then (kv.1, f kv.2) else kv) else m ++ [(k, f [])]
    match e with
    | .hash k _ v => specEntries es (upd m (35 :: k.map lower) (fun _ => [trimRight v]), none)
    | .table k ws =>
      let key := 64 :: k.map lower
      specEntries es (if ws.isEmpty then m else upd m key (· ++ ws), some key)
    | .cont ws =>
      match cur with
      | some key => specEntries es (if ws.isEmpty then m else upd m key (· ++ ws), cur)
      | none => specEntries es (m, cur)

open TagSpec in
def entryOk : Entry → Bool
  | .hash k b v => !k.isEmpty && k.all (fun x => !isSpace x && x != 0) && (k.map lower != "platform".toUTF8.toList) &&
      !b.isEmpty && b.all (fun x => x == 32 || x == 9) && v.all (· != 0) &&
      (match v with | x :: _ => !(x == 32 || x == 9) | [] => false)
  | .table k ws => k.all (fun x => !isSpace x && x != 0) && ws.all (fun w => !w.isEmpty && w.all (fun x => !isSpecial x))
  | .cont ws => ws.all (fun w => !w.isEmpty && w.all (fun x => !isSpecial x))

def judgeL (arg impl : String) : String :=
  if hasSub impl "UB:" then "fail undefined behaviour" else
  match (words arg).mapM parseEntry with
  | none => "skip"
  | some es =>
    if !es.all entryOk then "skip" else
    let (m, _) := specEntries es ([], none)
    let order := m.map (·.1)
    let all := if m.isEmpty then [] else m ++ [(orderKeyBytes, order)]
    let sorted := sortBy (fun a b => decide (a.1 < b.1)) all
    let want := "err=- ret=[] map={" ++ ";".intercalate (sorted.map fun kv => hx kv.1 ++ "=" ++ showTag kv.2) ++ "} tracks={} cmds={}"
    if impl == want then "ok" else s!"fail lines: want {want}"

def handlers : List Driver.Handler :=
  [{ cmd := "tags", model := model, judge := judge },
   { cmd := "tagr", model := modelR, judge := judgeR },
   { cmd := "tagl", model := modelL, judge := judgeL }]

end Driver.TagsD
